import Avfs.Idm
set_option linter.unusedSimpArgs false
set_option linter.unusedVariables false
/-
  Helper lemmas for C15: the map invariant, the ghost log of issued ids, the refinement relation.
-/
namespace Avfs.Idm

/-- name map and id map are inverse of each other, ids are bounded by the counter. -/
structure Inv (s : State) : Prop where
  g1 : ∀ n g, AL.lookup n s.gByName = some g → g.name = n ∧ AL.lookup g.gid s.gById = some g
  g2 : ∀ i g, AL.lookup i s.gById = some g → g.gid = i ∧ AL.lookup g.name s.gByName = some g
  g3 : ∀ i g, AL.lookup i s.gById = some g → i ≤ s.maxGid
  u1 : ∀ n u, AL.lookup n s.uByName = some u → u.name = n ∧ AL.lookup u.uid s.uById = some u
  u2 : ∀ i u, AL.lookup i s.uById = some u → u.uid = i ∧ AL.lookup u.name s.uByName = some u
  u3 : ∀ i u, AL.lookup i s.uById = some u → i ≤ s.maxUid

theorem inv_init (an gn : Bytes) : Inv (init an gn) := by
  constructor <;> intro k x h <;>
    simp [init, AL.lookup] at h <;> obtain ⟨h1, h2⟩ := h <;> subst h1 <;> subst h2 <;>
    simp [init, AL.lookup, minId]

theorem inv_step (s : State) (op : Op) (h : Inv s) : Inv (step s op).1 := by
  cases op with
  | addGroup n =>
    simp only [step]
    split
    · exact h
    · rename_i hn
      constructor
      · intro n' g hl
        simp only [AL.lookup_insert] at hl
        split at hl
        · rename_i e; subst e; cases hl; simp
        · rename_i e
          have := h.g1 n' g hl
          refine ⟨this.1, ?_⟩
          have hb := h.g3 _ _ this.2
          have : s.maxGid + 1 ≠ g.gid := by omega
          simp [AL.lookup_insert, this]; exact (h.g1 n' g hl).2
      · intro i g hl
        simp only [AL.lookup_insert] at hl
        split at hl
        · rename_i e; subst e; cases hl; simp
        · rename_i e
          have := h.g2 i g hl
          refine ⟨this.1, ?_⟩
          have hne : n ≠ g.name := by
            intro e2; rw [e2] at hn; rw [this.2] at hn; cases hn
          simp [AL.lookup_insert, hne]; exact this.2
      · intro i g hl
        simp only [AL.lookup_insert] at hl
        split at hl
        · rename_i e; subst e; simp
        · have := h.g3 i g hl; simp; omega
      · exact h.u1
      · exact h.u2
      · exact h.u3
  | addUser n gn =>
    simp only [step]
    split
    · exact h
    · split
      · exact h
      · rename_i g hg hn
        constructor
        · exact h.g1
        · exact h.g2
        · exact h.g3
        · intro n' u hl
          simp only [AL.lookup_insert] at hl
          split at hl
          · rename_i e; subst e; cases hl; simp
          · rename_i e
            have := h.u1 n' u hl
            refine ⟨this.1, ?_⟩
            have hb := h.u3 _ _ this.2
            have : s.maxUid + 1 ≠ u.uid := by omega
            simp [AL.lookup_insert, this]; exact (h.u1 n' u hl).2
        · intro i u hl
          simp only [AL.lookup_insert] at hl
          split at hl
          · rename_i e; subst e; cases hl; simp
          · rename_i e
            have := h.u2 i u hl
            refine ⟨this.1, ?_⟩
            have hne : n ≠ u.name := by
              intro e2; rw [e2] at hn; rw [this.2] at hn; cases hn
            simp [AL.lookup_insert, hne]; exact this.2
        · intro i u hl
          simp only [AL.lookup_insert] at hl
          split at hl
          · rename_i e; subst e; simp
          · have := h.u3 i u hl; simp; omega
  | delGroup n =>
    simp only [step]
    split
    · exact h
    · rename_i g hg
      have hgn := (h.g1 n g hg)
      constructor
      · intro n' g' hl
        simp only [AL.lookup_erase] at hl
        split at hl
        · cases hl
        · rename_i e
          have := h.g1 n' g' hl
          refine ⟨this.1, ?_⟩
          have hne : g.gid ≠ g'.gid := by
            intro e2
            have h2 := hgn.2; rw [e2, this.2] at h2; cases h2
            exact e this.1
          simp [AL.lookup_erase, hne]; exact this.2
      · intro i g' hl
        simp only [AL.lookup_erase] at hl
        split at hl
        · cases hl
        · rename_i e
          have := h.g2 i g' hl
          refine ⟨this.1, ?_⟩
          have hne : g.name ≠ g'.name := by
            intro e2
            have h2 := this.2; rw [← e2, hgn.1, hg] at h2; cases h2
            exact e this.1
          simp [AL.lookup_erase, hne]; exact this.2
      · intro i g' hl
        simp only [AL.lookup_erase] at hl
        split at hl
        · cases hl
        · exact h.g3 i g' hl
      · exact h.u1
      · exact h.u2
      · exact h.u3
  | delUser n =>
    simp only [step]
    split
    · exact h
    · rename_i u hu
      have hun := (h.u1 n u hu)
      constructor
      · exact h.g1
      · exact h.g2
      · exact h.g3
      · intro n' u' hl
        simp only [AL.lookup_erase] at hl
        split at hl
        · cases hl
        · rename_i e
          have := h.u1 n' u' hl
          refine ⟨this.1, ?_⟩
          have hne : u.uid ≠ u'.uid := by
            intro e2
            have h2 := hun.2; rw [e2, this.2] at h2; cases h2
            exact e this.1
          simp [AL.lookup_erase, hne]; exact this.2
      · intro i u' hl
        simp only [AL.lookup_erase] at hl
        split at hl
        · cases hl
        · rename_i e
          have := h.u2 i u' hl
          refine ⟨this.1, ?_⟩
          have hne : u.name ≠ u'.name := by
            intro e2
            have h2 := this.2; rw [← e2, hun.1, hu] at h2; cases h2
            exact e this.1
          simp [AL.lookup_erase, hne]; exact this.2
      · intro i u' hl
        simp only [AL.lookup_erase] at hl
        split at hl
        · cases hl
        · exact h.u3 i u' hl
  | lookupGroup n => simp only [step]; split <;> exact h
  | lookupGroupId i => simp only [step]; split <;> exact h
  | lookupUser n => simp only [step]; split <;> exact h
  | lookupUserId i => simp only [step]; split <;> exact h
  | isAdmin n => simp only [step]; split <;> exact h

theorem inv_final (s : State) (ops : List Op) (h : Inv s) : Inv (final s ops) := by
  induction ops generalizing s with
  | nil => exact h
  | cons op ops ih => exact ih _ (inv_step s op h)

theorem run_fst_eq_final (s : State) (ops : List Op) : (run s ops).1 = final s ops := by
  induction ops generalizing s with
  | nil => rfl
  | cons op ops ih => simp [run, final, List.foldl]; exact ih _

end Avfs.Idm

namespace Avfs.Idm

/-! ## Ghost log of issued ids -/

/-- `J s HG HU`: everything in the maps was issued, issued ids are bounded by the counters and
    an id was issued to one entity only. -/
structure Log (s : State) (HG : List Grp) (HU : List Usr) : Prop where
  gin : ∀ i g, AL.lookup i s.gById = some g → g ∈ HG
  gin' : ∀ n g, AL.lookup n s.gByName = some g → g ∈ HG
  gle : ∀ g ∈ HG, g.gid ≤ s.maxGid
  gfun : ∀ g ∈ HG, ∀ g' ∈ HG, g.gid = g'.gid → g = g'
  uin : ∀ i u, AL.lookup i s.uById = some u → u ∈ HU
  uin' : ∀ n u, AL.lookup n s.uByName = some u → u ∈ HU
  ule : ∀ u ∈ HU, u.uid ≤ s.maxUid
  ufun : ∀ u ∈ HU, ∀ u' ∈ HU, u.uid = u'.uid → u = u'

def logOut (HG : List Grp) (HU : List Usr) : Out → List Grp × List Usr
  | .grp g => (g :: HG, HU)
  | .usr u => (HG, u :: HU)
  | _ => (HG, HU)

theorem log_init (an gn : Bytes) :
    Log (init an gn) [{ name := gn, gid := 0 }] [{ name := an, uid := 0, gid := 0 }] := by
  constructor
  all_goals first
    | (intro k x h; simp [init, AL.lookup] at h; simp [h.2])
    | (intro x hx; simp at hx; subst hx; simp [init, minId])
    | (intro x hx y hy _; simp at hx hy; rw [hx, hy])

theorem log_step (s : State) (op : Op) (HG : List Grp) (HU : List Usr) (h : Log s HG HU) :
    Log (step s op).1 (logOut HG HU (step s op).2).1 (logOut HG HU (step s op).2).2 := by
  have weakenG : ∀ g, Log s HG HU → g ∈ HG → Log s (g :: HG) HU := by
    intro g h hg
    have hsub : ∀ x, x ∈ g :: HG → x ∈ HG := by
      intro x hx; cases hx with
      | head => exact hg
      | tail _ hx => exact hx
    exact { h with
      gin := fun i x hx => List.mem_cons_of_mem _ (h.gin i x hx)
      gin' := fun i x hx => List.mem_cons_of_mem _ (h.gin' i x hx)
      gle := fun x hx => h.gle x (hsub x hx)
      gfun := fun x hx y hy e => h.gfun x (hsub x hx) y (hsub y hy) e }
  have weakenU : ∀ u, Log s HG HU → u ∈ HU → Log s HG (u :: HU) := by
    intro u h hu
    have hsub : ∀ x, x ∈ u :: HU → x ∈ HU := by
      intro x hx; cases hx with
      | head => exact hu
      | tail _ hx => exact hx
    exact { h with
      uin := fun i x hx => List.mem_cons_of_mem _ (h.uin i x hx)
      uin' := fun i x hx => List.mem_cons_of_mem _ (h.uin' i x hx)
      ule := fun x hx => h.ule x (hsub x hx)
      ufun := fun x hx y hy e => h.ufun x (hsub x hx) y (hsub y hy) e }
  cases op with
  | addGroup n =>
    simp only [step]
    split
    · exact h
    · simp only [logOut]
      constructor
      · intro i g hl
        simp only [AL.lookup_insert] at hl
        split at hl
        · cases hl; simp
        · exact List.mem_cons_of_mem _ (h.gin i g hl)
      · intro i g hl
        simp only [AL.lookup_insert] at hl
        split at hl
        · cases hl; simp
        · exact List.mem_cons_of_mem _ (h.gin' i g hl)
      · intro g hg
        cases hg with
        | head => simp
        | tail _ hg => have := h.gle g hg; simp; omega
      · intro g hg g' hg' e
        cases hg with
        | head =>
          cases hg' with
          | head => rfl
          | tail _ hg' => have := h.gle g' hg'; simp at e; omega
        | tail _ hg =>
          cases hg' with
          | head => have := h.gle g hg; simp at e; omega
          | tail _ hg' => exact h.gfun g hg g' hg' e
      · exact h.uin
      · exact h.uin'
      · exact h.ule
      · exact h.ufun
  | addUser n gn =>
    simp only [step]
    split
    · exact h
    · split
      · exact h
      · simp only [logOut]
        constructor
        · exact h.gin
        · exact h.gin'
        · exact h.gle
        · exact h.gfun
        · intro i g hl
          simp only [AL.lookup_insert] at hl
          split at hl
          · cases hl; simp
          · exact List.mem_cons_of_mem _ (h.uin i g hl)
        · intro i g hl
          simp only [AL.lookup_insert] at hl
          split at hl
          · cases hl; simp
          · exact List.mem_cons_of_mem _ (h.uin' i g hl)
        · intro g hg
          cases hg with
          | head => simp
          | tail _ hg => have := h.ule g hg; simp; omega
        · intro g hg g' hg' e
          cases hg with
          | head =>
            cases hg' with
            | head => rfl
            | tail _ hg' => have := h.ule g' hg'; simp at e; omega
          | tail _ hg =>
            cases hg' with
            | head => have := h.ule g hg; simp at e; omega
            | tail _ hg' => exact h.ufun g hg g' hg' e
  | delGroup n =>
    simp only [step]
    split
    · exact h
    · simp only [logOut]
      exact { h with
        gin := by
          intro i g hl; simp only [AL.lookup_erase] at hl
          split at hl
          · cases hl
          · exact h.gin i g hl
        gin' := by
          intro i g hl; simp only [AL.lookup_erase] at hl
          split at hl
          · cases hl
          · exact h.gin' i g hl }
  | delUser n =>
    simp only [step]
    split
    · exact h
    · simp only [logOut]
      exact { h with
        uin := by
          intro i g hl; simp only [AL.lookup_erase] at hl
          split at hl
          · cases hl
          · exact h.uin i g hl
        uin' := by
          intro i g hl; simp only [AL.lookup_erase] at hl
          split at hl
          · cases hl
          · exact h.uin' i g hl }
  | lookupGroup n =>
    simp only [step]; split
    · exact h
    · rename_i g hg; exact weakenG g h (h.gin' _ _ hg)
  | lookupGroupId i =>
    simp only [step]; split
    · exact h
    · rename_i g hg; exact weakenG g h (h.gin _ _ hg)
  | lookupUser n =>
    simp only [step]; split
    · exact h
    · rename_i g hg; exact weakenU g h (h.uin' _ _ hg)
  | lookupUserId i =>
    simp only [step]; split
    · exact h
    · rename_i g hg; exact weakenU g h (h.uin _ _ hg)
  | isAdmin n => simp only [step]; split <;> exact h

theorem logOut_mono (HG : List Grp) (HU : List Usr) (o : Out) :
    (∀ g ∈ HG, g ∈ (logOut HG HU o).1) ∧ (∀ u ∈ HU, u ∈ (logOut HG HU o).2) := by
  cases o <;> simp [logOut] <;> intros <;> simp [*]

theorem logOut_mem (HG : List Grp) (HU : List Usr) (o : Out) :
    (∀ g, o = .grp g → g ∈ (logOut HG HU o).1) ∧ (∀ u, o = .usr u → u ∈ (logOut HG HU o).2) := by
  cases o <;> simp [logOut]

/-- every group / user ever returned by a history lies in one log with unique ids -/
theorem log_run (s : State) (ops : List Op) (HG : List Grp) (HU : List Usr) (h : Log s HG HU) :
    ∃ HG' HU', Log (run s ops).1 HG' HU' ∧ (∀ g ∈ HG, g ∈ HG') ∧ (∀ u ∈ HU, u ∈ HU') ∧
      (∀ g, Out.grp g ∈ (run s ops).2 → g ∈ HG') ∧ (∀ u, Out.usr u ∈ (run s ops).2 → u ∈ HU') := by
  induction ops generalizing s HG HU with
  | nil => exact ⟨HG, HU, h, fun _ h => h, fun _ h => h, by simp [run], by simp [run]⟩
  | cons op ops ih =>
    have h1 := log_step s op HG HU h
    obtain ⟨HG', HU', hl, hg, hu, hog, hou⟩ := ih _ _ _ h1
    have hm := logOut_mono HG HU (step s op).2
    have hmem := logOut_mem HG HU (step s op).2
    refine ⟨HG', HU', ?_, fun g hx => hg g (hm.1 g hx), fun u hx => hu u (hm.2 u hx), ?_, ?_⟩
    · simpa [run] using hl
    · intro g hx
      simp only [run, List.mem_cons] at hx
      cases hx with
      | inl e => exact hg g (hmem.1 g e.symm)
      | inr e => exact hog g e
    · intro u hx
      simp only [run, List.mem_cons] at hx
      cases hx with
      | inl e => exact hu u (hmem.2 u e.symm)
      | inr e => exact hou u e

end Avfs.Idm

namespace Avfs.Idm

/-! ## Refinement to the two-map spec -/

theorem find_congr' {α : Type} (p q : α → Bool) (l : List α) (h : ∀ x ∈ l, p x = q x) :
    l.find? p = l.find? q := by
  induction l with
  | nil => rfl
  | cons x l ih =>
    have hx := h x (by simp)
    simp only [List.find?, hx]
    rw [ih (fun y hy => h y (List.mem_cons_of_mem _ hy))]

theorem find_filter_aux {α : Type} (p q : α → Bool) (l : List α) (g : α)
    (hp : ∀ x ∈ l, p x = true → x = g) (hpg : p g = true)
    (hq : ∀ x ∈ l, q x = true → q g = true → x = g) :
    (l.filter (fun x => !p x)).find? q = if q g then none else l.find? q := by
  rw [List.find?_filter]
  by_cases hqg : q g = true
  · simp only [hqg, if_true]
    rw [List.find?_eq_none]
    intro x hx
    by_cases hqx : q x = true
    · have := hq x hx hqx hqg; subst this; simp [hpg]
    · simp [hqx]
  · simp only [hqg]
    apply find_congr'
    intro x hx
    by_cases hpx : p x = true
    · have := hp x hx hpx; subst this; simp [hqg]
    · simp [hpx]

structure SpecInv (sp : Spec) : Prop where
  ginj : ∀ x ∈ sp.groups, ∀ y ∈ sp.groups, x.name = y.name ∨ x.gid = y.gid → x = y
  glt : ∀ x ∈ sp.groups, x.gid < sp.nextGid
  uinj : ∀ x ∈ sp.users, ∀ y ∈ sp.users, x.name = y.name ∨ x.uid = y.uid → x = y
  ult : ∀ x ∈ sp.users, x.uid < sp.nextUid

structure R (s : State) (sp : Spec) : Prop where
  gn : ∀ n, AL.lookup n s.gByName = sp.groups.find? (·.name = n)
  gi : ∀ i, AL.lookup i s.gById = sp.groups.find? (·.gid = i)
  un : ∀ n, AL.lookup n s.uByName = sp.users.find? (·.name = n)
  ui : ∀ i, AL.lookup i s.uById = sp.users.find? (·.uid = i)
  cg : sp.nextGid = s.maxGid + 1
  cu : sp.nextUid = s.maxUid + 1

theorem specInv_init (an gn : Bytes) : SpecInv (Spec.init an gn) := by
  constructor <;> simp [Spec.init, minId]

theorem r_init (an gn : Bytes) : R (init an gn) (Spec.init an gn) := by
  constructor <;> simp [init, Spec.init, AL.lookup, List.find?] <;> intro k <;> split <;> simp_all

theorem specInv_step (sp : Spec) (op : Op) (h : SpecInv sp) : SpecInv (Spec.step sp op).1 := by
  cases op with
  | addGroup n =>
    simp only [Spec.step]; split
    · exact h
    · rename_i hn
      rw [List.find?_eq_none] at hn
      constructor
      · intro x hx y hy e
        simp only [List.mem_cons] at hx hy
        rcases hx with hx | hx <;> rcases hy with hy | hy
        · rw [hx, hy]
        · subst hx; have h1 := hn y hy; have h2 := h.glt y hy
          rcases e with e | e
          · simp at e h1; exact absurd e.symm h1
          · simp at e; omega
        · subst hy; have h1 := hn x hx; have h2 := h.glt x hx
          rcases e with e | e
          · simp at e h1; exact absurd e h1
          · simp at e; omega
        · exact h.ginj x hx y hy e
      · intro x hx
        simp only [List.mem_cons] at hx
        rcases hx with hx | hx
        · subst hx; simp; omega
        · have := h.glt x hx; simp; omega
      · exact h.uinj
      · exact h.ult
  | addUser n gn =>
    simp only [Spec.step]; split
    · exact h
    · split
      · exact h
      · rename_i hn
        rw [List.find?_eq_none] at hn
        constructor
        · exact h.ginj
        · exact h.glt
        · intro x hx y hy e
          simp only [List.mem_cons] at hx hy
          rcases hx with hx | hx <;> rcases hy with hy | hy
          · rw [hx, hy]
          · subst hx; have h1 := hn y hy; have h2 := h.ult y hy
            rcases e with e | e
            · simp at e h1; exact absurd e.symm h1
            · simp at e; omega
          · subst hy; have h1 := hn x hx; have h2 := h.ult x hx
            rcases e with e | e
            · simp at e h1; exact absurd e h1
            · simp at e; omega
          · exact h.uinj x hx y hy e
        · intro x hx
          simp only [List.mem_cons] at hx
          rcases hx with hx | hx
          · subst hx; simp; omega
          · have := h.ult x hx; simp; omega
  | delGroup n =>
    simp only [Spec.step]; split
    · exact h
    · exact { h with
        ginj := fun x hx y hy e => h.ginj x (List.mem_filter.mp hx).1 y (List.mem_filter.mp hy).1 e
        glt := fun x hx => h.glt x (List.mem_filter.mp hx).1 }
  | delUser n =>
    simp only [Spec.step]; split
    · exact h
    · exact { h with
        uinj := fun x hx y hy e => h.uinj x (List.mem_filter.mp hx).1 y (List.mem_filter.mp hy).1 e
        ult := fun x hx => h.ult x (List.mem_filter.mp hx).1 }
  | lookupGroup n => simp only [Spec.step]; split <;> exact h
  | lookupGroupId i => simp only [Spec.step]; split <;> exact h
  | lookupUser n => simp only [Spec.step]; split <;> exact h
  | lookupUserId i => simp only [Spec.step]; split <;> exact h
  | isAdmin n => simp only [Spec.step]; split <;> exact h

/-- one step of the implementation model is one step of the spec: same output, related states -/
theorem r_step (s : State) (sp : Spec) (op : Op) (hi : Inv s) (hs : SpecInv sp) (h : R s sp) :
    (step s op).2 = (Spec.step sp op).2 ∧ R (step s op).1 (Spec.step sp op).1 := by
  cases op with
  | addGroup n =>
    simp only [step, Spec.step, h.gn n]
    split
    · exact ⟨rfl, h⟩
    · refine ⟨by simp [h.cg], ?_⟩
      constructor
      · intro n'; simp only [AL.lookup_insert, List.find?, h.cg, h.gn n']
        by_cases e : n = n' <;> simp [e]
      · intro i; simp only [AL.lookup_insert, List.find?, h.cg, h.gi i]
        by_cases e : s.maxGid + 1 = i <;> simp [e]
      · exact h.un
      · exact h.ui
      · simp [h.cg]
      · exact h.cu
  | addUser n gn =>
    simp only [step, Spec.step, lookupGroup, h.gn gn, h.un n]
    split
    · exact ⟨rfl, h⟩
    · split
      · exact ⟨rfl, h⟩
      · refine ⟨by simp [h.cu], ?_⟩
        constructor
        · exact h.gn
        · exact h.gi
        · intro n'; simp only [AL.lookup_insert, List.find?, h.cu, h.un n']
          by_cases e : n = n' <;> simp [e]
        · intro i; simp only [AL.lookup_insert, List.find?, h.cu, h.ui i]
          by_cases e : s.maxUid + 1 = i <;> simp [e]
        · exact h.cg
        · simp [h.cu]
  | delGroup n =>
    simp only [step, Spec.step]
    rw [h.gn n]
    split
    · exact ⟨rfl, h⟩
    · rename_i g hg
      have hmem := List.mem_of_find?_eq_some hg
      have hgn : g.name = n := by simpa using List.find?_some hg
      refine ⟨rfl, ?_⟩
      have key : ∀ q : Grp → Bool, (∀ x ∈ sp.groups, q x = true → q g = true → x = g) →
          (sp.groups.filter (fun x => decide (x.name ≠ n))).find? q
            = if q g then none else sp.groups.find? q := by
        intro q hq
        have := find_filter_aux (fun x => decide (x.name = n)) q sp.groups g
          (by intro x hx hp; exact hs.ginj x hx g hmem (Or.inl (by simp at hp; rw [hp, hgn])))
          (by simp [hgn]) hq
        simpa using this
      constructor
      · intro n'
        simp only [AL.lookup_erase, h.gn n']
        rw [key]
        · simp [hgn]
        · intro x hx h1 h2; simp at h1 h2; exact hs.ginj x hx g hmem (Or.inl (by rw [h1, h2]))
      · intro i
        simp only [AL.lookup_erase, h.gi i]
        rw [key]
        · simp
        · intro x hx h1 h2; simp at h1 h2; exact hs.ginj x hx g hmem (Or.inr (by rw [h1, h2]))
      · exact h.un
      · exact h.ui
      · exact h.cg
      · exact h.cu
  | delUser n =>
    simp only [step, Spec.step]
    rw [h.un n]
    split
    · exact ⟨rfl, h⟩
    · rename_i u hu
      have hmem := List.mem_of_find?_eq_some hu
      have hun : u.name = n := by simpa using List.find?_some hu
      refine ⟨rfl, ?_⟩
      have key : ∀ q : Usr → Bool, (∀ x ∈ sp.users, q x = true → q u = true → x = u) →
          (sp.users.filter (fun x => decide (x.name ≠ n))).find? q
            = if q u then none else sp.users.find? q := by
        intro q hq
        have := find_filter_aux (fun x => decide (x.name = n)) q sp.users u
          (by intro x hx hp; exact hs.uinj x hx u hmem (Or.inl (by simp at hp; rw [hp, hun])))
          (by simp [hun]) hq
        simpa using this
      constructor
      · exact h.gn
      · exact h.gi
      · intro n'
        simp only [AL.lookup_erase, h.un n']
        rw [key]
        · simp [hun]
        · intro x hx h1 h2; simp at h1 h2; exact hs.uinj x hx u hmem (Or.inl (by rw [h1, h2]))
      · intro i
        simp only [AL.lookup_erase, h.ui i]
        rw [key]
        · simp
        · intro x hx h1 h2; simp at h1 h2; exact hs.uinj x hx u hmem (Or.inr (by rw [h1, h2]))
      · exact h.cg
      · exact h.cu
  | lookupGroup n => simp only [step, Spec.step, h.gn n]; split <;> exact ⟨rfl, h⟩
  | lookupGroupId i => simp only [step, Spec.step, h.gi i]; split <;> exact ⟨rfl, h⟩
  | lookupUser n => simp only [step, Spec.step, h.un n]; split <;> exact ⟨rfl, h⟩
  | lookupUserId i => simp only [step, Spec.step, h.ui i]; split <;> exact ⟨rfl, h⟩
  | isAdmin n => simp only [step, Spec.step, h.un n, isAdminImpl]; split <;> exact ⟨rfl, h⟩

def Spec.run (s : Spec) : List Op → Spec × List Out
  | [] => (s, [])
  | op :: ops =>
    let (s', o) := Spec.step s op
    let (s'', os) := Spec.run s' ops
    (s'', o :: os)

theorem r_run (s : State) (sp : Spec) (ops : List Op) (hi : Inv s) (hs : SpecInv sp) (h : R s sp) :
    (run s ops).2 = (Spec.run sp ops).2 ∧ R (run s ops).1 (Spec.run sp ops).1 := by
  induction ops generalizing s sp with
  | nil => exact ⟨rfl, h⟩
  | cons op ops ih =>
    have h1 := r_step s sp op hi hs h
    have h2 := ih _ _ (inv_step s op hi) (specInv_step sp op hs) h1.2
    simp only [run, Spec.run]
    exact ⟨by rw [h1.1, h2.1], h2.2⟩

end Avfs.Idm
