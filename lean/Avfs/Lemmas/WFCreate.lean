import Avfs.Lemmas.Heap
/-
  C05 for the creating calls: `mkdir`, `mkdirAll`, `openFile`, `symlink`, `link` preserve the tree invariant `WF`.
-/
namespace Avfs.FS
open Avfs.Path

/-- the directory in which `searchNode` stops belongs to the tree of `root`
    (true when the root of the view is attached; NOT a consequence of `WF` and `SearchOK` alone: a view may be
    rooted at a removed, hence orphan, directory) -/
def ParentAttached (s : Store) (root : Ino) (v : View) : Prop :=
  ∀ p m, (searchNode s v p m).parent = root ∨ ∃ q qn, Edge s q qn (searchNode s v p m).parent

/-! ### two generic transfer lemmas -/

/-- `s'` has the entries of `s` plus one new entry `(d, n) ↦ c`; if `c` is a directory of `s'` it is fresh -/
theorem wf_addEdge {s s' : Store} {root d c : Ino} {n : Bytes}
    (hwf : WF s root)
    (hE : ∀ d' n' c', Edge s' d' n' c' ↔ (d' = d ∧ n' = n ∧ c' = c) ∨ Edge s d' n' c')
    (hdir : ∀ i, i ≠ c → isDirAt s' i = isDirAt s i)
    (hsome : ∀ i, (s.get i).isSome = true → (s'.get i).isSome = true)
    (hc : (s'.get c).isSome = true)
    (hbound : ∀ i, (s'.get i).isSome = true → i < s'.next)
    (hcroot : c ≠ root)
    (hatt : d = root ∨ ∃ p pn, Edge s p pn d)
    (hfresh : isDirAt s' c = true → (∀ d' n', ¬ Edge s d' n' c) ∧ (∀ n' c', ¬ Edge s c n' c'))
    (hnlink : ∀ i m data nl id, s'.get i = some (.file m data nl id) → nl = (linkCount s' i : Int))
    (hids : ∀ i j m dt nl id m' dt' nl', s'.get i = some (.file m dt nl id) →
      s'.get j = some (.file m' dt' nl' id) → i = j)
    (hidb : ∀ i m dt nl id, s'.get i = some (.file m dt nl id) → id ≤ s'.lastId) :
    WF s' root := by
  refine ⟨?_, ?_, ?_, hbound, ?_, ?_, ?_, hnlink, hids, hidb⟩
  · rw [hdir root (fun e => hcroot e.symm)]; exact hwf.rootDir
  · intro d' n' he
    rcases (hE _ _ _).mp he with ⟨_, _, h⟩ | h
    · exact hcroot h.symm
    · exact hwf.rootNoParent _ _ h
  · intro d' n' c' he
    rcases (hE _ _ _).mp he with ⟨_, _, h⟩ | h
    · rw [h]; exact hc
    · exact hsome _ (hwf.alloc _ _ _ h)
  · obtain ⟨dep, hdep⟩ := hwf.depth
    by_cases hcd : isDirAt s' c = true
    · obtain ⟨hin, hout⟩ := hfresh hcd
      have hdc : d ≠ c := by
        rcases hatt with h | ⟨p, pn, hp⟩
        · rw [h]; exact fun e => hcroot e.symm
        · intro e; rw [e] at hp; exact hin _ _ hp
      refine ⟨fun i => if i = c then dep d + 1 else dep i, ?_⟩
      intro d' n' c' he hc'
      rcases (hE _ _ _).mp he with ⟨h1, _, h3⟩ | h
      · subst h1; subst h3; simp [hdc]
      · have h1 : c' ≠ c := fun e => hin _ _ (e ▸ h)
        have h2 : d' ≠ c := fun e => hout _ _ (e ▸ h)
        simp only [h1, h2, if_false]
        apply hdep _ _ _ h
        rw [← hdir _ h1]; exact hc'
    · refine ⟨dep, ?_⟩
      intro d' n' c' he hc'
      have h1 : c' ≠ c := fun e => hcd (e ▸ hc')
      rcases (hE _ _ _).mp he with ⟨_, _, h3⟩ | h
      · exact absurd h3 h1
      · apply hdep _ _ _ h
        rw [← hdir _ h1]; exact hc'
  · intro d1 n1 d2 n2 c' he1 he2 hc'
    by_cases h1 : c' = c
    · subst h1
      obtain ⟨hin, _⟩ := hfresh hc'
      rcases (hE _ _ _).mp he1 with ⟨a1, a2, _⟩ | h
      · rcases (hE _ _ _).mp he2 with ⟨b1, b2, _⟩ | h'
        · exact ⟨a1.trans b1.symm, a2.trans b2.symm⟩
        · exact absurd h' (hin _ _)
      · exact absurd h (hin _ _)
    · rcases (hE _ _ _).mp he1 with ⟨_, _, a3⟩ | h
      · exact absurd a3 h1
      · rcases (hE _ _ _).mp he2 with ⟨_, _, b3⟩ | h'
        · exact absurd b3 h1
        · exact hwf.uniqueParent _ _ _ _ _ h h' (by rw [← hdir _ h1]; exact hc')
  · intro d' n' c' he
    have lift : ∀ x, (x = root ∨ ∃ p pn, Edge s p pn x) → (x = root ∨ ∃ p pn, Edge s' p pn x) := by
      intro x hx
      rcases hx with h | ⟨p, pn, hp⟩
      · exact Or.inl h
      · exact Or.inr ⟨p, pn, (hE _ _ _).mpr (Or.inr hp)⟩
    rcases (hE _ _ _).mp he with ⟨a1, _, _⟩ | h
    · rw [a1]; exact lift _ hatt
    · exact lift _ (hwf.attached _ _ _ h)

/-- `s'` has exactly the entries, kinds, bindings and link counts of `s` -/
theorem wf_sameEdges {s s' : Store} {root : Ino}
    (hwf : WF s root)
    (hE : ∀ d' n' c', Edge s' d' n' c' ↔ Edge s d' n' c')
    (hdir : ∀ i, isDirAt s' i = isDirAt s i)
    (hsome : ∀ i, (s'.get i).isSome = (s.get i).isSome)
    (hnext : s'.next = s.next)
    (hnlink : ∀ i m data nl id, s'.get i = some (.file m data nl id) → nl = (linkCount s' i : Int))
    (hids : ∀ i j m dt nl id m' dt' nl', s'.get i = some (.file m dt nl id) →
      s'.get j = some (.file m' dt' nl' id) → i = j)
    (hidb : ∀ i m dt nl id, s'.get i = some (.file m dt nl id) → id ≤ s'.lastId) :
    WF s' root := by
  refine ⟨?_, ?_, ?_, ?_, ?_, ?_, ?_, hnlink, hids, hidb⟩
  · rw [hdir]; exact hwf.rootDir
  · intro d n he; exact hwf.rootNoParent _ _ ((hE _ _ _).mp he)
  · intro d n c he; rw [hsome]; exact hwf.alloc _ _ _ ((hE _ _ _).mp he)
  · intro i hi; rw [hnext]; rw [hsome] at hi; exact hwf.bound _ hi
  · obtain ⟨dep, hdep⟩ := hwf.depth
    exact ⟨dep, fun d n c he hc => hdep _ _ _ ((hE _ _ _).mp he) (by rw [← hdir]; exact hc)⟩
  · intro d n d' n' c he he' hc
    exact hwf.uniqueParent _ _ _ _ _ ((hE _ _ _).mp he) ((hE _ _ _).mp he') (by rw [← hdir]; exact hc)
  · intro d n c he
    rcases hwf.attached _ _ _ ((hE _ _ _).mp he) with h | ⟨p, pn, hp⟩
    · exact Or.inl h
    · exact Or.inr ⟨p, pn, (hE _ _ _).mpr hp⟩

/-! ### (B) a fresh leaf cell entered under a directory -/

/-- entries of a node -/
def Node.ch : Node → List (Bytes × Ino)
  | .dir _ ch => ch
  | _ => []

theorem Store.children_eq_ch {s : Store} {i : Ino} {nd : Node} (h : s.get i = some nd) :
    s.children i = nd.ch := by
  cases nd <;> simp [Store.children, h, Node.ch]

theorem isDirAt_eq_isDir {s : Store} {i : Ino} {nd : Node} (h : s.get i = some nd) :
    isDirAt s i = nd.isDir := by
  cases nd <;> simp [isDirAt, h, Node.isDir]

/-- common shape of `createDir`, `createFile`, `createSymlink` -/
def addLeaf (s : Store) (L : Nat) (d : Ino) (n : Bytes) (nd : Node) : Store :=
  addChild (({ s with lastId := L }).alloc nd).1 d n s.next

theorem createDir_eq (s : Store) (v : View) (d : Ino) (n : Bytes) (perm : Nat) :
    ∃ m, createDir s v d n perm = (addLeaf s s.lastId d n (.dir m []), s.next) := ⟨_, rfl⟩

theorem createFile_eq (s : Store) (v : View) (d : Ino) (n : Bytes) (perm : Nat) :
    ∃ m, createFile s v d n perm = (addLeaf s (s.lastId + 1) d n (.file m [] 1 (s.lastId + 1)), s.next) :=
  ⟨_, rfl⟩

theorem createSymlink_eq (s : Store) (v : View) (d : Ino) (n l : Bytes) :
    ∃ m, createSymlink s v d n l = (addLeaf s s.lastId d n (.symlink m l), s.next) := ⟨_, rfl⟩

theorem addLeaf_eq {s : Store} {L : Nat} {d : Ino} {n : Bytes} {nd : Node} {m : Meta} {ch : List (Bytes × Ino)}
    (hd : s.get d = some (.dir m ch)) (hdc : d ≠ s.next) :
    addLeaf s L d n nd =
      { nodes := AL.insert d (.dir m (AL.insert n s.next ch)) (AL.insert s.next nd s.nodes),
        next := s.next + 1, lastId := L } := by
  have h1 : (({ s with lastId := L } : Store).alloc nd).1.get d = some (.dir m ch) := by
    rw [Store.get_alloc]
    have : ¬ s.next = d := fun e => hdc e.symm
    simp only [this, if_false]
    exact hd
  unfold addLeaf addChild
  rw [h1]
  rfl

theorem get_next_none {s : Store} {root : Ino} (hwf : WF s root) : s.get s.next = none := by
  cases h : s.get s.next with
  | none => rfl
  | some x => exact absurd (hwf.bound s.next (by simp [h])) (Nat.lt_irrefl _)

theorem no_edge_to_next {s : Store} {root : Ino} (hwf : WF s root) (d' : Ino) (n' : Bytes) :
    ¬ Edge s d' n' s.next := by
  intro he
  have := hwf.alloc _ _ _ he
  rw [get_next_none hwf] at this
  cases this

theorem no_edge_from_next {s : Store} {root : Ino} (hwf : WF s root) (n' : Bytes) (c' : Ino) :
    ¬ Edge s s.next n' c' := by
  intro he
  simp [Edge, Store.child, Store.children_of_none (get_next_none hwf)] at he

theorem wf_addLeaf {s : Store} {root : Ino} {L : Nat} {d : Ino} {n : Bytes} {nd : Node} {m : Meta}
    {ch : List (Bytes × Ino)}
    (hwf : WF s root) (hd : s.get d = some (.dir m ch))
    (hatt : d = root ∨ ∃ p pn, Edge s p pn d)
    (hno : s.child d n = none) (hleaf : nd.ch = []) (hL : s.lastId ≤ L)
    (hfile : ∀ fm fd nl id, nd = .file fm fd nl id → nl = 1 ∧ id = L ∧ s.lastId < L) :
    WF (addLeaf s L d n nd) root := by
  have hcn := get_next_none hwf
  have hdc : d ≠ s.next := by
    intro e; rw [e, hcn] at hd; cases hd
  have hcd : ¬ s.next = d := fun e => hdc e.symm
  rw [addLeaf_eq hd hdc]
  obtain ⟨s', hs'⟩ : ∃ s' : Store, s' = Store.mk (AL.insert d (.dir m (AL.insert n s.next ch))
      (AL.insert s.next nd s.nodes)) (s.next + 1) L := ⟨_, rfl⟩
  rw [← hs']
  have hg : ∀ i, s'.get i = if d = i then some (.dir m (AL.insert n s.next ch))
      else if s.next = i then some nd else s.get i := by
    intro i; subst hs'; simp [Store.get, AL.lookup_insert]
  have hnext : s'.next = s.next + 1 := by subst hs'; rfl
  have hlast : s'.lastId = L := by subst hs'; rfl
  have hlookup : AL.lookup n ch = none := by
    simpa [Store.child, Store.children_of_dir hd] using hno
  have hgd : s'.get d = some (.dir m (AL.insert n s.next ch)) := by rw [hg]; simp
  have hgc : s'.get s.next = some nd := by rw [hg]; simp [hdc]
  have hgo : ∀ i, i ≠ d → i ≠ s.next → s'.get i = s.get i := by
    intro i h1 h2
    have h1' : ¬ d = i := fun e => h1 e.symm
    have h2' : ¬ s.next = i := fun e => h2 e.symm
    rw [hg]; simp [h1', h2']
  have hchd : s'.children d = AL.insert n s.next ch := Store.children_of_dir hgd
  have hchc : s'.children s.next = [] := by rw [Store.children_eq_ch hgc, hleaf]
  have hE : ∀ d' n' c', Edge s' d' n' c' ↔ (d' = d ∧ n' = n ∧ c' = s.next) ∨ Edge s d' n' c' := by
    intro d' n' c'
    unfold Edge Store.child
    by_cases h1 : d' = d
    · subst h1
      rw [hchd, Store.children_of_dir hd, AL.lookup_insert]
      by_cases h2 : n = n'
      · subst h2
        simp [hlookup, eq_comm]
      · have h2' : ¬ n' = n := fun e => h2 e.symm
        simp [h2, h2']
    · by_cases h2 : d' = s.next
      · subst h2
        rw [hchc, Store.children_of_none hcn]
        simp [hcd]
      · rw [Store.children_congr (hgo _ h1 h2)]
        simp [h1]
  have hLC : ∀ i, linkCount s' i = linkCount s i + (if s.next = i then 1 else 0) := by
    intro i
    let s1 : Store := Store.mk (AL.insert s.next nd s.nodes) s.next s.lastId
    have e1 := linkCount_insert (s := s) (s' := s1) (d := s.next) (nd := nd) rfl i
    have e2 := linkCount_insert (s := s1) (s' := s') (d := d) (nd := .dir m (AL.insert n s.next ch))
      (by subst hs'; rfl) i
    have g1 : s1.get s.next = some nd := by simp [s1, Store.get]
    have g2 : s1.get d = some (.dir m ch) := by
      simp only [s1, Store.get, AL.lookup_insert, hcd, if_false]; exact hd
    rw [Store.children_of_none hcn, Store.children_eq_ch g1, hleaf] at e1
    rw [Store.children_of_dir g2, hchd, cnt_insert hlookup] at e2
    simp only [cnt_nil] at e1
    omega
  apply wf_addEdge (d := d) (c := s.next) (n := n) hwf hE
  · intro i hi
    by_cases h1 : i = d
    · subst h1
      rw [isDirAt_eq_isDir hgd, isDirAt_eq_isDir hd]; rfl
    · exact isDirAt_congr (hgo _ h1 hi)
  · intro i hi
    rw [hg]; split
    · rfl
    · split
      · rfl
      · exact hi
  · rw [hgc]; rfl
  · intro i hi
    rw [hnext]
    rw [hg] at hi
    split at hi
    · next h => subst h; exact Nat.lt_succ_of_lt (hwf.bound d (by rw [hd]; rfl))
    · split at hi
      · next h => rw [← h]; exact Nat.lt_succ_self _
      · exact Nat.lt_succ_of_lt (hwf.bound i hi)
  · intro e
    have := hwf.rootDir
    rw [← e, isDirAt, hcn] at this
    cases this
  · exact hatt
  · intro _
    exact ⟨fun d' n' => no_edge_to_next hwf d' n', fun n' c' => no_edge_from_next hwf n' c'⟩
  · intro i fm fd nl id hi
    rw [hLC]
    rw [hg] at hi
    split at hi
    · cases hi
    · split at hi
      · next h =>
        subst h
        injection hi with hi
        obtain ⟨h1, _, _⟩ := hfile _ _ _ _ hi
        rw [linkCount_eq_zero (fun d' n' => no_edge_to_next hwf d' n')]
        simp [h1]
      · next h =>
        simp only [h, if_false, Nat.add_zero]
        exact hwf.nlink _ _ _ _ _ hi
  · intro i j fm fd nl id fm' fd' nl' hi hj
    rw [hg] at hi hj
    split at hi
    · cases hi
    · split at hj
      · cases hj
      · split at hi
        · next h1 =>
          split at hj
          · next h2 => exact h1.symm.trans h2
          · injection hi with hi
            obtain ⟨_, h2, h3⟩ := hfile _ _ _ _ hi
            have := hwf.idBound _ _ _ _ _ hj
            omega
        · split at hj
          · injection hj with hj
            obtain ⟨_, h2, h3⟩ := hfile _ _ _ _ hj
            have := hwf.idBound _ _ _ _ _ hi
            omega
          · exact hwf.ids _ _ _ _ _ _ _ _ _ hi hj
  · intro i fm fd nl id hi
    rw [hlast]
    rw [hg] at hi
    split at hi
    · cases hi
    · split at hi
      · injection hi with hi
        obtain ⟨_, h2, _⟩ := hfile _ _ _ _ hi
        omega
      · have := hwf.idBound _ _ _ _ _ hi
        omega

theorem wf_createDir {s : Store} {root : Ino} (v : View) {d : Ino} {n : Bytes} (perm : Nat)
    (hwf : WF s root) (hdir : isDirAt s d = true) (hatt : d = root ∨ ∃ p pn, Edge s p pn d)
    (hno : s.child d n = none) : WF (createDir s v d n perm).1 root := by
  obtain ⟨m, ch, hd⟩ := isDirAt_iff.mp hdir
  obtain ⟨m', he⟩ := createDir_eq s v d n perm
  rw [he]
  exact wf_addLeaf hwf hd hatt hno rfl (Nat.le_refl _) (by intro _ _ _ _ h; cases h)

theorem wf_createSymlink {s : Store} {root : Ino} (v : View) {d : Ino} {n : Bytes} (l : Bytes)
    (hwf : WF s root) (hdir : isDirAt s d = true) (hatt : d = root ∨ ∃ p pn, Edge s p pn d)
    (hno : s.child d n = none) : WF (createSymlink s v d n l).1 root := by
  obtain ⟨m, ch, hd⟩ := isDirAt_iff.mp hdir
  obtain ⟨m', he⟩ := createSymlink_eq s v d n l
  rw [he]
  exact wf_addLeaf hwf hd hatt hno rfl (Nat.le_refl _) (by intro _ _ _ _ h; cases h)

theorem wf_createFile {s : Store} {root : Ino} (v : View) {d : Ino} {n : Bytes} (perm : Nat)
    (hwf : WF s root) (hdir : isDirAt s d = true) (hatt : d = root ∨ ∃ p pn, Edge s p pn d)
    (hno : s.child d n = none) : WF (createFile s v d n perm).1 root := by
  obtain ⟨m, ch, hd⟩ := isDirAt_iff.mp hdir
  obtain ⟨m', he⟩ := createFile_eq s v d n perm
  rw [he]
  refine wf_addLeaf hwf hd hatt hno rfl (Nat.le_succ _) ?_
  intro _ _ _ _ h
  injection h with _ _ h3 h4
  exact ⟨h3.symm, h4.symm, Nat.lt_succ_self _⟩

/-! ### the calls -/

theorem wf_mkdir (s : Store) (root : Ino) (v : View) (p : Bytes) (perm : Nat)
    (hwf : WF s root) (hs : SearchOK s v) (hatt : ParentAttached s root v) :
    WF (mkdir s v p perm).1 root := by
  unfold mkdir
  split
  · exact hwf
  · dsimp only
    split
    · exact hwf
    · split
      · exact hwf
      · split
        · exact hwf
        · next h =>
          apply wf_createDir v perm hwf (hs.parentDir _ _) (hatt _ _)
          simpa using h

theorem wf_symlink (s : Store) (root : Ino) (v : View) (o n : Bytes)
    (hwf : WF s root) (hs : SearchOK s v) (hatt : ParentAttached s root v) :
    WF (symlink s v o n).1 root := by
  unfold symlink
  dsimp only
  split
  · exact hwf
  · next h1 =>
    split
    · exact hwf
    · split
      · exact hwf
      · have hne : (searchNode s v n .lstat).err = .noent := by simpa using h1
        exact wf_createSymlink v _ hwf (hs.parentDir _ _) (hatt _ _) ((hs.noentChild _ _ hne).2 (by decide))

/-- (E) rewriting the data of a file -/
theorem wf_set_file_data {s : Store} {root c : Ino} {m : Meta} {d : Bytes} {nl : Int} {id : Nat} (d1 : Bytes)
    (hwf : WF s root) (hc : s.get c = some (.file m d nl id)) :
    WF (s.set c (.file m d1 nl id)) root := by
  have hg : ∀ i, (s.set c (.file m d1 nl id)).get i = if c = i then some (.file m d1 nl id) else s.get i :=
    fun i => Store.get_set _ _ _ _
  have hgc : (s.set c (.file m d1 nl id)).get c = some (.file m d1 nl id) := Store.get_set_eq _ _ _
  have hch : ∀ i, (s.set c (.file m d1 nl id)).children i = s.children i := by
    intro i
    by_cases h : c = i
    · subst h; rw [Store.children_of_file hgc, Store.children_of_file hc]
    · exact Store.children_congr (Store.get_set_ne _ _ h)
  have hfile : ∀ i fm fd fnl fid, (s.set c (.file m d1 nl id)).get i = some (.file fm fd fnl fid) →
      ∃ fd', s.get i = some (.file fm fd' fnl fid) := by
    intro i fm fd fnl fid hi
    rw [hg] at hi
    split at hi
    · next h =>
      subst h
      injection hi with hi; injection hi with h1 h2 h3 h4
      subst h1; subst h3; subst h4
      exact ⟨_, hc⟩
    · exact ⟨_, hi⟩
  have hLC : ∀ i, linkCount (s.set c (.file m d1 nl id)) i = linkCount s i := by
    intro i
    have e := linkCount_insert (s := s) (s' := s.set c (.file m d1 nl id)) (d := c) rfl i
    rw [hch] at e
    omega
  apply wf_sameEdges hwf
  · intro d' n' c'; unfold Edge Store.child; rw [hch]
  · intro i
    by_cases h : c = i
    · subst h; rw [isDirAt_eq_isDir hgc, isDirAt_eq_isDir hc]; rfl
    · exact isDirAt_congr (Store.get_set_ne _ _ h)
  · intro i
    by_cases h : c = i
    · subst h; rw [hgc, hc]; rfl
    · rw [Store.get_set_ne _ _ h]
  · rfl
  · intro i fm fd fnl fid hi
    obtain ⟨fd', h⟩ := hfile _ _ _ _ _ hi
    rw [hLC]; exact hwf.nlink _ _ _ _ _ h
  · intro i j fm fd fnl fid fm' fd' fnl' hi hj
    obtain ⟨_, h⟩ := hfile _ _ _ _ _ hi
    obtain ⟨_, h'⟩ := hfile _ _ _ _ _ hj
    exact hwf.ids _ _ _ _ _ _ _ _ _ h h'
  · intro i fm fd fnl fid hi
    obtain ⟨_, h⟩ := hfile _ _ _ _ _ hi
    exact hwf.idBound _ _ _ _ _ h

theorem wf_openFile (s : Store) (root : Ino) (v : View) (vid : Nat) (p : Bytes) (flag perm : Nat)
    (hwf : WF s root) (hs : SearchOK s v) (hatt : ParentAttached s root v) :
    WF (openFile s v vid p flag perm).1 root := by
  unfold openFile
  dsimp only
  split
  · exact hwf
  split
  · exact hwf
  · split
    · next h1 =>
      have hne : (searchNode s v p .eval).err = .noent := by simpa using h1
      split
      · exact hwf
      · split
        · exact hwf
        · exact wf_createFile v perm hwf (hs.parentDir _ _) (hatt _ _) ((hs.noentChild _ _ hne).2 (by decide))
    · generalize (searchNode s v p .eval).child = oc
      cases oc with
      | none => exact hwf
      | some c =>
        dsimp only
        cases hc : s.get c with
        | none => exact hwf
        | some nd =>
          cases nd with
          | dir m ch => dsimp only; repeat (first | exact hwf | split)
          | symlink m l => exact hwf
          | file m d nl id =>
            dsimp only
            split
            · exact hwf
            · split
              · exact hwf
              · dsimp only
                split
                · exact wf_set_file_data _ hwf hc
                · exact hwf

/-- (C) one more entry for an existing file -/
theorem wf_addLink {s : Store} {root d oc : Ino} {n : Bytes} {m : Meta} {ch : List (Bytes × Ino)}
    {fm : Meta} {dt : Bytes} {nl : Int} {id : Nat}
    (hwf : WF s root) (hd : s.get d = some (.dir m ch))
    (hatt : d = root ∨ ∃ p pn, Edge s p pn d)
    (hno : s.child d n = none) (hoc : s.get oc = some (.file fm dt nl id)) :
    WF ((addChild s d n oc).set oc (.file fm dt (nl + 1) id)) root := by
  have hdo : d ≠ oc := by intro e; rw [e, hoc] at hd; cases hd
  have hod : ¬ oc = d := fun e => hdo e.symm
  have hadd : addChild s d n oc = s.set d (.dir m (AL.insert n oc ch)) := by
    unfold addChild; rw [hd]
  rw [hadd]
  obtain ⟨s1, hs1⟩ : ∃ s1 : Store, s1 = s.set d (.dir m (AL.insert n oc ch)) := ⟨_, rfl⟩
  obtain ⟨s', hs'⟩ : ∃ s' : Store, s' = s1.set oc (.file fm dt (nl + 1) id) := ⟨_, rfl⟩
  rw [← hs1, ← hs']
  have hg1 : ∀ i, s1.get i = if d = i then some (.dir m (AL.insert n oc ch)) else s.get i := by
    intro i; rw [hs1]; exact Store.get_set _ _ _ _
  have hg : ∀ i, s'.get i = if oc = i then some (.file fm dt (nl + 1) id)
      else if d = i then some (.dir m (AL.insert n oc ch)) else s.get i := by
    intro i; rw [hs', Store.get_set, hg1]
  have hlookup : AL.lookup n ch = none := by
    simpa [Store.child, Store.children_of_dir hd] using hno
  have hgd : s'.get d = some (.dir m (AL.insert n oc ch)) := by rw [hg]; simp [hod]
  have hgc : s'.get oc = some (.file fm dt (nl + 1) id) := by rw [hg]; simp
  have hgo : ∀ i, i ≠ d → i ≠ oc → s'.get i = s.get i := by
    intro i h1 h2
    have h1' : ¬ d = i := fun e => h1 e.symm
    have h2' : ¬ oc = i := fun e => h2 e.symm
    rw [hg]; simp [h1', h2']
  have hchd : s'.children d = AL.insert n oc ch := Store.children_of_dir hgd
  have hchc : s'.children oc = [] := Store.children_of_file hgc
  have hchc0 : s.children oc = [] := Store.children_of_file hoc
  have hE : ∀ d' n' c', Edge s' d' n' c' ↔ (d' = d ∧ n' = n ∧ c' = oc) ∨ Edge s d' n' c' := by
    intro d' n' c'
    unfold Edge Store.child
    by_cases h1 : d' = d
    · subst h1
      rw [hchd, Store.children_of_dir hd, AL.lookup_insert]
      by_cases h2 : n = n'
      · subst h2
        simp [hlookup, eq_comm]
      · have h2' : ¬ n' = n := fun e => h2 e.symm
        simp [h2, h2']
    · by_cases h2 : d' = oc
      · subst h2
        rw [hchc, hchc0]
        simp [hod]
      · rw [Store.children_congr (hgo _ h1 h2)]
        simp [h1]
  have hLC : ∀ i, linkCount s' i = linkCount s i + (if oc = i then 1 else 0) := by
    intro i
    have e1 := linkCount_insert (s := s) (s' := s1) (d := d) (nd := .dir m (AL.insert n oc ch))
      (by rw [hs1]; rfl) i
    have e2 := linkCount_insert (s := s1) (s' := s') (d := oc) (nd := .file fm dt (nl + 1) id)
      (by rw [hs']; rfl) i
    have g1 : s1.get d = some (.dir m (AL.insert n oc ch)) := by rw [hg1]; simp
    have g2 : s1.get oc = some (.file fm dt nl id) := by rw [hg1]; simp [hdo]; exact hoc
    rw [Store.children_of_dir hd, Store.children_of_dir g1, cnt_insert hlookup] at e1
    rw [Store.children_of_file g2, hchc] at e2
    omega
  have hfile : ∀ i a b c e, s'.get i = some (.file a b c e) →
      ∃ c', s.get i = some (.file a b c' e) ∧ c = c' + (if oc = i then 1 else 0) := by
    intro i a b c e hi
    rw [hg] at hi
    split at hi
    · next h =>
      subst h
      injection hi with hi; injection hi with h1 h2 h3 h4
      subst h1; subst h2; subst h3; subst h4
      exact ⟨_, hoc, by simp⟩
    · next h =>
      split at hi
      · cases hi
      · exact ⟨_, hi, by simp [h]⟩
  have hnext : s'.next = s.next := by rw [hs', hs1]; rfl
  have hlast : s'.lastId = s.lastId := by rw [hs', hs1]; rfl
  apply wf_addEdge (d := d) (c := oc) (n := n) hwf hE
  · intro i hi
    by_cases h1 : i = d
    · subst h1
      rw [isDirAt_eq_isDir hgd, isDirAt_eq_isDir hd]; rfl
    · exact isDirAt_congr (hgo _ h1 hi)
  · intro i hi
    rw [hg]; split
    · rfl
    · split
      · rfl
      · exact hi
  · rw [hgc]; rfl
  · intro i hi
    rw [hnext]
    apply hwf.bound
    rw [hg] at hi
    split at hi
    · next h => subst h; rw [hoc]; rfl
    · split at hi
      · next h => subst h; rw [hd]; rfl
      · exact hi
  · intro e
    have := hwf.rootDir
    rw [← e, isDirAt_eq_isDir hoc] at this
    cases this
  · exact hatt
  · intro h
    rw [isDirAt_eq_isDir hgc] at h
    cases h
  · intro i a b c e hi
    obtain ⟨c', h, hc⟩ := hfile _ _ _ _ _ hi
    have := hwf.nlink _ _ _ _ _ h
    rw [hLC, hc, this]
    split <;> simp
  · intro i j a b c e a' b' c' hi hj
    obtain ⟨_, h, _⟩ := hfile _ _ _ _ _ hi
    obtain ⟨_, h', _⟩ := hfile _ _ _ _ _ hj
    exact hwf.ids _ _ _ _ _ _ _ _ _ h h'
  · intro i a b c e hi
    obtain ⟨_, h, _⟩ := hfile _ _ _ _ _ hi
    rw [hlast]
    exact hwf.idBound _ _ _ _ _ h

theorem wf_link (s : Store) (root : Ino) (v : View) (o n : Bytes)
    (hwf : WF s root) (hs : SearchOK s v) (hatt : ParentAttached s root v) :
    WF (link s v o n).1 root := by
  unfold link
  dsimp only
  split
  · next oc _ _ =>
    split
    · exact hwf
    · next h1 =>
      have hne : (searchNode s v n .lstat).err = .noent := by simpa using h1
      split
      · exact hwf
      · split
        · exact hwf
        · split
          · next fm dt nl id hoc =>
            obtain ⟨m, ch, hd⟩ := isDirAt_iff.mp (hs.parentDir n .lstat)
            exact wf_addLink hwf hd (hatt _ _) ((hs.noentChild _ _ hne).2 (by decide)) hoc
          · exact hwf
  · exact hwf

/-! ### (D) MkdirAll -/

theorem createDir_spec {s : Store} {root : Ino} (v : View) {d : Ino} {n : Bytes} (perm : Nat)
    (hwf : WF s root) (hdir : isDirAt s d = true) :
    isDirAt (createDir s v d n perm).1 (createDir s v d n perm).2 = true ∧
    Edge (createDir s v d n perm).1 d n (createDir s v d n perm).2 := by
  obtain ⟨m, ch, hd⟩ := isDirAt_iff.mp hdir
  obtain ⟨m', he⟩ := createDir_eq s v d n perm
  have hcn := get_next_none hwf
  have hdc : d ≠ s.next := by
    intro e; rw [e, hcn] at hd; cases hd
  rw [he, addLeaf_eq hd hdc]
  constructor
  · apply isDirAt_iff.mpr
    exact ⟨m', [], by simp [Store.get, hdc]⟩
  · have : (Store.mk (AL.insert d (.dir m (AL.insert n s.next ch)) (AL.insert s.next (.dir m' []) s.nodes))
        (s.next + 1) s.lastId).get d = some (.dir m (AL.insert n s.next ch)) := by
      simp [Store.get]
    unfold Edge Store.child
    rw [Store.children_of_dir this]
    simp

theorem wf_mkdirAllLoop (v : View) (perm : Nat) (root : Ino) : ∀ (fuel : Nat) (s : Store) (dn : Ino) (it : Iter),
    WF s root → isDirAt s dn = true → (dn = root ∨ ∃ p pn, Edge s p pn dn) →
    WF (mkdirAllLoop v perm fuel s dn it) root := by
  intro fuel
  induction fuel with
  | zero => intro s dn it hwf _ _; exact hwf
  | succ fuel ih =>
    intro s dn it hwf hdir hatt
    unfold mkdirAllLoop
    dsimp only
    split
    · exact hwf
    · next hno =>
      have hno' : s.child dn (partOf it) = none := by simpa using hno
      have hwf1 := wf_createDir v perm hwf hdir hatt hno'
      obtain ⟨h1, h2⟩ := createDir_spec (n := partOf it) v perm hwf hdir
      split
      · exact hwf1
      · exact ih _ _ _ hwf1 h1 (Or.inr ⟨_, _, h2⟩)

theorem wf_mkdirAll (s : Store) (root : Ino) (v : View) (p : Bytes) (perm : Nat)
    (hwf : WF s root) (hs : SearchOK s v) (hatt : ParentAttached s root v) :
    WF (mkdirAll s v p perm).1 root := by
  unfold mkdirAll
  dsimp only
  split
  · split <;> exact hwf
  · exact hwf
  · split
    · exact hwf
    · exact wf_mkdirAllLoop v perm root _ _ _ _ hwf (hs.parentDir _ _) (hatt _ _)

end Avfs.FS
