import Avfs.Lemmas.WalkPerm
/-
  C14 — Glob with metacharacters in several components (the recursive branch of `glob`, FS/Enum.lean).

  What the model does for the pattern "/b1/…/bm/p1/…/pr" (`pathOf (cs ++ pats)`; "/b1/…/bm" = `pathOf cs` is the longest
  prefix without metacharacters, so p1 has one; p2 … pr are arbitrary components, with or without metacharacters):
  1. UP FRONT, from the whole pattern down to "/b1/…/bm/p1", `pmatch prefix ""` is evaluated for every prefix that ends
     in one of the p's: ErrBadPattern if one of them says so — before any directory is read;
  2. then level by level: Glob(dir/p1) = the names of `pathOf cs` that match p1; for every match d (in order) the names
     of d that match p2 are appended; and so on. A component WITHOUT metacharacters after p1 is treated the same way
     (it is matched against the listing of the directory — there is no Lstat of "d/p"): only the pattern as a whole
     without any metacharacter is answered by Lstat (`C14_glob_no_meta`).
     "The names of d" (`listNames`): Stat(d) (FOLLOWING symbolic links) says directory, Open(d) read-only succeeds (the
     caller needs search permission on the way and READ permission on d) and Readdirnames(-1) answers: the sorted names;
     anything else: d contributes nothing, silently.
  3. ErrBadPattern AFTER the up-front check: exactly when some component pk is found malformed by `pmatch pk name` against
     a name of a directory reached at level k (`globLevels_bad_iff`); all matches found so far are dropped.

  LAYER 1 (no hypothesis on the heap, every caller; `pmatch` and `join` opaque):
    `glob_levels`: glob = `globLevels` (the nested enumeration over `listNames`), `globLevels_mem` (the matches are
    exactly the `GlobReach`-able paths), `globLevels_bad_iff`.
  LAYER 2 (well-formed heap): `listNames_found` / `listNames_unresolved` (what `listNames` is for a path that resolves
    without links: the names of the node if it is a directory the caller may read), `globLevelsH` (the enumeration over
    the nodes of the heap: names lists, in lexicographic order, no duplicates) and `glob_levelsH`.
-/
set_option linter.unusedVariables false
set_option linter.unusedSimpArgs false

namespace Avfs.FS
open Avfs.Path

/-! ### what `globDir` reads -/

/-- the names `globDir` matches against in `dir`: Stat says directory, Open (read-only) and Readdirnames succeed -/
def listNames (s : Store) (v : View) (vid : Nat) (dir : Bytes) : Option (List Bytes) :=
  match (stat s v dir .stat).2 with
  | .ok (.info i) =>
    if i.kind != 0 then none else
    match openFile s v vid dir 0 0 with
    | (_, .error _) => none
    | (s1, .ok h) =>
      match (fileStep s1 v h (.readdirnames (-1))).2.2.2 with
      | .ok (.names ns) => some (sortBytes ns)
      | _ => none
  | _ => none

theorem globDir_eq (s : Store) (v : View) (vid : Nat) (dir pat : Bytes) (acc : List Bytes) :
    globDir s v vid dir pat acc =
      match listNames s v vid dir with
      | none => .ok acc
      | some ns => globDir.go dir pat ns acc := by
  unfold globDir listNames
  cases h1 : (stat s v dir .stat).2 with
  | ok val =>
    cases val with
    | info i =>
      by_cases hk : (i.kind != 0) = true
      · simp [hk]
      · simp only [hk, Bool.false_eq_true, if_false]
        cases h2 : openFile s v vid dir 0 0 with
        | mk s1 r =>
          cases r with
          | error e => rfl
          | ok h =>
            simp only []
            cases h3 : (fileStep s1 v h (.readdirnames (-1))).2.2.2 with
            | ok val => cases val <;> rfl
            | _ => rfl
    | _ => rfl
  | _ => rfl

/-- the loop over the names of one directory: ErrBadPattern when the pattern is found malformed against one of them -/
theorem globDir_go_gen (dir pat : Bytes) : ∀ (L acc : List Bytes),
    globDir.go dir pat L acc =
      if L.any (fun n => pmatch .linux pat n == .badPattern) then .badPattern
      else .ok (acc ++ (L.filter fun n => pmatch .linux pat n == .ok true).map fun n => join .linux [dir, n]) := by
  intro L
  induction L with
  | nil => intro acc; simp [globDir.go]
  | cons n L ih =>
    intro acc
    rw [globDir.go.eq_2]
    cases hm : pmatch .linux pat n with
    | badPattern => simp [hm]
    | panic => exact absurd hm (pmatch_no_panic_linux pat n)
    | ok b =>
      cases b with
      | true => simp [ih, List.filter_cons, hm]
      | false => simp [ih, List.filter_cons, hm]

/-! ### one level -/

/-- the candidates of one level: (directory, name) for the names of the directories reached so far, in order -/
def levelCands (s : Store) (v : View) (vid : Nat) (D : List Bytes) : List (Bytes × Bytes) :=
  D.flatMap fun d => ((listNames s v vid d).getD []).map fun n => (d, n)

/-- the component is found malformed against a candidate -/
def levelBad (pat : Bytes) (cands : List (Bytes × Bytes)) : Bool :=
  cands.any fun x => pmatch .linux pat x.2 == .badPattern

/-- the matches of one level -/
def levelNext (pat : Bytes) (cands : List (Bytes × Bytes)) : List Bytes :=
  (cands.filter fun x => pmatch .linux pat x.2 == .ok true).map fun x => join .linux [x.1, x.2]

theorem globDir_level (s : Store) (v : View) (vid : Nat) (d pat : Bytes) (acc : List Bytes) :
    globDir s v vid d pat acc =
      if levelBad pat (levelCands s v vid [d]) then .badPattern
      else .ok (acc ++ levelNext pat (levelCands s v vid [d])) := by
  rw [globDir_eq]
  cases h : listNames s v vid d with
  | none => simp [levelCands, levelBad, levelNext, h]
  | some ns =>
    simp only [globDir_go_gen, levelCands, levelBad, levelNext, h, List.flatMap_cons, List.flatMap_nil,
      List.append_nil, Option.getD_some, List.any_map, List.filter_map, List.map_map]
    rfl

theorem levelCands_cons (s : Store) (v : View) (vid : Nat) (d : Bytes) (D : List Bytes) :
    levelCands s v vid (d :: D) = levelCands s v vid [d] ++ levelCands s v vid D := by
  simp [levelCands]

/-- the loop of `glob` over the matches of the directory part -/
theorem glob_each_level (s : Store) (v : View) (vid : Nat) (pat : Bytes) : ∀ (D acc : List Bytes),
    glob.each s v vid pat D acc =
      if levelBad pat (levelCands s v vid D) then .badPattern
      else .ok (acc ++ levelNext pat (levelCands s v vid D)) := by
  intro D
  induction D with
  | nil => intro acc; simp [glob.each, levelCands, levelBad, levelNext]
  | cons d D ih =>
    intro acc
    rw [glob.each, globDir_level, levelCands_cons s v vid d D]
    have hba : ∀ (A B : List (Bytes × Bytes)), levelBad pat (A ++ B) = (levelBad pat A || levelBad pat B) := by
      intro A B; simp [levelBad, List.any_append]
    have hnx : ∀ (A B : List (Bytes × Bytes)), levelNext pat (A ++ B) = levelNext pat A ++ levelNext pat B := by
      intro A B; simp [levelNext, List.filter_append]
    rw [hba, hnx]
    cases hb1 : levelBad pat (levelCands s v vid [d]) <;> cases hb2 : levelBad pat (levelCands s v vid D) <;>
      simp [ih, hb2, List.append_assoc]

/-! ### the reference: level by level -/

/-- the nested enumeration: from the directories `D`, one level per component -/
def globLevels (s : Store) (v : View) (vid : Nat) : List Bytes → List Bytes → GOut
  | D, [] => .ok D
  | D, p :: ps =>
    if levelBad p (levelCands s v vid D) then .badPattern
    else globLevels s v vid (levelNext p (levelCands s v vid D)) ps

theorem globLevels_snoc (s : Store) (v : View) (vid : Nat) : ∀ (ps : List Bytes) (D : List Bytes) (q : Bytes),
    globLevels s v vid D (ps ++ [q]) =
      match globLevels s v vid D ps with
      | .ok D' => if levelBad q (levelCands s v vid D') then .badPattern
                  else .ok (levelNext q (levelCands s v vid D'))
      | o => o := by
  intro ps
  induction ps with
  | nil => intro D q; simp [globLevels]
  | cons p ps ih =>
    intro D q
    simp only [List.cons_append, globLevels]
    by_cases hb : levelBad p (levelCands s v vid D) = true
    · simp [hb]
    · simp only [hb, Bool.false_eq_true, if_false]
      exact ih _ q

theorem globLevels_no_panic (s : Store) (v : View) (vid : Nat) : ∀ (ps : List Bytes) (D : List Bytes),
    globLevels s v vid D ps ≠ .panic := by
  intro ps
  induction ps with
  | nil => intro D; simp [globLevels]
  | cons p ps ih =>
    intro D
    simp only [globLevels]
    by_cases hb : levelBad p (levelCands s v vid D) = true
    · simp [hb]
    · simp only [hb, Bool.false_eq_true, if_false]; exact ih _

/-! ### the pattern as a string -/

theorem list_snoc_induction {α} {P : List α → Prop} (h0 : P []) (hs : ∀ l x, P l → P (l ++ [x])) : ∀ l, P l := by
  intro l
  have : ∀ n, ∀ l : List α, l.length = n → P l := by
    intro n
    induction n with
    | zero =>
      intro l hl
      cases l with
      | nil => exact h0
      | cons a l => simp at hl
    | succ n ih =>
      intro l hl
      have hne : l ≠ [] := by intro h; subst h; simp at hl
      rw [← List.dropLast_concat_getLast hne]
      exact hs _ _ (ih _ (by simp [hl]))
  exact this _ l rfl

/-- Split and cleanGlobPath of "dir/pat": the directory part and the last component -/
theorem split_pathOf_snoc (cs : List Bytes) (pat : Bytes) (hall : ∀ c ∈ cs, c ≠ [] ∧ ∀ x ∈ c, x ≠ SL)
    (hps : ∀ x ∈ pat, x ≠ SL) :
    ∃ dir0, split .linux (pathOf (cs ++ [pat])) = (dir0, pat) ∧ cleanGlobPath dir0 = pathOf cs := by
  by_cases hcs : cs = []
  · subst hcs
    have : pathOf ([] ++ [pat]) = [] ++ SL :: pat := by simp [pathOf, joinWith]
    rw [this, split_dir_file [] pat hps]
    exact ⟨_, rfl, by simp [cleanGlobPath, pathOf, joinWith]⟩
  · have : pathOf (cs ++ [pat]) = pathOf cs ++ SL :: pat := by simp [pathOf, joinWith_snoc, hcs]
    rw [this, split_dir_file _ pat hps]
    refine ⟨_, rfl, ?_⟩
    have hne : (pathOf cs ++ [SL] == [SL]) = false := by
      cases cs with
      | nil => exact absurd rfl hcs
      | cons c cs' =>
        have := (hall c (by simp)).1
        cases c with
        | nil => exact absurd rfl this
        | cons x xs => cases cs' <;> simp [pathOf, joinWith]
    have hdl : (pathOf cs ++ [SL]).dropLast = pathOf cs := List.dropLast_concat
    have hemp : (pathOf cs ++ [SL]).isEmpty = false := by simp [pathOf]
    simp only [cleanGlobPath, hemp, hne, hdl, Bool.false_eq_true, if_false]

theorem hasMeta_pathOf_snoc (cs : List Bytes) (pat : Bytes) :
    hasMeta (pathOf (cs ++ [pat])) = (hasMeta (pathOf cs) || hasMeta pat) := by
  by_cases hcs : cs = []
  · subst hcs
    have : pathOf ([] ++ [pat]) = [SL] ++ pat := by simp [pathOf, joinWith]
    rw [this, hasMeta_append]
    simp [pathOf, joinWith]
  · have : pathOf (cs ++ [pat]) = (pathOf cs ++ [SL]) ++ pat := by simp [pathOf, joinWith_snoc, hcs]
    rw [this, hasMeta_append, hasMeta_append]
    have : hasMeta [SL] = false := by decide
    simp [this]

theorem pathOf_snoc_ne (cs : List Bytes) (pat : Bytes) (hp : pat ≠ []) : pathOf cs ≠ pathOf (cs ++ [pat]) := by
  intro h
  have hl := congrArg List.length h
  by_cases hcs : cs = []
  · subst hcs
    cases pat with
    | nil => exact hp rfl
    | cons x xs => simp [pathOf, joinWith] at hl
  · have : pathOf (cs ++ [pat]) = pathOf cs ++ SL :: pat := by simp [pathOf, joinWith_snoc, hcs]
    rw [this] at hl
    simp at hl

/-- Glob("dir/pat"), `dir` without metacharacters, `pat` with: one directory level -/
theorem glob_base (s : Store) (v : View) (vid : Nat) (cs : List Bytes) (hall : ∀ c ∈ cs, c ≠ [] ∧ ∀ x ∈ c, x ≠ SL)
    (pat : Bytes) (hps : ∀ x ∈ pat, x ≠ SL) (hmeta : hasMeta pat = true) (hdm : hasMeta (pathOf cs) = false)
    (hok : ∃ b, pmatch .linux (pathOf (cs ++ [pat])) [] = .ok b) (fuel : Nat) :
    glob s v vid (fuel + 1) (pathOf (cs ++ [pat])) = globDir s v vid (pathOf cs) pat [] := by
  obtain ⟨b, hb⟩ := hok
  obtain ⟨dir0, hsp, hcg⟩ := split_pathOf_snoc cs pat hall hps
  have hpm : hasMeta (pathOf (cs ++ [pat])) = true := by rw [hasMeta_pathOf_snoc, hmeta]; simp
  rw [glob]
  simp only [hb, hpm, hsp, hcg, hdm]
  simp

/-- Glob("dir/pat"), `dir` with metacharacters: Glob(dir), then one more level -/
theorem glob_step (s : Store) (v : View) (vid : Nat) (cs : List Bytes) (hall : ∀ c ∈ cs, c ≠ [] ∧ ∀ x ∈ c, x ≠ SL)
    (pat : Bytes) (hp : pat ≠ []) (hps : ∀ x ∈ pat, x ≠ SL) (hdm : hasMeta (pathOf cs) = true)
    (hok : ∃ b, pmatch .linux (pathOf (cs ++ [pat])) [] = .ok b) (fuel : Nat) :
    glob s v vid (fuel + 1) (pathOf (cs ++ [pat])) =
      match glob s v vid fuel (pathOf cs) with
      | .ok ms => glob.each s v vid pat ms []
      | o => o := by
  obtain ⟨b, hb⟩ := hok
  obtain ⟨dir0, hsp, hcg⟩ := split_pathOf_snoc cs pat hall hps
  have hpm : hasMeta (pathOf (cs ++ [pat])) = true := by rw [hasMeta_pathOf_snoc, hdm]; simp
  have hne : (pathOf cs == pathOf (cs ++ [pat])) = false := by
    simpa using pathOf_snoc_ne cs pat hp
  rw [glob]
  simp only [hb, hpm, hsp, hcg, hdm, hne]
  simp only [Bool.not_true, Bool.false_eq_true, if_false]
  cases glob s v vid fuel (pathOf cs) <;> rfl

/-- LAYER 1. Glob of "/b1/…/bm/p1/…/pr" — `pathOf cs` without metacharacters, p1 with, every component non-empty and
    without separator, the up-front checks `pmatch prefix ""` passed (`hok`), enough fuel (the model's driver gives
    `length + 2`) — is the nested enumeration `globLevels` starting from the directory `pathOf cs`:
    for EVERY heap and EVERY caller. -/
theorem glob_levels (s : Store) (v : View) (vid : Nat) (cs : List Bytes) (hall : ∀ c ∈ cs, c ≠ [] ∧ ∀ x ∈ c, x ≠ SL)
    (hdm : hasMeta (pathOf cs) = false) (p1 : Bytes) (hp1 : p1 ≠ [] ∧ ∀ x ∈ p1, x ≠ SL) (hmeta : hasMeta p1 = true) :
    ∀ (ps : List Bytes), (∀ p ∈ ps, p ≠ [] ∧ ∀ x ∈ p, x ≠ SL) →
      (∀ k, k ≤ ps.length → ∃ b, pmatch .linux (pathOf (cs ++ p1 :: ps.take k)) [] = .ok b) →
      ∀ (fuel : Nat), ps.length < fuel →
      glob s v vid fuel (pathOf (cs ++ p1 :: ps)) = globLevels s v vid [pathOf cs] (p1 :: ps) := by
  intro ps
  induction ps using list_snoc_induction with
  | h0 =>
    intro _ hok fuel hf
    obtain ⟨fuel, rfl⟩ : ∃ k, fuel = k + 1 := ⟨fuel - 1, by omega⟩
    have hok0 := hok 0 (by simp)
    simp only [List.take_zero] at hok0
    rw [glob_base s v vid cs hall p1 hp1.2 hmeta hdm hok0, globDir_level]
    simp [globLevels]
  | hs ps q ih =>
    intro hps hok fuel hf
    obtain ⟨fuel, rfl⟩ : ∃ k, fuel = k + 1 := ⟨fuel - 1, by omega⟩
    simp only [List.length_append, List.length_singleton] at hf
    have hq := hps q (by simp)
    have hall' : ∀ c ∈ cs ++ p1 :: ps, c ≠ [] ∧ ∀ x ∈ c, x ≠ SL := by
      intro c hc
      rcases List.mem_append.1 hc with h | h
      · exact hall c h
      · rcases List.mem_cons.1 h with rfl | h
        · exact hp1
        · exact hps c (by simp [h])
    have hdm' : hasMeta (pathOf (cs ++ p1 :: ps)) = true := by
      have : ∀ (l : List Bytes), hasMeta (pathOf (cs ++ p1 :: l)) = true := by
        intro l
        induction l using list_snoc_induction with
        | h0 => rw [hasMeta_pathOf_snoc, hmeta]; simp
        | hs l x ihl =>
          have : cs ++ p1 :: (l ++ [x]) = (cs ++ p1 :: l) ++ [x] := by simp
          rw [this, hasMeta_pathOf_snoc, ihl]; simp
      exact this ps
    have hoklast := hok (ps ++ [q]).length (by simp)
    rw [List.take_length] at hoklast
    have e : cs ++ p1 :: (ps ++ [q]) = (cs ++ p1 :: ps) ++ [q] := by simp
    rw [e] at hoklast ⊢
    rw [glob_step s v vid (cs ++ p1 :: ps) hall' q hq.1 hq.2 hdm' hoklast fuel]
    have ih' := ih (fun p hp => hps p (by simp [hp]))
      (fun k hk => by
        have := hok k (by simp; omega)
        rwa [List.take_append_of_le_length hk] at this)
      fuel (by omega)
    rw [ih']
    have hsn := globLevels_snoc s v vid (p1 :: ps) [pathOf cs] q
    simp only [List.cons_append] at hsn
    rw [hsn]
    cases hg : globLevels s v vid [pathOf cs] (p1 :: ps) with
    | ok D' => simp only [glob_each_level, List.nil_append]
    | badPattern => rfl
    | panic => rfl

/-- the up-front checks: if `pmatch prefix ""` says ErrBadPattern for one of the prefixes ending in p1, …, pr, so does
    Glob (no directory is read: the checks come first, from the whole pattern down) -/
theorem glob_bad_upfront (s : Store) (v : View) (vid : Nat) (cs : List Bytes) (hall : ∀ c ∈ cs, c ≠ [] ∧ ∀ x ∈ c, x ≠ SL)
    (p1 : Bytes) (hp1 : p1 ≠ [] ∧ ∀ x ∈ p1, x ≠ SL) (hmeta : hasMeta p1 = true) :
    ∀ (ps : List Bytes), (∀ p ∈ ps, p ≠ [] ∧ ∀ x ∈ p, x ≠ SL) →
      (∃ k, k ≤ ps.length ∧ pmatch .linux (pathOf (cs ++ p1 :: ps.take k)) [] = .badPattern) →
      ∀ (fuel : Nat), ps.length < fuel →
      glob s v vid fuel (pathOf (cs ++ p1 :: ps)) = .badPattern := by
  intro ps
  induction ps using list_snoc_induction with
  | h0 =>
    intro _ hbad fuel hf
    obtain ⟨fuel, rfl⟩ : ∃ k, fuel = k + 1 := ⟨fuel - 1, by omega⟩
    obtain ⟨k, hk, hb⟩ := hbad
    have : k = 0 := by simpa using hk
    subst this
    simp only [List.take_zero] at hb
    simp [glob, hb]
  | hs ps q ih =>
    intro hps hbad fuel hf
    obtain ⟨fuel, rfl⟩ : ∃ k, fuel = k + 1 := ⟨fuel - 1, by omega⟩
    simp only [List.length_append, List.length_singleton] at hf
    have hq := hps q (by simp)
    cases hfull : pmatch .linux (pathOf (cs ++ p1 :: (ps ++ [q]))) [] with
    | badPattern => simp [glob, hfull]
    | panic => exact absurd hfull (pmatch_no_panic_linux _ _)
    | ok b =>
      have hall' : ∀ c ∈ cs ++ p1 :: ps, c ≠ [] ∧ ∀ x ∈ c, x ≠ SL := by
        intro c hc
        rcases List.mem_append.1 hc with h | h
        · exact hall c h
        · rcases List.mem_cons.1 h with rfl | h
          · exact hp1
          · exact hps c (by simp [h])
      have hdm' : hasMeta (pathOf (cs ++ p1 :: ps)) = true := by
        have : ∀ (l : List Bytes), hasMeta (pathOf (cs ++ p1 :: l)) = true := by
          intro l
          induction l using list_snoc_induction with
          | h0 => rw [hasMeta_pathOf_snoc, hmeta]; simp
          | hs l x ihl =>
            have : cs ++ p1 :: (l ++ [x]) = (cs ++ p1 :: l) ++ [x] := by simp
            rw [this, hasMeta_pathOf_snoc, ihl]; simp
        exact this ps
      have e : cs ++ p1 :: (ps ++ [q]) = (cs ++ p1 :: ps) ++ [q] := by simp
      have hbad' : ∃ k, k ≤ ps.length ∧ pmatch .linux (pathOf (cs ++ p1 :: ps.take k)) [] = .badPattern := by
        obtain ⟨k, hk, hb⟩ := hbad
        simp only [List.length_append, List.length_singleton] at hk
        by_cases hkl : k ≤ ps.length
        · exact ⟨k, hkl, by rwa [List.take_append_of_le_length hkl] at hb⟩
        · have : k = (ps ++ [q]).length := by simp; omega
          rw [this, List.take_length, hfull] at hb
          cases hb
      rw [e] at hfull ⊢
      rw [glob_step s v vid (cs ++ p1 :: ps) hall' q hq.1 hq.2 hdm' ⟨b, hfull⟩ fuel,
        ih (fun p hp => hps p (by simp [hp])) hbad' fuel (by omega)]

/-! ### what `globLevels` enumerates -/

/-- `x` is reached from the directory `d` along the components `ps`: at each step a name of the directory reached so
    far (`listNames`: it is a directory for Stat, and can be opened and read) that matches the component -/
inductive GlobReach (s : Store) (v : View) (vid : Nat) : Bytes → List Bytes → Bytes → Prop
  | nil (d : Bytes) : GlobReach s v vid d [] d
  | cons (d p : Bytes) (ps : List Bytes) (ns : List Bytes) (n x : Bytes) :
      listNames s v vid d = some ns → n ∈ ns → pmatch .linux p n = .ok true →
      GlobReach s v vid (join .linux [d, n]) ps x → GlobReach s v vid d (p :: ps) x

theorem mem_levelCands (s : Store) (v : View) (vid : Nat) (D : List Bytes) (d n : Bytes) :
    (d, n) ∈ levelCands s v vid D ↔ d ∈ D ∧ ∃ ns, listNames s v vid d = some ns ∧ n ∈ ns := by
  simp only [levelCands, List.mem_flatMap, List.mem_map, Prod.mk.injEq]
  constructor
  · rintro ⟨d', hd', n', hn', rfl, rfl⟩
    cases h : listNames s v vid d' with
    | none => simp [h] at hn'
    | some ns => exact ⟨hd', ns, rfl, by simpa [h] using hn'⟩
  · rintro ⟨hd, ns, hns, hn⟩
    exact ⟨d, hd, n, by simpa [hns] using hn, rfl, rfl⟩

theorem mem_levelNext (pat : Bytes) (cands : List (Bytes × Bytes)) (x : Bytes) :
    x ∈ levelNext pat cands ↔ ∃ d n, (d, n) ∈ cands ∧ pmatch .linux pat n = .ok true ∧ x = join .linux [d, n] := by
  simp only [levelNext, List.mem_map, List.mem_filter, beq_iff_eq]
  constructor
  · rintro ⟨⟨d, n⟩, ⟨hm, hp⟩, rfl⟩; exact ⟨d, n, hm, hp, rfl⟩
  · rintro ⟨d, n, hm, hp, rfl⟩; exact ⟨(d, n), ⟨hm, hp⟩, rfl⟩

/-- the matches are exactly the paths reached from one of the starting directories -/
theorem globLevels_mem (s : Store) (v : View) (vid : Nat) : ∀ (ps : List Bytes) (D R : List Bytes),
    globLevels s v vid D ps = .ok R → ∀ x, x ∈ R ↔ ∃ d ∈ D, GlobReach s v vid d ps x := by
  intro ps
  induction ps with
  | nil =>
    intro D R h x
    simp only [globLevels, GOut.ok.injEq] at h
    subst h
    constructor
    · intro hx; exact ⟨x, hx, .nil x⟩
    · rintro ⟨d, hd, hr⟩; cases hr; exact hd
  | cons p ps ih =>
    intro D R h x
    simp only [globLevels] at h
    by_cases hb : levelBad p (levelCands s v vid D) = true
    · simp [hb] at h
    · simp only [hb, Bool.false_eq_true, if_false] at h
      rw [ih _ R h x]
      constructor
      · rintro ⟨d', hd', hr⟩
        obtain ⟨d, n, hc, hm, rfl⟩ := (mem_levelNext _ _ _).1 hd'
        obtain ⟨hd, ns, hns, hn⟩ := (mem_levelCands _ _ _ _ _ _).1 hc
        exact ⟨d, hd, .cons d p ps ns n x hns hn hm hr⟩
      · rintro ⟨d, hd, hr⟩
        cases hr with
        | cons _ _ _ ns n _ hns hn hm hr =>
          exact ⟨_, (mem_levelNext _ _ _).2 ⟨d, n, (mem_levelCands _ _ _ _ _ _).2 ⟨hd, ns, hns, hn⟩, hm, rfl⟩, hr⟩

/-- ErrBadPattern (after the up-front check): exactly when, for some k, the component p(k+1) is found malformed
    against a name of a directory reached along p1 … pk -/
theorem globLevels_bad_iff (s : Store) (v : View) (vid : Nat) : ∀ (ps : List Bytes) (D : List Bytes),
    globLevels s v vid D ps = .badPattern ↔
      ∃ k p, ps[k]? = some p ∧ ∃ d0 ∈ D, ∃ d ns n, GlobReach s v vid d0 (ps.take k) d ∧
        listNames s v vid d = some ns ∧ n ∈ ns ∧ pmatch .linux p n = .badPattern := by
  intro ps
  induction ps with
  | nil => intro D; simp [globLevels]
  | cons p ps ih =>
    intro D
    simp only [globLevels]
    by_cases hb : levelBad p (levelCands s v vid D) = true
    · simp only [hb, if_true, true_iff]
      simp only [levelBad, List.any_eq_true, beq_iff_eq] at hb
      obtain ⟨⟨d, n⟩, hc, hm⟩ := hb
      obtain ⟨hd, ns, hns, hn⟩ := (mem_levelCands _ _ _ _ _ _).1 hc
      exact ⟨0, p, rfl, d, hd, d, ns, n, .nil d, hns, hn, hm⟩
    · simp only [hb, Bool.false_eq_true, if_false]
      rw [ih]
      constructor
      · rintro ⟨k, q, hq, d', hd', d, ns, n, hr, hns, hn, hm⟩
        obtain ⟨d0, n0, hc, hm0, rfl⟩ := (mem_levelNext _ _ _).1 hd'
        obtain ⟨hd0, ns0, hns0, hn0⟩ := (mem_levelCands _ _ _ _ _ _).1 hc
        exact ⟨k + 1, q, by simpa using hq, d0, hd0, d, ns, n, by
          simpa using GlobReach.cons d0 p _ ns0 n0 d hns0 hn0 hm0 hr, hns, hn, hm⟩
      · rintro ⟨k, q, hq, d0, hd0, d, ns, n, hr, hns, hn, hm⟩
        cases k with
        | zero =>
          simp only [List.getElem?_cons_zero, Option.some.injEq] at hq
          subst hq
          simp only [List.take_zero] at hr
          cases hr
          exfalso
          apply hb
          simp only [levelBad, List.any_eq_true, beq_iff_eq]
          exact ⟨(d0, n), (mem_levelCands _ _ _ _ _ _).2 ⟨hd0, ns, hns, hn⟩, hm⟩
        | succ k =>
          simp only [List.getElem?_cons_succ] at hq
          simp only [List.take_succ_cons] at hr
          cases hr with
          | cons _ _ _ ns0 n0 _ hns0 hn0 hm0 hr =>
            exact ⟨k, q, hq, _, (mem_levelNext _ _ _).2
              ⟨d0, n0, (mem_levelCands _ _ _ _ _ _).2 ⟨hd0, ns0, hns0, hn0⟩, hm0, rfl⟩, d, ns, n, hr, hns, hn, hm⟩


/-! ### LAYER 2: the heap -/

/-- Open (read-only) of a directory whose path resolves: a handle when the caller may read it, EACCES otherwise -/
theorem open_foundP {s : Store} {root : Ino} {v : View} (hwf : WF s root)
    (hvr : ∃ m ch, s.get v.root = some (.dir m ch)) (vid : Nat) (cs : List Bytes)
    (hall : ∀ c ∈ cs, c ≠ [] ∧ ∀ x ∈ c, x ≠ SL) (hdots : ∀ c ∈ cs, c ≠ [DOT] ∧ c ≠ [DOT, DOT])
    (par d : Ino) (hw : walkPath s v v.root cs = .found par d) (hd : isDirAt s d = true) :
    openFile s v vid (pathOf cs) 0 0 =
      if readable s v d then (s, .ok (handleOn d (pathOf cs) (toOpenMode 0) vid)) else (s, .error .EACCES) := by
  obtain ⟨m, ch, hg⟩ := get_of_isDirAt hd
  rw [readable_eq hg]
  have hom : toOpenMode 0 = omRead := by decide
  have hpo : posixOpen s v (toOpenMode 0) (.found par d) =
      if checkPerm m omRead v then .opened d false else .fail .EACCES := by
    simp only [posixOpen, hg, hom]
    cases hp : checkPerm m omRead v
    · have hp' : checkPerm m 4 v = false := hp
      simp [hp', omCreate, omExcl, omWrite, omRead]
    · have hp' : checkPerm m 4 v = true := hp
      simp [hp', omCreate, omExcl, omWrite, omRead]
  by_cases hcs : cs = []
  · subst hcs
    simp only [walkPath, Resolved.found.injEq] at hw
    obtain ⟨rfl, rfl⟩ := hw
    have h := open_root s v hvr vid 0 0
    rw [hpo] at h
    by_cases hp : checkPerm m omRead v = true
    · simp only [hp, if_true] at h ⊢; simpa [pathOf, joinWith] using h
    · simp only [hp, Bool.false_eq_true, if_false] at h ⊢; simpa [pathOf, joinWith] using h
  · have h := open_posix_gen s root v hwf hvr cs hcs hall hdots vid 0 0
    rw [hw, hpo] at h
    by_cases hp : checkPerm m omRead v = true
    · simp only [hp, if_true] at h ⊢; simpa using h
    · simp only [hp, Bool.false_eq_true, if_false] at h ⊢; simpa using h

/-- what `globDir` reads in a path that resolves without meeting a link: the names of the node, if it is a directory
    the caller may READ (search permission was needed on the way, not on the directory itself) -/
theorem listNames_found {s : Store} {root : Ino} {v : View} (hwf : WF s root)
    (hvr : ∃ m ch, s.get v.root = some (.dir m ch)) (vid : Nat) (cs : List Bytes)
    (hall : ∀ c ∈ cs, c ≠ [] ∧ ∀ x ∈ c, x ≠ SL) (hdots : ∀ c ∈ cs, c ≠ [DOT] ∧ c ≠ [DOT, DOT])
    (par d : Ino) (hw : walkPath s v v.root cs = .found par d) :
    listNames s v vid (pathOf cs) = if readable s v d then some (s.names d) else none := by
  obtain ⟨i, hi, hst⟩ := lstat_found hwf hvr cs hall hdots par d hw .stat
  have hk : i.kind = kindOf s d := (fillStat_kind hi).1
  unfold listNames
  simp only [hst]
  by_cases hd : isDirAt s d = true
  · have hk0 : i.kind = 0 := by rw [hk]; exact kindOf_dir.2 hd
    obtain ⟨m, ch, hg⟩ := get_of_isDirAt hd
    rw [open_foundP hwf hvr vid cs hall hdots par d hw hd]
    cases hre : readable s v d with
    | false => simp [hk0]
    | true =>
      have hnames : (fileStep s v (handleOn d (pathOf cs) (toOpenMode 0) vid) (.readdirnames (-1))).2.2.2 =
          .ok (.names (s.names d)) := by
        have hneg : ((-1 : Int) ≤ 0) = True := by simp
        simp only [fileStep, handleOn, pathOf, List.isEmpty_cons, Bool.false_eq_true, if_false, hg, hneg, if_true,
          true_or, decide_true, Bool.true_or]
        unfold dirNamesOf
        by_cases he : (s.names d).isEmpty = true
        · have : s.names d = [] := by simpa using he
          simp [this]
        · simp [he]
      simp [hk0, hnames, sortBytes_sorted _ (names_sorted s d)]
  · have hk0 : i.kind ≠ 0 := by rw [hk]; exact fun h => hd (kindOf_dir.1 h)
    have hre : readable s v d = false := by
      cases h : readable s v d with
      | false => rfl
      | true => exact absurd (readable_dir h) hd
    simp [hk0, hre]

/-- … and in a path that does not resolve (a missing component, a file on the way, a directory that may not be
    searched): nothing -/
theorem listNames_unresolved {s : Store} {root : Ino} {v : View} (hwf : WF s root)
    (hvr : ∃ m ch, s.get v.root = some (.dir m ch)) (vid : Nat) (cs : List Bytes)
    (hall : ∀ c ∈ cs, c ≠ [] ∧ ∀ x ∈ c, x ≠ SL) (hdots : ∀ c ∈ cs, c ≠ [DOT] ∧ c ≠ [DOT, DOT])
    (hnf : ∀ par d, walkPath s v v.root cs ≠ .found par d) (hnl : walkPath s v v.root cs ≠ .viaLink) :
    listNames s v vid (pathOf cs) = none := by
  have hcs : cs ≠ [] := by
    intro h; subst h; exact hnf v.root v.root (by simp [walkPath])
  have h := (stat_posix_gen s root v hwf hvr cs hcs hall hdots .stat).2
  unfold listNames
  cases hw : walkPath s v v.root cs with
  | found par d => exact absurd hw (hnf par d)
  | viaLink => exact absurd hw hnl
  | missingLast par n => rw [hw] at h; simp only [pathOf, h]
  | missingDir => rw [hw] at h; simp only [pathOf, h]
  | notDir => rw [hw] at h; simp only [pathOf, h]
  | denied => rw [hw] at h; simp only [pathOf, h]

/-- the names Glob sees in the directory "/c1/…/cn" of the heap (empty when it does not resolve, is not a directory or
    may not be read; a path through a symbolic link is outside this definition: `linkFreeAt`) -/
def namesH (s : Store) (v : View) (ds : List Bytes) : List Bytes :=
  match walkPath s v v.root ds with
  | .found _ d => if readable s v d then s.names d else []
  | _ => []

/-- none of the paths goes through (or ends in) a symbolic link -/
def linkFreeAt (s : Store) (v : View) (D : List (List Bytes)) : Bool :=
  D.all fun ds => walkPath s v v.root ds != .viaLink

def candsH (s : Store) (v : View) (D : List (List Bytes)) : List (List Bytes × Bytes) :=
  D.flatMap fun ds => (namesH s v ds).map fun n => (ds, n)

def badH (pat : Bytes) (cands : List (List Bytes × Bytes)) : Bool :=
  cands.any fun x => pmatch .linux pat x.2 == .badPattern

def nextH (pat : Bytes) (cands : List (List Bytes × Bytes)) : List (List Bytes) :=
  (cands.filter fun x => pmatch .linux pat x.2 == .ok true).map fun x => x.1 ++ [x.2]

/-- the nested enumeration over the heap, on component lists: `none` = ErrBadPattern -/
def globLevelsH (s : Store) (v : View) : List (List Bytes) → List Bytes → Option (List (List Bytes))
  | D, [] => some D
  | D, p :: ps => if badH p (candsH s v D) then none else globLevelsH s v (nextH p (candsH s v D)) ps

/-- every directory that is listed on the way (all levels but the last) is reached without meeting a symbolic link -/
def levelsLinkFree (s : Store) (v : View) : List (List Bytes) → List Bytes → Bool
  | _, [] => true
  | D, p :: ps => linkFreeAt s v D && levelsLinkFree s v (nextH p (candsH s v D)) ps

/-- clean component lists -/
def GoodComps (ds : List Bytes) : Prop :=
  (∀ c ∈ ds, c ≠ [] ∧ ∀ x ∈ c, x ≠ SL) ∧ (∀ c ∈ ds, c ≠ [DOT] ∧ c ≠ [DOT, DOT])

theorem namesH_child {s : Store} {v : View} {ds : List Bytes} {n : Bytes} (h : n ∈ namesH s v ds) :
    ∃ par d c, walkPath s v v.root ds = .found par d ∧ readable s v d = true ∧ s.child d n = some c := by
  unfold namesH at h
  cases hw : walkPath s v v.root ds with
  | found par d =>
    simp only [hw] at h
    cases hre : readable s v d with
    | false => simp [hre] at h
    | true =>
      simp only [hre, if_true] at h
      obtain ⟨c, hc⟩ := Option.isSome_iff_exists.1 ((mem_names s d n).1 h)
      exact ⟨par, d, c, rfl, hre, hc⟩
  | _ => simp [hw] at h

theorem listNames_namesH {s : Store} {root : Ino} {v : View} (hwf : WF s root)
    (hvr : ∃ m ch, s.get v.root = some (.dir m ch)) (vid : Nat) (ds : List Bytes) (hg : GoodComps ds)
    (hnl : walkPath s v v.root ds ≠ .viaLink) :
    (listNames s v vid (pathOf ds)).getD [] = namesH s v ds := by
  unfold namesH
  cases hw : walkPath s v v.root ds with
  | found par d =>
    rw [listNames_found hwf hvr vid ds hg.1 hg.2 par d hw]
    cases hre : readable s v d <;> simp [hre]
  | viaLink => exact absurd hw hnl
  | _ =>
    rw [listNames_unresolved hwf hvr vid ds hg.1 hg.2 (by simp [hw]) hnl]
    simp

theorem levelCands_H {s : Store} {root : Ino} {v : View} (hwf : WF s root)
    (hvr : ∃ m ch, s.get v.root = some (.dir m ch)) (vid : Nat) : ∀ (D : List (List Bytes)),
    (∀ ds ∈ D, GoodComps ds) → linkFreeAt s v D = true →
    levelCands s v vid (D.map pathOf) = (candsH s v D).map fun x => (pathOf x.1, x.2) := by
  intro D
  induction D with
  | nil => intro _ _; rfl
  | cons ds D ih =>
    intro hg hl
    simp only [linkFreeAt, List.all_cons, Bool.and_eq_true, bne_iff_ne, ne_eq] at hl
    have ih' := ih (fun x hx => hg x (by simp [hx])) (by simpa [linkFreeAt] using hl.2)
    simp only [levelCands, candsH, List.map_cons, List.flatMap_cons, List.map_append] at ih' ⊢
    rw [ih', listNames_namesH hwf hvr vid ds (hg ds (by simp)) hl.1]
    simp [List.map_map]

theorem nextH_good {s : Store} {v : View} (hn : NamesOK s) (hdf : DotFree s) (p : Bytes) (D : List (List Bytes))
    (hg : ∀ ds ∈ D, GoodComps ds) : ∀ ds ∈ nextH p (candsH s v D), GoodComps ds := by
  intro ds hds
  simp only [nextH, List.mem_map, List.mem_filter, candsH, List.mem_flatMap] at hds
  obtain ⟨⟨ds0, n⟩, ⟨⟨ds1, hds1, hx⟩, _⟩, rfl⟩ := hds
  simp only [List.mem_map, Prod.mk.injEq] at hx
  obtain ⟨n', hn', rfl, rfl⟩ := hx
  obtain ⟨par, d, c, _, _, hc⟩ := namesH_child hn'
  have := good_snoc hn hdf (hg ds1 hds1).1 (hg ds1 hds1).2 hc
  exact this

/-- the enumeration over `listNames` and the enumeration over the heap agree, as long as no listed directory is
    reached through a symbolic link -/
theorem globLevels_H {s : Store} {root : Ino} {v : View} (hwf : WF s root) (hn : NamesOK s) (hdf : DotFree s)
    (hvr : ∃ m ch, s.get v.root = some (.dir m ch)) (vid : Nat) : ∀ (ps : List Bytes) (D : List (List Bytes)),
    (∀ ds ∈ D, GoodComps ds) → levelsLinkFree s v D ps = true →
    globLevels s v vid (D.map pathOf) ps =
      match globLevelsH s v D ps with
      | some R => .ok (R.map pathOf)
      | none => .badPattern := by
  intro ps
  induction ps with
  | nil => intro D _ _; rfl
  | cons p ps ih =>
    intro D hg hl
    simp only [levelsLinkFree, Bool.and_eq_true] at hl
    have hc := levelCands_H hwf hvr vid D hg hl.1
    have hbad : levelBad p (levelCands s v vid (D.map pathOf)) = badH p (candsH s v D) := by
      rw [hc]; simp [levelBad, badH, List.any_map]; rfl
    have hnext : levelNext p (levelCands s v vid (D.map pathOf)) = (nextH p (candsH s v D)).map pathOf := by
      rw [hc]
      simp only [levelNext, nextH, List.filter_map, List.map_map]
      apply List.map_congr_left
      intro x hx
      simp only [List.mem_filter, candsH, List.mem_flatMap, List.mem_map] at hx
      obtain ⟨⟨ds1, hds1, n', hn', rfl⟩, _⟩ := hx
      obtain ⟨par, d, c, _, _, hcn⟩ := namesH_child hn'
      obtain ⟨h1, h2⟩ := good_snoc hn hdf (hg ds1 hds1).1 (hg ds1 hds1).2 hcn
      simp only [Function.comp]
      exact join_child ds1 n' h1 h2
    simp only [globLevels, globLevelsH, hbad, hnext]
    by_cases hb : badH p (candsH s v D) = true
    · simp [hb]
    · simp only [hb, Bool.false_eq_true, if_false]
      exact ih _ (nextH_good hn hdf p D hg) hl.2

/-- LAYER 2. Glob of "/b1/…/bm/p1/…/pr" on a well-formed heap, for every caller, as long as no directory that is
    listed is reached through a symbolic link: the nested enumeration over the nodes of the heap -/
theorem glob_levelsH (s : Store) (root : Ino) (v : View) (hwf : WF s root) (hn : NamesOK s) (hdf : DotFree s)
    (hvr : ∃ m ch, s.get v.root = some (.dir m ch)) (vid : Nat) (cs : List Bytes) (hg : GoodComps cs)
    (hdm : hasMeta (pathOf cs) = false) (p1 : Bytes) (hp1 : p1 ≠ [] ∧ ∀ x ∈ p1, x ≠ SL) (hmeta : hasMeta p1 = true)
    (ps : List Bytes) (hps : ∀ p ∈ ps, p ≠ [] ∧ ∀ x ∈ p, x ≠ SL)
    (hok : ∀ k, k ≤ ps.length → ∃ b, pmatch .linux (pathOf (cs ++ p1 :: ps.take k)) [] = .ok b)
    (hlf : levelsLinkFree s v [cs] (p1 :: ps) = true) (fuel : Nat) (hf : ps.length < fuel) :
    glob s v vid fuel (pathOf (cs ++ p1 :: ps)) =
      match globLevelsH s v [cs] (p1 :: ps) with
      | some R => .ok (R.map pathOf)
      | none => .badPattern := by
  rw [glob_levels s v vid cs hg.1 hdm p1 hp1 hmeta ps hps hok fuel hf]
  exact globLevels_H hwf hn hdf hvr vid (p1 :: ps) [cs] (by simpa using hg) hlf


/-! ### what `globLevelsH` enumerates: membership, order, no duplicates -/

/-- the component list `x` is reached from the directory "/ds" along the pattern components `ps`: at each step the
    directory reached so far resolves for the caller (search permission on the way), may be READ by the caller, and has
    an entry whose name matches the component -/
inductive ReachH (s : Store) (v : View) : List Bytes → List Bytes → List Bytes → Prop
  | nil (ds : List Bytes) : ReachH s v ds [] ds
  | cons (ds : List Bytes) (p : Bytes) (ps : List Bytes) (par d : Ino) (n : Bytes) (c : Ino) (x : List Bytes) :
      walkPath s v v.root ds = .found par d → readable s v d = true → s.child d n = some c →
      pmatch .linux p n = .ok true → ReachH s v (ds ++ [n]) ps x → ReachH s v ds (p :: ps) x

theorem mem_namesH {s : Store} {v : View} {ds : List Bytes} {n : Bytes} :
    n ∈ namesH s v ds ↔
      ∃ par d c, walkPath s v v.root ds = .found par d ∧ readable s v d = true ∧ s.child d n = some c := by
  constructor
  · exact namesH_child
  · rintro ⟨par, d, c, hw, hre, hc⟩
    simp only [namesH, hw, hre, if_true]
    exact (mem_names s d n).2 (by simp [hc])

theorem mem_candsH {s : Store} {v : View} {D : List (List Bytes)} {ds : List Bytes} {n : Bytes} :
    (ds, n) ∈ candsH s v D ↔ ds ∈ D ∧ n ∈ namesH s v ds := by
  simp only [candsH, List.mem_flatMap, List.mem_map, Prod.mk.injEq]
  constructor
  · rintro ⟨ds', hd', n', hn', rfl, rfl⟩; exact ⟨hd', hn'⟩
  · rintro ⟨hd, hn⟩; exact ⟨ds, hd, n, hn, rfl, rfl⟩

theorem mem_nextH {pat : Bytes} {cands : List (List Bytes × Bytes)} {x : List Bytes} :
    x ∈ nextH pat cands ↔ ∃ ds n, (ds, n) ∈ cands ∧ pmatch .linux pat n = .ok true ∧ x = ds ++ [n] := by
  simp only [nextH, List.mem_map, List.mem_filter, beq_iff_eq]
  constructor
  · rintro ⟨⟨d, n⟩, ⟨hm, hp⟩, rfl⟩; exact ⟨d, n, hm, hp, rfl⟩
  · rintro ⟨d, n, hm, hp, rfl⟩; exact ⟨(d, n), ⟨hm, hp⟩, rfl⟩

/-- the matches are exactly the component lists reached from one of the starting directories -/
theorem globLevelsH_mem (s : Store) (v : View) : ∀ (ps : List Bytes) (D R : List (List Bytes)),
    globLevelsH s v D ps = some R → ∀ x, x ∈ R ↔ ∃ ds ∈ D, ReachH s v ds ps x := by
  intro ps
  induction ps with
  | nil =>
    intro D R h x
    simp only [globLevelsH, Option.some.injEq] at h
    subst h
    constructor
    · intro hx; exact ⟨x, hx, .nil x⟩
    · rintro ⟨d, hd, hr⟩; cases hr; exact hd
  | cons p ps ih =>
    intro D R h x
    simp only [globLevelsH] at h
    by_cases hb : badH p (candsH s v D) = true
    · simp [hb] at h
    · simp only [hb, Bool.false_eq_true, if_false] at h
      rw [ih _ R h x]
      constructor
      · rintro ⟨d', hd', hr⟩
        obtain ⟨ds, n, hc, hm, rfl⟩ := mem_nextH.1 hd'
        obtain ⟨hd, hn⟩ := mem_candsH.1 hc
        obtain ⟨par, d, c, hw, hre, hch⟩ := mem_namesH.1 hn
        exact ⟨ds, hd, .cons ds p ps par d n c x hw hre hch hm hr⟩
      · rintro ⟨ds, hd, hr⟩
        cases hr with
        | cons _ _ _ par d n c _ hw hre hch hm hr =>
          exact ⟨_, mem_nextH.2 ⟨ds, n, mem_candsH.2 ⟨hd, mem_namesH.2 ⟨par, d, c, hw, hre, hch⟩⟩, hm, rfl⟩, hr⟩

/-- ErrBadPattern on the heap: some component is found malformed against the name of an entry of a directory reached
    along the components before it -/
theorem globLevelsH_bad_iff (s : Store) (v : View) : ∀ (ps : List Bytes) (D : List (List Bytes)),
    globLevelsH s v D ps = none ↔
      ∃ k p, ps[k]? = some p ∧ ∃ d0 ∈ D, ∃ ds n, ReachH s v d0 (ps.take k) ds ∧ n ∈ namesH s v ds ∧
        pmatch .linux p n = .badPattern := by
  intro ps
  induction ps with
  | nil => intro D; simp [globLevelsH]
  | cons p ps ih =>
    intro D
    simp only [globLevelsH]
    by_cases hb : badH p (candsH s v D) = true
    · simp only [hb, if_true, true_iff]
      simp only [badH, List.any_eq_true, beq_iff_eq] at hb
      obtain ⟨⟨ds, n⟩, hc, hm⟩ := hb
      obtain ⟨hd, hn⟩ := mem_candsH.1 hc
      exact ⟨0, p, rfl, ds, hd, ds, n, .nil ds, hn, hm⟩
    · simp only [hb, Bool.false_eq_true, if_false]
      rw [ih]
      constructor
      · rintro ⟨k, q, hq, d', hd', ds, n, hr, hn, hm⟩
        obtain ⟨ds0, n0, hc, hm0, rfl⟩ := mem_nextH.1 hd'
        obtain ⟨hd0, hn0⟩ := mem_candsH.1 hc
        obtain ⟨par, d, c, hw, hre, hch⟩ := mem_namesH.1 hn0
        exact ⟨k + 1, q, by simpa using hq, ds0, hd0, ds, n, by
          simpa using ReachH.cons ds0 p _ par d n0 c ds hw hre hch hm0 hr, hn, hm⟩
      · rintro ⟨k, q, hq, d0, hd0, ds, n, hr, hn, hm⟩
        cases k with
        | zero =>
          simp only [List.getElem?_cons_zero, Option.some.injEq] at hq
          subst hq
          simp only [List.take_zero] at hr
          cases hr
          exfalso
          apply hb
          simp only [badH, List.any_eq_true, beq_iff_eq]
          exact ⟨(d0, n), mem_candsH.2 ⟨hd0, hn⟩, hm⟩
        | succ k =>
          simp only [List.getElem?_cons_succ] at hq
          simp only [List.take_succ_cons] at hr
          cases hr with
          | cons _ _ _ par d n0 c _ hw hre hch hm0 hr =>
            exact ⟨k, q, hq, _, mem_nextH.2
              ⟨d0, n0, mem_candsH.2 ⟨hd0, mem_namesH.2 ⟨par, d, c, hw, hre, hch⟩⟩, hm0, rfl⟩, ds, n, hr, hn, hm⟩

/-- what is reached: the starting components followed by one entry name per pattern component, each matching its
    component -/
theorem ReachH_shape {s : Store} {v : View} : ∀ {ps : List Bytes} {ds x : List Bytes}, ReachH s v ds ps x →
    ∃ ns : List Bytes, x = ds ++ ns ∧ ns.length = ps.length ∧
      ∀ (k : Nat) (p n : Bytes), ps[k]? = some p → ns[k]? = some n → pmatch .linux p n = .ok true := by
  intro ps
  induction ps with
  | nil => intro ds x h; cases h; exact ⟨[], by simp, rfl, by simp⟩
  | cons p ps ih =>
    intro ds x h
    cases h with
    | cons _ _ _ par d n c _ hw hre hch hm hr =>
      obtain ⟨ns, rfl, hl, hall⟩ := ih hr
      refine ⟨n :: ns, by simp, by simp [hl], ?_⟩
      intro k p' n' hp hn
      cases k with
      | zero =>
        simp only [List.getElem?_cons_zero, Option.some.injEq] at hp hn
        subst hp; subst hn; exact hm
      | succ k =>
        simp only [List.getElem?_cons_succ] at hp hn
        exact hall k p' n' hp hn

theorem compLt_snoc_same : ∀ (ds : List Bytes) (n1 n2 : Bytes), bytesLt n1 n2 = true →
    compLt (ds ++ [n1]) (ds ++ [n2])
  | [], n1, n2, h => by simp [compLt, h]
  | a :: as, n1, n2, h => by
    rw [List.cons_append, List.cons_append, compLt]
    exact Or.inr ⟨rfl, compLt_snoc_same as n1 n2 h⟩

theorem compLt_snoc_lt : ∀ (a b : List Bytes), a.length = b.length → compLt a b → ∀ (x y : Bytes),
    compLt (a ++ [x]) (b ++ [y])
  | [], [], _, h, _, _ => by simp [compLt] at h
  | [], _ :: _, hl, _, _, _ => by simp at hl
  | _ :: _, [], hl, _, _, _ => by simp at hl
  | a :: as, b :: bs, hl, h, x, y => by
    simp only [List.cons_append, compLt] at h ⊢
    rcases h with h | ⟨hab, h⟩
    · exact Or.inl h
    · exact Or.inr ⟨hab, compLt_snoc_lt as bs (by simpa using hl) h x y⟩

theorem namesH_sorted (s : Store) (v : View) (ds : List Bytes) :
    (namesH s v ds).Pairwise fun a b => bytesLt a b = true := by
  unfold namesH
  cases walkPath s v v.root ds with
  | found par d =>
    cases hre : readable s v d
    · simp [hre]
    · simpa [hre] using names_sorted s d
  | _ => simp

/-- one level keeps the lexicographic order (and the common length) -/
theorem nextH_sorted (s : Store) (v : View) (p : Bytes) (D : List (List Bytes)) (L : Nat)
    (hlen : ∀ ds ∈ D, ds.length = L) (hs : D.Pairwise compLt) :
    (∀ ds ∈ nextH p (candsH s v D), ds.length = L + 1) ∧ (nextH p (candsH s v D)).Pairwise compLt := by
  constructor
  · intro x hx
    obtain ⟨ds, n, hc, _, rfl⟩ := mem_nextH.1 hx
    simp [hlen ds (mem_candsH.1 hc).1]
  · unfold nextH
    rw [List.pairwise_map]
    apply List.Pairwise.filter
    unfold candsH
    rw [List.pairwise_flatMap]
    constructor
    · intro ds _
      rw [List.pairwise_map]
      apply List.Pairwise.imp _ (namesH_sorted s v ds)
      intro n1 n2 h
      exact compLt_snoc_same ds n1 n2 h
    · apply List.Pairwise.imp_of_mem _ hs
      intro a b ha hb hab x hx y hy
      obtain ⟨n1, _, rfl⟩ := List.mem_map.1 hx
      obtain ⟨n2, _, rfl⟩ := List.mem_map.1 hy
      exact compLt_snoc_lt a b (by rw [hlen a ha, hlen b hb]) hab n1 n2

theorem globLevelsH_sorted (s : Store) (v : View) : ∀ (ps : List Bytes) (D R : List (List Bytes)) (L : Nat),
    (∀ ds ∈ D, ds.length = L) → D.Pairwise compLt → globLevelsH s v D ps = some R →
    (∀ ds ∈ R, ds.length = L + ps.length) ∧ R.Pairwise compLt := by
  intro ps
  induction ps with
  | nil =>
    intro D R L hlen hs h
    simp only [globLevelsH, Option.some.injEq] at h
    subst h
    exact ⟨by simpa using hlen, hs⟩
  | cons p ps ih =>
    intro D R L hlen hs h
    simp only [globLevelsH] at h
    by_cases hb : badH p (candsH s v D) = true
    · simp [hb] at h
    · simp only [hb, Bool.false_eq_true, if_false] at h
      obtain ⟨h1, h2⟩ := nextH_sorted s v p D L hlen hs
      obtain ⟨h3, h4⟩ := ih _ R (L + 1) h1 h2 h
      refine ⟨fun ds hds => ?_, h4⟩
      rw [h3 ds hds, List.length_cons]
      omega

theorem globLevelsH_good {s : Store} {v : View} (hn : NamesOK s) (hdf : DotFree s) :
    ∀ (ps : List Bytes) (D R : List (List Bytes)), (∀ ds ∈ D, GoodComps ds) → globLevelsH s v D ps = some R →
    ∀ ds ∈ R, GoodComps ds := by
  intro ps
  induction ps with
  | nil =>
    intro D R hg h
    simp only [globLevelsH, Option.some.injEq] at h
    subst h
    exact hg
  | cons p ps ih =>
    intro D R hg h
    simp only [globLevelsH] at h
    by_cases hb : badH p (candsH s v D) = true
    · simp [hb] at h
    · simp only [hb, Bool.false_eq_true, if_false] at h
      exact ih _ R (nextH_good hn hdf p D hg) h

/-- the result of the enumeration from one directory: strictly increasing in the lexicographic order of the component
    lists (so: no component list twice), and no PATH twice -/
theorem globLevelsH_order {s : Store} {v : View} (hn : NamesOK s) (hdf : DotFree s) (cs : List Bytes)
    (hg : GoodComps cs) (ps : List Bytes) (R : List (List Bytes)) (h : globLevelsH s v [cs] ps = some R) :
    R.Pairwise compLt ∧ R.Nodup ∧ (R.map pathOf).Nodup := by
  obtain ⟨_, hs⟩ := globLevelsH_sorted s v ps [cs] R cs.length (by simp) (by simp) h
  have hgood := globLevelsH_good hn hdf ps [cs] R (by simpa using hg) h
  refine ⟨hs, ?_, ?_⟩
  · unfold List.Nodup
    apply List.Pairwise.imp _ hs
    intro a b hab heq
    subst heq
    exact compLt_irrefl _ hab
  · unfold List.Nodup
    rw [List.pairwise_map]
    apply List.Pairwise.imp_of_mem _ hs
    intro a b ha hb hab heq
    have := pathOf_inj (hgood a ha).1 (hgood b hb).1 heq
    subst this
    exact compLt_irrefl _ hab

end Avfs.FS
