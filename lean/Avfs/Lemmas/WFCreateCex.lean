import Avfs.Lemmas.WFCreate
/-
  Why `ParentAttached` is needed: without it `mkdir` (and every other creating call) breaks `WF.attached`
  when the view is rooted at an orphan (removed) empty directory, which `WF` allows.
-/
namespace Avfs.FS.Cex
open Avfs.Path

def s0 : Store :=
  { nodes := [(0, .dir ⟨0o755, 0, 0, none⟩ []), (1, .dir ⟨0o755, 0, 0, none⟩ [])], next := 2, lastId := 0 }
def v1 : View := { root := 1, cwd := [SL], uid := 0, gid := 0, admin := true, umask := 0 }
def s1 : Store :=
  { nodes := [(1, .dir ⟨0o755, 0, 0, none⟩ [([97], 2)]), (2, .dir ⟨0o755, 0, 0, none⟩ []),
              (0, .dir ⟨0o755, 0, 0, none⟩ []), (1, .dir ⟨0o755, 0, 0, none⟩ [])], next := 3, lastId := 0 }

theorem mkdir_s0 : mkdir s0 v1 [SL, 97] 0o755 = (s1, .ok .unit) := by decide +kernel

theorem s0_children (d : Ino) : s0.children d = [] := by
  unfold Store.children Store.get s0
  by_cases h0 : 0 = d
  · subst h0; simp [AL.lookup]
  · by_cases h1 : 1 = d
    · subst h1; simp [AL.lookup]
    · simp [AL.lookup, h0, h1]

theorem s0_noEdge (d : Ino) (n : Bytes) (c : Ino) : ¬ Edge s0 d n c := by
  simp [Edge, Store.child, s0_children]

theorem s0_get (i : Ino) : s0.get i = if i = 0 ∨ i = 1 then some (.dir ⟨0o755, 0, 0, none⟩ []) else none := by
  unfold Store.get s0
  by_cases h0 : 0 = i
  · subst h0; simp [AL.lookup]
  · by_cases h1 : 1 = i
    · subst h1; simp [AL.lookup]
    · have h0' : ¬ i = 0 := fun e => h0 e.symm
      have h1' : ¬ i = 1 := fun e => h1 e.symm
      simp [AL.lookup, h0, h1, h0', h1']

/-- the initial heap (root `0`, orphan empty directory `1`) is well formed -/
theorem wf_s0 : WF s0 0 := by
  refine ⟨by decide, fun d n => s0_noEdge _ _ _, fun d n c h => absurd h (s0_noEdge _ _ _), ?_,
    ⟨fun _ => 0, fun d n c h => absurd h (s0_noEdge _ _ _)⟩, fun d n d' n' c h => absurd h (s0_noEdge _ _ _),
    fun d n c h => absurd h (s0_noEdge _ _ _), ?_, ?_, ?_⟩
  · intro i hi
    rw [s0_get] at hi
    split at hi
    · next h => rcases h with h | h <;> subst h <;> decide
    · cases hi
  · intro i m data nl id h
    rw [s0_get] at h; split at h <;> cases h
  · intro i j m d nl id m' d' nl' h
    rw [s0_get] at h; split at h <;> cases h
  · intro i m d nl id h
    rw [s0_get] at h; split at h <;> cases h

/-- … but the heap after `mkdir "/a"` through the view rooted at `1` is not: directory `1` has an entry and is
    neither the root nor entered anywhere -/
theorem not_wf_s1 : ¬ WF s1 0 := by
  intro hwf
  have he : Edge s1 1 [97] 2 := by unfold Edge; decide
  rcases hwf.attached _ _ _ he with h | ⟨p, pn, hp⟩
  · cases h
  · have hc := Edge.isDir hp
    have hg : ∀ i, i ≠ 1 → s1.children i = [] := by
      intro i hi
      unfold Store.children Store.get s1
      have h1 : ¬ 1 = i := fun e => hi e.symm
      by_cases h2 : 2 = i
      · subst h2; simp [AL.lookup]
      · by_cases h0 : 0 = i
        · subst h0; simp [AL.lookup]
        · simp [AL.lookup, h1, h2, h0]
    by_cases hp1 : p = 1
    · subst hp1
      have : s1.children 1 = [([97], 2)] := by decide
      simp [Edge, Store.child, this, AL.lookup] at hp
    · simp [Edge, Store.child, hg p hp1] at hp

theorem mkdir_breaks_wf : WF s0 0 ∧ ¬ WF (mkdir s0 v1 [SL, 97] 0o755).1 0 := by
  rw [mkdir_s0]; exact ⟨wf_s0, not_wf_s1⟩

end Avfs.FS.Cex
