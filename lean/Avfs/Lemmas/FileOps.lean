import Avfs.FS.File
/-
  Helper lemmas for Props/C02 (open-file operations).
-/
namespace Avfs.FS
open Avfs.Path

theorem isEmpty_false_of_ne {α} {l : List α} (h : l ≠ []) : l.isEmpty = false := by
  cases l with
  | nil => exact absurd rfl h
  | cons a l => rfl

theorem get_set_eq (s : Store) (i : Ino) (n : Node) : (s.set i n).get i = some n := by
  simp [Store.get, Store.set]

theorem writeData_eq (d : Bytes) (pos : Nat) (b : Bytes) (hb : b ≠ []) :
    writeData d pos b = (d ++ List.replicate (pos - d.length) 0).take pos ++ b ++ d.drop (pos + b.length) := by
  unfold writeData
  rw [isEmpty_false_of_ne hb]
  simp only [Bool.false_eq_true, if_false]
  split
  · rename_i hgt
    have e1 : (d ++ List.replicate (pos - d.length) 0).drop (pos + b.length) = [] := by
      apply List.drop_eq_nil_of_le; simp; omega
    have e2 : d.drop (pos + b.length) = [] := by
      apply List.drop_eq_nil_of_le; omega
    rw [e1, e2]
  · rename_i hle
    have : pos - d.length = 0 := by omega
    simp [this]

theorem writeData_length (d : Bytes) (pos : Nat) (b : Bytes) (hb : b ≠ []) :
    (writeData d pos b).length = max d.length (pos + b.length) := by
  rw [writeData_eq d pos b hb]
  simp
  omega

theorem writeData_gap (d : Bytes) (pos : Nat) (b : Bytes) (hb : b ≠ []) (k : Nat) (h1 : d.length ≤ k) (h2 : k < pos) :
    (writeData d pos b)[k]? = some 0 := by
  rw [writeData_eq d pos b hb, List.append_assoc]
  have hl : ((d ++ List.replicate (pos - d.length) 0).take pos).length = pos := by simp; omega
  rw [List.getElem?_append_left (by omega)]
  rw [List.getElem?_take_of_lt h2, List.getElem?_append_right h1]
  rw [List.getElem?_replicate]
  simp; omega

theorem writeData_at_end (d b : Bytes) : writeData d d.length b = d ++ b := by
  unfold writeData
  split
  · rename_i h; simp at h; simp [h]
  · simp
/-- one `Readdirnames(n)` (n > 0) on a handle whose listing is cached -/
theorem readdirnames_cached (s : Store) (v : View) (h : Handle) (i : Ino) (m : Meta) (ch : List (Bytes × Ino))
    (n : Nat) (L : List Bytes)
    (hn : h.name ≠ []) (hnd : h.nd = some i) (hg : s.get i = some (.dir m ch)) (hL : h.dirNames = some L) (hn0 : 0 < n) :
    fileStep s v h (.readdirnames n) =
      if L.length ≤ h.dirIndex then (s, v, { h with dirIndex := 0, dirNames := none }, .errN 0 [] .eof)
      else (s, v, { h with dirIndex := min (h.dirIndex + n) L.length, dirNames := some L },
        .ok (.names ((L.take (min (h.dirIndex + n) L.length)).drop h.dirIndex))) := by
  have hn' : ¬ n = 0 := by omega
  simp [fileStep, isEmpty_false_of_ne hn, hnd, hg, hL, hn']

/-- one `Readdirnames(n)` (n > 0) on a fresh handle -/
theorem readdirnames_fresh (s : Store) (v : View) (h : Handle) (i : Ino) (m : Meta) (ch : List (Bytes × Ino))
    (n : Nat)
    (hn : h.name ≠ []) (hnd : h.nd = some i) (hg : s.get i = some (.dir m ch)) (hL : h.dirNames = none) (hn0 : 0 < n) :
    fileStep s v h (.readdirnames n) =
      if s.names i = [] then (s, v, { h with dirIndex := 0, dirNames := none }, .errN 0 [] .eof)
      else (s, v, { h with dirIndex := min n (s.names i).length, dirNames := some (s.names i) },
        .ok (.names ((s.names i).take (min n (s.names i).length)))) := by
  have hn' : ¬ n = 0 := by omega
  by_cases he : s.names i = []
  · simp [fileStep, isEmpty_false_of_ne hn, hnd, hg, hL, hn', dirNamesOf, he]
  · have hlen : ¬ (s.names i).length = 0 := by simpa using he
    simp [fileStep, isEmpty_false_of_ne hn, hnd, hg, hL, hn', dirNamesOf, he, hlen]
/-- the draining loop of Props/C02 (`drainNames` there is this function) -/
def drainNamesL (s : Store) (v : View) (n : Nat) : Nat → Handle → List (List Bytes) × Out
  | 0, _ => ([], .panic)
  | fuel + 1, h =>
    match fileStep s v h (.readdirnames n) with
    | (_, _, h', .ok (.names l)) => let (ls, o) := drainNamesL s v n fuel h'; (l :: ls, o)
    | (_, _, _, o) => ([], o)

theorem drainNamesL_cached (s : Store) (v : View) (i : Ino) (m : Meta) (ch : List (Bytes × Ino)) (n : Nat)
    (L : List Bytes) (hg : s.get i = some (.dir m ch)) (hn0 : 0 < n) :
    ∀ (fuel : Nat) (h : Handle), h.name ≠ [] → h.nd = some i → h.dirNames = some L →
      L.length - h.dirIndex + 1 ≤ fuel →
      (drainNamesL s v n fuel h).1.flatten = L.drop h.dirIndex ∧
      (∀ b ∈ (drainNamesL s v n fuel h).1, b.length ≤ n ∧ b ≠ []) ∧
      (drainNamesL s v n fuel h).2 = .errN 0 [] .eof := by
  intro fuel
  induction fuel with
  | zero => intro h _ _ _ hf; omega
  | succ fuel ih =>
    intro h hn hnd hL hf
    have hstep := readdirnames_cached s v h i m ch n L hn hnd hg hL hn0
    by_cases hle : L.length ≤ h.dirIndex
    · rw [if_pos hle] at hstep
      simp [drainNamesL, hstep, List.drop_eq_nil_of_le hle]
    · rw [if_neg hle] at hstep
      let h' : Handle := { h with dirIndex := min (h.dirIndex + n) L.length, dirNames := some L }
      have hi := ih h' hn hnd rfl (by show L.length - min (h.dirIndex + n) L.length + 1 ≤ fuel; omega)
      obtain ⟨hi1, hi2, hi3⟩ := hi
      have hd : drainNamesL s v n (fuel + 1) h =
          ((L.take (min (h.dirIndex + n) L.length)).drop h.dirIndex :: (drainNamesL s v n fuel h').1,
            (drainNamesL s v n fuel h').2) := by
        simp [drainNamesL, hstep, h']
      rw [hd]
      refine ⟨?_, ?_, hi3⟩
      · simp only [List.flatten_cons, hi1, h']
        have hlt : h.dirIndex ≤ (L.take (min (h.dirIndex + n) L.length)).length := by simp; omega
        rw [← List.drop_append_of_le_length hlt, List.take_append_drop]
      · intro b hb
        rcases List.mem_cons.mp hb with rfl | hb
        · constructor
          · simp; omega
          · intro he
            have := congrArg List.length he
            simp at this; omega
        · exact hi2 b hb
theorem drainNamesL_fresh (s : Store) (v : View) (h : Handle) (i : Ino) (m : Meta) (ch : List (Bytes × Ino)) (n : Nat)
    (hn : h.name ≠ []) (hnd : h.nd = some i) (hg : s.get i = some (.dir m ch)) (hfresh : h.dirNames = none) (hn0 : 0 < n) :
    let r := drainNamesL s v n ((s.names i).length + 2) h
    r.1.flatten = s.names i ∧ (∀ b ∈ r.1, b.length ≤ n ∧ b ≠ []) ∧ r.2 = .errN 0 [] .eof := by
  intro r
  have hstep := readdirnames_fresh s v h i m ch n hn hnd hg hfresh hn0
  by_cases he : s.names i = []
  · rw [if_pos he] at hstep
    simp [r, drainNamesL, hstep, he]
  · rw [if_neg he] at hstep
    have hpos : 0 < (s.names i).length := List.length_pos_iff.mpr he
    let h' : Handle := { h with dirIndex := min n (s.names i).length, dirNames := some (s.names i) }
    have hi := drainNamesL_cached s v i m ch n (s.names i) hg hn0 ((s.names i).length + 1) h' hn hnd rfl
      (by show (s.names i).length - min n (s.names i).length + 1 ≤ _; omega)
    obtain ⟨hi1, hi2, hi3⟩ := hi
    have hd : r = ((s.names i).take (min n (s.names i).length) :: (drainNamesL s v n ((s.names i).length + 1) h').1,
        (drainNamesL s v n ((s.names i).length + 1) h').2) := by
      simp [r, drainNamesL, hstep, h']
    rw [hd]
    refine ⟨?_, ?_, hi3⟩
    · simp only [List.flatten_cons, hi1, h', List.take_append_drop]
    · intro b hb
      rcases List.mem_cons.mp hb with rfl | hb
      · constructor
        · simp; omega
        · intro he'
          have := congrArg List.length he'
          rw [List.length_take, List.length_nil] at this; omega
      · exact hi2 b hb
end Avfs.FS
