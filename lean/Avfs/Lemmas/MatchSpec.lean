import Avfs.Path.Model
import Avfs.Lemmas.PathMore
set_option linter.unusedSimpArgs false
/-
  C13 / Match: a declarative glob semantics and the proof that `pmatch os` (the transliteration of avfs's
  re-implementation of filepath.Match for the emulated OS) computes it — for BOTH OS types: every definition and
  theorem takes `os`; Linux syntax = separator '/', escape '\\'; Windows syntax = separator '\\', no escape
  (`isEsc`).  The comments below say '/' for `pathSep os`.

  SPECIFICATION (sections 1–4)
  * `parsePat : Bytes → List Item × Bool` reads a pattern from left to right into items
    (`star`, `any` = '?', `lit b` = one literal BYTE, `cls negated ranges` = a character class over RUNES)
    and stops at the first syntax error (flag = false; Go's rules: unterminated or empty class, unescaped '-' or
    ']' where a class character is expected, invalid UTF-8 in a class, trailing backslash).
    `parse` = the items when there is no error.
  * `MatchesRem items s v` (inductive, declarative), `Matches`, `MatchesPrefix`; the same as Bool functions
    `matchK fin`, `matchItems`, `matchPrefix` (section 16 proves the equivalences):
    `star` matches any sequence of non-separator BYTES (Go's loop `name[i+1:]` skips bytes),
    `any` one rune (decoded with the model's `decodeRune`, so invalid bytes are runes of one byte) whose first
    byte is not '/', `lit b` the byte b, `cls` one rune that is (not) in the ranges.
    A class is NOT barred from matching '/' — this is what Go and avfs do: `Match("[^a]", "/") = true`
    (`class_matches_sep`).
  * `specMatch pat name : MOut Bool` = the predicted outcome: `.ok (matchItems items name)` for a well-formed
    pattern; for a malformed one ErrBadPattern iff the matching REACHES the malformed chunk (the items up to the
    last star before the error match a prefix of the name), `.ok false` otherwise.  (avfs transliterates the Go
    version that does not check the rest of the pattern after a failed match.)
  * `Safe items name`: the hypothesis.  The algorithm commits to the FIRST position at which the chunk after
    a star matches.  That loses matches in two situations, both real (kernel-checked witnesses in section 19,
    both also present in Go): (1) a class between two stars that accepts '/' when the name contains '/'
    (`*[^a]*` / "b/"); (2) a `?` or class between two stars when the name contains a rune of 3 or 4 bytes
    (`*?*?` / "€": a later start position inside the rune ends EARLIER).  `Safe` = either only literals stand
    between two stars (`midLit`), or the name has no 3/4-byte rune (`narrow`) and (the name has no '/' or no
    class accepts '/').

  MAIN THEOREMS (sections 15, 17, 18)
  * `pmatch_eq_specMatch`, `pmatch_eq_spec`, `pmatch_bad_iff`, `pmatch_wf`, `pmatch_true_iff`  (under `Safe`)
  * `pmatch_sound`, `pmatch_true_sound`, `pmatch_bad_sound`, `pmatch_wf_not_bad`  (no hypothesis: `true` and
    ErrBadPattern are always right)
  KEY LEMMAS: `chunk_mono` / `commit_eq` (committing to the leftmost match of a chunk is complete),
  `parsePat_trunc` (scanChunk's bracket-counting scan cuts the pattern where the parser sees an unbracketed
  star), `matchChunk_eq` (matchChunk = deterministic match of the chunk's items, ErrBadPattern iff the chunk is
  malformed, whatever the name), `starScan_eq`, `loop_step`.
-/
namespace Avfs.Path
namespace MatchSpec

variable {os : OS}

inductive Item
  | star
  | any
  | lit (b : UInt8)
  | cls (negated : Bool) (ranges : List (Nat × Nat))
  deriving DecidableEq, Repr

/-! ### 1. Syntax -/

/-- the byte introduces an escape: the backslash, except on Windows where it is the separator -/
def isEsc (os : OS) (c : UInt8) : Bool := c == BS && os != .windows

/-- one class character (Go's getEsc): an optional backslash (where it is an escape), then one well-formed rune that is
    followed by something; an unescaped '-' or ']' is not a class character -/
def classChar (os : OS) : Bytes → Option (Nat × Bytes)
  | [] => none
  | c :: rest =>
    if c == DASH || c == RB then none else
    let body := if isEsc os c then rest else c :: rest
    if body == [] then none else
    let r := (decodeRune body).1
    let n := (decodeRune body).2
    if r == runeError && n == 1 then none          -- invalid UTF-8 in a class
    else if body.drop n == [] then none             -- the class cannot be terminated
    else some (r, body.drop n)

/-- the ranges of a class up to the closing ']' (which must come after at least one range);
    `fuel` bounds the number of ranges (each consumes at least one byte) -/
def parseRanges (os : OS) : Nat → Bool → Bytes → Option (List (Nat × Nat) × Bytes)
  | 0, _, _ => none
  | fuel + 1, first, chunk =>
    match chunk with
    | [] => none
    | c :: rest =>
      if c == RB && !first then some ([], rest) else
      match classChar os chunk with
      | none => none
      | some (lo, chunk1) =>
        match chunk1 with
        | [] => none
        | c1 :: rest1 =>
          if c1 == DASH then
            match classChar os rest1 with
            | none => none
            | some (hi, chunk2) =>
              match parseRanges os fuel false chunk2 with
              | none => none
              | some (rs, r) => some ((lo, hi) :: rs, r)
          else
            match parseRanges os fuel false chunk1 with
            | none => none
            | some (rs, r) => some ((lo, lo) :: rs, r)

/-- what follows '[': an optional '^' … -/
def classNeg : Bytes → Bool
  | c1 :: _ => c1 == CARET
  | [] => false

def classBody (rest : Bytes) : Bytes := if classNeg rest then rest.drop 1 else rest

/-- … then the ranges -/
def parseClass (os : OS) (rest : Bytes) : Option (Item × Bytes) :=
  match parseRanges os ((classBody rest).length + 1) true (classBody rest) with
  | none => none
  | some (rs, r) => some (.cls (classNeg rest) rs, r)

/-- left-to-right parse os; the flag is false when a syntax error stopped the parse os
    (the items are then those read before the erroneous item).  `fuel` > length. -/
def parseAux (os : OS) : Nat → Bytes → List Item × Bool
  | 0, _ => ([], false)
  | _ + 1, [] => ([], true)
  | fuel + 1, c :: rest =>
    if c == STAR then ((Item.star :: (parseAux os fuel rest).1), (parseAux os fuel rest).2)
    else if c == QM then ((Item.any :: (parseAux os fuel rest).1), (parseAux os fuel rest).2)
    else if c == LB then
      match parseClass os rest with
      | none => ([], false)
      | some (it, rest') => (it :: (parseAux os fuel rest').1, (parseAux os fuel rest').2)
    else if isEsc os c then
      match rest with
      | [] => ([], false)
      | l :: rest' => (Item.lit l :: (parseAux os fuel rest').1, (parseAux os fuel rest').2)
    else (Item.lit c :: (parseAux os fuel rest).1, (parseAux os fuel rest).2)

def parsePat (os : OS) (pat : Bytes) : List Item × Bool := parseAux os (pat.length + 1) pat

/-- the items of a well-formed pattern -/
def parse (os : OS) (pat : Bytes) : Option (List Item) :=
  if (parsePat os pat).2 then some (parsePat os pat).1 else none

/-! ### 2. Semantics -/

def inRanges (rs : List (Nat × Nat)) (r : Nat) : Bool := rs.any (fun p => p.1 ≤ r && r ≤ p.2)

/-- what is left of `s` after the single-character item has matched at its beginning -/
def Item.step (os : OS) : Item → Bytes → Option Bytes
  | .star, _ => none
  | .any, s =>
    match s with
    | [] => none
    | c :: _ => if c != (pathSep os) then some (s.drop (decodeRune s).2) else none
  | .lit b, s =>
    match s with
    | [] => none
    | c :: s' => if c == b then some s' else none
  | .cls neg rs, s =>
    match s with
    | [] => none
    | _ :: _ => if inRanges rs (decodeRune s).1 != neg then some (s.drop (decodeRune s).2) else none

/-- `f` holds after skipping some (possibly no) non-separator bytes -/
def starAny (os : OS) (f : Bytes → Bool) : Bytes → Bool
  | [] => f []
  | c :: s => f (c :: s) || (c != (pathSep os) && starAny os f s)

/-- the items match a prefix of `s` and `fin` holds of the remainder -/
def matchK (os : OS) (fin : Bytes → Bool) : List Item → Bytes → Bool
  | [], s => fin s
  | it :: is, s =>
    match it with
    | .star => starAny os (matchK os fin is) s
    | _ => match it.step os s with
      | some s' => matchK os fin is s'
      | none => false

/-- the items match the whole of `s` -/
def matchItems (os : OS) (items : List Item) (s : Bytes) : Bool := matchK os List.isEmpty items s

/-- the items match a prefix of `s` -/
def matchPrefix (os : OS) (items : List Item) (s : Bytes) : Bool := matchK os (fun _ => true) items s

/-- the same, declaratively: `MatchesRem items s v` = the items match at the beginning of `s` and leave `v`.
    (Runes are decoded in the context of the whole remaining name, as the algorithm does: a `?` in front of
    `E2 82 AC` consumes three bytes, whatever is to be matched next.) -/
inductive MatchesRem (os : OS) : List Item → Bytes → Bytes → Prop
  | nil (v : Bytes) : MatchesRem os [] v v
  | star (u s v : Bytes) (is : List Item) : (∀ c ∈ u, c ≠ (pathSep os)) → MatchesRem os is s v →
      MatchesRem os (.star :: is) (u ++ s) v
  | any (c : UInt8) (s1 v : Bytes) (is : List Item) : c ≠ (pathSep os) →
      MatchesRem os is ((c :: s1).drop (decodeRune (c :: s1)).2) v → MatchesRem os (.any :: is) (c :: s1) v
  | lit (b : UInt8) (s v : Bytes) (is : List Item) : MatchesRem os is s v → MatchesRem os (.lit b :: is) (b :: s) v
  | cls (neg : Bool) (rs : List (Nat × Nat)) (c : UInt8) (s1 v : Bytes) (is : List Item) :
      ((∃ p ∈ rs, p.1 ≤ (decodeRune (c :: s1)).1 ∧ (decodeRune (c :: s1)).1 ≤ p.2) ↔ neg = false) →
      MatchesRem os is ((c :: s1).drop (decodeRune (c :: s1)).2) v → MatchesRem os (.cls neg rs :: is) (c :: s1) v

/-- the items match the whole of `s` -/
def Matches (os : OS) (items : List Item) (s : Bytes) : Prop := MatchesRem os items s []

/-- the items match a prefix of `s` -/
def MatchesPrefix (os : OS) (items : List Item) (s : Bytes) : Prop := ∃ v, MatchesRem os items s v

/-! ### 3. The outcome of Match in terms of the specification -/

def isStar : Item → Bool
  | .star => true
  | _ => false

/-- the items up to and including the last star -/
def goodPrefix (items : List Item) : List Item := (items.reverse.dropWhile (fun i => !isStar i)).reverse

/-- The predicted outcome: a well-formed pattern is matched against the whole name; a malformed pattern is
    reported (ErrBadPattern) only when the matching reaches the malformed chunk, i.e. when the items up to the
    last star before the error match a prefix of the name — otherwise the answer is `false` without error. -/
def specMatch (os : OS) (pat name : Bytes) : MOut Bool :=
  if (parsePat os pat).2 then .ok (matchItems os (parsePat os pat).1 name)
  else if matchPrefix os (goodPrefix (parsePat os pat).1) name then .badPattern
  else .ok false

/-! ### 4. The hypotheses under which the non-backtracking algorithm is complete -/

/-- the class accepts the separator -/
def acceptsSep (os : OS) : Item → Bool
  | .cls neg rs => inRanges rs (pathSep os).toNat != neg
  | _ => false

/-- no position of the name decodes to a rune of 3 or 4 bytes -/
def narrow : Bytes → Bool
  | [] => true
  | c :: s => decide ((decodeRune (c :: s)).2 ≤ 2) && narrow s

def noStar (l : List Item) : Bool := l.all (fun i => !isStar i)

/-- (items that follow a star:) every `?` / class is followed by no further star -/
def aftLit : List Item → Bool
  | [] => true
  | .star :: l => aftLit l
  | .lit _ :: l => aftLit l
  | _ :: l => noStar l

/-- every `?` / class that follows a star is followed by no further star: between two stars there are only
    literals -/
def midLit : List Item → Bool
  | [] => true
  | .star :: l => aftLit l
  | _ :: l => midLit l

/-- THE HYPOTHESIS of the completeness direction: only literals stand between two stars, or the name decodes to
    runes of at most 2 bytes and (contains no separator or no class of the pattern accepts the separator).
    Decidable; `needSafe_class_sep`, `needSafe_wide_rune` show that neither part can be dropped. -/
def Safe (os : OS) (items : List Item) (name : Bytes) : Prop :=
  midLit items = true ∨
  (narrow name = true ∧ ((pathSep os) ∉ name ∨ ∀ it ∈ items, acceptsSep os it = false))

instance (items : List Item) (name : Bytes) : Decidable (Safe os items name) := by
  unfold Safe; infer_instance

/-! ### 5. Basic facts on the parser -/

theorem decodeRune_size_le (s : Bytes) : (decodeRune s).2 ≤ s.length := by
  unfold decodeRune
  split
  · simp
  · repeat' split
    all_goals first | (simp; done) | (simp; omega) | (simp; split <;> simp <;> omega)

/-- the body of a class character: what follows the optional backslash -/
def ccBody (os : OS) (c : UInt8) (rest : Bytes) : Bytes := if isEsc os c then rest else c :: rest

theorem classChar_cons (c : UInt8) (rest : Bytes) (r : Nat) (x' : Bytes) :
    classChar os (c :: rest) = some (r, x') ↔
      c ≠ DASH ∧ c ≠ RB ∧ ccBody os c rest ≠ [] ∧
      ¬ ((decodeRune (ccBody os c rest)).1 = runeError ∧ (decodeRune (ccBody os c rest)).2 = 1) ∧
      x' ≠ [] ∧ r = (decodeRune (ccBody os c rest)).1 ∧ x' = (ccBody os c rest).drop (decodeRune (ccBody os c rest)).2 := by
  simp only [classChar, ccBody]
  generalize (if isEsc os c = true then rest else c :: rest) = body
  by_cases h1 : c = DASH
  · simp [h1]
  by_cases h2 : c = RB
  · simp [h2]
  by_cases h3 : body = []
  · simp [h1, h2, h3]
  have hc : (c == DASH || c == RB) = false := by simp [h1, h2]
  have hb : (body == []) = false := by simp [h3]
  simp only [hc, hb, Bool.false_eq_true, if_false, ne_eq, h1, h2, h3, not_false_eq_true, true_and]
  by_cases h4 : ((decodeRune body).1 == runeError && (decodeRune body).2 == 1) = true
  · rw [if_pos h4]
    simp at h4
    simp [h4]
  · rw [if_neg h4]
    simp at h4
    by_cases h5 : (List.drop (decodeRune body).2 body == []) = true
    · rw [if_pos h5]
      simp at h5
      simp only [reduceCtorEq, false_iff, not_and]
      intro _ hx _ hx2
      subst hx2
      simp at hx
      omega
    · rw [if_neg h5]
      simp only [Option.some.injEq, Prod.mk.injEq]
      constructor
      · rintro ⟨rfl, rfl⟩
        refine ⟨by simpa using h4, by simpa using h5, rfl, rfl⟩
      · rintro ⟨_, _, rfl, rfl⟩
        exact ⟨rfl, rfl⟩

theorem ccBody_length_le (c : UInt8) (rest : Bytes) : (ccBody os c rest).length ≤ rest.length + 1 := by
  unfold ccBody; split <;> simp

theorem classChar_some {x : Bytes} {r : Nat} {x' : Bytes} (h : classChar os x = some (r, x')) :
    x' ≠ [] ∧ x'.length < x.length := by
  cases x with
  | nil => simp [classChar] at h
  | cons c rest =>
    rw [classChar_cons] at h
    obtain ⟨_, _, hb, _, hne, _, hx⟩ := h
    refine ⟨hne, ?_⟩
    have hpos := decodeRune_size_pos _ hb
    have hle := ccBody_length_le (os := os) c rest
    have hb' : 0 < (ccBody os c rest).length := List.length_pos_iff.mpr hb
    subst hx
    rw [List.length_drop]
    simp only [List.length_cons]
    omega

theorem parseRanges_length : ∀ (fuel : Nat) (first : Bool) (chunk : Bytes) (rs : List (Nat × Nat)) (y : Bytes),
    parseRanges os fuel first chunk = some (rs, y) → y.length < chunk.length := by
  intro fuel
  induction fuel with
  | zero => intro first chunk rs y h; simp [parseRanges] at h
  | succ fuel ih =>
    intro first chunk rs y h
    cases chunk with
    | nil => simp [parseRanges] at h
    | cons c rest =>
      simp only [parseRanges] at h
      split at h
      · injection h with h; injection h with _ h2; subst h2; simp
      · cases hcc : classChar os (c :: rest) with
        | none => simp [hcc] at h
        | some p =>
          obtain ⟨lo, chunk1⟩ := p
          have h1 := classChar_some hcc
          simp only [hcc] at h
          cases chunk1 with
          | nil => simp at h
          | cons c1 rest1 =>
            simp only at h
            split at h
            · cases hcc2 : classChar os rest1 with
              | none => simp [hcc2] at h
              | some p2 =>
                obtain ⟨hi, chunk2⟩ := p2
                have h2 := classChar_some hcc2
                simp only [hcc2] at h
                cases hpr : parseRanges os fuel false chunk2 with
                | none => simp [hpr] at h
                | some q =>
                  obtain ⟨rs', r'⟩ := q
                  simp only [hpr] at h
                  injection h with h; injection h with _ h3; subst h3
                  have := ih _ _ _ _ hpr
                  simp only [List.length_cons] at h1 h2 ⊢
                  omega
            · cases hpr : parseRanges os fuel false (c1 :: rest1) with
              | none => simp [hpr] at h
              | some q =>
                obtain ⟨rs', r'⟩ := q
                simp only [hpr] at h
                injection h with h; injection h with _ h3; subst h3
                have := ih _ _ _ _ hpr
                simp only [List.length_cons] at h1 this ⊢
                omega

theorem parseRanges_fuel : ∀ (fuel fuel' : Nat) (first : Bool) (chunk : Bytes),
    chunk.length < fuel → chunk.length < fuel' → parseRanges os fuel first chunk = parseRanges os fuel' first chunk := by
  intro fuel
  induction fuel with
  | zero => intro fuel' first chunk h; omega
  | succ fuel ih =>
    intro fuel' first chunk hf hf'
    cases fuel' with
    | zero => omega
    | succ fuel' =>
      cases chunk with
      | nil => simp [parseRanges]
      | cons c rest =>
        simp only [parseRanges]
        split
        · rfl
        · cases hcc : classChar os (c :: rest) with
          | none => rfl
          | some p =>
            obtain ⟨lo, chunk1⟩ := p
            have h1 := classChar_some hcc
            cases chunk1 with
            | nil => rfl
            | cons c1 rest1 =>
              simp only
              split
              · cases hcc2 : classChar os rest1 with
                | none => rfl
                | some p2 =>
                  obtain ⟨hi, chunk2⟩ := p2
                  have h2 := classChar_some hcc2
                  simp only [List.length_cons] at h1 h2 hf hf'
                  simp only
                  rw [ih fuel' false chunk2 (by omega) (by omega)]
              · simp only [List.length_cons] at h1 hf hf'
                rw [ih fuel' false (c1 :: rest1) (by simp only [List.length_cons]; omega)
                  (by simp only [List.length_cons]; omega)]

theorem parseClass_some {rest : Bytes} {it : Item} {rest' : Bytes} (h : parseClass os rest = some (it, rest')) :
    rest'.length < rest.length ∧ ∃ neg rs, it = .cls neg rs := by
  unfold parseClass at h
  have hbl : (classBody rest).length ≤ rest.length := by
    unfold classBody; split <;> simp
  generalize classBody rest = body at h hbl
  cases hpr : parseRanges os (body.length + 1) true body with
  | none => simp [hpr] at h
  | some q =>
    obtain ⟨rs, r⟩ := q
    simp only [hpr] at h
    injection h with h; injection h with h1 h2
    subst h2
    have := parseRanges_length _ _ _ _ _ hpr
    exact ⟨by omega, _, _, h1.symm⟩

theorem parseAux_fuel : ∀ (fuel fuel' : Nat) (p : Bytes),
    p.length < fuel → p.length < fuel' → parseAux os fuel p = parseAux os fuel' p := by
  intro fuel
  induction fuel with
  | zero => intro fuel' p h; omega
  | succ fuel ih =>
    intro fuel' p hf hf'
    cases fuel' with
    | zero => omega
    | succ fuel' =>
      cases p with
      | nil => simp [parseAux]
      | cons c rest =>
        simp only [List.length_cons] at hf hf'
        simp only [parseAux]
        rw [ih fuel' rest (by omega) (by omega)]
        split
        · rfl
        · split
          · rfl
          · split
            · cases hpc : parseClass os rest with
              | none => rfl
              | some q =>
                obtain ⟨it, rest'⟩ := q
                have := (parseClass_some hpc).1
                simp only
                rw [ih fuel' rest' (by omega) (by omega)]
            · split
              · cases rest with
                | nil => rfl
                | cons l rest' =>
                  simp only [List.length_cons] at hf hf'
                  simp only
                  rw [ih fuel' rest' (by omega) (by omega)]
              · rfl

theorem parsePat_eq (fuel : Nat) (p : Bytes) (h : p.length < fuel) : parseAux os fuel p = parsePat os p :=
  parseAux_fuel _ _ _ h (by omega)

theorem parsePat_nil : parsePat os [] = ([], true) := rfl

theorem parsePat_star (rest : Bytes) :
    parsePat os (STAR :: rest) = (Item.star :: (parsePat os rest).1, (parsePat os rest).2) := by
  simp [parsePat, parseAux]

theorem parsePat_qm (rest : Bytes) :
    parsePat os (QM :: rest) = (Item.any :: (parsePat os rest).1, (parsePat os rest).2) := by
  simp [parsePat, parseAux, QM, STAR]

theorem parsePat_lb (rest : Bytes) :
    parsePat os (LB :: rest) = match parseClass os rest with
      | none => ([], false)
      | some (it, rest') => (it :: (parsePat os rest').1, (parsePat os rest').2) := by
  simp only [parsePat, parseAux, List.length_cons]
  have h1 : (LB == STAR) = false := by decide
  have h2 : (LB == QM) = false := by decide
  simp only [h1, h2, Bool.false_eq_true, if_false, beq_self_eq_true, if_true]
  cases hpc : parseClass os rest with
  | none => rfl
  | some q =>
    obtain ⟨it, rest'⟩ := q
    have := (parseClass_some hpc).1
    simp only
    rw [parsePat_eq _ rest' (by omega)]
    rfl

theorem isEsc_linux (c : UInt8) : isEsc .linux c = (c == BS) := by simp [isEsc]

theorem isEsc_windows (c : UInt8) : isEsc .windows c = false := by simp [isEsc]

theorem isEsc_ne (c : UInt8) (h : c ≠ BS) : isEsc os c = false := by simp [isEsc, h]

theorem parsePat_bs_nil : parsePat .linux [BS] = ([], false) := by decide

theorem parsePat_bs (l : UInt8) (rest : Bytes) :
    parsePat .linux (BS :: l :: rest) = (Item.lit l :: (parsePat .linux rest).1, (parsePat .linux rest).2) := by
  simp only [parsePat, parseAux, List.length_cons]
  have h1 : (BS == STAR) = false := by decide
  have h2 : (BS == QM) = false := by decide
  have h3 : (BS == LB) = false := by decide
  have h4 : isEsc .linux BS = true := by decide
  simp only [h1, h2, h3, h4, Bool.false_eq_true, if_false, if_true]
  rw [parsePat_eq _ rest (by omega)]
  rfl

theorem parsePat_lit (c : UInt8) (rest : Bytes) (h1 : c ≠ STAR) (h2 : c ≠ QM) (h3 : c ≠ LB)
    (h4 : isEsc os c = false) :
    parsePat os (c :: rest) = (Item.lit c :: (parsePat os rest).1, (parsePat os rest).2) := by
  simp [parsePat, parseAux, h1, h2, h3, h4]

/-! ### 6. The class loop of the model computes `parseRanges` -/

theorem getEsc_eq (chunk : Bytes) :
    getEsc os chunk = match classChar os chunk with
      | none => .badPattern
      | some p => .ok p := by
  cases chunk with
  | nil => rfl
  | cons c rest =>
    simp only [getEsc, classChar]
    by_cases h1 : (c == DASH || c == RB) = true
    · simp only [h1, if_true]
    · simp only [h1, Bool.false_eq_true, if_false]
      have hesc : (c == BS && os != OS.windows) = isEsc os c := rfl
      rw [hesc]
      by_cases h2 : isEsc os c = true
      · simp only [h2, if_true]
        by_cases h3 : (rest == []) = true
        · simp only [h3, if_true]
        · simp only [h3, Bool.false_eq_true, if_false]
          generalize decodeRune rest = d
          obtain ⟨r, n⟩ := d
          simp only
          by_cases h4 : (r == runeError && n == 1) = true
          · simp [h4]
          · simp only [h4, Bool.false_eq_true, if_false, Bool.false_or]
            split <;> rfl
      · simp only [h2, Bool.false_eq_true, if_false]
        have h3 : (c :: rest == []) = false := by simp
        simp only [h3, Bool.false_eq_true, if_false]
        generalize decodeRune (c :: rest) = d
        obtain ⟨r, n⟩ := d
        simp only
        by_cases h4 : (r == runeError && n == 1) = true
        · simp [h4]
        · simp only [h4, Bool.false_eq_true, if_false, Bool.false_or]
          split <;> rfl

theorem inRanges_cons (lo hi : Nat) (rs : List (Nat × Nat)) (r : Nat) :
    inRanges ((lo, hi) :: rs) r = ((decide (lo ≤ r) && decide (r ≤ hi)) || inRanges rs r) := by
  simp [inRanges]

theorem classLoop_eq (r : Nat) : ∀ (fuel : Nat) (chunk : Bytes) (mt : Bool) (nrange : Nat),
    chunk.length < fuel →
    classLoop os r fuel chunk mt nrange = match parseRanges os fuel (nrange == 0) chunk with
      | none => .badPattern
      | some (rs, y) => .ok (mt || inRanges rs r, y) := by
  intro fuel
  induction fuel with
  | zero => intro chunk mt nrange h; omega
  | succ fuel ih =>
    intro chunk mt nrange hf
    cases chunk with
    | nil => simp [classLoop, parseRanges, getEsc]
    | cons c rest =>
      simp only [classLoop, parseRanges]
      have hnr : (!(nrange == 0)) = decide (nrange > 0) := by
        cases nrange <;> simp
      rw [hnr]
      by_cases h1 : (c == RB && decide (nrange > 0)) = true
      · simp only [h1, if_true]
        simp [inRanges]
      · simp only [h1, Bool.false_eq_true, if_false]
        rw [getEsc_eq]
        cases hcc : classChar os (c :: rest) with
        | none => rfl
        | some p =>
          obtain ⟨lo, chunk1⟩ := p
          have hs1 := classChar_some hcc
          simp only
          cases chunk1 with
          | nil => exact absurd rfl hs1.1
          | cons c1 rest1 =>
            simp only
            have hn1 : (nrange + 1 == 0) = false := by simp
            by_cases h2 : (c1 == DASH) = true
            · simp only [h2, if_true]
              rw [getEsc_eq]
              cases hcc2 : classChar os rest1 with
              | none => rfl
              | some p2 =>
                obtain ⟨hi, chunk2⟩ := p2
                have hs2 := classChar_some hcc2
                simp only [List.length_cons] at hs1 hs2 hf
                simp only
                rw [ih chunk2 _ _ (by omega), hn1]
                cases parseRanges os fuel false chunk2 with
                | none => rfl
                | some q =>
                  obtain ⟨rs, y⟩ := q
                  simp only [inRanges_cons, Bool.or_assoc]
            · simp only [h2, Bool.false_eq_true, if_false]
              simp only [List.length_cons] at hs1 hf
              rw [ih (c1 :: rest1) _ _ (by simp only [List.length_cons]; omega), hn1]
              cases parseRanges os fuel false (c1 :: rest1) with
              | none => rfl
              | some q =>
                obtain ⟨rs, y⟩ := q
                simp only [inRanges_cons, Bool.or_assoc]

theorem decodeRune_tail_high (b0 : UInt8) (s1 : Bytes) :
    ∀ b ∈ s1.take ((decodeRune (b0 :: s1)).2 - 1), (0x80 : UInt8) ≤ b := by
  unfold decodeRune
  simp only
  repeat' split
  all_goals try (simp; done)
  all_goals simp only [isCont, Bool.and_eq_true, decide_eq_true_eq] at *
  all_goals (intro b hb; simp at hb)
  all_goals first
    | (subst hb; simp only [UInt8.le_iff_toNat_le, UInt8.reduceToNat] at *; omega)
    | (rcases hb with rfl | rfl <;> (simp only [UInt8.le_iff_toNat_le, UInt8.reduceToNat] at *; omega))
    | (rcases hb with rfl | rfl | rfl <;> (simp only [UInt8.le_iff_toNat_le, UInt8.reduceToNat] at *; omega))


theorem decodeRune_append_star (a b : Bytes) (h : a ≠ []) :
    decodeRune (a ++ STAR :: b) = decodeRune a := by
  have h1 : ∀ (p : Prop) [Decidable p], ¬ ((if p then (160 : UInt8) else 128) ≤ 42) := by
    intro p _; split <;> decide
  have h2 : ∀ (p : Prop) [Decidable p], ¬ ((if p then (144 : UInt8) else 128) ≤ 42) := by
    intro p _; split <;> decide
  rcases a with _ | ⟨b0, _ | ⟨b1, _ | ⟨b2, _ | ⟨b3, a4⟩⟩⟩⟩
  · exact absurd rfl h
  · rcases b with _ | ⟨c1, _ | ⟨c2, b⟩⟩ <;> simp [decodeRune, isCont, STAR, h1, h2]
  · rcases b with _ | ⟨c1, b⟩ <;> simp [decodeRune, isCont, STAR, h1, h2]
  · simp [decodeRune, isCont, STAR]
  · simp only [decodeRune, List.cons_append]


theorem decodeRune_ascii (b0 : UInt8) (s : Bytes) (h : b0 < 0x80) : decodeRune (b0 :: s) = (b0.toNat, 1) := by
  simp [decodeRune, h]

/-! ### 7. The scan for the end of a chunk -/

/-- the length of the chunk found by scanChunk's scan in bracket state `m` -/
def scanLen (os : OS) (l : Bytes) (m : Bool) : Nat := scanChunk.scan os l m 0

theorem scan_nil (m : Bool) (acc : Nat) : scanChunk.scan os [] m acc = acc := by
  simp [scanChunk.scan]

theorem isEsc_true {c : UInt8} (h : isEsc os c = true) : c = BS ∧ os = .linux := by
  cases os <;> simp [isEsc] at h ⊢
  exact h

theorem scan_bs_nil (m : Bool) (acc : Nat) : scanChunk.scan .linux [BS] m acc = acc + 1 := by
  simp [scanChunk.scan]

theorem scan_bs_cons (x : UInt8) (l : Bytes) (m : Bool) (acc : Nat) :
    scanChunk.scan .linux (BS :: x :: l) m acc = scanChunk.scan .linux l m (acc + 2) := by
  simp [scanChunk.scan]

theorem scan_lb (l : Bytes) (m : Bool) (acc : Nat) :
    scanChunk.scan os (LB :: l) m acc = scanChunk.scan os l true (acc + 1) := by
  have h1 : (LB == BS) = false := by decide
  rw [scanChunk.scan.eq_def]; simp [h1]

theorem scan_rb (l : Bytes) (m : Bool) (acc : Nat) :
    scanChunk.scan os (RB :: l) m acc = scanChunk.scan os l false (acc + 1) := by
  have h1 : (RB == BS) = false := by decide
  have h2 : (RB == LB) = false := by decide
  rw [scanChunk.scan.eq_def]; simp [h1, h2]

theorem scan_star_false (l : Bytes) (acc : Nat) :
    scanChunk.scan os (STAR :: l) false acc = acc := by
  have h1 : (STAR == BS) = false := by decide
  have h2 : (STAR == LB) = false := by decide
  have h3 : (STAR == RB) = false := by decide
  rw [scanChunk.scan.eq_def]; simp [h1, h2, h3]

theorem scan_star_true (l : Bytes) (acc : Nat) :
    scanChunk.scan os (STAR :: l) true acc = scanChunk.scan os l true (acc + 1) := by
  have h1 : (STAR == BS) = false := by decide
  have h2 : (STAR == LB) = false := by decide
  have h3 : (STAR == RB) = false := by decide
  rw [scanChunk.scan.eq_def]; simp [h1, h2, h3]

theorem scan_other (c : UInt8) (l : Bytes) (m : Bool) (acc : Nat)
    (h1 : isEsc os c = false) (h2 : c ≠ LB) (h3 : c ≠ RB) (h4 : c ≠ STAR) :
    scanChunk.scan os (c :: l) m acc = scanChunk.scan os l m (acc + 1) := by
  by_cases hb : c = BS
  · subst hb
    cases os with
    | linux => simp [isEsc] at h1
    | windows => rw [scanChunk.scan.eq_def]; simp
  · rw [scanChunk.scan.eq_def]; simp [hb, h2, h3, h4]

theorem scan_acc_aux : ∀ (n : Nat) (l : Bytes), l.length ≤ n → ∀ (m : Bool) (acc : Nat),
    scanChunk.scan os l m acc = acc + scanLen os l m := by
  intro n
  induction n with
  | zero =>
    intro l hl m acc
    have : l = [] := List.length_eq_zero_iff.mp (by omega)
    subst this; simp [scanLen, scan_nil]
  | succ n ih =>
    intro l hl m acc
    unfold scanLen
    cases l with
    | nil => simp [scan_nil]
    | cons c l' =>
      simp only [List.length_cons] at hl
      by_cases h1 : isEsc os c = true
      · obtain ⟨hcb, hos⟩ := isEsc_true h1
        subst hcb hos
        cases l' with
        | nil => simp [scan_bs_nil]
        | cons x l'' =>
          simp only [List.length_cons] at hl
          rw [scan_bs_cons, scan_bs_cons, ih l'' (by omega), ih l'' (by omega) m (0 + 2)]; omega
      have h1 : isEsc os c = false := by simpa using h1
      by_cases h2 : c = LB
      · subst h2
        rw [scan_lb, scan_lb, ih l' (by omega), ih l' (by omega) true (0 + 1)]; omega
      by_cases h3 : c = RB
      · subst h3
        rw [scan_rb, scan_rb, ih l' (by omega), ih l' (by omega) false (0 + 1)]; omega
      by_cases h4 : c = STAR
      · subst h4
        cases m with
        | false => simp [scan_star_false]
        | true => rw [scan_star_true, scan_star_true, ih l' (by omega), ih l' (by omega) true (0 + 1)]; omega
      rw [scan_other c l' m acc h1 h2 h3 h4, scan_other c l' m 0 h1 h2 h3 h4, ih l' (by omega),
        ih l' (by omega) m (0 + 1)]; omega

theorem scan_acc (l : Bytes) (m : Bool) (acc : Nat) :
    scanChunk.scan os l m acc = acc + scanLen os l m := scan_acc_aux _ l (Nat.le_refl _) m acc

theorem scanLen_nil (m : Bool) : scanLen os [] m = 0 := by simp [scanLen, scan_nil]
theorem scanLen_bs_nil (m : Bool) : scanLen .linux [BS] m = 1 := by simp [scanLen, scan_bs_nil]
theorem scanLen_bs_cons (x : UInt8) (l : Bytes) (m : Bool) :
    scanLen .linux (BS :: x :: l) m = scanLen .linux l m + 2 := by
  unfold scanLen; rw [scan_bs_cons, scan_acc]; unfold scanLen; omega
theorem scanLen_lb (l : Bytes) (m : Bool) : scanLen os (LB :: l) m = scanLen os l true + 1 := by
  unfold scanLen; rw [scan_lb, scan_acc]; unfold scanLen; omega
theorem scanLen_rb (l : Bytes) (m : Bool) : scanLen os (RB :: l) m = scanLen os l false + 1 := by
  unfold scanLen; rw [scan_rb, scan_acc]; unfold scanLen; omega
theorem scanLen_star_false (l : Bytes) : scanLen os (STAR :: l) false = 0 := by
  unfold scanLen; rw [scan_star_false]
theorem scanLen_star_true (l : Bytes) : scanLen os (STAR :: l) true = scanLen os l true + 1 := by
  unfold scanLen; rw [scan_star_true, scan_acc]; unfold scanLen; omega
theorem scanLen_other (c : UInt8) (l : Bytes) (m : Bool)
    (h1 : isEsc os c = false) (h2 : c ≠ LB) (h3 : c ≠ RB) (h4 : c ≠ STAR) :
    scanLen os (c :: l) m = scanLen os l m + 1 := by
  unfold scanLen; rw [scan_other c l m 0 h1 h2 h3 h4, scan_acc]; unfold scanLen; omega

/-- in bracket state `true`, every byte other than '\\' and ']' is skipped and the state stays `true` -/
theorem scanLen_true_skip (c : UInt8) (l : Bytes) (h1 : isEsc os c = false) (h3 : c ≠ RB) :
    scanLen os (c :: l) true = scanLen os l true + 1 := by
  by_cases h2 : c = LB
  · subst h2; exact scanLen_lb l true
  by_cases h4 : c = STAR
  · subst h4; exact scanLen_star_true l
  exact scanLen_other c l true h1 h2 h3 h4

theorem high_not_special {b : UInt8} (h : (0x80 : UInt8) ≤ b) : b ≠ BS ∧ b ≠ LB ∧ b ≠ RB ∧ b ≠ STAR := by
  refine ⟨?_, ?_, ?_, ?_⟩ <;> (intro e; subst e; revert h; decide)

/-- bytes ≥ 0x80 are skipped in either state -/
theorem scanLen_high (u : Bytes) (hu : ∀ b ∈ u, (0x80 : UInt8) ≤ b) (l : Bytes) (m : Bool) :
    scanLen os (u ++ l) m = scanLen os l m + u.length := by
  induction u with
  | nil => simp
  | cons b u ih =>
    obtain ⟨h1, h2, h3, h4⟩ := high_not_special (hu b (by simp))
    rw [List.cons_append, scanLen_other b _ m (isEsc_ne b h1) h2 h3 h4, ih (fun x hx => hu x (by simp [hx]))]
    simp only [List.length_cons]; omega


theorem drop_decode (b0 : UInt8) (s1 : Bytes) :
    (b0 :: s1).drop (decodeRune (b0 :: s1)).2 = s1.drop ((decodeRune (b0 :: s1)).2 - 1) := by
  have := decodeRune_size_pos (b0 :: s1) (by simp)
  obtain ⟨k, hk⟩ : ∃ k, (decodeRune (b0 :: s1)).2 = k + 1 := ⟨_, (Nat.sub_add_cancel this).symm⟩
  rw [hk]; simp

/-- the scan in bracket state `true` steps over a class character -/
theorem classChar_skip {x : Bytes} {r : Nat} {x' : Bytes} (h : classChar os x = some (r, x')) :
    ∃ u, x = u ++ x' ∧ ∀ z, scanLen os (u ++ z) true = scanLen os z true + u.length := by
  cases x with
  | nil => simp [classChar] at h
  | cons c rest =>
    rw [classChar_cons] at h
    obtain ⟨_, hrb, hb, _, _, _, hx⟩ := h
    by_cases hc : isEsc os c = true
    · have hbody : ccBody os c rest = rest := by simp [ccBody, hc]
      obtain ⟨hcb, hos⟩ := isEsc_true hc
      subst hcb hos
      rw [hbody] at hb hx
      cases rest with
      | nil => exact absurd rfl hb
      | cons b0 s1 =>
        rw [drop_decode] at hx
        refine ⟨BS :: b0 :: s1.take ((decodeRune (b0 :: s1)).2 - 1), ?_, ?_⟩
        · rw [hx]; simp
        · intro z
          rw [List.cons_append, List.cons_append, scanLen_bs_cons,
            scanLen_high _ (decodeRune_tail_high b0 s1)]
          simp only [List.length_cons]; omega
    · have hc : isEsc os c = false := by simpa using hc
      have hbody : ccBody os c rest = c :: rest := by simp [ccBody, hc]
      rw [hbody] at hb hx
      rw [drop_decode] at hx
      refine ⟨c :: rest.take ((decodeRune (c :: rest)).2 - 1), ?_, ?_⟩
      · rw [hx]; simp
      · intro z
        rw [List.cons_append, scanLen_true_skip c _ hc hrb, scanLen_high _ (decodeRune_tail_high c rest)]
        simp only [List.length_cons]; omega


/-! ### 8. Cutting the pattern at the end of the chunk does not change the parse of the chunk -/

/-- what follows a chunk: nothing or a star -/
def Tail (rest : Bytes) : Prop := rest = [] ∨ ∃ b, rest = STAR :: b

/-- the scan started in bracket state `m` stops exactly at the end of `a` -/
def Stops (os : OS) (a rest : Bytes) (m : Bool) : Prop := scanLen os (a ++ rest) m = a.length

theorem decodeRune_append_tail (a rest : Bytes) (ht : Tail rest) (h : a ≠ []) :
    decodeRune (a ++ rest) = decodeRune a := by
  rcases ht with rfl | ⟨b, rfl⟩
  · simp
  · exact decodeRune_append_star a b h

theorem ccBody_append (c : UInt8) (a rest : Bytes) : ccBody os c (a ++ rest) = ccBody os c a ++ rest := by
  unfold ccBody; split <;> simp

theorem classChar_trunc (a rest : Bytes) (ht : Tail rest) (hs : Stops os a rest true) :
    classChar os (a ++ rest) = (match classChar os a with
      | none => none
      | some (r, y) => some (r, y ++ rest)) ∧
    ∀ r y, classChar os a = some (r, y) → Stops os y rest true := by
  cases a with
  | nil =>
    unfold Stops at hs
    rcases ht with rfl | ⟨b, rfl⟩
    · simp [classChar]
    · simp only [List.nil_append, scanLen_star_true, List.length_nil] at hs; omega
  | cons c a2 =>
    constructor
    · cases hc : classChar os (c :: a2) with
      | some p =>
        obtain ⟨r, y⟩ := p
        simp only
        rw [classChar_cons] at hc
        obtain ⟨h1, h2, h3, h4, h5, h6, h7⟩ := hc
        rw [List.cons_append, classChar_cons, ccBody_append, decodeRune_append_tail _ _ ht h3]
        refine ⟨h1, h2, by simp [h3], h4, by simp [h5], h6, ?_⟩
        rw [h7, List.drop_append_of_le_length (decodeRune_size_le _)]
      | none =>
        simp only
        cases hf : classChar os (c :: a2 ++ rest) with
        | none => rfl
        | some p =>
          exfalso
          obtain ⟨r, y⟩ := p
          have hsk := classChar_skip hf
          rw [List.cons_append, classChar_cons, ccBody_append] at hf
          obtain ⟨h1, h2, h3, h4, h5, h6, h7⟩ := hf
          by_cases hb : ccBody os c a2 = []
          · -- a = [BS]
            have hcb : (c = BS ∧ os = .linux) ∧ a2 = [] := by
              unfold ccBody at hb; split at hb
              · rename_i hh; exact ⟨isEsc_true hh, hb⟩
              · simp at hb
            obtain ⟨⟨rfl, rfl⟩, rfl⟩ := hcb
            unfold Stops at hs
            rcases ht with rfl | ⟨b, rfl⟩
            · simp [hb] at h3
            · simp only [List.cons_append, List.nil_append, scanLen_bs_cons, List.length_cons,
                List.length_nil] at hs; omega
          · rw [decodeRune_append_tail _ _ ht hb] at h4 h6 h7
            rw [List.drop_append_of_le_length (decodeRune_size_le _)] at h7
            by_cases hy : (ccBody os c a2).drop (decodeRune (ccBody os c a2)).2 = []
            · rw [hy, List.nil_append] at h7
              subst h7
              obtain ⟨u, hu1, hu2⟩ := hsk
              have hu : u = c :: a2 := (List.append_cancel_right hu1).symm
              subst hu
              unfold Stops at hs
              rw [hu2] at hs
              rcases ht with rfl | ⟨b, rfl⟩
              · exact h5 rfl
              · rw [scanLen_star_true] at hs; omega
            · have : classChar os (c :: a2) = some (r, (ccBody os c a2).drop (decodeRune (ccBody os c a2)).2) := by
                rw [classChar_cons]
                exact ⟨h1, h2, hb, h4, hy, h6, rfl⟩
              rw [this] at hc; exact absurd hc (by simp)
    · intro r y hc
      obtain ⟨u, hu1, hu2⟩ := classChar_skip hc
      unfold Stops at hs ⊢
      rw [hu1, List.append_assoc, hu2, List.length_append] at hs
      omega


theorem stops_nil_true {rest : Bytes} (ht : Tail rest) (hs : Stops os [] rest true) : rest = [] := by
  unfold Stops at hs
  rcases ht with rfl | ⟨b, rfl⟩
  · rfl
  · simp only [List.nil_append, scanLen_star_true, List.length_nil] at hs; omega

theorem parseRanges_trunc : ∀ (fuel : Nat) (first : Bool) (a rest : Bytes), Tail rest → Stops os a rest true →
    parseRanges os fuel first (a ++ rest) = (match parseRanges os fuel first a with
      | none => none
      | some (rs, y) => some (rs, y ++ rest)) ∧
    ∀ rs y, parseRanges os fuel first a = some (rs, y) → Stops os y rest false := by
  intro fuel
  induction fuel with
  | zero => intro first a rest _ _; simp [parseRanges]
  | succ fuel ih =>
    intro first a rest ht hs
    cases a with
    | nil =>
      have := stops_nil_true ht hs
      subst this
      simp [parseRanges]
    | cons c a2 =>
      simp only [List.cons_append, parseRanges]
      by_cases h1 : (c == RB && !first) = true
      · simp only [h1, if_true]
        refine ⟨trivial, ?_⟩
        intro rs y h
        injection h with h; injection h with _ h2; subst h2
        have hc : c = RB := by
          simp only [Bool.and_eq_true, beq_iff_eq] at h1; exact h1.1
        subst hc
        unfold Stops at hs ⊢
        rw [List.cons_append, scanLen_rb, List.length_cons] at hs
        omega
      · simp only [h1, Bool.false_eq_true, if_false]
        obtain ⟨hct, hcs⟩ := classChar_trunc (c :: a2) rest ht hs
        rw [List.cons_append] at hct
        rw [hct]
        cases hc : classChar os (c :: a2) with
        | none => simp
        | some p =>
          obtain ⟨lo, chunk1⟩ := p
          have hs1 := hcs lo chunk1 hc
          have hne := (classChar_some hc).1
          simp only
          cases chunk1 with
          | nil => exact absurd rfl hne
          | cons c1 rest1 =>
            simp only [List.cons_append]
            by_cases h2 : (c1 == DASH) = true
            · simp only [h2, if_true]
              have hc1 : c1 = DASH := by simpa using h2
              subst hc1
              have hs2 : Stops os rest1 rest true := by
                unfold Stops at hs1 ⊢
                rw [List.cons_append, scanLen_true_skip DASH _ (isEsc_ne DASH (by decide)) (by decide), List.length_cons] at hs1
                omega
              obtain ⟨hct2, hcs2⟩ := classChar_trunc rest1 rest ht hs2
              rw [hct2]
              cases hc2 : classChar os rest1 with
              | none => simp
              | some p2 =>
                obtain ⟨hi, chunk2⟩ := p2
                have hs3 := hcs2 hi chunk2 hc2
                simp only
                obtain ⟨ih1, ih2⟩ := ih false chunk2 rest ht hs3
                rw [ih1]
                cases hpr : parseRanges os fuel false chunk2 with
                | none => simp
                | some q =>
                  obtain ⟨rs', y'⟩ := q
                  simp only
                  refine ⟨trivial, ?_⟩
                  intro rs y h
                  injection h with h; injection h with _ h3; subst h3
                  exact ih2 _ _ hpr
            · simp only [h2, Bool.false_eq_true, if_false]
              obtain ⟨ih1, ih2⟩ := ih false (c1 :: rest1) rest ht hs1
              rw [List.cons_append] at ih1
              rw [ih1]
              cases hpr : parseRanges os fuel false (c1 :: rest1) with
              | none => simp
              | some q =>
                obtain ⟨rs', y'⟩ := q
                simp only
                refine ⟨trivial, ?_⟩
                intro rs y h
                injection h with h; injection h with _ h3; subst h3
                exact ih2 _ _ hpr


theorem parseClass_trunc (a rest : Bytes) (ht : Tail rest) (hs : Stops os a rest true) :
    parseClass os (a ++ rest) = (match parseClass os a with
      | none => none
      | some (it, y) => some (it, y ++ rest)) ∧
    ∀ it y, parseClass os a = some (it, y) → Stops os y rest false := by
  have hneg : classNeg (a ++ rest) = classNeg a := by
    cases a with
    | nil => have := stops_nil_true ht hs; subst this; rfl
    | cons c a2 => rfl
  have hbody : classBody (a ++ rest) = classBody a ++ rest := by
    unfold classBody
    rw [hneg]
    split
    · rename_i hn
      cases a with
      | nil => simp [classNeg] at hn
      | cons c a2 => simp
    · rfl
  have hsb : Stops os (classBody a) rest true := by
    unfold classBody
    split
    · rename_i hn
      cases a with
      | nil => simp [classNeg] at hn
      | cons c a2 =>
        simp only [classNeg, beq_iff_eq] at hn
        subst hn
        unfold Stops at hs ⊢
        rw [List.cons_append, scanLen_true_skip CARET _ (isEsc_ne CARET (by decide)) (by decide), List.length_cons] at hs
        simp only [List.drop_succ_cons, List.drop_zero]
        omega
    · exact hs
  unfold parseClass
  rw [hbody, hneg]
  obtain ⟨h1, h2⟩ := parseRanges_trunc ((classBody a ++ rest).length + 1) true (classBody a) rest ht hsb
  rw [h1]
  have hfu : parseRanges os ((classBody a ++ rest).length + 1) true (classBody a) =
      parseRanges os ((classBody a).length + 1) true (classBody a) :=
    parseRanges_fuel _ _ _ _ (by simp only [List.length_append]; omega) (by omega)
  rw [hfu] at h2 ⊢
  cases hpr : parseRanges os ((classBody a).length + 1) true (classBody a) with
  | none => simp
  | some q =>
    obtain ⟨rs, y⟩ := q
    simp only
    refine ⟨trivial, ?_⟩
    intro it y' h
    injection h with h; injection h with _ h3; subst h3
    exact h2 _ _ hpr

theorem parsePat_trunc : ∀ (n : Nat) (a : Bytes), a.length ≤ n → ∀ (rest : Bytes), Tail rest → Stops os a rest false →
    parsePat os (a ++ rest) = (if (parsePat os a).2 then ((parsePat os a).1 ++ (parsePat os rest).1, (parsePat os rest).2)
      else ((parsePat os a).1, false)) ∧ noStar (parsePat os a).1 = true := by
  intro n
  induction n with
  | zero =>
    intro a ha rest _ _
    have : a = [] := List.length_eq_zero_iff.mp (by omega)
    subst this
    simp [parsePat_nil, noStar]
  | succ n ih =>
    intro a ha rest ht hs
    cases a with
    | nil => simp [parsePat_nil, noStar]
    | cons c a2 =>
      simp only [List.length_cons] at ha
      unfold Stops at hs
      rw [List.cons_append] at hs ⊢
      by_cases h1 : c = STAR
      · subst h1
        rw [scanLen_star_false, List.length_cons] at hs; omega
      by_cases h2 : c = QM
      · subst h2
        rw [scanLen_other QM _ false (isEsc_ne QM (by decide)) (by decide) (by decide) (by decide), List.length_cons] at hs
        obtain ⟨ih1, ih2⟩ := ih a2 (by omega) rest ht (by unfold Stops; omega)
        rw [parsePat_qm, parsePat_qm, ih1]
        constructor
        · split <;> simp
        · simpa [noStar, isStar] using ih2
      by_cases h3 : c = LB
      · subst h3
        rw [scanLen_lb, List.length_cons] at hs
        obtain ⟨hp1, hp2⟩ := parseClass_trunc (os := os) a2 rest ht (by unfold Stops; omega)
        rw [parsePat_lb, parsePat_lb, hp1]
        cases hpc : parseClass os a2 with
        | none => simp [noStar]
        | some q =>
          obtain ⟨it, y⟩ := q
          obtain ⟨hlen, neg, rs, hit⟩ := parseClass_some hpc
          obtain ⟨ih1, ih2⟩ := ih y (by omega) rest ht (hp2 _ _ hpc)
          simp only
          rw [ih1]
          constructor
          · split <;> simp
          · subst hit; simpa [noStar, isStar] using ih2
      by_cases h4 : isEsc os c = true
      · obtain ⟨hcb, hos⟩ := isEsc_true h4
        subst hcb hos
        cases a2 with
        | nil =>
          rcases ht with rfl | ⟨b, rfl⟩
          · simp [parsePat_bs_nil, noStar]
          · rw [List.nil_append, scanLen_bs_cons, List.length_cons] at hs
            simp only [List.length_nil] at hs; omega
        | cons l a3 =>
          simp only [List.length_cons] at ha
          rw [List.cons_append, scanLen_bs_cons, List.length_cons, List.length_cons] at hs
          obtain ⟨ih1, ih2⟩ := ih a3 (by omega) rest ht (by unfold Stops; omega)
          rw [List.cons_append, parsePat_bs, parsePat_bs, ih1]
          constructor
          · split <;> simp
          · simpa [noStar, isStar] using ih2
      have h4 : isEsc os c = false := by simpa using h4
      have hs' : scanLen os (a2 ++ rest) false = a2.length := by
        by_cases h5 : c = RB
        · subst h5
          rw [scanLen_rb, List.length_cons] at hs; omega
        · rw [scanLen_other c _ false h4 h3 h5 h1, List.length_cons] at hs; omega
      obtain ⟨ih1, ih2⟩ := ih a2 (by omega) rest ht hs'
      rw [parsePat_lit c _ h1 h2 h3 h4, parsePat_lit c _ h1 h2 h3 h4, ih1]
      constructor
      · split <;> simp
      · simpa [noStar, isStar] using ih2

/-! ### 9. matchChunk computes the deterministic match of the chunk's items -/

/-- the remainder after the (star-free) items have matched at the beginning of `s` -/
def chunkMatch (os : OS) : List Item → Bytes → Option Bytes
  | [], s => some s
  | it :: is, s =>
    match it.step os s with
    | some s' => chunkMatch os is s'
    | none => none

/-- the outcome of matchChunk in terms of the parse os of the chunk -/
def mcRes (os : OS) (p : List Item × Bool) (s : Bytes) (failed : Bool) : MOut (Bytes × Bool) :=
  if p.2 then
    (if failed then .ok ([], false) else
      match chunkMatch os p.1 s with
      | some t => .ok (t, true)
      | none => .ok ([], false))
  else .badPattern

theorem mcRes_failed (p : List Item × Bool) (s s' : Bytes) : mcRes os p s true = mcRes os p s' true := by
  simp [mcRes]

theorem mcRes_cons (it : Item) (is : List Item) (ok : Bool) (s : Bytes) (failed : Bool) :
    mcRes os (it :: is, ok) s failed =
      if failed then mcRes os (is, ok) s true else
      match it.step os s with
      | some s' => mcRes os (is, ok) s' false
      | none => mcRes os (is, ok) s true := by
  cases ok <;> cases failed <;> simp only [mcRes, chunkMatch, Bool.false_eq_true, if_false, if_true]
  · cases it.step os s <;> rfl
  · cases it.step os s <;> rfl


theorem parseClass_fuel2 (crest : Bytes) :
    parseClass os crest = match parseRanges os ((classBody crest).length + 2) true (classBody crest) with
      | none => none
      | some (rs, y) => some (.cls (classNeg crest) rs, y) := by
  unfold parseClass
  rw [parseRanges_fuel ((classBody crest).length + 1) ((classBody crest).length + 2) _ _ (by omega) (by omega)]

/-- the class case of matchChunk, given the induction hypothesis -/
theorem class_step (fuel : Nat)
    (ih : ∀ (a s : Bytes) (failed0 : Bool), a.length < fuel → ∀ (rest : Bytes), Tail rest → Stops os a rest false →
      matchChunk os fuel a s failed0 = mcRes os (parsePat os a) s failed0)
    (crest s rest : Bytes) (failed0 : Bool) (hf : crest.length + 1 < fuel + 1) (ht : Tail rest)
    (hsc : Stops os crest rest true)
    (N : Bool) (X : Bytes) (hN : N = classNeg crest) (hX : X = classBody crest)
    (RS : Nat × Bytes)
    (hRS : RS = if (!(failed0 || s == [])) = true then ((decodeRune s).1, s.drop (decodeRune s).2) else (0, s)) :
    (match classLoop os RS.1 (X.length + 2) X false 0 with
      | .badPattern => .badPattern
      | .panic => .panic
      | .ok (mt, chunk2) => matchChunk os fuel chunk2 RS.2 (failed0 || s == [] || mt == N)) =
    mcRes os (parsePat os (LB :: crest)) s failed0 := by
  subst hN hX
  obtain ⟨_, hp2⟩ := parseClass_trunc crest rest ht hsc
  rw [parsePat_lb]
  rw [parseClass_fuel2] at hp2 ⊢
  rw [classLoop_eq RS.1 _ _ false 0 (by omega)]
  simp only [beq_self_eq_true, Bool.false_or]
  cases hpr : parseRanges os ((classBody crest).length + 2) true (classBody crest) with
  | none => simp [mcRes]
  | some q =>
    obtain ⟨rs, y⟩ := q
    rw [hpr] at hp2
    have hsy := hp2 _ _ rfl
    have hly : y.length < fuel := by
      have := parseRanges_length _ _ _ _ _ hpr
      have : (classBody crest).length ≤ crest.length := by
        unfold classBody; split <;> simp
      omega
    simp only
    rw [mcRes_cons]
    by_cases hfl : (failed0 || s == []) = true
    · simp only [hfl, Bool.not_true, Bool.false_eq_true, if_false] at hRS
      subst hRS
      simp only [hfl, Bool.true_or]
      rw [ih y s true hly rest ht hsy]
      cases failed0 with
      | true => simp
      | false =>
        simp only [Bool.false_or, beq_iff_eq] at hfl
        subst hfl
        simp [Item.step]
    · simp only [hfl, Bool.not_false, if_true] at hRS
      subst hRS
      simp only [hfl, Bool.false_or]
      simp only [Bool.or_eq_true, beq_iff_eq, not_or] at hfl
      obtain ⟨hf0, hsne⟩ := hfl
      have hf0' : failed0 = false := by simpa using hf0
      subst hf0'
      rw [ih y _ _ hly rest ht hsy]
      simp only [Bool.false_eq_true, if_false]
      cases s with
      | nil => exact absurd rfl hsne
      | cons s0 srest =>
        simp only [Item.step]
        by_cases hm : (inRanges rs (decodeRune (s0 :: srest)).1 != classNeg crest) = true
        · have : (inRanges rs (decodeRune (s0 :: srest)).1 == classNeg crest) = false := by
            simpa [bne] using hm
          simp only [hm, this, if_true]
        · have : (inRanges rs (decodeRune (s0 :: srest)).1 == classNeg crest) = true := by
            simpa [bne] using hm
          simp only [hm, this, Bool.false_eq_true, if_false]
          exact mcRes_failed _ _ _

/-- the literal case of matchChunk, given the induction hypothesis -/
theorem lit_step (fuel : Nat)
    (ih : ∀ (a s : Bytes) (failed0 : Bool), a.length < fuel → ∀ (rest : Bytes), Tail rest → Stops os a rest false →
      matchChunk os fuel a s failed0 = mcRes os (parsePat os a) s failed0)
    (l0 : UInt8) (lrest s rest : Bytes) (failed0 : Bool) (hl : lrest.length < fuel) (ht : Tail rest)
    (hs : Stops os lrest rest false) :
    (if (!(failed0 || s == [])) = true then
        (match s with
          | s0 :: srest => matchChunk os fuel lrest srest (l0 != s0)
          | [] => .panic)
      else matchChunk os fuel lrest s (failed0 || s == [])) =
    mcRes os (Item.lit l0 :: (parsePat os lrest).1, (parsePat os lrest).2) s failed0 := by
  rw [mcRes_cons]
  cases failed0 with
  | true =>
    simp only [Bool.true_or, Bool.not_true, Bool.false_eq_true, if_false, if_true]
    exact ih _ _ _ hl rest ht hs
  | false =>
    cases s with
    | nil =>
      simp only [Bool.false_or, beq_self_eq_true, Bool.not_true, Bool.false_eq_true, if_false, Item.step]
      exact ih _ _ _ hl rest ht hs
    | cons s0 srest =>
      have : (s0 :: srest == []) = false := by simp
      simp only [Bool.false_or, this, Bool.not_false, if_true, Item.step, Bool.false_eq_true, if_false]
      rw [ih _ _ _ hl rest ht hs]
      by_cases he : (s0 == l0) = true
      · have hne : (l0 != s0) = false := by
          simp only [beq_iff_eq] at he; subst he; simp
        simp only [he, hne, if_true]
      · have hne : (l0 != s0) = true := by
          simp only [beq_iff_eq] at he
          simp only [bne_iff_ne, ne_eq]
          exact fun e => he e.symm
        simp only [he, hne, Bool.false_eq_true, if_false]
        exact mcRes_failed _ _ _

theorem matchChunk_eq : ∀ (fuel : Nat) (a s : Bytes) (failed0 : Bool), a.length < fuel →
    ∀ (rest : Bytes), Tail rest → Stops os a rest false →
    matchChunk os fuel a s failed0 = mcRes os (parsePat os a) s failed0 := by
  intro fuel
  induction fuel with
  | zero => intro a s failed0 h; omega
  | succ fuel ih =>
    intro a s failed0 hf rest ht hs
    cases a with
    | nil =>
      cases failed0 <;> simp [matchChunk, mcRes, parsePat_nil, chunkMatch]
    | cons c crest =>
      simp only [List.length_cons] at hf
      unfold Stops at hs
      rw [List.cons_append] at hs
      by_cases h1 : c = STAR
      · subst h1
        rw [scanLen_star_false, List.length_cons] at hs; omega
      by_cases h3 : c = LB
      · subst h3
        rw [scanLen_lb, List.length_cons] at hs
        have hsc : Stops os crest rest true := by unfold Stops; omega
        simp only [matchChunk, beq_self_eq_true, if_true]
        refine class_step fuel ih crest s rest failed0 hf ht hsc _ _ ?_ ?_ _ rfl
        · cases crest with
          | nil => rfl
          | cons c1 rest1 => by_cases h : (c1 == CARET) = true <;> simp [classNeg, h]
        · cases crest with
          | nil => rfl
          | cons c1 rest1 => by_cases h : (c1 == CARET) = true <;> simp [classNeg, classBody, h]
      by_cases h2 : c = QM
      · subst h2
        rw [scanLen_other QM _ false (isEsc_ne QM (by decide)) (by decide) (by decide) (by decide), List.length_cons] at hs
        have hsc : Stops os crest rest false := by unfold Stops; omega
        have e1 : (QM == LB) = false := by decide
        simp only [matchChunk, e1, Bool.false_eq_true, if_false, beq_self_eq_true, if_true]
        rw [parsePat_qm, mcRes_cons]
        cases failed0 with
        | true =>
          simp only [Bool.true_or, Bool.not_true, Bool.false_eq_true, if_false, if_true]
          exact ih _ _ _ (by omega) rest ht hsc
        | false =>
          cases s with
          | nil =>
            simp only [Bool.false_or, beq_self_eq_true, Bool.not_true, Bool.false_eq_true, if_false, Item.step]
            exact ih _ _ _ (by omega) rest ht hsc
          | cons s0 srest =>
            have : (s0 :: srest == []) = false := by simp
            simp only [Bool.false_or, this, Bool.not_false, if_true, Item.step, Bool.false_eq_true, if_false]
            rw [ih _ _ _ (by omega) rest ht hsc]
            have hps : pathSep os = (pathSep os) := rfl
            rw [hps]
            by_cases he : (s0 == (pathSep os)) = true
            · have hne : (s0 != (pathSep os)) = false := by simp [bne, he]
              simp only [he, hne, Bool.false_eq_true, if_false]
              exact mcRes_failed _ _ _
            · have hne : (s0 != (pathSep os)) = true := by simp [bne, he]
              have he' : (s0 == (pathSep os)) = false := by simpa using he
              simp only [he', hne, if_true]
      have e1 : (c == LB) = false := by simp [h3]
      have e2 : (c == QM) = false := by simp [h2]
      have hesc : ∀ c, (c == BS && os != OS.windows) = isEsc os c := fun _ => rfl
      by_cases h4 : isEsc os c = true
      · obtain ⟨hcb, hos'⟩ := isEsc_true h4
        subst hcb hos'
        have hos : (OS.linux != OS.windows) = true := by decide
        cases crest with
        | nil =>
          simp [matchChunk, e1, e2, hos, parsePat_bs_nil, mcRes]
        | cons l0 lrest =>
          simp only [List.length_cons] at hf
          rw [List.cons_append, scanLen_bs_cons, List.length_cons, List.length_cons] at hs
          have hsc : Stops .linux lrest rest false := by unfold Stops; omega
          have e3 : (l0 :: lrest == []) = false := by simp
          simp only [matchChunk, e1, e2, hos, Bool.false_eq_true, if_false, beq_self_eq_true, Bool.and_true,
            if_true, e3]
          rw [parsePat_bs]
          exact lit_step fuel ih l0 lrest s rest failed0 (by omega) ht hsc
      · have h4 : isEsc os c = false := by simpa using h4
        have hsc : Stops os crest rest false := by
          unfold Stops
          by_cases h5 : c = RB
          · subst h5
            rw [scanLen_rb, List.length_cons] at hs; omega
          · rw [scanLen_other c _ false h4 h3 h5 h1, List.length_cons] at hs; omega
        simp only [matchChunk, e1, e2, hesc, h4, Bool.false_eq_true, if_false]
        rw [parsePat_lit c _ h1 h2 h3 h4]
        exact lit_step fuel ih c crest s rest failed0 (by omega) ht hsc

/-! ### 10. scanChunk splits the pattern at the end of the first chunk -/

theorem scanLen_spec : ∀ (n : Nat) (l : Bytes), l.length ≤ n → ∀ (m : Bool),
    scanLen os l m ≤ l.length ∧ Tail (l.drop (scanLen os l m)) := by
  intro n
  induction n with
  | zero =>
    intro l hl m
    have : l = [] := List.length_eq_zero_iff.mp (by omega)
    subst this
    simp [scanLen_nil, Tail]
  | succ n ih =>
    intro l hl m
    cases l with
    | nil => simp [scanLen_nil, Tail]
    | cons c l' =>
      simp only [List.length_cons] at hl
      by_cases h1 : isEsc os c = true
      · obtain ⟨hcb, hos⟩ := isEsc_true h1
        subst hcb hos
        cases l' with
        | nil => simp [scanLen_bs_nil, Tail]
        | cons x l'' =>
          simp only [List.length_cons] at hl
          obtain ⟨i1, i2⟩ := ih l'' (by omega) m
          rw [scanLen_bs_cons]
          refine ⟨by simp only [List.length_cons]; omega, ?_⟩
          simpa using i2
      have h1 : isEsc os c = false := by simpa using h1
      by_cases h2 : c = LB
      · subst h2
        obtain ⟨i1, i2⟩ := ih l' (by omega) true
        rw [scanLen_lb]
        refine ⟨by simp only [List.length_cons]; omega, ?_⟩
        simpa using i2
      by_cases h3 : c = RB
      · subst h3
        obtain ⟨i1, i2⟩ := ih l' (by omega) false
        rw [scanLen_rb]
        refine ⟨by simp only [List.length_cons]; omega, ?_⟩
        simpa using i2
      by_cases h4 : c = STAR
      · subst h4
        cases m with
        | false =>
          rw [scanLen_star_false]
          exact ⟨by omega, Or.inr ⟨l', rfl⟩⟩
        | true =>
          obtain ⟨i1, i2⟩ := ih l' (by omega) true
          rw [scanLen_star_true]
          refine ⟨by simp only [List.length_cons]; omega, ?_⟩
          simpa using i2
      obtain ⟨i1, i2⟩ := ih l' (by omega) m
      rw [scanLen_other c l' m h1 h2 h3 h4]
      refine ⟨by simp only [List.length_cons]; omega, ?_⟩
      simpa using i2

/-- the pattern without its leading stars -/
def dropStars (pattern : Bytes) : Bytes := pattern.dropWhile (· == STAR)

theorem scanChunk_eq (pattern : Bytes) :
    scanChunk os pattern =
      (decide ((dropStars pattern).length < pattern.length),
       (dropStars pattern).take (scanLen os (dropStars pattern) false),
       (dropStars pattern).drop (scanLen os (dropStars pattern) false)) := rfl

theorem chunk_facts (p1 : Bytes) :
    Tail (p1.drop (scanLen os p1 false)) ∧
    Stops os (p1.take (scanLen os p1 false)) (p1.drop (scanLen os p1 false)) false ∧
    (p1.take (scanLen os p1 false)).length = scanLen os p1 false := by
  obtain ⟨h1, h2⟩ := scanLen_spec _ p1 (Nat.le_refl _) false
  refine ⟨h2, ?_, ?_⟩
  · unfold Stops
    rw [List.take_append_drop, List.length_take]
    omega
  · rw [List.length_take]; omega

theorem parsePat_dropStars (pattern : Bytes) :
    parsePat os pattern =
      (List.replicate (pattern.length - (dropStars pattern).length) Item.star ++ (parsePat os (dropStars pattern)).1,
       (parsePat os (dropStars pattern)).2) := by
  induction pattern with
  | nil => simp [dropStars, parsePat_nil]
  | cons c l ih =>
    by_cases h : c = STAR
    · subst h
      have hd : dropStars (STAR :: l) = dropStars l := by simp [dropStars]
      have hle : (dropStars l).length ≤ l.length := length_dropWhile_le _ _
      rw [hd, parsePat_star, ih]
      have : (STAR :: l).length - (dropStars l).length = (l.length - (dropStars l).length) + 1 := by
        simp only [List.length_cons]; omega
      rw [this, List.replicate_succ]
      simp
    · have hd : dropStars (c :: l) = c :: l := by simp [dropStars, h]
      rw [hd]; simp

theorem dropStars_head (pattern : Bytes) (c : UInt8) (l : Bytes) (h : dropStars pattern = c :: l) : c ≠ STAR := by
  have := dropWhile_head_false (f := (· == STAR)) h
  simpa using this

/-! ### 11. Facts on the declarative semantics -/

theorem starAny_iff (f : Bytes → Bool) (s : Bytes) :
    starAny os f s = true ↔ ∃ g s', s = g ++ s' ∧ (∀ c ∈ g, c ≠ (pathSep os)) ∧ f s' = true := by
  induction s with
  | nil =>
    simp only [starAny]
    constructor
    · intro h; exact ⟨[], [], rfl, by simp, h⟩
    · rintro ⟨g, s', h1, _, h3⟩
      have : s' = [] := by
        cases g <;> simp at h1
        exact h1
      subst this; exact h3
  | cons c s ih =>
    simp only [starAny, Bool.or_eq_true, Bool.and_eq_true, bne_iff_ne, ne_eq]
    constructor
    · rintro (h | ⟨h1, h2⟩)
      · exact ⟨[], c :: s, rfl, by simp, h⟩
      · obtain ⟨g, s', e, hg, hf⟩ := ih.mp h2
        refine ⟨c :: g, s', by simp [e], ?_, hf⟩
        intro x hx
        simp only [List.mem_cons] at hx
        rcases hx with rfl | hx
        · exact h1
        · exact hg x hx
    · rintro ⟨g, s', e, hg, hf⟩
      cases g with
      | nil => left; simp only [List.nil_append] at e; rw [e]; exact hf
      | cons x g =>
        simp only [List.cons_append, List.cons.injEq] at e
        obtain ⟨rfl, e⟩ := e
        right
        exact ⟨hg c (by simp), ih.mpr ⟨g, s', e, fun y hy => hg y (by simp [hy]), hf⟩⟩

theorem starAny_self (f : Bytes → Bool) (s : Bytes) (h : f s = true) : starAny os f s = true :=
  (starAny_iff f s).mpr ⟨[], s, rfl, by simp, h⟩

theorem starAny_absorb (f : Bytes → Bool) (g t : Bytes) (hg : ∀ c ∈ g, c ≠ (pathSep os)) (h : starAny os f t = true) :
    starAny os f (g ++ t) = true := by
  obtain ⟨g', s', e, hg', hf⟩ := (starAny_iff f t).mp h
  refine (starAny_iff f _).mpr ⟨g ++ g', s', by simp [e], ?_, hf⟩
  intro c hc
  simp only [List.mem_append] at hc
  rcases hc with hc | hc
  · exact hg c hc
  · exact hg' c hc

theorem starAny_idem (f : Bytes → Bool) (s : Bytes) : starAny os (starAny os f) s = starAny os f s := by
  apply Bool.eq_iff_iff.mpr
  constructor
  · intro h
    obtain ⟨g, s', e, hg, hf⟩ := (starAny_iff _ s).mp h
    rw [e]; exact starAny_absorb f g s' hg hf
  · intro h; exact starAny_self _ _ h

theorem starAny_congr (f f' : Bytes → Bool) (h : ∀ s, f s = f' s) (s : Bytes) : starAny os f s = starAny os f' s := by
  have : f = f' := funext h
  rw [this]

theorem starAny_true (s : Bytes) : starAny os (fun _ => true) s = true := starAny_self _ _ rfl

theorem starAny_isEmpty (s : Bytes) : starAny os List.isEmpty s = !s.contains (pathSep os) := by
  induction s with
  | nil => rfl
  | cons c s ih =>
    simp only [starAny, List.isEmpty_cons, Bool.false_or, ih, List.contains_cons]
    by_cases h : c = (pathSep os)
    · subst h; simp
    · have h1 : (c != (pathSep os)) = true := by simp [h]
      have h2 : ((pathSep os) == c) = false := by simp; exact fun e => h e.symm
      simp [h1, h2]

theorem matchK_star (fin : Bytes → Bool) (is : List Item) (s : Bytes) :
    matchK os fin (.star :: is) s = starAny os (matchK os fin is) s := rfl

theorem matchK_stars (fin : Bytes → Bool) (k : Nat) (is : List Item) (s : Bytes) :
    matchK os fin (List.replicate (k + 1) Item.star ++ is) s = starAny os (matchK os fin is) s := by
  induction k generalizing s with
  | zero => rfl
  | succ k ih =>
    rw [List.replicate_succ, List.cons_append, matchK_star]
    rw [starAny_congr _ _ (fun s => ih s), starAny_idem]

theorem matchK_stars_true (k : Nat) (s : Bytes) :
    matchK os (fun _ => true) (List.replicate k Item.star) s = true := by
  cases k with
  | zero => rfl
  | succ k =>
    have := matchK_stars (os := os) (fun _ => true) k [] s
    rw [List.append_nil] at this
    rw [this]
    exact starAny_self _ _ rfl

theorem matchK_cons_nostar (fin : Bytes → Bool) (it : Item) (is : List Item) (s : Bytes) (h : isStar it = false) :
    matchK os fin (it :: is) s = match it.step os s with
      | some s' => matchK os fin is s'
      | none => false := by
  cases it <;> first | rfl | simp [isStar] at h

theorem matchK_chunk (fin : Bytes → Bool) (is R : List Item) (hns : noStar is = true) (s : Bytes) :
    matchK os fin (is ++ R) s = match chunkMatch os is s with
      | some t => matchK os fin R t
      | none => false := by
  induction is generalizing s with
  | nil => rfl
  | cons it is ih =>
    simp only [noStar, List.all_cons, Bool.and_eq_true, Bool.not_eq_true'] at hns
    rw [List.cons_append, matchK_cons_nostar _ _ _ _ hns.1]
    simp only [chunkMatch]
    cases it.step os s with
    | none => rfl
    | some s' => exact ih (by simpa [noStar] using hns.2) s'

/-! ### 12. Committing to the leftmost match of a chunk loses nothing -/

theorem step_suffix {it : Item} {s u : Bytes} (h : it.step os s = some u) : u <:+ s := by
  cases it with
  | star => simp [Item.step] at h
  | any =>
    cases s with
    | nil => simp [Item.step] at h
    | cons c s1 =>
      simp only [Item.step] at h
      split at h
      · injection h with h; subst h; exact List.drop_suffix _ _
      · simp at h
  | lit b =>
    cases s with
    | nil => simp [Item.step] at h
    | cons c s1 =>
      simp only [Item.step] at h
      split at h
      · injection h with h; subst h; exact List.suffix_cons _ _
      · simp at h
  | cls neg rs =>
    cases s with
    | nil => simp [Item.step] at h
    | cons c s1 =>
      simp only [Item.step] at h
      split at h
      · injection h with h; subst h; exact List.drop_suffix _ _
      · simp at h

theorem chunkMatch_suffix {is : List Item} {s t : Bytes} (h : chunkMatch os is s = some t) : t <:+ s := by
  induction is generalizing s with
  | nil => simp only [chunkMatch, Option.some.injEq] at h; subst h; exact List.suffix_refl _
  | cons it is ih =>
    simp only [chunkMatch] at h
    cases hst : it.step os s with
    | none => simp [hst] at h
    | some s' =>
      simp only [hst] at h
      exact List.IsSuffix.trans (ih h) (step_suffix hst)

theorem narrow_suffix {t s : Bytes} (h : t <:+ s) (hn : narrow s = true) : narrow t = true := by
  obtain ⟨pre, rfl⟩ := h
  induction pre with
  | nil => exact hn
  | cons c pre ih =>
    simp only [List.cons_append, narrow, Bool.and_eq_true] at hn
    exact ih hn.2

theorem narrow_head {c : UInt8} {s : Bytes} (hn : narrow (c :: s) = true) : (decodeRune (c :: s)).2 ≤ 2 := by
  simp only [narrow, Bool.and_eq_true, decide_eq_true_eq] at hn
  exact hn.1

/-- the hypothesis on a chunk and the name under which the leftmost match is as good as any other -/
def NameOK (os : OS) (is : List Item) (s : Bytes) : Prop :=
  (∀ it ∈ is, ∃ b, it = Item.lit b) ∨
  (narrow s = true ∧ ((pathSep os) ∉ s ∨ ∀ it ∈ is, acceptsSep os it = false))

theorem NameOK_suffix {is : List Item} {t s : Bytes} (h : t <:+ s) (hok : NameOK os is s) : NameOK os is t := by
  rcases hok with hl | ⟨hn, hs⟩
  · exact Or.inl hl
  · refine Or.inr ⟨narrow_suffix h hn, ?_⟩
    rcases hs with hs | hs
    · left; intro hm; exact hs (h.subset hm)
    · exact Or.inr hs

theorem NameOK_tail {it : Item} {is : List Item} {s : Bytes} (hok : NameOK os (it :: is) s) : NameOK os is s := by
  rcases hok with hl | ⟨hn, hs⟩
  · exact Or.inl (fun x hx => hl x (by simp [hx]))
  · refine Or.inr ⟨hn, ?_⟩
    rcases hs with hs | hs
    · exact Or.inl hs
    · exact Or.inr (fun x hx => hs x (by simp [hx]))

/-- the bytes of the rune at the beginning of `s'` are not separators when the first one is not -/
theorem rune_bytes_nosep (c' : UInt8) (s2 : Bytes) (h : c' ≠ (pathSep os)) :
    ∀ x ∈ (c' :: s2).take (decodeRune (c' :: s2)).2, x ≠ (pathSep os) := by
  have hpos := decodeRune_size_pos (c' :: s2) (by simp)
  obtain ⟨k, hk⟩ : ∃ k, (decodeRune (c' :: s2)).2 = k + 1 := ⟨_, (Nat.sub_add_cancel hpos).symm⟩
  intro x hx
  rw [hk, List.take_succ_cons, List.mem_cons] at hx
  rcases hx with rfl | hx
  · exact h
  · have := decodeRune_tail_high c' s2 x (by rw [hk]; simpa using hx)
    intro e; subst e; revert this; cases os <;> decide

theorem rune_mono (g s' : Bytes) (c' : UInt8) (s2 : Bytes) (hs' : s' = c' :: s2) (hgne : g ≠ [])
    (hg : ∀ c ∈ g, c ≠ (pathSep os)) (hc' : c' ≠ (pathSep os)) (hn : (decodeRune (g ++ s')).2 ≤ 2) :
    ∃ g2, (g ++ s').drop (decodeRune (g ++ s')).2 = g2 ++ s'.drop (decodeRune s').2 ∧ ∀ c ∈ g2, c ≠ (pathSep os) := by
  have hpos' := decodeRune_size_pos s' (by simp [hs'])
  have hle' := decodeRune_size_le s'
  have hgl : 0 < g.length := List.length_pos_iff.mpr hgne
  refine ⟨(g ++ s'.take (decodeRune s').2).drop (decodeRune (g ++ s')).2, ?_, ?_⟩
  · have e : g ++ s' = (g ++ s'.take (decodeRune s').2) ++ s'.drop (decodeRune s').2 := by
      rw [List.append_assoc, List.take_append_drop]
    conv => lhs; arg 2; rw [e]
    rw [List.drop_append_of_le_length]
    rw [List.length_append, List.length_take]
    omega
  · intro c hc
    have hc := List.mem_of_mem_drop hc
    rw [List.mem_append] at hc
    rcases hc with hc | hc
    · exact hg c hc
    · subst hs'
      exact rune_bytes_nosep c' s2 hc' c hc

theorem step_mono (it : Item) (g s' u u' : Bytes) (hg : ∀ c ∈ g, c ≠ (pathSep os))
    (h1 : it.step os (g ++ s') = some u) (h2 : it.step os s' = some u') (hok : NameOK os [it] (g ++ s')) :
    ∃ g2, u = g2 ++ u' ∧ ∀ c ∈ g2, c ≠ (pathSep os) := by
  cases g with
  | nil =>
    simp only [List.nil_append] at h1
    rw [h1] at h2; injection h2 with h2
    exact ⟨[], by simp [h2], by simp⟩
  | cons c g1 =>
    cases it with
    | star => simp [Item.step] at h1
    | lit b =>
      cases s' with
      | nil => simp [Item.step] at h2
      | cons c' s2 =>
        simp only [List.cons_append, Item.step] at h1 h2
        split at h1
        · rename_i hcb
          split at h2
          · rename_i hcb'
            injection h1 with h1; injection h2 with h2
            subst h1 h2
            simp only [beq_iff_eq] at hcb hcb'
            refine ⟨g1 ++ [c'], by simp, ?_⟩
            intro x hx
            simp only [List.mem_append, List.mem_singleton] at hx
            rcases hx with hx | rfl
            · exact hg x (by simp [hx])
            · rw [hcb', ← hcb]; exact hg c (by simp)
          · simp at h2
        · simp at h1
    | any =>
      cases s' with
      | nil => simp [Item.step] at h2
      | cons c' s2 =>
        have hnar : narrow (c :: g1 ++ c' :: s2) = true := by
          rcases hok with hl | ⟨hn, _⟩
          · obtain ⟨b, hb⟩ := hl Item.any (by simp); cases hb
          · exact hn
        simp only [List.cons_append, Item.step] at h1
        simp only [Item.step] at h2
        split at h1
        · split at h2
          · rename_i hc'
            injection h1 with h1; injection h2 with h2
            subst h1 h2
            have hc'' : c' ≠ (pathSep os) := by simpa using hc'
            exact rune_mono (c :: g1) (c' :: s2) c' s2 rfl (by simp) hg hc'' (narrow_head hnar)
          · simp at h2
        · simp at h1
    | cls neg rs =>
      cases s' with
      | nil => simp [Item.step] at h2
      | cons c' s2 =>
        have hnar : narrow (c :: g1 ++ c' :: s2) = true ∧
            ((pathSep os) ∉ (c :: g1 ++ c' :: s2) ∨ acceptsSep os (Item.cls neg rs) = false) := by
          rcases hok with hl | ⟨hn, hs⟩
          · obtain ⟨b, hb⟩ := hl (Item.cls neg rs) (by simp); cases hb
          · refine ⟨hn, ?_⟩
            rcases hs with hs | hs
            · exact Or.inl hs
            · exact Or.inr (hs _ (by simp))
        simp only [List.cons_append, Item.step] at h1
        simp only [Item.step] at h2
        split at h1
        · split at h2
          · rename_i hm
            injection h1 with h1; injection h2 with h2
            subst h1 h2
            have hc'' : c' ≠ (pathSep os) := by
              rcases hnar.2 with hs | hs
              · intro e; subst e; exact hs (by simp)
              · intro e; subst e
                rw [decodeRune_ascii (pathSep os) s2 (by cases os <;> decide)] at hm
                simp only [acceptsSep] at hs
                rw [hs] at hm; simp at hm
            exact rune_mono (c :: g1) (c' :: s2) c' s2 rfl (by simp) hg hc'' (narrow_head hnar.1)
          · simp at h2
        · simp at h1

theorem chunk_mono (is : List Item) : ∀ (g s' t t' : Bytes), (∀ c ∈ g, c ≠ (pathSep os)) →
    chunkMatch os is (g ++ s') = some t → chunkMatch os is s' = some t' → NameOK os is (g ++ s') →
    ∃ g', t = g' ++ t' ∧ ∀ c ∈ g', c ≠ (pathSep os) := by
  induction is with
  | nil =>
    intro g s' t t' hg h1 h2 _
    simp only [chunkMatch, Option.some.injEq] at h1 h2
    subst h1 h2
    exact ⟨g, rfl, hg⟩
  | cons it is ih =>
    intro g s' t t' hg h1 h2 hok
    simp only [chunkMatch] at h1 h2
    cases hs1 : it.step os (g ++ s') with
    | none => simp [hs1] at h1
    | some u =>
      cases hs2 : it.step os s' with
      | none => simp [hs2] at h2
      | some u' =>
        simp only [hs1] at h1
        simp only [hs2] at h2
        have hok1 : NameOK os [it] (g ++ s') := by
          rcases hok with hl | ⟨hn, hs⟩
          · exact Or.inl (fun x hx => hl x (by simp at hx; simp [hx]))
          · refine Or.inr ⟨hn, ?_⟩
            rcases hs with hs | hs
            · exact Or.inl hs
            · exact Or.inr (fun x hx => hs x (by simp at hx; simp [hx]))
        obtain ⟨g2, e, hg2⟩ := step_mono it g s' u u' hg hs1 hs2 hok1
        subst e
        exact ih g2 u' t t' hg2 h1 h2 (NameOK_suffix (step_suffix hs1) (NameOK_tail hok))

/-! ### 13. The star loop -/

/-- the star loop of Match: the first position, after skipping at least one non-separator byte, at which the
    chunk matches (up to the end of the name when nothing follows the chunk) -/
def firstCommit (os : OS) (is : List Item) (pe : Bool) : Bytes → Option Bytes
  | [] => none
  | n0 :: nrest =>
    if n0 == (pathSep os) then none else
    match chunkMatch os is nrest with
    | some t => if pe && decide (t.length > 0) then firstCommit os is pe nrest else some t
    | none => firstCommit os is pe nrest

theorem starScan_eq (chunk rest : Bytes) (ht : Tail rest) (hs : Stops os chunk rest false)
    (hok : (parsePat os chunk).2 = true) (pe : Bool) (name : Bytes) :
    starScan os chunk pe name = .ok (firstCommit os (parsePat os chunk).1 pe name) := by
  induction name with
  | nil => rfl
  | cons n0 nrest ih =>
    simp only [starScan, firstCommit]
    have hps : pathSep os = (pathSep os) := rfl
    rw [hps]
    by_cases h0 : (n0 == (pathSep os)) = true
    · simp only [h0, if_true]
    · simp only [h0, Bool.false_eq_true, if_false]
      rw [matchChunk_eq _ chunk nrest false (by omega) rest ht hs]
      simp only [mcRes, hok, if_true, Bool.false_eq_true, if_false]
      cases chunkMatch os (parsePat os chunk).1 nrest with
      | none => simpa using ih
      | some t =>
        simp only [if_true]
        by_cases hpe : (pe && decide (t.length > 0)) = true
        · simp only [hpe, if_true]; exact ih
        · simp only [hpe, Bool.false_eq_true, if_false]

theorem firstCommit_suffix {is : List Item} {pe : Bool} {name t : Bytes} (h : firstCommit os is pe name = some t) :
    t <:+ name := by
  induction name with
  | nil => simp [firstCommit] at h
  | cons n0 nrest ih =>
    simp only [firstCommit] at h
    split at h
    · simp at h
    · cases hcm : chunkMatch os is nrest with
      | none =>
        simp only [hcm] at h
        exact List.IsSuffix.trans (ih h) (List.suffix_cons _ _)
      | some t' =>
        simp only [hcm] at h
        split at h
        · exact List.IsSuffix.trans (ih h) (List.suffix_cons _ _)
        · injection h with h; subst h
          exact List.IsSuffix.trans (chunkMatch_suffix hcm) (List.suffix_cons _ _)

/-- `f` holds after skipping at least one non-separator byte -/
def tailAny (os : OS) (f : Bytes → Bool) : Bytes → Bool
  | [] => false
  | c :: s => c != (pathSep os) && starAny os f s

theorem starAny_eq_or (f : Bytes → Bool) (s : Bytes) : starAny os f s = (f s || tailAny os f s) := by
  cases s <;> simp [starAny, tailAny]

/-- the chunk matches at the beginning of `s` and `φ` holds of the remainder -/
def chunkThen (os : OS) (is : List Item) (φ : Bytes → Bool) (s : Bytes) : Bool :=
  match chunkMatch os is s with
  | some t => φ t
  | none => false

def Absorbs (os : OS) (φ : Bytes → Bool) : Prop := ∀ g t, (∀ c ∈ g, c ≠ (pathSep os)) → φ t = true → φ (g ++ t) = true

theorem absorbs_starAny (f : Bytes → Bool) : Absorbs os (starAny os f) := fun g t hg h => starAny_absorb f g t hg h

/-- THE KEY LEMMA: if the chunk matches here (leaving t) and what follows absorbs non-separator bytes (it begins
    with a star), then a match exists at this or a later start position iff what follows matches t -/
theorem commit_eq (is : List Item) (φ : Bytes → Bool) (habs : Absorbs os φ) (s t : Bytes) (hok : NameOK os is s)
    (h : chunkMatch os is s = some t) : starAny os (chunkThen os is φ) s = φ t := by
  apply Bool.eq_iff_iff.mpr
  constructor
  · intro hst
    obtain ⟨g, s', e, hg, hf⟩ := (starAny_iff _ s).mp hst
    subst e
    unfold chunkThen at hf
    cases hcm : chunkMatch os is s' with
    | none => simp [hcm] at hf
    | some t' =>
      simp only [hcm] at hf
      obtain ⟨g', e', hg'⟩ := chunk_mono is g s' t t' hg h hcm hok
      subst e'
      exact habs g' t' hg' hf
  · intro hφ
    apply starAny_self
    simp [chunkThen, h, hφ]

theorem firstCommit_spec_false (is : List Item) (φ : Bytes → Bool) (habs : Absorbs os φ) (name : Bytes)
    (hok : NameOK os is name) :
    (match firstCommit os is false name with
      | some t => φ t
      | none => false) = tailAny os (chunkThen os is φ) name := by
  induction name with
  | nil => rfl
  | cons n0 nrest ih =>
    have hok' : NameOK os is nrest := NameOK_suffix (List.suffix_cons _ _) hok
    simp only [firstCommit, tailAny]
    by_cases h0 : (n0 == (pathSep os)) = true
    · simp [h0, bne]
    · have h0' : (n0 != (pathSep os)) = true := by simp [bne, h0]
      simp only [h0, h0', Bool.false_eq_true, if_false, Bool.true_and, Bool.false_and]
      cases hcm : chunkMatch os is nrest with
      | none =>
        simp only
        rw [ih hok', starAny_eq_or]
        simp [chunkThen, hcm]
      | some t =>
        simp only
        exact (commit_eq is φ habs nrest t hok' hcm).symm

theorem firstCommit_spec_true (is : List Item) (name : Bytes) :
    (match firstCommit os is true name with
      | some t => t.isEmpty
      | none => false) = tailAny os (chunkThen os is List.isEmpty) name := by
  induction name with
  | nil => rfl
  | cons n0 nrest ih =>
    simp only [firstCommit, tailAny]
    by_cases h0 : (n0 == (pathSep os)) = true
    · simp [h0, bne]
    · have h0' : (n0 != (pathSep os)) = true := by simp [bne, h0]
      simp only [h0, h0', Bool.false_eq_true, if_false, Bool.true_and]
      cases hcm : chunkMatch os is nrest with
      | none =>
        simp only
        rw [ih, starAny_eq_or]
        simp [chunkThen, hcm]
      | some t =>
        simp only
        cases t with
        | nil =>
          simp only [List.length_nil, Nat.lt_irrefl, decide_false, Bool.false_eq_true, if_false,
            List.isEmpty_nil, gt_iff_lt]
          symm; apply starAny_self
          simp [chunkThen, hcm]
        | cons t0 t1 =>
          simp only [List.length_cons, gt_iff_lt, Nat.zero_lt_succ, decide_true, if_true]
          rw [ih, starAny_eq_or]
          simp [chunkThen, hcm]

/-! ### 14. goodPrefix and the hypothesis `Safe` along the chunks -/

theorem dropWhile_append_all {α} (p : α → Bool) (l1 l2 : List α) (h : ∀ x ∈ l1, p x = true) :
    (l1 ++ l2).dropWhile p = l2.dropWhile p := by
  induction l1 with
  | nil => rfl
  | cons a l1 ih =>
    rw [List.cons_append, List.dropWhile_cons, h a (by simp)]
    simp only [if_true]
    exact ih (fun x hx => h x (by simp [hx]))

theorem dropWhile_append_ne {α} (p : α → Bool) (l1 l2 : List α) (h : l1.dropWhile p ≠ []) :
    (l1 ++ l2).dropWhile p = l1.dropWhile p ++ l2 := by
  induction l1 with
  | nil => simp at h
  | cons a l1 ih =>
    rw [List.cons_append, List.dropWhile_cons, List.dropWhile_cons]
    by_cases hp : p a = true
    · simp only [hp, if_true]
      rw [List.dropWhile_cons, hp] at h
      exact ih h
    · simp only [hp, Bool.false_eq_true, if_false, List.cons_append]

theorem dropWhile_nil_all {α} (p : α → Bool) (l : List α) (h : l.dropWhile p = []) : ∀ x ∈ l, p x = true := by
  induction l with
  | nil => simp
  | cons a l ih =>
    rw [List.dropWhile_cons] at h
    by_cases hp : p a = true
    · simp only [hp, if_true] at h
      intro x hx
      simp only [List.mem_cons] at hx
      rcases hx with rfl | hx
      · exact hp
      · exact ih h x hx
    · simp [hp] at h

theorem goodPrefix_append_noStar (A l : List Item) (h : noStar l = true) : goodPrefix (A ++ l) = goodPrefix A := by
  unfold goodPrefix
  rw [List.reverse_append, dropWhile_append_all]
  intro x hx
  simp only [noStar, List.all_eq_true] at h
  exact h x (List.mem_reverse.mp hx)

theorem goodPrefix_append (A R : List Item) (h : goodPrefix R ≠ []) : goodPrefix (A ++ R) = A ++ goodPrefix R := by
  unfold goodPrefix at h ⊢
  rw [List.reverse_append, dropWhile_append_ne _ _ _ (by simpa using h)]
  simp

theorem goodPrefix_star_cons (B : List Item) : ∃ X, goodPrefix (Item.star :: B) = Item.star :: X := by
  by_cases h : goodPrefix B = []
  · have hns : noStar B = true := by
      unfold goodPrefix at h
      simp only [List.reverse_eq_nil_iff] at h
      simp only [noStar, List.all_eq_true]
      intro x hx
      exact dropWhile_nil_all _ _ h x (List.mem_reverse.mpr hx)
    have := goodPrefix_append_noStar [Item.star] B hns
    rw [List.singleton_append] at this
    rw [this]
    exact ⟨[], by simp [goodPrefix, isStar]⟩
  · have := goodPrefix_append [Item.star] B h
    rw [List.singleton_append] at this
    rw [this]
    exact ⟨_, rfl⟩

theorem goodPrefix_stars (k : Nat) : goodPrefix (List.replicate k Item.star) = List.replicate k Item.star := by
  cases k with
  | zero => rfl
  | succ k =>
    unfold goodPrefix
    have : (List.replicate (k + 1) Item.star).dropWhile (fun i => !isStar i) = List.replicate (k + 1) Item.star := by
      rw [List.replicate_succ, List.dropWhile_cons]; simp [isStar]
    rw [List.reverse_replicate, this, List.reverse_replicate]

theorem noStar_replicate_false (k : Nat) (l : List Item) : noStar (List.replicate (k + 1) Item.star ++ l) = false := by
  simp [noStar, List.replicate_succ, isStar]

theorem aftLit_stars (k : Nat) (l : List Item) : aftLit (List.replicate k Item.star ++ l) = aftLit l := by
  induction k with
  | zero => rfl
  | succ k ih => rw [List.replicate_succ, List.cons_append]; simp only [aftLit]; exact ih

theorem midLit_chunk (is R : List Item) (h : noStar is = true) : midLit (is ++ R) = midLit R := by
  induction is with
  | nil => rfl
  | cons it is ih =>
    simp only [noStar, List.all_cons, Bool.and_eq_true, Bool.not_eq_true'] at h
    have ih' := ih (by simpa [noStar] using h.2)
    cases it with
    | star => simp [isStar] at h
    | any => simpa [midLit] using ih'
    | lit b => simpa [midLit] using ih'
    | cls n r => simpa [midLit] using ih'

theorem aftLit_chunk (is R1 : List Item) (h : noStar is = true) (ha : aftLit (is ++ Item.star :: R1) = true) :
    (∀ it ∈ is, ∃ b, it = Item.lit b) ∧ aftLit R1 = true := by
  induction is with
  | nil => simpa [aftLit] using ha
  | cons it is ih =>
    simp only [noStar, List.all_cons, Bool.and_eq_true, Bool.not_eq_true'] at h
    have hns : noStar is = true := by simpa [noStar] using h.2
    cases it with
    | star => simp [isStar] at h
    | lit b =>
      simp only [List.cons_append, aftLit] at ha
      obtain ⟨h1, h2⟩ := ih hns ha
      refine ⟨?_, h2⟩
      intro x hx
      simp only [List.mem_cons] at hx
      rcases hx with rfl | hx
      · exact ⟨b, rfl⟩
      · exact h1 x hx
    | any =>
      simp only [List.cons_append, aftLit] at ha
      simp [noStar, isStar] at ha
    | cls n r =>
      simp only [List.cons_append, aftLit] at ha
      simp [noStar, isStar] at ha

/-- what the items of the rest of the pattern look like -/
def TailItems (R : List Item) : Prop := R = [] ∨ ∃ R1, R = Item.star :: R1

theorem parsePat_tail {rest : Bytes} (ht : Tail rest) :
    TailItems (parsePat os rest).1 ∧ (rest = [] → parsePat os rest = ([], true)) ∧
    (rest ≠ [] → ∃ R1, (parsePat os rest).1 = Item.star :: R1) := by
  rcases ht with rfl | ⟨b, rfl⟩
  · exact ⟨Or.inl rfl, fun _ => rfl, fun h => absurd rfl h⟩
  · rw [parsePat_star]
    exact ⟨Or.inr ⟨_, rfl⟩, fun h => by simp at h, fun _ => ⟨_, rfl⟩⟩

theorem safe_rest (k : Nat) (is R : List Item) (s t : Bytes) (hns : noStar is = true) (hR : TailItems R)
    (hsuf : t <:+ s) (h : Safe os (List.replicate k Item.star ++ (is ++ R)) s) : Safe os R t := by
  rcases h with h | ⟨hn, hs⟩
  · left
    cases k with
    | zero =>
      rw [List.replicate_zero, List.nil_append, midLit_chunk _ _ hns] at h
      exact h
    | succ k =>
      rw [List.replicate_succ, List.cons_append] at h
      simp only [midLit] at h
      rw [aftLit_stars] at h
      rcases hR with rfl | ⟨R1, rfl⟩
      · rfl
      · simp only [midLit]
        exact (aftLit_chunk is R1 hns h).2
  · right
    refine ⟨narrow_suffix hsuf hn, ?_⟩
    rcases hs with hs | hs
    · left; intro hm; exact hs (hsuf.subset hm)
    · right; intro it hit; exact hs it (by simp [hit])

theorem safe_nameOK (k : Nat) (is R1 : List Item) (s : Bytes) (hns : noStar is = true)
    (h : Safe os (List.replicate (k + 1) Item.star ++ (is ++ Item.star :: R1)) s) : NameOK os is s := by
  rcases h with h | ⟨hn, hs⟩
  · left
    rw [List.replicate_succ, List.cons_append] at h
    simp only [midLit] at h
    rw [aftLit_stars] at h
    exact (aftLit_chunk is R1 hns h).1
  · right
    refine ⟨hn, ?_⟩
    rcases hs with hs | hs
    · exact Or.inl hs
    · right; intro it hit; exact hs it (by simp [hit])

/-! ### 15. Match computes the specification -/

/-- the predicted outcome from the parse os -/
def specOut (os : OS) (p : List Item × Bool) (name : Bytes) : MOut Bool :=
  if p.2 then .ok (matchItems os p.1 name)
  else if matchPrefix os (goodPrefix p.1) name then .badPattern else .ok false

theorem specMatch_eq (pat name : Bytes) : specMatch os pat name = specOut os (parsePat os pat) name := rfl

def outB (ok : Bool) (b : Bool) : MOut Bool := if ok then .ok b else if b then .badPattern else .ok false

/-- what the rest of the pattern requires of the rest of the name -/
def restPhi (os : OS) (p : List Item × Bool) : Bytes → Bool :=
  if p.2 then matchK os List.isEmpty p.1 else matchK os (fun _ => true) (goodPrefix p.1)

theorem specOut_eq (p : List Item × Bool) (t : Bytes) : specOut os p t = outB p.2 (restPhi os p t) := by
  obtain ⟨R, ok⟩ := p
  cases ok <;> rfl

theorem chunkThen_eq (fin : Bytes → Bool) (is R : List Item) (hns : noStar is = true) (s : Bytes) :
    matchK os fin (is ++ R) s = chunkThen os is (matchK os fin R) s := matchK_chunk fin is R hns s

theorem matchK_stars_chunk (fin : Bytes → Bool) (k : Nat) (is R : List Item) (hns : noStar is = true) (s : Bytes) :
    matchK os fin (List.replicate k Item.star ++ (is ++ R)) s =
      if k = 0 then chunkThen os is (matchK os fin R) s else starAny os (chunkThen os is (matchK os fin R)) s := by
  cases k with
  | zero => simp [chunkThen_eq fin is R hns]
  | succ k =>
    rw [matchK_stars]
    simp only [Nat.succ_ne_zero, if_false]
    exact starAny_congr _ _ (fun s => chunkThen_eq fin is R hns s) s

theorem spec_chunk (k : Nat) (is R : List Item) (okR : Bool) (name : Bytes) (hns : noStar is = true)
    (hR : okR = false → ∃ R1, R = Item.star :: R1) :
    specOut os (List.replicate k Item.star ++ (is ++ R), okR) name =
      outB okR (if k = 0 then chunkThen os is (restPhi os (R, okR)) name
        else starAny os (chunkThen os is (restPhi os (R, okR))) name) := by
  cases okR with
  | true =>
    simp only [specOut, outB, restPhi, if_true, matchItems]
    rw [matchK_stars_chunk _ _ _ _ hns]
  | false =>
    obtain ⟨R1, rfl⟩ := hR rfl
    obtain ⟨X, hX⟩ := goodPrefix_star_cons R1
    have hg : goodPrefix (List.replicate k Item.star ++ (is ++ Item.star :: R1)) =
        List.replicate k Item.star ++ (is ++ goodPrefix (Item.star :: R1)) := by
      rw [← List.append_assoc, goodPrefix_append _ _ (by rw [hX]; simp), List.append_assoc]
    simp only [specOut, outB, restPhi, Bool.false_eq_true, if_false, matchPrefix, hg,
      matchK_stars_chunk _ _ _ _ hns]

theorem spec_bad_chunk (k : Nat) (is : List Item) (name : Bytes) (hns : noStar is = true) :
    specOut os (List.replicate k Item.star ++ is, false) name = .badPattern := by
  simp only [specOut, Bool.false_eq_true, if_false, matchPrefix, goodPrefix_append_noStar _ _ hns,
    goodPrefix_stars, matchK_stars_true, if_true]

theorem restPhi_absorbs (R1 : List Item) (okR : Bool) : Absorbs os (restPhi os (Item.star :: R1, okR)) := by
  cases okR with
  | true => exact absorbs_starAny _
  | false =>
    obtain ⟨X, hX⟩ := goodPrefix_star_cons R1
    simp only [restPhi, Bool.false_eq_true, if_false]
    rw [hX]
    exact absorbs_starAny _

theorem restPhi_nil : restPhi os ([], true) = List.isEmpty := rfl

theorem outB_false (ok : Bool) : outB ok false = .ok false := by cases ok <;> rfl

theorem loop_step (fuel : Nat)
    (ih : ∀ (pattern name : Bytes), pattern.length < fuel → Safe os (parsePat os pattern).1 name →
      matchLoop os fuel pattern name = specOut os (parsePat os pattern) name)
    (pattern name chunk rest : Bytes) (k : Nat) (hpne : pattern ≠ [])
    (hsc : scanChunk os pattern = (decide (0 < k), chunk, rest))
    (hnot : ¬ (0 < k ∧ chunk = []))
    (ht : Tail rest) (hs : Stops os chunk rest false) (hrl : rest.length < fuel)
    (hpp : parsePat os pattern = (List.replicate k Item.star ++
        (if (parsePat os chunk).2 = true then (parsePat os chunk).1 ++ (parsePat os rest).1 else (parsePat os chunk).1),
        (parsePat os chunk).2 && (parsePat os rest).2))
    (hns : noStar (parsePat os chunk).1 = true)
    (hsafe : Safe os (parsePat os pattern).1 name) :
    matchLoop os (fuel + 1) pattern name = specOut os (parsePat os pattern) name := by
  have hlen : (pattern.length == 0) = false := by
    cases pattern with
    | nil => exact absurd rfl hpne
    | cons c l => simp
  have hsc0 : (decide (0 < k) && chunk == []) = false := by
    cases hd : decide (0 < k) with
    | false => rfl
    | true =>
      simp only [decide_eq_true_eq] at hd
      simp only [Bool.true_and, beq_eq_false_iff_ne, ne_eq]
      exact fun e => hnot ⟨hd, e⟩
  simp only [matchLoop, hlen, Bool.false_eq_true, if_false, hsc, hsc0]
  rw [matchChunk_eq _ chunk name false (by omega) rest ht hs]
  rw [hpp] at hsafe ⊢
  obtain ⟨hTI, hRnil, hRcons⟩ := parsePat_tail (os := os) ht
  generalize hpc : parsePat os chunk = pc at hsafe hns ⊢
  obtain ⟨is, okc⟩ := pc
  generalize hpr : parsePat os rest = pr at hsafe hTI hRnil hRcons ⊢
  obtain ⟨R, okR⟩ := pr
  simp only at hsafe hns hTI hRnil hRcons ⊢
  cases okc with
  | false =>
    simp only [mcRes, Bool.false_eq_true, if_false, Bool.false_and]
    rw [spec_bad_chunk k is name hns]
    simp
  | true =>
    simp only [if_true, Bool.true_and] at hsafe ⊢
    have hR : okR = false → ∃ R1, R = Item.star :: R1 := by
      intro hf
      apply hRcons
      intro e
      have := hRnil e
      rw [hf] at this
      simp at this
    rw [spec_chunk k is R okR name hns hR]
    have hok : (parsePat os chunk).2 = true := by rw [hpc]
    rw [starScan_eq chunk rest ht hs hok, hpc]
    simp only [mcRes, if_true, Bool.false_eq_true, if_false]
    -- facts on what follows the chunk
    have hφnil : rest = [] → restPhi os (R, okR) = List.isEmpty := by
      intro e
      have := hRnil e
      injection this with h1 h2
      subst h1 h2
      rfl
    have hφabs : rest ≠ [] → Absorbs os (restPhi os (R, okR)) := by
      intro e
      obtain ⟨R1, rfl⟩ := hRcons e
      exact restPhi_absorbs R1 okR
    have hIH : ∀ t, t <:+ name → matchLoop os fuel rest t = outB okR (restPhi os (R, okR) t) := by
      intro t hsuf
      rw [ih rest t hrl (by rw [hpr]; exact safe_rest k is R name t hns hTI hsuf hsafe), hpr, specOut_eq]
    have hNOK : 0 < k → rest ≠ [] → NameOK os is name := by
      intro hk e
      obtain ⟨R1, rfl⟩ := hRcons e
      obtain ⟨k', rfl⟩ : ∃ k', k = k' + 1 := ⟨k - 1, by omega⟩
      exact safe_nameOK k' is R1 name hns hsafe
    generalize restPhi os (R, okR) = φ at hφnil hφabs hIH ⊢
    -- the star loop, when there is no (accepted) match at position 0
    have hstar : 0 < k → chunkThen os is φ name = false →
        (match firstCommit os is (rest == []) name with
          | some t => φ t
          | none => false) = starAny os (chunkThen os is φ) name := by
      intro hk h0
      rw [starAny_eq_or, h0, Bool.false_or]
      by_cases e : rest = []
      · have := hφnil e
        subst this
        subst e
        exact firstCommit_spec_true is name
      · have hre : (rest == []) = false := by simpa using e
        rw [hre]
        exact firstCommit_spec_false is φ (hφabs e) name (hNOK hk e)
    have hkz : ∀ {α} (a b : α), ¬ (0 < k) → (if k = 0 then a else b) = a := by
      intro α a b h; rw [if_pos (by omega)]
    have hkp : ∀ {α} (a b : α), 0 < k → (if k = 0 then a else b) = b := by
      intro α a b h; rw [if_neg (by omega)]
    cases hcm : chunkMatch os is name with
    | none =>
      have h0 : chunkThen os is φ name = false := by simp [chunkThen, hcm]
      simp only [Bool.false_and, Bool.false_eq_true, if_false]
      by_cases hk : 0 < k
      · have hst := hstar hk h0
        rw [hkp _ _ hk, ← hst]
        simp only [hk, decide_true, if_true]
        cases hfc : firstCommit os is (rest == []) name with
        | none => simp only; exact (outB_false okR).symm
        | some t' => simp only; exact hIH t' (firstCommit_suffix hfc)
      · rw [hkz _ _ hk, h0]
        simp only [hk, decide_false, Bool.false_eq_true, if_false]
        exact (outB_false okR).symm
    | some t =>
      have hsuf : t <:+ name := chunkMatch_suffix hcm
      have hψ : chunkThen os is φ name = φ t := by simp [chunkThen, hcm]
      simp only [Bool.true_and]
      by_cases hc : (t == [] || decide (rest.length > 0)) = true
      · -- committed at position 0
        simp only [hc, if_true]
        rw [hIH t hsuf]
        by_cases hk : 0 < k
        · rw [hkp _ _ hk]
          by_cases e : rest = []
          · have ht0 : t = [] := by
              subst e
              simpa using hc
            subst ht0
            have hφ := hφnil e
            subst hφ
            have : starAny os (chunkThen os is List.isEmpty) name = true := starAny_self _ _ (by rw [hψ]; rfl)
            rw [this]; rfl
          · rw [commit_eq is φ (hφabs e) name t (hNOK hk e) hcm]
        · rw [hkz _ _ hk, hψ]
      · -- a match that does not reach the end of the name, and nothing follows
        simp only [hc, Bool.false_eq_true, if_false]
        simp only [Bool.or_eq_true, beq_iff_eq, decide_eq_true_eq, not_or] at hc
        have e : rest = [] := List.length_eq_zero_iff.mp (by omega)
        have hφ := hφnil e
        subst hφ
        have h0 : chunkThen os is List.isEmpty name = false := by
          rw [hψ]; cases t with
          | nil => exact absurd rfl hc.1
          | cons a b => rfl
        by_cases hk : 0 < k
        · have hst := hstar hk h0
          rw [hkp _ _ hk, ← hst]
          simp only [hk, decide_true, if_true]
          cases hfc : firstCommit os is (rest == []) name with
          | none => simp only; exact (outB_false okR).symm
          | some t' => simp only; exact hIH t' (firstCommit_suffix hfc)
        · rw [hkz _ _ hk, h0]
          simp only [hk, decide_false, Bool.false_eq_true, if_false]
          exact (outB_false okR).symm

theorem matchLoop_eq : ∀ (fuel : Nat) (pattern name : Bytes), pattern.length < fuel →
    Safe os (parsePat os pattern).1 name → matchLoop os fuel pattern name = specOut os (parsePat os pattern) name := by
  intro fuel
  induction fuel with
  | zero => intro pattern name h; omega
  | succ fuel ih =>
    intro pattern name hf hsafe
    by_cases hpne : pattern = []
    · subst hpne
      cases name <;> simp [matchLoop, specOut, parsePat_nil, matchItems, matchK]
    · obtain ⟨ht, hs, hlen⟩ := chunk_facts (os := os) (dropStars pattern)
      have hle : (dropStars pattern).length ≤ pattern.length := length_dropWhile_le _ _
      have hsc : scanChunk os pattern = (decide (0 < pattern.length - (dropStars pattern).length),
          (dropStars pattern).take (scanLen os (dropStars pattern) false),
          (dropStars pattern).drop (scanLen os (dropStars pattern) false)) := by
        rw [scanChunk_eq]
        congr 1
        apply decide_eq_decide.mpr
        omega
      have hrl : ((dropStars pattern).drop (scanLen os (dropStars pattern) false)).length < fuel := by
        have := scanChunk_rest_lt os pattern hpne
        rw [hsc] at this
        simp only at this
        omega
      have hpd := parsePat_dropStars (os := os) pattern
      obtain ⟨htr, hns⟩ := parsePat_trunc _ _ (Nat.le_refl _) _ ht hs
      rw [List.take_append_drop] at htr
      generalize hk : pattern.length - (dropStars pattern).length = k at hsc hpd
      generalize hch : (dropStars pattern).take (scanLen os (dropStars pattern) false) = chunk at *
      generalize hre : (dropStars pattern).drop (scanLen os (dropStars pattern) false) = rest at *
      by_cases hcase : 0 < k ∧ chunk = []
      · obtain ⟨hkpos, hce⟩ := hcase
        have hp1 : dropStars pattern = [] := by
          cases hd : dropStars pattern with
          | nil => rfl
          | cons c l =>
            exfalso
            have hc := dropStars_head pattern c l hd
            have := scan_pos os c l (by simpa using hc) 0
            rw [hd] at hlen
            rw [hce] at hlen
            unfold scanLen at hlen
            simp only [List.length_nil] at hlen
            omega
        have hlen0 : (pattern.length == 0) = false := by
          cases pattern with
          | nil => exact absurd rfl hpne
          | cons c l => simp
        have hstar : (decide (0 < k) && chunk == []) = true := by simp [hkpos, hce]
        simp only [matchLoop, hlen0, Bool.false_eq_true, if_false, hsc, hstar, if_true]
        rw [hpd, hp1, parsePat_nil]
        obtain ⟨k', rfl⟩ : ∃ k', k = k' + 1 := ⟨k - 1, by omega⟩
        simp only [specOut, if_true, matchItems]
        rw [matchK_stars]
        have : matchK os List.isEmpty [] = List.isEmpty := rfl
        rw [this, starAny_isEmpty]
      · refine loop_step fuel ih pattern name chunk rest k hpne hsc hcase ht hs hrl ?_ hns hsafe
        rw [hpd, htr]
        cases (parsePat os chunk).2 <;> simp

theorem pmatch_eq_specMatch (pat name : Bytes) (h : Safe os (parsePat os pat).1 name) :
    pmatch os pat name = specMatch os pat name :=
  matchLoop_eq _ pat name (by omega) h

/-! ### 16. The Bool functions decide the declarative relations -/

theorem inRanges_iff (rs : List (Nat × Nat)) (r : Nat) :
    inRanges rs r = true ↔ ∃ p ∈ rs, p.1 ≤ r ∧ r ≤ p.2 := by
  simp [inRanges]

theorem matchK_iff (fin : Bytes → Bool) (items : List Item) : ∀ (s : Bytes),
    matchK os fin items s = true ↔ ∃ v, MatchesRem os items s v ∧ fin v = true := by
  induction items with
  | nil =>
    intro s
    constructor
    · intro h; exact ⟨s, MatchesRem.nil s, h⟩
    · rintro ⟨v, hm, hf⟩; cases hm; exact hf
  | cons it is ih =>
    intro s
    cases it with
    | star =>
      rw [matchK_star, starAny_iff]
      constructor
      · rintro ⟨g, s', rfl, hg, hf⟩
        obtain ⟨v, hm, hv⟩ := (ih s').mp hf
        exact ⟨v, MatchesRem.star g s' v is hg hm, hv⟩
      · rintro ⟨v, hm, hv⟩
        cases hm with
        | star u s' _ _ hu hm' => exact ⟨u, s', rfl, hu, (ih s').mpr ⟨v, hm', hv⟩⟩
    | any =>
      rw [matchK_cons_nostar _ _ _ _ rfl]
      cases s with
      | nil =>
        simp only [Item.step]
        constructor
        · intro h; simp at h
        · rintro ⟨v, hm, _⟩; cases hm
      | cons c s1 =>
        simp only [Item.step]
        by_cases hc : c = (pathSep os)
        · subst hc
          simp only [bne_self_eq_false, Bool.false_eq_true, if_false]
          constructor
          · intro h; simp at h
          · rintro ⟨v, hm, _⟩
            cases hm with
            | any _ _ _ _ hne _ => exact absurd rfl hne
        · have : (c != (pathSep os)) = true := by simp [hc]
          simp only [this, if_true]
          rw [ih]
          constructor
          · rintro ⟨v, hm, hv⟩; exact ⟨v, MatchesRem.any c s1 v is hc hm, hv⟩
          · rintro ⟨v, hm, hv⟩
            cases hm with
            | any _ _ _ _ _ hm' => exact ⟨v, hm', hv⟩
    | lit b =>
      rw [matchK_cons_nostar _ _ _ _ rfl]
      cases s with
      | nil =>
        simp only [Item.step]
        constructor
        · intro h; simp at h
        · rintro ⟨v, hm, _⟩; cases hm
      | cons c s1 =>
        simp only [Item.step]
        by_cases hc : c = b
        · subst hc
          simp only [beq_self_eq_true, if_true]
          rw [ih]
          constructor
          · rintro ⟨v, hm, hv⟩; exact ⟨v, MatchesRem.lit c s1 v is hm, hv⟩
          · rintro ⟨v, hm, hv⟩
            cases hm with
            | lit _ _ _ _ hm' => exact ⟨v, hm', hv⟩
        · have : (c == b) = false := by simp [hc]
          simp only [this, Bool.false_eq_true, if_false]
          constructor
          · intro h; simp at h
          · rintro ⟨v, hm, _⟩
            cases hm with
            | lit _ _ _ _ _ => exact absurd rfl hc
    | cls neg rs =>
      rw [matchK_cons_nostar _ _ _ _ rfl]
      cases s with
      | nil =>
        simp only [Item.step]
        constructor
        · intro h; simp at h
        · rintro ⟨v, hm, _⟩; cases hm
      | cons c s1 =>
        simp only [Item.step]
        have hcond : (inRanges rs (decodeRune (c :: s1)).1 != neg) = true ↔
            ((∃ p ∈ rs, p.1 ≤ (decodeRune (c :: s1)).1 ∧ (decodeRune (c :: s1)).1 ≤ p.2) ↔ neg = false) := by
          rw [← inRanges_iff]
          cases inRanges rs (decodeRune (c :: s1)).1 <;> cases neg <;> simp
        by_cases hm0 : (inRanges rs (decodeRune (c :: s1)).1 != neg) = true
        · simp only [hm0, if_true]
          rw [ih]
          constructor
          · rintro ⟨v, hm, hv⟩; exact ⟨v, MatchesRem.cls neg rs c s1 v is (hcond.mp hm0) hm, hv⟩
          · rintro ⟨v, hm, hv⟩
            cases hm with
            | cls _ _ _ _ _ _ _ hm' => exact ⟨v, hm', hv⟩
        · simp only [hm0, Bool.false_eq_true, if_false]
          constructor
          · intro h; simp at h
          · rintro ⟨v, hm, _⟩
            cases hm with
            | cls _ _ _ _ _ _ hc' _ => exact absurd (hcond.mpr hc') hm0

theorem matchItems_iff (items : List Item) (s : Bytes) : matchItems os items s = true ↔ Matches os items s := by
  unfold matchItems Matches
  rw [matchK_iff]
  constructor
  · rintro ⟨v, hm, hv⟩
    have : v = [] := by simpa using hv
    subst this; exact hm
  · intro h; exact ⟨[], h, rfl⟩

theorem matchPrefix_iff (items : List Item) (s : Bytes) : matchPrefix os items s = true ↔ MatchesPrefix os items s := by
  unfold matchPrefix MatchesPrefix
  rw [matchK_iff]
  constructor
  · rintro ⟨v, hm, _⟩; exact ⟨v, hm⟩
  · rintro ⟨v, hm⟩; exact ⟨v, hm, rfl⟩

instance (items : List Item) (s : Bytes) : Decidable (Matches os items s) :=
  decidable_of_iff _ (matchItems_iff items s)

instance (items : List Item) (s : Bytes) : Decidable (MatchesPrefix os items s) :=
  decidable_of_iff _ (matchPrefix_iff items s)

/-! ### 17. Without any hypothesis: Match never says more than the specification
    (`true` and ErrBadPattern are always right; only `false` can be wrong) -/

def Pos (r : MOut Bool) : Prop := r = .ok true ∨ r = .badPattern

theorem not_pos_false : ¬ Pos (.ok false) := by
  intro h; rcases h with h | h <;> cases h

theorem outB_pos (ok b : Bool) : Pos (outB ok b) ↔ b = true := by
  cases ok <;> cases b <;> simp [outB, Pos]

theorem firstCommit_some {is : List Item} {pe : Bool} {name t : Bytes} (h : firstCommit os is pe name = some t) :
    ∃ g s', name = g ++ s' ∧ (∀ c ∈ g, c ≠ (pathSep os)) ∧ chunkMatch os is s' = some t := by
  induction name with
  | nil => simp [firstCommit] at h
  | cons n0 nrest ih =>
    simp only [firstCommit] at h
    by_cases h0 : (n0 == (pathSep os)) = true
    · simp [h0] at h
    · simp only [h0, Bool.false_eq_true, if_false] at h
      have hn0 : n0 ≠ (pathSep os) := by simpa using h0
      have step : (∃ g s', nrest = g ++ s' ∧ (∀ c ∈ g, c ≠ (pathSep os)) ∧ chunkMatch os is s' = some t) →
          ∃ g s', n0 :: nrest = g ++ s' ∧ (∀ c ∈ g, c ≠ (pathSep os)) ∧ chunkMatch os is s' = some t := by
        rintro ⟨g, s', e, hg, hc⟩
        refine ⟨n0 :: g, s', by simp [e], ?_, hc⟩
        intro c hc'
        simp only [List.mem_cons] at hc'
        rcases hc' with rfl | hc'
        · exact hn0
        · exact hg c hc'
      cases hcm : chunkMatch os is nrest with
      | none =>
        simp only [hcm] at h
        exact step (ih h)
      | some t' =>
        simp only [hcm] at h
        split at h
        · exact step (ih h)
        · injection h with h; subst h
          exact step ⟨[], nrest, rfl, by simp, hcm⟩

theorem loop_step_sound (fuel : Nat)
    (ih : ∀ (pattern name : Bytes), pattern.length < fuel → Pos (matchLoop os fuel pattern name) →
      matchLoop os fuel pattern name = specOut os (parsePat os pattern) name)
    (pattern name chunk rest : Bytes) (k : Nat) (hpne : pattern ≠ [])
    (hsc : scanChunk os pattern = (decide (0 < k), chunk, rest))
    (hnot : ¬ (0 < k ∧ chunk = []))
    (ht : Tail rest) (hs : Stops os chunk rest false) (hrl : rest.length < fuel)
    (hpp : parsePat os pattern = (List.replicate k Item.star ++
        (if (parsePat os chunk).2 = true then (parsePat os chunk).1 ++ (parsePat os rest).1 else (parsePat os chunk).1),
        (parsePat os chunk).2 && (parsePat os rest).2))
    (hns : noStar (parsePat os chunk).1 = true) :
    Pos (matchLoop os (fuel + 1) pattern name) →
    matchLoop os (fuel + 1) pattern name = specOut os (parsePat os pattern) name := by
  have hlen : (pattern.length == 0) = false := by
    cases pattern with
    | nil => exact absurd rfl hpne
    | cons c l => simp
  have hsc0 : (decide (0 < k) && chunk == []) = false := by
    cases hd : decide (0 < k) with
    | false => rfl
    | true =>
      simp only [decide_eq_true_eq] at hd
      simp only [Bool.true_and, beq_eq_false_iff_ne, ne_eq]
      exact fun e => hnot ⟨hd, e⟩
  simp only [matchLoop, hlen, Bool.false_eq_true, if_false, hsc, hsc0]
  rw [matchChunk_eq _ chunk name false (by omega) rest ht hs]
  rw [hpp]
  obtain ⟨hTI, hRnil, hRcons⟩ := parsePat_tail (os := os) ht
  generalize hpc : parsePat os chunk = pc at hns ⊢
  obtain ⟨is, okc⟩ := pc
  generalize hpr : parsePat os rest = pr at hTI hRnil hRcons ⊢
  obtain ⟨R, okR⟩ := pr
  simp only at hns hTI hRnil hRcons ⊢
  cases okc with
  | false =>
    simp only [mcRes, Bool.false_eq_true, if_false, Bool.false_and]
    rw [spec_bad_chunk k is name hns]
    simp
  | true =>
    simp only [if_true, Bool.true_and]
    have hR : okR = false → ∃ R1, R = Item.star :: R1 := by
      intro hf
      apply hRcons
      intro e
      have := hRnil e
      rw [hf] at this
      simp at this
    rw [spec_chunk k is R okR name hns hR]
    have hok : (parsePat os chunk).2 = true := by rw [hpc]
    rw [starScan_eq chunk rest ht hs hok, hpc]
    simp only [mcRes, if_true, Bool.false_eq_true, if_false]
    have hIH : ∀ t, Pos (matchLoop os fuel rest t) →
        matchLoop os fuel rest t = outB okR true ∧ restPhi os (R, okR) t = true := by
      intro t hp
      have e := ih rest t hrl hp
      rw [hpr, specOut_eq] at e
      rw [e] at hp
      have := (outB_pos _ _).mp hp
      rw [e, this]
      exact ⟨rfl, rfl⟩
    generalize restPhi os (R, okR) = φ at hIH ⊢
    have hkz : ∀ {α} (a b : α), ¬ (0 < k) → (if k = 0 then a else b) = a := by
      intro α a b h; rw [if_pos (by omega)]
    have hkp : ∀ {α} (a b : α), 0 < k → (if k = 0 then a else b) = b := by
      intro α a b h; rw [if_neg (by omega)]
    -- the star loop
    have hstar : Pos (if decide (0 < k) = true then
          (match firstCommit os is (rest == []) name with
            | some t => matchLoop os fuel rest t
            | none => .ok false)
        else .ok false) →
        (if decide (0 < k) = true then
          (match firstCommit os is (rest == []) name with
            | some t => matchLoop os fuel rest t
            | none => .ok false)
        else .ok false) =
        outB okR (if k = 0 then chunkThen os is φ name else starAny os (chunkThen os is φ) name) := by
      by_cases hk : 0 < k
      · simp only [hk, decide_true, if_true]
        rw [hkp _ _ hk]
        cases hfc : firstCommit os is (rest == []) name with
        | none => simp only; intro hp; exact absurd hp not_pos_false
        | some t' =>
          simp only
          intro hp
          obtain ⟨e, hφ⟩ := hIH t' hp
          obtain ⟨g, s', en, hg, hc⟩ := firstCommit_some hfc
          have : starAny os (chunkThen os is φ) name = true :=
            (starAny_iff _ _).mpr ⟨g, s', en, hg, by simp [chunkThen, hc, hφ]⟩
          rw [e, this]
      · simp only [hk, decide_false, Bool.false_eq_true, if_false]
        intro hp; exact absurd hp not_pos_false
    cases hcm : chunkMatch os is name with
    | none =>
      simp only [Bool.false_and, Bool.false_eq_true, if_false]
      cases hfc : firstCommit os is (rest == []) name with
      | none => simp only [hfc] at hstar; simpa using hstar
      | some t' => simp only [hfc] at hstar; simpa using hstar
    | some t =>
      have hψ : chunkThen os is φ name = φ t := by simp [chunkThen, hcm]
      simp only [Bool.true_and]
      by_cases hc : (t == [] || decide (rest.length > 0)) = true
      · simp only [hc, if_true]
        intro hp
        obtain ⟨e, hφ⟩ := hIH t hp
        rw [e]
        by_cases hk : 0 < k
        · rw [hkp _ _ hk]
          have : starAny os (chunkThen os is φ) name = true := starAny_self _ _ (by rw [hψ]; exact hφ)
          rw [this]
        · rw [hkz _ _ hk, hψ, hφ]
      · simp only [hc, Bool.false_eq_true, if_false]
        cases hfc : firstCommit os is (rest == []) name with
        | none => simp only [hfc] at hstar; simpa using hstar
        | some t' => simp only [hfc] at hstar; simpa using hstar

theorem matchLoop_sound : ∀ (fuel : Nat) (pattern name : Bytes), pattern.length < fuel →
    Pos (matchLoop os fuel pattern name) → matchLoop os fuel pattern name = specOut os (parsePat os pattern) name := by
  intro fuel
  induction fuel with
  | zero => intro pattern name h; omega
  | succ fuel ih =>
    intro pattern name hf
    by_cases hpne : pattern = []
    · subst hpne
      intro _; cases name <;> simp [matchLoop, specOut, parsePat_nil, matchItems, matchK]
    · obtain ⟨ht, hs, hlen⟩ := chunk_facts (os := os) (dropStars pattern)
      have hle : (dropStars pattern).length ≤ pattern.length := length_dropWhile_le _ _
      have hsc : scanChunk os pattern = (decide (0 < pattern.length - (dropStars pattern).length),
          (dropStars pattern).take (scanLen os (dropStars pattern) false),
          (dropStars pattern).drop (scanLen os (dropStars pattern) false)) := by
        rw [scanChunk_eq]
        congr 1
        apply decide_eq_decide.mpr
        omega
      have hrl : ((dropStars pattern).drop (scanLen os (dropStars pattern) false)).length < fuel := by
        have := scanChunk_rest_lt os pattern hpne
        rw [hsc] at this
        simp only at this
        omega
      have hpd := parsePat_dropStars (os := os) pattern
      obtain ⟨htr, hns⟩ := parsePat_trunc _ _ (Nat.le_refl _) _ ht hs
      rw [List.take_append_drop] at htr
      generalize hk : pattern.length - (dropStars pattern).length = k at hsc hpd
      generalize hch : (dropStars pattern).take (scanLen os (dropStars pattern) false) = chunk at *
      generalize hre : (dropStars pattern).drop (scanLen os (dropStars pattern) false) = rest at *
      by_cases hcase : 0 < k ∧ chunk = []
      · obtain ⟨hkpos, hce⟩ := hcase
        have hp1 : dropStars pattern = [] := by
          cases hd : dropStars pattern with
          | nil => rfl
          | cons c l =>
            exfalso
            have hc := dropStars_head pattern c l hd
            have := scan_pos os c l (by simpa using hc) 0
            rw [hd] at hlen
            rw [hce] at hlen
            unfold scanLen at hlen
            simp only [List.length_nil] at hlen
            omega
        have hlen0 : (pattern.length == 0) = false := by
          cases pattern with
          | nil => exact absurd rfl hpne
          | cons c l => simp
        have hstar : (decide (0 < k) && chunk == []) = true := by simp [hkpos, hce]
        simp only [matchLoop, hlen0, Bool.false_eq_true, if_false, hsc, hstar, if_true]
        intro _
        rw [hpd, hp1, parsePat_nil]
        obtain ⟨k', rfl⟩ : ∃ k', k = k' + 1 := ⟨k - 1, by omega⟩
        simp only [specOut, if_true, matchItems]
        rw [matchK_stars]
        have : matchK os List.isEmpty [] = List.isEmpty := rfl
        rw [this, starAny_isEmpty]
      · refine loop_step_sound fuel ih pattern name chunk rest k hpne hsc hcase ht hs hrl ?_ hns
        rw [hpd, htr]
        cases (parsePat os chunk).2 <;> simp

/-- Whatever the pattern and the name: when Match answers `true` or ErrBadPattern, so does the specification. -/
theorem pmatch_sound (pat name : Bytes) (h : Pos (pmatch os pat name)) :
    pmatch os pat name = specMatch os pat name :=
  matchLoop_sound _ pat name (by omega) h

/-! ### 18. The main theorems -/

theorem parse_some_iff (pat : Bytes) (items : List Item) :
    parse os pat = some items ↔ (parsePat os pat).2 = true ∧ (parsePat os pat).1 = items := by
  unfold parse
  split
  · rename_i h; simp [h]
  · rename_i h; simp [h]

theorem parse_none_iff (pat : Bytes) : parse os pat = none ↔ (parsePat os pat).2 = false := by
  unfold parse
  split
  · rename_i h; simp [h]
  · rename_i h; simp [h]

theorem specMatch_ok_iff (pat name : Bytes) (b : Bool) :
    specMatch os pat name = .ok b ↔
      (∃ items, parse os pat = some items ∧ b = matchItems os items name) ∨
      (parse os pat = none ∧ b = false ∧ matchPrefix os (goodPrefix (parsePat os pat).1) name = false) := by
  unfold specMatch
  cases hok : (parsePat os pat).2 with
  | true =>
    simp only [if_true]
    constructor
    · intro h
      injection h with h
      exact Or.inl ⟨_, (parse_some_iff _ _).mpr ⟨hok, rfl⟩, h.symm⟩
    · rintro (⟨items, hp, hb⟩ | ⟨hp, _, _⟩)
      · obtain ⟨_, h2⟩ := (parse_some_iff _ _).mp hp
        rw [h2, hb]
      · rw [parse_none_iff, hok] at hp; cases hp
  | false =>
    simp only [Bool.false_eq_true, if_false]
    constructor
    · intro h
      right
      refine ⟨(parse_none_iff _).mpr hok, ?_⟩
      cases hm : matchPrefix os (goodPrefix (parsePat os pat).1) name with
      | true => simp [hm] at h
      | false =>
        simp only [hm, Bool.false_eq_true, if_false] at h
        injection h with h
        exact ⟨h.symm, rfl⟩
    · rintro (⟨items, hp, hb⟩ | ⟨hp, hb, hm⟩)
      · rw [parse_some_iff, hok] at hp; cases hp.1
      · simp [hm, hb]

theorem specMatch_bad_iff (pat name : Bytes) :
    specMatch os pat name = .badPattern ↔
      parse os pat = none ∧ matchPrefix os (goodPrefix (parsePat os pat).1) name = true := by
  unfold specMatch
  rw [parse_none_iff]
  cases hok : (parsePat os pat).2 with
  | true => simp
  | false =>
    cases hm : matchPrefix os (goodPrefix (parsePat os pat).1) name <;> simp [hm]

/-- MAIN THEOREM (`pmatch_eq_spec`).  Under `Safe`, Match on Linux answers `b` without error iff either the pattern
    is well-formed and b says whether its items match the name, or the pattern is malformed, b = false and the
    matching does not reach the malformed chunk. -/
theorem pmatch_eq_spec (pat name : Bytes) (hs : Safe os (parsePat os pat).1 name) (b : Bool) :
    pmatch os pat name = .ok b ↔
      (∃ items, parse os pat = some items ∧ b = matchItems os items name) ∨
      (parse os pat = none ∧ b = false ∧ matchPrefix os (goodPrefix (parsePat os pat).1) name = false) := by
  rw [pmatch_eq_specMatch pat name hs]
  exact specMatch_ok_iff pat name b

/-- … and reports ErrBadPattern iff the pattern is malformed and the items up to the last star before the
    error match a prefix of the name. -/
theorem pmatch_bad_iff (pat name : Bytes) (hs : Safe os (parsePat os pat).1 name) :
    pmatch os pat name = .badPattern ↔
      parse os pat = none ∧ matchPrefix os (goodPrefix (parsePat os pat).1) name = true := by
  rw [pmatch_eq_specMatch pat name hs]
  exact specMatch_bad_iff pat name

/-- a well-formed pattern: Match = the declarative semantics -/
theorem pmatch_wf (pat name : Bytes) (items : List Item) (hp : parse os pat = some items) (hs : Safe os items name) :
    pmatch os pat name = .ok (matchItems os items name) := by
  obtain ⟨h1, h2⟩ := (parse_some_iff _ _).mp hp
  rw [pmatch_eq_specMatch pat name (by rw [h2]; exact hs)]
  unfold specMatch
  rw [h1, h2]; rfl

theorem pmatch_true_iff (pat name : Bytes) (items : List Item) (hp : parse os pat = some items)
    (hs : Safe os items name) : pmatch os pat name = .ok true ↔ Matches os items name := by
  rw [pmatch_wf pat name items hp hs, ← matchItems_iff]
  constructor
  · intro h; injection h
  · intro h; rw [h]

/-- Without hypothesis: `true` is always right. -/
theorem pmatch_true_sound (pat name : Bytes) (h : pmatch os pat name = .ok true) :
    ∃ items, parse os pat = some items ∧ Matches os items name := by
  have := pmatch_sound pat name (Or.inl h)
  rw [h] at this
  rcases (specMatch_ok_iff pat name true).mp this.symm with ⟨items, hp, hb⟩ | ⟨_, hb, _⟩
  · exact ⟨items, hp, (matchItems_iff _ _).mp hb.symm⟩
  · cases hb

/-- Without hypothesis: ErrBadPattern is always right. -/
theorem pmatch_bad_sound (pat name : Bytes) (h : pmatch os pat name = .badPattern) :
    parse os pat = none ∧ MatchesPrefix os (goodPrefix (parsePat os pat).1) name := by
  have := pmatch_sound pat name (Or.inr h)
  rw [h] at this
  obtain ⟨h1, h2⟩ := (specMatch_bad_iff pat name).mp this.symm
  exact ⟨h1, (matchPrefix_iff _ _).mp h2⟩

/-- a well-formed pattern is never reported as bad -/
theorem pmatch_wf_not_bad (pat name : Bytes) (items : List Item) (hp : parse os pat = some items) :
    pmatch os pat name ≠ .badPattern := by
  intro h
  have := (pmatch_bad_sound pat name h).1
  rw [hp] at this; cases this

/-! ### 19. The hypothesis `Safe` cannot be dropped: kernel-checked witnesses -/

/-- a class may match the separator: Match("[^a]", "/") = true -/
theorem class_matches_sep : pmatch .linux [LB, CARET, 97, RB] [SL] = .ok true := by decide +kernel

/-- `*[^a]*` against "b/": the class can match '/', the declarative semantics says `true`
    (star = "b", class = "/", star = ""), Match commits the class to "b" and answers `false`. -/
theorem needSafe_class_sep :
    pmatch .linux [STAR, LB, CARET, 97, RB, STAR] [98, SL] = .ok false ∧
    specMatch .linux [STAR, LB, CARET, 97, RB, STAR] [98, SL] = .ok true ∧
    ¬ Safe .linux (parsePat .linux [STAR, LB, CARET, 97, RB, STAR]).1 [98, SL] := by decide +kernel

/-- `*?*?` against "€" (E2 82 AC): byte-wise the name can be split (star = E2, ? = 82, star = "", ? = AC);
    Match commits the first `?` to the whole three-byte rune and answers `false`. -/
theorem needSafe_wide_rune :
    pmatch .linux [STAR, QM, STAR, QM] [0xE2, 0x82, 0xAC] = .ok false ∧
    specMatch .linux [STAR, QM, STAR, QM] [0xE2, 0x82, 0xAC] = .ok true ∧
    ¬ Safe .linux (parsePat .linux [STAR, QM, STAR, QM]).1 [0xE2, 0x82, 0xAC] := by decide +kernel

/-- the same effect hides a malformed pattern: `*?*?*[` against "€" -/
theorem needSafe_wide_rune_bad :
    pmatch .linux [STAR, QM, STAR, QM, STAR, LB] [0xE2, 0x82, 0xAC] = .ok false ∧
    specMatch .linux [STAR, QM, STAR, QM, STAR, LB] [0xE2, 0x82, 0xAC] = .badPattern := by decide +kernel

/-- the same on Windows (separator '\\', no escape): `[^a]` matches "\\"; `*[^a]*` against "b\\" -/
theorem class_matches_sep_windows : pmatch .windows [LB, CARET, 97, RB] [BS] = .ok true := by decide +kernel

theorem needSafe_class_sep_windows :
    pmatch .windows [STAR, LB, CARET, 97, RB, STAR] [98, BS] = .ok false ∧
    specMatch .windows [STAR, LB, CARET, 97, RB, STAR] [98, BS] = .ok true ∧
    ¬ Safe .windows (parsePat .windows [STAR, LB, CARET, 97, RB, STAR]).1 [98, BS] := by decide +kernel

end MatchSpec
end Avfs.Path
