import Avfs.FS.FileSpec
/-
  C02: whole histories of data-path operations on several handles of one file refine the POSIX-style reference.
-/
namespace Avfs.FS
open Avfs.Path

theorem filterMap_range_eq_map {α} (g : Nat → Option α) (d : α) (n : Nat) (h : ∀ i, i < n → (g i).isSome) :
    (List.range n).filterMap g = (List.range n).map fun i => (g i).getD d := by
  induction n with
  | zero => simp
  | succ n ih =>
    have h1 := ih (fun i hi => h i (by omega))
    have h2 := h n (by omega)
    rw [List.range_succ, List.filterMap_append, List.map_append, h1]
    cases hg : g n with
    | none => simp [hg] at h2
    | some x => simp [hg]

theorem writtenByte_isSome (f : Bytes) (off : Nat) (b : Bytes) (i : Nat) (hi : i < max f.length (off + b.length)) :
    (writtenByte f off b i).isSome := by
  unfold writtenByte
  split
  · rename_i h; rw [List.getElem?_eq_getElem (by omega)]; rfl
  · split
    · rename_i h; rw [List.getElem?_eq_getElem h]; rfl
    · split
      · rfl
      · omega

theorem writtenByte_none (f : Bytes) (off : Nat) (b : Bytes) (i : Nat) (hi : max f.length (off + b.length) ≤ i) :
    writtenByte f off b i = none := by
  unfold writtenByte
  rw [if_neg (by omega), if_neg (by omega), if_neg (by omega)]

/-- the length of the reference write -/
theorem refPwrite_length (f : Bytes) (off : Nat) (b : Bytes) (hb : b ≠ []) :
    (refPwrite f off b).length = max f.length (off + b.length) := by
  unfold refPwrite
  have : b.isEmpty = false := by cases b <;> simp_all
  rw [this]; simp only [Bool.false_eq_true, if_false]
  rw [filterMap_range_eq_map _ 0 _ (writtenByte_isSome f off b)]
  simp

/-- pointwise characterisation of the reference write (what `refPwrite` is meant to be) -/
theorem refPwrite_getElem? (f : Bytes) (off : Nat) (b : Bytes) (hb : b ≠ []) (i : Nat) :
    (refPwrite f off b)[i]? = writtenByte f off b i := by
  unfold refPwrite
  have : b.isEmpty = false := by cases b <;> simp_all
  rw [this]; simp only [Bool.false_eq_true, if_false]
  rw [filterMap_range_eq_map _ 0 _ (writtenByte_isSome f off b)]
  by_cases hi : i < max f.length (off + b.length)
  · have := writtenByte_isSome f off b i hi
    rw [List.getElem?_map, List.getElem?_range hi]
    cases hw : writtenByte f off b i with
    | none => simp [hw] at this
    | some x => simp [hw]
  · rw [writtenByte_none f off b i (by omega)]
    simp; omega

/-- the list surgery of the model's write is the pointwise reference -/
theorem writeData_eq_refPwrite (f : Bytes) (off : Nat) (b : Bytes) : writeData f off b = refPwrite f off b := by
  by_cases hb : b = []
  · subst hb; simp [writeData, refPwrite]
  apply List.ext_getElem?
  intro i
  rw [refPwrite_getElem? f off b hb]
  have hbe : b.isEmpty = false := by cases b <;> simp_all
  have hbl : 0 < b.length := by cases b <;> simp_all
  unfold writeData writtenByte
  rw [hbe]; simp only [Bool.false_eq_true, if_false]
  by_cases hp : off > f.length
  · simp only [hp, if_true]
    simp only [List.getElem?_append, List.getElem?_take, List.getElem?_drop, List.getElem?_replicate, List.length_append, List.length_take, List.length_replicate]
    repeat' split
    all_goals first | omega | rfl | (congr 1; omega) | (apply List.getElem?_eq_none; omega) | (symm; apply List.getElem?_eq_none; omega) | skip
  · simp only [hp, if_false]
    simp only [List.getElem?_append, List.getElem?_take, List.getElem?_drop, List.length_append, List.length_take]
    repeat' split
    all_goals first | omega | rfl | (congr 1; omega) | (apply List.getElem?_eq_none; omega) | (symm; apply List.getElem?_eq_none; omega) | skip

theorem truncData_eq_refTruncate (f : Bytes) (n : Nat) : truncData f n = refTruncate f n := by
  unfold truncData refTruncate
  by_cases hn : n = 0
  · subst hn; simp
  · have : (n == 0) = false := by simp [hn]
    rw [this]; simp only [Bool.false_eq_true, if_false]
    apply List.ext_getElem?
    intro i
    rw [List.getElem?_map]
    by_cases hi : i < n
    · rw [List.getElem?_range hi]
      split
      · rw [List.getElem?_append, List.getElem?_replicate]
        repeat' split
        all_goals first | omega | skip
        · rename_i h; simp [List.getElem?_eq_getElem h]
        · rename_i h _; simp [List.getElem?_eq_none (Nat.le_of_not_lt h)]
      · rw [List.getElem?_take, if_pos hi]
        have : i < f.length := by omega
        simp [List.getElem?_eq_getElem this]
    · have h1 : (List.range n)[i]? = none := by apply List.getElem?_eq_none; simp; omega
      rw [h1]
      split
      · simp; omega
      · simp; omega

theorem refPread_eq (f : Bytes) (n off : Nat) : refPread f n off = (f.drop off).take (min n (f.length - off)) := by
  unfold refPread
  rw [filterMap_range_eq_map _ 0]
  · apply List.ext_getElem?
    intro i
    rw [List.getElem?_map, List.getElem?_take, List.getElem?_drop]
    by_cases hi : i < min n (f.length - off)
    · rw [List.getElem?_range hi, if_pos hi]
      have : off + i < f.length := by omega
      simp [List.getElem?_eq_getElem this]
    · rw [if_neg hi]
      have h1 : (List.range (min n (f.length - off)))[i]? = none := by apply List.getElem?_eq_none; simp; omega
      rw [h1]; rfl
  · intro i hi
    have : off + i < f.length := by omega
    simp [List.getElem?_eq_getElem this]

theorem refPread_length (f : Bytes) (n off : Nat) : (refPread f n off).length = min n (f.length - off) := by
  rw [refPread_eq]; simp


theorem fileData_some {s : Store} {i : Ino} {f : Bytes} (hf : s.fileData i = some f) :
    ∃ m nl id, s.get i = some (.file m f nl id) := by
  unfold Store.fileData at hf
  split at hf
  · rename_i m d nl id hg
    simp at hf; subst hf; exact ⟨m, nl, id, hg⟩
  · simp at hf

theorem fileData_set (s : Store) (i : Ino) (m : Meta) (f : Bytes) (nl : Int) (id : Nat) :
    (s.set i (.file m f nl id)).fileData i = some f := by
  simp [Store.fileData, Store.set, Store.get]

theorem fsp_get_set_ne (s : Store) (i j : Ino) (n : Node) (h : j ≠ i) : (s.set i n).get j = s.get j := by
  simp [Store.set, Store.get, AL.lookup_insert_ne _ _ (Ne.symm h)]

theorem fsp_name_isEmpty_false {b : Bytes} (h : b ≠ []) : b.isEmpty = false := by cases b <;> simp_all

def StepOK (s : Store) (v : View) (h : Handle) (i : Ino) (f : Bytes) (d : FDesc) (op : IOp) : Prop :=
    (fileStep s v h op.toFOp).2.2.2 = (refStep f d op).2.2 ∧
    (fileStep s v h op.toFOp).1.fileData i = some (refStep f d op).1 ∧
    (fileStep s v h op.toFOp).2.2.1.repr i (refStep f d op).2.1 ∧
    (∀ j, j ≠ i → (fileStep s v h op.toFOp).1.get j = s.get j)

theorem step_read (s : Store) (v : View) (h : Handle) (i : Ino) (f : Bytes) (d : FDesc) (n : Nat)
    (hr : h.repr i d) (hf : s.fileData i = some f) : StepOK s v h i f d (.read n) := by
  obtain ⟨m, nl, id, hg⟩ := fileData_some hf
  have hr' := hr
  obtain ⟨h1, h2, h3, h4, h5, h6, h7⟩ := hr
  have hne := fsp_name_isEmpty_false h2
  unfold StepOK
  simp only [IOp.toFOp, fileStep, refStep, hne, h1, hg, Bool.false_eq_true, if_false]
  by_cases hrd : h.om &&& omRead = 0
  · have : d.rd = false := by rw [h5]; simp [hrd]
    simp [hrd, this, hf, hr']
  · have : d.rd = true := by rw [h5]; simp [hrd]
    have hav : (if h.pos.toNat ≥ f.length then 0 else f.length - h.pos.toNat) = f.length - h.pos.toNat := by
      split <;> omega
    have hlen := refPread_length f n h.pos.toNat
    have heq := refPread_eq f n h.pos.toNat
    simp only [this, ← h3, hav, ← heq]
    simp only [← hlen]
    generalize refPread f n h.pos.toNat = bs
    have hrd' : (h.om &&& omRead == 0) = false := by simp [hrd]
    simp only [hrd', Bool.not_true, Bool.false_eq_true, if_false]
    cases bs with
    | nil =>
      by_cases hn : n = 0
      · subst hn; simp [hf, Handle.repr, h2, h4, h6, h7, hrd]
      · simp [hn, hf, hr']
    | cons x xs =>
      simp [hf, Handle.repr, h2, h6, h7, hrd]
      omega


theorem step_pread (s : Store) (v : View) (h : Handle) (i : Ino) (f : Bytes) (d : FDesc) (n : Nat) (off : Int)
    (hr : h.repr i d) (hf : s.fileData i = some f) : StepOK s v h i f d (.pread n off) := by
  obtain ⟨m, nl, id, hg⟩ := fileData_some hf
  have hr' := hr
  obtain ⟨h1, h2, h3, h4, h5, h6, h7⟩ := hr
  have hne := fsp_name_isEmpty_false h2
  unfold StepOK
  simp only [IOp.toFOp, fileStep, refStep, hne, h1, hg, Bool.false_eq_true, if_false]
  by_cases hoff : off < 0
  · simp [hoff, hf, hr']
  simp only [hoff, if_false]
  by_cases hrd : h.om &&& omRead = 0
  · have : d.rd = false := by rw [h5]; simp [hrd]
    simp [hrd, this, hf, hr']
  have : d.rd = true := by rw [h5]; simp [hrd]
  have hrd' : (h.om &&& omRead == 0) = false := by simp [hrd]
  simp only [this, hrd', Bool.not_true, Bool.false_eq_true, if_false]
  by_cases hn : n = 0
  · simp [hn, hf, hr']
  have hn' : (n == 0) = false := by simp [hn]
  simp only [hn', Bool.false_eq_true, if_false]
  have hlen := refPread_length f n off.toNat
  have heq := refPread_eq f n off.toNat
  simp only [← heq]
  simp only [← hlen]
  by_cases hgt : off.toNat > f.length
  · have h0 : refPread f n off.toNat = [] := by
      apply List.eq_nil_of_length_eq_zero; rw [hlen]; omega
    have hn0 : 0 < n := by omega
    simp [hgt, h0, hn0, hf, hr']
  simp only [hgt, if_false]
  generalize refPread f n off.toNat = bs
  by_cases hlt : bs.length < n
  · simp [hlt, hf, hr']
  · simp [hlt, hf, hr']


theorem step_write (s : Store) (v : View) (h : Handle) (i : Ino) (f : Bytes) (d : FDesc) (b : Bytes)
    (hr : h.repr i d) (hf : s.fileData i = some f) : StepOK s v h i f d (.write b) := by
  obtain ⟨m, nl, id, hg⟩ := fileData_some hf
  have hr' := hr
  obtain ⟨h1, h2, h3, h4, h5, h6, h7⟩ := hr
  have hne := fsp_name_isEmpty_false h2
  unfold StepOK
  simp only [IOp.toFOp, fileStep, refStep, hne, h1, hg, Bool.false_eq_true, if_false]
  by_cases hwr : h.om &&& omWrite = 0
  · have : d.wr = false := by rw [h6]; simp [hwr]
    simp [hwr, this, hf, hr']
  have : d.wr = true := by rw [h6]; simp [hwr]
  have hwr' : (h.om &&& omWrite == 0) = false := by simp [hwr]
  simp only [this, hwr', Bool.not_true, Bool.false_eq_true, if_false]
  by_cases hb : b = []
  · simp [hb, hf, hr']
  have hb' := fsp_name_isEmpty_false hb
  simp only [hb', Bool.false_eq_true, if_false, writeData_eq_refPwrite]
  have hpos : (if (h.om &&& omAppend != 0) = true then f.length else h.pos.toNat) =
      (if d.app = true then f.length else d.off.toNat) := by rw [h7, h3]
  rw [hpos]
  by_cases hmax : (if d.app = true then f.length else d.off.toNat) + b.length > maxFileSize
  · simp only [hmax, if_true]
    exact ⟨trivial, hf, hr', fun _ _ => trivial⟩
  simp only [hmax, if_false]
  refine ⟨trivial, fileData_set _ _ _ _ _ _, ?_, fun j hj => fsp_get_set_ne _ _ _ _ hj⟩
  simp [Handle.repr, h2, h5, h7, hwr]
  omega

theorem step_pwrite (s : Store) (v : View) (h : Handle) (i : Ino) (f : Bytes) (d : FDesc) (b : Bytes) (off : Int)
    (hr : h.repr i d) (hf : s.fileData i = some f) : StepOK s v h i f d (.pwrite b off) := by
  obtain ⟨m, nl, id, hg⟩ := fileData_some hf
  have hr' := hr
  obtain ⟨h1, h2, h3, h4, h5, h6, h7⟩ := hr
  have hne := fsp_name_isEmpty_false h2
  unfold StepOK
  simp only [IOp.toFOp, fileStep, refStep, hne, h1, hg, Bool.false_eq_true, if_false]
  by_cases hoff : off < 0
  · simp [hoff, hf, hr']
  simp only [hoff, if_false]
  by_cases hwr : h.om &&& omWrite = 0
  · have : d.wr = false := by rw [h6]; simp [hwr]
    simp [hwr, this, hf, hr']
  have : d.wr = true := by rw [h6]; simp [hwr]
  have hwr' : (h.om &&& omWrite == 0) = false := by simp [hwr]
  simp only [this, hwr', Bool.not_true, Bool.false_eq_true, if_false]
  by_cases hb : b = []
  · simp [hb, hf, hr']
  have hb' := fsp_name_isEmpty_false hb
  simp only [hb', Bool.false_eq_true, if_false, writeData_eq_refPwrite]
  by_cases hmax : off.toNat + b.length > maxFileSize
  · simp only [hmax, if_true]
    exact ⟨trivial, hf, hr', fun _ _ => trivial⟩
  simp only [hmax, if_false]
  exact ⟨trivial, fileData_set _ _ _ _ _ _, hr', fun j hj => fsp_get_set_ne _ _ _ _ hj⟩

theorem step_ftruncate (s : Store) (v : View) (h : Handle) (i : Ino) (f : Bytes) (d : FDesc) (size : Int)
    (hr : h.repr i d) (hf : s.fileData i = some f) : StepOK s v h i f d (.ftruncate size) := by
  obtain ⟨m, nl, id, hg⟩ := fileData_some hf
  have hr' := hr
  obtain ⟨h1, h2, h3, h4, h5, h6, h7⟩ := hr
  have hne := fsp_name_isEmpty_false h2
  unfold StepOK
  simp only [IOp.toFOp, fileStep, refStep, hne, h1, hg, Bool.false_eq_true, if_false]
  by_cases hoff : (size < 0 || size > (maxFileSize : Int)) = true
  · simp only [hoff, if_true]
    exact ⟨trivial, hf, hr', fun _ _ => trivial⟩
  simp only [hoff, Bool.false_eq_true, if_false]
  by_cases hwr : h.om &&& omWrite = 0
  · have : d.wr = false := by rw [h6]; simp [hwr]
    simp [hwr, this, hf, hr']
  have : d.wr = true := by rw [h6]; simp [hwr]
  have hwr' : (h.om &&& omWrite == 0) = false := by simp [hwr]
  simp only [this, hwr', Bool.not_true, Bool.false_eq_true, if_false, truncData_eq_refTruncate]
  exact ⟨trivial, fileData_set _ _ _ _ _ _, hr', fun j hj => fsp_get_set_ne _ _ _ _ hj⟩

theorem step_lseek (s : Store) (v : View) (h : Handle) (i : Ino) (f : Bytes) (d : FDesc) (off whence : Int)
    (hr : h.repr i d) (hf : s.fileData i = some f) : StepOK s v h i f d (.lseek off whence) := by
  obtain ⟨m, nl, id, hg⟩ := fileData_some hf
  have hr' := hr
  obtain ⟨h1, h2, h3, h4, h5, h6, h7⟩ := hr
  have hne := fsp_name_isEmpty_false h2
  unfold StepOK
  simp only [IOp.toFOp, fileStep, refStep, hne, h1, hg, Bool.false_eq_true, if_false]
  by_cases hw0 : whence = 0
  · subst hw0
    by_cases ho : (off < 0 || off > 9223372036854775807) = true
    · simp [ho, hf, hr']
    · simp [ho, hf, Handle.repr, h2, h5, h6, h7]
      simp at ho; omega
  by_cases hw1 : whence = 1
  · subst hw1
    by_cases ho : (h.pos + off < 0 || h.pos + off > 9223372036854775807) = true
    · simp [ho, hf, hr', ← h3]
    · simp [ho, hf, Handle.repr, h2, h5, h6, h7, ← h3]
      simp at ho; omega
  by_cases hw2 : whence = 2
  · subst hw2
    by_cases ho : ((f.length : Int) + off < 0 || (f.length : Int) + off > 9223372036854775807) = true
    · simp [ho, hf, hr']
    · simp [ho, hf, Handle.repr, h2, h5, h6, h7]
      simp at ho; omega
  simp [hw0, hw1, hw2, hf, hr']


/-- one operation -/
theorem fileStep_refines (s : Store) (v : View) (h : Handle) (i : Ino) (f : Bytes) (d : FDesc) (op : IOp)
    (hr : h.repr i d) (hf : s.fileData i = some f) :
    let r := fileStep s v h op.toFOp
    let q := refStep f d op
    r.2.2.2 = q.2.2 ∧ r.1.fileData i = some q.1 ∧ r.2.2.1.repr i q.2.1 ∧
    (∀ j, j ≠ i → r.1.get j = s.get j) := by
  intro r q
  show StepOK s v h i f d op
  cases op with
  | read n => exact step_read s v h i f d n hr hf
  | pread n off => exact step_pread s v h i f d n off hr hf
  | write b => exact step_write s v h i f d b hr hf
  | pwrite b off => exact step_pwrite s v h i f d b off hr hf
  | lseek off w => exact step_lseek s v h i f d off w hr hf
  | ftruncate n => exact step_ftruncate s v h i f d n hr hf

/-- every history, any number of handles on the file, any length: same results, same final content, same offsets -/
theorem history_refines (s : Store) (v : View) (i : Ino) (f : Bytes) (hs : List Handle) (ds : List FDesc)
    (ops : List (Nat × IOp)) (hlen : hs.length = ds.length)
    (hr : ∀ (k : Nat) (h : Handle) (d : FDesc), hs[k]? = some h → ds[k]? = some d → h.repr i d) (hf : s.fileData i = some f) :
    (modelRun s v hs ops).2.2 = (refRun f ds ops).2.2 ∧
    (modelRun s v hs ops).1.fileData i = some (refRun f ds ops).1 ∧
    (modelRun s v hs ops).2.1.length = (refRun f ds ops).2.1.length ∧
    (∀ (k : Nat) (h : Handle) (d : FDesc), (modelRun s v hs ops).2.1[k]? = some h → (refRun f ds ops).2.1[k]? = some d → h.repr i d) := by
  induction ops generalizing s f hs ds with
  | nil => exact ⟨rfl, hf, hlen, hr⟩
  | cons p rest ih =>
    obtain ⟨k, op⟩ := p
    by_cases hk : k < hs.length
    · have hk' : k < ds.length := by omega
      have e1 : hs[k]? = some hs[k] := List.getElem?_eq_getElem hk
      have e2 : ds[k]? = some ds[k] := List.getElem?_eq_getElem hk'
      have hrep := hr k _ _ e1 e2
      obtain ⟨a1, a2, a3, a4⟩ := fileStep_refines s v hs[k] i f ds[k] op hrep hf
      simp only [modelRun, refRun, e1, e2]
      have := ih (fileStep s v hs[k] op.toFOp).1 (refStep f ds[k] op).1
        (hs.set k (fileStep s v hs[k] op.toFOp).2.2.1) (ds.set k (refStep f ds[k] op).2.1)
        (by simp [hlen]) ?_ a2
      · obtain ⟨b1, b2, b3, b4⟩ := this
        refine ⟨?_, b2, b3, b4⟩
        simp [a1, b1]
      · intro j h' d' g1 g2
        rw [List.getElem?_set] at g1 g2
        by_cases hj : k = j
        · subst hj
          simp [hk, hk'] at g1 g2
          subst g1; subst g2; exact a3
        · simp [hj] at g1 g2
          exact hr j h' d' g1 g2
    · have e1 : hs[k]? = none := List.getElem?_eq_none (by omega)
      have e2 : ds[k]? = none := List.getElem?_eq_none (by omega)
      simp only [modelRun, refRun, e1, e2]
      exact ih s f hs ds hlen hr hf

end Avfs.FS
