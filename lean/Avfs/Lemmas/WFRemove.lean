import Avfs.FS.SearchSpec
import Avfs.Lemmas.HeapR
/-
  The attribute-changing, removing and moving calls of the MemFS model preserve the tree invariant `WF` (C05).
-/
namespace Avfs.FS
open Avfs.Path

/-! ### generic transfer lemmas -/

/-- the fields of `WF` that only depend on the shape of the heap; the others are stated over the new entries -/
theorem wfr_mk_of_shape {s s' : Store} {root : Ino} {δ : Ino → Int} (hwf : WF s root) (hsh : HrShape s s' δ)
    (hrnp : ∀ d n, ¬ Edge s' d n root)
    (halloc : ∀ d n c, Edge s' d n c → (s.get c).isSome = true)
    (hdepth : ∃ depth : Ino → Nat, ∀ d n c, Edge s' d n c → isDirAt s c = true → depth c = depth d + 1)
    (huniq : ∀ d n d' n' c, Edge s' d n c → Edge s' d' n' c → isDirAt s c = true → d = d' ∧ n = n')
    (hatt : ∀ d n c, Edge s' d n c → d = root ∨ ∃ p pn, Edge s' p pn d)
    (hnl : ∀ i m d nl id, s'.get i = some (.file m d nl id) → nl = (linkCount s' i : Int)) : WF s' root where
  rootDir := by rw [hsh.isDir]; exact hwf.rootDir
  rootNoParent := hrnp
  alloc := fun d n c h => by rw [hsh.dom]; exact halloc d n c h
  bound := fun i h => by rw [hsh.next]; rw [hsh.dom] at h; exact hwf.bound i h
  depth := by
    obtain ⟨dp, h⟩ := hdepth
    exact ⟨dp, fun d n c he hd => h d n c he (by rw [← hsh.isDir]; exact hd)⟩
  uniqueParent := fun d n d' n' c h1 h2 hd => huniq d n d' n' c h1 h2 (by rw [← hsh.isDir]; exact hd)
  attached := hatt
  nlink := hnl
  ids := by
    intro i j m d nl id m' d' nl' h1 h2
    obtain ⟨_, _, g1⟩ := hsh.file h1
    obtain ⟨_, _, g2⟩ := hsh.file h2
    exact hwf.ids _ _ _ _ _ _ _ _ _ g1 g2
  idBound := by
    intro i m d nl id h1
    obtain ⟨_, _, g1⟩ := hsh.file h1
    rw [hsh.lastId]
    exact hwf.idBound _ _ _ _ _ g1

/-- no entry changes -/
theorem wfr_same_edges {s s' : Store} {root : Ino} (hwf : WF s root) (hsh : HrShape s s' (fun _ => 0))
    (hch : ∀ d n, s'.child d n = s.child d n) : WF s' root := by
  have hE : ∀ d n c, Edge s' d n c ↔ Edge s d n c := fun d n c => by simp [Edge, hch]
  apply wfr_mk_of_shape hwf hsh
  · intro d n h; exact hwf.rootNoParent d n ((hE _ _ _).1 h)
  · intro d n c h; exact hwf.alloc d n c ((hE _ _ _).1 h)
  · obtain ⟨dp, h⟩ := hwf.depth
    exact ⟨dp, fun d n c he hd => h d n c ((hE _ _ _).1 he) hd⟩
  · intro d n d' n' c h1 h2 hd
    exact hwf.uniqueParent d n d' n' c ((hE _ _ _).1 h1) ((hE _ _ _).1 h2) hd
  · intro d n c h
    rcases hwf.attached d n c ((hE _ _ _).1 h) with h | ⟨p, pn, h⟩
    · exact Or.inl h
    · exact Or.inr ⟨p, pn, (hE _ _ _).2 h⟩
  · intro i m d nl id hg
    obtain ⟨m0, d0, g⟩ := hsh.file hg
    rw [hr_linkCount_congr s s' i hsh.dom hch]
    have := hwf.nlink _ _ _ _ _ g
    omega

/-- the entry `n0` of `d0`, which points at a node `c0` without entries, is removed and `c0` released -/
theorem wf_unlink {s s' : Store} {root d0 c0 : Ino} {n0 : Bytes} {δ : Ino → Int} (hwf : WF s root)
    (hsh : HrShape s s' δ) (hδ : ∀ j, δ j = if j = c0 then 1 else 0)
    (hch : ∀ d n, s'.child d n = if d = d0 ∧ n = n0 then none else s.child d n)
    (he : Edge s d0 n0 c0) (hempty : ∀ n x, ¬ Edge s c0 n x) : WF s' root := by
  have hE : ∀ d n c, Edge s' d n c ↔ (¬ (d = d0 ∧ n = n0) ∧ Edge s d n c) := by
    intro d n c
    unfold Edge
    rw [hch]
    by_cases h : d = d0 ∧ n = n0 <;> simp [h]
  apply wfr_mk_of_shape hwf hsh
  · intro d n h; exact hwf.rootNoParent d n ((hE _ _ _).1 h).2
  · intro d n c h; exact hwf.alloc d n c ((hE _ _ _).1 h).2
  · obtain ⟨dp, h⟩ := hwf.depth
    exact ⟨dp, fun d n c he hd => h d n c ((hE _ _ _).1 he).2 hd⟩
  · intro d n d' n' c h1 h2 hd
    exact hwf.uniqueParent d n d' n' c ((hE _ _ _).1 h1).2 ((hE _ _ _).1 h2).2 hd
  · intro d n c h
    have h' := ((hE _ _ _).1 h).2
    rcases hwf.attached d n c h' with h | ⟨p, pn, hp⟩
    · exact Or.inl h
    · refine Or.inr ⟨p, pn, (hE _ _ _).2 ⟨?_, hp⟩⟩
      rintro ⟨rfl, rfl⟩
      have : c0 = d := by
        have := he.symm.trans hp
        simpa using this
      subst this
      exact hempty _ _ h'
  · intro i m d nl id hg
    obtain ⟨m0, dd, g⟩ := hsh.file hg
    have h1 := hwf.nlink _ _ _ _ _ g
    have h2 := hr_linkCount_delta s s' i d0 n0 hsh.dom (fun d n h => by rw [hch]; simp [h])
    rw [hch, he] at h2
    simp only [and_self, if_true] at h2
    rw [hδ] at h1
    by_cases hi : i = c0
    · subst hi
      simp [hr_b2n] at h2 h1
      omega
    · have : ¬ c0 = i := fun e => hi e.symm
      simp [hr_b2n, hi, this] at h2 h1
      omega


/-! ### attribute and content changes -/

def hr_nodeCh : Node → List (Bytes × Ino)
  | .dir _ ch => ch
  | _ => []

theorem hr_child_set_keep {s : Store} {i : Ino} {n n' : Node} (hg : s.get i = some n) (hk : hr_nodeCh n' = hr_nodeCh n)
    (d : Ino) (nm : Bytes) : (s.set i n').child d nm = s.child d nm := by
  unfold Store.child
  rw [hr_children_set]
  by_cases h : i = d
  · subst h
    simp only [if_true]
    have : s.children i = hr_nodeCh n := by
      unfold Store.children; rw [hg]; cases n <;> rfl
    rw [this, ← hk]; cases n' <;> rfl
  · simp [h]

theorem wfr_set_keep {s : Store} {root i : Ino} {n n' : Node} (hwf : WF s root) (hg : s.get i = some n)
    (hr : hr_nodeRel 0 n n') (hk : hr_nodeCh n' = hr_nodeCh n) : WF (s.set i n') root :=
  wfr_same_edges hwf (HrShape.set0 hg hr) (hr_child_set_keep hg hk)

theorem wf_set_meta (s : Store) (root i : Ino) (n : Node) (m : Meta) (hwf : WF s root) (hg : s.get i = some n) :
    WF (s.set i (n.setMeta m)) root := by
  apply wfr_set_keep hwf hg <;> cases n <;> simp [Node.setMeta, hr_nodeRel, hr_nodeCh]

theorem wf_set_data (s : Store) (root i : Ino) (m m' : Meta) (d d' : Bytes) (nl : Int) (id : Nat) (hwf : WF s root)
    (hg : s.get i = some (.file m d nl id)) : WF (s.set i (.file m' d' nl id)) root := by
  apply wfr_set_keep hwf hg <;> simp [hr_nodeRel, hr_nodeCh]

theorem hr_setMode_eq {n n' : Node} {mode : Nat} {v : View} (h : setMode n mode v = some n') :
    ∃ m, n' = n.setMeta m := by
  unfold setMode at h
  split at h
  · cases h
  · dsimp only at h
    split at h
    · cases h
    · exact ⟨_, (Option.some.inj h).symm⟩

theorem wf_truncate (s : Store) (root : Ino) (v : View) (p : Bytes) (size : Int) (hwf : WF s root) :
    WF (truncate s v p size).1 root := by
  unfold truncate
  dsimp only
  repeat' split
  all_goals first | exact hwf | (apply wf_set_data <;> assumption)

theorem wf_chmod (s : Store) (root : Ino) (v : View) (p : Bytes) (mode : Nat) (hwf : WF s root) :
    WF (chmod s v p mode).1 root := by
  unfold chmod
  dsimp only
  repeat' split
  all_goals first | exact hwf | skip
  rename_i hm
  obtain ⟨m, rfl⟩ := hr_setMode_eq hm
  apply wf_set_meta <;> assumption

theorem wf_chown (s : Store) (root : Ino) (v : View) (p : Bytes) (uid gid : Int) (mode : SlMode) (hwf : WF s root) :
    WF (chown s v p uid gid mode).1 root := by
  unfold chown
  dsimp only
  repeat' split
  all_goals first | exact hwf | (apply wf_set_meta <;> assumption)

theorem wf_chtimes (s : Store) (root : Ino) (v : View) (p : Bytes) (t : Int) (hwf : WF s root) :
    WF (chtimes s v p t).1 root := by
  unfold chtimes
  dsimp only
  repeat' split
  all_goals first | exact hwf | (apply wf_set_meta <;> assumption)

theorem wf_fileStep (s : Store) (root : Ino) (v : View) (h : Handle) (op : FOp) (hwf : WF s root) :
    WF (fileStep s v h op).1 root := by
  cases op <;> unfold fileStep <;> dsimp only <;> repeat' split
  all_goals first | exact hwf | (apply wf_set_data <;> assumption) | (apply wf_set_meta <;> assumption) | skip
  rename_i hm
  obtain ⟨m, rfl⟩ := hr_setMode_eq hm
  apply wf_set_meta <;> assumption


/-! ### remove -/

theorem wf_unlink_dr {s : Store} {root d0 c0 : Ino} {n0 : Bytes} (hwf : WF s root) (he : Edge s d0 n0 c0)
    (hempty : ∀ n x, ¬ Edge s c0 n x) : WF (deleteNode (removeChild s d0 n0) c0) root := by
  apply wf_unlink hwf ((HrShape.removeChild s d0 n0).trans (HrShape.deleteNode _ c0)) (by intro j; simp) _ he hempty
  intro d n
  rw [hr_child_deleteNode, hr_child_removeChild]
  by_cases h : d = c0
  · subst h
    have : s.child d n = none := by
      cases hc : s.child d n with
      | none => rfl
      | some x => exact absurd hc (hempty n x)
    simp [this]
  · simp [h]

theorem wf_unlink_rd {s : Store} {root d0 c0 : Ino} {n0 : Bytes} (hwf : WF s root) (he : Edge s d0 n0 c0)
    (hempty : ∀ n x, ¬ Edge s c0 n x) : WF (removeChild (deleteNode s c0) d0 n0) root := by
  apply wf_unlink hwf ((HrShape.deleteNode s c0).trans (HrShape.removeChild _ d0 n0)) (by intro j; simp) _ he hempty
  intro d n
  rw [hr_child_removeChild, hr_child_deleteNode]
  by_cases h : d = c0
  · subst h
    have : s.child d n = none := by
      cases hc : s.child d n with
      | none => rfl
      | some x => exact absurd hc (hempty n x)
    simp [this]
  · simp [h]

theorem hr_no_edges_of_not_dir {s : Store} {c : Ino} (h : isDirAt s c = false) : ∀ n x, ¬ Edge s c n x := by
  intro n x he
  rw [hr_isDir_of_edge he] at h; cases h

theorem hr_no_edges_of_empty_dir {s : Store} {c : Ino} {m : Meta} {ch} (hg : s.get c = some (.dir m ch))
    (hlen : (alKeys ch).length = 0) : ∀ n x, ¬ Edge s c n x := by
  intro n x he
  have : n ∈ alKeys (s.children c) := by
    rw [hr_mem_keys_children]; unfold Edge at he; simp [he]
  rw [hr_children_of_dir hg] at this
  have : alKeys ch = [] := List.length_eq_zero_iff.1 hlen
  simp_all

theorem wf_remove' (s : Store) (root : Ino) (v : View) (p : Bytes) (hwf : WF s root) (hs : SearchOK s v) :
    WF (remove s v p).1 root := by
  unfold remove
  dsimp only
  split
  · rename_i c herr hchild
    split
    · exact hwf
    rename_i hne
    have hne' : c ≠ (searchNode s v p .lstat).parent := by simpa using hne
    have he := hs.existsEdge p .lstat c (by decide) herr hchild hne'
    split
    · exact hwf
    split
    · exact hwf
    split
    · rename_i m ch hg
      split
      · exact hwf
      rename_i hlen
      split
      · exact hwf
      exact wf_unlink_dr hwf he (hr_no_edges_of_empty_dir hg (by simpa using hlen))
    · rename_i n hnd hg
      split
      · exact hwf
      apply wf_unlink_dr hwf he (hr_no_edges_of_not_dir _)
      unfold isDirAt
      rw [hg]
      cases n <;> simp_all
    · exact hwf
  · exact hwf


/-! ### rename -/

/-- `d` is `a` or lies below `a` in the directory graph -/
inductive Desc (s : Store) (a : Ino) : Ino → Prop
  | refl : Desc s a a
  | step (d n c) : Desc s a d → Edge s d n c → Desc s a c

/-- what the string test of `rename` guarantees: when a directory is actually moved, its new parent is not inside it -/
def RenameSafe (s : Store) (v : View) (o n : Bytes) : Prop :=
  let ro := searchNode s v o .lstat; let rn := searchNode s v n .lstat
  ∀ oc, ro.child = some oc → isDirAt s oc = true →
    ¬ ((ro.pi.path ++ [Avfs.Path.SL]).isPrefixOf rn.pi.path = true) → oc ≠ ro.parent → ¬ Desc s oc rn.parent

open Classical in
/-- the entry `on` of `op` (pointing at `oc`) is moved to the name `nn` of `np`, where it replaces nothing or an entry
    pointing at a non-directory, which is released -/
theorem wf_move {s s' : Store} {root op np oc : Ino} {on nn : Bytes} {δ : Ino → Int} (hwf : WF s root)
    (hsh : HrShape s s' δ) (hδ : ∀ j, δ j = if s.child np nn = some j then 1 else 0)
    (hch : ∀ d n, s'.child d n =
      if d = op ∧ n = on then none else if d = np ∧ n = nn then some oc else s.child d n)
    (hne : ¬ (op = np ∧ on = nn)) (ho : Edge s op on oc) (hnpd : isDirAt s np = true)
    (hnpatt : np = root ∨ ∃ q qn, Edge s q qn np)
    (hold : ∀ nc, s.child np nn = some nc → isDirAt s nc = false)
    (hsafe : isDirAt s oc = true → ¬ Desc s oc np) : WF s' root := by
  have hE : ∀ d n c, Edge s' d n c ↔
      (¬ (d = op ∧ n = on) ∧ ((d = np ∧ n = nn ∧ c = oc) ∨ (¬ (d = np ∧ n = nn) ∧ Edge s d n c))) := by
    intro d n c
    unfold Edge
    rw [hch]
    by_cases h1 : d = op ∧ n = on
    · simp [h1]
    · by_cases h2 : d = np ∧ n = nn
      · obtain ⟨rfl, rfl⟩ := h2
        rw [if_neg h1, if_pos ⟨rfl, rfl⟩]
        constructor
        · intro h; exact ⟨h1, Or.inl ⟨rfl, rfl, (Option.some.inj h).symm⟩⟩
        · rintro ⟨_, h | h⟩
          · rw [h.2.2]
          · exact absurd ⟨rfl, rfl⟩ h.1
      · simp only [h1, h2, if_false]
        constructor
        · intro h; exact ⟨not_false, Or.inr ⟨not_false, h⟩⟩
        · rintro ⟨_, h | h⟩
          · exact absurd ⟨h.1, h.2.1⟩ h2
          · exact h.2
  have hnpoc : np ≠ oc := by
    intro e; subst e
    exact hsafe hnpd Desc.refl
  have hnew : Edge s' np nn oc := (hE _ _ _).2 ⟨fun h => hne ⟨h.1.symm, h.2.symm⟩, Or.inl ⟨rfl, rfl, rfl⟩⟩
  have hocroot : oc ≠ root := fun e => hwf.rootNoParent op on (e ▸ ho)
  -- an old entry pointing at the moved directory is the moved entry
  have honly : ∀ d n, isDirAt s oc = true → Edge s d n oc → d = op ∧ n = on :=
    fun d n hd h => hwf.uniqueParent d n op on oc h ho hd
  apply wfr_mk_of_shape hwf hsh
  · intro d n h
    rcases ((hE _ _ _).1 h).2 with h | h
    · exact hocroot h.2.2.symm
    · exact hwf.rootNoParent d n h.2
  · intro d n c h
    rcases ((hE _ _ _).1 h).2 with h | h
    · rw [h.2.2]; exact hwf.alloc _ _ _ ho
    · exact hwf.alloc d n c h.2
  · obtain ⟨dp, hdp⟩ := hwf.depth
    by_cases hocd : isDirAt s oc = true
    · refine ⟨fun x => if Desc s oc x then dp x + (dp np + 1) else dp x + dp oc, ?_⟩
      intro d n c h hcd
      obtain ⟨hn1, h | h⟩ := (hE _ _ _).1 h
      · obtain ⟨rfl, rfl, rfl⟩ := h
        simp only [Desc.refl, if_true, hsafe hocd, if_false]
        omega
      · have hiff : Desc s oc d ↔ Desc s oc c := by
          constructor
          · intro hd; exact Desc.step d n c hd h.2
          · intro hc
            cases hc with
            | refl => exact absurd (honly d n hocd h.2) hn1
            | step d2 n2 _ hd2 he2 =>
              have := (hwf.uniqueParent d n d2 n2 c h.2 he2 hcd).1
              rw [this]; exact hd2
        have := hdp d n c h.2 hcd
        by_cases hd : Desc s oc d
        · simp only [hd, hiff.1 hd, if_true]; omega
        · have hc : ¬ Desc s oc c := fun hc => hd (hiff.2 hc)
          simp only [hd, hc, if_false]; omega
    · refine ⟨dp, ?_⟩
      intro d n c h hcd
      rcases ((hE _ _ _).1 h).2 with h | h
      · rw [h.2.2] at hcd; exact absurd hcd hocd
      · exact hdp d n c h.2 hcd
  · intro d n d' n' c h1 h2 hcd
    obtain ⟨hn1, h1⟩ := (hE _ _ _).1 h1
    obtain ⟨hn2, h2⟩ := (hE _ _ _).1 h2
    rcases h1 with h1 | h1 <;> rcases h2 with h2 | h2
    · exact ⟨h1.1.trans h2.1.symm, h1.2.1.trans h2.2.1.symm⟩
    · obtain ⟨_, _, rfl⟩ := h1
      exact absurd (honly _ _ hcd h2.2) hn2
    · obtain ⟨_, _, rfl⟩ := h2
      exact absurd (honly _ _ hcd h1.2) hn1
    · exact hwf.uniqueParent d n d' n' c h1.2 h2.2 hcd
  · intro d n c h
    have keep : ∀ q qn, Edge s q qn d → isDirAt s d = true → d ≠ oc → Edge s' q qn d := by
      intro q qn hq hdd hdoc
      refine (hE _ _ _).2 ⟨?_, Or.inr ⟨?_, hq⟩⟩
      · rintro ⟨rfl, rfl⟩
        exact hdoc (Option.some.inj (hq.symm.trans ho))
      · rintro ⟨rfl, rfl⟩
        rw [hold d hq] at hdd; cases hdd
    rcases ((hE _ _ _).1 h).2 with h | h
    · obtain ⟨rfl, -, -⟩ := h
      rcases hnpatt with h | ⟨q, qn, hq⟩
      · exact Or.inl h
      · exact Or.inr ⟨q, qn, keep q qn hq hnpd hnpoc⟩
    · rcases hwf.attached d n c h.2 with h' | ⟨q, qn, hq⟩
      · exact Or.inl h'
      · by_cases hdoc : d = oc
        · subst hdoc; exact Or.inr ⟨np, nn, hnew⟩
        · exact Or.inr ⟨q, qn, keep q qn hq (hr_isDir_of_edge h.2) hdoc⟩
  · intro i m d nl id hg
    obtain ⟨m0, dd, g⟩ := hsh.file hg
    have h1 := hwf.nlink _ _ _ _ _ g
    let mid := addChild s np nn oc
    have hmid : ∀ d n, mid.child d n = if d = np ∧ n = nn then some oc else s.child d n :=
      fun d n => hr_child_addChild s np nn oc d n hnpd
    have hdm : ∀ j, (mid.get j).isSome = (s.get j).isSome := (HrShape.addChild s np nn oc).dom
    have d1 := hr_linkCount_delta s mid i np nn hdm (fun d n h => by rw [hmid]; simp [h])
    have d2 := hr_linkCount_delta mid s' i op on (fun j => by rw [hsh.dom, hdm])
      (fun d n h => by rw [hch, hmid]; simp [h])
    rw [hmid] at d1
    rw [hmid, hch] at d2
    have ho' : s.child op on = some oc := ho
    simp only [hne, and_self, if_true, if_false, ho'] at d1 d2
    rw [hδ] at h1
    by_cases hi : oc = i
    · subst hi
      by_cases hc : s.child np nn = some oc
      · simp [hr_b2n, hc] at d1 d2 h1; omega
      · simp [hr_b2n, hc] at d1 d2 h1; omega
    · by_cases hc : s.child np nn = some i
      · simp [hr_b2n, hc, hi] at d1 d2 h1; omega
      · simp [hr_b2n, hc, hi] at d1 d2 h1; omega

theorem wf_move_noent {s : Store} {root op np oc : Ino} {on nn : Bytes} (hwf : WF s root)
    (ho : Edge s op on oc) (hnone : s.child np nn = none) (hnpd : isDirAt s np = true)
    (hnpatt : np = root ∨ ∃ q qn, Edge s q qn np) (hsafe : isDirAt s oc = true → ¬ Desc s oc np) :
    WF (removeChild (addChild s np nn oc) op on) root := by
  apply wf_move (op := op) (np := np) (on := on) (nn := nn) (oc := oc) hwf ((HrShape.addChild s np nn oc).trans (HrShape.removeChild _ op on)) (by intro j; simp [hnone])
    _ _ ho hnpd hnpatt (by intro nc h; rw [hnone] at h; cases h) hsafe
  · intro d n
    rw [hr_child_removeChild, hr_child_addChild _ _ _ _ _ _ hnpd]
  · rintro ⟨rfl, rfl⟩
    rw [ho] at hnone; cases hnone

theorem wf_move_over {s : Store} {root op np oc nc : Ino} {on nn : Bytes} (hwf : WF s root)
    (ho : Edge s op on oc) (hn : Edge s np nn nc) (hncd : isDirAt s nc = false) (hne : ¬ (op = np ∧ on = nn))
    (hnpatt : np = root ∨ ∃ q qn, Edge s q qn np) (hocd : isDirAt s oc = false) :
    WF (removeChild (addChild (deleteNode s nc) np nn oc) op on) root := by
  have hnpd := hr_isDir_of_edge hn
  have hnpd' : isDirAt (deleteNode s nc) np = true := by rw [(HrShape.deleteNode s nc).isDir]; exact hnpd
  have hn' : s.child np nn = some nc := hn
  apply wf_move (op := op) (np := np) (on := on) (nn := nn) (oc := oc) hwf (((HrShape.deleteNode s nc).trans (HrShape.addChild _ np nn oc)).trans (HrShape.removeChild _ op on))
    _ _ hne ho hnpd hnpatt (by intro x h; rw [hn'] at h; cases h; exact hncd) (by intro h; rw [hocd] at h; cases h)
  · intro j
    by_cases h : j = nc
    · subst h; simp [hn']
    · have : ¬ nc = j := fun e => h e.symm
      simp [hn', h, this]
  · intro d n
    rw [hr_child_removeChild, hr_child_addChild _ _ _ _ _ _ hnpd', hr_child_deleteNode]
    by_cases h : d = nc
    · subst h
      simp [hr_child_of_not_dir hncd]
    · simp [h]

theorem wf_move_same {s : Store} {root op oc : Ino} {on : Bytes} (hwf : WF s root)
    (ho : Edge s op on oc) (hocd : isDirAt s oc = false) :
    WF (removeChild (addChild (deleteNode s oc) op on oc) op on) root := by
  have hopd := hr_isDir_of_edge ho
  have hopd' : isDirAt (deleteNode s oc) op = true := by rw [(HrShape.deleteNode s oc).isDir]; exact hopd
  apply wf_unlink (d0 := op) (n0 := on) (c0 := oc) hwf (((HrShape.deleteNode s oc).trans (HrShape.addChild _ op on oc)).trans (HrShape.removeChild _ op on))
    (by intro j; simp) _ ho (hr_no_edges_of_not_dir hocd)
  intro d n
  rw [hr_child_removeChild, hr_child_addChild _ _ _ _ _ _ hopd', hr_child_deleteNode]
  by_cases h : d = oc
  · subst h
    simp [hr_child_of_not_dir hocd]
  · by_cases h2 : d = op ∧ n = on <;> simp [h, h2]

theorem wf_rename_att (s : Store) (root : Ino) (v : View) (o n : Bytes) (hwf : WF s root) (hs : SearchOK s v)
    (hatt : ∀ p m, (searchNode s v p m).parent = root ∨ ∃ q qn, Edge s q qn (searchNode s v p m).parent)
    (hsafe : RenameSafe s v o n) : WF (rename s v o n).1 root := by
  have hpo := hs.parentDir o .lstat
  have hpn := hs.parentDir n .lstat
  have hattn := hatt n .lstat
  have hedge_o := fun oc => hs.existsEdge o .lstat oc (by decide)
  have hedge_n := fun nc => hs.existsEdge n .lstat nc (by decide)
  have hex_n := hs.existsChild n .lstat
  have hnoent : (searchNode s v n .lstat).err = .noent → (searchNode s v n .lstat).child = none ∧
      s.child (searchNode s v n .lstat).parent (partOf (searchNode s v n .lstat).pi) = none :=
    fun h => ⟨(hs.noentChild n .lstat h).1, (hs.noentChild n .lstat h).2 (by decide)⟩
  unfold RenameSafe at hsafe
  dsimp only at hsafe
  unfold rename
  dsimp only
  generalize searchNode s v o .lstat = ro at *
  generalize searchNode s v n .lstat = rn at *
  clear hatt hs
  by_cases hoe : (ro.err != SErr.exists) = true
  · rw [if_pos hoe]; exact hwf
  rw [if_neg hoe]
  have hoe' : ro.err = .exists := by simpa using hoe
  by_cases hnerr : (rn.err != SErr.exists && rn.err != SErr.noent) = true
  · rw [if_pos hnerr]; exact hwf
  rw [if_neg hnerr]
  have hnerr' : rn.err = .exists ∨ rn.err = .noent := by
    revert hnerr; cases rn.err <;> simp
  split
  · exact hwf
  split
  · exact hwf
  split
  · exact hwf
  split
  · exact hwf
  split
  · exact hwf
  rename_i oc hoc
  split
  · exact hwf
  have hite : ∀ (c : Prop) [Decidable c] (x : Store × Out), WF x.1 root →
      WF (if c then (s, Out.err Err.EPERM) else x).1 root := by
    intro c _ x hx; split
    · exact hwf
    · exact hx
  apply hite
  split
  · -- a directory is moved
    rename_i m ch hg
    have hocd : isDirAt s oc = true := by simp [isDirAt, hg]
    split
    · exact hwf
    rename_i hne
    have hne' : rn.err = .noent := by simpa using hne
    split
    · exact hwf
    rename_i htest
    simp only [Bool.or_eq_true, not_or, beq_iff_eq] at htest
    have ho := hedge_o oc hoe' hoc htest.1
    exact wf_move_noent hwf ho (hnoent hne').2 hpn hattn (fun _ => hsafe oc hoc hocd htest.2 htest.1)
  · -- a file or a symbolic link is moved
    rename_i nd hnd hg
    have hocd : isDirAt s oc = false := by
      unfold isDirAt; rw [hg]
      cases nd with
      | dir m ch => exact absurd rfl (hnd m ch)
      | _ => rfl
    have hocp : oc ≠ ro.parent := by
      intro e; rw [e, hpo] at hocd; cases hocd
    have ho := hedge_o oc hoe' hoc hocp
    have hsafe' : isDirAt s oc = true → ¬ Desc s oc rn.parent := by
      intro h; rw [hocd] at h; cases h
    have hmove_noent : rn.err = .noent →
        WF (removeChild (addChild s rn.parent (partOf rn.pi) oc) ro.parent (partOf ro.pi)) root :=
      fun h => wf_move_noent hwf ho (hnoent h).2 hpn hattn hsafe'
    split
    · rename_i hnc
      rcases hnerr' with h | h
      · obtain ⟨c, hc, _⟩ := hex_n h
        rw [hnc] at hc; cases hc
      · exact hmove_noent h
    · rename_i nc hnc
      split
      · rename_i h
        exact hmove_noent (by simpa using h)
      rename_i hnn
      have hne : rn.err = .exists := by
        rcases hnerr' with h | h
        · exact h
        · simp [h] at hnn
      have hedge : nc ≠ rn.parent → Edge s rn.parent (partOf rn.pi) nc := hedge_n nc hne hnc
      split
      · rename_i m2 d2 nl2 id2 hg2
        have hncd : isDirAt s nc = false := by simp [isDirAt, hg2]
        have hn := hedge (by intro e; rw [e, hpn] at hncd; cases hncd)
        split
        · exact hwf
        rename_i hncoc
        apply wf_move_over hwf ho hn hncd _ hattn hocd
        rintro ⟨e1, e2⟩
        rw [e1, e2] at ho
        have := ho.symm.trans hn
        simp at this
        exact hncoc (by simp [this])
      · rename_i m2 l2 hg2
        have hncd : isDirAt s nc = false := by simp [isDirAt, hg2]
        have hn := hedge (by intro e; rw [e, hpn] at hncd; cases hncd)
        by_cases hsame : ro.parent = rn.parent ∧ partOf ro.pi = partOf rn.pi
        · have : oc = nc := by
            have h2 := ho
            rw [hsame.1, hsame.2] at h2
            exact Option.some.inj (h2.symm.trans hn)
          subst this
          rw [← hsame.1, ← hsame.2]
          exact wf_move_same hwf ho hocd
        · exact wf_move_over hwf ho hn hncd hsame hattn hocd
      · exact hwf
  · exact hwf

/-! ### removeAll -/

theorem hr_get_removeChild_ne (s : Store) (d : Ino) (n : Bytes) (x : Ino) (h : x ≠ d) :
    (removeChild s d n).get x = s.get x := by
  have : ¬ d = x := fun e => h e.symm
  unfold removeChild
  split
  · rw [hr_get_set]; simp [this]
  · rfl

theorem hr_get_deleteNode_ne (s : Store) (c : Ino) (x : Ino) (h : x ≠ c) :
    (deleteNode s c).get x = s.get x := by
  have : ¬ c = x := fun e => h e.symm
  unfold deleteNode
  split <;> first | rfl | (rw [hr_get_set]; simp [this])

theorem hr_child_of_get_eq {s s' : Store} {d : Ino} (h : s'.get d = s.get d) (n : Bytes) :
    s'.child d n = s.child d n := by
  unfold Store.child Store.children; rw [h]

theorem Desc.mono {s s' : Store} (h : ∀ a n c, Edge s' a n c → Edge s a n c) {a x : Ino} (hd : Desc s' a x) :
    Desc s a x := by
  induction hd with
  | refl => exact Desc.refl
  | step d n c _ he ih => exact Desc.step d n c ih (h _ _ _ he)

theorem Desc.head {s : Store} {d c x : Ino} {n : Bytes} (he : Edge s d n c) (hd : Desc s c x) : Desc s d x := by
  induction hd with
  | refl => exact Desc.step d n c Desc.refl he
  | step d' n' c' _ he' ih => exact Desc.step d' n' c' ih he'

theorem Desc.depth_le {s : Store} {dp : Ino → Nat}
    (hdp : ∀ d n c, Edge s d n c → isDirAt s c = true → dp c = dp d + 1) {a x : Ino} (hd : Desc s a x)
    (hx : isDirAt s x = true) : dp a ≤ dp x := by
  induction hd with
  | refl => exact Nat.le_refl _
  | step d n c _ he ih =>
    have := hdp d n c he hx
    have := ih (hr_isDir_of_edge he)
    omega

theorem wfr_acyclic {s : Store} {root d c : Ino} {n : Bytes} (hwf : WF s root) (he : Edge s d n c)
    (hc : isDirAt s c = true) : ¬ Desc s c d := by
  intro hd
  obtain ⟨dp, hdp⟩ := hwf.depth
  have h1 := hdp d n c he hc
  have h2 := Desc.depth_le hdp hd (hr_isDir_of_edge he)
  omega

theorem hr_mem_insertSorted (x y : Bytes) (l : List Bytes) : y ∈ insertSorted x l ↔ y = x ∨ y ∈ l := by
  induction l with
  | nil => simp [insertSorted]
  | cons z l ih =>
    unfold insertSorted
    split
    · simp
    · simp [ih]; constructor
      · rintro (h | h | h) <;> simp [h]
      · rintro (h | h | h) <;> simp [h]

theorem hr_mem_sortBytes (y : Bytes) (l : List Bytes) : y ∈ sortBytes l ↔ y ∈ l := by
  induction l with
  | nil => simp [sortBytes]
  | cons x l ih =>
    have : sortBytes (x :: l) = insertSorted x (sortBytes l) := rfl
    rw [this, hr_mem_insertSorted, ih]; simp

theorem hr_mem_names (s : Store) (d : Ino) (n : Bytes) : n ∈ s.names d ↔ (s.child d n).isSome = true := by
  unfold Store.names
  rw [hr_mem_sortBytes, hr_mem_keys_children]

/-- what a (partial) run of `removeAllRec` on `d` guarantees -/
structure RAGood (root : Ino) (s : Store) (d : Ino) (r : Store) : Prop where
  wf : WF r root
  mono : ∀ a n c, Edge r a n c → Edge s a n c
  frame : ∀ x, ¬ Desc s d x → r.get x = s.get x

theorem RAGood.refl {root : Ino} {s : Store} (d : Ino) (hwf : WF s root) : RAGood root s d s :=
  ⟨hwf, fun _ _ _ h => h, fun _ _ => rfl⟩

theorem Desc.of_not_dir {s : Store} {c x : Ino} (hc : isDirAt s c = false) (hd : Desc s c x) : x = c := by
  induction hd with
  | refl => rfl
  | step d n c' _ he ih =>
    subst ih
    rw [hr_isDir_of_edge he] at hc; cases hc

theorem hr_not_desc_child {root : Ino} {s : Store} {d c : Ino} {nm : Bytes} (hwf : WF s root) (he : Edge s d nm c) :
    ¬ Desc s c d := by
  cases hc : isDirAt s c with
  | true => exact wfr_acyclic hwf he hc
  | false =>
    intro hd
    have := Desc.of_not_dir hc hd
    subst this
    rw [hr_isDir_of_edge he] at hc; cases hc

/-- an entry of `d` is released after its subtree `s → s1` has been emptied -/
theorem RAGood.step_wf {root : Ino} {s s1 : Store} {d c : Ino} {nm : Bytes} (hwf : WF s root) (he : Edge s d nm c)
    (h1 : RAGood root s c s1) (hempty : ∀ n x, ¬ Edge s1 c n x) :
    WF (removeChild (deleteNode s1 c) d nm) root := by
  have he1 : Edge s1 d nm c := by
    unfold Edge
    rw [hr_child_of_get_eq (h1.frame d (hr_not_desc_child hwf he))]; exact he
  exact wf_unlink_rd h1.wf he1 hempty

/-- … and then the rest of the run -/
theorem RAGood.step {root : Ino} {s s1 r : Store} {d c : Ino} {nm : Bytes} (he : Edge s d nm c)
    (h1 : RAGood root s c s1) (h2 : RAGood root (removeChild (deleteNode s1 c) d nm) d r) :
    RAGood root s d r ∧ r.child d nm = none := by
  have hch2 : ∀ a n, (removeChild (deleteNode s1 c) d nm).child a n =
      if a = d ∧ n = nm then none else if a = c then none else s1.child a n := by
    intro a n; rw [hr_child_removeChild, hr_child_deleteNode]
  have hmono2 : ∀ a n x, Edge (removeChild (deleteNode s1 c) d nm) a n x → Edge s a n x := by
    intro a n x h
    apply h1.mono
    unfold Edge at h ⊢
    rw [hch2] at h
    split at h
    · cases h
    · split at h
      · cases h
      · exact h
  refine ⟨⟨h2.wf, fun a n x h => hmono2 a n x (h2.mono a n x h), ?_⟩, ?_⟩
  · intro x hx
    have hxd : x ≠ d := by rintro rfl; exact hx Desc.refl
    have hxc : x ≠ c := by rintro rfl; exact hx (Desc.step d nm x Desc.refl he)
    have hxc' : ¬ Desc s c x := fun h => hx (Desc.head he h)
    rw [h2.frame x (fun h => hx (Desc.mono hmono2 h)), hr_get_removeChild_ne _ _ _ _ hxd,
      hr_get_deleteNode_ne _ _ _ hxc, h1.frame x hxc']
  · cases hr : r.child d nm with
    | none => rfl
    | some y =>
      have := h2.mono d nm y hr
      unfold Edge at this
      rw [hch2] at this
      simp at this

theorem removeAllRec_good (root : Ino) (v : View) : ∀ (fuel : Nat) (s : Store) (d : Ino), WF s root →
    RAGood root s d (removeAllRec v fuel s d).1 ∧
    ((removeAllRec v fuel s d).2 = none → ∀ nm, (removeAllRec v fuel s d).1.child d nm = none) := by
  intro fuel
  induction fuel with
  | zero =>
    intro s d hwf
    rw [removeAllRec]
    exact ⟨RAGood.refl d hwf, fun h => by cases h⟩
  | succ fuel ih =>
    intro s d hwf
    have hgo : ∀ (L : List Bytes) (s : Store), WF s root →
        RAGood root s d (removeAllRec.go v fuel d s L).1 ∧
        ((removeAllRec.go v fuel d s L).2 = none → ∀ nm, nm ∈ L → (removeAllRec.go v fuel d s L).1.child d nm = none) := by
      intro L
      induction L with
      | nil =>
        intro s hwf
        rw [removeAllRec.go]
        exact ⟨RAGood.refl d hwf, fun _ nm h => by cases h⟩
      | cons nm rest ihL =>
        intro s hwf
        rw [removeAllRec.go]
        split
        · rename_i hnone
          obtain ⟨hg, hsucc⟩ := ihL s hwf
          refine ⟨hg, fun hn nm' hmem => ?_⟩
          rcases List.mem_cons.1 hmem with rfl | hmem
          · cases hr : (removeAllRec.go v fuel d s rest).1.child d nm' with
            | none => rfl
            | some y =>
              have := hg.mono _ _ _ hr
              unfold Edge at this; rw [hnone] at this; cases this
          · exact hsucc hn nm' hmem
        · rename_i c he
          have he : Edge s d nm c := he
          split
          · rename_i m ch hgc
            obtain ⟨ihg, ihs⟩ := ih s c hwf
            generalize removeAllRec v fuel s c = r at *
            obtain ⟨s1, e⟩ := r
            dsimp only at ihg ihs ⊢
            cases e with
            | some e =>
              dsimp only
              refine ⟨⟨ihg.wf, ihg.mono, fun x hx => ihg.frame x (fun h => hx (Desc.head he h))⟩, fun h => by cases h⟩
            | none =>
              dsimp only
              have hempty : ∀ n x, ¬ Edge s1 c n x := by
                intro n x h; unfold Edge at h; rw [ihs rfl n] at h; cases h
              split
              · -- restricted deletion: the emptied sub-directory stays
                refine ⟨⟨ihg.wf, ihg.mono, fun x hx => ihg.frame x (fun h => hx (Desc.head he h))⟩, fun h => by cases h⟩
              have hwf2 := RAGood.step_wf hwf he ihg hempty
              obtain ⟨hg, hsucc⟩ := ihL _ hwf2
              obtain ⟨hg', hnm⟩ := RAGood.step he ihg hg
              refine ⟨hg', fun hn nm' hmem => ?_⟩
              rcases List.mem_cons.1 hmem with rfl | hmem
              · exact hnm
              · exact hsucc hn nm' hmem
          · rename_i hnd
            have hcd : isDirAt s c = false := by
              cases hc : isDirAt s c with
              | false => rfl
              | true =>
                obtain ⟨m, ch, hgc⟩ := hr_isDirAt_iff.1 hc
                exact absurd hgc (hnd m ch)
            split
            · -- restricted deletion: the entry stays
              exact ⟨RAGood.refl d hwf, fun h => by cases h⟩
            have hwf2 := RAGood.step_wf hwf he (RAGood.refl c hwf) (hr_no_edges_of_not_dir hcd)
            obtain ⟨hg, hsucc⟩ := ihL _ hwf2
            obtain ⟨hg', hnm⟩ := RAGood.step he (RAGood.refl c hwf) hg
            refine ⟨hg', fun hn nm' hmem => ?_⟩
            rcases List.mem_cons.1 hmem with rfl | hmem
            · exact hnm
            · exact hsucc hn nm' hmem
    rw [removeAllRec]
    split
    · exact ⟨RAGood.refl d hwf, fun h => by cases h⟩
    · obtain ⟨hg, hsucc⟩ := hgo (s.names d) s hwf
      refine ⟨hg, fun hn nm => ?_⟩
      by_cases hmem : nm ∈ s.names d
      · exact hsucc hn nm hmem
      · rw [hr_mem_names] at hmem
        cases hr : (removeAllRec.go v fuel d s (s.names d)).1.child d nm with
        | none => rfl
        | some y =>
          have := hg.mono _ _ _ hr
          unfold Edge at this; rw [this] at hmem; simp at hmem

theorem wf_removeAll' (s : Store) (root : Ino) (v : View) (p : Bytes) (hwf : WF s root) (hs : SearchOK s v) :
    WF (removeAll s v p).1 root := by
  have hedge := fun c => hs.existsEdge p .lstat c (by decide)
  unfold removeAll
  dsimp only
  generalize searchNode s v p .lstat = r at *
  clear hs
  split
  · exact hwf
  split
  · exact hwf
  split
  · rename_i c herr hchild
    split
    · exact hwf
    rename_i hne
    have hne' : c ≠ r.parent := by simpa using hne
    have he := hedge c herr hchild hne'
    generalize hq : (if (_ : Bool) = true then removeAllRec v s.next s c else ((s, none) : Store × Option Err)) = q
    have hq' : RAGood root s c q.1 ∧ (q.2 = none → ∀ n x, ¬ Edge q.1 c n x) := by
      have hrec : RAGood root s c (removeAllRec v s.next s c).1 ∧
          ((removeAllRec v s.next s c).2 = none → ∀ n x, ¬ Edge (removeAllRec v s.next s c).1 c n x) := by
        obtain ⟨hg, hsucc⟩ := removeAllRec_good root v s.next s c hwf
        refine ⟨hg, fun hn n x h => ?_⟩
        unfold Edge at h
        rw [hsucc hn n] at h; cases h
      split at hq
      · rename_i m ch hgc
        split at hq
        · subst hq; exact hrec
        · rename_i hlen
          subst hq
          exact ⟨RAGood.refl c hwf, fun _ => hr_no_edges_of_empty_dir hgc (by simpa using hlen)⟩
      · rename_i hnd
        simp only [Bool.false_eq_true, if_false] at hq
        subst hq
        refine ⟨RAGood.refl c hwf, fun _ => hr_no_edges_of_not_dir ?_⟩
        cases hc : isDirAt s c with
        | false => rfl
        | true =>
          obtain ⟨m, ch, hgc⟩ := hr_isDirAt_iff.1 hc
          exact absurd hgc (hnd m ch)
    clear hq
    obtain ⟨hg, hsucc⟩ := hq'
    obtain ⟨s1, e⟩ := q
    dsimp only at hg hsucc ⊢
    cases e with
    | some e => exact hg.wf
    | none =>
      dsimp only
      split
      · exact hg.wf
      split
      · exact hg.wf
      · have he1 : Edge s1 r.parent (partOf r.pi) c := by
          unfold Edge
          rw [hr_child_of_get_eq (hg.frame _ (hr_not_desc_child hwf he))]; exact he
        exact wf_unlink_dr hg.wf he1 (hsucc rfl)
  · exact hwf

theorem hr_searchLoop_parent (s : Store) (v : View) (mode : SlMode) (vol : Ino) :
    ∀ (fuel : Nat) (parent : Ino) (it : Iter) (sl : Nat) (saved : Option Iter),
      (searchLoop s v mode vol fuel parent it sl saved).parent = parent ∨
      (searchLoop s v mode vol fuel parent it sl saved).parent = vol ∨
      ∃ q qn, Edge s q qn (searchLoop s v mode vol fuel parent it sl saved).parent := by
  intro fuel
  induction fuel with
  | zero => intro parent it sl saved; exact Or.inl rfl
  | succ fuel ih =>
    intro parent it sl saved
    have key : ∀ p' it' sl' sv', (p' = parent ∨ p' = vol ∨ ∃ q qn, Edge s q qn p') →
        ((searchLoop s v mode vol fuel p' it' sl' sv').parent = parent ∨
         (searchLoop s v mode vol fuel p' it' sl' sv').parent = vol ∨
         ∃ q qn, Edge s q qn (searchLoop s v mode vol fuel p' it' sl' sv').parent) := by
      intro p' it' sl' sv' hp
      rcases ih p' it' sl' sv' with h | h | h
      · rw [h]; exact hp
      · exact Or.inr (Or.inl h)
      · exact Or.inr (Or.inr h)
    unfold searchLoop
    dsimp only
    repeat' split
    all_goals first | exact Or.inl rfl | skip
    all_goals apply key
    all_goals first | exact Or.inl rfl | exact Or.inr (Or.inl rfl) | skip
    all_goals exact Or.inr (Or.inr ⟨_, _, by unfold Edge; assumption⟩)

/-- the parent returned by the walk is the root of the view or the target of an entry -/
theorem hr_searchNode_parent_attached (s : Store) (v : View) (root : Ino)
    (hroot : v.root = root ∨ ∃ d n, Edge s d n v.root) (p : Bytes) (m : SlMode) :
    (searchNode s v p m).parent = root ∨ ∃ q qn, Edge s q qn (searchNode s v p m).parent := by
  unfold searchNode
  dsimp only
  rcases hr_searchLoop_parent s v m v.root (searchFuel s (abs .linux p v.cwd)) v.root
    (Iter.new .linux (abs .linux p v.cwd)) 0 none with h | h | h
  · rw [h]; exact hroot
  · rw [h]; exact hroot
  · exact Or.inr h


/-! ### the statements as requested (the view hypothesis `hroot` is not needed for the removing calls) -/

theorem wf_remove (s : Store) (root : Ino) (v : View) (p : Bytes) (hwf : WF s root) (hs : SearchOK s v)
    (_hroot : v.root = root ∨ ∃ d n, Edge s d n v.root) : WF (remove s v p).1 root :=
  wf_remove' s root v p hwf hs

theorem wf_removeAll (s : Store) (root : Ino) (v : View) (p : Bytes) (hwf : WF s root) (hs : SearchOK s v)
    (_hroot : v.root = root ∨ ∃ d n, Edge s d n v.root) : WF (removeAll s v p).1 root :=
  wf_removeAll' s root v p hwf hs

/-- `rename` adds an entry under the parent of the new name, which must be attached: this follows from `hroot` -/
theorem wf_rename (s : Store) (root : Ino) (v : View) (o n : Bytes) (hwf : WF s root) (hs : SearchOK s v)
    (hroot : v.root = root ∨ ∃ d n, Edge s d n v.root) (hsafe : RenameSafe s v o n) :
    WF (rename s v o n).1 root :=
  wf_rename_att s root v o n hwf hs (hr_searchNode_parent_attached s v root hroot) hsafe

end Avfs.FS
