import Avfs.Wrap.BasePath
import Avfs.Lemmas.Clean
/-
  Lemmas on the path translation of BasePathFS (`toBasePath` / `fromBasePath`), used by Props/C10.
-/
set_option linter.unusedSimpArgs false
set_option linter.unusedVariables false

namespace Avfs.Wrap
open Avfs.Path

/-! ### shape of a cleaned rooted path -/

/-- a cleaned absolute path: "/" followed by a body whose components contain neither ".." nor ".", and which is a
    fixed point of `clean` -/
def CleanAbs (c : Bytes) : Prop :=
  ∃ body, c = SL :: body ∧ Spec.DD ∉ Spec.comps body ∧ [DOT] ∉ Spec.comps body ∧ Spec.clean c = c

theorem isAbs_linux_eq (p : Bytes) : isAbs .linux p = Spec.isRooted p := by
  cases p <;> rfl

theorem cleanAbs_of_rooted (x : Bytes) (hx : Spec.isRooted x = true) : CleanAbs (Spec.clean x) := by
  have hinv := inv_fold (rooted := Spec.isRooted x) (Spec.comps x) (comps_good x) (inv_init _)
  obtain ⟨k, tops, h1, h2, _, h3⟩ := hinv.shape
  have hnd := fold_noDot (Spec.isRooted x) (Spec.comps x) [] (by simp)
  have hgood := hinv.good
  have hk : k = 0 := h3 hx
  subst hk
  simp only [List.replicate_zero, List.append_nil] at h1
  refine ⟨joinWith SL tops.reverse, ?_, ?_, ?_, spec_clean_idem x⟩
  · rw [Spec.clean, h1, hx]
    simp [Spec.render]
  · rw [h1] at hgood
    rw [comps_joinWith, flatMap_comps_good _ (fun c hc => hgood c (by simpa using hc))]
    simpa using h2
  · rw [h1] at hgood hnd
    rw [comps_joinWith, flatMap_comps_good _ (fun c hc => hgood c (by simpa using hc))]
    intro hm
    exact hnd [DOT] (by simpa using hm) rfl

/-- the path cleaned by `toBasePath` is the clean form of a rooted path, and it is the cleaned absolute virtual path -/
theorem toBase_inner (cwd p : Bytes) (hcwd : isAbs .linux cwd = true) :
    ∃ y, Spec.isRooted y = true ∧
      Path.clean .linux (if !isAbs .linux p then Path.join .linux [cwd, p] else p) = Spec.clean y ∧
      Path.clean .linux (abs .linux p cwd) = Spec.clean y := by
  by_cases hp : isAbs .linux p = true
  · refine ⟨p, by rw [← isAbs_linux_eq]; exact hp, ?_, ?_⟩
    · simp [hp, clean_eq_spec]
    · simp [abs, hp, clean_eq_spec, spec_clean_idem]
  · have hp' : isAbs .linux p = false := by simpa using hp
    have hne : cwd ≠ [] := by intro e; subst e; simp [isAbs] at hcwd
    have hemp : cwd.isEmpty = false := by cases cwd <;> simp_all
    have hj : Path.join .linux [cwd, p]
        = Spec.clean (joinWith SL (cwd :: [p].filter (fun e => !e.isEmpty))) := by
      rw [join_eq_spec, Spec.join]
      simp [List.filter_cons, hemp]
    refine ⟨joinWith SL (cwd :: [p].filter (fun e => !e.isEmpty)), ?_, ?_, ?_⟩
    · rw [isRooted_joinWith_cons _ _ hne, ← isAbs_linux_eq]; exact hcwd
    · simp only [hp', Bool.not_false, if_true]
      rw [hj, clean_eq_spec, spec_clean_idem]
    · simp only [abs, hp', Bool.false_eq_true, if_false]
      rw [hj, clean_eq_spec, spec_clean_idem]

theorem cleanAbs_len_one {c : Bytes} (h : CleanAbs c) (hl : c.length = 1) : c = [SL] := by
  obtain ⟨body, rfl, _⟩ := h
  cases body with
  | nil => rfl
  | cons _ _ => simp at hl

/-! ### confinement -/

theorem within_append_cleanAbs (base : Bytes) {c : Bytes} (h : CleanAbs c) : Within base (base ++ c) := by
  obtain ⟨body, rfl, h1, h2, _⟩ := h
  exact Or.inr ⟨body, rfl, h1, h2⟩

/-- `toBasePath_within` needs an absolute current directory: with `cwd = ""` a relative `p` stays relative after
    `clean` and is glued to the base without separator (`"/b" ++ "../x"`), see `toBasePath_within_cex` -/
theorem toBasePath_within (base cwd p : Bytes) (hcwd : isAbs .linux cwd = true) :
    Within base (toBasePath base cwd p) := by
  unfold toBasePath
  split
  · exact Or.inl rfl
  · obtain ⟨y, hy, hc, _⟩ := toBase_inner cwd p hcwd
    simp only [hc]
    split
    · exact Or.inl rfl
    · exact within_append_cleanAbs base (cleanAbs_of_rooted y hy)

/-- counterexample to confinement without the hypothesis on `cwd`: base = "/b", cwd = "", p = "../x" gives "/b../x" -/
theorem toBasePath_within_cex :
    toBasePath [SL, 98] [] [DOT, DOT, SL, 120] = [SL, 98, DOT, DOT, SL, 120] ∧
    ¬ Within [SL, 98] (toBasePath [SL, 98] [] [DOT, DOT, SL, 120]) := by
  have h : toBasePath [SL, 98] [] [DOT, DOT, SL, 120] = [SL, 98, DOT, DOT, SL, 120] := by
    simp only [toBasePath, join_eq_spec, clean_eq_spec]
    decide
  refine ⟨h, ?_⟩
  rw [h]
  rintro (h1 | ⟨rest, h1, _⟩)
  · exact absurd h1 (by decide)
  · simp at h1

/-! ### round trip -/

theorem join_back {c : Bytes} (h : CleanAbs c) : Path.join .linux [[], c, [SL]] = c := by
  obtain ⟨body, rfl, _, _, hfix⟩ := h
  rw [join_eq_spec, Spec.join]
  have : Spec.clean (joinWith SL [SL :: body, [SL]]) = Spec.clean (SL :: body) := by
    apply spec_clean_congr
    · simp [joinWith, Spec.isRooted]
    · have := comps_append (SL :: body) [SL]
      simp [joinWith] at this ⊢
      simpa using this
  simpa [hfix] using this

theorem fromBasePath_self (base : Bytes) : fromBasePath base base = some [SL] := by
  unfold fromBasePath
  have h1 : base.isPrefixOf base = true := by simp
  rw [if_pos h1]
  have : Path.join .linux [[], List.drop base.length base, [SL]] = [SL] := by
    rw [join_eq_spec]
    simp
    decide
  rw [this]

theorem fromBasePath_append (base : Bytes) {c : Bytes} (h : CleanAbs c) :
    fromBasePath base (base ++ c) = some c := by
  unfold fromBasePath
  have h1 : base.isPrefixOf (base ++ c) = true := by simp
  rw [if_pos h1]
  simp only [List.drop_left]
  rw [join_back h]

/-- the round trip holds for every `p` (also the empty one) and every `base` -/
theorem fromBasePath_toBasePath_strong (base cwd p : Bytes) (hcwd : isAbs .linux cwd = true) :
    fromBasePath base (toBasePath base cwd p) = some (Path.clean .linux (abs .linux p cwd)) := by
  unfold toBasePath
  split
  · rename_i hp
    have hp : p = [SL] := by simpa using hp
    subst hp
    rw [fromBasePath_self]
    have : abs .linux [SL] cwd = Path.clean .linux [SL] := by simp [abs, isAbs]
    rw [this, clean_eq_spec, clean_eq_spec]
    decide
  · obtain ⟨y, hy, hc, ha⟩ := toBase_inner cwd p hcwd
    simp only [hc, ha]
    have hca := cleanAbs_of_rooted y hy
    split
    · rename_i hl
      rw [fromBasePath_self, cleanAbs_len_one hca (by simpa using hl)]
    · exact fromBasePath_append base hca

theorem fromBasePath_toBasePath (base cwd p : Bytes) (hb : base ≠ []) (hcwd : Path.isAbs .linux cwd = true) :
    fromBasePath base (toBasePath base cwd p) = some (Path.clean .linux (Path.abs .linux p cwd)) ∨ p = [] :=
  Or.inl (fromBasePath_toBasePath_strong base cwd p hcwd)

/-! ### Getwd after the repair (`inBase`: the base's current directory is the base path or BELOW it, not only a string
    with the base path as prefix) -/

theorem inBase_prefix {base p : Bytes} (h : inBase base p = true) : base.isPrefixOf p = true := by
  unfold inBase at h
  exact (Bool.and_eq_true _ _ ▸ h).1

theorem inBase_self (base : Bytes) : inBase base base = true := by
  simp [inBase]

end Avfs.Wrap
