import Avfs.Lemmas.SubSim
import Avfs.Lemmas.WFCreate
import Avfs.Lemmas.WFRemove
import Avfs.Lemmas.Lin
/-
  C06, closing the gap between the two models: the abstract directory `Lin.Dir` with its sequential specification
  `Lin.dspec` (for which Lemmas/Lin.lean proves that concurrent two-phase executions are linearizable) IS what the
  sequential MemFS model (FS/MemFS.lean: `mkdir`, `openFile` with O_CREATE|O_EXCL, `remove`) does on leaf names of one
  directory.
-/
set_option linter.unusedVariables false
set_option linter.unusedSimpArgs false

namespace Avfs.FS
open Avfs.Path
open Avfs.Conc
open Avfs.Conc.Lin (Dir DOp DRes dspec)

/-! ### A. the iterator after a successful walk; OpenFile(O_CREATE|O_EXCL) through the descent -/

/-- when the descent finds the entry, the iterator returned by the walk stands on the LAST component
    (`Agrees` of Lemmas/Namei.lean says so only for a missing last component; `openFile` tests it in both cases) -/
def FoundLast (w : Resolved) (r : SR) : Prop :=
  match w with
  | .found _ _ => r.pi.isLast = true
  | _ => True

theorem loop_found_last {s : Store} {root : Ino} {v : View} (hwf : WF s root) (m : SlMode) :
    ∀ (rest : List Bytes) (c : Bytes) (fuel : Nat) (d : Ino) (it : Iter) (pre : Bytes) (sl : Nat),
      (∀ x ∈ c :: rest, x ≠ [] ∧ ∀ y ∈ x, y ≠ SL) →
      it.path = pre ++ joinWith SL (c :: rest) → it.stop1 = pre.length → fuel ≥ rest.length + 1 →
      isDirAt s d = true →
      (d ≠ v.root → ∀ md ch, s.get d = some (.dir md ch) → checkPerm md omLookup v = true) →
      FoundLast (walkPath s v d (c :: rest)) (searchLoop s v m v.root fuel d it sl none) := by
  intro rest
  induction rest with
  | nil =>
    intro c fuel d it pre sl hall hp hst hf hdir hperm
    obtain ⟨fuel, rfl⟩ : ∃ k, fuel = k + 1 := ⟨fuel - 1, by simp at hf; omega⟩
    have hc := hall c (by simp)
    obtain ⟨it1, hnext, hpart, hl, _⟩ := next_comp it pre c [] hp hst hc.1 hc.2
    have hl := hl rfl
    obtain ⟨md, chd, hgd⟩ := get_of_isDirAt hdir
    rw [searchLoop]
    by_cases hden : checkPerm md omLookup v = true
    · cases hch : s.child d c with
      | none => simp [walkPath, hnext, hpart, hgd, hden, hch, FoundLast, hl]
      | some i =>
        have halloc := hwf.alloc d c i hch
        cases hg : s.get i with
        | none => simp [hg] at halloc
        | some n =>
          cases n <;> simp [walkPath, hnext, hpart, hgd, hden, hch, hg, FoundLast, hl]
    · have hden' : checkPerm md omLookup v = false := by simpa using hden
      have hdr : d = v.root := Classical.byContradiction fun h => hden (hperm h md chd hgd)
      subst hdr
      simp [walkPath, hnext, hpart, hgd, hden', FoundLast]
  | cons c2 cs ih =>
    intro c fuel d it pre sl hall hp hst hf hdir hperm
    obtain ⟨fuel, rfl⟩ : ∃ k, fuel = k + 1 := ⟨fuel - 1, by simp at hf; omega⟩
    have hc := hall c (by simp)
    obtain ⟨it1, hnext, hpart, _, hl⟩ := next_comp it pre c (c2 :: cs) hp hst hc.1 hc.2
    obtain ⟨hl, hp1, hsp1⟩ := hl (by simp)
    obtain ⟨md, chd, hgd⟩ := get_of_isDirAt hdir
    rw [searchLoop]
    by_cases hden : checkPerm md omLookup v = true
    · cases hch : s.child d c with
      | none => simp [walkPath, hnext, hpart, hgd, hden, hch, FoundLast, hl]
      | some i =>
        have halloc := hwf.alloc d c i hch
        cases hg : s.get i with
        | none => simp [hg] at halloc
        | some n =>
          cases n with
          | dir mi chi =>
            by_cases hpi : checkPerm mi omLookup v = true
            · have hrec := ih c2 fuel i it1 (pre ++ c ++ [SL]) sl (fun x hx => hall x (by simp at hx ⊢; exact Or.inr hx))
                hp1 hsp1 (by simp at hf ⊢; omega) (isDirAt_of_get hg)
                (fun _ md' ch' hg' => by rw [hg] at hg'; cases hg'; exact hpi)
              have hw : walkPath s v d (c :: c2 :: cs) = walkPath s v i (c2 :: cs) := by
                simp [walkPath, hgd, hden, hch, hg]
              rw [hw]
              simpa [hnext, hpart, hgd, hden, hch, hg, hl, hpi] using hrec
            · have hpi' : checkPerm mi omLookup v = false := by simpa using hpi
              have hw : walkPath s v d (c :: c2 :: cs) = .denied := by
                simp only [walkPath, hgd, hden, hch, hg]
                simpa using walkPath_denied s v i c2 cs mi chi hg hpi'
              rw [hw]
              simp [FoundLast]
          | file mf df nl id => simp [walkPath, hgd, hden, hch, hg, FoundLast]
          | symlink ms lk => simp [walkPath, hgd, hden, hch, hg, FoundLast]
    · have hden' : checkPerm md omLookup v = false := by simpa using hden
      have hdr : d = v.root := Classical.byContradiction fun h => hden (hperm h md chd hgd)
      subst hdr
      simp [walkPath, hgd, hden', FoundLast]

/-- the walk of a non-empty clean path that finds its entry returns an iterator on the last component -/
theorem searchNode_found_last (s : Store) (root : Ino) (v : View) (hwf : WF s root) (hroot : v.root = root)
    (cs : List Bytes) (hne : cs ≠ []) (hall : ∀ c ∈ cs, c ≠ [] ∧ ∀ x ∈ c, x ≠ SL)
    (hdots : ∀ c ∈ cs, c ≠ [DOT] ∧ c ≠ [DOT, DOT]) (m : SlMode) :
    FoundLast (walkPath s v root cs) (searchNode s v (SL :: joinWith SL cs) m) := by
  subst hroot
  unfold searchNode
  simp only [abs_joined cs v.cwd hall hdots]
  have hfuel := searchFuel_ge s (SL :: joinWith SL cs)
  cases cs with
  | nil => exact absurd rfl hne
  | cons c cs =>
    obtain ⟨mr, chr, hgr⟩ := get_of_isDirAt hwf.rootDir
    refine loop_found_last hwf m cs c (searchFuel s (SL :: joinWith SL (c :: cs))) v.root
      (Iter.new .linux (SL :: joinWith SL (c :: cs))) [SL] 0 hall rfl rfl ?_ (isDirAt_of_get hgr)
      (fun h => absurd rfl h)
    have := length_joinWith_ge SL (c :: cs) (fun x hx => (hall x hx).1)
    simp only [List.length_cons] at this hfuel ⊢
    omega

/-- O_CREATE|O_EXCL|O_RDWR (Linux values 0x40, 0x80, 2) -/
def oCreatExcl : Nat := 0xC2

theorem toOpenMode_oCreatExcl : toOpenMode oCreatExcl = 54 := by decide

/-- the handle OpenFile returns for a file it has just created -/
def newHandle (vid : Nat) (name : Bytes) (c : Ino) : Handle :=
  { nd := some c, name := name, pos := 0, om := 54, dirEntries := none, dirNames := none, dirIndex := 0, view := vid }

/-- OpenFile(O_CREATE|O_EXCL|O_RDWR) by an administrator, through the component-wise descent: the analogue of
    `mkdir_posix` (open(2) with O_CREAT|O_EXCL: EEXIST for any existing entry, file or directory; a new regular file
    otherwise). A final symbolic link is outside (`.viaLink`), as everywhere in Lemmas/Namei.lean. -/
theorem openFile_excl_posix (s : Store) (root : Ino) (v : View) (vid : Nat) (hwf : WF s root) (hn : NamesOK s)
    (hv : ViewOK s v) (hroot : v.root = root) (hadm : v.admin = true) (cs : List Bytes) (hne : cs ≠ [])
    (hall : ∀ c ∈ cs, c ≠ [] ∧ ∀ x ∈ c, x ≠ SL) (hdots : ∀ c ∈ cs, c ≠ [DOT] ∧ c ≠ [DOT, DOT]) (perm : Nat) :
    match walkPath s v root cs with
    | .found _ _ => openFile s v vid (SL :: joinWith SL cs) oCreatExcl perm = (s, .error .EEXIST)
    | .missingLast par name => name = cs.getLast hne ∧
        openFile s v vid (SL :: joinWith SL cs) oCreatExcl perm =
          ((createFile s v par name perm).1, .ok (newHandle vid (SL :: joinWith SL cs) s.next))
    | .missingDir => openFile s v vid (SL :: joinWith SL cs) oCreatExcl perm = (s, .error .ENOENT)
    | .notDir => openFile s v vid (SL :: joinWith SL cs) oCreatExcl perm = (s, .error .ENOTDIR)
    | .denied => openFile s v vid (SL :: joinWith SL cs) oCreatExcl perm = (s, .error .EACCES)
    | .viaLink => True := by
  have h := searchNode_eq_walkPath s root v hwf hn hv hroot cs hall hdots .eval
  have hp := searchNode_part s root v hwf hn hv hroot cs hne hall hdots .eval
  have hlast := searchNode_found_last s root v hwf hroot cs hne hall hdots .eval
  have hom := toOpenMode_oCreatExcl
  obtain ⟨c0, rest, rfl⟩ : ∃ c0 rest, cs = c0 :: rest := by
    cases cs with
    | nil => exact absurd rfl hne
    | cons a b => exact ⟨a, b, rfl⟩
  cases hw : walkPath s v root (c0 :: rest) with
  | found par c =>
    simp only [hw, FoundLast] at h hlast
    obtain ⟨he, hc, hpar⟩ := h
    obtain ⟨hedge, _, hnl⟩ := walkPath_found rest c0 root par c hw
    have halloc := hwf.alloc par _ c hedge
    cases hg : s.get c with
    | none => simp [hg] at halloc
    | some n =>
      cases n with
      | dir mc chc => simp [openFile, he, hc, hlast, hg, hom, omExcl]
      | file mf df nl id => simp [openFile, he, hc, hlast, hg, hom, omExcl, checkPerm, hadm]
      | symlink ms lk => exact absurd hg (hnl ms lk)
  | missingLast par name =>
    simp only [hw, PartAgrees] at h hp
    obtain ⟨hname, hnone, hpd⟩ := walkPath_missingLast rest c0 root par name hw
    obtain ⟨he, _, hpar, hl⟩ := h
    obtain ⟨mp, chp, hgp⟩ := get_of_isDirAt hpd
    refine ⟨hname, ?_⟩
    rw [← hname] at hp
    simp [openFile, he, hpar, hl, hom, omCreate, omWrite, omLookup, dirPerm, hgp, checkPerm, hadm, hp, newHandle,
      createFile, Store.alloc]
  | missingDir =>
    simp only [hw] at h
    simp [openFile, h.1, h.2, SErr.toErr]
  | notDir =>
    simp only [hw] at h
    simp [openFile, h, SErr.toErr]
  | denied =>
    simp only [hw] at h
    simp [openFile, h, SErr.toErr]
  | viaLink => trivial

/-! ### B. the setting and the simulation relation -/

/-- a leaf name: a valid entry name that is neither "." nor ".." (the path cleaner leaves it alone) -/
def ValidComp (c : Bytes) : Prop := (c ≠ [] ∧ ∀ x ∈ c, x ≠ SL) ∧ (c ≠ [DOT] ∧ c ≠ [DOT, DOT])

/-- "/a1/…/ak/n" -/
def leafPath (a : List Bytes) (n : Bytes) : Bytes := SL :: joinWith SL (a ++ [n])

/-- the setting of the leaf operations: a well-formed heap, an administrator looking at the whole tree, and the stable
    directory `d`, reached from the root through the components `a` (its parent entry lies in `par`) -/
structure Setting (s : Store) (root : Ino) (v : View) (a : List Bytes) (par d : Ino) : Prop where
  wf : WF s root
  names : NamesOK s
  view : ViewOK s v
  vroot : v.root = root
  admin : v.admin = true
  comps : ∀ c ∈ a, ValidComp c
  reach : walkPath s v root a = .found par d
  isDir : isDirAt s d = true

/-- the simulation relation between the heap, seen at the directory `d`, and the abstract directory `D` -/
structure Sim (s : Store) (d : Ino) (D : Dir) : Prop where
  /-- same names, same nodes (effective entries on both sides: first match of the association lists) -/
  entries : ∀ n, (AL.lookup n D.entries).map (·.1) = s.child d n
  /-- the flag of an entry says whether its node is a directory -/
  isDir : ∀ n i b, AL.lookup n D.entries = some (i, b) → b = isDirAt s i
  /-- leaf assumption: a directory entry of `d` is an EMPTY directory (no call addresses anything below a leaf) … -/
  emptyDir : ∀ n i m ch, s.child d n = some i → s.get i = some (.dir m ch) → ch = []
  /-- … and no entry of `d` is a symbolic link (the descent theorems of Lemmas/Namei.lean stop at links) -/
  noLink : ∀ n i m l, s.child d n = some i → s.get i ≠ some (.symlink m l)
  /-- a non-directory entry is a regular file whose link count is the one recorded in `D.nlink`
      (nothing is said about `D.nlink` of directories: a directory node of the heap has no link-count field) -/
  nlink : ∀ n i, AL.lookup n D.entries = some (i, false) →
    ∃ m dt nl id, s.get i = some (.file m dt nl id) ∧ AL.lookup i D.nlink = some nl
  /-- both allocate the same next node number -/
  next : D.next = s.next

theorem validName_of_validComp {n : Bytes} (h : ValidComp n) : validName n = true := by
  obtain ⟨⟨h1, h2⟩, _⟩ := h
  have : n.contains SL = false := by
    cases hc : n.contains SL with
    | false => rfl
    | true => exact absurd rfl (h2 SL (by simpa using hc))
  unfold validName
  rw [this]
  cases n with
  | nil => exact absurd rfl h1
  | cons x xs => rfl

theorem comps_leaf {a : List Bytes} {n : Bytes} (ha : ∀ c ∈ a, ValidComp c) (hn : ValidComp n) :
    (∀ c ∈ a ++ [n], c ≠ [] ∧ ∀ x ∈ c, x ≠ SL) ∧ (∀ c ∈ a ++ [n], c ≠ [DOT] ∧ c ≠ [DOT, DOT]) := by
  constructor <;> intro c hc <;> simp only [List.mem_append, List.mem_singleton] at hc
  · rcases hc with hc | rfl
    · exact (ha c hc).1
    · exact hn.1
  · rcases hc with hc | rfl
    · exact (ha c hc).2
    · exact hn.2

theorem dirPerm_admin {s : Store} {v : View} {d : Ino} (hd : isDirAt s d = true) (hadm : v.admin = true) (w : Nat) :
    dirPerm s d w v = true := by
  obtain ⟨m, ch, hg⟩ := isDirAt_iff.mp hd
  simp [dirPerm, hg, checkPerm, hadm]

namespace Setting

variable {s : Store} {root : Ino} {v : View} {a : List Bytes} {par d : Ino}

/-- the descent to a leaf name of `d` -/
theorem walk_leaf (h : Setting s root v a par d) {D : Dir} (hsim : Sim s d D) (n : Bytes) :
    walkPath s v root (a ++ [n]) =
      match s.child d n with
      | none => .missingLast d n
      | some i => .found d i := by
  obtain ⟨m, ch, hg⟩ := isDirAt_iff.mp h.isDir
  rw [walkPath_append s v root a [n] (by simp) par d m ch h.reach hg]
  cases hc : s.child d n with
  | none => simp [walkPath, hg, checkPerm, h.admin, hc]
  | some i =>
    cases hgi : s.get i with
    | none => simp [walkPath, hg, checkPerm, h.admin, hc, hgi]
    | some nd =>
      cases nd with
      | symlink ms l => exact absurd hgi (hsim.noLink n i ms l hc)
      | dir mi chi => simp [walkPath, hg, checkPerm, h.admin, hc, hgi]
      | file mf df nl id => simp [walkPath, hg, checkPerm, h.admin, hc, hgi]

/-- `d` belongs to the tree -/
theorem attached (h : Setting s root v a par d) : d = root ∨ ∃ p pn, Edge s p pn d := by
  have hr := h.reach
  cases a with
  | nil =>
    simp only [walkPath, Resolved.found.injEq] at hr
    exact Or.inl hr.2.symm
  | cons c rest =>
    obtain ⟨he, _, _⟩ := walkPath_found rest c root par d hr
    exact Or.inr ⟨par, _, he⟩

end Setting

/-- the descent that reaches the directory `d` reads only directories strictly above `d`: it is the same in every heap
    that agrees with `s` on the directories other than `d` and the entries of `d`, and in which `d` is a directory -/
theorem walkPath_stable {s s' : Store} {root : Ino} (v : View) (hwf : WF s root) {d : Ino}
    (hd : isDirAt s d = true) (hd' : isDirAt s' d = true)
    (hsame : ∀ j, isDirAt s j = true → j ≠ d → (∀ n, ¬ Edge s d n j) → s'.get j = s.get j)
    (a : List Bytes) (r par : Ino) (hr : walkPath s v r a = .found par d) :
    walkPath s' v r a = .found par d := by
  obtain ⟨dp, hdp⟩ := hwf.depth
  have hsame' : ∀ j, isDirAt s j = true → dp j < dp d → s'.get j = s.get j := by
    intro j hj hlt
    refine hsame j hj (fun e => by subst e; omega) (fun n he => ?_)
    have := hdp d n j he hj
    omega
  suffices H : ∀ (a : List Bytes) (r : Ino), walkPath s v r a = .found par d →
      dp r + a.length = dp d ∧ walkPath s' v r a = .found par d from (H a r hr).2
  intro a
  induction a with
  | nil =>
    intro r hr
    simp only [walkPath, Resolved.found.injEq] at hr
    obtain ⟨rfl, rfl⟩ := hr
    exact ⟨rfl, rfl⟩
  | cons x xs ih =>
    intro r hr
    cases hgr : s.get r with
    | none => cases xs <;> simp [walkPath, hgr] at hr
    | some nr =>
      cases nr with
      | file mf df nl id => cases xs <;> simp [walkPath, hgr] at hr
      | symlink ms lk => cases xs <;> simp [walkPath, hgr] at hr
      | dir mr chr =>
        have hrd : isDirAt s r = true := isDirAt_of_get hgr
        by_cases hp : checkPerm mr omLookup v = true
        · cases hch : s.child r x with
          | none => cases xs <;> simp [walkPath, hgr, hp, hch] at hr
          | some i =>
            cases xs with
            | nil =>
              have hic : r = par ∧ i = d := by
                cases hgi : s.get i with
                | none => simpa [walkPath, hgr, hp, hch, hgi] using hr
                | some n => cases n <;> simp [walkPath, hgr, hp, hch, hgi] at hr <;> exact hr
              obtain ⟨rfl, rfl⟩ := hic
              have hdep := hdp r x i hch hd
              have hgr' : s'.get r = s.get r := hsame' r hrd (by omega)
              obtain ⟨md, chd, hgd'⟩ := isDirAt_iff.mp hd'
              refine ⟨by simp; omega, ?_⟩
              have hch' : s'.child r x = some i := by rw [Store.child_congr hgr']; exact hch
              simp [walkPath, hgr', hgr, hp, hch', hgd']
            | cons x' xs' =>
              cases hgi : s.get i with
              | none => simp [walkPath, hgr, hp, hch, hgi] at hr
              | some n =>
                cases n with
                | file mf df nl id => simp [walkPath, hgr, hp, hch, hgi] at hr
                | symlink ms lk => simp [walkPath, hgr, hp, hch, hgi] at hr
                | dir mi chi =>
                  have hr' : walkPath s v i (x' :: xs') = .found par d := by
                    simpa [walkPath, hgr, hp, hch, hgi] using hr
                  obtain ⟨h1, h2⟩ := ih i hr'
                  have hid : isDirAt s i = true := isDirAt_of_get hgi
                  have hdep := hdp r x i hch hid
                  simp only [List.length_cons] at h1 ⊢
                  have hgr' : s'.get r = s.get r := hsame' r hrd (by omega)
                  have hgi' : s'.get i = s.get i := hsame' i hid (by omega)
                  have hch' : s'.child r x = some i := by rw [Store.child_congr hgr']; exact hch
                  refine ⟨by omega, ?_⟩
                  simpa [walkPath, hgr', hgr, hp, hch', hgi', hgi] using h2
        · have hp' : checkPerm mr omLookup v = false := by simpa using hp
          cases xs <;> simp [walkPath, hgr, hp'] at hr

/-! ### C. creating a leaf (`createDir`, `createFile` = `addLeaf`) -/

section Create

variable {s : Store} {root : Ino} {v : View} {a : List Bytes} {par d : Ino} {L : Nat} {n : Bytes} {nd : Node}

theorem addLeaf_get {m : Meta} {ch : List (Bytes × Ino)} (hd : s.get d = some (.dir m ch)) (hdc : d ≠ s.next)
    (j : Ino) :
    (addLeaf s L d n nd).get j =
      if j = d then some (.dir m (AL.insert n s.next ch)) else if j = s.next then some nd else s.get j := by
  rw [addLeaf_eq hd hdc]
  simp only [Store.get, AL.lookup_insert]
  by_cases h1 : j = d
  · subst h1; simp
  · have h1' : ¬ d = j := fun e => h1 e.symm
    by_cases h2 : j = s.next
    · subst h2; simp [h1', h1]
    · have h2' : ¬ s.next = j := fun e => h2 e.symm
      simp [h1, h1', h2, h2']

theorem addLeaf_next {m : Meta} {ch : List (Bytes × Ino)} (hd : s.get d = some (.dir m ch)) (hdc : d ≠ s.next) :
    (addLeaf s L d n nd).next = s.next + 1 := by
  rw [addLeaf_eq hd hdc]

theorem addLeaf_child (hwf : WF s root) (hdir : isDirAt s d = true) (hleaf : nd.ch = []) (j : Ino) (n' : Bytes) :
    (addLeaf s L d n nd).child j n' = if j = d ∧ n' = n then some s.next else s.child j n' := by
  obtain ⟨m, ch, hd⟩ := isDirAt_iff.mp hdir
  have hnn := get_next_none hwf
  have hdc : d ≠ s.next := by intro e; rw [e, hnn] at hd; cases hd
  have hg := addLeaf_get (L := L) (n := n) (nd := nd) hd hdc
  by_cases h1 : j = d
  · subst h1
    have hg1 := hg j
    simp only [if_true] at hg1
    unfold Store.child
    rw [Store.children_of_dir hg1, Store.children_of_dir hd, AL.lookup_insert]
    by_cases h2 : n' = n
    · subst h2; simp
    · have : ¬ n = n' := fun e => h2 e.symm
      simp [h2, this]
  · simp only [h1, false_and, if_false]
    by_cases h2 : j = s.next
    · subst h2
      have hg2 := hg s.next
      simp only [h1, if_false, if_true] at hg2
      unfold Store.child
      rw [Store.children_eq_ch hg2, hleaf, Store.children_of_none hnn]
    · have hg3 := hg j
      simp only [h1, h2, if_false] at hg3
      exact Store.child_congr hg3 n'

/-- the setting survives the creation of a leaf in `d` -/
theorem Setting.addLeaf (h : Setting s root v a par d) (hn : ValidComp n) (hleaf : nd.ch = [])
    (hwf' : WF (addLeaf s L d n nd) root) : Setting (addLeaf s L d n nd) root v a par d := by
  obtain ⟨m, ch, hd⟩ := isDirAt_iff.mp h.isDir
  have hnn := get_next_none h.wf
  have hdc : d ≠ s.next := by intro e; rw [e, hnn] at hd; cases hd
  have hg := addLeaf_get (L := L) (n := n) (nd := nd) hd hdc
  have hd' : isDirAt (FS.addLeaf s L d n nd) d = true := by
    have := hg d
    simp only [if_true] at this
    exact isDirAt_of_get this
  refine ⟨hwf', ?_, ⟨h.vroot ▸ hwf'.rootDir, h.view.cwdAbs⟩, h.vroot, h.admin, h.comps, ?_, hd'⟩
  · intro j n' c he
    unfold Edge at he
    rw [addLeaf_child h.wf h.isDir hleaf] at he
    split at he
    · rename_i hc; rw [hc.2]; exact validName_of_validComp hn
    · exact h.names j n' c he
  · refine walkPath_stable v h.wf h.isDir hd' ?_ a root par h.reach
    intro j hj hjd _
    have hjn : j ≠ s.next := by
      intro e; rw [e] at hj; simp [isDirAt, hnn] at hj
    rw [hg j]
    simp [hjd, hjn]

/-- the simulation survives: `D.create` enters the same name with the same (next) node number -/
theorem Sim.addLeaf {D : Dir} (h : Setting s root v a par d) (hsim : Sim s d D) (hleaf : nd.ch = [])
    (hns : ∀ m l, nd ≠ .symlink m l) (hfile : ∀ fm fd nl id, nd = .file fm fd nl id → nl = 1) :
    Sim (addLeaf s L d n nd) d (D.create n nd.isDir) := by
  obtain ⟨m, ch, hd⟩ := isDirAt_iff.mp h.isDir
  have hnn := get_next_none h.wf
  have hdc : d ≠ s.next := by intro e; rw [e, hnn] at hd; cases hd
  have hg := addLeaf_get (L := L) (n := n) (nd := nd) hd hdc
  have hgn : (FS.addLeaf s L d n nd).get s.next = some nd := by
    have := hg s.next
    have hne : ¬ s.next = d := fun e => hdc e.symm
    simpa [hne] using this
  have hchild := addLeaf_child (L := L) (n := n) (nd := nd) h.wf h.isDir hleaf
  -- the nodes of the old entries are untouched
  have hold : ∀ n' i, s.child d n' = some i → (FS.addLeaf s L d n nd).get i = s.get i := by
    intro n' i hc
    have hid : i ≠ d := fun e => no_self_edge h.wf h.isDir (e ▸ hc)
    have hin : i ≠ s.next := by
      intro e
      have := h.wf.alloc d n' i hc
      rw [e, hnn] at this; cases this
    rw [hg i]; simp [hid, hin]
  have hlk : ∀ n' : Bytes, AL.lookup n' (D.create n nd.isDir).entries =
      if n = n' then some (D.next, nd.isDir) else AL.lookup n' D.entries := by
    intro n'; simp [Dir.create, AL.lookup_insert]
  have hold_ne : ∀ n' i b, AL.lookup n' D.entries = some (i, b) → s.child d n' = some i ∧ i ≠ s.next := by
    intro n' i b hl
    have hc : s.child d n' = some i := by rw [← hsim.entries n', hl]; rfl
    refine ⟨hc, fun e => ?_⟩
    have := h.wf.alloc d n' i hc
    rw [e, hnn] at this; cases this
  refine ⟨?_, ?_, ?_, ?_, ?_, ?_⟩
  · intro n'
    rw [hlk, hchild]
    by_cases hnn' : n = n'
    · subst hnn'; simp [hsim.next]
    · have : ¬ n' = n := fun e => hnn' e.symm
      simp [hnn', this, hsim.entries n']
  · intro n' i b hl
    rw [hlk] at hl
    by_cases hnn' : n = n'
    · simp only [hnn', if_true, Option.some.injEq, Prod.mk.injEq] at hl
      obtain ⟨rfl, rfl⟩ := hl
      rw [hsim.next, isDirAt_eq_isDir hgn]
    · simp only [hnn', if_false] at hl
      obtain ⟨hc, _⟩ := hold_ne n' i b hl
      rw [isDirAt_congr (hold n' i hc)]
      exact hsim.isDir n' i b hl
  · intro n' i m' ch' hc hgi
    rw [hchild] at hc
    by_cases hnn' : n' = n
    · simp only [hnn', and_self, if_true, Option.some.injEq] at hc
      subst hc
      rw [hgn] at hgi
      injection hgi with hgi
      subst hgi
      exact hleaf
    · simp only [hnn', and_false, if_false] at hc
      rw [hold n' i hc] at hgi
      exact hsim.emptyDir n' i m' ch' hc hgi
  · intro n' i m' l hc hgi
    rw [hchild] at hc
    by_cases hnn' : n' = n
    · simp only [hnn', and_self, if_true, Option.some.injEq] at hc
      subst hc
      rw [hgn] at hgi
      injection hgi with hgi
      exact hns m' l hgi
    · simp only [hnn', and_false, if_false] at hc
      rw [hold n' i hc] at hgi
      exact hsim.noLink n' i m' l hc hgi
  · intro n' i hl
    rw [hlk] at hl
    have hnl : ∀ j : Nat, AL.lookup j (D.create n nd.isDir).nlink = if D.next = j then some 1 else AL.lookup j D.nlink := by
      intro j; simp [Dir.create, AL.lookup_insert]
    by_cases hnn' : n = n'
    · simp only [hnn', if_true, Option.some.injEq, Prod.mk.injEq] at hl
      obtain ⟨rfl, hb⟩ := hl
      rw [hnl, hsim.next, hgn]
      cases nd with
      | dir m' ch' => simp [Node.isDir] at hb
      | symlink m' l => exact absurd rfl (hns m' l)
      | file fm fd nl id =>
        have := hfile fm fd nl id rfl
        subst this
        exact ⟨fm, fd, 1, id, rfl, by simp⟩
    · simp only [hnn', if_false] at hl
      obtain ⟨hc, hin⟩ := hold_ne n' i false hl
      obtain ⟨fm, fd, nl, id, hgi, hln⟩ := hsim.nlink n' i hl
      refine ⟨fm, fd, nl, id, by rw [hold n' i hc]; exact hgi, ?_⟩
      rw [hnl, hsim.next]
      have : ¬ s.next = i := fun e => hin e.symm
      simp [this, hln]
  · show D.next + 1 = _
    rw [addLeaf_next hd hdc, hsim.next]

end Create

/-! ### D. removing a leaf (`removeChild` then `deleteNode`) -/

section Remove

variable {s : Store} {root : Ino} {v : View} {a : List Bytes} {par d : Ino} {n : Bytes} {i : Ino}

theorem deleteNode_get_file {s : Store} {i : Ino} {m : Meta} {dt : Bytes} {nl : Int} {id : Nat}
    (h : s.get i = some (.file m dt nl id)) : (deleteNode s i).get i = some (.file m dt (nl - 1) id) := by
  simp [deleteNode, h, Store.get_set_eq]

theorem deleteNode_get_dir {s : Store} {i : Ino} {m : Meta} {ch : List (Bytes × Ino)}
    (h : (deleteNode s i).get i = some (.dir m ch)) : ch = [] := by
  unfold deleteNode at h
  split at h
  · rw [Store.get_set_eq] at h; injection h with h; injection h with _ h; exact h.symm
  · rw [Store.get_set_eq] at h; cases h
  · rw [Store.get_set_eq] at h; cases h
  · rename_i hg; rw [hg] at h; cases h

/-- a leaf has no entries -/
theorem Sim.leaf_empty {D : Dir} (hsim : Sim s d D) (he : s.child d n = some i) : ∀ n' x, ¬ Edge s i n' x := by
  cases hdi : isDirAt s i with
  | false => exact hr_no_edges_of_not_dir hdi
  | true =>
    obtain ⟨m, ch, hg⟩ := isDirAt_iff.mp hdi
    have := hsim.emptyDir n i m ch he hg
    subst this
    exact hr_no_edges_of_empty_dir hg (by simp [alKeys])

theorem removed_child (s : Store) (d : Ino) (n : Bytes) (i j : Ino) (n' : Bytes) :
    (deleteNode (removeChild s d n) i).child j n' =
      if j = i then none else if j = d ∧ n' = n then none else s.child j n' := by
  rw [hr_child_deleteNode, hr_child_removeChild]

theorem removed_get (s : Store) (d : Ino) (n : Bytes) (i j : Ino) (hd : j ≠ d) (hi : j ≠ i) :
    (deleteNode (removeChild s d n) i).get j = s.get j := by
  rw [hr_get_deleteNode_ne _ _ _ hi, hr_get_removeChild_ne _ _ _ _ hd]

/-- the setting survives the removal of a leaf of `d` -/
theorem Setting.removeLeaf {D : Dir} (h : Setting s root v a par d) (hsim : Sim s d D) (he : s.child d n = some i) :
    Setting (deleteNode (removeChild s d n) i) root v a par d := by
  have hsh := (HrShape.removeChild s d n).trans (HrShape.deleteNode _ i)
  have hwf' : WF (deleteNode (removeChild s d n) i) root := wf_unlink_dr h.wf he (hsim.leaf_empty he)
  have hd' : isDirAt (deleteNode (removeChild s d n) i) d = true := by rw [hsh.isDir]; exact h.isDir
  refine ⟨hwf', ?_, ⟨h.vroot ▸ hwf'.rootDir, h.view.cwdAbs⟩, h.vroot, h.admin, h.comps, ?_, hd'⟩
  · intro j n' c hej
    unfold Edge at hej
    rw [removed_child] at hej
    split at hej
    · cases hej
    · split at hej
      · cases hej
      · exact h.names j n' c hej
  · refine walkPath_stable v h.wf h.isDir hd' ?_ a root par h.reach
    intro j hj hjd hnc
    exact removed_get s d n i j hjd (fun e => hnc n (e ▸ he))

/-- the simulation survives: `D.unlink` erases the same name and releases the same node once -/
theorem Sim.removeLeaf {D : Dir} (h : Setting s root v a par d) (hsim : Sim s d D) (he : s.child d n = some i) :
    Sim (deleteNode (removeChild s d n) i) d (D.unlink n i) := by
  have hsh := (HrShape.removeChild s d n).trans (HrShape.deleteNode _ i)
  have hid : i ≠ d := fun e => no_self_edge h.wf h.isDir (e ▸ he)
  have hdi : ¬ d = i := fun e => hid e.symm
  have hchild : ∀ n', (deleteNode (removeChild s d n) i).child d n' = if n' = n then none else s.child d n' := by
    intro n'; rw [removed_child]; simp [hdi]
  have hlk : ∀ n' : Bytes, AL.lookup n' (D.unlink n i).entries = if n = n' then none else AL.lookup n' D.entries := by
    intro n'; simp [Dir.unlink, AL.lookup_erase]
  have hnl : ∀ j : Nat, AL.lookup j (D.unlink n i).nlink =
      if i = j then some ((AL.lookup i D.nlink).getD 0 - 1) else AL.lookup j D.nlink := by
    intro j; simp [Dir.unlink, AL.lookup_insert]
  -- a remaining entry: its node is `i` (another name of the same file) or an untouched node
  have hold : ∀ n' j, s.child d n' = some j → j ≠ i → (deleteNode (removeChild s d n) i).get j = s.get j := by
    intro n' j hc hji
    exact removed_get s d n i j (fun e => no_self_edge h.wf h.isDir (e ▸ hc)) hji
  refine ⟨?_, ?_, ?_, ?_, ?_, ?_⟩
  · intro n'
    rw [hlk, hchild]
    by_cases hnn' : n = n'
    · subst hnn'; simp
    · have : ¬ n' = n := fun e => hnn' e.symm
      simp [hnn', this, hsim.entries n']
  · intro n' j b hl
    rw [hlk] at hl
    split at hl
    · cases hl
    · rw [hsh.isDir]; exact hsim.isDir n' j b hl
  · intro n' j m' ch' hc hgj
    rw [hchild] at hc
    split at hc
    · cases hc
    · by_cases hji : j = i
      · subst hji; exact deleteNode_get_dir hgj
      · rw [hold n' j hc hji] at hgj
        exact hsim.emptyDir n' j m' ch' hc hgj
  · intro n' j m' l hc hgj
    rw [hchild] at hc
    split at hc
    · cases hc
    · by_cases hji : j = i
      · subst hji
        -- the kind of a node does not change
        have hrel := hsh.rel j
        rw [hgj] at hrel
        cases hgi : s.get j with
        | none => simp [hgi, hr_optRel] at hrel
        | some x =>
          cases x with
          | symlink ms ls => exact hsim.noLink n' j ms ls hc hgi
          | dir _ _ => simp [hgi, hr_optRel, hr_nodeRel] at hrel
          | file _ _ _ _ => simp [hgi, hr_optRel, hr_nodeRel] at hrel
      · rw [hold n' j hc hji] at hgj
        exact hsim.noLink n' j m' l hc hgj
  · intro n' j hl
    rw [hlk] at hl
    split at hl
    · cases hl
    · have hc : s.child d n' = some j := by rw [← hsim.entries n', hl]; rfl
      obtain ⟨fm, fd, nl, id, hgj, hln⟩ := hsim.nlink n' j hl
      by_cases hji : j = i
      · subst hji
        refine ⟨fm, fd, nl - 1, id, ?_, ?_⟩
        · apply deleteNode_get_file
          rw [hr_get_removeChild_ne _ _ _ _ hid]; exact hgj
        · rw [hnl]; simp [hln]
      · refine ⟨fm, fd, nl, id, by rw [hold n' j hc hji]; exact hgj, ?_⟩
        rw [hnl]
        have : ¬ i = j := fun e => hji e.symm
        simp [this, hln]
  · show D.next = _
    rw [hsh.next, hsim.next]

end Remove

/-! ### E. the step theorems: each MemFS call on a leaf name of `d` is `dspec` -/

/-- the MemFS outcome of Mkdir / Remove that corresponds to an abstract result -/
def outOf : DRes → Out
  | .ok => .ok .unit
  | .eexist => .err .EEXIST
  | .enoent => .err .ENOENT

section Steps

variable {s : Store} {root : Ino} {v : View} {a : List Bytes} {par d : Ino} {D : Dir}

theorem Sim.lookup_none (hsim : Sim s d D) {n : Bytes} (hc : s.child d n = none) : AL.lookup n D.entries = none := by
  have := hsim.entries n
  rw [hc] at this
  simpa using this

theorem Sim.lookup_some (hsim : Sim s d D) {n : Bytes} {i : Ino} (hc : s.child d n = some i) :
    ∃ b, AL.lookup n D.entries = some (i, b) := by
  have := hsim.entries n
  rw [hc] at this
  cases hl : AL.lookup n D.entries with
  | none => simp [hl] at this
  | some x =>
    obtain ⟨j, b⟩ := x
    simp [hl] at this
    exact ⟨b, by rw [this]⟩

theorem getLast_leaf (a : List Bytes) (n : Bytes) (h : a ++ [n] ≠ []) : (a ++ [n]).getLast h = n := by simp

/-- Mkdir("/a…/n") is `dspec (.mkdir n)` -/
theorem mkdir_refines (h : Setting s root v a par d) (hsim : Sim s d D) (n : Bytes) (hn : ValidComp n) (perm : Nat) :
    (mkdir s v (leafPath a n) perm).2 = outOf (dspec (.mkdir n) D).2 ∧
    Sim (mkdir s v (leafPath a n) perm).1 d (dspec (.mkdir n) D).1 ∧
    Setting (mkdir s v (leafPath a n) perm).1 root v a par d := by
  obtain ⟨hall, hdots⟩ := comps_leaf h.comps hn
  have hp := mkdir_posix s root v h.wf h.names h.view h.vroot (a ++ [n]) (by simp) hall hdots perm
  rw [h.walk_leaf hsim n] at hp
  unfold leafPath
  cases hc : s.child d n with
  | some i =>
    obtain ⟨b, hl⟩ := hsim.lookup_some hc
    simp only [hc, posixMkdir] at hp
    rw [hp]
    simp only [dspec, hl, Option.isSome_some, if_true, outOf]
    exact ⟨trivial, hsim, h⟩
  | none =>
    have hl := hsim.lookup_none hc
    simp only [hc, posixMkdir, dirPerm_admin h.isDir h.admin, if_true] at hp
    rw [hp.2]
    simp only [dspec, hl, Option.isSome_none, Bool.false_eq_true, if_false, outOf]
    obtain ⟨m, hcd⟩ := createDir_eq s v d n perm
    have hwf' := wf_createDir v perm h.wf h.isDir h.attached hc
    rw [hcd] at hwf' ⊢
    exact ⟨trivial, hsim.addLeaf (nd := .dir m []) h rfl (by intro _ _ e; cases e) (by intro _ _ _ _ e; cases e),
      h.addLeaf hn rfl hwf'⟩

/-- OpenFile("/a…/n", O_CREATE|O_EXCL|O_RDWR) is `dspec (.createExcl n)`; success is the handle of the new file -/
theorem createExcl_refines (h : Setting s root v a par d) (hsim : Sim s d D) (n : Bytes) (hn : ValidComp n)
    (vid perm : Nat) :
    (openFile s v vid (leafPath a n) oCreatExcl perm).2 =
      (match (dspec (.createExcl n) D).2 with
       | .ok => .ok (newHandle vid (leafPath a n) s.next)
       | .eexist => .error .EEXIST
       | .enoent => .error .ENOENT) ∧
    Sim (openFile s v vid (leafPath a n) oCreatExcl perm).1 d (dspec (.createExcl n) D).1 ∧
    Setting (openFile s v vid (leafPath a n) oCreatExcl perm).1 root v a par d := by
  obtain ⟨hall, hdots⟩ := comps_leaf h.comps hn
  have hp := openFile_excl_posix s root v vid h.wf h.names h.view h.vroot h.admin (a ++ [n]) (by simp) hall hdots perm
  rw [h.walk_leaf hsim n] at hp
  unfold leafPath
  cases hc : s.child d n with
  | some i =>
    obtain ⟨b, hl⟩ := hsim.lookup_some hc
    simp only [hc] at hp
    rw [hp]
    simp only [dspec, hl, Option.isSome_some, if_true]
    exact ⟨trivial, hsim, h⟩
  | none =>
    have hl := hsim.lookup_none hc
    simp only [hc] at hp
    rw [hp.2]
    simp only [dspec, hl, Option.isSome_none, Bool.false_eq_true, if_false]
    obtain ⟨m, hcd⟩ := createFile_eq s v d n perm
    have hwf' := wf_createFile v perm h.wf h.isDir h.attached hc
    rw [hcd] at hwf' ⊢
    exact ⟨trivial, hsim.addLeaf (nd := .file m [] 1 (s.lastId + 1)) h rfl (by intro _ _ e; cases e)
      (by intro _ _ _ _ e; injection e with _ _ e _; exact e.symm), h.addLeaf hn rfl hwf'⟩

/-- Remove("/a…/n") is `dspec (.remove n)` -/
theorem remove_refines (h : Setting s root v a par d) (hsim : Sim s d D) (n : Bytes) (hn : ValidComp n) :
    (remove s v (leafPath a n)).2 = outOf (dspec (.remove n) D).2 ∧
    Sim (remove s v (leafPath a n)).1 d (dspec (.remove n) D).1 ∧
    Setting (remove s v (leafPath a n)).1 root v a par d := by
  obtain ⟨hall, hdots⟩ := comps_leaf h.comps hn
  have hp := remove_posix s root v h.wf h.names h.view h.vroot (a ++ [n]) (by simp) hall hdots
  rw [h.walk_leaf hsim n] at hp
  unfold leafPath
  cases hc : s.child d n with
  | none =>
    have hl := hsim.lookup_none hc
    simp only [hc, posixRemove] at hp
    rw [hp]
    simp only [dspec, hl, outOf]
    exact ⟨trivial, hsim, h⟩
  | some i =>
    obtain ⟨b, hl⟩ := hsim.lookup_some hc
    have hrd : restrictedDeletion s v d i = false := by
      unfold restrictedDeletion
      split <;> simp [h.admin]
    have hpr : posixRemove s v (.found d i) = .unlink d i := by
      simp only [posixRemove, dirPerm_admin h.isDir h.admin, hrd]
      cases hgi : s.get i with
      | none => simp
      | some x =>
        cases x with
        | dir m ch =>
          have := hsim.emptyDir n i m ch hc hgi
          subst this
          simp [alKeys]
        | file _ _ _ _ => simp
        | symlink _ _ => simp
    simp only [hc, hpr, getLast_leaf] at hp
    rw [hp]
    simp only [dspec, hl, outOf]
    exact ⟨trivial, hsim.removeLeaf h hc, h.removeLeaf hsim hc⟩

end Steps

/-! ### F. one call, a sequential log, a concurrent execution -/

/-- what a MemFS call returns: Mkdir / Remove an `Out`, OpenFile a handle or an error -/
inductive MOut
  | out (o : Out)
  | opened (r : Except Err Handle)

def opName : DOp → Bytes
  | .mkdir n => n
  | .createExcl n => n
  | .remove n => n

/-- the MemFS model call for an abstract operation on the leaf name of the directory reached by `a` -/
def memCall (v : View) (vid : Nat) (a : List Bytes) (perm : Nat) : DOp → Store → Store × MOut
  | .mkdir n, s => ((mkdir s v (leafPath a n) perm).1, .out (mkdir s v (leafPath a n) perm).2)
  | .createExcl n, s =>
    ((openFile s v vid (leafPath a n) oCreatExcl perm).1, .opened (openFile s v vid (leafPath a n) oCreatExcl perm).2)
  | .remove n, s => ((remove s v (leafPath a n)).1, .out (remove s v (leafPath a n)).2)

/-- the abstract result a MemFS outcome stands for (`none`: an outcome `dspec` does not have) -/
def absOut : MOut → Option DRes
  | .out (.ok .unit) => some .ok
  | .out (.err .EEXIST) => some .eexist
  | .out (.err .ENOENT) => some .enoent
  | .opened (.ok _) => some .ok
  | .opened (.error .EEXIST) => some .eexist
  | .opened (.error .ENOENT) => some .enoent
  | _ => none

section Runs

variable {root : Ino} {v : View} {a : List Bytes} {par d : Ino}

/-- STEP: every operation, executed by the MemFS model on a related heap, returns the outcome of `dspec` and leads to a
    related heap in the same setting -/
theorem step_refines {s : Store} {D : Dir} (h : Setting s root v a par d) (hsim : Sim s d D) (op : DOp)
    (hn : ValidComp (opName op)) (vid perm : Nat) :
    absOut (memCall v vid a perm op s).2 = some (dspec op D).2 ∧
    Sim (memCall v vid a perm op s).1 d (dspec op D).1 ∧
    Setting (memCall v vid a perm op s).1 root v a par d := by
  cases op with
  | mkdir n =>
    obtain ⟨h1, h2, h3⟩ := mkdir_refines h hsim n hn perm
    refine ⟨?_, h2, h3⟩
    simp only [memCall, h1]
    cases (dspec (.mkdir n) D).2 <;> rfl
  | createExcl n =>
    obtain ⟨h1, h2, h3⟩ := createExcl_refines h hsim n hn vid perm
    refine ⟨?_, h2, h3⟩
    simp only [memCall, h1]
    cases (dspec (.createExcl n) D).2 <;> rfl
  | remove n =>
    obtain ⟨h1, h2, h3⟩ := remove_refines h hsim n hn
    refine ⟨?_, h2, h3⟩
    simp only [memCall, h1]
    cases (dspec (.remove n) D).2 <;> rfl

/-- the sequential execution of a list of calls: the outcomes in order, and the final state -/
def seqOuts {σ α ρ : Type} (spec : α → σ → σ × ρ) : σ → List α → List ρ × σ
  | s, [] => ([], s)
  | s, x :: l => ((spec x s).2 :: (seqOuts spec (spec x s).1 l).1, (seqOuts spec (spec x s).1 l).2)

/-- the MemFS model executing a list of leaf operations one after the other -/
def memRun (v : View) (vid : Nat) (a : List Bytes) (perm : Nat) (ops : List DOp) (s : Store) : List MOut × Store :=
  seqOuts (memCall v vid a perm) s ops

/-- RUN: for every list of operations, the MemFS model and `dspec` return corresponding outcomes at every position
    (same length, position by position) and end in related states -/
theorem run_refines (vid perm : Nat) (ops : List DOp) (hops : ∀ op ∈ ops, ValidComp (opName op)) :
    ∀ (s : Store) (D : Dir), Setting s root v a par d → Sim s d D →
      (memRun v vid a perm ops s).1.map absOut = (seqOuts dspec D ops).1.map some ∧
      Sim (memRun v vid a perm ops s).2 d (seqOuts dspec D ops).2 ∧
      Setting (memRun v vid a perm ops s).2 root v a par d := by
  induction ops with
  | nil => intro s D h hsim; exact ⟨rfl, hsim, h⟩
  | cons op ops ih =>
    intro s D h hsim
    obtain ⟨h1, h2, h3⟩ := step_refines h hsim op (hops op (by simp)) vid perm
    obtain ⟨k1, k2, k3⟩ := ih (fun o ho => hops o (by simp [ho])) _ _ h3 h2
    refine ⟨?_, k2, k3⟩
    simp only [memRun, seqOuts, List.map_cons, h1] at k1 ⊢
    rw [k1]

/-! #### the log of a concurrent execution -/

/-- the outcomes at the positions of a log that belong to thread `t` -/
def resultsOf {α ρ : Type} (t : Nat) : List (Nat × α) → List ρ → List ρ
  | (u, _) :: log, r :: outs => if u = t then r :: resultsOf t log outs else resultsOf t log outs
  | _, _ => []

theorem resultsOf_map {α ρ ρ' : Type} (f : ρ → ρ') (t : Nat) (log : List (Nat × α)) :
    ∀ outs : List ρ, resultsOf t log (outs.map f) = (resultsOf t log outs).map f := by
  induction log with
  | nil => intro outs; cases outs <;> rfl
  | cons x log ih =>
    intro outs
    obtain ⟨u, y⟩ := x
    cases outs with
    | nil => rfl
    | cons r outs =>
      simp only [List.map_cons, resultsOf]
      split
      · simp [ih]
      · exact ih outs

/-- `Lin.seqRun` (results distributed to the threads) through `seqOuts` (results by position) -/
theorem seqRun_eq_seqOuts {σ α ρ : Type} (spec : α → σ → σ × ρ) (log : List (Nat × α)) :
    ∀ (s : σ) (res : Nat → List ρ),
      (Lin.seqRun spec s res log).1 = (seqOuts spec s (log.map (·.2))).2 ∧
      ∀ t, (Lin.seqRun spec s res log).2 t = res t ++ resultsOf t log (seqOuts spec s (log.map (·.2))).1 := by
  induction log with
  | nil => intro s res; exact ⟨rfl, fun t => by simp [Lin.seqRun, resultsOf]⟩
  | cons x log ih =>
    intro s res
    obtain ⟨u, y⟩ := x
    have hstep : Lin.seqRun spec s res ((u, y) :: log) =
        Lin.seqRun spec (spec y s).1 (fun w => if w = u then res w ++ [(spec y s).2] else res w) log := rfl
    obtain ⟨h1, h2⟩ := ih (spec y s).1 (fun w => if w = u then res w ++ [(spec y s).2] else res w)
    rw [hstep]
    refine ⟨h1, fun t => ?_⟩
    rw [h2 t]
    simp only [List.map_cons, seqOuts, resultsOf]
    by_cases htu : t = u
    · subst htu; simp
    · have : ¬ u = t := fun e => htu e.symm
      simp [htu, this]

/-- only calls of the programs are ever decided -/
theorem step_todo {σ α ω ρ : Type} (impl : α → Lin.TwoPhase σ ω ρ) (P : α → Prop) (c : Lin.Config σ α ω ρ) (t : Nat)
    (hc : ∀ th ∈ c.ths, ∀ x ∈ th.todo, P x) :
    (∀ th ∈ (Lin.step impl c t).1.ths, ∀ x ∈ th.todo, P x) ∧ ∀ y ∈ Lin.decided (Lin.step impl c t).2, P y.2 := by
  unfold Lin.step
  split
  · exact ⟨hc, by simp [Lin.decided]⟩
  · rename_i th hth
    have hmem : th ∈ c.ths := List.mem_of_getElem? hth
    split
    · exact ⟨hc, by simp [Lin.decided]⟩
    · rename_i x rest htodo
      have hx : P x := hc th hmem x (by simp [htodo])
      have hrest : ∀ z ∈ rest, P z := fun z hz => hc th hmem z (by simp [htodo, hz])
      have hset : ∀ (th' : Lin.Thread α ω ρ), (∀ z ∈ th'.todo, P z) →
          ∀ th'' ∈ c.ths.set t th', ∀ z ∈ th''.todo, P z := by
        intro th' hth' th'' hm z hz
        rcases List.mem_or_eq_of_mem_set hm with hm | rfl
        · exact hc th'' hm z hz
        · exact hth' z hz
      split
      · split
        · exact ⟨hset _ hrest, by simp [Lin.decided, hx]⟩
        · exact ⟨hset _ (fun z hz => hc th hmem z hz), by simp [Lin.decided]⟩
      · exact ⟨hset _ hrest, by simp [Lin.decided, hx]⟩

theorem run_log_mem {σ α ω ρ : Type} (impl : α → Lin.TwoPhase σ ω ρ) (P : α → Prop) (sched : List Nat) :
    ∀ (c : Lin.Config σ α ω ρ), (∀ th ∈ c.ths, ∀ x ∈ th.todo, P x) → ∀ y ∈ (Lin.run impl c sched).2, P y.2 := by
  induction sched with
  | nil => intro c _ y hy; simp [Lin.run_nil] at hy
  | cons t ts ih =>
    intro c hc y hy
    obtain ⟨h1, h2⟩ := step_todo impl P c t hc
    rw [Lin.run_cons] at hy
    simp only [List.mem_append] at hy
    rcases hy with hy | hy
    · exact h2 y hy
    · exact ih _ h1 y hy

/-- CONCURRENT EXECUTIONS. For every number of threads, every program of leaf operations and every schedule of the
    two-phase execution (walk, then commit under the lock of the directory): let `log` be the decided calls in the
    order of their decisive steps, and execute the corresponding MemFS model calls SEQUENTIALLY in that order from a
    heap `s` related to the initial abstract directory `D`. Then
    * every thread has obtained exactly the outcomes the sequential MemFS execution returns for its calls,
    * the final abstract directory is related to the final heap, which is still in the setting,
    * the log keeps every thread's program order and contains exactly the calls that were decided.
    (`Lin.memfs_leaf_ops_linearizable` combined with `run_refines`.) -/
theorem memfs_concurrent_refines {s : Store} {D : Dir} (h : Setting s root v a par d) (hsim : Sim s d D)
    (vid perm : Nat) (progs : List (List DOp)) (hprogs : ∀ p ∈ progs, ∀ op ∈ p, ValidComp (opName op))
    (sched : List Nat) :
    let fin := (Lin.run (Lin.dimpl true) (Lin.init D progs) sched).1
    let log := (Lin.run (Lin.dimpl true) (Lin.init D progs) sched).2
    let mem := memRun v vid a perm (log.map (·.2)) s
    Sim mem.2 d fin.sh ∧ Setting mem.2 root v a par d ∧
    ∀ t th, fin.ths[t]? = some th →
      th.done.map some = (resultsOf t log mem.1).map absOut ∧
      ∃ p, progs[t]? = some p ∧ Lin.callsOf t log ++ th.todo = p := by
  intro fin log mem
  obtain ⟨hsh, hth⟩ := Lin.memfs_leaf_ops_linearizable D progs sched
  have hlog : ∀ op ∈ log.map (·.2), ValidComp (opName op) := by
    intro op hop
    obtain ⟨y, hy, rfl⟩ := List.mem_map.mp hop
    refine run_log_mem (Lin.dimpl true) (fun o => ValidComp (opName o)) sched (Lin.init D progs) ?_ y hy
    intro th hth' x hx
    simp only [Lin.init, List.mem_map] at hth'
    obtain ⟨p, hp, rfl⟩ := hth'
    exact hprogs p hp x hx
  obtain ⟨r1, r2, r3⟩ := run_refines vid perm (log.map (·.2)) hlog s D h hsim
  obtain ⟨q1, q2⟩ := seqRun_eq_seqOuts dspec log D (fun _ => [])
  refine ⟨?_, r3, ?_⟩
  · show Sim mem.2 d (Lin.run (Lin.dimpl true) (Lin.init D progs) sched).1.sh
    rw [hsh, q1]; exact r2
  · intro t th ht
    obtain ⟨hd, hp⟩ := hth t th ht
    refine ⟨?_, hp⟩
    rw [hd, q2 t, List.nil_append, ← resultsOf_map, ← resultsOf_map, r1]

end Runs

/-! ### G. non-vacuity: the directory "/a" of `pxStore` (Lemmas/Posix.lean) -/

/-- "/a" (inode 4) holds the file "f" (inode 6, one link) and the empty directory "b" (inode 5); the next free node
    number of the heap is 10 -/
def exDir : Dir := { entries := [([102], (6, false)), ([98], (5, true))], nlink := [(6, 1)], next := 10 }

theorem exSetting : Setting pxStore 0 admView [cA] 0 4 :=
  ⟨pxStore_wf.1, pxStore_wf.2, admView_ok, rfl, rfl, by simp [ValidComp, cA, SL, DOT], by decide +kernel,
    by decide +kernel⟩

theorem exSim : Sim pxStore 4 exDir := by
  have h5 : pxStore.get 5 = some (.dir ⟨0o700, 0, 0, none⟩ []) := by decide +kernel
  have h6 : pxStore.get 6 = some (.file ⟨0o644, 0, 0, none⟩ [104, 105] 1 1) := by decide +kernel
  have hch : ∀ n, pxStore.child 4 n = AL.lookup n [(([102] : Bytes), 6), ([98], 5)] := by
    intro n; unfold Store.child; rw [Store.children_of_dir pxStore_a]
  have hcases : ∀ n i, pxStore.child 4 n = some i → i = 6 ∨ i = 5 := by
    intro n i hc
    rw [hch] at hc
    simp only [AL.lookup] at hc
    split at hc
    · exact Or.inl (Option.some.inj hc).symm
    · split at hc
      · exact Or.inr (Option.some.inj hc).symm
      · cases hc
  refine ⟨?_, ?_, ?_, ?_, ?_, by decide +kernel⟩
  · intro n
    rw [hch]
    simp only [exDir, AL.lookup]
    split
    · rfl
    · split <;> rfl
  · intro n i b hl
    simp only [exDir, AL.lookup] at hl
    split at hl
    · cases hl; simp [isDirAt, h6]
    · split at hl
      · cases hl; simp [isDirAt, h5]
      · cases hl
  · intro n i m ch hc hg
    rcases hcases n i hc with rfl | rfl
    · rw [h6] at hg; cases hg
    · rw [h5] at hg; cases hg; rfl
  · intro n i m l hc hg
    rcases hcases n i hc with rfl | rfl
    · rw [h6] at hg; cases hg
    · rw [h5] at hg; cases hg
  · intro n i hl
    simp only [exDir, AL.lookup] at hl
    split at hl
    · cases hl; exact ⟨_, _, _, _, h6, rfl⟩
    · split at hl <;> cases hl

/-- one instantiated step of each kind: Mkdir("/a/x") succeeds and leads to a heap related to `exDir` with the new
    entry "x" ↦ (node 10, directory); Mkdir("/a/b") and OpenFile("/a/f", O_CREATE|O_EXCL) answer EEXIST;
    Remove("/a/b") succeeds, Remove("/a/y") answers ENOENT -/
example :
    (mkdir pxStore admView (leafPath [cA] [120]) 0o755).2 = .ok .unit ∧
    Sim (mkdir pxStore admView (leafPath [cA] [120]) 0o755).1 4 (exDir.create [120] true) ∧
    (mkdir pxStore admView (leafPath [cA] [98]) 0o755).2 = .err .EEXIST ∧
    (openFile pxStore admView 0 (leafPath [cA] [102]) oCreatExcl 0o644).2 = .error .EEXIST ∧
    (openFile pxStore admView 0 (leafPath [cA] [120]) oCreatExcl 0o644).2 =
      .ok (newHandle 0 (leafPath [cA] [120]) 10) ∧
    (remove pxStore admView (leafPath [cA] [98])).2 = .ok .unit ∧
    Sim (remove pxStore admView (leafPath [cA] [98])).1 4 (exDir.unlink [98] 5) ∧
    (remove pxStore admView (leafPath [cA] [121])).2 = .err .ENOENT := by
  have vc : ∀ x : UInt8, x = 120 ∨ x = 98 ∨ x = 102 ∨ x = 121 → ValidComp [x] := by
    intro x hx
    rcases hx with rfl | rfl | rfl | rfl <;> simp [ValidComp, SL, DOT]
  have m1 := mkdir_refines exSetting exSim [120] (vc _ (by simp)) 0o755
  have m2 := mkdir_refines exSetting exSim [98] (vc _ (by simp)) 0o755
  have o1 := createExcl_refines exSetting exSim [102] (vc _ (by simp)) 0 0o644
  have o2 := createExcl_refines exSetting exSim [120] (vc _ (by simp)) 0 0o644
  have r1 := remove_refines exSetting exSim [98] (vc _ (by simp))
  have r2 := remove_refines exSetting exSim [121] (vc _ (by simp))
  have d1 : dspec (.mkdir [120]) exDir = (exDir.create [120] true, .ok) := by decide
  have d2 : dspec (.mkdir [98]) exDir = (exDir, .eexist) := by decide
  have d3 : dspec (.createExcl [102]) exDir = (exDir, .eexist) := by decide
  have d4 : dspec (.createExcl [120]) exDir = (exDir.create [120] false, .ok) := by decide
  have d5 : dspec (.remove [98]) exDir = (exDir.unlink [98] 5, .ok) := by decide
  have d6 : dspec (.remove [121]) exDir = (exDir, .enoent) := by decide
  have hnext : pxStore.next = 10 := by decide +kernel
  rw [d1] at m1; rw [d2] at m2; rw [d3] at o1; rw [d4, hnext] at o2; rw [d5] at r1; rw [d6] at r2
  exact ⟨m1.1, m1.2.1, m2.1, o1.1, o2.1, r1.1, r1.2.1, r2.1⟩

/-- the concurrency corollary instantiated: three threads on "/a" — Mkdir("x"), Remove("b"), exclusive create of "x" —
    under one schedule; both sides are computed: the thread results, and the outcomes of the sequential MemFS model run
    in decisive-step order (the exclusive create walks first but commits after the Mkdir: EEXIST) -/
example :
    let progs : List (List DOp) := [[.mkdir [120]], [.remove [98]], [.createExcl [120]]]
    let r := Lin.run (Lin.dimpl true) (Lin.init exDir progs) [0, 2, 1, 0, 2, 1]
    r.1.ths.map (·.done) = [[.ok], [.ok], [.eexist]] ∧
    r.2 = [(0, .mkdir [120]), (2, .createExcl [120]), (1, .remove [98])] ∧
    (memRun admView 0 [cA] 0o755 (r.2.map (·.2)) pxStore).1.map absOut = [some .ok, some .eexist, some .ok] ∧
    Sim (memRun admView 0 [cA] 0o755 (r.2.map (·.2)) pxStore).2 4 r.1.sh := by
  intro progs r
  have hr : r.1.ths.map (·.done) = [[.ok], [.ok], [.eexist]] ∧
      r.2 = [(0, .mkdir [120]), (2, .createExcl [120]), (1, .remove [98])] := by decide
  have hv : ∀ p ∈ progs, ∀ op ∈ p, ValidComp (opName op) := by
    intro p hp op hop
    simp only [progs, List.mem_cons, List.mem_nil_iff, or_false] at hp
    rcases hp with rfl | rfl | rfl <;> simp only [List.mem_singleton] at hop <;> subst hop <;>
      simp [opName, ValidComp, SL, DOT]
  obtain ⟨h1, _, h3⟩ := memfs_concurrent_refines exSetting exSim 0 0o755 progs hv [0, 2, 1, 0, 2, 1]
  have hrun := run_refines (v := admView) (a := [cA]) 0 0o755 (r.2.map (·.2)) (by
    rw [hr.2]; intro op hop
    simp only [List.map_cons, List.map_nil, List.mem_cons, List.mem_nil_iff, or_false] at hop
    rcases hop with rfl | rfl | rfl <;> simp [opName, ValidComp, SL, DOT]) pxStore exDir exSetting exSim
  refine ⟨hr.1, hr.2, ?_, h1⟩
  rw [hrun.1, hr.2]
  decide

end Avfs.FS
