import Avfs.Lemmas.SubSim
import Avfs.Lemmas.Posix3
/-
  C11 (sub_sim, continued): every call that has a POSIX reference theorem (Lemmas/Posix2.lean, Lemmas/Posix3.lean),
  issued through the view `subView v c` that Sub returns for the directory `c` = the node the parent view `v` resolves
  the clean link-free path `a` to, on the clean path "/b1/…/bm", is the same call issued through the parent on
  "/a1/…/an/b1/…/bm": same outcome AND same new heap.

  Method (as Lemmas/SubSim.lean): the `_gen` reference theorems hold for a view rooted anywhere and describe the call as
  a function of the component-wise descent (`walkPath`, or `walkPathL` for the calls that do not follow a link in the
  last component); the descent of the parent through `a ++ b` is the descent of the view through `b`
  (`walkPath_append`, `walkPathL_append`), and neither the descent nor the references read the root / working directory
  of the view (`…_subView`).

  Shape of the statements: `<escape> ∨ call s (subView v c) "/b" args = call s v "/a/b" args`, where the escape is "the
  descent meets a symbolic link" (`walkPath … = .viaLink`; for Lstat, Readlink, Symlink, RemoveAll the weaker
  `walkPathL … = .viaLink`: a link as LAST component is covered). The search permission of the directories on `a`
  is part of `ha` (the parent must be able to reach `c`; through the view they are not consulted — a chroot does not
  consult them either; `sub_sim_search_cex` of Lemmas/SubSim.lean). No other hypothesis is needed: the corners the
  reference theorems exclude (Chown by a plain user, Rename onto an existing entry, MkdirAll with two missing
  components) are corners of BOTH sides and the two calls agree in them as well.

  For the calls whose reference does not read the parent of the entry (ReadDir, Readlink, Chtimes, Chmod, Chown,
  Truncate, MkdirAll, the existing path of Link) the path through the view may be "/" itself (`b = []`: the view's root
  is the parent's `a`; `SameNode`, `walkPath_append_node`); OpenFile("/"): `sub_sim_open_root`. Where `hb : b ≠ []` stays,
  the two calls do differ on the root of the view: Lstat reports the name "" instead of the last component of `a`;
  Symlink, Rename, RemoveAll refuse "/" (EEXIST / EINVAL) where the parent would act on the directory `a`.

  Sections: 0 the descents; 1 Lstat; 2 Readlink, ReadDir; 3 Chtimes, Chmod, Chown, Truncate; 4 Symlink; 5 Link;
  6 OpenFile (what differs: the name and view number recorded in the handle); 7 MkdirAll; 8 Rename; 9 RemoveAll
  (independent of section 5 of Lemmas/Posix3.lean: through the definition of `removeAll` and `removeAllRec_subView`).
-/
set_option linter.unusedVariables false
set_option linter.unusedSimpArgs false

namespace Avfs.FS
open Avfs.Path

/-! ### 0. the descents -/

theorem walkPathL_subView (s : Store) (v : View) (c d : Ino) (cs : List Bytes) :
    walkPathL s (subView v c) d cs = walkPathL s v d cs := by
  induction cs generalizing d with
  | nil => rfl
  | cons x xs ih =>
    cases xs with
    | nil =>
      simp only [walkPathL, checkPerm_subView]
      rfl
    | cons x' xs' =>
      simp only [walkPathL, checkPerm_subView, ih]
      try rfl

/-- the lstat descent through `a ++ b` is the lstat descent through `b` from the directory `a` reaches -/
theorem walkPathL_append (s : Store) (v : View) (d : Ino) (a b : List Bytes) (hb : b ≠ []) (par c : Ino) (m : Meta)
    (ch : List (Bytes × Ino)) (ha : walkPath s v d a = .found par c) (hc : s.get c = some (.dir m ch)) :
    walkPathL s v d (a ++ b) = walkPathL s v c b := by
  obtain ⟨y, ys, rfl⟩ : ∃ y ys, b = y :: ys := by
    cases b with
    | nil => exact absurd rfl hb
    | cons y ys => exact ⟨y, ys, rfl⟩
  induction a generalizing d with
  | nil =>
    simp only [walkPath, Resolved.found.injEq] at ha
    obtain ⟨_, rfl⟩ := ha
    rfl
  | cons x xs ih =>
    cases hgd : s.get d with
    | none => cases xs <;> simp [walkPath, hgd] at ha
    | some n =>
      cases n with
      | file mf df nl id => cases xs <;> simp [walkPath, hgd] at ha
      | symlink ms lk => cases xs <;> simp [walkPath, hgd] at ha
      | dir md chd =>
        by_cases hp : checkPerm md omLookup v = true
        · cases hch : s.child d x with
          | none => cases xs <;> simp [walkPath, hgd, hp, hch] at ha
          | some i =>
            cases xs with
            | nil =>
              have hic : i = c := by
                cases hgi : s.get i with
                | none => simp [walkPath, hgd, hp, hch, hgi] at ha; exact ha.2
                | some n => cases n <;> simp [walkPath, hgd, hp, hch, hgi] at ha <;> exact ha.2
              subst hic
              simp [walkPathL, hgd, hp, hch, hc]
            | cons x' xs' =>
              cases hgi : s.get i with
              | none => simp [walkPath, hgd, hp, hch, hgi] at ha
              | some n =>
                cases n with
                | file mf df nl id => simp [walkPath, hgd, hp, hch, hgi] at ha
                | symlink ms lk => simp [walkPath, hgd, hp, hch, hgi] at ha
                | dir mi chi =>
                  have ha' : walkPath s v i (x' :: xs') = .found par c := by
                    simpa [walkPath, hgd, hp, hch, hgi] using ha
                  have := ih i ha'
                  simpa [walkPathL, hgd, hp, hch, hgi] using this
        · have hp' : checkPerm md omLookup v = false := by simpa using hp
          cases xs <;> simp [walkPath, hgd, hp'] at ha

/-- the lstat descent meets a link only where the plain descent does: the escape `walkPathL … = .viaLink` is the weaker
    one -/
theorem walkPathL_viaLink (s : Store) (v : View) (d : Ino) (cs : List Bytes) (h : walkPathL s v d cs = .viaLink) :
    walkPath s v d cs = .viaLink := by
  apply Classical.byContradiction
  intro hn
  rw [walkPathL_eq_walkPath s v cs d hn] at h
  exact hn h

/-- two resolutions that name the same node, up to the parent reported for a found entry (the root of a view is its
    own parent; the parent view reports the directory that holds it) -/
def SameNode : Resolved → Resolved → Prop
  | .found _ c, .found _ c' => c = c'
  | .missingLast p n, .missingLast p' n' => p = p' ∧ n = n'
  | .missingDir, .missingDir => True
  | .notDir, .notDir => True
  | .denied, .denied => True
  | .viaLink, .viaLink => True
  | _, _ => False

theorem SameNode.refl (w : Resolved) : SameNode w w := by
  cases w <;> simp [SameNode]

/-- the descent of the view through `b` (possibly empty) names the node the descent of the parent through `a ++ b`
    names -/
theorem walkPath_append_node (s : Store) (v : View) (d : Ino) (a b : List Bytes) (par c : Ino) (m : Meta)
    (ch : List (Bytes × Ino)) (ha : walkPath s v d a = .found par c) (hc : s.get c = some (.dir m ch)) :
    SameNode (walkPath s v c b) (walkPath s v d (a ++ b)) := by
  cases b with
  | nil =>
    rw [List.append_nil, ha]
    simp [walkPath, SameNode]
  | cons y ys =>
    rw [walkPath_append s v d a (y :: ys) (by simp) par c m ch ha hc]
    exact SameNode.refl _

theorem walkPathL_append_node (s : Store) (v : View) (d : Ino) (a b : List Bytes) (par c : Ino) (m : Meta)
    (ch : List (Bytes × Ino)) (ha : walkPath s v d a = .found par c) (hc : s.get c = some (.dir m ch)) :
    SameNode (walkPathL s v c b) (walkPathL s v d (a ++ b)) := by
  cases b with
  | nil =>
    rw [List.append_nil, walkPathL_eq_walkPath s v a d (by rw [ha]; simp), ha]
    simp [walkPathL, SameNode]
  | cons y ys =>
    rw [walkPathL_append s v d a (y :: ys) (by simp) par c m ch ha hc]
    exact SameNode.refl _

/-- the hypotheses on the components of `a ++ b`, for `b` -/
theorem comps_right {P : Bytes → Prop} (a b : List Bytes) (h : ∀ x ∈ a ++ b, P x) : ∀ x ∈ b, P x :=
  fun x hx => h x (List.mem_append_right a hx)

theorem append_ne_nil_right (a b : List Bytes) (hb : b ≠ []) : a ++ b ≠ [] :=
  fun h0 => hb (List.append_eq_nil_iff.mp h0).2

/-! ### 1. Lstat -/

/-- Lstat through the view = Lstat through the parent on the prefixed path, a symbolic link as last component
    included (it is the node described) -/
theorem sub_sim_lstat (s : Store) (root : Ino) (v : View) (hwf : WF s root) (hn : NamesOK s) (hv : ViewOK s v)
    (hroot : v.root = root) (a b : List Bytes) (hb : b ≠ [])
    (hall : ∀ x ∈ a ++ b, x ≠ [] ∧ ∀ y ∈ x, y ≠ SL) (hdots : ∀ x ∈ a ++ b, x ≠ [DOT] ∧ x ≠ [DOT, DOT])
    (par c : Ino) (mt : Meta) (ch : List (Bytes × Ino))
    (ha : walkPath s v root a = .found par c) (hc : s.get c = some (.dir mt ch)) :
    walkPathL s v root (a ++ b) = .viaLink ∨
    stat s (subView v c) (SL :: joinWith SL b) .lstat = stat s v (SL :: joinWith SL (a ++ b)) .lstat := by
  have hallb := comps_right a b hall
  have hdotsb := comps_right a b hdots
  have hne := append_ne_nil_right a b hb
  have hwv : walkPathL s (subView v c) (subView v c).root b = walkPathL s v root (a ++ b) := by
    show walkPathL s (subView v c) c b = _
    rw [walkPathL_subView, ← walkPathL_append s v root a b hb par c mt ch ha hc]
  obtain ⟨hs1, h1⟩ := lstat_posix_gen s root (subView v c) hwf ⟨mt, ch, hc⟩ b hb hallb hdotsb
  obtain ⟨hs2, h2⟩ := lstat_posix_gen s root v hwf (hroot ▸ get_of_isDirAt hwf.rootDir) (a ++ b) hne hall hdots
  rw [hwv] at h1
  rw [hroot, getLast_append_right a b hb hne] at h2
  cases hw : walkPathL s v root (a ++ b) with
  | viaLink => exact Or.inl rfl
  | found p0 c0 =>
    right
    simp only [hw] at h1 h2
    obtain ⟨i1, hi1, ho1⟩ := h1
    obtain ⟨i2, hi2, ho2⟩ := h2
    have : i1 = i2 := Option.some.inj (hi1.symm.trans hi2)
    subst this
    exact Prod.ext (hs1.trans hs2.symm) (ho1.trans ho2.symm)
  | missingLast p0 name =>
    right
    simp only [hw] at h1 h2
    exact Prod.ext (hs1.trans hs2.symm) (h1.trans h2.symm)
  | missingDir =>
    right
    simp only [hw] at h1 h2
    exact Prod.ext (hs1.trans hs2.symm) (h1.trans h2.symm)
  | notDir =>
    right
    simp only [hw] at h1 h2
    exact Prod.ext (hs1.trans hs2.symm) (h1.trans h2.symm)
  | denied =>
    right
    simp only [hw] at h1 h2
    exact Prod.ext (hs1.trans hs2.symm) (h1.trans h2.symm)

/-! ### 2. Readlink, ReadDir -/

/-- the entry the lstat descent finds is allocated -/
theorem walkPathL_found_alloc {s : Store} {root : Ino} {v : View} (hwf : WF s root)
    (hvr : ∃ m ch, s.get v.root = some (.dir m ch)) (cs : List Bytes) (par c : Ino)
    (hw : walkPathL s v v.root cs = .found par c) : (s.get c).isSome = true := by
  cases cs with
  | nil =>
    simp only [walkPathL] at hw
    cases hw
    obtain ⟨m, ch, hg⟩ := hvr
    simp [hg]
  | cons c0 rest =>
    obtain ⟨hedge, _⟩ := walkPathL_found rest c0 v.root par c hw
    exact hwf.alloc par _ c hedge

theorem posixReadlink_sameNode (s : Store) {w w' : Resolved} (h : SameNode w w') :
    posixReadlink s w = posixReadlink s w' := by
  cases w <;> cases w' <;> simp only [SameNode] at h <;> first | exact h.elim | skip
  · subst h; rfl
  all_goals rfl

theorem posixReadlink_outside (s : Store) (w : Resolved) (hf : ∀ p c, w = .found p c → (s.get c).isSome = true)
    (h : posixReadlink s w = .outside) : w = .viaLink := by
  cases w with
  | found p c =>
    have := hf p c rfl
    simp only [posixReadlink] at h
    cases hg : s.get c with
    | none => simp [hg] at this
    | some n => cases n <;> simp [hg] at h
  | viaLink => rfl
  | _ => cases h

/-- Readlink through the view = Readlink through the parent on the prefixed path ("/" of the view included: EINVAL on
    both sides); a link as last component is the one read -/
theorem sub_sim_readlink (s : Store) (root : Ino) (v : View) (hwf : WF s root) (hn : NamesOK s) (hv : ViewOK s v)
    (hroot : v.root = root) (a b : List Bytes)
    (hall : ∀ x ∈ a ++ b, x ≠ [] ∧ ∀ y ∈ x, y ≠ SL) (hdots : ∀ x ∈ a ++ b, x ≠ [DOT] ∧ x ≠ [DOT, DOT])
    (par c : Ino) (mt : Meta) (ch : List (Bytes × Ino))
    (ha : walkPath s v root a = .found par c) (hc : s.get c = some (.dir mt ch)) :
    walkPathL s v root (a ++ b) = .viaLink ∨
    readlink s (subView v c) (SL :: joinWith SL b) = readlink s v (SL :: joinWith SL (a ++ b)) := by
  subst hroot
  have hvr := get_of_isDirAt hwf.rootDir
  have h1 := readlink_posix_gen s v.root (subView v c) hwf ⟨mt, ch, hc⟩ b (comps_right a b hall) (comps_right a b hdots)
  have h2 := readlink_posix_gen s v.root v hwf hvr (a ++ b) hall hdots
  have hR : posixReadlink s (walkPathL s (subView v c) (subView v c).root b) =
      posixReadlink s (walkPathL s v v.root (a ++ b)) := by
    show posixReadlink s (walkPathL s (subView v c) c b) = _
    rw [walkPathL_subView]
    exact posixReadlink_sameNode s (walkPathL_append_node s v v.root a b par c mt ch ha hc)
  rw [hR] at h1
  cases hr : posixReadlink s (walkPathL s v v.root (a ++ b)) with
  | fail e => right; simp only [hr] at h1 h2; rw [h1, h2]
  | target l => right; simp only [hr] at h1 h2; rw [h1, h2]
  | outside =>
    left
    exact posixReadlink_outside s _ (fun p c0 hw => walkPathL_found_alloc hwf hvr (a ++ b) p c0 hw) hr

theorem posixReadDir_subView (s : Store) (v : View) (c : Ino) (w : Resolved) :
    posixReadDir s (subView v c) w = posixReadDir s v w := by
  cases w <;> rfl

theorem posixReadDir_sameNode (s : Store) (v : View) {w w' : Resolved} (h : SameNode w w') :
    posixReadDir s v w = posixReadDir s v w' := by
  cases w <;> cases w' <;> simp only [SameNode] at h <;> first | exact h.elim | skip
  · subst h; rfl
  all_goals rfl

theorem posixReadDir_outside (s : Store) (v : View) (w : Resolved)
    (hf : ∀ p c, w = .found p c → (s.get c).isSome = true ∧ ∀ m l, s.get c ≠ some (.symlink m l))
    (h : posixReadDir s v w = .outside) : w = .viaLink := by
  cases w with
  | found p c =>
    obtain ⟨h1, h2⟩ := hf p c rfl
    simp only [posixReadDir] at h
    cases hg : s.get c with
    | none => simp [hg] at h1
    | some n =>
      cases n with
      | symlink m l => exact absurd hg (h2 m l)
      | dir m chd => simp only [hg] at h; split at h <;> cases h
      | file m d nl id => simp only [hg] at h; split at h <;> cases h
  | viaLink => rfl
  | _ => cases h

/-- ReadDir through the view = ReadDir through the parent on the prefixed path ("/" of the view included: the listing
    of the directory `a`); `vid`, the number of the view the transient handle is registered under, is not observable -/
theorem sub_sim_readDir (s : Store) (root : Ino) (v : View) (hwf : WF s root) (hn : NamesOK s) (hv : ViewOK s v)
    (hroot : v.root = root) (a b : List Bytes)
    (hall : ∀ x ∈ a ++ b, x ≠ [] ∧ ∀ y ∈ x, y ≠ SL) (hdots : ∀ x ∈ a ++ b, x ≠ [DOT] ∧ x ≠ [DOT, DOT])
    (par c : Ino) (mt : Meta) (ch : List (Bytes × Ino))
    (ha : walkPath s v root a = .found par c) (hc : s.get c = some (.dir mt ch)) (vid vid' : Nat) :
    walkPath s v root (a ++ b) = .viaLink ∨
    readDir s (subView v c) vid (SL :: joinWith SL b) = readDir s v vid' (SL :: joinWith SL (a ++ b)) := by
  subst hroot
  have hvr := get_of_isDirAt hwf.rootDir
  have h1 := readDir_posix_gen s v.root (subView v c) hwf ⟨mt, ch, hc⟩ b (comps_right a b hall) (comps_right a b hdots)
    vid
  have h2 := readDir_posix_gen s v.root v hwf hvr (a ++ b) hall hdots vid'
  have hR : posixReadDir s (subView v c) (walkPath s (subView v c) (subView v c).root b) =
      posixReadDir s v (walkPath s v v.root (a ++ b)) := by
    show posixReadDir s (subView v c) (walkPath s (subView v c) c b) = _
    rw [walkPath_subView, posixReadDir_subView]
    exact posixReadDir_sameNode s v (walkPath_append_node s v v.root a b par c mt ch ha hc)
  rw [hR] at h1
  cases hr : posixReadDir s v (walkPath s v v.root (a ++ b)) with
  | fail e => right; simp only [hr] at h1 h2; rw [h1, h2]
  | entries l => right; simp only [hr] at h1 h2; rw [h1, h2]
  | outside =>
    left
    exact posixReadDir_outside s v _ (fun p c0 hw => walkPath_found_node hwf hvr (a ++ b) p c0 hw) hr

/-! ### 3. Chtimes, Chmod, Chown, Truncate: one node changes -/

theorem posixChtimes_subView (s : Store) (v : View) (c : Ino) (t : Int) (w : Resolved) :
    posixChtimes s (subView v c) t w = posixChtimes s v t w := by
  cases w <;> rfl

theorem posixChtimes_sameNode (s : Store) (v : View) (t : Int) {w w' : Resolved} (h : SameNode w w') :
    posixChtimes s v t w = posixChtimes s v t w' := by
  cases w <;> cases w' <;> simp only [SameNode] at h <;> first | exact h.elim | skip
  · subst h; rfl
  all_goals rfl

theorem posixChtimes_outside (s : Store) (v : View) (t : Int) (w : Resolved)
    (hf : ∀ p c, w = .found p c → (s.get c).isSome = true ∧ ∀ m l, s.get c ≠ some (.symlink m l))
    (h : posixChtimes s v t w = .outside) : w = .viaLink := by
  cases w with
  | found p c =>
    obtain ⟨h1, h2⟩ := hf p c rfl
    simp only [posixChtimes] at h
    cases hg : s.get c with
    | none => simp [hg] at h1
    | some n => simp only [hg] at h; split at h <;> cases h
  | viaLink => rfl
  | _ => cases h

/-- Chtimes through the view = Chtimes through the parent on the prefixed path ("/" of the view included) -/
theorem sub_sim_chtimes (s : Store) (root : Ino) (v : View) (hwf : WF s root) (hn : NamesOK s) (hv : ViewOK s v)
    (hroot : v.root = root) (a b : List Bytes)
    (hall : ∀ x ∈ a ++ b, x ≠ [] ∧ ∀ y ∈ x, y ≠ SL) (hdots : ∀ x ∈ a ++ b, x ≠ [DOT] ∧ x ≠ [DOT, DOT])
    (par c : Ino) (mt : Meta) (ch : List (Bytes × Ino))
    (ha : walkPath s v root a = .found par c) (hc : s.get c = some (.dir mt ch)) (mtime : Int) :
    walkPath s v root (a ++ b) = .viaLink ∨
    chtimes s (subView v c) (SL :: joinWith SL b) mtime = chtimes s v (SL :: joinWith SL (a ++ b)) mtime := by
  subst hroot
  have hvr := get_of_isDirAt hwf.rootDir
  have h1 := chtimes_posix_gen s v.root (subView v c) hwf ⟨mt, ch, hc⟩ b (comps_right a b hall) (comps_right a b hdots)
    mtime
  have h2 := chtimes_posix_gen s v.root v hwf hvr (a ++ b) hall hdots mtime
  have hR : posixChtimes s (subView v c) mtime (walkPath s (subView v c) (subView v c).root b) =
      posixChtimes s v mtime (walkPath s v v.root (a ++ b)) := by
    show posixChtimes s (subView v c) mtime (walkPath s (subView v c) c b) = _
    rw [walkPath_subView, posixChtimes_subView]
    exact posixChtimes_sameNode s v mtime (walkPath_append_node s v v.root a b par c mt ch ha hc)
  rw [hR] at h1
  cases hr : posixChtimes s v mtime (walkPath s v v.root (a ++ b)) with
  | fail e => right; simp only [hr] at h1 h2; rw [h1, h2]
  | update c0 n0 => right; simp only [hr] at h1 h2; rw [h1, h2]
  | outside =>
    left
    exact posixChtimes_outside s v mtime _ (fun p c0 hw => walkPath_found_node hwf hvr (a ++ b) p c0 hw) hr

theorem posixChmod_subView (s : Store) (v : View) (c : Ino) (mode : Nat) (w : Resolved) :
    posixChmod s (subView v c) mode w = posixChmod s v mode w := by
  cases w <;> rfl

theorem posixChmod_sameNode (s : Store) (v : View) (mode : Nat) {w w' : Resolved} (h : SameNode w w') :
    posixChmod s v mode w = posixChmod s v mode w' := by
  cases w <;> cases w' <;> simp only [SameNode] at h <;> first | exact h.elim | skip
  · subst h; rfl
  all_goals rfl

theorem posixChmod_outside (s : Store) (v : View) (mode : Nat) (w : Resolved)
    (hf : ∀ p c, w = .found p c → (s.get c).isSome = true ∧ ∀ m l, s.get c ≠ some (.symlink m l))
    (h : posixChmod s v mode w = .outside) : w = .viaLink := by
  cases w with
  | found p c =>
    obtain ⟨h1, h2⟩ := hf p c rfl
    simp only [posixChmod] at h
    cases hg : s.get c with
    | none => simp [hg] at h1
    | some n =>
      cases n with
      | symlink m l => exact absurd hg (h2 m l)
      | dir m chd => simp only [hg] at h; split at h <;> cases h
      | file m d nl id => simp only [hg] at h; split at h <;> cases h
  | viaLink => rfl
  | _ => cases h

/-- Chmod through the view = Chmod through the parent on the prefixed path ("/" of the view included) -/
theorem sub_sim_chmod (s : Store) (root : Ino) (v : View) (hwf : WF s root) (hn : NamesOK s) (hv : ViewOK s v)
    (hroot : v.root = root) (a b : List Bytes)
    (hall : ∀ x ∈ a ++ b, x ≠ [] ∧ ∀ y ∈ x, y ≠ SL) (hdots : ∀ x ∈ a ++ b, x ≠ [DOT] ∧ x ≠ [DOT, DOT])
    (par c : Ino) (mt : Meta) (ch : List (Bytes × Ino))
    (ha : walkPath s v root a = .found par c) (hc : s.get c = some (.dir mt ch)) (mode : Nat) :
    walkPath s v root (a ++ b) = .viaLink ∨
    chmod s (subView v c) (SL :: joinWith SL b) mode = chmod s v (SL :: joinWith SL (a ++ b)) mode := by
  subst hroot
  have hvr := get_of_isDirAt hwf.rootDir
  have h1 := chmod_posix_gen s v.root (subView v c) hwf ⟨mt, ch, hc⟩ b (comps_right a b hall) (comps_right a b hdots)
    mode
  have h2 := chmod_posix_gen s v.root v hwf hvr (a ++ b) hall hdots mode
  have hR : posixChmod s (subView v c) mode (walkPath s (subView v c) (subView v c).root b) =
      posixChmod s v mode (walkPath s v v.root (a ++ b)) := by
    show posixChmod s (subView v c) mode (walkPath s (subView v c) c b) = _
    rw [walkPath_subView, posixChmod_subView]
    exact posixChmod_sameNode s v mode (walkPath_append_node s v v.root a b par c mt ch ha hc)
  rw [hR] at h1
  cases hr : posixChmod s v mode (walkPath s v v.root (a ++ b)) with
  | fail e => right; simp only [hr] at h1 h2; rw [h1, h2]
  | update c0 n0 => right; simp only [hr] at h1 h2; rw [h1, h2]
  | outside =>
    left
    exact posixChmod_outside s v mode _ (fun p c0 hw => walkPath_found_node hwf hvr (a ++ b) p c0 hw) hr

theorem posixChown_subView (s : Store) (v : View) (c : Ino) (uid gid : Int) (w : Resolved) :
    posixChown s (subView v c) uid gid w = posixChown s v uid gid w := by
  cases w <;> rfl

theorem posixChown_sameNode (s : Store) (v : View) (uid gid : Int) {w w' : Resolved} (h : SameNode w w') :
    posixChown s v uid gid w = posixChown s v uid gid w' := by
  cases w <;> cases w' <;> simp only [SameNode] at h <;> first | exact h.elim | skip
  · subst h; rfl
  all_goals rfl

theorem posixChown_outside (s : Store) (v : View) (uid gid : Int) (w : Resolved)
    (hf : ∀ p c, w = .found p c → (s.get c).isSome = true ∧ ∀ m l, s.get c ≠ some (.symlink m l))
    (h : posixChown s v uid gid w = .outside) : w = .viaLink := by
  cases w with
  | found p c =>
    obtain ⟨h1, h2⟩ := hf p c rfl
    simp only [posixChown] at h
    cases hg : s.get c with
    | none => simp [hg] at h1
    | some n => simp only [hg] at h; split at h <;> cases h
  | viaLink => rfl
  | _ => cases h

/-- Chown / Lchown through the view = the same call through the parent on the prefixed path ("/" of the view
    included). No corner hypothesis: a caller who is not administrator gets EPERM on both sides before the path is
    looked at (`chown_user`); for an administrator both sides are the reference. -/
theorem sub_sim_chown (s : Store) (root : Ino) (v : View) (hwf : WF s root) (hn : NamesOK s) (hv : ViewOK s v)
    (hroot : v.root = root) (a b : List Bytes)
    (hall : ∀ x ∈ a ++ b, x ≠ [] ∧ ∀ y ∈ x, y ≠ SL) (hdots : ∀ x ∈ a ++ b, x ≠ [DOT] ∧ x ≠ [DOT, DOT])
    (par c : Ino) (mt : Meta) (ch : List (Bytes × Ino))
    (ha : walkPath s v root a = .found par c) (hc : s.get c = some (.dir mt ch)) (uid gid : Int) (m : SlMode) :
    walkPath s v root (a ++ b) = .viaLink ∨
    chown s (subView v c) (SL :: joinWith SL b) uid gid m = chown s v (SL :: joinWith SL (a ++ b)) uid gid m := by
  cases hadm : v.admin with
  | false =>
    right
    rw [chown_user s v _ uid gid m hadm, chown_user s (subView v c) _ uid gid m hadm]
  | true =>
    subst hroot
    have hvr := get_of_isDirAt hwf.rootDir
    have h1 := chown_posix_gen s v.root (subView v c) hwf ⟨mt, ch, hc⟩ b (comps_right a b hall)
      (comps_right a b hdots) uid gid m (Or.inl hadm)
    have h2 := chown_posix_gen s v.root v hwf hvr (a ++ b) hall hdots uid gid m (Or.inl hadm)
    have hR : posixChown s (subView v c) uid gid (walkPath s (subView v c) (subView v c).root b) =
        posixChown s v uid gid (walkPath s v v.root (a ++ b)) := by
      show posixChown s (subView v c) uid gid (walkPath s (subView v c) c b) = _
      rw [walkPath_subView, posixChown_subView]
      exact posixChown_sameNode s v uid gid (walkPath_append_node s v v.root a b par c mt ch ha hc)
    rw [hR] at h1
    cases hr : posixChown s v uid gid (walkPath s v v.root (a ++ b)) with
    | fail e => right; simp only [hr] at h1 h2; rw [h1, h2]
    | update c0 n0 => right; simp only [hr] at h1 h2; rw [h1, h2]
    | outside =>
      left
      exact posixChown_outside s v uid gid _ (fun p c0 hw => walkPath_found_node hwf hvr (a ++ b) p c0 hw) hr

theorem posixTruncate_subView (s : Store) (v : View) (c : Ino) (size : Int) (w : Resolved) :
    posixTruncate s (subView v c) size w = posixTruncate s v size w := by
  cases w <;> rfl

theorem posixTruncate_sameNode (s : Store) (v : View) (size : Int) {w w' : Resolved} (h : SameNode w w') :
    posixTruncate s v size w = posixTruncate s v size w' := by
  cases w <;> cases w' <;> simp only [SameNode] at h <;> first | exact h.elim | skip
  · subst h; rfl
  all_goals rfl

theorem posixTruncate_outside (s : Store) (v : View) (size : Int) (w : Resolved)
    (hf : ∀ p c, w = .found p c → (s.get c).isSome = true ∧ ∀ m l, s.get c ≠ some (.symlink m l))
    (h : posixTruncate s v size w = .outside) : w = .viaLink := by
  unfold posixTruncate at h
  split at h
  · cases h
  · cases w with
    | found p c =>
      obtain ⟨h1, h2⟩ := hf p c rfl
      simp only at h
      cases hg : s.get c with
      | none => simp [hg] at h1
      | some n =>
        cases n with
        | symlink m l => exact absurd hg (h2 m l)
        | dir m chd => simp only [hg] at h; cases h
        | file m d nl id => simp only [hg] at h; split at h <;> cases h
    | viaLink => rfl
    | _ => cases h

/-- Truncate through the view = Truncate through the parent on the prefixed path ("/" of the view included: EISDIR) -/
theorem sub_sim_truncate (s : Store) (root : Ino) (v : View) (hwf : WF s root) (hn : NamesOK s) (hv : ViewOK s v)
    (hroot : v.root = root) (a b : List Bytes)
    (hall : ∀ x ∈ a ++ b, x ≠ [] ∧ ∀ y ∈ x, y ≠ SL) (hdots : ∀ x ∈ a ++ b, x ≠ [DOT] ∧ x ≠ [DOT, DOT])
    (par c : Ino) (mt : Meta) (ch : List (Bytes × Ino))
    (ha : walkPath s v root a = .found par c) (hc : s.get c = some (.dir mt ch)) (size : Int) :
    walkPath s v root (a ++ b) = .viaLink ∨
    truncate s (subView v c) (SL :: joinWith SL b) size = truncate s v (SL :: joinWith SL (a ++ b)) size := by
  subst hroot
  have hvr := get_of_isDirAt hwf.rootDir
  have h1 := truncate_posix_gen s v.root (subView v c) hwf ⟨mt, ch, hc⟩ b (comps_right a b hall)
    (comps_right a b hdots) size
  have h2 := truncate_posix_gen s v.root v hwf hvr (a ++ b) hall hdots size
  have hR : posixTruncate s (subView v c) size (walkPath s (subView v c) (subView v c).root b) =
      posixTruncate s v size (walkPath s v v.root (a ++ b)) := by
    show posixTruncate s (subView v c) size (walkPath s (subView v c) c b) = _
    rw [walkPath_subView, posixTruncate_subView]
    exact posixTruncate_sameNode s v size (walkPath_append_node s v v.root a b par c mt ch ha hc)
  rw [hR] at h1
  cases hr : posixTruncate s v size (walkPath s v v.root (a ++ b)) with
  | fail e => right; simp only [hr] at h1 h2; rw [h1, h2]
  | update c0 n0 => right; simp only [hr] at h1 h2; rw [h1, h2]
  | outside =>
    left
    exact posixTruncate_outside s v size _ (fun p c0 hw => walkPath_found_node hwf hvr (a ++ b) p c0 hw) hr

/-! ### 4. Symlink -/

theorem posixSymlink_subView (s : Store) (v : View) (c : Ino) (w : Resolved) :
    posixSymlink s (subView v c) w = posixSymlink s v w := by
  cases w <;> rfl

theorem createSymlink_subView (s : Store) (v : View) (c par : Ino) (name link : Bytes) :
    createSymlink s (subView v c) par name link = createSymlink s v par name link := rfl

theorem posixSymlink_outside (s : Store) (v : View) (w : Resolved) (h : posixSymlink s v w = .outside) :
    w = .viaLink := by
  cases w with
  | missingLast p n => simp only [posixSymlink] at h; split at h <;> cases h
  | viaLink => rfl
  | _ => cases h

/-- Symlink(old, new) through the view = Symlink(old, a/new) through the parent, with the SAME target string `old` on
    both sides: same outcome and same new heap, the stored target (`Clean(old)`, `symlink_target_cleaned`) included. The
    new path is resolved without following a link in its last component (an existing link there: EEXIST on both sides).
    What is NOT the same is what an absolute target means afterwards: the stored string is resolved from the root of
    whichever view follows the link — inside the view from `a`, through the parent from the root of the whole tree.
    That is the point of the confinement, not a difference of the two calls (`sub_symlink_target_confined` in
    Props/C11_more.lean is a witness). -/
theorem sub_sim_symlink (s : Store) (root : Ino) (v : View) (hwf : WF s root) (hn : NamesOK s) (hv : ViewOK s v)
    (hroot : v.root = root) (a b : List Bytes) (hb : b ≠ [])
    (hall : ∀ x ∈ a ++ b, x ≠ [] ∧ ∀ y ∈ x, y ≠ SL) (hdots : ∀ x ∈ a ++ b, x ≠ [DOT] ∧ x ≠ [DOT, DOT])
    (par c : Ino) (mt : Meta) (ch : List (Bytes × Ino))
    (ha : walkPath s v root a = .found par c) (hc : s.get c = some (.dir mt ch)) (old : Bytes) :
    walkPathL s v root (a ++ b) = .viaLink ∨
    symlink s (subView v c) old (SL :: joinWith SL b) = symlink s v old (SL :: joinWith SL (a ++ b)) := by
  subst hroot
  have hvr := get_of_isDirAt hwf.rootDir
  have hne := append_ne_nil_right a b hb
  have h1 := symlink_posix_gen s v.root (subView v c) hwf ⟨mt, ch, hc⟩ b hb (comps_right a b hall)
    (comps_right a b hdots) old
  have h2 := symlink_posix_gen s v.root v hwf hvr (a ++ b) hne hall hdots old
  have hR : posixSymlink s (subView v c) (walkPathL s (subView v c) (subView v c).root b) =
      posixSymlink s v (walkPathL s v v.root (a ++ b)) := by
    show posixSymlink s (subView v c) (walkPathL s (subView v c) c b) = _
    rw [walkPathL_subView, posixSymlink_subView, walkPathL_append s v v.root a b hb par c mt ch ha hc]
  rw [hR] at h1
  cases hr : posixSymlink s v (walkPathL s v v.root (a ++ b)) with
  | fail e => right; simp only [hr] at h1 h2; rw [h1, h2]
  | create p0 n0 => right; simp only [hr] at h1 h2; rw [h1.2, h2.2, createSymlink_subView]
  | outside => left; exact posixSymlink_outside s v _ hr

/-! ### 5. Link -/

theorem posixLink_subView (s : Store) (v : View) (c : Ino) (o n : Resolved) :
    posixLink s (subView v c) o n = posixLink s v o n := by
  cases o <;> cases n <;> rfl

theorem posixLink_sameNode (s : Store) (v : View) {w w' : Resolved} (n : Resolved) (h : SameNode w w') :
    posixLink s v w n = posixLink s v w' n := by
  cases w <;> cases w' <;> simp only [SameNode] at h <;> first | exact h.elim | skip
  · subst h; rfl
  all_goals rfl

theorem posixLink_outside (s : Store) (v : View) (o n : Resolved)
    (hf : ∀ p c, o = .found p c → (s.get c).isSome = true ∧ ∀ m l, s.get c ≠ some (.symlink m l))
    (h : posixLink s v o n = .outside) : o = .viaLink ∨ n = .viaLink := by
  cases o with
  | found p c =>
    obtain ⟨h1, h2⟩ := hf p c rfl
    cases n with
    | missingLast np nn =>
      simp only [posixLink] at h
      split at h
      · cases h
      · cases hg : s.get c with
        | none => simp [hg] at h1
        | some nd =>
          cases nd with
          | symlink m l => exact absurd hg (h2 m l)
          | dir m chd => simp [hg] at h
          | file m d nl id => simp [hg] at h
    | viaLink => exact Or.inr rfl
    | _ => cases h
  | viaLink => exact Or.inl rfl
  | _ => cases h

/-- Link through the view = Link through the parent with both operands prefixed: same outcome, same new heap (the new
    entry and the link count of the file). The existing path may be "/" of the view (EPERM on both sides). -/
theorem sub_sim_link (s : Store) (root : Ino) (v : View) (hwf : WF s root) (hn : NamesOK s) (hv : ViewOK s v)
    (hroot : v.root = root) (a bo bn : List Bytes) (hbn : bn ≠ [])
    (hallo : ∀ x ∈ a ++ bo, x ≠ [] ∧ ∀ y ∈ x, y ≠ SL) (hdotso : ∀ x ∈ a ++ bo, x ≠ [DOT] ∧ x ≠ [DOT, DOT])
    (halln : ∀ x ∈ a ++ bn, x ≠ [] ∧ ∀ y ∈ x, y ≠ SL) (hdotsn : ∀ x ∈ a ++ bn, x ≠ [DOT] ∧ x ≠ [DOT, DOT])
    (par c : Ino) (mt : Meta) (ch : List (Bytes × Ino))
    (ha : walkPath s v root a = .found par c) (hc : s.get c = some (.dir mt ch)) :
    walkPath s v root (a ++ bo) = .viaLink ∨ walkPath s v root (a ++ bn) = .viaLink ∨
    link s (subView v c) (SL :: joinWith SL bo) (SL :: joinWith SL bn) =
      link s v (SL :: joinWith SL (a ++ bo)) (SL :: joinWith SL (a ++ bn)) := by
  subst hroot
  have hvr := get_of_isDirAt hwf.rootDir
  have hne := append_ne_nil_right a bn hbn
  have h1 := link_posix_gen s v.root (subView v c) hwf ⟨mt, ch, hc⟩ bo bn hbn (comps_right a bo hallo)
    (comps_right a bo hdotso) (comps_right a bn halln) (comps_right a bn hdotsn)
  have h2 := link_posix_gen s v.root v hwf hvr (a ++ bo) (a ++ bn) hne hallo hdotso halln hdotsn
  have hR : posixLink s (subView v c) (walkPath s (subView v c) (subView v c).root bo)
        (walkPath s (subView v c) (subView v c).root bn) =
      posixLink s v (walkPath s v v.root (a ++ bo)) (walkPath s v v.root (a ++ bn)) := by
    show posixLink s (subView v c) (walkPath s (subView v c) c bo) (walkPath s (subView v c) c bn) = _
    rw [walkPath_subView, walkPath_subView, posixLink_subView,
      walkPath_append s v v.root a bn hbn par c mt ch ha hc]
    exact posixLink_sameNode s v _ (walkPath_append_node s v v.root a bo par c mt ch ha hc)
  rw [hR] at h1
  cases hr : posixLink s v (walkPath s v v.root (a ++ bo)) (walkPath s v v.root (a ++ bn)) with
  | fail e => right; right; simp only [hr] at h1 h2; rw [h1, h2]
  | link oc p0 n0 => right; right; simp only [hr] at h1 h2; rw [h1.2, h2.2]
  | outside =>
    cases posixLink_outside s v _ _ (fun p c0 hw => walkPath_found_node hwf hvr (a ++ bo) p c0 hw) hr with
    | inl h => exact Or.inl h
    | inr h => exact Or.inr (Or.inl h)

/-! ### 6. OpenFile -/

theorem posixOpen_subView (s : Store) (v : View) (c : Ino) (om : Nat) (w : Resolved) :
    posixOpen s (subView v c) om w = posixOpen s v om w := by
  cases w <;> rfl

theorem createFile_subView (s : Store) (v : View) (c par : Ino) (name : Bytes) (perm : Nat) :
    createFile s (subView v c) par name perm = createFile s v par name perm := rfl

theorem posixOpen_outside (s : Store) (v : View) (om : Nat) (w : Resolved)
    (hf : ∀ p c, w = .found p c → (s.get c).isSome = true ∧ ∀ m l, s.get c ≠ some (.symlink m l))
    (h : posixOpen s v om w = .outside) : w = .viaLink := by
  cases w with
  | found p c =>
    obtain ⟨h1, h2⟩ := hf p c rfl
    simp only [posixOpen] at h
    split at h
    · cases h
    · cases hg : s.get c with
      | none => simp [hg] at h1
      | some n =>
        cases n with
        | symlink m l => exact absurd hg (h2 m l)
        | dir m chd =>
          simp only [hg] at h
          split at h
          · cases h
          · split at h <;> cases h
        | file m d nl id => simp only [hg] at h; split at h <;> cases h
  | missingLast p n =>
    simp only [posixOpen] at h
    split at h
    · cases h
    · split at h <;> cases h
  | viaLink => rfl
  | _ => cases h

/-- the handle OpenFile returns records the name it was given and the number of the view it was opened through: the
    only fields in which the two calls differ -/
def Handle.asOpenedBy (h : Handle) (name : Bytes) (vid : Nat) : Handle := { h with name := name, view := vid }

/-- OpenFile through the view = OpenFile through the parent on the prefixed path: same error, or same new heap (the
    created file, the truncated file) and a handle on the SAME node with the same open mode, offset 0 and nothing read
    yet. WHAT DIFFERS: the name recorded in the handle — the path as given to the call, "/b1/…" through the view,
    "/a1/…/b1/…" through the parent (File.Name() reports it; the view-relative name is what the caller of the view must
    see) — and the number of the view the handle is registered under (`vid`, `vid'`). Exactly: the result through the
    view is the result through the parent with these two fields replaced. -/
theorem sub_sim_open (s : Store) (root : Ino) (v : View) (hwf : WF s root) (hn : NamesOK s) (hv : ViewOK s v)
    (hroot : v.root = root) (a b : List Bytes) (hb : b ≠ [])
    (hall : ∀ x ∈ a ++ b, x ≠ [] ∧ ∀ y ∈ x, y ≠ SL) (hdots : ∀ x ∈ a ++ b, x ≠ [DOT] ∧ x ≠ [DOT, DOT])
    (par c : Ino) (mt : Meta) (ch : List (Bytes × Ino))
    (ha : walkPath s v root a = .found par c) (hc : s.get c = some (.dir mt ch)) (vid vid' flag perm : Nat) :
    walkPath s v root (a ++ b) = .viaLink ∨
    openFile s (subView v c) vid (SL :: joinWith SL b) flag perm =
      ((openFile s v vid' (SL :: joinWith SL (a ++ b)) flag perm).1,
       (openFile s v vid' (SL :: joinWith SL (a ++ b)) flag perm).2.map
         fun h => h.asOpenedBy (SL :: joinWith SL b) vid) := by
  subst hroot
  have hvr := get_of_isDirAt hwf.rootDir
  have hne := append_ne_nil_right a b hb
  have h1 := open_posix_gen s v.root (subView v c) hwf ⟨mt, ch, hc⟩ b hb (comps_right a b hall)
    (comps_right a b hdots) vid flag perm
  have h2 := open_posix_gen s v.root v hwf hvr (a ++ b) hne hall hdots vid' flag perm
  have hR : posixOpen s (subView v c) (toOpenMode flag) (walkPath s (subView v c) (subView v c).root b) =
      posixOpen s v (toOpenMode flag) (walkPath s v v.root (a ++ b)) := by
    show posixOpen s (subView v c) (toOpenMode flag) (walkPath s (subView v c) c b) = _
    rw [walkPath_subView, posixOpen_subView, walkPath_append s v v.root a b hb par c mt ch ha hc]
  rw [hR] at h1
  cases hr : posixOpen s v (toOpenMode flag) (walkPath s v v.root (a ++ b)) with
  | fail e => right; simp only [hr] at h1 h2; rw [h1, h2]; rfl
  | create p0 n0 => right; simp only [hr] at h1 h2; rw [h1.2, h2.2, createFile_subView]; rfl
  | opened c0 tr => right; simp only [hr] at h1 h2; rw [h1, h2]; rfl
  | outside =>
    left
    exact posixOpen_outside s v _ _ (fun p c0 hw => walkPath_found_node hwf hvr (a ++ b) p c0 hw) hr

/-- a handle OpenFile returns carries the path and the view number given to the call -/
theorem open_handle_name (s : Store) (v : View) (vid : Nat) (p : Bytes) (flag perm : Nat) (h : Handle)
    (hq : (openFile s v vid p flag perm).2 = .ok h) : h.name = p ∧ h.view = vid := by
  unfold openFile at hq
  simp only at hq
  repeat' split at hq
  all_goals first
    | (cases hq; exact ⟨rfl, rfl⟩)
    | cases hq

/-- OpenFile("/") through the view = OpenFile of the directory `a` through the parent (same statement as
    `sub_sim_open`, for the root of the view; `a ≠ []`: for `a = []` the two views have the same root) -/
theorem sub_sim_open_root (s : Store) (root : Ino) (v : View) (hwf : WF s root) (hn : NamesOK s) (hv : ViewOK s v)
    (hroot : v.root = root) (a : List Bytes) (hane : a ≠ [])
    (hall : ∀ x ∈ a, x ≠ [] ∧ ∀ y ∈ x, y ≠ SL) (hdots : ∀ x ∈ a, x ≠ [DOT] ∧ x ≠ [DOT, DOT])
    (par c : Ino) (mt : Meta) (ch : List (Bytes × Ino))
    (ha : walkPath s v root a = .found par c) (hc : s.get c = some (.dir mt ch)) (vid vid' flag perm : Nat) :
    openFile s (subView v c) vid [SL] flag perm =
      ((openFile s v vid' (SL :: joinWith SL a) flag perm).1,
       (openFile s v vid' (SL :: joinWith SL a) flag perm).2.map fun h => h.asOpenedBy [SL] vid) := by
  subst hroot
  have hvr := get_of_isDirAt hwf.rootDir
  have h1 := open_root s (subView v c) ⟨mt, ch, hc⟩ vid flag perm
  have h2 := open_posix_gen s v.root v hwf hvr a hane hall hdots vid' flag perm
  rw [ha] at h2
  have hR : posixOpen s (subView v c) (toOpenMode flag) (.found (subView v c).root (subView v c).root) =
      posixOpen s v (toOpenMode flag) (.found par c) := rfl
  rw [hR] at h1
  cases hr : posixOpen s v (toOpenMode flag) (.found par c) with
  | fail e => simp only [hr] at h1 h2; rw [h1, h2]; rfl
  | create p0 n0 => simp only [hr] at h1
  | opened c0 tr =>
    simp only [hr] at h1 h2
    have htr : tr = false := by
      simp only [posixOpen, hc] at hr
      repeat' split at hr
      all_goals first
        | (cases hr; rfl)
        | cases hr
    subst htr
    rw [h1, h2]; rfl
  | outside => simp only [hr] at h1

/-- spelled out: the heap and the error are the same; a handle through the view and the handle through the parent are
    on the same node, with the same open mode and offset and empty directory cache -/
theorem sub_sim_open_fields (s : Store) (root : Ino) (v : View) (hwf : WF s root) (hn : NamesOK s) (hv : ViewOK s v)
    (hroot : v.root = root) (a b : List Bytes) (hb : b ≠ [])
    (hall : ∀ x ∈ a ++ b, x ≠ [] ∧ ∀ y ∈ x, y ≠ SL) (hdots : ∀ x ∈ a ++ b, x ≠ [DOT] ∧ x ≠ [DOT, DOT])
    (par c : Ino) (mt : Meta) (ch : List (Bytes × Ino))
    (ha : walkPath s v root a = .found par c) (hc : s.get c = some (.dir mt ch)) (vid vid' flag perm : Nat) :
    walkPath s v root (a ++ b) = .viaLink ∨
    ((openFile s (subView v c) vid (SL :: joinWith SL b) flag perm).1 =
        (openFile s v vid' (SL :: joinWith SL (a ++ b)) flag perm).1 ∧
     match (openFile s (subView v c) vid (SL :: joinWith SL b) flag perm).2,
           (openFile s v vid' (SL :: joinWith SL (a ++ b)) flag perm).2 with
     | .error e, .error e' => e = e'
     | .ok h, .ok h' => h.nd = h'.nd ∧ h.pos = h'.pos ∧ h.om = h'.om ∧ h.dirEntries = h'.dirEntries ∧
         h.dirNames = h'.dirNames ∧ h.dirIndex = h'.dirIndex ∧
         h.name = SL :: joinWith SL b ∧ h'.name = SL :: joinWith SL (a ++ b) ∧ h.view = vid ∧ h'.view = vid'
     | _, _ => False) := by
  refine (sub_sim_open s root v hwf hn hv hroot a b hb hall hdots par c mt ch ha hc vid vid' flag perm).imp_right
    fun h => ?_
  rw [h]
  refine ⟨rfl, ?_⟩
  cases hq : (openFile s v vid' (SL :: joinWith SL (a ++ b)) flag perm).2 with
  | error e => simp [Except.map]
  | ok h' =>
    have hnm := open_handle_name s v vid' (SL :: joinWith SL (a ++ b)) flag perm h' hq
    simp [Except.map, Handle.asOpenedBy, hnm.1, hnm.2]

/-! ### 7. MkdirAll -/

theorem mkWalk_subView (s : Store) (v : View) (c : Ino) : ∀ (cs : List Bytes) (d : Ino),
    mkWalk s (subView v c) d cs = mkWalk s v d cs := by
  intro cs
  induction cs with
  | nil => intro d; rfl
  | cons x xs ih =>
    intro d
    simp only [mkWalk, checkPerm_subView, ih]

/-- the descent of MkdirAll through `a ++ b` goes on from the directory `a` reaches (`b` may be empty) -/
theorem mkWalk_append (s : Store) (v : View) : ∀ (a : List Bytes) (d : Ino) (b : List Bytes) (par c : Ino) (m : Meta)
    (ch : List (Bytes × Ino)), walkPath s v d a = .found par c → s.get c = some (.dir m ch) →
    mkWalk s v d (a ++ b) = mkWalk s v c b := by
  intro a
  induction a with
  | nil =>
    intro d b par c m ch ha hc
    simp only [walkPath, Resolved.found.injEq] at ha
    obtain ⟨_, rfl⟩ := ha
    rfl
  | cons x xs ih =>
    intro d b par c m ch ha hc
    cases xs with
    | nil =>
      obtain ⟨md, chd, hgd, hden, hch, _, _⟩ := walkPath_single_found ha
      simp [mkWalk, hgd, hden, hch, hc]
    | cons x' xs' =>
      obtain ⟨md, chd, i, mi, chi, hgd, hden, hch, hgi, hrec⟩ := walkPath_cons_found ha
      have := ih i b par c m ch hrec hc
      simpa [mkWalk, hgd, hden, hch, hgi] using this

theorem mkChain_subView (v : View) (c : Ino) (perm : Nat) : ∀ (todo : List Bytes) (s : Store) (d : Ino),
    mkChain (subView v c) perm s d todo = mkChain v perm s d todo := by
  intro todo
  induction todo with
  | nil => intro s d; rfl
  | cons x r ih =>
    intro s d
    simp only [mkChain, createDir_subView, ih]

/-- the descent of MkdirAll meets a link only where the plain descent does -/
theorem mkWalk_viaLink {s : Store} {root : Ino} {v : View} (hwf : WF s root) (cs : List Bytes) (x : Ino)
    (hx : isDirAt s x = true) (h : mkWalk s v x cs = .viaLink) : walkPath s v x cs = .viaLink := by
  have hW := mkWalk_of_walkPath (v := v) hwf cs x hx
  cases hw : walkPath s v x cs with
  | viaLink => rfl
  | found p c =>
    simp only [hw] at hW
    rw [h] at hW
    split at hW <;> cases hW
  | missingLast p n => simp only [hw] at hW; rw [h] at hW; cases hW
  | missingDir => simp only [hw] at hW; obtain ⟨_, _, _, _, hW⟩ := hW; rw [h] at hW; cases hW
  | notDir => simp only [hw] at hW; rw [h] at hW; cases hW
  | denied => simp only [hw] at hW; rw [h] at hW; cases hW

/-- MkdirAll through the view = MkdirAll through the parent on the prefixed path ("/" of the view included): same
    outcome, same chain of new directories. No corner hypothesis (the divergence from mkdir -p recorded by
    `mkdirAll_corner_unwritable` is the same on both sides): both calls are compared through the descent `mkWalk` of
    MkdirAll itself (`mkdirAll_mkWalk`). -/
theorem sub_sim_mkdirAll (s : Store) (root : Ino) (v : View) (hwf : WF s root) (hn : NamesOK s) (hv : ViewOK s v)
    (hroot : v.root = root) (a b : List Bytes)
    (hall : ∀ x ∈ a ++ b, x ≠ [] ∧ ∀ y ∈ x, y ≠ SL) (hdots : ∀ x ∈ a ++ b, x ≠ [DOT] ∧ x ≠ [DOT, DOT])
    (par c : Ino) (mt : Meta) (ch : List (Bytes × Ino))
    (ha : walkPath s v root a = .found par c) (hc : s.get c = some (.dir mt ch)) (perm : Nat) :
    walkPath s v root (a ++ b) = .viaLink ∨
    mkdirAll s (subView v c) (SL :: joinWith SL b) perm = mkdirAll s v (SL :: joinWith SL (a ++ b)) perm := by
  subst hroot
  have hvr := get_of_isDirAt hwf.rootDir
  have h1 := mkdirAll_mkWalk s v.root (subView v c) hwf ⟨mt, ch, hc⟩ b (comps_right a b hall) (comps_right a b hdots)
    perm
  have h2 := mkdirAll_mkWalk s v.root v hwf hvr (a ++ b) hall hdots perm
  have hR : mkWalk s (subView v c) (subView v c).root b = mkWalk s v v.root (a ++ b) := by
    show mkWalk s (subView v c) c b = _
    rw [mkWalk_subView, mkWalk_append s v a v.root b par c mt ch ha hc]
  rw [hR] at h1
  cases hr : mkWalk s v v.root (a ++ b) with
  | isDir => right; simp only [hr] at h1 h2; rw [h1, h2]
  | isFile => right; simp only [hr] at h1 h2; rw [h1, h2]
  | denied => right; simp only [hr] at h1 h2; rw [h1, h2]
  | missing d todo =>
    right
    simp only [hr] at h1 h2
    rw [h1, h2, dirPerm_subView, mkChain_subView]
  | viaLink => left; exact mkWalk_viaLink hwf (a ++ b) v.root hwf.rootDir hr

/-! ### 8. Rename -/

theorem posixRename_subView (s : Store) (v : View) (c : Ino) (same below : Bool) (o n : Resolved) :
    posixRename s (subView v c) same below o n = posixRename s v same below o n := by
  cases o <;> cases n <;> rfl

theorem isPrefixOf_append_left (a x y : List Bytes) : (a ++ x).isPrefixOf (a ++ y) = x.isPrefixOf y := by
  induction a with
  | nil => rfl
  | cons h t ih => simp [List.isPrefixOf, ih]

/-- "the same path" and "the old path is a proper prefix of the new one" are the same questions before and after
    prefixing both paths with `a` -/
theorem same_append_left (a x y : List Bytes) : decide (x = y) = decide (a ++ x = a ++ y) := by
  by_cases h : x = y
  · simp [h]
  · simp [h]

theorem below_append_left (a x y : List Bytes) :
    (x.isPrefixOf y && x != y) = ((a ++ x).isPrefixOf (a ++ y) && a ++ x != a ++ y) := by
  rw [isPrefixOf_append_left]
  have e : (a ++ x == a ++ y) = (x == y) := by
    rw [Bool.eq_iff_iff]; simp
  simp only [bne, e]

theorem posixRename_outside (s : Store) (v : View) (same below : Bool) (o n : Resolved)
    (hfo : ∀ p c, o = .found p c → (s.get c).isSome = true ∧ ∀ m l, s.get c ≠ some (.symlink m l))
    (hfn : ∀ p c, n = .found p c → (s.get c).isSome = true ∧ ∀ m l, s.get c ≠ some (.symlink m l))
    (h : posixRename s v same below o n = .outside) : o = .viaLink ∨ n = .viaLink := by
  cases o with
  | found op oc =>
    obtain ⟨ho1, ho2⟩ := hfo op oc rfl
    obtain ⟨no, hgo⟩ := Option.isSome_iff_exists.mp ho1
    cases n with
    | found np nc =>
      obtain ⟨hn1, hn2⟩ := hfn np nc rfl
      obtain ⟨nn, hgn⟩ := Option.isSome_iff_exists.mp hn1
      exfalso
      simp only [posixRename, hgo, hgn] at h
      cases no with
      | symlink m l => exact ho2 m l hgo
      | dir m chd =>
        cases nn with
        | symlink m2 l2 => exact hn2 m2 l2 hgn
        | dir m2 chd2 => simp only at h; repeat' split at h
                         all_goals cases h
        | file m2 d2 nl2 id2 => simp only at h; repeat' split at h
                                all_goals cases h
      | file m d nl id =>
        cases nn with
        | symlink m2 l2 => exact hn2 m2 l2 hgn
        | dir m2 chd2 => simp only at h; repeat' split at h
                         all_goals cases h
        | file m2 d2 nl2 id2 => simp only at h; repeat' split at h
                                all_goals cases h
    | missingLast np nname =>
      exfalso
      simp only [posixRename, hgo] at h
      cases no with
      | symlink m l => exact ho2 m l hgo
      | dir m chd => simp only at h; repeat' split at h
                     all_goals cases h
      | file m d nl id => simp only at h; repeat' split at h
                          all_goals cases h
    | viaLink => exact Or.inr rfl
    | _ => cases h
  | viaLink => exact Or.inl rfl
  | _ => cases h

/-- Rename through the view = Rename through the parent with both operands prefixed: same outcome, same new heap. No
    corner hypothesis: where MemFS diverges from rename(2) (an existing new entry: `renameCorner`,
    `rename_corner_eexist`) it answers EEXIST on both sides. -/
theorem sub_sim_rename (s : Store) (root : Ino) (v : View) (hwf : WF s root) (hn : NamesOK s) (hv : ViewOK s v)
    (hroot : v.root = root) (a bo bn : List Bytes) (hbo : bo ≠ []) (hbn : bn ≠ [])
    (hallo : ∀ x ∈ a ++ bo, x ≠ [] ∧ ∀ y ∈ x, y ≠ SL) (hdotso : ∀ x ∈ a ++ bo, x ≠ [DOT] ∧ x ≠ [DOT, DOT])
    (halln : ∀ x ∈ a ++ bn, x ≠ [] ∧ ∀ y ∈ x, y ≠ SL) (hdotsn : ∀ x ∈ a ++ bn, x ≠ [DOT] ∧ x ≠ [DOT, DOT])
    (par c : Ino) (mt : Meta) (ch : List (Bytes × Ino))
    (ha : walkPath s v root a = .found par c) (hc : s.get c = some (.dir mt ch)) :
    walkPath s v root (a ++ bo) = .viaLink ∨ walkPath s v root (a ++ bn) = .viaLink ∨
    rename s (subView v c) (SL :: joinWith SL bo) (SL :: joinWith SL bn) =
      rename s v (SL :: joinWith SL (a ++ bo)) (SL :: joinWith SL (a ++ bn)) := by
  subst hroot
  have hvr := get_of_isDirAt hwf.rootDir
  have hneo := append_ne_nil_right a bo hbo
  have hnen := append_ne_nil_right a bn hbn
  have h1 := rename_core s v.root (subView v c) hwf ⟨mt, ch, hc⟩ bo bn hbo hbn (comps_right a bo hallo)
    (comps_right a bo hdotso) (comps_right a bn halln) (comps_right a bn hdotsn)
  have h2 := rename_core s v.root v hwf hvr (a ++ bo) (a ++ bn) hneo hnen hallo hdotso halln hdotsn
  have e1 : walkPath s (subView v c) (subView v c).root bo = walkPath s v v.root (a ++ bo) := by
    show walkPath s (subView v c) c bo = _
    rw [walkPath_subView, walkPath_append s v v.root a bo hbo par c mt ch ha hc]
  have e2 : walkPath s (subView v c) (subView v c).root bn = walkPath s v v.root (a ++ bn) := by
    show walkPath s (subView v c) c bn = _
    rw [walkPath_subView, walkPath_append s v v.root a bn hbn par c mt ch ha hc]
  rw [e1, e2, same_append_left a bo bn, below_append_left a bo bn, posixRename_subView] at h1
  rw [getLast_append_right a bo hbo hneo, getLast_append_right a bn hbn hnen] at h2
  by_cases hcor : renameCorner s (walkPath s v v.root (a ++ bo)) (walkPath s v v.root (a ++ bn))
      (posixRename s v (decide (a ++ bo = a ++ bn)) ((a ++ bo).isPrefixOf (a ++ bn) && a ++ bo != a ++ bn)
        (walkPath s v v.root (a ++ bo)) (walkPath s v v.root (a ++ bn))) = true
  · rw [if_pos hcor] at h1 h2
    right; right
    rw [h1, h2]
  · rw [if_neg hcor] at h1 h2
    cases hr : posixRename s v (decide (a ++ bo = a ++ bn)) ((a ++ bo).isPrefixOf (a ++ bn) && a ++ bo != a ++ bn)
        (walkPath s v v.root (a ++ bo)) (walkPath s v v.root (a ++ bn)) with
    | fail e => right; right; simp only [hr] at h1 h2; rw [h1, h2]
    | noop => right; right; simp only [hr] at h1 h2; rw [h1, h2]
    | move op np oc repl => right; right; simp only [hr] at h1 h2; rw [h1, h2]
    | outside =>
      cases posixRename_outside s v _ _ _ _ (fun p c0 hw => walkPath_found_node hwf hvr (a ++ bo) p c0 hw)
        (fun p c0 hw => walkPath_found_node hwf hvr (a ++ bn) p c0 hw) hr with
      | inl h => exact Or.inl h
      | inr h => exact Or.inr (Or.inl h)

/-! ### 9. RemoveAll

  Kept independent of the reference theorem of RemoveAll (Lemmas/Posix3.lean, section 5): the two calls are compared
  through the definition of `removeAll` — what the walk returns (the lstat descent, `searchNode_factsL`) and the
  recursive removal `removeAllRec`, which reads the identity of the caller only. -/

theorem restrictedDeletion_subView (s : Store) (v : View) (c par x : Ino) :
    restrictedDeletion s (subView v c) par x = restrictedDeletion s v par x := rfl

/-- the recursive removal reads the identity of the caller only: not the root nor the working directory of the view -/
theorem removeAllRec_subView (v : View) (c : Ino) : ∀ (fuel : Nat) (s : Store) (d : Ino),
    removeAllRec (subView v c) fuel s d = removeAllRec v fuel s d := by
  intro fuel
  induction fuel with
  | zero => intro s d; rw [removeAllRec, removeAllRec]
  | succ fuel ih =>
    intro s d
    have hgo : ∀ (L : List Bytes) (s : Store),
        removeAllRec.go (subView v c) fuel d s L = removeAllRec.go v fuel d s L := by
      intro L
      induction L with
      | nil => intro s; rw [removeAllRec.go, removeAllRec.go]
      | cons nm rest ihL =>
        intro s
        rw [removeAllRec.go, removeAllRec.go]
        simp only [ih, ihL, dirPerm_subView, restrictedDeletion_subView, checkPerm_subView]
    rw [removeAllRec, removeAllRec]
    simp only [hgo, dirPerm_subView, restrictedDeletion_subView, checkPerm_subView]

/-- RemoveAll is determined by what the walk returns (error class, child, parent, last component) and by the identity
    of the caller -/
theorem removeAll_subView_congr (s : Store) (v : View) (c : Ino) (p p' : Bytes) (hp : p.isEmpty = false)
    (hp' : p'.isEmpty = false)
    (he : (searchNode s (subView v c) p .lstat).err = (searchNode s v p' .lstat).err)
    (hc : (searchNode s (subView v c) p .lstat).child = (searchNode s v p' .lstat).child)
    (hpar : (searchNode s (subView v c) p .lstat).parent = (searchNode s v p' .lstat).parent)
    (hpart : partOf (searchNode s (subView v c) p .lstat).pi = partOf (searchNode s v p' .lstat).pi) :
    removeAll s (subView v c) p = removeAll s v p' := by
  unfold removeAll
  simp only [hp, hp', he, hc, hpar, hpart, removeAllRec_subView, dirPerm_subView, restrictedDeletion_subView,
    Bool.false_eq_true, if_false]

/-- when the walk fails, RemoveAll changes nothing and answers by the error class alone (nil for ENOENT) -/
theorem removeAll_of_err (s : Store) (v : View) (p : Bytes) (hp : p.isEmpty = false)
    (he : (searchNode s v p .lstat).err ≠ .exists) :
    removeAll s v p =
      if (searchNode s v p .lstat).err = .noent then (s, .ok .unit) else (s, .err (searchNode s v p .lstat).err.toErr) := by
  unfold removeAll
  simp only [hp, Bool.false_eq_true, if_false]
  cases h : (searchNode s v p .lstat).err <;> simp_all

/-- RemoveAll through the view = RemoveAll through the parent on the prefixed path: same outcome and same new heap
    (whatever was removed before a permission error stopped the traversal included); a symbolic link as last
    component is the entry removed, not followed. "/" of the view is excluded (`hb`; EINVAL: `removeAll_root`, where
    the parent would remove the directory `a`). -/
theorem sub_sim_removeAll (s : Store) (root : Ino) (v : View) (hwf : WF s root) (hn : NamesOK s) (hv : ViewOK s v)
    (hroot : v.root = root) (a b : List Bytes) (hb : b ≠ [])
    (hall : ∀ x ∈ a ++ b, x ≠ [] ∧ ∀ y ∈ x, y ≠ SL) (hdots : ∀ x ∈ a ++ b, x ≠ [DOT] ∧ x ≠ [DOT, DOT])
    (par c : Ino) (mt : Meta) (ch : List (Bytes × Ino))
    (ha : walkPath s v root a = .found par c) (hc : s.get c = some (.dir mt ch)) :
    walkPathL s v root (a ++ b) = .viaLink ∨
    removeAll s (subView v c) (SL :: joinWith SL b) = removeAll s v (SL :: joinWith SL (a ++ b)) := by
  subst hroot
  have hvr := get_of_isDirAt hwf.rootDir
  have hne := append_ne_nil_right a b hb
  have h1 := searchNode_factsL s v.root (subView v c) hwf ⟨mt, ch, hc⟩ b hb (comps_right a b hall)
    (comps_right a b hdots)
  have h2 := searchNode_factsL s v.root v hwf hvr (a ++ b) hne hall hdots
  have hR : walkPathL s (subView v c) (subView v c).root b = walkPathL s v v.root (a ++ b) := by
    show walkPathL s (subView v c) c b = _
    rw [walkPathL_subView, walkPathL_append s v v.root a b hb par c mt ch ha hc]
  rw [hR] at h1
  rw [getLast_append_right a b hb hne] at h2
  cases hw : walkPathL s v v.root (a ++ b) with
  | viaLink => exact Or.inl rfl
  | found p0 c0 =>
    right
    simp only [hw, WalkFactsL] at h1 h2
    exact removeAll_subView_congr s v c _ _ rfl rfl (h1.1.trans h2.1.symm) (h1.2.1.trans h2.2.1.symm)
      (h1.2.2.1.trans h2.2.2.1.symm) (h1.2.2.2.1.trans h2.2.2.2.1.symm)
  | missingLast p0 n0 =>
    right
    simp only [hw, WalkFactsL] at h1 h2
    rw [removeAll_of_err s _ _ rfl (by rw [h1.1]; decide), removeAll_of_err s _ _ rfl (by rw [h2.1]; decide),
      h1.1, h2.1]
  | missingDir =>
    right
    simp only [hw, WalkFactsL] at h1 h2
    rw [removeAll_of_err s _ _ rfl (by rw [h1.1]; decide), removeAll_of_err s _ _ rfl (by rw [h2.1]; decide),
      h1.1, h2.1]
  | notDir =>
    right
    simp only [hw, WalkFactsL] at h1 h2
    rw [removeAll_of_err s _ _ rfl (by rw [h1]; decide), removeAll_of_err s _ _ rfl (by rw [h2]; decide), h1, h2]
  | denied =>
    right
    simp only [hw, WalkFactsL] at h1 h2
    rw [removeAll_of_err s _ _ rfl (by rw [h1]; decide), removeAll_of_err s _ _ rfl (by rw [h2]; decide), h1, h2]

end Avfs.FS
