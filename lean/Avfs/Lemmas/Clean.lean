import Avfs.Path.Spec
set_option linter.unusedSimpArgs false
set_option linter.unusedVariables false

namespace Avfs.Path
open Avfs.Path.Spec

/-! ### Step 0: the logical content of the lazybuf -/

@[simp] theorem lbAppend_out (path : Bytes) (b : LBuf) (c : UInt8) :
    (lbAppend path b c).out = b.out ++ [c] := by
  unfold lbAppend
  split
  · rfl
  · split <;> rfl

@[simp] theorem appendAll_out (path : Bytes) (b : LBuf) (cs : Bytes) :
    (appendAll path b cs).out = b.out ++ cs := by
  induction cs generalizing b with
  | nil => simp [appendAll]
  | cons c cs ih => simp [appendAll, ih]

@[simp] theorem lbBack_out (os : OS) (b : LBuf) (dd : Nat) :
    (lbBack os b dd).out = backW os b.out dd := rfl

/-! ### splitSl / comps -/

abbrev tw (p : Bytes) : Bytes := p.takeWhile (fun x => !(x == SL))
abbrev dw (p : Bytes) : Bytes := p.dropWhile (fun x => !(x == SL))

theorem splitSl_ne_nil (p : Bytes) : splitSl p ≠ [] := by
  cases p with
  | nil => simp [splitSl]
  | cons c cs =>
    simp only [splitSl]
    split
    · simp
    · split <;> simp

@[simp] theorem comps_nil : comps [] = [] := by simp [comps, splitSl]

@[simp] theorem comps_sl (r : Bytes) : comps (SL :: r) = comps r := by
  simp [comps, splitSl]

theorem splitSl_tw (p : Bytes) :
    ∃ X, splitSl p = tw p :: X ∧ X.filter (fun c => !c.isEmpty) = comps (dw p) := by
  induction p with
  | nil => exact ⟨[], by simp [splitSl], by simp⟩
  | cons c p ih =>
    by_cases h : c = SL
    · subst h
      exact ⟨splitSl p, by simp [splitSl], by simp [comps, splitSl]⟩
    · obtain ⟨X, h1, h2⟩ := ih
      refine ⟨X, ?_, ?_⟩
      · simp [splitSl, h, h1]
      · simp [h, h2]

theorem comps_cons_of_ne (c : UInt8) (r : Bytes) (h : c ≠ SL) :
    comps (c :: r) = tw (c :: r) :: comps (dw (c :: r)) := by
  obtain ⟨X, h1, h2⟩ := splitSl_tw (c :: r)
  simp only [comps] at *
  rw [h1]
  simp [h, h2]


/-! ### Step A: the loop as a fold over components -/

def addSep (rooted : Bool) (o : Bytes) : Bytes :=
  if (rooted && o.length != 1) || (!rooted && o.length != 0) then o ++ [SL] else o

def stepOut (rooted : Bool) (s : Bytes × Nat) (c : Bytes) : Bytes × Nat :=
  if c == [DOT] then s
  else if c == DD then
    if s.1.length > s.2 then (backW .linux s.1 s.2, s.2)
    else if !rooted then (addSep false s.1 ++ DD, (addSep false s.1 ++ DD).length)
    else s
  else (addSep rooted s.1 ++ c, s.2)

@[simp] theorem dot_beq_sl : (DOT == SL) = false := by decide
@[simp] theorem dot_ne_sl : DOT ≠ SL := by decide

@[simp] theorem dd_ne_dot : DD ≠ [DOT] := by decide

/-- `r` is at the end of a path element -/
def atEnd (r : Bytes) : Prop := r = [] ∨ ∃ r2, r = SL :: r2

theorem atEnd_iff (r : Bytes) :
    (r == [] || match r with | c1 :: _ => isSep .linux c1 | [] => false) = true ↔ atEnd r := by
  cases r with
  | nil => simp [atEnd]
  | cons c r => simp [atEnd, isSep]

theorem tw_atEnd {r : Bytes} (h : atEnd r) : tw r = [] ∧ dw r = r := by
  rcases h with rfl | ⟨r2, rfl⟩ <;> simp [tw, dw]

theorem tw_eq_nil {r : Bytes} (h : tw r = []) : atEnd r := by
  cases r with
  | nil => simp [atEnd]
  | cons c r =>
    by_cases hc : c = SL
    · subst hc; simp [atEnd]
    · simp [tw, List.takeWhile_cons, hc] at h

theorem tw_eq_dot {r : Bytes} (h : tw r = [DOT]) : ∃ r2, r = DOT :: r2 ∧ atEnd r2 := by
  cases r with
  | nil => simp [tw] at h
  | cons c1 r2 =>
    by_cases hc : c1 = SL
    · subst hc; simp [tw] at h
    · simp [tw, List.takeWhile_cons, hc] at h
      exact ⟨r2, by rw [h.1], tw_eq_nil h.2⟩

theorem comps_dot {r : Bytes} (h : atEnd r) : comps (DOT :: r) = [DOT] :: comps r := by
  rw [comps_cons_of_ne _ _ (by decide)]
  have := tw_atEnd h
  simp [tw, dw, List.takeWhile, List.dropWhile] at *
  simp [this]

theorem comps_dotdot {r : Bytes} (h : atEnd r) : comps (DOT :: DOT :: r) = DD :: comps r := by
  rw [comps_cons_of_ne _ _ (by decide)]
  have := tw_atEnd h
  simp [tw, dw, List.takeWhile, List.dropWhile] at *
  simp [this, DD]

theorem loop_out (path : Bytes) (rooted : Bool) (rest : Bytes) (b : LBuf) (dd : Nat) :
    (cleanLoop .linux path rooted rest b dd).out
      = ((comps rest).foldl (stepOut rooted) (b.out, dd)).1 := by
  fun_induction cleanLoop .linux path rooted rest b dd
  · simp
  · rename_i b dd c r h ih
    rw [ih]
    simp [isSep] at h
    subst h
    simp
  · rename_i b dd c r h0 h ih
    rw [ih]
    rw [Bool.and_eq_true] at h
    obtain ⟨hc, hr⟩ := h
    simp at hc
    subst hc
    have hr : atEnd r := by cases r <;> simp_all [atEnd, isSep]
    rw [comps_dot hr]
    simp [stepOut]
  · rename_i b dd c r h0 h1 h rest2 hlen ih
    have key : c = DOT ∧ ∃ r2, r = DOT :: r2 ∧ atEnd r2 := by
      cases r with
      | nil => simp at h
      | cons c1 r2 => cases r2 <;> simp_all [atEnd, isSep]
    obtain ⟨rfl, r2, rfl, hr2⟩ := key
    rw [ih, comps_dotdot hr2]
    simp [stepOut, rest2, hlen]
  · rename_i b dd c r h0 h1 h rest2 hlen hroot b1 b3 ih
    have key : c = DOT ∧ ∃ r2, r = DOT :: r2 ∧ atEnd r2 := by
      cases r with
      | nil => simp at h
      | cons c1 r2 => cases r2 <;> simp_all [atEnd, isSep]
    obtain ⟨rfl, r2, rfl, hr2⟩ := key
    rw [ih, comps_dotdot hr2]
    simp at hroot
    subst hroot
    have hb3 : b3.out = addSep false b.out ++ DD := by
      by_cases hl : b.out.length > 0
      · have : b.out ≠ [] := by intro e; simp [e] at hl
        simp [b3, b1, hl, addSep, pathSep, DD, this]
      · have : b.out = [] := by simpa using hl
        simp [b3, b1, hl, addSep, pathSep, DD, this]
    simp [stepOut, rest2, hlen, hb3]
  · rename_i b dd c r h0 h1 h rest2 hlen hroot ih
    have key : c = DOT ∧ ∃ r2, r = DOT :: r2 ∧ atEnd r2 := by
      cases r with
      | nil => simp at h
      | cons c1 r2 => cases r2 <;> simp_all [atEnd, isSep]
    obtain ⟨rfl, r2, rfl, hr2⟩ := key
    rw [ih, comps_dotdot hr2]
    simp at hroot
    simp [stepOut, rest2, hlen, hroot]
  · rename_i b dd c r h0 h1 h b1 elem rest' ih
    have hc : c ≠ SL := by simpa [isSep] using h0
    have helem : elem = tw (c :: r) := by simp [elem, tw, isSep]
    have hrest : rest' = dw (c :: r) := by simp [rest', dw, isSep]
    have htw : tw (c :: r) = c :: tw r := by simp [tw, List.takeWhile_cons, hc]
    have hne1 : elem ≠ [DOT] := by
      rw [helem, htw]
      intro e
      simp at e
      obtain ⟨rfl, e2⟩ := e
      have := tw_eq_nil e2
      apply h1
      cases r <;> simp_all [atEnd, isSep]
    have hne2 : elem ≠ DD := by
      rw [helem, htw]
      intro e
      simp [DD] at e
      obtain ⟨rfl, e2⟩ := e
      obtain ⟨r2, rfl, h3⟩ := tw_eq_dot e2
      apply h
      cases r2 <;> simp_all [atEnd, isSep]
    have hb1 : b1.out = addSep rooted b.out := by
      simp only [b1, addSep]
      split <;> simp [pathSep]
    rw [ih, comps_cons_of_ne c r hc, ← helem, ← hrest]
    simp [stepOut, hne1, hne2, hb1]


/-! ### Step B: the invariant linking `(out, dd)` to the spec's stack -/

theorem backRev_sep (dd : Nat) (u Xr : Bytes) (hu : SL ∉ u) (hX : dd ≤ Xr.length) :
    backRev .linux dd (u ++ SL :: Xr) = Xr := by
  induction u with
  | nil => simp [backRev, isSep]
  | cons c u ih =>
    simp at hu
    simp only [List.cons_append, backRev]
    have : (u ++ SL :: Xr).length > dd := by simp; omega
    simp [this, isSep, Ne.symm hu.1, ih hu.2]
    intro h; omega

theorem backRev_base (u Xr : Bytes) (hu : SL ∉ u) (hne : u ≠ []) :
    backRev .linux Xr.length (u ++ Xr) = Xr := by
  induction u with
  | nil => contradiction
  | cons c u ih =>
    simp at hu
    by_cases hu' : u = []
    · subst hu'; simp [backRev]
    · have : u.length > 0 := List.length_pos_iff.mpr hu'
      simp only [List.cons_append, backRev]
      have h2 : (u ++ Xr).length > Xr.length := by simp; omega
      simp [h2, isSep, Ne.symm hu.1, ih hu.2 hu']

theorem backW_sep (X t : Bytes) (dd : Nat) (ht : SL ∉ t) (hX : dd ≤ X.length) :
    backW .linux (X ++ SL :: t) dd = X := by
  have : (X ++ SL :: t).reverse = t.reverse ++ SL :: X.reverse := by simp
  rw [backW, this, backRev_sep _ _ _ (by simpa using ht) (by simpa using hX)]
  simp

theorem backW_base (X t : Bytes) (ht : SL ∉ t) (hne : t ≠ []) :
    backW .linux (X ++ t) X.length = X := by
  have h1 : (X ++ t).reverse = t.reverse ++ X.reverse := by simp
  have h2 : X.length = X.reverse.length := by simp
  rw [backW, h1, h2, backRev_base _ _ (by simpa using ht) (by simpa using hne)]
  simp

def rawR (rooted : Bool) : List Bytes → Bytes
  | [] => if rooted then [SL] else []
  | c :: s => addSep rooted (rawR rooted s) ++ c

def GoodC (c : Bytes) : Prop := c ≠ [] ∧ SL ∉ c

def baseLen (rooted : Bool) : Nat := if rooted then 1 else 0

theorem addSep_cases (rooted : Bool) (o : Bytes) :
    addSep rooted o = o ++ [SL] ∨ (addSep rooted o = o ∧ o.length = baseLen rooted) := by
  unfold addSep baseLen
  cases rooted <;> simp <;> by_cases h : o.length = 0 <;> simp_all <;> omega

theorem addSep_len (rooted : Bool) (o : Bytes) : o.length ≤ (addSep rooted o).length := by
  rcases addSep_cases rooted o with h | ⟨h, _⟩ <;> rw [h] <;> simp

theorem rawR_base_le (rooted : Bool) (s : List Bytes) : baseLen rooted ≤ (rawR rooted s).length := by
  induction s with
  | nil => cases rooted <;> simp [rawR, baseLen]
  | cons c s ih =>
    have := addSep_len rooted (rawR rooted s)
    simp [rawR]; omega

theorem rawR_app_le (rooted : Bool) (t s : List Bytes) :
    (rawR rooted s).length ≤ (rawR rooted (t ++ s)).length := by
  induction t with
  | nil => simp
  | cons c t ih =>
    have := addSep_len rooted (rawR rooted (t ++ s))
    simp [rawR]; omega

structure Inv (rooted : Bool) (stack : List Bytes) (out : Bytes) (dd : Nat) : Prop where
  out_eq : out = rawR rooted stack
  good : ∀ c ∈ stack, GoodC c
  shape : ∃ k tops, stack = tops ++ List.replicate k DD ∧ DD ∉ tops ∧
      dd = (rawR rooted (List.replicate k DD)).length ∧ (rooted = true → k = 0)

theorem goodC_DD : GoodC DD := ⟨by decide, by decide⟩


theorem specStep_dd_rep (rooted : Bool) (k : Nat) (hk : rooted = true → k = 0) :
    specStep rooted (List.replicate k DD) DD = if rooted then [] else List.replicate (k + 1) DD := by
  cases k with
  | zero => cases rooted <;> simp [specStep]
  | succ k =>
    cases rooted
    · simp [specStep, List.replicate_succ]
    · simp at hk

theorem inv_step {rooted : Bool} {stack : List Bytes} {out : Bytes} {dd : Nat} {c : Bytes}
    (h : Inv rooted stack out dd) (hc : GoodC c) :
    Inv rooted (specStep rooted stack c) (stepOut rooted (out, dd) c).1 (stepOut rooted (out, dd) c).2 := by
  obtain ⟨hout, good, k, tops, hst, hdd, hddv, hk⟩ := h
  by_cases h1 : c = [DOT]
  · subst h1
    simp only [specStep, stepOut, beq_self_eq_true, if_true]
    exact ⟨hout, good, k, tops, hst, hdd, hddv, hk⟩
  by_cases h2 : c = DD
  · subst h2
    cases tops with
    | nil =>
      simp at hst
      subst hst
      have hlen : ¬ (out.length > dd) := by rw [hout, hddv]; omega
      rw [specStep_dd_rep rooted k hk]
      cases rooted with
      | true =>
        simp [stepOut, hlen]
        have hk0 := hk rfl
        subst hk0
        exact ⟨hout, by simp, 0, [], by simp, by simp, hddv, by simp⟩
      | false =>
        simp [stepOut, hlen]
        refine ⟨?_, ?_, k + 1, [], by simp, by simp, ?_, by simp⟩
        · rw [hout, List.replicate_succ, rawR]
        · intro c hc; simp at hc; rw [hc]; exact goodC_DD
        · rw [hout, List.replicate_succ, rawR]; simp
    | cons t tops' =>
      subst hst
      have ht : GoodC t := good t (by simp)
      have htdd : t ≠ DD := by intro e; apply hdd; simp [e]
      have hge := rawR_app_le rooted tops' (List.replicate k DD)
      have hal := addSep_len rooted (rawR rooted (tops' ++ List.replicate k DD))
      have htl : t.length > 0 := List.length_pos_iff.mpr ht.1
      have hlen : out.length > dd := by
        rw [hout, hddv]; simp [rawR]; omega
      have hspec : specStep rooted (t :: tops' ++ List.replicate k DD) DD = tops' ++ List.replicate k DD := by
        simp [specStep, htdd]
      have hback : backW .linux out dd = rawR rooted (tops' ++ List.replicate k DD) := by
        rw [hout]
        simp only [List.cons_append, rawR]
        rcases addSep_cases rooted (rawR rooted (tops' ++ List.replicate k DD)) with e | ⟨e, el⟩
        · rw [e, List.append_assoc]
          exact backW_sep _ _ _ ht.2 (by omega)
        · rw [e]
          have hb := rawR_base_le rooted (List.replicate k DD)
          have : dd = (rawR rooted (tops' ++ List.replicate k DD)).length := by omega
          rw [this]
          exact backW_base _ _ ht.2 ht.1
      rw [hspec]
      simp only [stepOut, beq_self_eq_true, if_true, hlen]
      simp
      refine ⟨hback, fun c hc => good c (by simp at hc ⊢; right; exact hc), k, tops', rfl, ?_, hddv, hk⟩
      intro hm; apply hdd; simp [hm]
  · have hspec : specStep rooted stack c = c :: stack := by simp [specStep, h1, h2]
    rw [hspec]
    simp [stepOut, h1, h2]
    refine ⟨?_, ?_, k, c :: tops, by simp [hst], ?_, hddv, hk⟩
    · rw [hout, rawR]
    · intro x hx; simp at hx; rcases hx with rfl | hx
      · exact hc
      · exact good x hx
    · simp; exact ⟨fun e => h2 e.symm, hdd⟩


theorem inv_fold {rooted : Bool} (cs : List Bytes) (hcs : ∀ c ∈ cs, GoodC c)
    {stack : List Bytes} {out : Bytes} {dd : Nat} (h : Inv rooted stack out dd) :
    Inv rooted (cs.foldl (specStep rooted) stack) (cs.foldl (stepOut rooted) (out, dd)).1
      (cs.foldl (stepOut rooted) (out, dd)).2 := by
  induction cs generalizing stack out dd with
  | nil => simpa using h
  | cons c cs ih =>
    simp only [List.foldl_cons]
    exact ih (fun x hx => hcs x (by simp [hx])) (inv_step h (hcs c (by simp)))

theorem splitSl_noSL (p : Bytes) : ∀ x ∈ splitSl p, SL ∉ x := by
  induction p with
  | nil => simp [splitSl]
  | cons c p ih =>
    simp only [splitSl]
    split
    · intro x hx
      simp at hx
      rcases hx with rfl | hx
      · simp
      · exact ih x hx
    · rename_i hc
      have hc' : SL ≠ c := by intro e; simp [e] at hc
      split
      · simp [hc']
      · rename_i x xs heq
        rw [heq] at ih
        intro y hy
        simp at hy
        rcases hy with rfl | hy
        · simp [hc']; exact ih x (by simp)
        · exact ih y (by simp [hy])

theorem comps_good (p : Bytes) : ∀ c ∈ comps p, GoodC c := by
  intro c hc
  simp [comps] at hc
  exact ⟨hc.2, splitSl_noSL p c hc.1⟩

theorem joinWith_snoc (s : UInt8) (l : List Bytes) (c : Bytes) :
    joinWith s (l ++ [c]) = if l = [] then c else joinWith s l ++ s :: c := by
  induction l with
  | nil => simp [joinWith]
  | cons e l ih =>
    cases l with
    | nil => simp [joinWith]
    | cons e2 es =>
      simp only [List.cons_append] at ih ⊢
      simp [joinWith, ih]

theorem rawR_len_gt (rooted : Bool) (s : List Bytes) (hs : s ≠ []) (good : ∀ c ∈ s, GoodC c) :
    baseLen rooted < (rawR rooted s).length := by
  cases s with
  | nil => contradiction
  | cons c s =>
    have h1 := rawR_base_le rooted s
    have h2 := addSep_len rooted (rawR rooted s)
    have h3 : c.length > 0 := List.length_pos_iff.mpr (good c (by simp)).1
    simp [rawR]; omega

theorem addSep_of_gt (rooted : Bool) (o : Bytes) (h : baseLen rooted < o.length) :
    addSep rooted o = o ++ [SL] := by
  rcases addSep_cases rooted o with e | ⟨_, e⟩
  · exact e
  · omega

theorem rawR_eq (rooted : Bool) (s : List Bytes) (good : ∀ c ∈ s, GoodC c) :
    rawR rooted s = if rooted then SL :: joinWith SL s.reverse else joinWith SL s.reverse := by
  induction s with
  | nil => cases rooted <;> simp [rawR, joinWith]
  | cons c s ih =>
    have ih := ih (fun x hx => good x (by simp [hx]))
    by_cases hs : s = []
    · subst hs
      cases rooted <;> simp [rawR, joinWith, addSep]
    · have hgt := rawR_len_gt rooted s hs (fun x hx => good x (by simp [hx]))
      rw [rawR, addSep_of_gt _ _ hgt, ih, List.reverse_cons, joinWith_snoc]
      cases rooted <;> simp [hs]

/-! ### Main theorem -/

theorem inv_init (rooted : Bool) : Inv rooted [] (if rooted then [SL] else []) (baseLen rooted) := by
  refine ⟨by simp [rawR], by simp, 0, [], by simp, by simp, ?_, by simp⟩
  cases rooted <;> simp [rawR, baseLen]

theorem loop_spec (path : Bytes) (rooted : Bool) (rest : Bytes) (b : LBuf)
    (hb : b.out = if rooted then [SL] else []) :
    (cleanLoop .linux path rooted rest b (baseLen rooted)).out
      = rawR rooted ((comps rest).foldl (specStep rooted) []) := by
  rw [loop_out, hb]
  exact (inv_fold (comps rest) (comps_good rest) (inv_init rooted)).out_eq

theorem final_eq (path : Bytes) (rooted : Bool) (b2 : LBuf) (stack : List Bytes)
    (good : ∀ c ∈ stack, GoodC c) (h : b2.out = rawR rooted stack) :
    (if (b2.out.length == 0) = true then lbAppend path b2 DOT else b2).out = render rooted stack := by
  rw [render]
  rw [← rawR_eq rooted stack good, ← h]
  cases hb : b2.out with
  | nil => simp [hb]
  | cons x xs => simp [hb]

theorem clean_eq_spec (p : Bytes) : clean .linux p = Spec.clean p := by
  cases p with
  | nil => decide
  | cons c rest =>
    have hgood := fun r => (inv_fold (rooted := isRooted (c :: rest)) (comps r) (comps_good r) (inv_init _)).good
    simp only [clean, volumeNameLen, List.drop_zero, List.take_zero, fromSlash, List.nil_append,
      Spec.clean]
    by_cases hc : c = SL
    · subst hc
      have hr : isRooted (SL :: rest) = true := by simp [isRooted]
      have hs : isSep .linux SL = true := by simp [isSep]
      rw [hr] at hgood ⊢
      simp only [hs, if_true, pathSep, comps_sl]
      apply final_eq _ _ _ _ (hgood rest)
      exact loop_spec _ true rest _ (by simp)
    · have hr : isRooted (c :: rest) = false := by simp [isRooted, hc]
      have hs : isSep .linux c = false := by simp [isSep, hc]
      rw [hr] at hgood ⊢
      simp only [hs, if_false, pathSep]
      apply final_eq _ _ _ _ (hgood (c :: rest))
      exact loop_spec _ false (c :: rest) _ (by simp)


/-! ### Idempotence -/

theorem splitSl_append (a b : Bytes) : splitSl (a ++ SL :: b) = splitSl a ++ splitSl b := by
  induction a with
  | nil => simp [splitSl]
  | cons c a ih =>
    by_cases hc : c = SL
    · subst hc; simp [splitSl, ih]
    · have hc' : (c == SL) = false := by simp [hc]
      simp only [List.cons_append, splitSl, hc', ih]
      cases h : splitSl a with
      | nil => exact absurd h (splitSl_ne_nil a)
      | cons x xs => simp

theorem comps_append (a b : Bytes) : comps (a ++ SL :: b) = comps a ++ comps b := by
  simp [comps, splitSl_append]

theorem splitSl_of_noSL (c : Bytes) (h : SL ∉ c) : splitSl c = [c] := by
  induction c with
  | nil => simp [splitSl]
  | cons x c ih =>
    simp at h
    have hx : (x == SL) = false := by simp [Ne.symm h.1]
    simp [splitSl, hx, ih h.2]

theorem comps_of_good {c : Bytes} (h : GoodC c) : comps c = [c] := by
  simp [comps, splitSl_of_noSL c h.2, h.1]

theorem comps_joinWith (l : List Bytes) : comps (joinWith SL l) = l.flatMap comps := by
  induction l with
  | nil => simp [joinWith]
  | cons e l ih =>
    cases l with
    | nil => simp [joinWith]
    | cons e2 es =>
      rw [joinWith, comps_append, ih]
      · simp
      · simp

theorem flatMap_comps_good (l : List Bytes) (h : ∀ c ∈ l, GoodC c) : l.flatMap comps = l := by
  induction l with
  | nil => simp
  | cons e l ih =>
    simp [comps_of_good (h e (by simp)), ih (fun x hx => h x (by simp [hx]))]

theorem isRooted_joinWith (l : List Bytes) (h : ∀ c ∈ l, GoodC c) : isRooted (joinWith SL l) = false := by
  cases l with
  | nil => rfl
  | cons e es =>
    have he := h e (by simp)
    cases e with
    | nil => exact absurd rfl he.1
    | cons x e' =>
      have hx : x ≠ SL := by intro e; apply he.2; simp [e]
      cases es <;> simp [joinWith, isRooted, hx]

def Shape (rooted : Bool) (stack : List Bytes) : Prop :=
  ∃ k tops, stack = tops ++ List.replicate k DD ∧ DD ∉ tops ∧ (rooted = true → k = 0)

theorem shape_tail {rooted : Bool} {c : Bytes} {s : List Bytes} (h : Shape rooted (c :: s)) :
    Shape rooted s ∧ (c ≠ [DOT] → specStep rooted s c = c :: s) := by
  obtain ⟨k, tops, hst, hdd, hk⟩ := h
  cases tops with
  | nil =>
    cases k with
    | zero => simp at hst
    | succ k' =>
      simp [List.replicate_succ] at hst
      obtain ⟨rfl, rfl⟩ := hst
      have hr : rooted = false := by cases rooted <;> simp at hk ⊢
      subst hr
      refine ⟨⟨k', [], by simp, by simp, by simp⟩, fun _ => ?_⟩
      rw [specStep_dd_rep false k' (by simp)]
      simp [List.replicate_succ]
  | cons t tops' =>
    simp at hst
    obtain ⟨rfl, rfl⟩ := hst
    simp at hdd
    refine ⟨⟨k, tops', rfl, hdd.2, hk⟩, fun h1 => ?_⟩
    have : c ≠ DD := fun e => hdd.1 e.symm
    simp [specStep, h1, this]

theorem fold_rebuild (rooted : Bool) (stack : List Bytes) (hs : Shape rooted stack)
    (hnd : ∀ c ∈ stack, c ≠ [DOT]) :
    stack.reverse.foldl (specStep rooted) [] = stack := by
  rw [List.foldl_reverse]
  induction stack with
  | nil => rfl
  | cons c s ih =>
    obtain ⟨h1, h2⟩ := shape_tail hs
    simp only [List.foldr_cons]
    rw [ih h1 (fun x hx => hnd x (by simp [hx]))]
    exact h2 (hnd c (by simp))

theorem spec_fixed (rooted : Bool) (stack : List Bytes) (good : ∀ c ∈ stack, GoodC c)
    (hs : Shape rooted stack) (hnd : ∀ c ∈ stack, c ≠ [DOT]) :
    Spec.clean (render rooted stack) = render rooted stack := by
  have good' : ∀ c ∈ stack.reverse, GoodC c := fun c hc => good c (by simpa using hc)
  have hbody : comps (joinWith SL stack.reverse) = stack.reverse := by
    rw [comps_joinWith, flatMap_comps_good _ good']
  cases rooted with
  | true =>
    have hr : render true stack = SL :: joinWith SL stack.reverse := by simp [render]
    rw [hr, Spec.clean]
    have : isRooted (SL :: joinWith SL stack.reverse) = true := by simp [isRooted]
    rw [this, comps_sl, hbody, fold_rebuild true stack hs hnd, hr]
  | false =>
    by_cases hst : stack = []
    · subst hst; decide
    · have hne : joinWith SL stack.reverse ≠ [] := by
        intro e
        rw [e] at hbody
        simp at hbody
        exact hst hbody
      have hr : render false stack = joinWith SL stack.reverse := by simp [render, hne]
      rw [hr, Spec.clean, isRooted_joinWith _ good', hbody, fold_rebuild false stack hs hnd, hr]

theorem specStep_noDot (rooted : Bool) (stack : List Bytes) (c : Bytes)
    (h : ∀ x ∈ stack, x ≠ [DOT]) : ∀ x ∈ specStep rooted stack c, x ≠ [DOT] := by
  unfold specStep
  split
  · exact h
  · rename_i h1
    split
    · split
      · split
        · simp
        · simp
      · rename_i top rest
        split
        · intro x hx
          simp at hx
          rcases hx with rfl | hx
          · decide
          · exact h x (by simpa using hx)
        · intro x hx; exact h x (by simp [hx])
    · intro x hx
      simp at hx
      rcases hx with rfl | hx
      · simpa using h1
      · exact h x hx

theorem fold_noDot (rooted : Bool) (cs : List Bytes) (stack : List Bytes)
    (h : ∀ x ∈ stack, x ≠ [DOT]) : ∀ x ∈ cs.foldl (specStep rooted) stack, x ≠ [DOT] := by
  induction cs generalizing stack with
  | nil => simpa using h
  | cons c cs ih => exact ih _ (specStep_noDot rooted stack c h)

theorem spec_clean_idem (p : Bytes) : Spec.clean (Spec.clean p) = Spec.clean p := by
  have hinv := inv_fold (rooted := isRooted p) (comps p) (comps_good p) (inv_init _)
  obtain ⟨k, tops, h1, h2, _, h3⟩ := hinv.shape
  rw [Spec.clean]
  exact spec_fixed _ _ hinv.good ⟨k, tops, h1, h2, h3⟩ (fold_noDot _ _ _ (by simp))


/-! ### Join -/

theorem dropWhile_head {α : Type} {p : α → Bool} {l : List α} {e : α} {rest : List α}
    (h : l.dropWhile p = e :: rest) : p e = false := by
  induction l with
  | nil => simp at h
  | cons a l ih =>
    by_cases ha : p a = true
    · simp [List.dropWhile_cons, ha] at h; exact ih h
    · simp [List.dropWhile_cons, ha] at h
      obtain ⟨rfl, _⟩ := h
      simpa using ha

theorem filter_dropWhile_empty (es : List Bytes) :
    (es.dropWhile (fun e => e.isEmpty)).filter (fun e => !e.isEmpty) = es.filter (fun e => !e.isEmpty) := by
  induction es with
  | nil => simp
  | cons a l ih =>
    by_cases ha : a.isEmpty = true
    · simp [List.dropWhile_cons, ha, ih]
    · simp [List.dropWhile_cons, ha]

theorem flatMap_comps_filter (l : List Bytes) :
    (l.filter (fun e => !e.isEmpty)).flatMap comps = l.flatMap comps := by
  induction l with
  | nil => simp
  | cons a l ih =>
    cases a with
    | nil => simp [ih]
    | cons x a => simp [ih]

theorem isRooted_joinWith_cons (e : Bytes) (l : List Bytes) (he : e ≠ []) :
    isRooted (joinWith SL (e :: l)) = isRooted e := by
  cases e with
  | nil => contradiction
  | cons x e' => cases l <;> simp [joinWith, isRooted]

theorem spec_clean_congr {p q : Bytes} (h1 : isRooted p = isRooted q) (h2 : comps p = comps q) :
    Spec.clean p = Spec.clean q := by
  simp [Spec.clean, h1, h2]

theorem join_eq_spec (es : List Bytes) : join .linux es = Spec.join es := by
  simp only [join, Spec.join]
  rw [← filter_dropWhile_empty es]
  cases h : es.dropWhile (fun e => e.isEmpty) with
  | nil => simp
  | cons e rest =>
    have he : e.isEmpty = false := dropWhile_head h
    have he' : e ≠ [] := by intro e0; simp [e0] at he
    simp only [List.filter_cons, he, Bool.not_false, if_true, pathSep]
    rw [clean_eq_spec]
    apply spec_clean_congr
    · rw [isRooted_joinWith_cons _ _ he', isRooted_joinWith_cons _ _ he']
    · rw [comps_joinWith, comps_joinWith]
      simp [flatMap_comps_filter]

end Avfs.Path
