import Avfs.Lemmas.StepBase
set_option linter.unusedSimpArgs false
set_option linter.unusedVariables false

/-! # A failed call leaves everything unchanged (C05) -/

namespace Avfs.FS
open Avfs.Path

theorem mkdir_err (s : Store) (v : View) (p : Bytes) (perm : Nat) (e : Err)
    (h : (mkdir s v p perm).2 = .err e) : (mkdir s v p perm).1 = s := by
  revert h; unfold mkdir; simp only []
  repeat' split
  all_goals simp_all

theorem mkdirAll_err (s : Store) (v : View) (p : Bytes) (perm : Nat) (e : Err)
    (h : (mkdirAll s v p perm).2 = .err e) : (mkdirAll s v p perm).1 = s := by
  revert h; unfold mkdirAll; simp only []
  repeat' split
  all_goals simp_all

theorem openFile_err (s : Store) (v : View) (vid : Nat) (p : Bytes) (flag perm : Nat) (e : Err)
    (h : (openFile s v vid p flag perm).2 = .error e) : (openFile s v vid p flag perm).1 = s := by
  revert h; unfold openFile; simp only []
  repeat' split
  all_goals simp_all

theorem remove_err (s : Store) (v : View) (p : Bytes) (e : Err)
    (h : (remove s v p).2 = .err e) : (remove s v p).1 = s := by
  revert h; unfold remove; simp only []
  repeat' split
  all_goals simp_all

theorem rename_err (s : Store) (v : View) (o n : Bytes) (e : Err)
    (h : (rename s v o n).2 = .err e) : (rename s v o n).1 = s := by
  revert h; unfold rename; simp only []
  generalize searchNode s v o .lstat = ro
  generalize searchNode s v n .lstat = rn
  -- the first exits by hand: `split` on the whole body exceeds the step limit of its `simp`
  by_cases h1 : (ro.err != SErr.exists) = true
  · rw [if_pos h1]; intro _; rfl
  rw [if_neg h1]
  by_cases h2 : (rn.err != SErr.exists && rn.err != SErr.noent) = true
  · rw [if_pos h2]; intro _; rfl
  rw [if_neg h2]
  by_cases h3 : (rn.err == SErr.noent && !rn.pi.isLast) = true
  · rw [if_pos h3]; intro _; rfl
  rw [if_neg h3]
  repeat' split
  all_goals simp_all

theorem link_err (s : Store) (v : View) (o n : Bytes) (e : Err)
    (h : (link s v o n).2 = .err e) : (link s v o n).1 = s := by
  revert h; unfold link; simp only []
  repeat' split
  all_goals simp_all

theorem symlink_err (s : Store) (v : View) (o n : Bytes) (e : Err)
    (h : (symlink s v o n).2 = .err e) : (symlink s v o n).1 = s := by
  revert h; unfold symlink; simp only []
  repeat' split
  all_goals simp_all

theorem truncate_err (s : Store) (v : View) (p : Bytes) (sz : Int) (e : Err)
    (h : (truncate s v p sz).2 = .err e) : (truncate s v p sz).1 = s := by
  revert h; unfold truncate; simp only []
  repeat' split
  all_goals simp_all

theorem chmod_err (s : Store) (v : View) (p : Bytes) (m : Nat) (e : Err)
    (h : (chmod s v p m).2 = .err e) : (chmod s v p m).1 = s := by
  revert h; unfold chmod; simp only []
  repeat' split
  all_goals simp_all

theorem chown_err (s : Store) (v : View) (p : Bytes) (u g : Int) (m : SlMode) (e : Err)
    (h : (chown s v p u g m).2 = .err e) : (chown s v p u g m).1 = s := by
  revert h; unfold chown; simp only []
  repeat' split
  all_goals simp_all

theorem chtimes_err (s : Store) (v : View) (p : Bytes) (t : Int) (e : Err)
    (h : (chtimes s v p t).2 = .err e) : (chtimes s v p t).1 = s := by
  revert h; unfold chtimes; simp only []
  repeat' split
  all_goals simp_all

theorem stat_store (s : Store) (v : View) (p : Bytes) (m : SlMode) : (stat s v p m).1 = s := by
  unfold stat; simp only []
  repeat' split
  all_goals simp_all

theorem readlink_store (s : Store) (v : View) (p : Bytes) : (readlink s v p).1 = s := by
  unfold readlink; simp only []
  repeat' split
  all_goals simp_all

theorem evalSymlinks_store (s : Store) (v : View) (p : Bytes) : (evalSymlinks s v p).1 = s := by
  unfold evalSymlinks; simp only []
  repeat' split
  all_goals simp_all

theorem chdir_err (s : Store) (v : View) (p : Bytes) (e : Err)
    (h : (chdir s v p).2 = .err e) : (chdir s v p).1 = v := by
  revert h; unfold chdir; simp only []
  repeat' split
  all_goals simp_all

theorem Store.get_set_eq (s : Store) (i : Ino) (n : Node) : (s.set i n).get i = some n := by
  simp [Store.get, Store.set]

theorem Store.get_set_ne (s : Store) (i j : Ino) (n : Node) (h : i ≠ j) : (s.set i n).get j = s.get j := by
  simp [Store.get, Store.set, h]

theorem createFile_get (s : Store) (v : View) (parent : Ino) (name : Bytes) (perm : Nat) :
    ∃ m d nl id, (createFile s v parent name perm).1.get (createFile s v parent name perm).2 = some (.file m d nl id) := by
  simp only [createFile, Store.alloc, addChild]
  split
  · rename_i m ch hg
    by_cases hpi : parent = s.next
    · subst hpi
      simp [Store.get] at hg
    · rw [Store.get_set_ne _ _ _ _ hpi]
      simp [Store.get]
  · simp [Store.get]

theorem openFile_ok (s : Store) (v : View) (vid : Nat) (p : Bytes) (flag perm : Nat) (s1 : Store) (h : Handle)
    (e : openFile s v vid p flag perm = (s1, .ok h)) :
    h.name = p ∧ h.om = toOpenMode flag ∧ h.view = vid ∧ h.pos = 0 ∧
      ∃ c, h.nd = some c ∧ (s1 = s ∨ ∃ m d nl id, s1.get c = some (.file m d nl id)) := by
  unfold openFile at e
  simp only [] at e
  repeat' split at e
  all_goals simp only [Prod.mk.injEq, reduceCtorEq, and_false, Except.ok.injEq] at e
  all_goals obtain ⟨rfl, rfl⟩ := e
  all_goals refine ⟨rfl, rfl, rfl, rfl, _, rfl, ?_⟩
  all_goals first
    | (left; rfl)
    | (right; exact createFile_get _ _ _ _ _)
    | (right; exact ⟨_, _, _, _, Store.get_set_eq _ _ _⟩)
    | (right; exact ⟨_, _, _, _, by assumption⟩)

theorem fileStep_write_err (s : Store) (v : View) (h : Handle) (b : Bytes) (e : Err)
    (he : (fileStep s v h (.write b)).2.2.2 = .err e) : (fileStep s v h (.write b)).1 = s := by
  revert he; simp only [fileStep]
  repeat' split
  all_goals simp_all

theorem fileStep_write_file_ok (s : Store) (v : View) (h : Handle) (b : Bytes) (c : Ino) (m : Meta) (d : Bytes)
    (nl : Int) (id : Nat) (hn : h.name.isEmpty = false) (hnd : h.nd = some c)
    (hg : s.get c = some (.file m d nl id)) (hom : (h.om &&& omWrite == 0) = false)
    (hsz : (if h.om &&& omAppend != 0 then d.length else h.pos.toNat) + b.length ≤ maxFileSize) :
    ∃ val, (fileStep s v h (.write b)).2.2.2 = .ok val := by
  simp only [fileStep, hn, hnd, hg, hom]
  by_cases hb : b.isEmpty = true
  · simp [hb]
  · have hmax : ¬ (if h.om &&& omAppend != 0 then d.length else h.pos.toNat) + b.length > maxFileSize :=
      Nat.not_lt.mpr hsz
    simp only [hb, hmax, Bool.false_eq_true, if_false]
    exact ⟨_, rfl⟩

theorem isEmpty_false_of_ne_sc' {p : Bytes} (hp : p ≠ []) : p.isEmpty = false := by
  cases p with
  | nil => contradiction
  | cons _ _ => rfl

/-- since the repair of `OpenFile`: the empty name is refused, so a successful open has a non-empty name -/
theorem openFile_ok_ne (s : Store) (v : View) (vid : Nat) (p : Bytes) (flag perm : Nat) (s1 : Store) (h : Handle)
    (e : openFile s v vid p flag perm = (s1, .ok h)) : p ≠ [] := by
  intro hp
  subst hp
  simp [openFile] at e

theorem writeFileV_err (st : FSState) (v : View) (vid : Nat) (p d : Bytes) (perm : Nat) (e : Err)
    (hsz : d.length ≤ maxFileSize)
    (he : (writeFileV st v vid p d perm).2 = .err e) : (writeFileV st v vid p d perm).1 = st := by
  revert he
  unfold writeFileV
  rcases h : openFile st.store v vid p oWRONLY_CREATE_TRUNC perm with ⟨s1, (e1 | hd)⟩
  · intro _
    have := openFile_err st.store v vid p oWRONLY_CREATE_TRUNC perm e1 (by rw [h])
    rw [h] at this
    simp only [] at this
    subst this
    rfl
  · obtain ⟨hn, hom, _, hpos, c, hnd, hs⟩ := openFile_ok _ _ _ _ _ _ _ _ h
    have hp : p ≠ [] := openFile_ok_ne _ _ _ _ _ _ _ _ h
    simp only []
    rcases h2 : fileStep s1 v hd (.write d) with ⟨s2, a2, a3, o⟩
    simp only []
    intro he
    have ho : o = .err e := by
      revert he; cases o <;> simp
    subst ho
    have hs2 : s2 = s1 := by
      have := fileStep_write_err s1 v hd d e (by rw [h2])
      rw [h2] at this; exact this
    subst hs2
    rcases hs with rfl | ⟨m, dd, nl, id, hg⟩
    · rfl
    · obtain ⟨val, hv⟩ := fileStep_write_file_ok s2 v hd d c m dd nl id
        (by rw [hn]; exact isEmpty_false_of_ne_sc' hp) hnd hg (by rw [hom]; decide)
        (by
          have happ : (hd.om &&& omAppend != 0) = false := by rw [hom]; decide
          rw [happ, hpos]; simpa using hsz)
      rw [h2] at hv
      simp at hv

theorem registerHandle_err (st : FSState) (s : Store) (r : Except Err Handle) (e : Err)
    (h : (registerHandle st s r).2 = .err e) : r = .error e ∧ (registerHandle st s r).1 = { st with store := s } := by
  cases r with
  | error e' => simp [registerHandle] at h ⊢; exact h
  | ok hd => simp [registerHandle] at h

theorem mkdirTempV_err (st : FSState) (v : View) (dir pat rnd : Bytes) (e : Err)
    (h : (mkdirTempV st v dir pat rnd).2 = .err e) : (mkdirTempV st v dir pat rnd).1 = st := by
  revert h; unfold mkdirTempV; simp only []
  repeat' split
  all_goals simp_all

theorem createTempV_err (st : FSState) (v : View) (vid : Nat) (dir pat rnd : Bytes) (e : Err)
    (h : (createTempV st v vid dir pat rnd).2 = .err e) : (createTempV st v vid dir pat rnd).1 = st := by
  revert h; unfold createTempV; simp only []
  split
  · simp
  · intro h
    obtain ⟨h1, h2⟩ := registerHandle_err _ _ _ _ h
    rw [h2, openFile_err _ _ _ _ _ _ _ h1]

/-- C05: a failed call leaves the whole state unchanged.
    Exclusions: `removeAll` (removes what it can), handle operations (separate), `chdir` (the model re-binds the
    view, so the association list grows although every lookup is unchanged: see `step_chdir_failed`).
    `writeFile` on the empty path is no longer excluded: since the repair of `OpenFile` the empty name is refused
    before anything is created or truncated (`StepCounter.writeFile_empty_refused`).
    Since the file size limit: `writeFile` with more than `maxFileSize` bytes creates or truncates the file and THEN
    fails with EINVAL in `Write`, so the data of a `writeFile` call is assumed to fit (`hw`). -/
theorem step_failed_unchanged (st : FSState) (vid : Nat) (c : Call) (e : Err) (h : (step st vid c).2 = .err e)
    (hc : ∀ p, c ≠ .removeAll p) (hf : ∀ hid op, c ≠ .file hid op)
    (hcd : ∀ p, c ≠ .chdir p)
    (hw : ∀ p d perm, c = .writeFile p d perm → d.length ≤ maxFileSize) : (step st vid c).1 = st := by
  cases hv : st.view vid with
  | none => rw [step_none _ _ _ hv]
  | some v =>
    rw [step_some _ _ _ _ hv] at h ⊢
    cases c <;> simp only [stepV] at h ⊢
    case mkdir => exact withStore_fst_eq _ _ (mkdir_err _ _ _ _ _ h)
    case mkdirAll => exact withStore_fst_eq _ _ (mkdirAll_err _ _ _ _ _ h)
    case openFile =>
      obtain ⟨h1, h2⟩ := registerHandle_err _ _ _ _ h
      rw [h2, openFile_err _ _ _ _ _ _ _ h1]
    case create =>
      obtain ⟨h1, h2⟩ := registerHandle_err _ _ _ _ h
      rw [h2, openFile_err _ _ _ _ _ _ _ h1]
    case remove => exact withStore_fst_eq _ _ (remove_err _ _ _ _ h)
    case removeAll p => exact absurd rfl (hc p)
    case rename => exact withStore_fst_eq _ _ (rename_err _ _ _ _ _ h)
    case link => exact withStore_fst_eq _ _ (link_err _ _ _ _ _ h)
    case symlink => exact withStore_fst_eq _ _ (symlink_err _ _ _ _ _ h)
    case truncate => exact withStore_fst_eq _ _ (truncate_err _ _ _ _ _ h)
    case chmod => exact withStore_fst_eq _ _ (chmod_err _ _ _ _ _ h)
    case chown => exact withStore_fst_eq _ _ (chown_err _ _ _ _ _ _ _ h)
    case lchown => exact withStore_fst_eq _ _ (chown_err _ _ _ _ _ _ _ h)
    case chtimes => exact withStore_fst_eq _ _ (chtimes_err _ _ _ _ _ h)
    case chdir p => exact absurd rfl (hcd p)
    case stat => exact withStore_fst_eq _ _ (stat_store _ _ _ _)
    case lstat => exact withStore_fst_eq _ _ (stat_store _ _ _ _)
    case readlink => exact withStore_fst_eq _ _ (readlink_store _ _ _)
    case evalSymlinks => exact withStore_fst_eq _ _ (evalSymlinks_store _ _ _)
    case writeFile p d perm => exact writeFileV_err _ _ _ _ _ _ _ (hw p d perm rfl) h
    case mkdirTemp => exact mkdirTempV_err _ _ _ _ _ _ h
    case createTemp => exact createTempV_err _ _ _ _ _ _ _ h
    case sub p =>
      revert h
      cases sub st.store v p <;> simp
    case file hid op => exact absurd rfl (hf hid op)
    case setUser => cases h
    case setUMask => cases h

/-- what a failed `chdir` does: nothing observable (the binding of the view is rewritten with the same value) -/
theorem step_chdir_failed (st : FSState) (vid : Nat) (p : Bytes) (e : Err)
    (h : (step st vid (.chdir p)).2 = .err e) :
    (step st vid (.chdir p)).1.store = st.store ∧ (step st vid (.chdir p)).1.handles = st.handles ∧
    (step st vid (.chdir p)).1.nextView = st.nextView ∧ (step st vid (.chdir p)).1.nextHandle = st.nextHandle ∧
    ∀ w, (step st vid (.chdir p)).1.view w = st.view w := by
  cases hv : st.view vid with
  | none => rw [step_none _ _ _ hv]; simp
  | some v =>
    rw [step_some _ _ _ _ hv] at h ⊢
    simp only [stepV] at h ⊢
    rw [chdir_err _ _ _ _ h]
    refine ⟨rfl, rfl, rfl, rfl, fun w => ?_⟩
    simp only [FSState.view, FSState.setView, AL.lookup_insert]
    split
    · rename_i hw; subst hw; exact hv.symm
    · rfl

/-- … but the list of bindings does grow: this is why `chdir` is excluded from `step_failed_unchanged` -/
theorem step_chdir_rebinds (st : FSState) (vid : Nat) (v : View) (p : Bytes) (hv : st.view vid = some v) :
    (step st vid (.chdir p)).1 ≠ st := by
  rw [step_some _ _ _ _ hv]
  simp only [stepV, FSState.setView, AL.insert]
  intro h
  have := congrArg (fun s => s.views.length) h
  simp at this

/-- a failed handle operation changes neither the heap, nor the view, nor the handle -/
theorem fileStep_err (s : Store) (v : View) (h : Handle) (op : FOp) (e : Err)
    (he : (fileStep s v h op).2.2.2 = .err e) : fileStep s v h op = (s, v, h, .err e) := by
  revert he
  cases op <;> simp only [fileStep] <;> (repeat' split) <;> simp_all

/-- a failed handle operation changes nothing observable (view and handle are re-bound to the same values) -/
theorem step_file_failed (st : FSState) (vid hid : Nat) (op : FOp) (e : Err)
    (h : (step st vid (.file hid op)).2 = .err e) :
    (step st vid (.file hid op)).1.store = st.store ∧
    (step st vid (.file hid op)).1.nextView = st.nextView ∧ (step st vid (.file hid op)).1.nextHandle = st.nextHandle ∧
    (∀ w, (step st vid (.file hid op)).1.view w = st.view w) ∧
    (∀ k, (step st vid (.file hid op)).1.handle k = st.handle k) := by
  cases hv : st.view vid with
  | none => rw [step_none _ _ _ hv]; simp
  | some v =>
    rw [step_some _ _ _ _ hv] at h ⊢
    simp only [stepV, fileV] at h ⊢
    cases hh : st.handle hid with
    | none => simp
    | some hd =>
      rw [hh] at h
      simp only [] at h ⊢
      cases hv2 : st.view hd.view with
      | none => simp
      | some hv' =>
        rw [hv2] at h
        simp only [] at h ⊢
        rw [fileStep_err _ _ _ _ _ h]
        refine ⟨rfl, rfl, rfl, fun w => ?_, fun k => ?_⟩
        · simp only [FSState.view, FSState.setView, AL.lookup_insert]
          split
          · rename_i hw; subst hw; exact hv2.symm
          · rfl
        · simp only [FSState.handle, FSState.setView, AL.lookup_insert]
          split
          · rename_i hw; subst hw; exact hh.symm
          · rfl

/-- C05 without the `chdir` exclusion: nothing observable changes (heap, handles, counters, every view lookup) -/
theorem step_failed_observe (st : FSState) (vid : Nat) (c : Call) (e : Err) (h : (step st vid c).2 = .err e)
    (hc : ∀ p, c ≠ .removeAll p) (hf : ∀ hid op, c ≠ .file hid op)
    (hw : ∀ p d perm, c = .writeFile p d perm → d.length ≤ maxFileSize) :
    (step st vid c).1.store = st.store ∧ (step st vid c).1.handles = st.handles ∧
    (step st vid c).1.nextView = st.nextView ∧ (step st vid c).1.nextHandle = st.nextHandle ∧
    ∀ w, (step st vid c).1.view w = st.view w := by
  by_cases hcd : ∃ p, c = .chdir p
  · obtain ⟨p, rfl⟩ := hcd
    exact step_chdir_failed st vid p e h
  · have hcd' : ∀ p, c ≠ .chdir p := fun p hp => hcd ⟨p, hp⟩
    rw [step_failed_unchanged st vid c e h hc hf hcd' hw]
    exact ⟨rfl, rfl, rfl, rfl, fun _ => rfl⟩

end Avfs.FS
