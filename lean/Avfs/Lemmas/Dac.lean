import Avfs.Lemmas.Posix3
import Avfs.Props.C03
/-
  C03 (per call): the permission decision of every MemFS namespace call, made explicit.

  Lemmas/Posix*.lean prove that each call equals a POSIX-style reference over the component-wise descent `walkPath`,
  which demands search permission on every directory it looks a name up in. Here the permission content of those
  theorems is separated from the rest:

  1. `walkPath_factor`: the descent is a permission-BLIND descent `lookupPath` (which never says EACCES) gated by
     one condition, `searchAllowed`: search (x) permission, by the DAC rule `dac` of Props/C03, on every directory of
     `lookupDirs` — the directories in which a component of the path is looked up.
  2. the table `needs : CallKind → List Need`: WHICH permission on WHICH object Linux requires for each call, in the
     order Linux checks them, with the errno of a failure; `Holds` gives every entry its meaning over the blind
     resolution of the path(s), in terms of `dac` (`may`), ownership, the administrator and the sticky rule.
  3. (parts 2–4 below) `<call>_denied_iff`, `<call>_admin_never_denied`, `search_denied`, deviations, examples.
-/
set_option linter.unusedVariables false
set_option linter.unusedSimpArgs false

namespace Avfs.FS
open Avfs.Path

/-! ### 1. the DAC decision on a node of the heap -/

/-- the DAC decision (`dac` of Props/C03) for the attributes `m` and the caller `v`, wanting r / w / x -/
def mayMeta (m : Meta) (v : View) (r w x : Bool) : Bool :=
  dac m.uid m.gid m.perm v.uid v.gid v.admin r w x

/-- the DAC decision on the node `i` of the heap (an unallocated inode grants nothing) -/
def may (s : Store) (v : View) (i : Ino) (r w x : Bool) : Bool :=
  match s.get i with
  | some n => mayMeta n.meta v r w x
  | none => false

theorem checkPerm_eq_mayMeta (m : Meta) (v : View) (r w x : Bool) :
    checkPerm m (wantOf r w x) v = mayMeta m v r w x := C03_dac_eq m v r w x

theorem omLookup_eq_want : omLookup = wantOf false false true := by decide
theorem omWrite_eq_want : omWrite = wantOf false true false := by decide
theorem omRead_eq_want : omRead = wantOf true false false := by decide
theorem omWX_eq_want : omWrite ||| omLookup = wantOf false true true := by decide

theorem checkPerm_lookup (m : Meta) (v : View) : checkPerm m omLookup v = mayMeta m v false false true := by
  rw [omLookup_eq_want]; exact checkPerm_eq_mayMeta m v _ _ _

theorem checkPerm_write (m : Meta) (v : View) : checkPerm m omWrite v = mayMeta m v false true false := by
  rw [omWrite_eq_want]; exact checkPerm_eq_mayMeta m v _ _ _

theorem checkPerm_read (m : Meta) (v : View) : checkPerm m omRead v = mayMeta m v true false false := by
  rw [omRead_eq_want]; exact checkPerm_eq_mayMeta m v _ _ _

theorem checkPerm_wx (m : Meta) (v : View) : checkPerm m (omWrite ||| omLookup) v = mayMeta m v false true true := by
  rw [omWX_eq_want]; exact checkPerm_eq_mayMeta m v _ _ _

theorem dirPerm_eq_may (s : Store) (v : View) (i : Ino) (r w x : Bool) :
    dirPerm s i (wantOf r w x) v = may s v i r w x := by
  unfold dirPerm may
  cases s.get i with
  | none => rfl
  | some n => exact checkPerm_eq_mayMeta n.meta v r w x

theorem dirPerm_write (s : Store) (v : View) (i : Ino) : dirPerm s i omWrite v = may s v i false true false := by
  rw [omWrite_eq_want]; exact dirPerm_eq_may s v i _ _ _

theorem dirPerm_wx (s : Store) (v : View) (i : Ino) :
    dirPerm s i (omWrite ||| omLookup) v = may s v i false true true := by
  rw [omWX_eq_want]; exact dirPerm_eq_may s v i _ _ _

/-- wanting several bits is wanting each of them -/
theorem mayMeta_split (m : Meta) (v : View) (r w x : Bool) :
    mayMeta m v r w x = (mayMeta m v r false false && mayMeta m v false w false && mayMeta m v false false x) := by
  unfold mayMeta dac
  cases v.admin
  · cases r <;> cases w <;> cases x <;> simp
  · simp

theorem may_split (s : Store) (v : View) (i : Ino) (r w x : Bool) :
    may s v i r w x = (may s v i r false false && may s v i false w false && may s v i false false x) := by
  unfold may
  cases s.get i with
  | none => simp
  | some n => exact mayMeta_split n.meta v r w x

theorem mayMeta_nothing (m : Meta) (v : View) : mayMeta m v false false false = true := by
  unfold mayMeta dac
  cases v.admin <;> simp

theorem mayMeta_admin (m : Meta) (v : View) (r w x : Bool) (ha : v.admin = true) : mayMeta m v r w x = true := by
  simp [mayMeta, dac, ha]

theorem may_admin (s : Store) (v : View) (i : Ino) (r w x : Bool) (ha : v.admin = true)
    (hi : (s.get i).isSome = true) : may s v i r w x = true := by
  unfold may
  cases hg : s.get i with
  | none => simp [hg] at hi
  | some n => exact mayMeta_admin n.meta v r w x ha

/-- write and search = write, when search is known -/
theorem may_wx_of_x (s : Store) (v : View) (i : Ino) (hx : may s v i false false true = true) :
    may s v i false true true = may s v i false true false := by
  rw [may_split s v i false true true, hx]
  unfold may
  cases s.get i with
  | none => rfl
  | some n => simp [mayMeta_nothing]

/-! ### 2. the permission-blind descent and the directories it looks names up in -/

/-- the directories in which the components of `cs` are looked up, one after the other, starting in `d` — whatever the
    permissions: `d` itself, then every component that is a directory and is followed by another component.
    (Linux: `may_lookup` on each of them, in this order.) -/
def lookupDirs (s : Store) : Ino → List Bytes → List Ino
  | _, [] => []
  | d, c :: rest =>
    match s.get d with
    | some (.dir _ _) => d :: (match s.child d c with | some i => lookupDirs s i rest | none => [])
    | _ => []

/-- the caller may search (x) every directory in which a component of the path is looked up -/
def searchAllowed (s : Store) (v : View) (d : Ino) (cs : List Bytes) : Bool :=
  (lookupDirs s d cs).all fun i => may s v i false false true

/-- component-wise descent WITHOUT any permission check: `walkPath` of Lemmas/Namei.lean for a caller to whom nothing
    is refused; it never answers `.denied` -/
def lookupPath (s : Store) : Ino → List Bytes → Resolved
  | d, [] => .found d d
  | d, [c] =>
    match s.get d with
    | some (.dir _ _) =>
      match s.child d c with
      | none => .missingLast d c
      | some i => (match s.get i with | some (.symlink _ _) => .viaLink | _ => .found d i)
    | _ => .notDir
  | d, c :: c' :: cs =>
    match s.get d with
    | some (.dir _ _) =>
      match s.child d c with
      | none => .missingDir
      | some i =>
        match s.get i with
        | some (.dir _ _) => lookupPath s i (c' :: cs)
        | some (.file _ _ _ _) => .notDir
        | some (.symlink _ _) => .viaLink
        | none => .missingDir
    | _ => .notDir

theorem may_dir {s : Store} {d : Ino} {m : Meta} {ch : List (Bytes × Ino)} (hg : s.get d = some (.dir m ch))
    (v : View) (r w x : Bool) : may s v d r w x = mayMeta m v r w x := by
  simp [may, hg, Node.meta]

/-- FACTORISATION of the descent of the reference theorems: it is the permission-blind descent when the caller may
    search every directory a name is looked up in, and EACCES (`.denied`) otherwise — whatever else is wrong with the
    path further on (a missing component, a file on the way, a symbolic link): the first directory that may not be
    searched decides, as on Linux -/
theorem walkPath_factor (s : Store) (v : View) : ∀ (cs : List Bytes) (d : Ino),
    walkPath s v d cs = if searchAllowed s v d cs then lookupPath s d cs else .denied := by
  intro cs
  induction cs with
  | nil => intro d; simp [walkPath, lookupPath, searchAllowed, lookupDirs]
  | cons c rest ih =>
    intro d
    cases hgd : s.get d with
    | none => cases rest <;> simp [walkPath, lookupPath, searchAllowed, lookupDirs, hgd]
    | some nd =>
      cases nd with
      | file mf df nl id => cases rest <;> simp [walkPath, lookupPath, searchAllowed, lookupDirs, hgd]
      | symlink ms lk => cases rest <;> simp [walkPath, lookupPath, searchAllowed, lookupDirs, hgd]
      | dir m chd =>
        have hmd : may s v d false false true = checkPerm m omLookup v := by
          rw [may_dir hgd, checkPerm_lookup]
        by_cases hden : checkPerm m omLookup v = true
        · cases hch : s.child d c with
          | none => cases rest <;> simp [walkPath, lookupPath, searchAllowed, lookupDirs, hgd, hden, hch, hmd]
          | some i =>
            cases rest with
            | nil =>
              cases hg : s.get i with
              | none => simp [walkPath, lookupPath, searchAllowed, lookupDirs, hgd, hden, hch, hmd, hg]
              | some n =>
                cases n <;> simp [walkPath, lookupPath, searchAllowed, lookupDirs, hgd, hden, hch, hmd, hg]
            | cons c2 cs =>
              have hih := ih i
              cases hg : s.get i with
              | none => simp [walkPath, lookupPath, searchAllowed, lookupDirs, hgd, hden, hch, hmd, hg]
              | some n =>
                cases n with
                | symlink ms lk => simp [walkPath, lookupPath, searchAllowed, lookupDirs, hgd, hden, hch, hmd, hg]
                | file mf df nl id => simp [walkPath, lookupPath, searchAllowed, lookupDirs, hgd, hden, hch, hmd, hg]
                | dir mi chi =>
                  simp only [walkPath, lookupPath, hgd, hden, hch, hg, Bool.not_true, Bool.false_eq_true, if_false]
                  rw [hih]
                  simp [searchAllowed, lookupDirs, hgd, hch, hmd, hden]
        · have hden' : checkPerm m omLookup v = false := by simpa using hden
          cases rest <;> simp [walkPath, lookupPath, searchAllowed, lookupDirs, hgd, hden', hmd]

theorem lookupPath_ne_denied (s : Store) : ∀ (cs : List Bytes) (d : Ino), lookupPath s d cs ≠ .denied := by
  intro cs
  induction cs with
  | nil => intro d; simp [lookupPath]
  | cons c rest ih =>
    intro d
    cases rest with
    | nil =>
      simp only [lookupPath]
      repeat' split
      all_goals simp
    | cons c2 cs =>
      simp only [lookupPath]
      repeat' split
      all_goals first | exact ih _ | simp

/-- EACCES from the descent iff some directory a name is looked up in may not be searched -/
theorem walkPath_denied_iff (s : Store) (v : View) (cs : List Bytes) (d : Ino) :
    walkPath s v d cs = .denied ↔ searchAllowed s v d cs = false := by
  rw [walkPath_factor]
  cases h : searchAllowed s v d cs
  · simp
  · simp [lookupPath_ne_denied]

theorem walkPath_of_allowed {s : Store} {v : View} {cs : List Bytes} {d : Ino} (h : searchAllowed s v d cs = true) :
    walkPath s v d cs = lookupPath s d cs := by
  rw [walkPath_factor, h]; rfl

theorem walkPath_of_refused {s : Store} {v : View} {cs : List Bytes} {d : Ino} (h : searchAllowed s v d cs = false) :
    walkPath s v d cs = .denied := (walkPath_denied_iff s v cs d).mpr h

/-- an administrator may search everything (on a heap whose entries are allocated) -/
theorem searchAllowed_admin (s : Store) (v : View) (d : Ino) (cs : List Bytes) (ha : v.admin = true) :
    searchAllowed s v d cs = true := by
  unfold searchAllowed
  rw [List.all_eq_true]
  intro i hi
  suffices h : ∀ (cs : List Bytes) (d : Ino), i ∈ lookupDirs s d cs → (s.get i).isSome = true from
    may_admin s v i _ _ _ ha (h cs d hi)
  intro cs
  induction cs with
  | nil => intro d h; simp [lookupDirs] at h
  | cons c rest ih =>
    intro d h
    simp only [lookupDirs] at h
    split at h
    · rename_i m ch hg
      rw [List.mem_cons] at h
      rcases h with h | h
      · subst h; simp [hg]
      · split at h
        · exact ih _ h
        · simp at h
    · simp at h

/-- the directory that holds (or is to hold) the last component is one of the directories a name is looked up in -/
theorem lookupPath_parent_mem (s : Store) : ∀ (cs : List Bytes) (d par : Ino), cs ≠ [] →
    ((∃ c, lookupPath s d cs = .found par c) ∨ (∃ n, lookupPath s d cs = .missingLast par n)) →
    par ∈ lookupDirs s d cs := by
  intro cs
  induction cs with
  | nil => intro d par h; exact absurd rfl h
  | cons c rest ih =>
    intro d par _ h
    cases hgd : s.get d with
    | none => cases rest <;> simp [lookupPath, hgd] at h
    | some nd =>
      cases nd with
      | file mf df nl id => cases rest <;> simp [lookupPath, hgd] at h
      | symlink ms lk => cases rest <;> simp [lookupPath, hgd] at h
      | dir m chd =>
        cases rest with
        | nil =>
          simp only [lookupPath, hgd] at h
          cases hch : s.child d c with
          | none =>
            simp only [hch] at h
            rcases h with ⟨_, h⟩ | ⟨_, h⟩
            · cases h
            · cases h; simp [lookupDirs, hgd]
          | some i =>
            simp only [hch] at h
            rcases h with ⟨_, h⟩ | ⟨_, h⟩
            · split at h
              · cases h
              · cases h; simp [lookupDirs, hgd]
            · split at h <;> cases h
        | cons c2 cs =>
          simp only [lookupPath, hgd] at h
          cases hch : s.child d c with
          | none => simp [hch] at h
          | some i =>
            simp only [hch] at h
            cases hg : s.get i with
            | none => simp [hg] at h
            | some n =>
              cases n with
              | file mf df nl id => simp [hg] at h
              | symlink ms lk => simp [hg] at h
              | dir mi chi =>
                simp only [hg] at h
                have := ih i par (by simp) h
                have e : lookupDirs s d (c :: c2 :: cs) = d :: lookupDirs s i (c2 :: cs) := by
                  rw [lookupDirs]; simp only [hgd, hch]
                rw [e]
                exact List.mem_cons_of_mem _ this

theorem searchAllowed_mem {s : Store} {v : View} {d : Ino} {cs : List Bytes} (h : searchAllowed s v d cs = true)
    {i : Ino} (hi : i ∈ lookupDirs s d cs) : may s v i false false true = true := by
  unfold searchAllowed at h
  rw [List.all_eq_true] at h
  exact h i hi

/-- once the path was searched, "write and search" on the parent of the last component is "write" -/
theorem may_wx_parent {s : Store} {v : View} {d : Ino} {cs : List Bytes} (hne : cs ≠ [])
    (h : searchAllowed s v d cs = true) {par : Ino}
    (hp : (∃ c, lookupPath s d cs = .found par c) ∨ (∃ n, lookupPath s d cs = .missingLast par n)) :
    may s v par false true true = may s v par false true false :=
  may_wx_of_x s v par (searchAllowed_mem h (lookupPath_parent_mem s cs d par hne hp))

/-! ### 3. the table: which permission on which object each call needs on Linux -/

/-- which of the (at most two) path arguments of a call (Rename, Link: `first` the old path, `second` the new one;
    Symlink: `first` is the NEW name — the target string is not resolved) -/
inductive Arg | first | second
  deriving DecidableEq, Repr

/-- WHICH object a requirement is about -/
inductive Obj
  | lookupDirs (a : Arg)    -- every directory in which a component of path `a` is looked up: "the path prefix", the
                            -- directory of the last component included (`lookupDirs`)
  | newParent (a : Arg)     -- the directory that is to hold the MISSING last component of path `a`
  | entryParent (a : Arg)   -- the directory that holds the EXISTING entry named by path `a` (with `mayDelete`: and the entry)
  | parent (a : Arg)        -- the directory of the last component of path `a`, present or not
  | newParents              -- mkdir -p: every directory that receives a new entry
  | node (a : Arg)          -- the object path `a` resolves to
  | tree                    -- rm -rf: every directory with entries at or below the entry named by the path
                            -- (with `mayDelete`: every entry of such a directory)
  | movedDir                -- rename: the moved object, when it is a directory that changes its parent
  deriving DecidableEq, Repr

/-- WHICH permission -/
inductive Priv
  | bits (r w x : Bool)     -- the DAC decision `dac` for these wanted bits (owner class, else group class, else other)
  | owner                   -- the caller owns the object, or is administrator (CAP_FOWNER)
  | capChown                -- the caller is administrator (CAP_CHOWN), whoever owns the object
  | mayDelete               -- the sticky-directory rule: in a directory with S_ISVTX only the owner of the directory,
                            -- the owner of the entry or an administrator removes / renames an entry
  | linkable                -- fs.protected_hardlinks = 1: the caller owns the file or may read and write it
  deriving DecidableEq, Repr

/-- one requirement: the permission, the object, and the errno when it is not met -/
structure Need where
  obj : Obj
  priv : Priv
  err : Err
  deriving DecidableEq, Repr

inductive CallKind
  | mkdir | mkdirAll | remove | removeAll | rename | link | symlink
  | open (f : OFlags)       -- access mode, O_CREAT, O_EXCL, O_TRUNC, O_APPEND (`OFlags` of Lemmas/Posix2.lean)
  | truncate | chmod | chown | chtimes | readDir | readlink | stat | lstat
  deriving DecidableEq, Repr

/-- search permission on the path prefix of path `a` (path_resolution(7): EACCES) -/
def needSearch (a : Arg) : Need := ⟨.lookupDirs a, .bits false false true, .EACCES⟩

/-- THE TABLE. For each call the requirements of Linux, in the order the kernel checks them; the first one that is not
    met decides the errno. (man 2 mkdir, rmdir, unlink, rename, link, symlink, open, truncate, chmod, chown, utimensat,
    readlink, stat; path_resolution(7); for MkdirAll / RemoveAll / ReadDir: the calls os.MkdirAll, os.RemoveAll, os.ReadDir
    make.) -/
def needs : CallKind → List Need
  | .mkdir => [needSearch .first, ⟨.newParent .first, .bits false true true, .EACCES⟩]
  | .mkdirAll => [needSearch .first, ⟨.newParents, .bits false true true, .EACCES⟩]
  | .remove => [needSearch .first, ⟨.entryParent .first, .bits false true true, .EACCES⟩,
      ⟨.entryParent .first, .mayDelete, .EPERM⟩]
  | .removeAll => [needSearch .first, ⟨.tree, .bits true true true, .EACCES⟩, ⟨.tree, .mayDelete, .EPERM⟩,
      ⟨.entryParent .first, .bits false true true, .EACCES⟩, ⟨.entryParent .first, .mayDelete, .EPERM⟩]
  | .rename => [needSearch .first, needSearch .second,
      ⟨.entryParent .first, .bits false true true, .EACCES⟩, ⟨.entryParent .first, .mayDelete, .EPERM⟩,
      ⟨.parent .second, .bits false true true, .EACCES⟩, ⟨.entryParent .second, .mayDelete, .EPERM⟩,
      ⟨.movedDir, .bits false true false, .EACCES⟩]
  | .link => [needSearch .first, needSearch .second, ⟨.newParent .second, .bits false true true, .EACCES⟩]
  | .symlink => [needSearch .first, ⟨.newParent .first, .bits false true true, .EACCES⟩]
  | .open f => [needSearch .first] ++
      (if f.creat && f.excl then [] else
        [⟨.node .first, .bits (f.acc != .wronly) (f.acc != .rdonly || f.trunc) false, .EACCES⟩]) ++
      (if f.creat then [⟨.newParent .first, .bits false true true, .EACCES⟩] else [])
  | .truncate => [needSearch .first, ⟨.node .first, .bits false true false, .EACCES⟩]
  | .chmod => [needSearch .first, ⟨.node .first, .owner, .EPERM⟩]
  | .chown => [needSearch .first, ⟨.node .first, .capChown, .EPERM⟩]
  | .chtimes => [needSearch .first, ⟨.node .first, .owner, .EPERM⟩]
  | .readDir => [needSearch .first, ⟨.node .first, .bits true false false, .EACCES⟩]
  | .readlink => [needSearch .first]
  | .stat => [needSearch .first]
  | .lstat => [needSearch .first]

/-- NOT in the table, because it is a sysctl (fs.protected_hardlinks, 0 in the kernel, 1 in most distributions):
    link(2) then also needs the caller to own the file or to have read and write permission on it (EPERM).
    MemFS never asks for it: `link_other_users_file` -/
def needProtectedHardlinks : Need := ⟨.node .first, .linkable, .EPERM⟩

/-- every errno of the table is EACCES or EPERM -/
theorem needs_err (k : CallKind) : ∀ n ∈ needs k, n.err = .EACCES ∨ n.err = .EPERM := by
  cases k with
  | «open» f => obtain ⟨a, c, e, t, ap⟩ := f; cases c <;> cases e <;> simp [needs, needSearch]
  | _ => simp [needs, needSearch]

/-! ### 4. what an entry of the table means -/

/-- the situation a call is made in: heap, caller, the directory the paths start in (the root of the view), the
    components of the path argument(s), the creation mode (MkdirAll only) -/
structure Ctx where
  s : Store
  v : View
  d : Ino
  p1 : List Bytes
  p2 : List Bytes
  perm : Nat

def Ctx.path (c : Ctx) : Arg → List Bytes
  | .first => c.p1
  | .second => c.p2

/-- the permission-blind resolution of a path argument -/
def Ctx.res (c : Ctx) (a : Arg) : Resolved := lookupPath c.s c.d (c.path a)

/-- the caller owns node `i` or is administrator -/
def ownerOrAdmin (s : Store) (v : View) (i : Ino) : Bool :=
  match s.get i with
  | some n => n.meta.uid == v.uid || v.admin
  | none => false

/-- permission-blind: the directory in which the first missing component of the path is looked up, and the components
    from there on (`none`: nothing is missing, or a component is no directory) -/
def firstMissing (s : Store) : Ino → List Bytes → Option (Ino × List Bytes)
  | _, [] => none
  | d, c :: rest =>
    match s.get d with
    | some (.dir _ _) =>
      match s.child d c with
      | none => some (d, c :: rest)
      | some i => firstMissing s i rest
    | _ => none

/-- mkdir -p: the attributes of the directories that receive a new entry: the existing directory in which the first
    missing component is made, then each directory just made (by the caller, with `perm &^ umask`: `newDirMeta`) but
    the last -/
def newParentMetas (c : Ctx) : List Meta :=
  match firstMissing c.s c.d c.p1 with
  | some (d', todo) =>
    (match c.s.get d' with | some n => [n.meta] | none => []) ++ List.replicate (todo.length - 1) (newDirMeta c.v c.perm)
  | none => []

/-- the meaning of a requirement, over the permission-blind resolution of the path(s). A requirement about an object
    that the resolution does not provide (a parent of a path that does not resolve, …) holds vacuously: then another
    error decides (ENOENT, ENOTDIR, EEXIST). -/
def Holds (c : Ctx) : Need → Prop
  | ⟨.lookupDirs a, .bits r w x, _⟩ => ∀ i ∈ lookupDirs c.s c.d (c.path a), may c.s c.v i r w x = true
  | ⟨.newParent a, .bits r w x, _⟩ =>
    match c.res a with
    | .missingLast par _ => may c.s c.v par r w x = true
    | _ => True
  | ⟨.entryParent a, .bits r w x, _⟩ =>
    match c.res a with
    | .found par _ => may c.s c.v par r w x = true
    | _ => True
  | ⟨.entryParent a, .mayDelete, _⟩ =>
    match c.res a with
    | .found par ch => restrictedDeletion c.s c.v par ch = false
    | _ => True
  | ⟨.parent a, .bits r w x, _⟩ =>
    match c.res a with
    | .found par _ => may c.s c.v par r w x = true
    | .missingLast par _ => may c.s c.v par r w x = true
    | _ => True
  | ⟨.newParents, .bits r w x, _⟩ => ∀ m ∈ newParentMetas c, mayMeta m c.v r w x = true
  | ⟨.node a, .bits r w x, _⟩ =>
    match c.res a with
    | .found _ ch => may c.s c.v ch r w x = true
    | _ => True
  | ⟨.node a, .owner, _⟩ =>
    match c.res a with
    | .found _ ch => ownerOrAdmin c.s c.v ch = true
    | _ => True
  | ⟨.node a, .linkable, _⟩ =>
    match c.res a with
    | .found _ ch => ownerOrAdmin c.s c.v ch = true ∨ may c.s c.v ch true true false = true
    | _ => True
  | ⟨.tree, .bits r w x, _⟩ =>
    match c.res .first with
    | .found _ ch => ∀ i, Desc c.s ch i → isNonEmptyDir c.s i = true → may c.s c.v i r w x = true
    | _ => True
  | ⟨.tree, .mayDelete, _⟩ =>
    match c.res .first with
    | .found _ ch => ∀ a n x, Desc c.s ch a → Edge c.s a n x → restrictedDeletion c.s c.v a x = false
    | _ => True
  | ⟨.movedDir, .bits r w x, _⟩ =>
    match c.res .first, c.res .second with
    | .found op oc, .found np _ => isDirAt c.s oc = true → op ≠ np → may c.s c.v oc r w x = true
    | .found op oc, .missingLast np _ => isDirAt c.s oc = true → op ≠ np → may c.s c.v oc r w x = true
    | _, _ => True
  | ⟨.node a, .capChown, _⟩ =>
    match c.res a with
    | .found _ _ => c.v.admin = true
    | _ => True
  | _ => True

/-- the errno of the first requirement of the list that is not met -/
def firstFails (H : Need → Prop) : List Need → Err → Prop
  | [], _ => False
  | n :: ns, e => (¬ H n ∧ n.err = e) ∨ (H n ∧ firstFails H ns e)

/-- the table refuses the call with errno `e`: the first requirement that is not met has that errno -/
def Refused (c : Ctx) (k : CallKind) (e : Err) : Prop := firstFails (Holds c) (needs k) e

/-- every requirement of the table is met -/
def Allowed (c : Ctx) (k : CallKind) : Prop := ∀ n ∈ needs k, Holds c n

theorem firstFails_of_all (H : Need → Prop) : ∀ (l : List Need) (e : Err), (∀ n ∈ l, H n) → ¬ firstFails H l e := by
  intro l
  induction l with
  | nil => intro e _ h; exact h
  | cons n ns ih =>
    intro e hall h
    simp only [firstFails] at h
    rcases h with ⟨h, _⟩ | ⟨_, h⟩
    · exact h (hall n (by simp))
    · exact ih e (fun m hm => hall m (by simp [hm])) h

theorem firstFails_unique (H : Need → Prop) : ∀ (l : List Need) (e e' : Err),
    firstFails H l e → firstFails H l e' → e = e' := by
  intro l
  induction l with
  | nil => intro e e' h; exact h.elim
  | cons n ns ih =>
    intro e e' h h'
    simp only [firstFails] at h h'
    rcases h with ⟨h1, h2⟩ | ⟨h1, h2⟩ <;> rcases h' with ⟨h1', h2'⟩ | ⟨h1', h2'⟩
    · exact h2.symm.trans h2'
    · exact absurd h1' h1
    · exact absurd h1 h1'
    · exact ih e e' h2 h2'

theorem firstFails_mem (H : Need → Prop) : ∀ (l : List Need) (e : Err), firstFails H l e → ∃ n ∈ l, ¬ H n ∧ n.err = e := by
  intro l
  induction l with
  | nil => intro e h; exact h.elim
  | cons n ns ih =>
    intro e h
    simp only [firstFails] at h
    rcases h with h | ⟨_, h⟩
    · exact ⟨n, by simp, h⟩
    · obtain ⟨m, hm, h⟩ := ih e h
      exact ⟨m, by simp [hm], h⟩

theorem exists_firstFails_of_not_all (H : Need → Prop) : ∀ (l : List Need), ¬ (∀ n ∈ l, H n) → ∃ e, firstFails H l e := by
  intro l
  induction l with
  | nil => intro h; exact absurd (by simp) h
  | cons n ns ih =>
    intro h
    by_cases hn : H n
    · have : ¬ ∀ m ∈ ns, H m := by
        intro hall
        apply h
        intro m hm
        rcases List.mem_cons.mp hm with rfl | hm
        · exact hn
        · exact hall m hm
      obtain ⟨e, he⟩ := ih this
      exact ⟨e, Or.inr ⟨hn, he⟩⟩
    · exact ⟨n.err, Or.inl ⟨hn, rfl⟩⟩

/-- the table refuses with at most one errno, it is EACCES or EPERM, and it refuses iff not every requirement is met -/
theorem Refused.unique {c : Ctx} {k : CallKind} {e e' : Err} (h : Refused c k e) (h' : Refused c k e') : e = e' :=
  firstFails_unique _ _ _ _ h h'

theorem Refused.err {c : Ctx} {k : CallKind} {e : Err} (h : Refused c k e) : e = .EACCES ∨ e = .EPERM := by
  obtain ⟨n, hn, _, he⟩ := firstFails_mem _ _ _ h
  rw [← he]
  exact needs_err k n hn

theorem refused_iff_not_allowed (c : Ctx) (k : CallKind) : (∃ e, Refused c k e) ↔ ¬ Allowed c k := by
  constructor
  · rintro ⟨e, h⟩ hall
    exact firstFails_of_all _ _ e hall h
  · exact exists_firstFails_of_not_all _ _

theorem holds_search (c : Ctx) (a : Arg) :
    Holds c (needSearch a) ↔ searchAllowed c.s c.v c.d (c.path a) = true := by
  simp [Holds, needSearch, searchAllowed, List.all_eq_true]

/-! the meaning of each kind of entry, as rewriting rules (so that `Holds` itself need not be unfolded) -/

theorem holds_newParent (c : Ctx) (a : Arg) (r w x : Bool) (e : Err) :
    Holds c ⟨.newParent a, .bits r w x, e⟩ =
      (match c.res a with | .missingLast par _ => may c.s c.v par r w x = true | _ => True) := rfl

theorem holds_entryParent (c : Ctx) (a : Arg) (r w x : Bool) (e : Err) :
    Holds c ⟨.entryParent a, .bits r w x, e⟩ =
      (match c.res a with | .found par _ => may c.s c.v par r w x = true | _ => True) := rfl

theorem holds_entryParent_mayDelete (c : Ctx) (a : Arg) (e : Err) :
    Holds c ⟨.entryParent a, .mayDelete, e⟩ =
      (match c.res a with | .found par ch => restrictedDeletion c.s c.v par ch = false | _ => True) := rfl

theorem holds_parent (c : Ctx) (a : Arg) (r w x : Bool) (e : Err) :
    Holds c ⟨.parent a, .bits r w x, e⟩ =
      (match c.res a with
       | .found par _ => may c.s c.v par r w x = true
       | .missingLast par _ => may c.s c.v par r w x = true
       | _ => True) := rfl

theorem holds_newParents (c : Ctx) (r w x : Bool) (e : Err) :
    Holds c ⟨.newParents, .bits r w x, e⟩ = (∀ m ∈ newParentMetas c, mayMeta m c.v r w x = true) := rfl

theorem holds_node (c : Ctx) (a : Arg) (r w x : Bool) (e : Err) :
    Holds c ⟨.node a, .bits r w x, e⟩ =
      (match c.res a with | .found _ ch => may c.s c.v ch r w x = true | _ => True) := rfl

theorem holds_node_owner (c : Ctx) (a : Arg) (e : Err) :
    Holds c ⟨.node a, .owner, e⟩ =
      (match c.res a with | .found _ ch => ownerOrAdmin c.s c.v ch = true | _ => True) := rfl

theorem holds_node_linkable (c : Ctx) (a : Arg) (e : Err) :
    Holds c ⟨.node a, .linkable, e⟩ =
      (match c.res a with
       | .found _ ch => ownerOrAdmin c.s c.v ch = true ∨ may c.s c.v ch true true false = true
       | _ => True) := rfl

theorem holds_tree (c : Ctx) (r w x : Bool) (e : Err) :
    Holds c ⟨.tree, .bits r w x, e⟩ =
      (match c.res .first with
       | .found _ ch => ∀ i, Desc c.s ch i → isNonEmptyDir c.s i = true → may c.s c.v i r w x = true
       | _ => True) := rfl

theorem holds_tree_mayDelete (c : Ctx) (e : Err) :
    Holds c ⟨.tree, .mayDelete, e⟩ =
      (match c.res .first with
       | .found _ ch => ∀ a n x, Desc c.s ch a → Edge c.s a n x → restrictedDeletion c.s c.v a x = false
       | _ => True) := rfl

theorem holds_movedDir (c : Ctx) (r w x : Bool) (e : Err) :
    Holds c ⟨.movedDir, .bits r w x, e⟩ =
      (match c.res .first, c.res .second with
       | .found op oc, .found np _ => isDirAt c.s oc = true → op ≠ np → may c.s c.v oc r w x = true
       | .found op oc, .missingLast np _ => isDirAt c.s oc = true → op ≠ np → may c.s c.v oc r w x = true
       | _, _ => True) := rfl

theorem holds_capChown (c : Ctx) (a : Arg) (e : Err) :
    Holds c ⟨.node a, .capChown, e⟩ = (match c.res a with | .found _ _ => c.v.admin = true | _ => True) := rfl

/-- the context of a call with one path argument, made through the view `v` -/
def ctx1 (s : Store) (v : View) (cs : List Bytes) : Ctx := ⟨s, v, v.root, cs, [], 0⟩

/-- the context of a call with two path arguments -/
def ctx2 (s : Store) (v : View) (cs1 cs2 : List Bytes) : Ctx := ⟨s, v, v.root, cs1, cs2, 0⟩

/-- the context of MkdirAll -/
def ctxM (s : Store) (v : View) (cs : List Bytes) (perm : Nat) : Ctx := ⟨s, v, v.root, cs, [], perm⟩

end Avfs.FS

/-! ## Part 2: `<call>_denied_iff` — the EACCES / EPERM outcomes of each call are the refusals of the table -/

/-
  C03 (per call), continued: for every call kind, the theorem that its EACCES / EPERM outcomes are exactly the refusals
  of the table `needs` above (`<call>_denied_iff`: `DecidedBy`). The extra hypotheses of these theorems either say that
  a non-permission error which Linux reports BEFORE the permission check does not apply, or exclude a deviation of
  MemFS from the table that is recorded with a witness in Part 4.
-/
set_option linter.unusedVariables false
set_option linter.unusedSimpArgs false

namespace Avfs.FS
open Avfs.Path

/-- the outcome `r` of a call made on heap `s` is DECIDED BY the list of requirements `l`: for `e` = EACCES and for
    `e` = EPERM, the call returns `e` if and only if the first requirement of `l` that is not met has errno `e`; and a
    refused call leaves the heap unchanged -/
def DecidedByL (c : Ctx) (l : List Need) (s : Store) (r : Store × Out) : Prop :=
  (∀ e, (e = .EACCES ∨ e = .EPERM) → (r.2 = .err e ↔ firstFails (Holds c) l e)) ∧
  (∀ e, firstFails (Holds c) l e → r.1 = s)

/-- the outcome `r` of a call made on heap `s` is DECIDED BY THE TABLE: for `e` = EACCES and for `e` = EPERM, the call
    returns `e` if and only if the table refuses with `e` (the first requirement that is not met has errno `e`); and a
    refused call leaves the heap unchanged -/
def DecidedBy (c : Ctx) (k : CallKind) (s : Store) (r : Store × Out) : Prop :=
  (∀ e, (e = .EACCES ∨ e = .EPERM) → (r.2 = .err e ↔ Refused c k e)) ∧ (∀ e, Refused c k e → r.1 = s)

theorem decidedBy_iff_list (c : Ctx) (k : CallKind) (s : Store) (r : Store × Out) :
    DecidedBy c k s r ↔ DecidedByL c (needs k) s r := Iff.rfl

theorem decidedL_of_refused {c : Ctx} {l : List Need} {s : Store} {r : Store × Out} {e : Err}
    (h : firstFails (Holds c) l e) (hr : r = (s, .err e)) : DecidedByL c l s r := by
  subst hr
  refine ⟨fun e' _ => ⟨fun h' => ?_, fun h' => ?_⟩, fun _ _ => rfl⟩
  · have : e = e' := by simpa using h'
    exact this ▸ h
  · rw [firstFails_unique _ _ _ _ h h']

theorem decidedL_of_allowed {c : Ctx} {l : List Need} {s : Store} {r : Store × Out}
    (h : ∀ n ∈ l, Holds c n) (h1 : r.2 ≠ .err .EACCES) (h2 : r.2 ≠ .err .EPERM) : DecidedByL c l s r := by
  have hno : ∀ e, ¬ firstFails (Holds c) l e := fun e he => firstFails_of_all _ _ e h he
  refine ⟨fun e he => ⟨fun h' => ?_, fun h' => absurd h' (hno e)⟩, fun e he => absurd he (hno e)⟩
  rcases he with rfl | rfl
  · exact absurd h' h1
  · exact absurd h' h2

theorem decided_of_refused {c : Ctx} {k : CallKind} {s : Store} {r : Store × Out} {e : Err}
    (h : Refused c k e) (hr : r = (s, .err e)) : DecidedBy c k s r := decidedL_of_refused h hr

theorem decided_of_allowed {c : Ctx} {k : CallKind} {s : Store} {r : Store × Out}
    (h : Allowed c k) (h1 : r.2 ≠ .err .EACCES) (h2 : r.2 ≠ .err .EPERM) : DecidedBy c k s r :=
  decidedL_of_allowed h h1 h2

/-- read off a decision: the call is refused (EACCES or EPERM) iff some requirement of the table is not met -/
theorem DecidedBy.denied_iff {c : Ctx} {k : CallKind} {s : Store} {r : Store × Out} (h : DecidedBy c k s r) :
    (r.2 = .err .EACCES ∨ r.2 = .err .EPERM) ↔ ¬ Allowed c k := by
  rw [← refused_iff_not_allowed]
  constructor
  · rintro (h' | h')
    · exact ⟨_, (h.1 _ (Or.inl rfl)).mp h'⟩
    · exact ⟨_, (h.1 _ (Or.inr rfl)).mp h'⟩
  · rintro ⟨e, he⟩
    rcases he.err with rfl | rfl
    · exact Or.inl ((h.1 _ (Or.inl rfl)).mpr he)
    · exact Or.inr ((h.1 _ (Or.inr rfl)).mpr he)

@[simp] theorem needSearch_err (a : Arg) : (needSearch a).err = .EACCES := rfl

/-- evaluate `Allowed` / `Refused` of the table in a concrete situation -/
macro "table_simp" "[" ls:Lean.Parser.Tactic.simpLemma,* "]" : tactic =>
  `(tactic| simp [Allowed, Refused, needs, firstFails, holds_search, holds_newParent, holds_entryParent,
      holds_entryParent_mayDelete, holds_parent, holds_newParents, holds_node, holds_node_owner, holds_node_linkable,
      holds_tree, holds_tree_mayDelete, holds_movedDir, holds_capChown, ctx1, ctx2, ctxM, Ctx.res, Ctx.path, $ls,*])

/-! ### Mkdir -/

/-- Mkdir: EACCES iff a directory of the path prefix may not be searched, or — the last component being the only one
    missing — the directory that is to hold it may not be written and searched; never EPERM -/
theorem mkdir_denied_iff (s : Store) (root : Ino) (v : View) (hwf : WF s root)
    (hvr : ∃ m ch, s.get v.root = some (.dir m ch)) (cs : List Bytes) (hne : cs ≠ [])
    (hall : ∀ c ∈ cs, c ≠ [] ∧ ∀ x ∈ c, x ≠ SL) (hdots : ∀ c ∈ cs, c ≠ [DOT] ∧ c ≠ [DOT, DOT]) (perm : Nat)
    (hlf : walkPath s v v.root cs ≠ .viaLink) :
    DecidedBy (ctx1 s v cs) .mkdir s (mkdir s v (SL :: joinWith SL cs) perm) := by
  have href := mkdir_posix_gen s root v hwf hvr cs hne hall hdots perm
  by_cases hsa : searchAllowed s v v.root cs = true
  · rw [walkPath_of_allowed hsa] at href hlf
    cases hR : lookupPath s v.root cs with
    | found par c =>
      simp only [hR, posixMkdir] at href
      refine decided_of_allowed ?_ (by rw [href]; simp) (by rw [href]; simp)
      table_simp [hsa, hR]
    | missingLast par name =>
      simp only [hR, posixMkdir] at href
      rw [dirPerm_wx] at href
      by_cases hp : may s v par false true true = true
      · simp only [hp, if_true] at href
        refine decided_of_allowed ?_ (by rw [href.2]; simp) (by rw [href.2]; simp)
        table_simp [hsa, hR, hp]
      · simp only [hp] at href
        refine decided_of_refused ?_ href
        table_simp [hsa, hR, hp]
    | missingDir =>
      simp only [hR, posixMkdir] at href
      refine decided_of_allowed ?_ (by rw [href]; simp) (by rw [href]; simp)
      table_simp [hsa, hR]
    | notDir =>
      simp only [hR, posixMkdir] at href
      refine decided_of_allowed ?_ (by rw [href]; simp) (by rw [href]; simp)
      table_simp [hsa, hR]
    | denied => exact absurd hR (lookupPath_ne_denied s cs v.root)
    | viaLink => exact absurd hR hlf
  · have hsa' : searchAllowed s v v.root cs = false := by simpa using hsa
    rw [walkPath_of_refused hsa'] at href
    simp only [posixMkdir] at href
    refine decided_of_refused ?_ href
    table_simp [hsa']

/-! ### Remove -/

/-- Remove (unlink / rmdir): EACCES iff a directory of the path prefix may not be searched or the directory holding the
    entry may not be written and searched; EPERM iff those are granted and the sticky rule forbids the removal.
    ENOTEMPTY comes after both, ENOENT / ENOTDIR before. -/
theorem remove_denied_iff (s : Store) (root : Ino) (v : View) (hwf : WF s root)
    (hvr : ∃ m ch, s.get v.root = some (.dir m ch)) (cs : List Bytes) (hne : cs ≠ [])
    (hall : ∀ c ∈ cs, c ≠ [] ∧ ∀ x ∈ c, x ≠ SL) (hdots : ∀ c ∈ cs, c ≠ [DOT] ∧ c ≠ [DOT, DOT])
    (hlf : walkPath s v v.root cs ≠ .viaLink) :
    DecidedBy (ctx1 s v cs) .remove s (remove s v (SL :: joinWith SL cs)) := by
  have href := remove_posix_gen s root v hwf hvr cs hne hall hdots
  by_cases hsa : searchAllowed s v v.root cs = true
  · rw [walkPath_of_allowed hsa] at href hlf
    cases hR : lookupPath s v.root cs with
    | found par c =>
      have hwx := may_wx_parent hne hsa (Or.inl ⟨c, hR⟩)
      simp only [hR, posixRemove] at href
      rw [dirPerm_write] at href
      by_cases hp : may s v par false true false = true
      · by_cases hst : restrictedDeletion s v par c = true
        · simp only [hp, hst, Bool.not_true, Bool.false_eq_true, if_false, if_true] at href
          refine decided_of_refused (e := .EPERM) ?_ href
          table_simp [hsa, hR, hwx, hp, hst]
        · have hst' : restrictedDeletion s v par c = false := by simpa using hst
          simp only [hp, hst', Bool.not_true, Bool.false_eq_true, if_false] at href
          have hout : (remove s v (SL :: joinWith SL cs)).2 ≠ .err .EACCES ∧
              (remove s v (SL :: joinWith SL cs)).2 ≠ .err .EPERM := by
            cases hg : s.get c with
            | none => simp only [hg] at href; rw [href]; simp
            | some n =>
              cases n with
              | dir md chd =>
                simp only [hg] at href
                by_cases hemp : ((alKeys chd).length != 0) = true
                · simp only [hemp, if_true] at href; rw [href]; simp
                · simp only [hemp] at href; rw [href]; simp
              | file mf df nl id => simp only [hg] at href; rw [href]; simp
              | symlink ms lk => simp only [hg] at href; rw [href]; simp
          refine decided_of_allowed ?_ hout.1 hout.2
          table_simp [hsa, hR, hwx, hp, hst']
      · simp only [hp, Bool.not_false, if_true] at href
        refine decided_of_refused (e := .EACCES) ?_ href
        table_simp [hsa, hR, hwx, hp]
    | missingLast par name =>
      simp only [hR, posixRemove] at href
      refine decided_of_allowed ?_ (by rw [href]; simp) (by rw [href]; simp)
      table_simp [hsa, hR]
    | missingDir =>
      simp only [hR, posixRemove] at href
      refine decided_of_allowed ?_ (by rw [href]; simp) (by rw [href]; simp)
      table_simp [hsa, hR]
    | notDir =>
      simp only [hR, posixRemove] at href
      refine decided_of_allowed ?_ (by rw [href]; simp) (by rw [href]; simp)
      table_simp [hsa, hR]
    | denied => exact absurd hR (lookupPath_ne_denied s cs v.root)
    | viaLink => exact absurd hR hlf
  · have hsa' : searchAllowed s v v.root cs = false := by simpa using hsa
    rw [walkPath_of_refused hsa'] at href
    simp only [posixRemove] at href
    refine decided_of_refused ?_ href
    table_simp [hsa']

/-! ### Stat, Lstat, Readlink: search permission on the path prefix is all that is asked -/

theorem decided_search_only {k : CallKind} (hk : needs k = [needSearch .first]) (c : Ctx) (s : Store)
    (r : Store × Out) (h1 : searchAllowed c.s c.v c.d c.p1 = false → r = (s, .err .EACCES))
    (h2 : searchAllowed c.s c.v c.d c.p1 = true → r.2 ≠ .err .EACCES ∧ r.2 ≠ .err .EPERM) : DecidedBy c k s r := by
  by_cases hsa : searchAllowed c.s c.v c.d c.p1 = true
  · refine decided_of_allowed ?_ (h2 hsa).1 (h2 hsa).2
    simp [Allowed, hk, holds_search, Ctx.path, hsa]
  · have hsa' : searchAllowed c.s c.v c.d c.p1 = false := by simpa using hsa
    refine decided_of_refused (e := .EACCES) ?_ (h1 hsa')
    simp [Refused, hk, firstFails, holds_search, Ctx.path, hsa']

/-- Stat / Lstat (`m` is the follow mode; on a link-free path it plays no role): EACCES iff a directory of the path
    prefix may not be searched; never EPERM; no permission on the object itself is needed -/
theorem stat_denied_iff (s : Store) (root : Ino) (v : View) (hwf : WF s root)
    (hvr : ∃ m ch, s.get v.root = some (.dir m ch)) (cs : List Bytes)
    (hall : ∀ c ∈ cs, c ≠ [] ∧ ∀ x ∈ c, x ≠ SL) (hdots : ∀ c ∈ cs, c ≠ [DOT] ∧ c ≠ [DOT, DOT]) (m : SlMode)
    (hlf : walkPath s v v.root cs ≠ .viaLink) :
    DecidedBy (ctx1 s v cs) .stat s (stat s v (SL :: joinWith SL cs) m) ∧
    DecidedBy (ctx1 s v cs) .lstat s (stat s v (SL :: joinWith SL cs) m) := by
  have key : (searchAllowed s v v.root cs = false → stat s v (SL :: joinWith SL cs) m = (s, .err .EACCES)) ∧
      (searchAllowed s v v.root cs = true → (stat s v (SL :: joinWith SL cs) m).2 ≠ .err .EACCES ∧
        (stat s v (SL :: joinWith SL cs) m).2 ≠ .err .EPERM) := by
    cases cs with
    | nil =>
      obtain ⟨mr, chr, hgr⟩ := hvr
      obtain ⟨i, _, hi⟩ := stat_root s v m (by simp [hgr])
      refine ⟨fun h => ?_, fun _ => ?_⟩
      · simp [searchAllowed, lookupDirs] at h
      · simp only [joinWith]; rw [hi]; simp
    | cons c0 rest =>
      obtain ⟨hst, href⟩ := stat_posix_gen s root v hwf hvr (c0 :: rest) (by simp) hall hdots m
      refine ⟨fun h => ?_, fun h => ?_⟩
      · rw [walkPath_of_refused h] at href
        exact Prod.ext hst href
      · rw [walkPath_of_allowed h] at href hlf
        cases hR : lookupPath s v.root (c0 :: rest) with
        | found par c =>
          simp only [hR] at href
          obtain ⟨i, _, hi⟩ := href
          rw [hi]; simp
        | missingLast par name => simp only [hR] at href; rw [href]; simp
        | missingDir => simp only [hR] at href; rw [href]; simp
        | notDir => simp only [hR] at href; rw [href]; simp
        | denied => exact absurd hR (lookupPath_ne_denied s _ v.root)
        | viaLink => exact absurd hR hlf
  exact ⟨decided_search_only rfl (ctx1 s v cs) s _ key.1 key.2, decided_search_only rfl (ctx1 s v cs) s _ key.1 key.2⟩

/-- Readlink: EACCES iff a directory of the path prefix may not be searched; never EPERM -/
theorem readlink_denied_iff (s : Store) (root : Ino) (v : View) (hwf : WF s root)
    (hvr : ∃ m ch, s.get v.root = some (.dir m ch)) (cs : List Bytes)
    (hall : ∀ c ∈ cs, c ≠ [] ∧ ∀ x ∈ c, x ≠ SL) (hdots : ∀ c ∈ cs, c ≠ [DOT] ∧ c ≠ [DOT, DOT])
    (hlf : walkPath s v v.root cs ≠ .viaLink) :
    DecidedBy (ctx1 s v cs) .readlink s (readlink s v (SL :: joinWith SL cs)) := by
  have href := readlink_posix_gen s root v hwf hvr cs hall hdots
  rw [walkPathL_eq_walkPath s v cs v.root hlf] at href
  refine decided_search_only rfl (ctx1 s v cs) s _ (fun h => ?_) (fun h => ?_)
  · have h' : searchAllowed s v v.root cs = false := h
    rw [walkPath_of_refused h'] at href
    exact href
  · have h' : searchAllowed s v v.root cs = true := h
    rw [walkPath_of_allowed h'] at href hlf
    cases hR : lookupPath s v.root cs with
    | found par c =>
      simp only [hR, posixReadlink] at href
      cases hg : s.get c with
      | none =>
        exfalso
        have hw : walkPath s v v.root cs = .found par c := by rw [walkPath_of_allowed h', hR]
        have := (walkPath_found_node hwf hvr cs par c hw).1
        simp [hg] at this
      | some n =>
        simp only [hg] at href
        cases n with
        | dir md chd => rw [href]; simp
        | file mf df nl id => rw [href]; simp
        | symlink ms lk => rw [href]; simp
    | missingLast par name => simp only [hR, posixReadlink] at href; rw [href]; simp
    | missingDir => simp only [hR, posixReadlink] at href; rw [href]; simp
    | notDir => simp only [hR, posixReadlink] at href; rw [href]; simp
    | denied => exact absurd hR (lookupPath_ne_denied s _ v.root)
    | viaLink => exact absurd hR hlf

/-! ### Symlink -/

/-- Symlink (the path is the NEW name; the target string is not looked at): EACCES iff a directory of the path prefix
    may not be searched or — the name being free — the directory that is to hold the link may not be written and
    searched; never EPERM -/
theorem symlink_denied_iff (s : Store) (root : Ino) (v : View) (hwf : WF s root)
    (hvr : ∃ m ch, s.get v.root = some (.dir m ch)) (cs : List Bytes) (hne : cs ≠ [])
    (hall : ∀ c ∈ cs, c ≠ [] ∧ ∀ x ∈ c, x ≠ SL) (hdots : ∀ c ∈ cs, c ≠ [DOT] ∧ c ≠ [DOT, DOT]) (old : Bytes)
    (hlf : walkPath s v v.root cs ≠ .viaLink) :
    DecidedBy (ctx1 s v cs) .symlink s (symlink s v old (SL :: joinWith SL cs)) := by
  have href := symlink_posix_gen s root v hwf hvr cs hne hall hdots old
  rw [walkPathL_eq_walkPath s v cs v.root hlf] at href
  by_cases hsa : searchAllowed s v v.root cs = true
  · rw [walkPath_of_allowed hsa] at href hlf
    cases hR : lookupPath s v.root cs with
    | found par c =>
      simp only [hR, posixSymlink] at href
      refine decided_of_allowed ?_ (by rw [href]; simp) (by rw [href]; simp)
      table_simp [hsa, hR]
    | missingLast par name =>
      have hwx := may_wx_parent hne hsa (Or.inr ⟨name, hR⟩)
      simp only [hR, posixSymlink] at href
      rw [dirPerm_write] at href
      by_cases hp : may s v par false true false = true
      · simp only [hp, if_true] at href
        refine decided_of_allowed ?_ (by rw [href.2]; simp) (by rw [href.2]; simp)
        table_simp [hsa, hR, hwx, hp]
      · simp only [hp] at href
        refine decided_of_refused ?_ href
        table_simp [hsa, hR, hwx, hp]
    | missingDir =>
      simp only [hR, posixSymlink] at href
      refine decided_of_allowed ?_ (by rw [href]; simp) (by rw [href]; simp)
      table_simp [hsa, hR]
    | notDir =>
      simp only [hR, posixSymlink] at href
      refine decided_of_allowed ?_ (by rw [href]; simp) (by rw [href]; simp)
      table_simp [hsa, hR]
    | denied => exact absurd hR (lookupPath_ne_denied s cs v.root)
    | viaLink => exact absurd hR hlf
  · have hsa' : searchAllowed s v v.root cs = false := by simpa using hsa
    rw [walkPath_of_refused hsa'] at href
    simp only [posixSymlink] at href
    refine decided_of_refused ?_ href
    table_simp [hsa']

/-! ### Chmod, Chtimes: ownership -/

theorem ownerOrAdmin_eq {s : Store} {v : View} {c : Ino} {n : Node} (hg : s.get c = some n) :
    ownerOrAdmin s v c = !(n.meta.uid != v.uid && !v.admin) := by
  simp only [ownerOrAdmin, hg]
  cases h1 : (n.meta.uid == v.uid) <;> cases v.admin <;> simp [bne, h1]

/-- Chmod: EACCES iff a directory of the path prefix may not be searched; EPERM iff the path resolves and the caller
    neither owns the object nor is administrator. "/" included. -/
theorem chmod_denied_iff (s : Store) (root : Ino) (v : View) (hwf : WF s root)
    (hvr : ∃ m ch, s.get v.root = some (.dir m ch)) (cs : List Bytes)
    (hall : ∀ c ∈ cs, c ≠ [] ∧ ∀ x ∈ c, x ≠ SL) (hdots : ∀ c ∈ cs, c ≠ [DOT] ∧ c ≠ [DOT, DOT]) (mode : Nat)
    (hlf : walkPath s v v.root cs ≠ .viaLink) :
    DecidedBy (ctx1 s v cs) .chmod s (chmod s v (SL :: joinWith SL cs) mode) := by
  have href := chmod_posix_gen s root v hwf hvr cs hall hdots mode
  by_cases hsa : searchAllowed s v v.root cs = true
  · have hwp := walkPath_of_allowed hsa
    rw [hwp] at href hlf
    cases hR : lookupPath s v.root cs with
    | found par c =>
      obtain ⟨halloc, hns⟩ := walkPath_found_node hwf hvr cs par c (hwp.trans hR)
      simp only [hR, posixChmod] at href
      cases hg : s.get c with
      | none => simp [hg] at halloc
      | some n =>
        have hoa := ownerOrAdmin_eq (v := v) hg
        cases n with
        | symlink ms lk => exact absurd hg (hns ms lk)
        | dir md chd =>
          simp only [hg] at href
          by_cases hp : ((Node.dir md chd).meta.uid != v.uid && !v.admin) = true
          · simp only [hp, if_true] at href
            refine decided_of_refused (e := .EPERM) ?_ href
            table_simp [hsa, hR, hoa, hp]
          · simp only [hp] at href
            refine decided_of_allowed ?_ (by rw [href]; simp) (by rw [href]; simp)
            table_simp [hsa, hR, hoa, hp]
        | file mf df nl id =>
          simp only [hg] at href
          by_cases hp : ((Node.file mf df nl id).meta.uid != v.uid && !v.admin) = true
          · simp only [hp, if_true] at href
            refine decided_of_refused (e := .EPERM) ?_ href
            table_simp [hsa, hR, hoa, hp]
          · simp only [hp] at href
            refine decided_of_allowed ?_ (by rw [href]; simp) (by rw [href]; simp)
            table_simp [hsa, hR, hoa, hp]
    | missingLast par name =>
      simp only [hR, posixChmod] at href
      refine decided_of_allowed ?_ (by rw [href]; simp) (by rw [href]; simp)
      table_simp [hsa, hR]
    | missingDir =>
      simp only [hR, posixChmod] at href
      refine decided_of_allowed ?_ (by rw [href]; simp) (by rw [href]; simp)
      table_simp [hsa, hR]
    | notDir =>
      simp only [hR, posixChmod] at href
      refine decided_of_allowed ?_ (by rw [href]; simp) (by rw [href]; simp)
      table_simp [hsa, hR]
    | denied => exact absurd hR (lookupPath_ne_denied s cs v.root)
    | viaLink => exact absurd hR hlf
  · have hsa' : searchAllowed s v v.root cs = false := by simpa using hsa
    rw [walkPath_of_refused hsa'] at href
    simp only [posixChmod] at href
    refine decided_of_refused ?_ href
    table_simp [hsa']

/-- Chtimes: as Chmod — EACCES iff the path prefix may not be searched; EPERM iff the path resolves and the caller
    neither owns the object nor is administrator -/
theorem chtimes_denied_iff (s : Store) (root : Ino) (v : View) (hwf : WF s root)
    (hvr : ∃ m ch, s.get v.root = some (.dir m ch)) (cs : List Bytes)
    (hall : ∀ c ∈ cs, c ≠ [] ∧ ∀ x ∈ c, x ≠ SL) (hdots : ∀ c ∈ cs, c ≠ [DOT] ∧ c ≠ [DOT, DOT]) (mtime : Int)
    (hlf : walkPath s v v.root cs ≠ .viaLink) :
    DecidedBy (ctx1 s v cs) .chtimes s (chtimes s v (SL :: joinWith SL cs) mtime) := by
  have href := chtimes_posix_gen s root v hwf hvr cs hall hdots mtime
  by_cases hsa : searchAllowed s v v.root cs = true
  · have hwp := walkPath_of_allowed hsa
    rw [hwp] at href hlf
    cases hR : lookupPath s v.root cs with
    | found par c =>
      obtain ⟨halloc, hns⟩ := walkPath_found_node hwf hvr cs par c (hwp.trans hR)
      simp only [hR, posixChtimes] at href
      cases hg : s.get c with
      | none => simp [hg] at halloc
      | some n =>
        have hoa := ownerOrAdmin_eq (v := v) hg
        simp only [hg] at href
        by_cases hp : (n.meta.uid != v.uid && !v.admin) = true
        · simp only [hp, if_true] at href
          refine decided_of_refused (e := .EPERM) ?_ href
          table_simp [hsa, hR, hoa, hp]
        · simp only [hp] at href
          refine decided_of_allowed ?_ (by rw [href]; simp) (by rw [href]; simp)
          table_simp [hsa, hR, hoa, hp]
    | missingLast par name =>
      simp only [hR, posixChtimes] at href
      refine decided_of_allowed ?_ (by rw [href]; simp) (by rw [href]; simp)
      table_simp [hsa, hR]
    | missingDir =>
      simp only [hR, posixChtimes] at href
      refine decided_of_allowed ?_ (by rw [href]; simp) (by rw [href]; simp)
      table_simp [hsa, hR]
    | notDir =>
      simp only [hR, posixChtimes] at href
      refine decided_of_allowed ?_ (by rw [href]; simp) (by rw [href]; simp)
      table_simp [hsa, hR]
    | denied => exact absurd hR (lookupPath_ne_denied s cs v.root)
    | viaLink => exact absurd hR hlf
  · have hsa' : searchAllowed s v v.root cs = false := by simpa using hsa
    rw [walkPath_of_refused hsa'] at href
    simp only [posixChtimes] at href
    refine decided_of_refused ?_ href
    table_simp [hsa']

/-! ### Truncate, ReadDir: permission bits of the object -/

/-- Truncate (of a length that is in range — a negative one is EINVAL before the path is looked at — and of a path that
    does not resolve to a directory — EISDIR comes before the permission): EACCES iff a directory of the path prefix may
    not be searched or the file may not be written; never EPERM -/
theorem truncate_denied_iff (s : Store) (root : Ino) (v : View) (hwf : WF s root)
    (hvr : ∃ m ch, s.get v.root = some (.dir m ch)) (cs : List Bytes)
    (hall : ∀ c ∈ cs, c ≠ [] ∧ ∀ x ∈ c, x ≠ SL) (hdots : ∀ c ∈ cs, c ≠ [DOT] ∧ c ≠ [DOT, DOT]) (size : Int)
    (hsize : 0 ≤ size ∧ size ≤ maxFileSize)
    (hkind : ∀ par c, lookupPath s v.root cs = .found par c → isDirAt s c = false)
    (hlf : walkPath s v v.root cs ≠ .viaLink) :
    DecidedBy (ctx1 s v cs) .truncate s (truncate s v (SL :: joinWith SL cs) size) := by
  have href := truncate_posix_gen s root v hwf hvr cs hall hdots size
  have hsz : (size < 0 || size > (maxFileSize : Int)) = false := by
    simp only [Bool.or_eq_false_iff, decide_eq_false_iff_not, Int.not_lt, gt_iff_lt]
    exact ⟨hsize.1, hsize.2⟩
  simp only [posixTruncate, hsz, Bool.false_eq_true, if_false] at href
  by_cases hsa : searchAllowed s v v.root cs = true
  · have hwp := walkPath_of_allowed hsa
    rw [hwp] at href hlf
    cases hR : lookupPath s v.root cs with
    | found par c =>
      obtain ⟨halloc, hns⟩ := walkPath_found_node hwf hvr cs par c (hwp.trans hR)
      have hk := hkind par c hR
      simp only [hR] at href
      cases hg : s.get c with
      | none => simp [hg] at halloc
      | some n =>
        cases n with
        | symlink ms lk => exact absurd hg (hns ms lk)
        | dir md chd => simp [isDirAt, hg] at hk
        | file mf df nl id =>
          simp only [hg] at href
          rw [checkPerm_write] at href
          have hm : may s v c false true false = mayMeta mf v false true false := by simp [may, hg, Node.meta]
          by_cases hp : mayMeta mf v false true false = true
          · simp only [hp, Bool.not_true, Bool.false_eq_true, if_false] at href
            refine decided_of_allowed ?_ (by rw [href]; simp) (by rw [href]; simp)
            table_simp [hsa, hR, hm, hp]
          · simp only [hp, Bool.not_false, if_true] at href
            refine decided_of_refused (e := .EACCES) ?_ href
            table_simp [hsa, hR, hm, hp]
    | missingLast par name =>
      simp only [hR] at href
      refine decided_of_allowed ?_ (by rw [href]; simp) (by rw [href]; simp)
      table_simp [hsa, hR]
    | missingDir =>
      simp only [hR] at href
      refine decided_of_allowed ?_ (by rw [href]; simp) (by rw [href]; simp)
      table_simp [hsa, hR]
    | notDir =>
      simp only [hR] at href
      refine decided_of_allowed ?_ (by rw [href]; simp) (by rw [href]; simp)
      table_simp [hsa, hR]
    | denied => exact absurd hR (lookupPath_ne_denied s cs v.root)
    | viaLink => exact absurd hR hlf
  · have hsa' : searchAllowed s v v.root cs = false := by simpa using hsa
    rw [walkPath_of_refused hsa'] at href
    simp only [] at href
    refine decided_of_refused ?_ href
    table_simp [hsa']

/-- ReadDir (os.ReadDir: open read-only, then list): EACCES iff a directory of the path prefix may not be searched or the
    object may not be read; never EPERM. (The heap is never changed: `readDir` returns an outcome only.) -/
theorem readDir_denied_iff (s : Store) (root : Ino) (v : View) (hwf : WF s root)
    (hvr : ∃ m ch, s.get v.root = some (.dir m ch)) (cs : List Bytes)
    (hall : ∀ c ∈ cs, c ≠ [] ∧ ∀ x ∈ c, x ≠ SL) (hdots : ∀ c ∈ cs, c ≠ [DOT] ∧ c ≠ [DOT, DOT]) (vid : Nat)
    (hlf : walkPath s v v.root cs ≠ .viaLink) :
    DecidedBy (ctx1 s v cs) .readDir s (s, readDir s v vid (SL :: joinWith SL cs)) := by
  have href := readDir_posix_gen s root v hwf hvr cs hall hdots vid
  by_cases hsa : searchAllowed s v v.root cs = true
  · have hwp := walkPath_of_allowed hsa
    rw [hwp] at href hlf
    cases hR : lookupPath s v.root cs with
    | found par c =>
      obtain ⟨halloc, hns⟩ := walkPath_found_node hwf hvr cs par c (hwp.trans hR)
      simp only [hR, posixReadDir] at href
      cases hg : s.get c with
      | none => simp [hg] at halloc
      | some n =>
        cases n with
        | symlink ms lk => exact absurd hg (hns ms lk)
        | dir md chd =>
          simp only [hg] at href
          rw [checkPerm_read] at href
          have hm : may s v c true false false = mayMeta md v true false false := by simp [may, hg, Node.meta]
          by_cases hp : mayMeta md v true false false = true
          · simp only [hp, Bool.not_true, Bool.false_eq_true, if_false] at href
            refine decided_of_allowed ?_ (by simp [href]) (by simp [href])
            table_simp [hsa, hR, hm, hp]
          · simp only [hp, Bool.not_false, if_true] at href
            refine decided_of_refused (e := .EACCES) ?_ (by rw [href])
            table_simp [hsa, hR, hm, hp]
        | file mf df nl id =>
          simp only [hg] at href
          rw [checkPerm_read] at href
          have hm : may s v c true false false = mayMeta mf v true false false := by simp [may, hg, Node.meta]
          by_cases hp : mayMeta mf v true false false = true
          · simp only [hp, Bool.not_true, Bool.false_eq_true, if_false] at href
            refine decided_of_allowed ?_ (by simp [href]) (by simp [href])
            table_simp [hsa, hR, hm, hp]
          · simp only [hp, Bool.not_false, if_true] at href
            refine decided_of_refused (e := .EACCES) ?_ (by rw [href])
            table_simp [hsa, hR, hm, hp]
    | missingLast par name =>
      simp only [hR, posixReadDir] at href
      refine decided_of_allowed ?_ (by simp [href]) (by simp [href])
      table_simp [hsa, hR]
    | missingDir =>
      simp only [hR, posixReadDir] at href
      refine decided_of_allowed ?_ (by simp [href]) (by simp [href])
      table_simp [hsa, hR]
    | notDir =>
      simp only [hR, posixReadDir] at href
      refine decided_of_allowed ?_ (by simp [href]) (by simp [href])
      table_simp [hsa, hR]
    | denied => exact absurd hR (lookupPath_ne_denied s cs v.root)
    | viaLink => exact absurd hR hlf
  · have hsa' : searchAllowed s v v.root cs = false := by simpa using hsa
    rw [walkPath_of_refused hsa'] at href
    simp only [posixReadDir] at href
    refine decided_of_refused (e := .EACCES) ?_ (by rw [href])
    table_simp [hsa']

/-! ### Chown / Lchown: the administrator only -/

/-- Chown / Lchown, for an administrator, and for anybody else when the path resolves (MemFS refuses whoever is not
    administrator BEFORE it looks at the path: `chown_user`, `chown_user_noent`, `chown_user_unsearchable`):
    EPERM iff the caller is not administrator; EACCES never (an administrator may search everything). -/
theorem chown_denied_iff (s : Store) (root : Ino) (v : View) (hwf : WF s root)
    (hvr : ∃ m ch, s.get v.root = some (.dir m ch)) (cs : List Bytes)
    (hall : ∀ c ∈ cs, c ≠ [] ∧ ∀ x ∈ c, x ≠ SL) (hdots : ∀ c ∈ cs, c ≠ [DOT] ∧ c ≠ [DOT, DOT]) (uid gid : Int)
    (m : SlMode)
    (hres : v.admin = true ∨
      (searchAllowed s v v.root cs = true ∧ ∃ par c, lookupPath s v.root cs = .found par c))
    (hlf : walkPath s v v.root cs ≠ .viaLink) :
    DecidedBy (ctx1 s v cs) .chown s (chown s v (SL :: joinWith SL cs) uid gid m) := by
  cases hadm : v.admin with
  | true =>
    have hsa := searchAllowed_admin s v v.root cs hadm
    have href := chown_posix_gen s root v hwf hvr cs hall hdots uid gid m (Or.inl hadm)
    have hwp := walkPath_of_allowed hsa
    rw [hwp] at href hlf
    cases hR : lookupPath s v.root cs with
    | found par c =>
      obtain ⟨halloc, hns⟩ := walkPath_found_node hwf hvr cs par c (hwp.trans hR)
      simp only [hR, posixChown] at href
      cases hg : s.get c with
      | none => simp [hg] at halloc
      | some n =>
        simp only [hg, hadm, Bool.true_or, if_true] at href
        refine decided_of_allowed ?_ (by rw [href]; simp) (by rw [href]; simp)
        table_simp [hsa, hR, hadm]
    | missingLast par name =>
      simp only [hR, posixChown] at href
      refine decided_of_allowed ?_ (by rw [href]; simp) (by rw [href]; simp)
      table_simp [hsa, hR]
    | missingDir =>
      simp only [hR, posixChown] at href
      refine decided_of_allowed ?_ (by rw [href]; simp) (by rw [href]; simp)
      table_simp [hsa, hR]
    | notDir =>
      simp only [hR, posixChown] at href
      refine decided_of_allowed ?_ (by rw [href]; simp) (by rw [href]; simp)
      table_simp [hsa, hR]
    | denied => exact absurd hR (lookupPath_ne_denied s cs v.root)
    | viaLink => exact absurd hR hlf
  | false =>
    rcases hres with h | ⟨hsa, par, c, hR⟩
    · rw [hadm] at h; cases h
    · refine decided_of_refused (e := .EPERM) ?_ (chown_user s v _ uid gid m hadm)
      table_simp [hsa, hR, hadm]

/-! ### OpenFile -/

/-- the flags decode as open(2) says (`toOpenMode_plain`): O_RDONLY comes without O_CREAT, O_EXCL, O_TRUNC, O_APPEND -/
def OFlags.plain (f : OFlags) : Prop :=
  f.acc = .rdonly → f.creat = false ∧ f.excl = false ∧ f.trunc = false ∧ f.append = false

/-- the outcome of OpenFile as an `Out` (the handle itself plays no role here) -/
def openOut (r : Store × Except Err Handle) : Store × Out :=
  (r.1, match r.2 with | .error e => .err e | .ok _ => .ok .unit)

theorem om_create (f : OFlags) : (f.om &&& omCreate != 0) = f.creat := by
  obtain ⟨acc, c, e, t, a⟩ := f
  cases acc <;> cases c <;> cases e <;> cases t <;> cases a <;> decide

theorem om_create0 (f : OFlags) : (f.om &&& omCreate == 0) = !f.creat := by
  obtain ⟨acc, c, e, t, a⟩ := f
  cases acc <;> cases c <;> cases e <;> cases t <;> cases a <;> decide

theorem om_excl (f : OFlags) : (f.om &&& omExcl != 0) = (f.creat && f.excl) := by
  obtain ⟨acc, c, e, t, a⟩ := f
  cases acc <;> cases c <;> cases e <;> cases t <;> cases a <;> decide

theorem om_write (f : OFlags) : (f.om &&& omWrite != 0) = (f.acc != .rdonly) := by
  obtain ⟨acc, c, e, t, a⟩ := f
  cases acc <;> cases c <;> cases e <;> cases t <;> cases a <;> decide

/-- the permission test of OpenFile on the decoded mode is the DAC decision for: read unless O_WRONLY, write unless
    O_RDONLY (O_TRUNC needs write as well; with decoding flags it never comes with O_RDONLY) -/
theorem om_checkPerm (f : OFlags) (hpl : f.plain) (m : Meta) (v : View) :
    checkPerm m f.om v = mayMeta m v (f.acc != .wronly) (f.acc != .rdonly || f.trunc) false := by
  rw [C03_checkPerm_low_bits, ← checkPerm_eq_mayMeta]
  congr 1
  obtain ⟨acc, c, e, t, a⟩ := f
  cases acc <;> cases c <;> cases e <;> cases t <;> cases a <;> simp [OFlags.plain] at hpl <;> decide

theorem allowed_open (c : Ctx) (f : OFlags) :
    Allowed c (.open f) ↔ (searchAllowed c.s c.v c.d c.p1 = true ∧
      ((f.creat && f.excl) = false →
        Holds c ⟨.node .first, .bits (f.acc != .wronly) (f.acc != .rdonly || f.trunc) false, .EACCES⟩) ∧
      (f.creat = true → Holds c ⟨.newParent .first, .bits false true true, .EACCES⟩)) := by
  cases hcr : f.creat <;> cases hex : f.excl <;> simp [Allowed, needs, holds_search, Ctx.path, hcr, hex]

theorem refused_eacces_iff {c : Ctx} {k : CallKind} (h : ∀ n ∈ needs k, n.err = .EACCES) :
    Refused c k .EACCES ↔ ¬ Allowed c k := by
  rw [← refused_iff_not_allowed]
  constructor
  · intro h'; exact ⟨_, h'⟩
  · rintro ⟨e, he⟩
    obtain ⟨n, hn, _, hne⟩ := firstFails_mem _ _ _ he
    rw [h n hn] at hne
    exact hne ▸ he

theorem needs_open_err (f : OFlags) : ∀ n ∈ needs (.open f), n.err = .EACCES := by
  obtain ⟨a, c, e, t, ap⟩ := f
  cases c <;> cases e <;> simp [needs, needSearch]

/-- OpenFile, for flags that decode as open(2) says, on a path that is not a directory asked for writing (EISDIR comes
    before the permission): EACCES iff a directory of the path prefix may not be searched; or the object exists (and
    O_CREAT|O_EXCL was not given: EEXIST first) and may not be read (unless O_WRONLY) / written (unless O_RDONLY; O_TRUNC);
    or the object is to be created (O_CREAT, last component missing) and its directory may not be written and searched.
    Never EPERM. -/
theorem open_denied_iff (s : Store) (root : Ino) (v : View) (hwf : WF s root)
    (hvr : ∃ m ch, s.get v.root = some (.dir m ch)) (cs : List Bytes) (hne : cs ≠ [])
    (hall : ∀ c ∈ cs, c ≠ [] ∧ ∀ x ∈ c, x ≠ SL) (hdots : ∀ c ∈ cs, c ≠ [DOT] ∧ c ≠ [DOT, DOT])
    (vid perm : Nat) (f : OFlags) (hpl : f.plain)
    (hisdir : ∀ par c, lookupPath s v.root cs = .found par c → isDirAt s c = true → f.acc = .rdonly)
    (hlf : walkPath s v v.root cs ≠ .viaLink) :
    DecidedBy (ctx1 s v cs) (.open f) s (openOut (openFile s v vid (SL :: joinWith SL cs) f.toNat perm)) := by
  have href := open_posix_gen s root v hwf hvr cs hne hall hdots vid f.toNat perm
  rw [toOpenMode_plain f hpl] at href
  have hrefuse : ¬ Allowed (ctx1 s v cs) (.open f) →
      openFile s v vid (SL :: joinWith SL cs) f.toNat perm = (s, .error .EACCES) →
      DecidedBy (ctx1 s v cs) (.open f) s (openOut (openFile s v vid (SL :: joinWith SL cs) f.toNat perm)) :=
    fun hna ho => decided_of_refused ((refused_eacces_iff (needs_open_err f)).mpr hna) (by rw [ho]; rfl)
  by_cases hsa : searchAllowed s v v.root cs = true
  · have hwp := walkPath_of_allowed hsa
    rw [hwp] at href hlf
    cases hR : lookupPath s v.root cs with
    | found par c =>
      obtain ⟨halloc, hns⟩ := walkPath_found_node hwf hvr cs par c (hwp.trans hR)
      simp only [hR, posixOpen, om_create, om_excl] at href
      by_cases hce : (f.creat && f.excl) = true
      · have hcr : f.creat = true := by simp at hce; exact hce.1
        have hif : (f.creat && (f.creat && f.excl)) = true := by rw [hce, hcr]; rfl
        simp only [hif, if_true] at href
        refine decided_of_allowed ?_ (by rw [href]; simp [openOut]) (by rw [href]; simp [openOut])
        rw [allowed_open]
        exact ⟨hsa, fun h => (by rw [hce] at h; cases h),
          fun _ => (by simp [holds_newParent, ctx1, Ctx.res, Ctx.path, hR])⟩
      · have hce' : (f.creat && f.excl) = false := by simpa using hce
        have hif : (f.creat && (f.creat && f.excl)) = false := by rw [hce']; simp
        simp only [hif, Bool.false_eq_true, if_false] at href
        have hnp : f.creat = true → Holds (ctx1 s v cs) ⟨.newParent .first, .bits false true true, .EACCES⟩ :=
          fun _ => by simp [holds_newParent, ctx1, Ctx.res, Ctx.path, hR]
        cases hg : s.get c with
        | none => simp [hg] at halloc
        | some n =>
          cases n with
          | symlink ms lk => exact absurd hg (hns ms lk)
          | dir md chd =>
            have hacc := hisdir par c hR (isDirAt_of_get hg)
            have hw : (f.om &&& omWrite != 0) = false := by rw [om_write, hacc]; rfl
            simp only [hg, hw, Bool.false_eq_true, if_false] at href
            rw [om_checkPerm f hpl] at href
            have hm : ∀ r w, may s v c r w false = mayMeta md v r w false := by intro r w; simp [may, hg, Node.meta]
            by_cases hp : mayMeta md v (f.acc != .wronly) (f.acc != .rdonly || f.trunc) false = true
            · simp only [hp, Bool.not_true, Bool.false_eq_true, if_false] at href
              refine decided_of_allowed ?_ (by rw [href]; simp [openOut]) (by rw [href]; simp [openOut])
              rw [allowed_open]
              exact ⟨hsa, fun _ => (by simp [holds_node, ctx1, Ctx.res, Ctx.path, hR, hm, hp]), hnp⟩
            · simp only [hp, Bool.not_false, if_true] at href
              refine hrefuse ?_ href
              rw [allowed_open]
              intro h
              have := h.2.1 hce'
              simp [holds_node, ctx1, Ctx.res, Ctx.path, hR, hm] at this
              exact hp this
          | file mf df nl id =>
            simp only [hg] at href
            rw [om_checkPerm f hpl] at href
            have hm : ∀ r w, may s v c r w false = mayMeta mf v r w false := by intro r w; simp [may, hg, Node.meta]
            by_cases hp : mayMeta mf v (f.acc != .wronly) (f.acc != .rdonly || f.trunc) false = true
            · simp only [hp, Bool.not_true, Bool.false_eq_true, if_false] at href
              refine decided_of_allowed ?_ (by rw [href]; simp [openOut]) (by rw [href]; simp [openOut])
              rw [allowed_open]
              exact ⟨hsa, fun _ => (by simp [holds_node, ctx1, Ctx.res, Ctx.path, hR, hm, hp]), hnp⟩
            · simp only [hp, Bool.not_false, if_true] at href
              refine hrefuse ?_ href
              rw [allowed_open]
              intro h
              have := h.2.1 hce'
              simp [holds_node, ctx1, Ctx.res, Ctx.path, hR, hm] at this
              exact hp this
    | missingLast par name =>
      simp only [hR, posixOpen, om_create0] at href
      have hnode : (f.creat && f.excl) = false →
          Holds (ctx1 s v cs) ⟨.node .first, .bits (f.acc != .wronly) (f.acc != .rdonly || f.trunc) false, .EACCES⟩ :=
        fun _ => by simp [holds_node, ctx1, Ctx.res, Ctx.path, hR]
      by_cases hcr : f.creat = true
      · simp only [hcr, Bool.not_true, Bool.false_eq_true, if_false] at href
        rw [dirPerm_wx] at href
        by_cases hp : may s v par false true true = true
        · simp only [hp, Bool.not_true, Bool.false_eq_true, if_false] at href
          refine decided_of_allowed ?_ (by rw [href.2]; simp [openOut]) (by rw [href.2]; simp [openOut])
          rw [allowed_open]
          exact ⟨hsa, hnode, fun _ => (by simp [holds_newParent, ctx1, Ctx.res, Ctx.path, hR, hp])⟩
        · simp only [hp, Bool.not_false, if_true] at href
          refine hrefuse ?_ href
          rw [allowed_open]
          intro h
          have := h.2.2 hcr
          simp [holds_newParent, ctx1, Ctx.res, Ctx.path, hR] at this
          exact hp this
      · have hcr' : f.creat = false := by simpa using hcr
        simp only [hcr', Bool.not_false, if_true] at href
        refine decided_of_allowed ?_ (by rw [href]; simp [openOut]) (by rw [href]; simp [openOut])
        rw [allowed_open]
        exact ⟨hsa, hnode, fun h => (by rw [hcr'] at h; cases h)⟩
    | missingDir =>
      simp only [hR, posixOpen] at href
      refine decided_of_allowed ?_ (by rw [href]; simp [openOut]) (by rw [href]; simp [openOut])
      rw [allowed_open]
      exact ⟨hsa, fun _ => (by simp [holds_node, ctx1, Ctx.res, Ctx.path, hR]),
        fun _ => (by simp [holds_newParent, ctx1, Ctx.res, Ctx.path, hR])⟩
    | notDir =>
      simp only [hR, posixOpen] at href
      refine decided_of_allowed ?_ (by rw [href]; simp [openOut]) (by rw [href]; simp [openOut])
      rw [allowed_open]
      exact ⟨hsa, fun _ => (by simp [holds_node, ctx1, Ctx.res, Ctx.path, hR]),
        fun _ => (by simp [holds_newParent, ctx1, Ctx.res, Ctx.path, hR])⟩
    | denied => exact absurd hR (lookupPath_ne_denied s cs v.root)
    | viaLink => exact absurd hR hlf
  · have hsa' : searchAllowed s v v.root cs = false := by simpa using hsa
    rw [walkPath_of_refused hsa'] at href
    simp only [posixOpen] at href
    refine hrefuse ?_ href
    rw [allowed_open]
    intro h
    have h1 : searchAllowed s v v.root cs = true := h.1
    rw [hsa'] at h1
    cases h1

/-! ### Link -/

/-- Link(old, new), when the old path resolves (else ENOENT / ENOTDIR of the old path come first, whatever the new one
    is) to something that is no directory (a directory is EPERM for everybody, after the permission checks): EACCES iff
    a directory of the prefix of the old path, or of the new path, may not be searched, or — the new name being free —
    the directory that is to hold it may not be written and searched. Never EPERM: no permission on the file itself is
    asked (`link_other_users_file`). -/
theorem link_denied_iff (s : Store) (root : Ino) (v : View) (hwf : WF s root)
    (hvr : ∃ m ch, s.get v.root = some (.dir m ch)) (cso csn : List Bytes) (hnen : csn ≠ [])
    (hallo : ∀ c ∈ cso, c ≠ [] ∧ ∀ x ∈ c, x ≠ SL) (hdotso : ∀ c ∈ cso, c ≠ [DOT] ∧ c ≠ [DOT, DOT])
    (halln : ∀ c ∈ csn, c ≠ [] ∧ ∀ x ∈ c, x ≠ SL) (hdotsn : ∀ c ∈ csn, c ≠ [DOT] ∧ c ≠ [DOT, DOT])
    (opar oc : Ino) (hold : lookupPath s v.root cso = .found opar oc) (hsrc : isDirAt s oc = false)
    (hlfn : walkPath s v v.root csn ≠ .viaLink) :
    DecidedBy (ctx2 s v cso csn) .link s (link s v (SL :: joinWith SL cso) (SL :: joinWith SL csn)) := by
  have href := link_posix_gen s root v hwf hvr cso csn hnen hallo hdotso halln hdotsn
  by_cases hsa1 : searchAllowed s v v.root cso = true
  · have hwpo := walkPath_of_allowed hsa1
    rw [hwpo, hold] at href
    obtain ⟨halloc, hns⟩ := walkPath_found_node hwf hvr cso opar oc (hwpo.trans hold)
    by_cases hsa2 : searchAllowed s v v.root csn = true
    · rw [walkPath_of_allowed hsa2] at href hlfn
      cases hRn : lookupPath s v.root csn with
      | found npar nc =>
        simp only [hRn, posixLink] at href
        refine decided_of_allowed ?_ (by rw [href]; simp) (by rw [href]; simp)
        table_simp [hsa1, hsa2, hold, hRn]
      | missingLast par name =>
        have hwx := may_wx_parent hnen hsa2 (Or.inr ⟨name, hRn⟩)
        simp only [hRn, posixLink] at href
        rw [dirPerm_write] at href
        by_cases hp : may s v par false true false = true
        · simp only [hp, Bool.not_true, Bool.false_eq_true, if_false] at href
          have hal : Allowed (ctx2 s v cso csn) .link := by table_simp [hsa1, hsa2, hold, hRn, hwx, hp]
          cases hg : s.get oc with
          | none => simp [hg] at halloc
          | some n =>
            cases n with
            | symlink ms lk => exact absurd hg (hns ms lk)
            | dir md chd => simp [isDirAt, hg] at hsrc
            | file mf df nl id =>
              simp only [hg] at href
              exact decided_of_allowed hal (by rw [href.2]; simp) (by rw [href.2]; simp)
        · simp only [hp, Bool.not_false, if_true] at href
          refine decided_of_refused (e := .EACCES) ?_ href
          table_simp [hsa1, hsa2, hold, hRn, hwx, hp]
      | missingDir =>
        simp only [hRn, posixLink] at href
        refine decided_of_allowed ?_ (by rw [href]; simp) (by rw [href]; simp)
        table_simp [hsa1, hsa2, hold, hRn]
      | notDir =>
        simp only [hRn, posixLink] at href
        refine decided_of_allowed ?_ (by rw [href]; simp) (by rw [href]; simp)
        table_simp [hsa1, hsa2, hold, hRn]
      | denied => exact absurd hRn (lookupPath_ne_denied s csn v.root)
      | viaLink => exact absurd hRn hlfn
    · have hsa2' : searchAllowed s v v.root csn = false := by simpa using hsa2
      rw [walkPath_of_refused hsa2'] at href
      simp only [posixLink] at href
      refine decided_of_refused (e := .EACCES) ?_ href
      table_simp [hsa1, hsa2']
  · have hsa1' : searchAllowed s v v.root cso = false := by simpa using hsa1
    rw [walkPath_of_refused hsa1'] at href
    simp only [posixLink] at href
    refine decided_of_refused (e := .EACCES) ?_ href
    table_simp [hsa1']

/-! ### Rename -/

/-- the requirements of the table for Rename in the order in which MemFS checks them: the write permission of BOTH
    directories before the sticky rule (the table, as Linux: old directory, its sticky rule, new directory, its sticky
    rule) -/
def renameChecks : List Need :=
  [needSearch .first, needSearch .second,
   ⟨.entryParent .first, .bits false true true, .EACCES⟩, ⟨.parent .second, .bits false true true, .EACCES⟩,
   ⟨.entryParent .first, .mayDelete, .EPERM⟩, ⟨.entryParent .second, .mayDelete, .EPERM⟩,
   ⟨.movedDir, .bits false true false, .EACCES⟩]

/-- Rename(old, new) when both paths resolve as rename(2) needs them (the old entry exists; the directory of the new
    name exists) and old and new are not two names of the same object (then Linux returns 0 before any permission check,
    MemFS checks first: `rename_same_denied`, `rename_two_names_denied`), and when Linux's additional requirement on a
    directory that changes its parent holds (`hmv`; MemFS does not ask for it: `rename_dir_across_unchecked`):
    the EACCES / EPERM outcomes of MemFS are exactly those of the requirements of the table taken in the order
    `renameChecks`: search on both prefixes; write and search on the old directory; write and search on the new
    directory (EACCES); then the sticky rule for the entry that leaves the old directory and for the entry that is
    replaced in the new one (EPERM). -/
theorem rename_decided_checks (s : Store) (root : Ino) (v : View) (hwf : WF s root)
    (hvr : ∃ m ch, s.get v.root = some (.dir m ch)) (cso csn : List Bytes) (hneo : cso ≠ []) (hnen : csn ≠ [])
    (hallo : ∀ c ∈ cso, c ≠ [] ∧ ∀ x ∈ c, x ≠ SL) (hdotso : ∀ c ∈ cso, c ≠ [DOT] ∧ c ≠ [DOT, DOT])
    (halln : ∀ c ∈ csn, c ≠ [] ∧ ∀ x ∈ c, x ≠ SL) (hdotsn : ∀ c ∈ csn, c ≠ [DOT] ∧ c ≠ [DOT, DOT])
    (opar oc : Ino) (hold : lookupPath s v.root cso = .found opar oc)
    (hnew : (∃ np nc, lookupPath s v.root csn = .found np nc) ∨ (∃ np nn, lookupPath s v.root csn = .missingLast np nn))
    (hsame : ∀ p, lookupPath s v.root csn ≠ .found p oc)
    (hmv : Holds (ctx2 s v cso csn) ⟨.movedDir, .bits false true false, .EACCES⟩) :
    DecidedByL (ctx2 s v cso csn) renameChecks s (rename s v (SL :: joinWith SL cso) (SL :: joinWith SL csn)) := by
  have hcore := rename_core s root v hwf hvr cso csn hneo hnen hallo hdotso halln hdotsn
  have hdiff : cso ≠ csn := by
    intro h
    rw [← h, hold] at hsame
    exact hsame opar rfl
  have hdec : decide (cso = csn) = false := by simp [hdiff]
  rw [hdec] at hcore
  generalize (cso.isPrefixOf csn && cso != csn) = below at hcore
  by_cases hsa1 : searchAllowed s v v.root cso = true
  · have hwpo := walkPath_of_allowed hsa1
    rw [hwpo, hold] at hcore
    obtain ⟨halloco, hnso⟩ := walkPath_found_node hwf hvr cso opar oc (hwpo.trans hold)
    have hwx1 := may_wx_parent hneo hsa1 (Or.inl ⟨oc, hold⟩)
    by_cases hsa2 : searchAllowed s v v.root csn = true
    · have hwpn := walkPath_of_allowed hsa2
      rw [hwpn] at hcore
      -- the outcome when the reference neither refuses nor leaves the case open
      have fin : ∀ P : RenameRef, P ≠ .fail .EACCES → P ≠ .fail .EPERM → P ≠ .outside →
          (if renameCorner s (.found opar oc) (lookupPath s v.root csn) P = true
            then rename s v (SL :: joinWith SL cso) (SL :: joinWith SL csn) = (s, .err .EEXIST)
            else match P with
              | .fail e => rename s v (SL :: joinWith SL cso) (SL :: joinWith SL csn) = (s, .err e)
              | .noop => rename s v (SL :: joinWith SL cso) (SL :: joinWith SL csn) = (s, .ok .unit)
              | .move opar npar oc repl => rename s v (SL :: joinWith SL cso) (SL :: joinWith SL csn) =
                  (renamed s opar (cso.getLast hneo) npar (csn.getLast hnen) oc repl, .ok .unit)
              | .outside => True) →
          (rename s v (SL :: joinWith SL cso) (SL :: joinWith SL csn)).2 ≠ .err .EACCES ∧
          (rename s v (SL :: joinWith SL cso) (SL :: joinWith SL csn)).2 ≠ .err .EPERM := by
        intro P h1 h2 h3 h
        cases hc : renameCorner s (.found opar oc) (lookupPath s v.root csn) P with
        | true => rw [hc] at h; simp only [if_true] at h; rw [h]; simp
        | false =>
          rw [hc] at h
          simp only [Bool.false_eq_true, if_false] at h
          cases P with
          | fail e =>
            simp only at h
            rw [h]
            refine ⟨fun he => h1 ?_, fun he => h2 ?_⟩
            · simp at he; rw [he]
            · simp at he; rw [he]
          | noop => simp only at h; rw [h]; simp
          | move a b c d => simp only at h; rw [h]; simp
          | outside => exact absurd rfl h3
      rcases hnew with ⟨npar, nc, hRn⟩ | ⟨npar, nname, hRn⟩
      · -- the new name exists
        have hwx2 := may_wx_parent hnen hsa2 (Or.inl ⟨nc, hRn⟩)
        obtain ⟨hallocn, hnsn⟩ := walkPath_found_node hwf hvr csn npar nc (hwpn.trans hRn)
        have hncoc : (nc == oc) = false := by
          simp only [beq_eq_false_iff_ne]
          intro h
          exact hsame npar (h ▸ hRn)
        rw [hRn] at hcore fin
        by_cases hp1 : may s v opar false true false = true
        · by_cases hp2 : may s v npar false true false = true
          · by_cases hr1 : restrictedDeletion s v opar oc = true
            · have hP : posixRename s v false below (.found opar oc) (.found npar nc) = .fail .EPERM := by
                simp [posixRename, dirPerm_write, hp1, hp2, hr1]
              rw [hP] at hcore
              simp only [renameCorner, Bool.false_eq_true, if_false] at hcore
              refine decidedL_of_refused (e := .EPERM) ?_ hcore
              table_simp [renameChecks, hsa1, hsa2, hold, hRn, hwx1, hwx2, hp1, hp2, hr1]
            · have hr1' : restrictedDeletion s v opar oc = false := by simpa using hr1
              by_cases hr2 : restrictedDeletion s v npar nc = true
              · have hP : posixRename s v false below (.found opar oc) (.found npar nc) = .fail .EPERM := by
                  simp [posixRename, dirPerm_write, hp1, hp2, hr1', hr2]
                rw [hP] at hcore
                simp only [renameCorner, Bool.false_eq_true, if_false] at hcore
                refine decidedL_of_refused (e := .EPERM) ?_ hcore
                table_simp [renameChecks, hsa1, hsa2, hold, hRn, hwx1, hwx2, hp1, hp2, hr1', hr2]
              · have hr2' : restrictedDeletion s v npar nc = false := by simpa using hr2
                have hal : ∀ n ∈ renameChecks, Holds (ctx2 s v cso csn) n := by
                  have hmv' := hmv
                  simp only [holds_movedDir, ctx2, Ctx.res, Ctx.path, hold, hRn] at hmv'
                  table_simp [renameChecks, hsa1, hsa2, hold, hRn, hwx1, hwx2, hp1, hp2, hr1', hr2']
                  exact hmv'
                have hout := fin (posixRename s v false below (.found opar oc) (.found npar nc)) ?_ ?_ ?_ hcore
                · exact decidedL_of_allowed hal hout.1 hout.2
                all_goals
                  simp only [posixRename, dirPerm_write, hp1, hp2, hr1', hr2', Bool.not_true, Bool.false_eq_true,
                    if_false, hncoc]
                  obtain ⟨no, hgo⟩ := Option.isSome_iff_exists.mp halloco
                  obtain ⟨nn, hgn⟩ := Option.isSome_iff_exists.mp hallocn
                  cases no with
                  | symlink ms lk => exact absurd hgo (hnso ms lk)
                  | dir md chd =>
                    cases nn with
                    | symlink ms lk => exact absurd hgn (hnsn ms lk)
                    | dir md2 chd2 => simp only [hgo, hgn]; repeat' split
                                      all_goals simp
                    | file mf2 df2 nl2 id2 => simp only [hgo, hgn]; repeat' split
                                              all_goals simp
                  | file mf df nl id =>
                    cases nn with
                    | symlink ms lk => exact absurd hgn (hnsn ms lk)
                    | dir md2 chd2 => simp [hgo, hgn]
                    | file mf2 df2 nl2 id2 => simp [hgo, hgn]
          · have hP : posixRename s v false below (.found opar oc) (.found npar nc) = .fail .EACCES := by
              simp [posixRename, dirPerm_write, hp1, hp2]
            rw [hP] at hcore
            simp only [renameCorner, Bool.false_eq_true, if_false] at hcore
            refine decidedL_of_refused (e := .EACCES) ?_ hcore
            table_simp [renameChecks, hsa1, hsa2, hold, hRn, hwx1, hwx2, hp1, hp2]
        · have hP : posixRename s v false below (.found opar oc) (.found npar nc) = .fail .EACCES := by
            simp [posixRename, dirPerm_write, hp1]
          rw [hP] at hcore
          simp only [renameCorner, Bool.false_eq_true, if_false] at hcore
          refine decidedL_of_refused (e := .EACCES) ?_ hcore
          table_simp [renameChecks, hsa1, hsa2, hold, hRn, hwx1, hp1]
      · -- the new name is free
        have hwx2 := may_wx_parent hnen hsa2 (Or.inr ⟨nname, hRn⟩)
        rw [hRn] at hcore fin
        by_cases hp1 : may s v opar false true false = true
        · by_cases hp2 : may s v npar false true false = true
          · by_cases hr1 : restrictedDeletion s v opar oc = true
            · have hP : posixRename s v false below (.found opar oc) (.missingLast npar nname) = .fail .EPERM := by
                simp [posixRename, dirPerm_write, hp1, hp2, hr1]
              rw [hP] at hcore
              simp only [renameCorner, Bool.false_eq_true, if_false] at hcore
              refine decidedL_of_refused (e := .EPERM) ?_ hcore
              table_simp [renameChecks, hsa1, hsa2, hold, hRn, hwx1, hwx2, hp1, hp2, hr1]
            · have hr1' : restrictedDeletion s v opar oc = false := by simpa using hr1
              have hal : ∀ n ∈ renameChecks, Holds (ctx2 s v cso csn) n := by
                have hmv' := hmv
                simp only [holds_movedDir, ctx2, Ctx.res, Ctx.path, hold, hRn] at hmv'
                table_simp [renameChecks, hsa1, hsa2, hold, hRn, hwx1, hwx2, hp1, hp2, hr1']
                exact hmv'
              have hout := fin (posixRename s v false below (.found opar oc) (.missingLast npar nname)) ?_ ?_ ?_ hcore
              · exact decidedL_of_allowed hal hout.1 hout.2
              all_goals
                simp only [posixRename, dirPerm_write, hp1, hp2, hr1', Bool.not_true, Bool.false_eq_true, if_false]
                obtain ⟨no, hgo⟩ := Option.isSome_iff_exists.mp halloco
                cases no with
                | symlink ms lk => exact absurd hgo (hnso ms lk)
                | dir md chd => simp only [hgo]; split <;> simp
                | file mf df nl id => simp [hgo]
          · have hP : posixRename s v false below (.found opar oc) (.missingLast npar nname) = .fail .EACCES := by
              simp [posixRename, dirPerm_write, hp1, hp2]
            rw [hP] at hcore
            simp only [renameCorner, Bool.false_eq_true, if_false] at hcore
            refine decidedL_of_refused (e := .EACCES) ?_ hcore
            table_simp [renameChecks, hsa1, hsa2, hold, hRn, hwx1, hwx2, hp1, hp2]
        · have hP : posixRename s v false below (.found opar oc) (.missingLast npar nname) = .fail .EACCES := by
            simp [posixRename, dirPerm_write, hp1]
          rw [hP] at hcore
          simp only [renameCorner, Bool.false_eq_true, if_false] at hcore
          refine decidedL_of_refused (e := .EACCES) ?_ hcore
          table_simp [renameChecks, hsa1, hsa2, hold, hRn, hwx1, hp1]
    · have hsa2' : searchAllowed s v v.root csn = false := by simpa using hsa2
      rw [walkPath_of_refused hsa2'] at hcore
      simp only [posixRename, renameCorner, Bool.false_eq_true, if_false] at hcore
      refine decidedL_of_refused (e := .EACCES) ?_ hcore
      table_simp [renameChecks, hsa1, hsa2']
  · have hsa1' : searchAllowed s v v.root cso = false := by simpa using hsa1
    rw [walkPath_of_refused hsa1'] at hcore
    simp only [posixRename, renameCorner, Bool.false_eq_true, if_false] at hcore
    refine decidedL_of_refused (e := .EACCES) ?_ hcore
    table_simp [renameChecks, hsa1']

/-- the order of two requirements does not matter unless both fail -/
theorem firstFails_swap (H : Need → Prop) (pre post : List Need) (a b : Need) (e : Err) (h : ¬ H a → H b) :
    firstFails H (pre ++ a :: b :: post) e ↔ firstFails H (pre ++ b :: a :: post) e := by
  induction pre with
  | nil =>
    simp only [List.nil_append, firstFails]
    by_cases ha : H a <;> by_cases hb : H b
    · simp [ha, hb]
    · simp [ha, hb]
    · simp [ha, hb]
    · exact absurd (h ha) hb
  | cons n ns ih => simp only [List.cons_append, firstFails, ih]

/-- Rename against THE TABLE (the order of Linux): under the hypotheses of `rename_decided_checks` and when not both
    the sticky rule of the old directory and the write permission of the new directory fail (`hprec`; when both do,
    Linux says EPERM and MemFS EACCES: `rename_sticky_vs_newdir`), the EACCES / EPERM outcomes are exactly the refusals
    of the table -/
theorem rename_denied_iff (s : Store) (root : Ino) (v : View) (hwf : WF s root)
    (hvr : ∃ m ch, s.get v.root = some (.dir m ch)) (cso csn : List Bytes) (hneo : cso ≠ []) (hnen : csn ≠ [])
    (hallo : ∀ c ∈ cso, c ≠ [] ∧ ∀ x ∈ c, x ≠ SL) (hdotso : ∀ c ∈ cso, c ≠ [DOT] ∧ c ≠ [DOT, DOT])
    (halln : ∀ c ∈ csn, c ≠ [] ∧ ∀ x ∈ c, x ≠ SL) (hdotsn : ∀ c ∈ csn, c ≠ [DOT] ∧ c ≠ [DOT, DOT])
    (opar oc : Ino) (hold : lookupPath s v.root cso = .found opar oc)
    (hnew : (∃ np nc, lookupPath s v.root csn = .found np nc) ∨ (∃ np nn, lookupPath s v.root csn = .missingLast np nn))
    (hsame : ∀ p, lookupPath s v.root csn ≠ .found p oc)
    (hmv : Holds (ctx2 s v cso csn) ⟨.movedDir, .bits false true false, .EACCES⟩)
    (hprec : restrictedDeletion s v opar oc = true →
      Holds (ctx2 s v cso csn) ⟨.parent .second, .bits false true true, .EACCES⟩) :
    DecidedBy (ctx2 s v cso csn) .rename s (rename s v (SL :: joinWith SL cso) (SL :: joinWith SL csn)) := by
  have h := rename_decided_checks s root v hwf hvr cso csn hneo hnen hallo hdotso halln hdotsn opar oc hold hnew hsame hmv
  have hsw : ∀ e, firstFails (Holds (ctx2 s v cso csn)) renameChecks e ↔ Refused (ctx2 s v cso csn) .rename e := by
    intro e
    have := firstFails_swap (Holds (ctx2 s v cso csn))
      [needSearch .first, needSearch .second, ⟨.entryParent .first, .bits false true true, .EACCES⟩]
      [⟨.entryParent .second, .mayDelete, .EPERM⟩, ⟨.movedDir, .bits false true false, .EACCES⟩]
      ⟨.parent .second, .bits false true true, .EACCES⟩ ⟨.entryParent .first, .mayDelete, .EPERM⟩ e ?_
    · exact this
    · intro hnp
      rw [holds_entryParent_mayDelete]
      simp only [ctx2, Ctx.res, Ctx.path, hold]
      cases hr : restrictedDeletion s v opar oc with
      | false => rfl
      | true => exact absurd (hprec hr) hnp
  exact ⟨fun e he => (h.1 e he).trans (hsw e), fun e he => h.2 e ((hsw e).mpr he)⟩

/-- Rename without `hprec`: it is refused (EACCES or EPERM) iff some requirement of the table is not met — only WHICH
    of the two errnos may differ from Linux, in the one corner named above -/
theorem rename_denied_iff_any (s : Store) (root : Ino) (v : View) (hwf : WF s root)
    (hvr : ∃ m ch, s.get v.root = some (.dir m ch)) (cso csn : List Bytes) (hneo : cso ≠ []) (hnen : csn ≠ [])
    (hallo : ∀ c ∈ cso, c ≠ [] ∧ ∀ x ∈ c, x ≠ SL) (hdotso : ∀ c ∈ cso, c ≠ [DOT] ∧ c ≠ [DOT, DOT])
    (halln : ∀ c ∈ csn, c ≠ [] ∧ ∀ x ∈ c, x ≠ SL) (hdotsn : ∀ c ∈ csn, c ≠ [DOT] ∧ c ≠ [DOT, DOT])
    (opar oc : Ino) (hold : lookupPath s v.root cso = .found opar oc)
    (hnew : (∃ np nc, lookupPath s v.root csn = .found np nc) ∨ (∃ np nn, lookupPath s v.root csn = .missingLast np nn))
    (hsame : ∀ p, lookupPath s v.root csn ≠ .found p oc)
    (hmv : Holds (ctx2 s v cso csn) ⟨.movedDir, .bits false true false, .EACCES⟩) :
    (((rename s v (SL :: joinWith SL cso) (SL :: joinWith SL csn)).2 = .err .EACCES ∨
      (rename s v (SL :: joinWith SL cso) (SL :: joinWith SL csn)).2 = .err .EPERM) ↔
        ¬ Allowed (ctx2 s v cso csn) .rename) ∧
    (((rename s v (SL :: joinWith SL cso) (SL :: joinWith SL csn)).2 = .err .EACCES ∨
      (rename s v (SL :: joinWith SL cso) (SL :: joinWith SL csn)).2 = .err .EPERM) →
        (rename s v (SL :: joinWith SL cso) (SL :: joinWith SL csn)).1 = s) := by
  have h := rename_decided_checks s root v hwf hvr cso csn hneo hnen hallo hdotso halln hdotsn opar oc hold hnew hsame hmv
  have hperm : Allowed (ctx2 s v cso csn) .rename ↔ ∀ n ∈ renameChecks, Holds (ctx2 s v cso csn) n := by
    simp only [Allowed, needs, renameChecks, List.mem_cons, List.mem_nil_iff, or_false, forall_eq_or_imp, forall_eq]
    constructor
    · rintro ⟨a, b, c, d, e, f, g⟩; exact ⟨a, b, c, e, d, f, g⟩
    · rintro ⟨a, b, c, d, e, f, g⟩; exact ⟨a, b, c, e, d, f, g⟩
  have hex : (∃ e, firstFails (Holds (ctx2 s v cso csn)) renameChecks e) ↔ ¬ Allowed (ctx2 s v cso csn) .rename := by
    rw [hperm]
    exact ⟨fun ⟨e, he⟩ hall => firstFails_of_all _ _ e hall he, exists_firstFails_of_not_all _ _⟩
  have herr : ∀ e, firstFails (Holds (ctx2 s v cso csn)) renameChecks e → e = .EACCES ∨ e = .EPERM := by
    intro e he
    obtain ⟨n, hn, _, hne⟩ := firstFails_mem _ _ _ he
    rw [← hne]
    simp only [renameChecks, List.mem_cons, List.mem_nil_iff, or_false] at hn
    rcases hn with rfl | rfl | rfl | rfl | rfl | rfl | rfl <;> simp [needSearch]
  constructor
  · rw [← hex]
    constructor
    · rintro (h' | h')
      · exact ⟨_, (h.1 _ (Or.inl rfl)).mp h'⟩
      · exact ⟨_, (h.1 _ (Or.inr rfl)).mp h'⟩
    · rintro ⟨e, he⟩
      rcases herr e he with rfl | rfl
      · exact Or.inl ((h.1 _ (Or.inl rfl)).mpr he)
      · exact Or.inr ((h.1 _ (Or.inr rfl)).mpr he)
  · rintro (h' | h')
    · exact h.2 _ ((h.1 _ (Or.inl rfl)).mp h')
    · exact h.2 _ ((h.1 _ (Or.inr rfl)).mp h')

/-! ### MkdirAll -/

theorem firstMissing_not_dir (s : Store) (i : Ino) (rest : List Bytes) (h : ∀ m ch, s.get i ≠ some (.dir m ch)) :
    firstMissing s i rest = none := by
  cases rest with
  | nil => rfl
  | cons c cs =>
    rw [firstMissing]
    split
    · rename_i m ch hg; exact absurd hg (h m ch)
    · rfl

/-- the descent of MkdirAll and the permission-blind `firstMissing` name the same first missing component -/
theorem firstMissing_of_mkWalk (s : Store) (v : View) : ∀ (cs : List Bytes) (d d' : Ino) (todo : List Bytes),
    mkWalk s v d cs = .missing d' todo → firstMissing s d cs = some (d', todo) := by
  intro cs
  induction cs with
  | nil => intro d d' todo h; simp [mkWalk] at h
  | cons c rest ih =>
    intro d d' todo h
    simp only [mkWalk] at h
    simp only [firstMissing]
    split at h
    · rename_i m chd hgd
      simp only [hgd]
      split at h
      · cases h
      · split at h
        · rename_i hch
          cases h
          simp [hch]
        · rename_i i hch
          simp only [hch]
          split at h
          · exact ih i d' todo h
          · cases h
          · cases h
    · cases h

theorem firstMissing_none_of_mkWalk (s : Store) (v : View) : ∀ (cs : List Bytes) (d : Ino),
    (mkWalk s v d cs = .isDir ∨ mkWalk s v d cs = .isFile) → firstMissing s d cs = none := by
  intro cs
  induction cs with
  | nil => intro d _; rfl
  | cons c rest ih =>
    intro d h
    simp only [mkWalk] at h
    simp only [firstMissing]
    split at h
    · rename_i m chd hgd
      simp only [hgd]
      split at h
      · rcases h with h | h <;> cases h
      · split at h
        · rcases h with h | h <;> cases h
        · rename_i i hch
          simp only [hch]
          split at h
          · exact ih i h
          · rename_i mf df nl id hg
            exact firstMissing_not_dir s i rest (fun m ch hg' => by rw [hg] at hg'; cases hg')
          · rcases h with h | h <;> cases h
    · rcases h with h | h <;> cases h

/-- MkdirAll, when the directories it makes let their maker write and search them (`hcorner`, needed only when two or
    more components are missing; without it MemFS makes the whole chain where mkdir -p fails on the second directory:
    `mkdirAll_corner_unwritable`): EACCES iff a directory of the path prefix may not be searched or a directory that
    receives a new entry — i.e. the directory holding the first missing component — may not be written and searched.
    Never EPERM. -/
theorem mkdirAll_denied_iff (s : Store) (root : Ino) (v : View) (hwf : WF s root)
    (hvr : ∃ m ch, s.get v.root = some (.dir m ch)) (cs : List Bytes)
    (hall : ∀ c ∈ cs, c ≠ [] ∧ ∀ x ∈ c, x ≠ SL) (hdots : ∀ c ∈ cs, c ≠ [DOT] ∧ c ≠ [DOT, DOT]) (perm : Nat)
    (hcorner : walkPath s v v.root cs = .missingDir → checkPerm (newDirMeta v perm) (omWrite ||| omLookup) v = true)
    (hlf : walkPath s v v.root cs ≠ .viaLink) :
    DecidedBy (ctxM s v cs perm) .mkdirAll s (mkdirAll s v (SL :: joinWith SL cs) perm) := by
  have hA := mkdirAll_mkWalk s root v hwf hvr cs hall hdots perm
  obtain ⟨mr, chr, hgr⟩ := hvr
  have hW := mkWalk_of_walkPath (v := v) hwf cs v.root (isDirAt_of_get hgr)
  by_cases hsa : searchAllowed s v v.root cs = true
  · rw [walkPath_of_allowed hsa] at hW hlf hcorner
    -- the case of a missing component, in the directory `d'`
    have hmiss : ∀ d' todo, mkWalk s v v.root cs = .missing d' todo →
        (todo.length ≥ 2 → mayMeta (newDirMeta v perm) v false true true = true) →
        DecidedBy (ctxM s v cs perm) .mkdirAll s (mkdirAll s v (SL :: joinWith SL cs) perm) := by
      intro d' todo hmw hnew
      have hfm := firstMissing_of_mkWalk s v cs v.root d' todo hmw
      obtain ⟨_, _, hdir⟩ := mkWalk_missing_suffix s v cs v.root d' todo hmw
      obtain ⟨m, ch, hgd⟩ := isDirAt_iff.mp hdir
      simp only [hmw] at hA
      rw [dirPerm_wx, may_dir hgd] at hA
      have hmetas : newParentMetas (ctxM s v cs perm) = m :: List.replicate (todo.length - 1) (newDirMeta v perm) := by
        simp [newParentMetas, ctxM, hfm, hgd, Node.meta]
      have hH : Holds (ctxM s v cs perm) ⟨.newParents, .bits false true true, .EACCES⟩ ↔
          mayMeta m v false true true = true := by
        rw [holds_newParents, hmetas]
        constructor
        · intro h; exact h m (by simp)
        · intro h m' hm'
          rcases List.mem_cons.mp hm' with rfl | hm'
          · exact h
          · obtain ⟨hn, rfl⟩ := List.mem_replicate.mp hm'
            exact hnew (by omega)
      have hS : Holds (ctxM s v cs perm) (needSearch .first) := (holds_search _ _).mpr hsa
      by_cases hp : mayMeta m v false true true = true
      · simp only [hp, if_true] at hA
        refine decided_of_allowed ?_ (by rw [hA]; simp) (by rw [hA]; simp)
        intro n hn
        simp only [needs, List.mem_cons, List.mem_nil_iff, or_false] at hn
        rcases hn with rfl | rfl
        · exact hS
        · exact hH.mpr hp
      · simp only [hp] at hA
        refine decided_of_refused (e := .EACCES) ?_ hA
        exact Or.inr ⟨hS, Or.inl ⟨fun h => hp (hH.mp h), rfl⟩⟩
    cases hR : lookupPath s v.root cs with
    | found par c =>
      simp only [hR] at hW
      have hfm : firstMissing s v.root cs = none := by
        apply firstMissing_none_of_mkWalk s v cs v.root
        rw [hW]
        cases isDirAt s c <;> simp
      have hout : (mkdirAll s v (SL :: joinWith SL cs) perm).2 ≠ .err .EACCES ∧
          (mkdirAll s v (SL :: joinWith SL cs) perm).2 ≠ .err .EPERM := by
        cases hd : isDirAt s c with
        | true => simp only [hd, if_true] at hW; simp only [hW] at hA; rw [hA]; simp
        | false => simp only [hd, Bool.false_eq_true, if_false] at hW; simp only [hW] at hA; rw [hA]; simp
      refine decided_of_allowed ?_ hout.1 hout.2
      table_simp [hsa, newParentMetas, hfm]
    | missingLast par name =>
      simp only [hR] at hW
      exact hmiss par [name] hW (fun h => by simp at h)
    | missingDir =>
      simp only [hR] at hW
      obtain ⟨d', c, c2, rest, hW⟩ := hW
      refine hmiss d' (c :: c2 :: rest) hW (fun _ => ?_)
      rw [← checkPerm_wx]
      exact hcorner hR
    | notDir =>
      simp only [hR] at hW
      have hfm : firstMissing s v.root cs = none :=
        firstMissing_none_of_mkWalk s v cs v.root (Or.inr hW)
      simp only [hW] at hA
      refine decided_of_allowed ?_ (by rw [hA]; simp) (by rw [hA]; simp)
      table_simp [hsa, newParentMetas, hfm]
    | denied => exact absurd hR (lookupPath_ne_denied s cs v.root)
    | viaLink => exact absurd hR hlf
  · have hsa' : searchAllowed s v v.root cs = false := by simpa using hsa
    rw [walkPath_of_refused hsa'] at hW
    simp only [] at hW
    simp only [hW] at hA
    refine decided_of_refused (e := .EACCES) ?_ hA
    table_simp [hsa']

/-! ### RemoveAll -/

/-- what RemoveAll of MemFS asks for when the path resolves to the entry `c` of the directory `par`:
    when `c` is a directory with entries, EVERY directory at or below `c` (the empty ones included) may be written and no
    entry inside is under restricted deletion; the directory `par` may be written and searched; the entry itself is not
    under restricted deletion -/
def RemoveAllGranted (s : Store) (v : View) (par c : Ino) : Prop :=
  (isNonEmptyDir s c = true → TreeWritable s v c ∧ TreeUnrestricted s v c) ∧
  may s v par false true true = true ∧ restrictedDeletion s v par c = false

theorem isDirAt_of_nonEmptyDir {s : Store} {c : Ino} (h : isNonEmptyDir s c = true) : isDirAt s c = true := by
  unfold isNonEmptyDir at h
  split at h
  · rename_i m ch hg; exact isDirAt_of_get hg
  · cases h

/-- RemoveAll: it is refused (EACCES or EPERM — which of the two, when something inside the tree is in the way, is the
    errno of the first obstacle met in name order) iff a directory of the path prefix may not be searched, or the path
    resolves to an entry for which `RemoveAllGranted` fails. A path that does not resolve is no error.
    With the precedence: search first (EACCES, nothing changes); then the tree; then the directory of the entry (EACCES),
    then the sticky rule for the entry (EPERM). -/
theorem removeAll_denied_iff (s : Store) (root : Ino) (v : View) (hwf : WF s root)
    (hvr : ∃ m ch, s.get v.root = some (.dir m ch)) (cs : List Bytes) (hne : cs ≠ [])
    (hall : ∀ c ∈ cs, c ≠ [] ∧ ∀ x ∈ c, x ≠ SL) (hdots : ∀ c ∈ cs, c ≠ [DOT] ∧ c ≠ [DOT, DOT])
    (hlf : walkPath s v v.root cs ≠ .viaLink) :
    (((removeAll s v (SL :: joinWith SL cs)).2 = .err .EACCES ∨ (removeAll s v (SL :: joinWith SL cs)).2 = .err .EPERM) ↔
      (searchAllowed s v v.root cs = false ∨
        ∃ par c, lookupPath s v.root cs = .found par c ∧ ¬ RemoveAllGranted s v par c)) ∧
    (searchAllowed s v v.root cs = false → removeAll s v (SL :: joinWith SL cs) = (s, .err .EACCES)) ∧
    (∀ par c, searchAllowed s v v.root cs = true → lookupPath s v.root cs = .found par c →
      (isNonEmptyDir s c = true → TreeWritable s v c ∧ TreeUnrestricted s v c) →
      ((removeAll s v (SL :: joinWith SL cs)).2 = .err .EACCES ↔ may s v par false true true = false) ∧
      ((removeAll s v (SL :: joinWith SL cs)).2 = .err .EPERM ↔
        (may s v par false true true = true ∧ restrictedDeletion s v par c = true))) := by
  have href := removeAll_posix_gen s root v hwf hvr cs hne hall hdots
  rw [walkPathL_eq_walkPath s v cs v.root hlf] at href
  by_cases hsa : searchAllowed s v v.root cs = true
  · rw [walkPath_of_allowed hsa] at href hlf
    cases hR : lookupPath s v.root cs with
    | found par c =>
      have hwx := may_wx_parent hne hsa (Or.inl ⟨c, hR⟩)
      simp only [hR, posixRemoveAll] at href
      obtain ⟨_, hfail, hok⟩ := href
      -- the outcome once the tree is out of the way
      have hafter : (isNonEmptyDir s c = true → TreeWritable s v c ∧ TreeUnrestricted s v c) →
          ((removeAll s v (SL :: joinWith SL cs)).2 = .err .EACCES ↔ may s v par false true true = false) ∧
          ((removeAll s v (SL :: joinWith SL cs)).2 = .err .EPERM ↔
            (may s v par false true true = true ∧ restrictedDeletion s v par c = true)) := by
        intro htree
        obtain ⟨s1, _, _, _, heq⟩ := hok htree
        rw [dirPerm_write, ← hwx] at heq
        by_cases hp : may s v par false true true = true
        · by_cases hst : restrictedDeletion s v par c = true
          · simp only [hp, hst, Bool.not_true, Bool.false_eq_true, if_false, if_true] at heq
            rw [heq]; simp [hp, hst]
          · have hst' : restrictedDeletion s v par c = false := by simpa using hst
            simp only [hp, hst', Bool.not_true, Bool.false_eq_true, if_false] at heq
            rw [heq]; simp [hp, hst']
        · have hp' : may s v par false true true = false := by simpa using hp
          simp only [hp', Bool.not_false, if_true] at heq
          rw [heq]; simp [hp']
      refine ⟨?_, fun h => (by rw [hsa] at h; cases h), fun par' c' _ h => ?_⟩
      · constructor
        · intro hden
          refine Or.inr ⟨par, c, rfl, fun hg => ?_⟩
          obtain ⟨ha, hb⟩ := hafter hg.1
          rcases hden with h | h
          · have := ha.mp h
            rw [hg.2.1] at this
            cases this
          · have := (hb.mp h).2
            rw [hg.2.2] at this
            cases this
        · rintro (h | ⟨par', c', h, hng⟩)
          · rw [hsa] at h; cases h
          · cases h
            by_cases htree : isNonEmptyDir s c = true → TreeWritable s v c ∧ TreeUnrestricted s v c
            · obtain ⟨ha, hb⟩ := hafter htree
              by_cases hp : may s v par false true true = true
              · by_cases hst : restrictedDeletion s v par c = true
                · exact Or.inr (hb.mpr ⟨hp, hst⟩)
                · exact absurd ⟨htree, hp, by simpa using hst⟩ hng
              · exact Or.inl (ha.mpr (by simpa using hp))
            · have hne' : isNonEmptyDir s c = true := by
                apply Classical.byContradiction
                intro h
                exact htree (fun h' => absurd h' h)
              obtain ⟨s1, e, he, heq, _, _⟩ := hfail hne' (fun h => htree (fun _ => h))
              rcases he with rfl | rfl
              · exact Or.inl (by rw [heq])
              · exact Or.inr (by rw [heq])
      · cases h
        exact hafter
    | missingLast par name =>
      simp only [hR, posixRemoveAll] at href
      refine ⟨?_, fun h => (by rw [hsa] at h; cases h), fun par' c' _ h => (by cases h)⟩
      rw [href]
      simp [hsa]
    | missingDir =>
      simp only [hR, posixRemoveAll] at href
      refine ⟨?_, fun h => (by rw [hsa] at h; cases h), fun par' c' _ h => (by cases h)⟩
      rw [href]
      simp [hsa]
    | notDir =>
      simp only [hR, posixRemoveAll] at href
      refine ⟨?_, fun h => (by rw [hsa] at h; cases h), fun par' c' _ h => (by cases h)⟩
      rw [href]
      simp [hsa]
    | denied => exact absurd hR (lookupPath_ne_denied s cs v.root)
    | viaLink => exact absurd hR hlf
  · have hsa' : searchAllowed s v v.root cs = false := by simpa using hsa
    rw [walkPath_of_refused hsa'] at href
    simp only [posixRemoveAll] at href
    refine ⟨?_, fun _ => href, fun par c h => (by rw [hsa'] at h; cases h)⟩
    rw [href]
    simp [hsa']

/-- RemoveAll and THE TABLE (`needs .removeAll`: search on the prefix; read, write and search on every directory WITH
    ENTRIES in the tree; the sticky rule inside; write and search on the directory of the entry; the sticky rule for the
    entry). MemFS deviates in both directions (`removeAll_corner_empty_subdir`, `removeAll_unreadable_dir`), so the table
    is sufficient only together with `hempty` — the EMPTY directories inside the tree may be written too — … -/
theorem removeAll_allowed_of_table (s : Store) (root : Ino) (v : View) (hwf : WF s root)
    (hvr : ∃ m ch, s.get v.root = some (.dir m ch)) (cs : List Bytes) (hne : cs ≠ [])
    (hall : ∀ c ∈ cs, c ≠ [] ∧ ∀ x ∈ c, x ≠ SL) (hdots : ∀ c ∈ cs, c ≠ [DOT] ∧ c ≠ [DOT, DOT])
    (hlf : walkPath s v v.root cs ≠ .viaLink)
    (htab : Allowed (ctx1 s v cs) .removeAll)
    (hempty : ∀ par c, lookupPath s v.root cs = .found par c → isNonEmptyDir s c = true →
      ∀ i, Desc s c i → isDirAt s i = true → isNonEmptyDir s i = false → may s v i false true false = true) :
    (removeAll s v (SL :: joinWith SL cs)).2 ≠ .err .EACCES ∧ (removeAll s v (SL :: joinWith SL cs)).2 ≠ .err .EPERM := by
  have h := (removeAll_denied_iff s root v hwf hvr cs hne hall hdots hlf).1
  have hsa : searchAllowed s v v.root cs = true := (holds_search (ctx1 s v cs) .first).mp (htab _ (by simp [needs]))
  have hnot : ¬ ((removeAll s v (SL :: joinWith SL cs)).2 = .err .EACCES ∨
      (removeAll s v (SL :: joinWith SL cs)).2 = .err .EPERM) := by
    rw [h]
    rintro (h' | ⟨par, c, hR, hng⟩)
    · rw [hsa] at h'; cases h'
    · apply hng
      have h1 := htab ⟨.tree, .bits true true true, .EACCES⟩ (by simp [needs])
      have h2 := htab ⟨.tree, .mayDelete, .EPERM⟩ (by simp [needs])
      have h3 := htab ⟨.entryParent .first, .bits false true true, .EACCES⟩ (by simp [needs])
      have h4 := htab ⟨.entryParent .first, .mayDelete, .EPERM⟩ (by simp [needs])
      simp only [holds_tree, holds_tree_mayDelete, holds_entryParent, holds_entryParent_mayDelete, ctx1, Ctx.res,
        Ctx.path, hR] at h1 h2 h3 h4
      refine ⟨fun hned => ⟨fun x hx hxd => ?_, h2⟩, h3, h4⟩
      rw [dirPerm_write]
      cases hx' : isNonEmptyDir s x with
      | true =>
        have := h1 x hx hx'
        rw [may_split] at this
        simp only [Bool.and_eq_true] at this
        exact this.1.2
      | false => exact hempty par c hR hned x hx hxd hx'
  exact ⟨fun h => hnot (Or.inl h), fun h => hnot (Or.inr h)⟩

/-- … and it is necessary only as far as WRITE permission goes: when RemoveAll is not refused, the table holds with
    "write" in the place of "read, write and search" for the directories inside the tree -/
theorem removeAll_table_of_allowed (s : Store) (root : Ino) (v : View) (hwf : WF s root)
    (hvr : ∃ m ch, s.get v.root = some (.dir m ch)) (cs : List Bytes) (hne : cs ≠ [])
    (hall : ∀ c ∈ cs, c ≠ [] ∧ ∀ x ∈ c, x ≠ SL) (hdots : ∀ c ∈ cs, c ≠ [DOT] ∧ c ≠ [DOT, DOT])
    (hlf : walkPath s v v.root cs ≠ .viaLink)
    (h1 : (removeAll s v (SL :: joinWith SL cs)).2 ≠ .err .EACCES)
    (h2 : (removeAll s v (SL :: joinWith SL cs)).2 ≠ .err .EPERM) :
    ∀ n ∈ [needSearch .first, ⟨.tree, .bits false true false, .EACCES⟩, ⟨.tree, .mayDelete, .EPERM⟩,
      ⟨.entryParent .first, .bits false true true, .EACCES⟩, ⟨.entryParent .first, .mayDelete, .EPERM⟩],
      Holds (ctx1 s v cs) n := by
  have h := (removeAll_denied_iff s root v hwf hvr cs hne hall hdots hlf).1
  have hnot : ¬ (searchAllowed s v v.root cs = false ∨
      ∃ par c, lookupPath s v.root cs = .found par c ∧ ¬ RemoveAllGranted s v par c) := by
    rw [← h]
    rintro (h' | h')
    · exact h1 h'
    · exact h2 h'
  have hsa : searchAllowed s v v.root cs = true := by
    cases hs : searchAllowed s v v.root cs with
    | true => rfl
    | false => exact absurd (Or.inl hs) hnot
  have hg : ∀ par c, lookupPath s v.root cs = .found par c → RemoveAllGranted s v par c := by
    intro par c hR
    apply Classical.byContradiction
    intro hng
    exact hnot (Or.inr ⟨par, c, hR, hng⟩)
  intro n hn
  simp only [List.mem_cons, List.mem_nil_iff, or_false] at hn
  rcases hn with rfl | rfl | rfl | rfl | rfl
  · exact (holds_search _ _).mpr hsa
  · simp only [holds_tree, ctx1, Ctx.res, Ctx.path]
    split
    · rename_i par c hR
      intro i hi hin
      have hgr := hg par c hR
      have hcne : isNonEmptyDir s c = true := by
        cases hc : isNonEmptyDir s c with
        | true => rfl
        | false =>
          have := Desc.of_not_dir (s := s) (c := c) (x := i) ?_ hi
          · subst this; rw [hc] at hin; cases hin
          · cases hd : isDirAt s c with
            | false => rfl
            | true =>
              exfalso
              have hno := no_edges_of_not_nonEmptyDir hc
              cases hi with
              | refl => rw [hc] at hin; cases hin
              | step d n c' hd' he =>
                -- `i` is below `c`, but `c` has no entries
                have : ∀ x, Desc s c x → x = c := by
                  intro x hx
                  induction hx with
                  | refl => rfl
                  | step d2 n2 c2 _ he2 ih => subst ih; exact absurd he2 (hno n2 c2)
                have hdc := this d hd'
                subst hdc
                exact hno n i he
      have := (hgr.1 hcne).1 i hi (isDirAt_of_nonEmptyDir hin)
      rw [dirPerm_write] at this
      exact this
    · trivial
  · simp only [holds_tree_mayDelete, ctx1, Ctx.res, Ctx.path]
    split
    · rename_i par c hR
      intro a n x ha he
      have hgr := hg par c hR
      have hcne : isNonEmptyDir s c = true := by
        cases hc : isNonEmptyDir s c with
        | true => rfl
        | false =>
          exfalso
          have hno := no_edges_of_not_nonEmptyDir hc
          have : ∀ y, Desc s c y → y = c := by
            intro y hy
            induction hy with
            | refl => rfl
            | step d2 n2 c2 _ he2 ih => subst ih; exact absurd he2 (hno n2 c2)
          have hac := this a ha
          subst hac
          exact hno n x he
      exact (hgr.1 hcne).2 a n x ha he
    · trivial
  · simp only [holds_entryParent, ctx1, Ctx.res, Ctx.path]
    split
    · rename_i par c hR; exact (hg par c hR).2.1
    · trivial
  · simp only [holds_entryParent_mayDelete, ctx1, Ctx.res, Ctx.path]
    split
    · rename_i par c hR; exact (hg par c hR).2.2
    · trivial

/-! ### reading aids: the refusals of the table spelled out, for three calls -/

theorem refused_mkdir_iff (s : Store) (v : View) (cs : List Bytes) (e : Err) :
    Refused (ctx1 s v cs) .mkdir e ↔
      (.EACCES = e ∧ (searchAllowed s v v.root cs = false ∨
        match lookupPath s v.root cs with
        | .missingLast par _ => may s v par false true true = false
        | _ => False)) := by
  cases hs : searchAllowed s v v.root cs <;> cases hR : lookupPath s v.root cs <;>
    table_simp [hs, hR, and_comm, and_left_comm]

theorem refused_remove_iff (s : Store) (v : View) (cs : List Bytes) (e : Err) :
    Refused (ctx1 s v cs) .remove e ↔
      ((.EACCES = e ∧ (searchAllowed s v v.root cs = false ∨
          match lookupPath s v.root cs with
          | .found par _ => may s v par false true true = false
          | _ => False)) ∨
       (.EPERM = e ∧ searchAllowed s v v.root cs = true ∧
          match lookupPath s v.root cs with
          | .found par c => may s v par false true true = true ∧ restrictedDeletion s v par c = true
          | _ => False)) := by
  cases hs : searchAllowed s v v.root cs <;> cases hR : lookupPath s v.root cs <;>
    table_simp [hs, hR, and_comm, and_left_comm]

theorem refused_chmod_iff (s : Store) (v : View) (cs : List Bytes) (e : Err) :
    Refused (ctx1 s v cs) .chmod e ↔
      ((.EACCES = e ∧ searchAllowed s v v.root cs = false) ∨
       (.EPERM = e ∧ searchAllowed s v v.root cs = true ∧
          match lookupPath s v.root cs with
          | .found _ c => ownerOrAdmin s v c = false
          | _ => False)) := by
  cases hs : searchAllowed s v v.root cs <;> cases hR : lookupPath s v.root cs <;>
    table_simp [hs, hR, and_comm, and_left_comm]

end Avfs.FS

/-! ## Part 3: `search_denied`, and the administrator is never refused -/

/-
  C03 (per call), continued:
  * `search_denied`: a directory of the path prefix that the caller may not search makes EVERY call on that path fail
    with EACCES and leaves the heap unchanged (one theorem over the `Call` enumeration of FS/Step.lean, through `step`;
    the statements per function are `<call>_search_denied`);
  * `<call>_admin_never_denied`: an administrator is never refused, whatever the modes on the tree — for ALL paths
    (relative ones, paths with symbolic links, unclean ones), directly from the model.
-/
set_option linter.unusedVariables false
set_option linter.unusedSimpArgs false

namespace Avfs.FS
open Avfs.Path

/-! ### 1. search_denied -/

section SearchDenied
variable (s : Store) (root : Ino) (v : View) (hwf : WF s root) (hvr : ∃ m ch, s.get v.root = some (.dir m ch))
  (cs : List Bytes) (hall : ∀ c ∈ cs, c ≠ [] ∧ ∀ x ∈ c, x ≠ SL) (hdots : ∀ c ∈ cs, c ≠ [DOT] ∧ c ≠ [DOT, DOT])
  (hden : searchAllowed s v v.root cs = false)

include hwf hvr hall hdots hden

/-- the walk of MemFS stops with EACCES, whatever the follow mode -/
theorem searchNode_acces (m : SlMode) : (searchNode s v (SL :: joinWith SL cs) m).err = .acces := by
  have h := searchNode_eq_walkPath_gen s root v hwf hvr cs hall hdots m
  rw [walkPath_of_refused hden] at h
  exact h

theorem mkdir_search_denied (perm : Nat) : mkdir s v (SL :: joinWith SL cs) perm = (s, .err .EACCES) := by
  have he := searchNode_acces s root v hwf hvr cs hall hdots hden .lstat
  simp [mkdir, he, SErr.toErr]

theorem mkdirAll_search_denied (perm : Nat) : mkdirAll s v (SL :: joinWith SL cs) perm = (s, .err .EACCES) := by
  have hA := mkdirAll_mkWalk s root v hwf hvr cs hall hdots perm
  obtain ⟨mr, chr, hgr⟩ := hvr
  have hW := mkWalk_of_walkPath (v := v) hwf cs v.root (isDirAt_of_get hgr)
  rw [walkPath_of_refused hden] at hW
  simp only [] at hW
  simp only [hW] at hA
  exact hA

theorem remove_search_denied : remove s v (SL :: joinWith SL cs) = (s, .err .EACCES) := by
  have he := searchNode_acces s root v hwf hvr cs hall hdots hden .lstat
  simp [remove, he, SErr.toErr]

theorem removeAll_search_denied : removeAll s v (SL :: joinWith SL cs) = (s, .err .EACCES) := by
  have he := searchNode_acces s root v hwf hvr cs hall hdots hden .lstat
  simp [removeAll, he, SErr.toErr]

theorem symlink_search_denied (old : Bytes) : symlink s v old (SL :: joinWith SL cs) = (s, .err .EACCES) := by
  have he := searchNode_acces s root v hwf hvr cs hall hdots hden .lstat
  simp [symlink, he, SErr.toErr]

theorem openFile_search_denied (vid flag perm : Nat) :
    openFile s v vid (SL :: joinWith SL cs) flag perm = (s, .error .EACCES) := by
  have he := searchNode_acces s root v hwf hvr cs hall hdots hden .eval
  simp [openFile, he, SErr.toErr]

theorem truncate_search_denied (size : Int) (hsize : 0 ≤ size ∧ size ≤ maxFileSize) :
    truncate s v (SL :: joinWith SL cs) size = (s, .err .EACCES) := by
  have he := searchNode_acces s root v hwf hvr cs hall hdots hden .eval
  have hsz : (size < 0 || size > (maxFileSize : Int)) = false := by
    simp only [Bool.or_eq_false_iff, decide_eq_false_iff_not, Int.not_lt, gt_iff_lt]
    exact ⟨hsize.1, hsize.2⟩
  simp [truncate, hsz, he, SErr.toErr]

theorem chmod_search_denied (mode : Nat) : chmod s v (SL :: joinWith SL cs) mode = (s, .err .EACCES) := by
  have he := searchNode_acces s root v hwf hvr cs hall hdots hden .eval
  simp [chmod, he, SErr.toErr]

theorem chtimes_search_denied (mtime : Int) : chtimes s v (SL :: joinWith SL cs) mtime = (s, .err .EACCES) := by
  have he := searchNode_acces s root v hwf hvr cs hall hdots hden .eval
  simp [chtimes, he, SErr.toErr]

theorem stat_search_denied (m : SlMode) : stat s v (SL :: joinWith SL cs) m = (s, .err .EACCES) := by
  have he := searchNode_acces s root v hwf hvr cs hall hdots hden m
  simp [stat, he, SErr.toErr]

theorem readlink_search_denied : readlink s v (SL :: joinWith SL cs) = (s, .err .EACCES) := by
  have he := searchNode_acces s root v hwf hvr cs hall hdots hden .lstat
  simp [readlink, he, SErr.toErr]

theorem evalSymlinks_search_denied : evalSymlinks s v (SL :: joinWith SL cs) = (s, .err .EACCES) := by
  have he := searchNode_acces s root v hwf hvr cs hall hdots hden .eval
  simp [evalSymlinks, he, SErr.toErr]

theorem chdir_search_denied : chdir s v (SL :: joinWith SL cs) = (v, .err .EACCES) := by
  have he := searchNode_acces s root v hwf hvr cs hall hdots hden .eval
  simp [chdir, he, SErr.toErr]

theorem sub_search_denied : sub s v (SL :: joinWith SL cs) = .error .EACCES := by
  have he := searchNode_acces s root v hwf hvr cs hall hdots hden .eval
  simp [sub, he, SErr.toErr]

theorem readDir_search_denied (vid : Nat) : readDir s v vid (SL :: joinWith SL cs) = .err .EACCES := by
  have ho := openFile_search_denied s root v hwf hvr cs hall hdots hden vid 0 0
  simp [readDir, ho]

theorem readFile_search_denied (vid : Nat) : readFile s v vid (SL :: joinWith SL cs) = .err .EACCES := by
  have ho := openFile_search_denied s root v hwf hvr cs hall hdots hden vid 0 0
  simp [readFile, ho]

/-- Rename, Link: the OLD path is resolved first -/
theorem rename_search_denied (new : Bytes) : rename s v (SL :: joinWith SL cs) new = (s, .err .EACCES) := by
  have he := searchNode_acces s root v hwf hvr cs hall hdots hden .lstat
  simp [rename, he, SErr.toErr]

theorem link_search_denied (new : Bytes) : link s v (SL :: joinWith SL cs) new = (s, .err .EACCES) := by
  have he := searchNode_acces s root v hwf hvr cs hall hdots hden .lstat
  simp [link, he, SErr.toErr]

/-- … and the NEW path next: when the old path resolves, a directory of the prefix of the new path that may not be
    searched is EACCES -/
theorem rename_search_denied_new (old : Bytes) (ho : (searchNode s v old .lstat).err = .exists) :
    rename s v old (SL :: joinWith SL cs) = (s, .err .EACCES) := by
  have he := searchNode_acces s root v hwf hvr cs hall hdots hden .lstat
  simp [rename, ho, he, SErr.toErr]

theorem link_search_denied_new (old : Bytes) (oc : Ino) (ho : (searchNode s v old .lstat).err = .exists)
    (hoc : (searchNode s v old .lstat).child = some oc) :
    link s v old (SL :: joinWith SL cs) = (s, .err .EACCES) := by
  have he := searchNode_acces s root v hwf hvr cs hall hdots hden .lstat
  simp [link, ho, hoc, he, SErr.toErr]

end SearchDenied

/-- the path a call resolves FIRST, for the calls that start by resolving a path given as argument. Not listed:
    Chown / Lchown (whoever is not administrator is refused with EPERM before the path is looked at, `chown_user`, and an
    administrator may search everything), Truncate of a length out of range (EINVAL first), the temp-file calls (they
    compute the name), Getwd, SetUser / SetUMask and the handle operations. -/
def Call.firstPath : Call → Option Bytes
  | .mkdir p _ => some p
  | .mkdirAll p _ => some p
  | .openFile p _ _ => some p
  | .create p => some p
  | .remove p => some p
  | .removeAll p => some p
  | .rename o _ => some o
  | .link o _ => some o
  | .symlink _ n => some n
  | .truncate p sz => if 0 ≤ sz ∧ sz ≤ maxFileSize then some p else none
  | .chmod p _ => some p
  | .chtimes p _ => some p
  | .chdir p => some p
  | .stat p => some p
  | .lstat p => some p
  | .readDir p => some p
  | .readFile p => some p
  | .readlink p => some p
  | .evalSymlinks p => some p
  | .writeFile p _ _ => some p
  | .sub p => some p
  | _ => none

/-- SEARCH DENIED, over the `Call` enumeration: if some directory in which a component of the path is looked up may
    not be searched by the caller, then every call that resolves that path first fails with EACCES and leaves the heap
    (the views and the handles too) as it was.
    `searchAllowed … = false` says: some `i ∈ lookupDirs …` has `dac … (x) = false` (`searchAllowed_false_iff`). -/
theorem search_denied (st : FSState) (vid : Nat) (v : View) (root : Ino) (hv : st.view vid = some v)
    (hwf : WF st.store root) (hvr : ∃ m ch, st.store.get v.root = some (.dir m ch))
    (cs : List Bytes) (hall : ∀ c ∈ cs, c ≠ [] ∧ ∀ x ∈ c, x ≠ SL) (hdots : ∀ c ∈ cs, c ≠ [DOT] ∧ c ≠ [DOT, DOT])
    (c : Call) (hp : c.firstPath = some (SL :: joinWith SL cs))
    (hden : searchAllowed st.store v v.root cs = false) :
    (step st vid c).2 = .err .EACCES ∧ (step st vid c).1.store = st.store ∧
    (step st vid c).1.handles = st.handles ∧ (step st vid c).1.view vid = some v := by
  rw [step_some st vid v c hv]
  cases c <;> simp only [Call.firstPath] at hp <;> try (cases hp)
  case mkdir =>
    simp [stepV, withStore, mkdir_search_denied st.store root v hwf hvr cs hall hdots hden, hv]
  case mkdirAll =>
    simp [stepV, withStore, mkdirAll_search_denied st.store root v hwf hvr cs hall hdots hden, hv]
  case openFile =>
    simp [stepV, registerHandle, openFile_search_denied st.store root v hwf hvr cs hall hdots hden, hv,
      FSState.view]
    exact hv
  case create =>
    simp [stepV, registerHandle, openFile_search_denied st.store root v hwf hvr cs hall hdots hden, hv,
      FSState.view]
    exact hv
  case remove =>
    simp [stepV, withStore, remove_search_denied st.store root v hwf hvr cs hall hdots hden, hv]
  case removeAll =>
    simp [stepV, withStore, removeAll_search_denied st.store root v hwf hvr cs hall hdots hden, hv]
  case rename =>
    simp [stepV, withStore, rename_search_denied st.store root v hwf hvr cs hall hdots hden, hv]
  case link =>
    simp [stepV, withStore, link_search_denied st.store root v hwf hvr cs hall hdots hden, hv]
  case symlink =>
    simp [stepV, withStore, symlink_search_denied st.store root v hwf hvr cs hall hdots hden, hv]
  case truncate p sz =>
    split at hp
    · rename_i hsz
      cases hp
      simp [stepV, withStore, truncate_search_denied st.store root v hwf hvr cs hall hdots hden sz hsz, hv]
    · cases hp
  case chmod =>
    simp [stepV, withStore, chmod_search_denied st.store root v hwf hvr cs hall hdots hden, hv]
  case chtimes =>
    simp [stepV, withStore, chtimes_search_denied st.store root v hwf hvr cs hall hdots hden, hv]
  case chdir =>
    simp [stepV, chdir_search_denied st.store root v hwf hvr cs hall hdots hden, FSState.setView, FSState.view,
      AL.lookup_insert_eq]
  case stat =>
    simp [stepV, withStore, stat_search_denied st.store root v hwf hvr cs hall hdots hden, hv]
  case lstat =>
    simp [stepV, withStore, stat_search_denied st.store root v hwf hvr cs hall hdots hden, hv]
  case readDir =>
    simp [stepV, readDir_search_denied st.store root v hwf hvr cs hall hdots hden, hv]
  case readFile =>
    simp [stepV, readFile_search_denied st.store root v hwf hvr cs hall hdots hden, hv]
  case readlink =>
    simp [stepV, withStore, readlink_search_denied st.store root v hwf hvr cs hall hdots hden, hv]
  case evalSymlinks =>
    simp [stepV, withStore, evalSymlinks_search_denied st.store root v hwf hvr cs hall hdots hden, hv]
  case writeFile =>
    simp [stepV, writeFileV, openFile_search_denied st.store root v hwf hvr cs hall hdots hden, hv, FSState.view]
    exact hv
  case sub =>
    simp [stepV, sub_search_denied st.store root v hwf hvr cs hall hdots hden, hv]

/-- what `searchAllowed … = false` says: one of the directories a component is looked up in refuses search (x) to the
    caller by the DAC rule -/
theorem searchAllowed_false_iff (s : Store) (v : View) (d : Ino) (cs : List Bytes) :
    searchAllowed s v d cs = false ↔ ∃ i ∈ lookupDirs s d cs, may s v i false false true = false := by
  simp [searchAllowed]

/-! ### 2. the administrator is never refused — for ALL paths -/

theorem checkPerm_adm {v : View} (ha : v.admin = true) (m : Meta) (w : Nat) : checkPerm m w v = true := by
  simp [checkPerm, ha]

/-- the walk never answers EACCES to an administrator -/
theorem searchLoop_admin {s : Store} {v : View} (ha : v.admin = true) (mode : SlMode) (vol : Ino) :
    ∀ (fuel : Nat) (parent : Ino) (it : Iter) (sl : Nat) (saved : Option Iter),
      (searchLoop s v mode vol fuel parent it sl saved).err ≠ .acces := by
  intro fuel
  induction fuel with
  | zero => intro parent it sl saved; rw [searchLoop]; simp
  | succ fuel ih =>
    intro parent it sl saved
    rw [searchLoop]
    simp only [checkPerm_adm ha]
    repeat' split
    all_goals first
      | exact ih _ _ _ _
      | (simp; done)
      | (rename_i h; simp at h; done)

theorem searchNode_admin {s : Store} {v : View} (ha : v.admin = true) (p : Bytes) (m : SlMode) :
    (searchNode s v p m).err ≠ .acces := searchLoop_admin ha m v.root _ _ _ _ _

theorem toErr_not_denied {e : SErr} (h : e ≠ .acces) : e.toErr ≠ .EACCES ∧ e.toErr ≠ .EPERM := by
  cases e <;> simp [SErr.toErr] at h ⊢

theorem dirPerm_adm {s : Store} {v : View} (ha : v.admin = true) {d : Ino} (hd : isDirAt s d = true) (w : Nat) :
    dirPerm s d w v = true := by
  obtain ⟨m, ch, hg⟩ := isDirAt_iff.mp hd
  simp [dirPerm, hg, checkPerm_adm ha]

theorem restricted_adm {s : Store} {v : View} (ha : v.admin = true) (a b : Ino) :
    restrictedDeletion s v a b = false := by
  unfold restrictedDeletion
  split <;> simp [ha]

section Admin
variable (s : Store) (root : Ino) (v : View) (hwf : WF s root) (hv : ViewOK s v) (ha : v.admin = true)
include hwf hv ha

theorem mkdir_admin_never_denied (p : Bytes) (perm : Nat) :
    (mkdir s v p perm).2 ≠ .err .EACCES ∧ (mkdir s v p perm).2 ≠ .err .EPERM := by
  have hd := dirPerm_adm ha (search_post hwf hv p .lstat).1.parentDir (omWrite ||| omLookup)
  have he := toErr_not_denied (searchNode_admin (s := s) ha p .lstat)
  unfold mkdir
  simp only [hd, Bool.not_true, Bool.false_eq_true, if_false]
  repeat' split
  all_goals simp [he.1, he.2]

theorem mkdirAll_admin_never_denied (p : Bytes) (perm : Nat) :
    (mkdirAll s v p perm).2 ≠ .err .EACCES ∧ (mkdirAll s v p perm).2 ≠ .err .EPERM := by
  have hd := dirPerm_adm ha (search_post hwf hv p .eval).1.parentDir (omWrite ||| omLookup)
  have he := toErr_not_denied (searchNode_admin (s := s) ha p .eval)
  unfold mkdirAll
  simp only [hd, Bool.not_true, Bool.false_eq_true, if_false]
  repeat' split
  all_goals simp [he.1, he.2]

theorem remove_admin_never_denied (p : Bytes) :
    (remove s v p).2 ≠ .err .EACCES ∧ (remove s v p).2 ≠ .err .EPERM := by
  have hd := dirPerm_adm ha (search_post hwf hv p .lstat).1.parentDir omWrite
  have he := toErr_not_denied (searchNode_admin (s := s) ha p .lstat)
  unfold remove
  simp only [hd, restricted_adm ha, Bool.not_true, Bool.false_eq_true, if_false]
  repeat' split
  all_goals simp_all [SErr.toErr]

theorem symlink_admin_never_denied (old new : Bytes) :
    (symlink s v old new).2 ≠ .err .EACCES ∧ (symlink s v old new).2 ≠ .err .EPERM := by
  have hd := dirPerm_adm ha (search_post hwf hv new .lstat).1.parentDir omWrite
  have he := toErr_not_denied (searchNode_admin (s := s) ha new .lstat)
  unfold symlink
  simp only [hd, Bool.not_true, Bool.false_eq_true, if_false]
  repeat' split
  all_goals simp [he.1, he.2]

theorem openFile_admin_err (vid : Nat) (p : Bytes) (flag perm : Nat) (e : Err)
    (h : (openFile s v vid p flag perm).2 = .error e) : e ≠ .EACCES ∧ e ≠ .EPERM := by
  have hd := dirPerm_adm ha (search_post hwf hv p .eval).1.parentDir (omWrite ||| omLookup)
  have he := toErr_not_denied (searchNode_admin (s := s) ha p .eval)
  have hcw := toOpenMode_create_write flag
  revert h
  unfold openFile
  simp only [hd, checkPerm_adm ha, Bool.not_true, Bool.false_eq_true, if_false, Bool.or_false]
  repeat' split
  all_goals (intro h; simp at h <;> (try subst h) <;> simp_all [SErr.toErr])

theorem openFile_admin_never_denied (vid : Nat) (p : Bytes) (flag perm : Nat) :
    (openOut (openFile s v vid p flag perm)).2 ≠ .err .EACCES ∧
    (openOut (openFile s v vid p flag perm)).2 ≠ .err .EPERM := by
  unfold openOut
  cases h : (openFile s v vid p flag perm).2 with
  | error e =>
    have := openFile_admin_err s root v hwf hv ha vid p flag perm e h
    simp [this.1, this.2]
  | ok hd => simp

omit hwf hv in
theorem truncate_admin_never_denied (p : Bytes) (size : Int) :
    (truncate s v p size).2 ≠ .err .EACCES ∧ (truncate s v p size).2 ≠ .err .EPERM := by
  have he := toErr_not_denied (searchNode_admin (s := s) ha p .eval)
  unfold truncate
  simp only [checkPerm_adm ha, Bool.not_true, Bool.false_eq_true, if_false]
  repeat' split
  all_goals simp [he.1, he.2]

omit hwf hv in
theorem chown_admin_never_denied (p : Bytes) (uid gid : Int) (m : SlMode) :
    (chown s v p uid gid m).2 ≠ .err .EACCES ∧ (chown s v p uid gid m).2 ≠ .err .EPERM := by
  have he := toErr_not_denied (searchNode_admin (s := s) ha p m)
  unfold chown
  simp only [ha, Bool.not_true, Bool.false_eq_true, if_false]
  repeat' split
  all_goals simp_all [SErr.toErr]

omit hwf hv in
theorem chtimes_admin_never_denied (p : Bytes) (mtime : Int) :
    (chtimes s v p mtime).2 ≠ .err .EACCES ∧ (chtimes s v p mtime).2 ≠ .err .EPERM := by
  have he := toErr_not_denied (searchNode_admin (s := s) ha p .eval)
  unfold chtimes
  simp only [ha, Bool.not_true, Bool.and_false, Bool.false_eq_true, if_false]
  repeat' split
  all_goals simp_all [SErr.toErr]

omit hwf hv in
theorem stat_admin_never_denied (p : Bytes) (m : SlMode) :
    (stat s v p m).2 ≠ .err .EACCES ∧ (stat s v p m).2 ≠ .err .EPERM := by
  have he := toErr_not_denied (searchNode_admin (s := s) ha p m)
  unfold stat
  simp only []
  repeat' split
  all_goals simp_all [SErr.toErr]

omit hwf hv in
theorem readlink_admin_never_denied (p : Bytes) :
    (readlink s v p).2 ≠ .err .EACCES ∧ (readlink s v p).2 ≠ .err .EPERM := by
  have he := toErr_not_denied (searchNode_admin (s := s) ha p .lstat)
  unfold readlink
  simp only []
  repeat' split
  all_goals simp [he.1, he.2]

theorem rename_admin_never_denied (old new : Bytes) :
    (rename s v old new).2 ≠ .err .EACCES ∧ (rename s v old new).2 ≠ .err .EPERM := by
  have hd1 := dirPerm_adm ha (search_post hwf hv old .lstat).1.parentDir omWrite
  have hd2 := dirPerm_adm ha (search_post hwf hv new .lstat).1.parentDir omWrite
  have he1 := toErr_not_denied (searchNode_admin (s := s) ha old .lstat)
  have he2 := toErr_not_denied (searchNode_admin (s := s) ha new .lstat)
  unfold rename
  simp only [hd1, hd2, restricted_adm ha, Bool.not_true, Bool.false_eq_true, if_false, Bool.and_false]
  repeat' split
  all_goals simp_all [SErr.toErr]

/-- Link: never EACCES; EPERM only for a source that is no regular file (a directory: EPERM for everybody, as link(2)) -/
theorem link_admin_never_denied (old new : Bytes) :
    (link s v old new).2 ≠ .err .EACCES ∧
    ((link s v old new).2 = .err .EPERM →
      ∃ oc, (searchNode s v old .lstat).child = some oc ∧ ∀ m d nl id, s.get oc ≠ some (.file m d nl id)) := by
  have hd2 := dirPerm_adm ha (search_post hwf hv new .lstat).1.parentDir omWrite
  have he1 := toErr_not_denied (searchNode_admin (s := s) ha old .lstat)
  have he2 := toErr_not_denied (searchNode_admin (s := s) ha new .lstat)
  unfold link
  simp only [hd2, Bool.not_true, Bool.false_eq_true, if_false]
  repeat' split
  all_goals simp_all [SErr.toErr]

end Admin

/-- outside the lstat mode the walk never hands back a symbolic link as the node found -/
theorem searchLoop_nosym {s : Store} {v : View} {mode : SlMode} (hm : mode ≠ .lstat) (vol : Ino)
    (hvol : ∀ m l, s.get vol ≠ some (.symlink m l)) :
    ∀ (fuel : Nat) (parent : Ino) (it : Iter) (sl : Nat) (saved : Option Iter),
      (∀ m l, s.get parent ≠ some (.symlink m l)) →
      ∀ c, (searchLoop s v mode vol fuel parent it sl saved).err = .exists →
        (searchLoop s v mode vol fuel parent it sl saved).child = some c → ∀ m l, s.get c ≠ some (.symlink m l) := by
  intro fuel
  induction fuel with
  | zero => intro parent it sl saved _ c he; rw [searchLoop] at he; simp at he
  | succ fuel ih =>
    intro parent it sl saved hpar c
    rw [searchLoop]
    simp only []
    repeat' split
    all_goals first
      | (intro he; simp at he; done)
      | (intro _ hc; simp at hc; subst hc; first | exact hpar | (intro m l hg; simp_all))
      | (apply ih; first | exact hpar | (intro m l hg; simp_all) | (split <;> assumption))

theorem searchNode_nosym {s : Store} {v : View} {mode : SlMode} (hm : mode ≠ .lstat)
    (hroot : isDirAt s v.root = true) (p : Bytes) (c : Ino)
    (he : (searchNode s v p mode).err = .exists) (hc : (searchNode s v p mode).child = some c) :
    ∀ m l, s.get c ≠ some (.symlink m l) := by
  have hvol : ∀ m l, s.get v.root ≠ some (.symlink m l) := by
    intro m l h
    obtain ⟨md, ch, hg⟩ := isDirAt_iff.mp hroot
    rw [hg] at h; cases h
  exact searchLoop_nosym hm v.root hvol _ _ _ _ _ hvol c he hc

section Admin2
variable (s : Store) (root : Ino) (v : View) (hwf : WF s root) (hv : ViewOK s v) (ha : v.admin = true)
include hwf hv ha

omit hwf in
theorem chmod_admin_never_denied (p : Bytes) (mode : Nat) :
    (chmod s v p mode).2 ≠ .err .EACCES ∧ (chmod s v p mode).2 ≠ .err .EPERM := by
  have he := toErr_not_denied (searchNode_admin (s := s) ha p .eval)
  have hns := searchNode_nosym (s := s) (v := v) (mode := .eval) (by decide) hv.rootDir p
  unfold chmod
  simp only []
  split
  · rename_i c hee hcc
    have hns' := hns c hee hcc
    split
    · rename_i n hg
      cases n with
      | symlink ms lk => exact absurd hg (hns' ms lk)
      | dir md chd => simp [setMode, ha]
      | file mf df nl id => simp [setMode, ha]
    · simp
  · simp [he.1, he.2]

theorem readDir_admin_never_denied (vid : Nat) (p : Bytes) :
    readDir s v vid p ≠ .err .EACCES ∧ readDir s v vid p ≠ .err .EPERM := by
  unfold readDir
  cases h : openFile s v vid p 0 0 with
  | mk s1 r =>
    cases r with
    | error e =>
      have := openFile_admin_err s root v hwf hv ha vid p 0 0 e (by rw [h])
      simp [this.1, this.2]
    | ok hd =>
      simp only []
      unfold fileStep
      simp only []
      repeat' split
      all_goals simp_all

theorem removeAll_admin_never_denied (p : Bytes) :
    (removeAll s v p).2 ≠ .err .EACCES ∧ (removeAll s v p).2 ≠ .err .EPERM := by
  have hpost := (search_post hwf hv p .lstat).1
  have he := toErr_not_denied (searchNode_admin (s := s) ha p .lstat)
  cases hp : p with
  | nil => simp [removeAll]
  | cons p0 ps =>
    rw [← hp]
    have hpne : p ≠ [] := by rw [hp]; simp
    have hpe : p.isEmpty = false := by rw [hp]; rfl
    cases herr : (searchNode s v p .lstat).err with
    | «exists» =>
      obtain ⟨c, hc, halloc⟩ := hpost.existsChild herr
      by_cases hcp : c = (searchNode s v p .lstat).parent
      · have : (c == (searchNode s v p .lstat).parent) = true := by simp [hcp]
        simp [removeAll, hpe, herr, hc, this]
      · rw [removeAll_found s v p _ c _ hpne herr hc rfl rfl hcp]
        by_cases hned : isNonEmptyDir s c = true
        · simp only [hned, if_true]
          have hnone := (removeAllRec_err root v s.next s c hwf (isDirAt_of_nonEmptyDir hned) (descCount_le s c)).1
            ⟨treeWritable_admin s v c ha, treeUnrestricted_admin s v c ha⟩
          have hk := keeps_removeAllRec v s.next s c
          generalize removeAllRec v s.next s c = r at hnone hk
          obtain ⟨s1, e⟩ := r
          simp only at hnone hk
          subst hnone
          simp only [hk.dirPerm, dirPerm_adm ha hpost.parentDir, restricted_adm ha, Bool.not_true, Bool.false_eq_true,
            if_false]
          simp
        · have hned' : isNonEmptyDir s c = false := by simpa using hned
          simp only [hned', Bool.false_eq_true, if_false]
          simp only [dirPerm_adm ha hpost.parentDir, restricted_adm ha, Bool.not_true, Bool.false_eq_true, if_false]
          simp
    | noent => simp [removeAll, hpe, herr]
    | acces => exact absurd herr (searchNode_admin ha p .lstat)
    | notdir => simp [removeAll, hpe, herr, SErr.toErr]
    | loop => simp [removeAll, hpe, herr, SErr.toErr]
    | panic => simp [removeAll, hpe, herr, SErr.toErr]

end Admin2

/-! ### 3. the table and the administrator: every requirement holds -/

theorem lookupPath_alloc {s : Store} {root : Ino} {v : View} (hwf : WF s root)
    (hvr : ∃ m ch, s.get v.root = some (.dir m ch)) (ha : v.admin = true) (cs : List Bytes) :
    (∀ par c, lookupPath s v.root cs = .found par c → (s.get par).isSome = true ∧ (s.get c).isSome = true) ∧
    (∀ par n, lookupPath s v.root cs = .missingLast par n → (s.get par).isSome = true) := by
  have hw := walkPath_of_allowed (searchAllowed_admin s v v.root cs ha)
  constructor
  · intro par c h
    have hw' := hw.trans h
    refine ⟨?_, (walkPath_found_node hwf hvr cs par c hw').1⟩
    cases cs with
    | nil =>
      simp only [walkPath] at hw'
      cases hw'
      obtain ⟨m, ch, hg⟩ := hvr
      simp [hg]
    | cons c0 rest =>
      obtain ⟨_, hpd, _⟩ := walkPath_found rest c0 v.root par c hw'
      obtain ⟨m, ch, hg⟩ := isDirAt_iff.mp hpd
      simp [hg]
  · intro par n h
    have hw' := hw.trans h
    cases cs with
    | nil => simp [walkPath] at hw'
    | cons c0 rest =>
      obtain ⟨_, _, hpd⟩ := walkPath_missingLast rest c0 v.root par n hw'
      obtain ⟨m, ch, hg⟩ := isDirAt_iff.mp hpd
      simp [hg]

/-- for an administrator EVERY requirement that the table can express holds, on every well-formed heap, whatever the
    modes and owners on the tree: so, by the `…_denied_iff` theorems, no call is refused -/
theorem holds_admin (c : Ctx) (root : Ino) (hwf : WF c.s root) (hd : c.d = c.v.root)
    (hvr : ∃ m ch, c.s.get c.v.root = some (.dir m ch)) (ha : c.v.admin = true) : ∀ n, Holds c n := by
  have hal := fun a => lookupPath_alloc hwf hvr ha (c.path a)
  have hres : ∀ a, c.res a = lookupPath c.s c.v.root (c.path a) := fun a => by rw [Ctx.res, hd]
  rintro ⟨o, p, e⟩
  cases o with
  | lookupDirs a =>
    cases p with
    | bits r w x =>
      intro i hi
      have h1 := searchAllowed_admin c.s c.v c.d (c.path a) ha
      have hx := searchAllowed_mem h1 hi
      unfold may at hx ⊢
      cases hg : c.s.get i with
      | none => simp [hg] at hx
      | some n => exact mayMeta_admin _ _ _ _ _ ha
    | _ => trivial
  | newParent a =>
    cases p with
    | bits r w x =>
      rw [holds_newParent, hres]
      split
      · rename_i par n h; exact may_admin _ _ _ _ _ _ ha ((hal a).2 par n h)
      · trivial
    | _ => trivial
  | entryParent a =>
    cases p with
    | bits r w x =>
      rw [holds_entryParent, hres]
      split
      · rename_i par ch h; exact may_admin _ _ _ _ _ _ ha ((hal a).1 par ch h).1
      · trivial
    | mayDelete =>
      rw [holds_entryParent_mayDelete]
      split
      · exact restricted_adm ha _ _
      · trivial
    | _ => trivial
  | parent a =>
    cases p with
    | bits r w x =>
      rw [holds_parent, hres]
      split
      · rename_i par ch h; exact may_admin _ _ _ _ _ _ ha ((hal a).1 par ch h).1
      · rename_i par n h; exact may_admin _ _ _ _ _ _ ha ((hal a).2 par n h)
      · trivial
    | _ => trivial
  | newParents =>
    cases p with
    | bits r w x => rw [holds_newParents]; intro m _; exact mayMeta_admin m _ _ _ _ ha
    | _ => trivial
  | node a =>
    cases p with
    | bits r w x =>
      rw [holds_node, hres]
      split
      · rename_i par ch h; exact may_admin _ _ _ _ _ _ ha ((hal a).1 par ch h).2
      · trivial
    | owner =>
      rw [holds_node_owner, hres]
      split
      · rename_i par ch h
        have := ((hal a).1 par ch h).2
        unfold ownerOrAdmin
        cases hg : c.s.get ch with
        | none => simp [hg] at this
        | some n => simp [ha]
      · trivial
    | capChown =>
      rw [holds_capChown]
      split
      · exact ha
      · trivial
    | linkable =>
      rw [holds_node_linkable, hres]
      split
      · rename_i par ch h; exact Or.inr (may_admin _ _ _ _ _ _ ha ((hal a).1 par ch h).2)
      · trivial
    | mayDelete => trivial
  | tree =>
    cases p with
    | bits r w x =>
      rw [holds_tree]
      split
      · intro i _ hi
        obtain ⟨m, ch, hg⟩ := isDirAt_iff.mp (isDirAt_of_nonEmptyDir hi)
        exact may_admin _ _ _ _ _ _ ha (by simp [hg])
      · trivial
    | mayDelete =>
      rw [holds_tree_mayDelete]
      split
      · intro a n x _ _; exact restricted_adm ha _ _
      · trivial
    | _ => trivial
  | movedDir =>
    cases p with
    | bits r w x =>
      rw [holds_movedDir]
      split
      · intro hdir _
        obtain ⟨m, ch, hg⟩ := isDirAt_iff.mp hdir
        exact may_admin _ _ _ _ _ _ ha (by simp [hg])
      · intro hdir _
        obtain ⟨m, ch, hg⟩ := isDirAt_iff.mp hdir
        exact may_admin _ _ _ _ _ _ ha (by simp [hg])
      · trivial
    | _ => trivial

theorem allowed_admin (c : Ctx) (k : CallKind) (root : Ino) (hwf : WF c.s root) (hd : c.d = c.v.root)
    (hvr : ∃ m ch, c.s.get c.v.root = some (.dir m ch)) (ha : c.v.admin = true) : Allowed c k :=
  fun n _ => holds_admin c root hwf hd hvr ha n

end Avfs.FS

/-! ## Part 4: deviations of MemFS from the table (witnesses) and non-vacuity examples -/

/-
  C03 (per call), continued: the table on concrete heaps.
  1. DEVIATIONS: the places where MemFS does not decide as the table `needs` (Linux) says — each a kernel-checked witness
     with its history, stated next to the table entry it concerns. They are the reason for the extra hypotheses of the
     `…_denied_iff` theorems.
  2. NON-VACUITY: the `…_denied_iff` theorems, `search_denied` and the administrator theorems instantiated for a plain
     user, a member of the owner's group and the administrator on a heap with group permissions.
-/
set_option linter.unusedVariables false
set_option linter.unusedSimpArgs false

namespace Avfs.FS
open Avfs.Path

theorem pxHvr : ∃ m ch, pxStore.get exView.root = some (.dir m ch) := get_of_isDirAt pxStore_wf.1.rootDir

/-! ### 1. deviations -/

/-- DEVIATION (known, `mkdirAll_corner_unwritable`): MkdirAll checks only the directory of the FIRST missing component.
    MkdirAll("/tmp/x/y", 0500) by the user 1000: the table (mkdir -p) needs write and search permission on every directory
    that receives a new entry — "/tmp" and the new "/tmp/x" (0500: not writable by its maker) — and refuses with EACCES;
    MemFS makes both directories. -/
theorem mkdirAll_first_parent_only :
    Refused (ctxM pxStore exView [cTmp, [120], [121]] 0o500) .mkdirAll .EACCES ∧
    mkdirAll pxStore exView [SL, 116, 109, 112, SL, 120, SL, 121] 0o500 =
      (mkChain exView 0o500 pxStore 3 [[120], [121]], .ok .unit) := by
  refine ⟨?_, mkdirAll_corner_unwritable.2.2.2⟩
  have hs : searchAllowed pxStore exView exView.root [cTmp, [120], [121]] = true := by decide +kernel
  have hm : newParentMetas ⟨pxStore, exView, exView.root, [cTmp, [120], [121]], [], 0o500⟩ =
      [⟨0o777, 0, 0, none⟩, newDirMeta exView 0o500] := by decide +kernel
  have h1 : mayMeta ⟨0o777, 0, 0, none⟩ exView false true true = true := by decide
  have h2 : mayMeta (newDirMeta exView 0o500) exView false true true = false := by decide
  table_simp [hs, hm, h1, h2]

/-- DEVIATION (known, `removeAll_corner_empty_subdir`): RemoveAll asks write permission of EMPTY directories inside the
    tree. RemoveAll("/tmp/d") by the user 1000: every requirement of the table holds ("/tmp/d", 0777, is the only
    directory with entries; "/tmp" is 0777 without sticky bit) — rm -rf succeeds — but MemFS answers EACCES because of
    the empty "/tmp/d/e" (0755 of the administrator). -/
theorem removeAll_empty_subdir_asked :
    Allowed (ctx1 pxStore exView [cTmp, [100]]) .removeAll ∧
    (removeAll pxStore exView [SL, 116, 109, 112, SL, 100]).2 = .err .EACCES := by
  refine ⟨?_, removeAll_corner_empty_subdir.2.2.2.2.1⟩
  have hs : searchAllowed pxStore exView exView.root [cTmp, [100]] = true := by decide +kernel
  have hR : lookupPath pxStore exView.root [cTmp, [100]] = .found 3 7 := by decide +kernel
  have hp : may pxStore exView 3 false true true = true := by decide +kernel
  have hst : restrictedDeletion pxStore exView 3 7 = false := by decide +kernel
  have hcl : (allEdges pxStore).all (fun (a, _, x) => !([7, 8] : List Ino).contains a || ([7, 8] : List Ino).contains x) = true := by
    decide +kernel
  have hmem := desc_mem_of_closed pxStore 7 [7, 8] (by decide) hcl
  have htu : TreeUnrestricted pxStore exView 7 :=
    treeUnrestricted_of_closed pxStore exView 7 [7, 8] (by decide) hcl (by decide +kernel)
  table_simp [hs, hR, hp, hst]
  refine ⟨?_, htu⟩
  intro i hi hne
  have := hmem i hi
  simp only [List.mem_cons, List.mem_nil_iff, or_false] at this
  rcases this with rfl | rfl
  · decide +kernel
  · revert hne; decide +kernel

/-- the heap of Lemmas/Posix.lean after, by the user 1000: Mkdir("/tmp/x", 0700), WriteFile("/tmp/x/f", 0644),
    Chmod("/tmp/x", 0200): "/tmp/x" (10) may be written by its owner, neither read nor searched; it holds "f" (11) -/
@[irreducible] def rmRStore : Store :=
  (run { initState with store := pxStore, views := [(0, exView)] } [
    (0, .mkdir [SL, 116, 109, 112, SL, 120] 0o700),
    (0, .writeFile [SL, 116, 109, 112, SL, 120, SL, 102] [1] 0o644),
    (0, .chmod [SL, 116, 109, 112, SL, 120] 0o200)]).1.store

theorem rmRStore_wf : WF rmRStore 0 ∧ NamesOK rmRStore := wfCheck_sound rmRStore 0 (by decide +kernel)

/-- DEVIATION (finding): RemoveAll asks neither read nor search permission of the directories inside the tree.
    "/tmp/x" has mode 0200 and holds the file "f". The table (rm -rf: the directory must be read to be listed and searched
    for its entries to be unlinked) refuses: EACCES. So does MemFS's own Remove("/tmp/x/f"): EACCES. But RemoveAll("/tmp/x")
    removes the file and the directory.
    History: memfs.New(); as user 1000 Mkdir("/tmp/x", 0700), WriteFile("/tmp/x/f", …), Chmod("/tmp/x", 0200),
    Remove("/tmp/x/f") = EACCES, RemoveAll("/tmp/x") = nil. -/
theorem removeAll_unreadable_dir :
    rmRStore.get 10 = some (.dir ⟨0o200, 1000, 1000, none⟩ [([102], 11)]) ∧
    Refused (ctx1 rmRStore exView [cTmp, [120]]) .removeAll .EACCES ∧
    remove rmRStore exView [SL, 116, 109, 112, SL, 120, SL, 102] = (rmRStore, .err .EACCES) ∧
    (removeAll rmRStore exView [SL, 116, 109, 112, SL, 120]).2 = .ok .unit := by
  have hvr : ∃ m ch, rmRStore.get exView.root = some (.dir m ch) := get_of_isDirAt rmRStore_wf.1.rootDir
  have hs : searchAllowed rmRStore exView exView.root [cTmp, [120]] = true := by decide +kernel
  have hR : lookupPath rmRStore exView.root [cTmp, [120]] = .found 3 10 := by decide +kernel
  refine ⟨by decide +kernel, ?_, by decide +kernel, ?_⟩
  · have hne : isNonEmptyDir rmRStore 10 = true := by decide +kernel
    have hp : may rmRStore exView 10 true true true = false := by decide +kernel
    table_simp [hs, hR]
    exact Or.inl ⟨10, Desc.refl, hne, hp⟩
  · have h := removeAll_posix_gen rmRStore 0 exView rmRStore_wf.1 hvr [cTmp, [120]] (by simp) (by decide) (by decide)
    have hr : posixRemoveAll (walkPathL rmRStore exView exView.root [cTmp, [120]]) = .remove 3 10 := by decide +kernel
    simp only [hr] at h
    obtain ⟨_, _, h2⟩ := h
    have hcl : (allEdges rmRStore).all (fun (a, _, x) => !([10, 11] : List Ino).contains a || ([10, 11] : List Ino).contains x) = true := by
      decide +kernel
    have htw : TreeWritable rmRStore exView 10 :=
      treeWritable_of_closed rmRStore exView 10 [10, 11] (by decide) hcl (by decide +kernel)
    have htu : TreeUnrestricted rmRStore exView 10 :=
      treeUnrestricted_of_closed rmRStore exView 10 [10, 11] (by decide) hcl (by decide +kernel)
    obtain ⟨s1, _, _, _, heq⟩ := h2 (fun _ => ⟨htw, htu⟩)
    have hc1 : dirPerm rmRStore 3 omWrite exView = true := by decide +kernel
    have hc2 : restrictedDeletion rmRStore exView 3 10 = false := by decide +kernel
    simp only [hc1, hc2, Bool.not_true, Bool.false_eq_true, if_false] at heq
    have heq' : removeAll rmRStore exView [SL, 116, 109, 112, SL, 120] = _ := heq
    rw [heq']

/-- DEVIATION (known): Link to a file of another user is allowed — fs.protected_hardlinks is not emulated. The user
    1000 links the administrator's "/a/f" (0644: not writable by him) into "/tmp": every requirement of the table holds
    and MemFS makes the link; `needProtectedHardlinks` (Linux with the sysctl set: EPERM) does not hold. -/
theorem link_other_users_file :
    Allowed (ctx2 pxStore exView [cA, [102]] [cTmp, [104]]) .link ∧
    ¬ Holds (ctx2 pxStore exView [cA, [102]] [cTmp, [104]]) needProtectedHardlinks ∧
    link pxStore exView [SL, 97, SL, 102] [SL, 116, 109, 112, SL, 104] = (linked pxStore 6 3 [104], .ok .unit) := by
  have hs1 : searchAllowed pxStore exView exView.root [cA, [102]] = true := by decide +kernel
  have hs2 : searchAllowed pxStore exView exView.root [cTmp, [104]] = true := by decide +kernel
  have hR1 : lookupPath pxStore exView.root [cA, [102]] = .found 4 6 := by decide +kernel
  have hR2 : lookupPath pxStore exView.root [cTmp, [104]] = .missingLast 3 [104] := by decide +kernel
  have hp : may pxStore exView 3 false true true = true := by decide +kernel
  have ho : ownerOrAdmin pxStore exView 6 = false := by decide +kernel
  have hrw : may pxStore exView 6 true true false = false := by decide +kernel
  refine ⟨by table_simp [hs1, hs2, hR1, hR2, hp], ?_, by decide +kernel⟩
  simp [needProtectedHardlinks, holds_node_linkable, ctx2, Ctx.res, Ctx.path, hR1, ho, hrw]

/-- DEVIATION (finding): Rename does not ask write permission on a DIRECTORY that changes its parent (rename(2): EACCES,
    "oldpath is a directory and does not allow write permission (needed to update the .. entry)").
    The user 1000 moves the administrator's directory "/tmp/d/e" (0755) from "/tmp/d" (0777) to "/tmp" (0777): the table
    refuses with EACCES (its last requirement), MemFS moves the directory.
    History: memfs.New(); as root Mkdir("/tmp/d", 0777), Mkdir("/tmp/d/e", 0755), Chmod("/tmp/d", 0777); as user 1000
    Rename("/tmp/d/e", "/tmp/e") = nil. -/
theorem rename_dir_across_unchecked :
    Refused (ctx2 pxStore exView [cTmp, cD, cE] [cTmp, cE]) .rename .EACCES ∧
    ¬ Holds (ctx2 pxStore exView [cTmp, cD, cE] [cTmp, cE]) ⟨.movedDir, .bits false true false, .EACCES⟩ ∧
    rename pxStore exView [SL, 116, 109, 112, SL, 100, SL, 101] [SL, 116, 109, 112, SL, 101] =
      (renamed pxStore 7 [101] 3 [101] 8 none, .ok .unit) := by
  have hs1 : searchAllowed pxStore exView exView.root [cTmp, cD, cE] = true := by decide +kernel
  have hs2 : searchAllowed pxStore exView exView.root [cTmp, cE] = true := by decide +kernel
  have hR1 : lookupPath pxStore exView.root [cTmp, cD, cE] = .found 7 8 := by decide +kernel
  have hR2 : lookupPath pxStore exView.root [cTmp, cE] = .missingLast 3 cE := by decide +kernel
  have hp1 : may pxStore exView 7 false true true = true := by decide +kernel
  have hp2 : may pxStore exView 3 false true true = true := by decide +kernel
  have hst : restrictedDeletion pxStore exView 7 8 = false := by decide +kernel
  have hd : isDirAt pxStore 8 = true := by decide +kernel
  have hw : may pxStore exView 8 false true false = false := by decide +kernel
  refine ⟨by table_simp [hs1, hs2, hR1, hR2, hp1, hp2, hst, hd, hw], ?_, by decide +kernel⟩
  simp [holds_movedDir, ctx2, Ctx.res, Ctx.path, hR1, hR2, hd, hw]

/-- DEVIATION (finding, order of checks): in rename(2) the sticky rule of the OLD directory (EPERM) is checked before the
    write permission of the NEW directory (EACCES); MemFS checks the write permission of both directories first.
    The user 1000 moves the administrator's "/tmp/g" out of the sticky "/tmp" into "/a" (0755, not writable by him):
    the table says EPERM, MemFS EACCES.
    History: memfs.New(); as root WriteFile("/tmp/g", …, 0600), Mkdir("/a", 0755), Chmod("/tmp", 01777); as user 1000
    Rename("/tmp/g", "/a/g") = EACCES (Linux: EPERM). -/
theorem rename_sticky_vs_newdir :
    Refused (ctx2 stickyStore exView [cTmp, cG] [cA, cG]) .rename .EPERM ∧
    rename stickyStore exView [SL, 116, 109, 112, SL, 103] [SL, 97, SL, 103] = (stickyStore, .err .EACCES) := by
  have hs1 : searchAllowed stickyStore exView exView.root [cTmp, cG] = true := by decide +kernel
  have hs2 : searchAllowed stickyStore exView exView.root [cA, cG] = true := by decide +kernel
  have hR1 : lookupPath stickyStore exView.root [cTmp, cG] = .found 3 9 := by decide +kernel
  have hp1 : may stickyStore exView 3 false true true = true := by decide +kernel
  have hst : restrictedDeletion stickyStore exView 3 9 = true := by decide +kernel
  exact ⟨by table_simp [hs1, hs2, hR1, hp1, hst], by decide +kernel⟩

/-- DEVIATION (finding, order of checks): rename(2) resolves the directories of BOTH paths before it looks the last
    components up, so an unsearchable directory on the new path is EACCES even when the old entry does not exist; MemFS
    resolves the old path completely first: ENOENT.
    History: memfs.New(); as root Mkdir("/a", 0755), Mkdir("/a/b", 0700); as user 1000 Rename("/tmp/y", "/a/b/x") = ENOENT
    (Linux: EACCES). -/
theorem rename_old_missing_new_denied :
    Refused (ctx2 pxStore exView [cTmp, [121]] [cA, cB, [120]]) .rename .EACCES ∧
    rename pxStore exView [SL, 116, 109, 112, SL, 121] [SL, 97, SL, 98, SL, 120] = (pxStore, .err .ENOENT) := by
  have hs1 : searchAllowed pxStore exView exView.root [cTmp, [121]] = true := by decide +kernel
  have hs2 : searchAllowed pxStore exView exView.root [cA, cB, [120]] = false := by decide +kernel
  exact ⟨by table_simp [hs1, hs2], by decide +kernel⟩

/-- DEVIATION (known for the same path, `rename_same_denied`; here for two names of one file): rename(2) returns 0 when
    old and new are the same file, before any permission check; MemFS checks the directories first.
    On `px3Store` "/a/f" and "/tmp/h" are the same file (inode 6); the user 1000 may not write "/a": EACCES. -/
theorem rename_two_names_denied :
    lookupPath px3Store exView.root [cA, cF] = .found 4 6 ∧ lookupPath px3Store exView.root [cTmp, cH] = .found 3 6 ∧
    rename px3Store exView [SL, 97, SL, 102] [SL, 116, 109, 112, SL, 104] = (px3Store, .err .EACCES) := by
  decide +kernel

/-- DEVIATION (finding; the companion of `chown_user_noent`): whoever is not administrator gets EPERM from Chown before
    the path is looked at, also when a directory of the path may not be searched: the table says EACCES.
    History: memfs.New(); as root Mkdir("/a", 0755), Mkdir("/a/b", 0700); as user 1000 Chown("/a/b/x", 1000, 1000) = EPERM. -/
theorem chown_user_unsearchable :
    Refused (ctx1 pxStore exView [cA, cB, [120]]) .chown .EACCES ∧
    chown pxStore exView [SL, 97, SL, 98, SL, 120] 1000 1000 .eval = (pxStore, .err .EPERM) := by
  have hs : searchAllowed pxStore exView exView.root [cA, cB, [120]] = false := by decide +kernel
  exact ⟨by table_simp [hs], by decide +kernel⟩

/-- DEVIATION (known as the decoding corner `toOpenMode_rdonly_creat`; here its effect on the permission decision):
    O_RDONLY|O_CREAT on an EXISTING file needs read permission only (the table: `needs (.open ⟨.rdonly, true, …⟩)` asks
    for `r`, not `w`, on the node); MemFS decodes the flags to a write-only description and asks for WRITE permission.
    The user 1000 opens the administrator's "/a/f" (0644): O_RDONLY succeeds, O_RDONLY|O_CREAT is EACCES.
    History: memfs.New(); as root WriteFile("/a/f", "hi", 0644); as user 1000 OpenFile("/a/f", O_RDONLY|O_CREATE, 0644) =
    EACCES (Linux: success). -/
theorem open_rdonly_creat_needs_write :
    Allowed (ctx1 pxStore exView [cA, [102]]) (.open ⟨.rdonly, true, false, false, false⟩) ∧
    (openOut (openFile pxStore exView 0 [SL, 97, SL, 102] (OFlags.toNat ⟨.rdonly, true, false, false, false⟩) 0o644)).2 =
      .err .EACCES ∧
    (openOut (openFile pxStore exView 0 [SL, 97, SL, 102] (OFlags.toNat ⟨.rdonly, false, false, false, false⟩) 0)).2 =
      .ok .unit := by
  have hs : searchAllowed pxStore exView exView.root [cA, [102]] = true := by decide +kernel
  have hR : lookupPath pxStore exView.root [cA, [102]] = .found 4 6 := by decide +kernel
  have hp : may pxStore exView 6 true false false = true := by decide +kernel
  refine ⟨?_, by decide +kernel, by decide +kernel⟩
  rw [allowed_open]
  refine ⟨hs, fun _ => ?_, fun _ => ?_⟩
  · have hb : (OAccess.rdonly != OAccess.wronly) = true := by decide
    simp [holds_node, ctx1, Ctx.res, Ctx.path, hR, hb, hp]
  · simp [holds_newParent, ctx1, Ctx.res, Ctx.path, hR]

/-- REPAIRED (handle operations; outside the table of the namespace calls): File.Chown asked WRITE permission on the
    file instead of ownership / CAP_CHOWN, so that a user holding a handle on a file he may write made himself its
    owner; File.Chmod answered EACCES (not EPERM) to whoever is not the owner. Now, as fchown(2) / fchmod(2): after the
    administrator's Chmod("/a/f", 0666) the user 1000, holding a handle on "/a/f", is refused with EPERM by both, and the
    file keeps its owner; the OWNER of a file may still set its group to his own (the last two lines: "/tmp/g" is the
    user's). -/
theorem file_chown_by_writer_refused :
    let s := (chmod pxStore px2Adm [SL, 97, SL, 102] 0o666).1
    let h := handleOn 6 [SL, 97, SL, 102] omRead 0
    (fileStep s exView h (.chown 1000 1000)).2.2.2 = .err .EPERM ∧
    (fileStep s exView h (.chown 1000 1000)).1 = s ∧
    (fileStep s exView h (.chmod 0o777)).2.2.2 = .err .EPERM ∧
    (fileStep s px2Adm h (.chown 1000 1000)).2.2.2 = .ok .unit := by
  decide +kernel

/-! ### 2. non-vacuity: a plain user, a member of the owner's group, the administrator -/

/-- the heap of Lemmas/Posix.lean after, by the administrator (uid 0, gid 0): Chmod("/a/b", 0750), WriteFile("/a/b/k", "x"),
    Chmod("/a/b/k", 0660), Chmod("/a", 0775). All of "/a" belongs to 0:0:
    "/a" (4) 0775, "/a/b" (5) 0750, "/a/b/k" (10) 0660, "/a/f" (6) 0644; "/tmp" (3) 0777. -/
@[irreducible] def dacStore : Store :=
  (run { initState with store := pxStore } [
    (0, .chmod [SL, 97, SL, 98] 0o750),
    (0, .writeFile [SL, 97, SL, 98, SL, 107] [120] 0o660),
    (0, .chmod [SL, 97, SL, 98, SL, 107] 0o660),
    (0, .chmod [SL, 97] 0o775)]).1.store

theorem dacStore_wf : WF dacStore 0 ∧ NamesOK dacStore := wfCheck_sound dacStore 0 (by decide +kernel)

/-- a member of the owner's group who is not the owner: uid 1001, gid 0 -/
def grpView : View := { root := 0, cwd := [SL], uid := 1001, gid := 0, admin := false, umask := 0o022 }

theorem dacHvr (v : View) (h : v.root = 0) : ∃ m ch, dacStore.get v.root = some (.dir m ch) := by
  rw [h]; exact get_of_isDirAt dacStore_wf.1.rootDir

def cK : Bytes := [107]
def cX : Bytes := [120]

/-- Mkdir("/a/x"): "/a" is 0775 of 0:0. The plain user (other class: r-x) is refused — the table says EACCES at its
    second requirement, and so does MemFS, leaving the heap unchanged; the group member (group class: rwx) and the
    administrator are allowed by the table and MemFS makes the directory. -/
example :
    Refused (ctx1 dacStore exView [cA, cX]) .mkdir .EACCES ∧
    mkdir dacStore exView [SL, 97, SL, 120] 0o755 = (dacStore, .err .EACCES) ∧
    Allowed (ctx1 dacStore grpView [cA, cX]) .mkdir ∧
    (mkdir dacStore grpView [SL, 97, SL, 120] 0o755).2 = .ok .unit ∧
    (mkdir dacStore px2Adm [SL, 97, SL, 120] 0o755).2 = .ok .unit := by
  have hR : lookupPath dacStore 0 [cA, cX] = .missingLast 4 cX := by decide +kernel
  have hs1 : searchAllowed dacStore exView exView.root [cA, cX] = true := by decide +kernel
  have hs2 : searchAllowed dacStore grpView grpView.root [cA, cX] = true := by decide +kernel
  have hp1 : may dacStore exView 4 false true true = false := by decide +kernel
  have hp2 : may dacStore grpView 4 false true true = true := by decide +kernel
  have hrf : Refused (ctx1 dacStore exView [cA, cX]) .mkdir .EACCES := by
    table_simp [hs1, show lookupPath dacStore exView.root [cA, cX] = .missingLast 4 cX from hR, hp1]
  have hal : Allowed (ctx1 dacStore grpView [cA, cX]) .mkdir := by
    table_simp [hs2, show lookupPath dacStore grpView.root [cA, cX] = .missingLast 4 cX from hR, hp2]
  have h1 := mkdir_denied_iff dacStore 0 exView dacStore_wf.1 (dacHvr exView rfl) [cA, cX] (by simp) (by decide)
    (by decide) 0o755 (by decide +kernel)
  refine ⟨hrf, ?_, hal, by decide +kernel, by decide +kernel⟩
  exact Prod.ext (h1.2 _ hrf) ((h1.1 _ (Or.inl rfl)).mpr hrf)

/-- the theorem read in the other direction: the group member's Mkdir is not refused BECAUSE the table allows it -/
example : (mkdir dacStore grpView [SL, 97, SL, 120] 0o755).2 ≠ .err .EACCES := by
  have hR : lookupPath dacStore grpView.root [cA, cX] = .missingLast 4 cX := by decide +kernel
  have hs2 : searchAllowed dacStore grpView grpView.root [cA, cX] = true := by decide +kernel
  have hp2 : may dacStore grpView 4 false true true = true := by decide +kernel
  have hal : Allowed (ctx1 dacStore grpView [cA, cX]) .mkdir := by table_simp [hs2, hR, hp2]
  have h := mkdir_denied_iff dacStore 0 grpView dacStore_wf.1 (dacHvr grpView rfl) [cA, cX] (by simp) (by decide)
    (by decide) 0o755 (by decide +kernel)
  intro hd
  exact (h.denied_iff.mp (Or.inl hd)) hal

/-- Stat("/a/b/k"): "/a/b" is 0750 of 0:0: the plain user may not search it — EACCES from the first requirement of the
    table (`searchAllowed` fails at inode 5), whatever the call: here Stat through `stat_denied_iff`, and every call of
    the enumeration through `search_denied` (Mkdir, OpenFile, Remove, Chmod, Rename as examples). The group member may. -/
example :
    (∃ i ∈ lookupDirs dacStore 0 [cA, cB, cK], may dacStore exView i false false true = false) ∧
    stat dacStore exView [SL, 97, SL, 98, SL, 107] .stat = (dacStore, .err .EACCES) ∧
    (∀ c ∈ [Call.mkdir [SL, 97, SL, 98, SL, 107] 0o755, .openFile [SL, 97, SL, 98, SL, 107] 0 0,
        .remove [SL, 97, SL, 98, SL, 107], .chmod [SL, 97, SL, 98, SL, 107] 0o777,
        .rename [SL, 97, SL, 98, SL, 107] [SL, 116, 109, 112, SL, 107], .readFile [SL, 97, SL, 98, SL, 107]],
      (step { initState with store := dacStore, views := [(0, exView)] } 0 c).2 = .err .EACCES ∧
      (step { initState with store := dacStore, views := [(0, exView)] } 0 c).1.store = dacStore) ∧
    Allowed (ctx1 dacStore grpView [cA, cB, cK]) .stat ∧
    (stat dacStore grpView [SL, 97, SL, 98, SL, 107] .stat).2 =
      .ok (.info ⟨[107], 1, 0o660, 0, 0, 1, 1, 3, none⟩) := by
  have hs1 : searchAllowed dacStore exView exView.root [cA, cB, cK] = false := by decide +kernel
  have hs2 : searchAllowed dacStore grpView grpView.root [cA, cB, cK] = true := by decide +kernel
  have hrf : Refused (ctx1 dacStore exView [cA, cB, cK]) .stat .EACCES := by table_simp [hs1]
  have h1 := (stat_denied_iff dacStore 0 exView dacStore_wf.1 (dacHvr exView rfl) [cA, cB, cK] (by decide)
    (by decide) .stat (by decide +kernel)).1
  refine ⟨(searchAllowed_false_iff dacStore exView 0 _).mp hs1, ?_, ?_, by table_simp [hs2], by decide +kernel⟩
  · exact Prod.ext (h1.2 _ hrf) ((h1.1 _ (Or.inl rfl)).mpr hrf)
  · intro c hc
    have key : ∀ c : Call, c.firstPath = some (SL :: joinWith SL [cA, cB, cK]) →
        (step { initState with store := dacStore, views := [(0, exView)] } 0 c).2 = .err .EACCES ∧
        (step { initState with store := dacStore, views := [(0, exView)] } 0 c).1.store = dacStore := by
      intro c hp
      have := search_denied { initState with store := dacStore, views := [(0, exView)] } 0 exView 0 rfl
        dacStore_wf.1 (dacHvr exView rfl) [cA, cB, cK] (by decide) (by decide) c hp hs1
      exact ⟨this.1, this.2.1⟩
    simp only [List.mem_cons, List.mem_nil_iff, or_false] at hc
    rcases hc with rfl | rfl | rfl | rfl | rfl | rfl <;> exact key _ rfl

/-- Chmod("/a/b/k"): ownership, not permission bits: the group member has read and write permission on the file
    (0660) but does not own it — EPERM, from the second requirement of the table; the administrator is allowed. -/
example :
    Refused (ctx1 dacStore grpView [cA, cB, cK]) .chmod .EPERM ∧
    chmod dacStore grpView [SL, 97, SL, 98, SL, 107] 0o600 = (dacStore, .err .EPERM) ∧
    Allowed (ctx1 dacStore px2Adm [cA, cB, cK]) .chmod ∧
    (chmod dacStore px2Adm [SL, 97, SL, 98, SL, 107] 0o600).2 = .ok .unit := by
  have hs : searchAllowed dacStore grpView grpView.root [cA, cB, cK] = true := by decide +kernel
  have hR : lookupPath dacStore grpView.root [cA, cB, cK] = .found 5 10 := by decide +kernel
  have ho : ownerOrAdmin dacStore grpView 10 = false := by decide +kernel
  have hrf : Refused (ctx1 dacStore grpView [cA, cB, cK]) .chmod .EPERM := by table_simp [hs, hR, ho]
  have h := chmod_denied_iff dacStore 0 grpView dacStore_wf.1 (dacHvr grpView rfl) [cA, cB, cK] (by decide)
    (by decide) 0o600 (by decide +kernel)
  refine ⟨hrf, Prod.ext (h.2 _ hrf) ((h.1 _ (Or.inr rfl)).mpr hrf), ?_, by decide +kernel⟩
  exact allowed_admin _ _ 0 dacStore_wf.1 rfl (dacHvr px2Adm rfl) rfl

/-- Remove("/a/b/k") by the group member: "/a/b" (0750) gives the group no write permission — EACCES from the second
    requirement; Remove("/a/f"): "/a" (0775) does — allowed. -/
example :
    Refused (ctx1 dacStore grpView [cA, cB, cK]) .remove .EACCES ∧
    remove dacStore grpView [SL, 97, SL, 98, SL, 107] = (dacStore, .err .EACCES) ∧
    Allowed (ctx1 dacStore grpView [cA, cF]) .remove ∧
    (remove dacStore grpView [SL, 97, SL, 102]).2 = .ok .unit := by
  have hs : searchAllowed dacStore grpView grpView.root [cA, cB, cK] = true := by decide +kernel
  have hR : lookupPath dacStore grpView.root [cA, cB, cK] = .found 5 10 := by decide +kernel
  have hp : may dacStore grpView 5 false true true = false := by decide +kernel
  have hs' : searchAllowed dacStore grpView grpView.root [cA, cF] = true := by decide +kernel
  have hR' : lookupPath dacStore grpView.root [cA, cF] = .found 4 6 := by decide +kernel
  have hp' : may dacStore grpView 4 false true true = true := by decide +kernel
  have hst' : restrictedDeletion dacStore grpView 4 6 = false := by decide +kernel
  have hrf : Refused (ctx1 dacStore grpView [cA, cB, cK]) .remove .EACCES := by table_simp [hs, hR, hp]
  have h := remove_denied_iff dacStore 0 grpView dacStore_wf.1 (dacHvr grpView rfl) [cA, cB, cK] (by simp) (by decide)
    (by decide) (by decide +kernel)
  exact ⟨hrf, Prod.ext (h.2 _ hrf) ((h.1 _ (Or.inl rfl)).mpr hrf), by table_simp [hs', hR', hp', hst'],
    by decide +kernel⟩

/-- Remove under the sticky rule: in "/tmp" (01777) of `stickyStore` the user 1000 may write and search the directory but
    neither owns it nor the administrator's "/tmp/g": EPERM from the THIRD requirement of the table -/
example :
    Refused (ctx1 stickyStore exView [cTmp, cG]) .remove .EPERM ∧
    remove stickyStore exView [SL, 116, 109, 112, SL, 103] = (stickyStore, .err .EPERM) := by
  have hs : searchAllowed stickyStore exView exView.root [cTmp, cG] = true := by decide +kernel
  have hR : lookupPath stickyStore exView.root [cTmp, cG] = .found 3 9 := by decide +kernel
  have hp : may stickyStore exView 3 false true true = true := by decide +kernel
  have hst : restrictedDeletion stickyStore exView 3 9 = true := by decide +kernel
  have hrf : Refused (ctx1 stickyStore exView [cTmp, cG]) .remove .EPERM := by table_simp [hs, hR, hp, hst]
  have h := remove_denied_iff stickyStore 0 exView stickyStore_wf.1 (get_of_isDirAt stickyStore_wf.1.rootDir)
    [cTmp, cG] (by simp) (by decide) (by decide) (by decide +kernel)
  exact ⟨hrf, Prod.ext (h.2 _ hrf) ((h.1 _ (Or.inr rfl)).mpr hrf)⟩

/-- OpenFile("/a/b/k") by the group member: O_RDWR is allowed (0660: group rw-); the plain user's O_WRONLY on "/a/f" (0644)
    is refused at the node requirement; O_WRONLY|O_CREAT of "/a/x" by the plain user is refused at the new-parent
    requirement, by the group member it is allowed -/
example :
    Allowed (ctx1 dacStore grpView [cA, cB, cK]) (.open ⟨.rdwr, false, false, false, false⟩) ∧
    (openOut (openFile dacStore grpView 0 [SL, 97, SL, 98, SL, 107] (OFlags.toNat ⟨.rdwr, false, false, false, false⟩) 0)).2
      = .ok .unit ∧
    Refused (ctx1 dacStore exView [cA, cF]) (.open ⟨.wronly, false, false, false, false⟩) .EACCES ∧
    openOut (openFile dacStore exView 0 [SL, 97, SL, 102] (OFlags.toNat ⟨.wronly, false, false, false, false⟩) 0) =
      (dacStore, .err .EACCES) ∧
    Refused (ctx1 dacStore exView [cA, cX]) (.open ⟨.wronly, true, false, false, false⟩) .EACCES ∧
    openOut (openFile dacStore exView 0 [SL, 97, SL, 120] (OFlags.toNat ⟨.wronly, true, false, false, false⟩) 0o644) =
      (dacStore, .err .EACCES) ∧
    Allowed (ctx1 dacStore grpView [cA, cX]) (.open ⟨.wronly, true, false, false, false⟩) := by
  have hs1 : searchAllowed dacStore grpView grpView.root [cA, cB, cK] = true := by decide +kernel
  have hR1 : lookupPath dacStore grpView.root [cA, cB, cK] = .found 5 10 := by decide +kernel
  have hp1 : may dacStore grpView 10 true true false = true := by decide +kernel
  have hs2 : searchAllowed dacStore exView exView.root [cA, cF] = true := by decide +kernel
  have hR2 : lookupPath dacStore exView.root [cA, cF] = .found 4 6 := by decide +kernel
  have hp2 : may dacStore exView 6 false true false = false := by decide +kernel
  have hs3 : searchAllowed dacStore exView exView.root [cA, cX] = true := by decide +kernel
  have hR3 : lookupPath dacStore exView.root [cA, cX] = .missingLast 4 cX := by decide +kernel
  have hp3 : may dacStore exView 4 false true true = false := by decide +kernel
  have hs4 : searchAllowed dacStore grpView grpView.root [cA, cX] = true := by decide +kernel
  have hR4 : lookupPath dacStore grpView.root [cA, cX] = .missingLast 4 cX := by decide +kernel
  have hp4 : may dacStore grpView 4 false true true = true := by decide +kernel
  have hb1 : (OAccess.rdwr != OAccess.wronly) = true := by decide
  have hb2 : (OAccess.rdwr != OAccess.rdonly) = true := by decide
  have hb3 : (OAccess.wronly != OAccess.wronly) = false := by decide
  have hb4 : (OAccess.wronly != OAccess.rdonly) = true := by decide
  have hrf2 : Refused (ctx1 dacStore exView [cA, cF]) (.open ⟨.wronly, false, false, false, false⟩) .EACCES := by
    table_simp [hs2, hR2, hp2, hb3, hb4]
  have hrf3 : Refused (ctx1 dacStore exView [cA, cX]) (.open ⟨.wronly, true, false, false, false⟩) .EACCES := by
    table_simp [hs3, hR3, hp3, hb3, hb4]
  have h2 := open_denied_iff dacStore 0 exView dacStore_wf.1 (dacHvr exView rfl) [cA, cF] (by simp) (by decide)
    (by decide) 0 0 ⟨.wronly, false, false, false, false⟩ (by intro h; cases h)
    (by intro par c h hd; rw [hR2] at h; cases h; revert hd; decide +kernel) (by decide +kernel)
  have h3 := open_denied_iff dacStore 0 exView dacStore_wf.1 (dacHvr exView rfl) [cA, cX] (by simp) (by decide)
    (by decide) 0 0o644 ⟨.wronly, true, false, false, false⟩ (by intro h; cases h)
    (by intro par c h; rw [hR3] at h; cases h) (by decide +kernel)
  refine ⟨by table_simp [hs1, hR1, hp1, hb1, hb2], by decide +kernel, hrf2, ?_, hrf3, ?_,
    by table_simp [hs4, hR4, hp4, hb3, hb4]⟩
  · exact Prod.ext (h2.2 _ hrf2) ((h2.1 _ (Or.inl rfl)).mpr hrf2)
  · exact Prod.ext (h3.2 _ hrf3) ((h3.1 _ (Or.inl rfl)).mpr hrf3)

/-- Truncate and ReadDir: permission bits of the object. "/a/f" (0644 of 0:0): the group member may not write it —
    Truncate EACCES; "/a/b/k" (0660) he may. ReadDir("/a/b") (0750): the group member may read it, the plain user may
    not even search "/a/b"… but may read "/a" (0775). -/
example :
    Refused (ctx1 dacStore grpView [cA, cF]) .truncate .EACCES ∧
    truncate dacStore grpView [SL, 97, SL, 102] 0 = (dacStore, .err .EACCES) ∧
    (truncate dacStore grpView [SL, 97, SL, 98, SL, 107] 0).2 = .ok .unit ∧
    Allowed (ctx1 dacStore grpView [cA, cB]) .readDir ∧
    readDir dacStore grpView 0 [SL, 97, SL, 98] = .ok (.infos [⟨[107], 1, 0o660, 0, 0, 1, 1, 3, none⟩]) ∧
    Refused (ctx1 dacStore exView [cA, cB]) .readDir .EACCES ∧
    readDir dacStore exView 0 [SL, 97, SL, 98] = .err .EACCES := by
  have hs : searchAllowed dacStore grpView grpView.root [cA, cF] = true := by decide +kernel
  have hR : lookupPath dacStore grpView.root [cA, cF] = .found 4 6 := by decide +kernel
  have hp : may dacStore grpView 6 false true false = false := by decide +kernel
  have hrf : Refused (ctx1 dacStore grpView [cA, cF]) .truncate .EACCES := by table_simp [hs, hR, hp]
  have h := truncate_denied_iff dacStore 0 grpView dacStore_wf.1 (dacHvr grpView rfl) [cA, cF] (by decide)
    (by decide) 0 (by decide) (by intro par c h; rw [hR] at h; cases h; decide +kernel) (by decide +kernel)
  have hs2 : searchAllowed dacStore grpView grpView.root [cA, cB] = true := by decide +kernel
  have hR2 : lookupPath dacStore grpView.root [cA, cB] = .found 4 5 := by decide +kernel
  have hp2 : may dacStore grpView 5 true false false = true := by decide +kernel
  have hs3 : searchAllowed dacStore exView exView.root [cA, cB] = true := by decide +kernel
  have hR3 : lookupPath dacStore exView.root [cA, cB] = .found 4 5 := by decide +kernel
  have hp3 : may dacStore exView 5 true false false = false := by decide +kernel
  have hrf3 : Refused (ctx1 dacStore exView [cA, cB]) .readDir .EACCES := by table_simp [hs3, hR3, hp3]
  have h3 := readDir_denied_iff dacStore 0 exView dacStore_wf.1 (dacHvr exView rfl) [cA, cB] (by decide)
    (by decide) 0 (by decide +kernel)
  have h3' : readDir dacStore exView 0 (SL :: joinWith SL [cA, cB]) = .err .EACCES := (h3.1 _ (Or.inl rfl)).mpr hrf3
  exact ⟨hrf, Prod.ext (h.2 _ hrf) ((h.1 _ (Or.inl rfl)).mpr hrf), by decide +kernel, by table_simp [hs2, hR2, hp2],
    by decide +kernel, hrf3, h3'⟩

/-- Rename, Link, Symlink, MkdirAll into "/a" (0775 of 0:0): refused to the plain user (EACCES: write permission on
    the directory), allowed to the group member -/
example :
    rename dacStore exView [SL, 97, SL, 102] [SL, 97, SL, 103] = (dacStore, .err .EACCES) ∧
    Refused (ctx2 dacStore exView [cA, cF] [cA, cG]) .rename .EACCES ∧
    Allowed (ctx2 dacStore grpView [cA, cF] [cA, cG]) .rename ∧
    (rename dacStore grpView [SL, 97, SL, 102] [SL, 97, SL, 103]).2 = .ok .unit ∧
    link dacStore exView [SL, 97, SL, 102] [SL, 97, SL, 104] = (dacStore, .err .EACCES) ∧
    Refused (ctx2 dacStore exView [cA, cF] [cA, cH]) .link .EACCES ∧
    symlink dacStore exView [120] [SL, 97, SL, 108] = (dacStore, .err .EACCES) ∧
    Refused (ctx1 dacStore exView [cA, [108]]) .symlink .EACCES ∧
    mkdirAll dacStore exView [SL, 97, SL, 120, SL, 121] 0o755 = (dacStore, .err .EACCES) ∧
    Refused (ctxM dacStore exView [cA, cX, [121]] 0o755) .mkdirAll .EACCES ∧
    Allowed (ctxM dacStore grpView [cA, cX, [121]] 0o755) .mkdirAll := by
  have hso : searchAllowed dacStore exView exView.root [cA, cF] = true := by decide +kernel
  have hRo : lookupPath dacStore exView.root [cA, cF] = .found 4 6 := by decide +kernel
  have hp : may dacStore exView 4 false true true = false := by decide +kernel
  have hsn : searchAllowed dacStore exView exView.root [cA, cG] = true := by decide +kernel
  have hRn : lookupPath dacStore exView.root [cA, cG] = .missingLast 4 cG := by decide +kernel
  have hsh : searchAllowed dacStore exView exView.root [cA, cH] = true := by decide +kernel
  have hRh : lookupPath dacStore exView.root [cA, cH] = .missingLast 4 cH := by decide +kernel
  have hsl : searchAllowed dacStore exView exView.root [cA, [108]] = true := by decide +kernel
  have hRl : lookupPath dacStore exView.root [cA, [108]] = .missingLast 4 [108] := by decide +kernel
  have hgo : searchAllowed dacStore grpView grpView.root [cA, cF] = true := by decide +kernel
  have hgRo : lookupPath dacStore grpView.root [cA, cF] = .found 4 6 := by decide +kernel
  have hgn : searchAllowed dacStore grpView grpView.root [cA, cG] = true := by decide +kernel
  have hgRn : lookupPath dacStore grpView.root [cA, cG] = .missingLast 4 cG := by decide +kernel
  have hgp : may dacStore grpView 4 false true true = true := by decide +kernel
  have hgst : restrictedDeletion dacStore grpView 4 6 = false := by decide +kernel
  have hgd : isDirAt dacStore 6 = false := by decide +kernel
  have hrf1 : Refused (ctx2 dacStore exView [cA, cF] [cA, cG]) .rename .EACCES := by
    table_simp [hso, hsn, hRo, hRn, hp]
  have hrf2 : Refused (ctx2 dacStore exView [cA, cF] [cA, cH]) .link .EACCES := by
    table_simp [hso, hsh, hRo, hRh, hp]
  have hrf3 : Refused (ctx1 dacStore exView [cA, [108]]) .symlink .EACCES := by table_simp [hsl, hRl, hp]
  have hsm : searchAllowed dacStore exView exView.root [cA, cX, [121]] = true := by decide +kernel
  have hmm : newParentMetas ⟨dacStore, exView, exView.root, [cA, cX, [121]], [], 0o755⟩ =
      [⟨0o775, 0, 0, none⟩, newDirMeta exView 0o755] := by decide +kernel
  have hgm : searchAllowed dacStore grpView grpView.root [cA, cX, [121]] = true := by decide +kernel
  have hgmm : newParentMetas ⟨dacStore, grpView, grpView.root, [cA, cX, [121]], [], 0o755⟩ =
      [⟨0o775, 0, 0, none⟩, newDirMeta grpView 0o755] := by decide +kernel
  have hrf4 : Refused (ctxM dacStore exView [cA, cX, [121]] 0o755) .mkdirAll .EACCES := by
    table_simp [hsm, hmm, show mayMeta ⟨0o775, 0, 0, none⟩ exView false true true = false by decide]
  have h1 := rename_denied_iff dacStore 0 exView dacStore_wf.1 (dacHvr exView rfl) [cA, cF] [cA, cG] (by simp) (by simp)
    (by decide) (by decide) (by decide) (by decide) 4 6 hRo (Or.inr ⟨4, cG, hRn⟩)
    (by intro p h; rw [hRn] at h; cases h)
    (by simp [holds_movedDir, ctx2, Ctx.res, Ctx.path, hRo, hRn])
    (by intro h; exfalso; revert h; decide +kernel)
  have h2 := link_denied_iff dacStore 0 exView dacStore_wf.1 (dacHvr exView rfl) [cA, cF] [cA, cH] (by simp)
    (by decide) (by decide) (by decide) (by decide) 4 6 hRo hgd (by decide +kernel)
  have h3 := symlink_denied_iff dacStore 0 exView dacStore_wf.1 (dacHvr exView rfl) [cA, [108]] (by simp) (by decide)
    (by decide) [120] (by decide +kernel)
  have h4 := mkdirAll_denied_iff dacStore 0 exView dacStore_wf.1 (dacHvr exView rfl) [cA, cX, [121]] (by decide)
    (by decide) 0o755 (fun _ => by decide) (by decide +kernel)
  refine ⟨Prod.ext (h1.2 _ hrf1) ((h1.1 _ (Or.inl rfl)).mpr hrf1), hrf1, ?_, by decide +kernel,
    Prod.ext (h2.2 _ hrf2) ((h2.1 _ (Or.inl rfl)).mpr hrf2), hrf2,
    Prod.ext (h3.2 _ hrf3) ((h3.1 _ (Or.inl rfl)).mpr hrf3), hrf3,
    Prod.ext (h4.2 _ hrf4) ((h4.1 _ (Or.inl rfl)).mpr hrf4), hrf4, ?_⟩
  · table_simp [hgo, hgn, hgRo, hgRn, hgp, hgst, hgd]
  · table_simp [hgm, hgmm, show mayMeta ⟨0o775, 0, 0, none⟩ grpView false true true = true by decide,
      show mayMeta (newDirMeta grpView 0o755) grpView false true true = true by decide]

/-- Chown: EPERM for whoever is not administrator (the path resolves: the table's second requirement); the
    administrator is allowed. Chtimes: as Chmod. -/
example :
    Refused (ctx1 dacStore grpView [cA, cF]) .chown .EPERM ∧
    chown dacStore grpView [SL, 97, SL, 102] 1001 0 .eval = (dacStore, .err .EPERM) ∧
    (chown dacStore px2Adm [SL, 97, SL, 102] 1001 0 .eval).2 = .ok .unit ∧
    Refused (ctx1 dacStore grpView [cA, cF]) .chtimes .EPERM ∧
    chtimes dacStore grpView [SL, 97, SL, 102] 7 = (dacStore, .err .EPERM) := by
  have hs : searchAllowed dacStore grpView grpView.root [cA, cF] = true := by decide +kernel
  have hR : lookupPath dacStore grpView.root [cA, cF] = .found 4 6 := by decide +kernel
  have ho : ownerOrAdmin dacStore grpView 6 = false := by decide +kernel
  have hrf : Refused (ctx1 dacStore grpView [cA, cF]) .chown .EPERM := by
    table_simp [hs, hR, show grpView.admin = false from rfl]
  have hrf2 : Refused (ctx1 dacStore grpView [cA, cF]) .chtimes .EPERM := by table_simp [hs, hR, ho]
  have h := chown_denied_iff dacStore 0 grpView dacStore_wf.1 (dacHvr grpView rfl) [cA, cF] (by decide) (by decide)
    1001 0 .eval (Or.inr ⟨hs, 4, 6, hR⟩) (by decide +kernel)
  have h2 := chtimes_denied_iff dacStore 0 grpView dacStore_wf.1 (dacHvr grpView rfl) [cA, cF] (by decide) (by decide)
    7 (by decide +kernel)
  exact ⟨hrf, Prod.ext (h.2 _ hrf) ((h.1 _ (Or.inr rfl)).mpr hrf), by decide +kernel, hrf2,
    Prod.ext (h2.2 _ hrf2) ((h2.1 _ (Or.inr rfl)).mpr hrf2)⟩

/-- RemoveAll("/a/b") by the group member: he may write "/a" but not "/a/b" (0750), which has an entry: refused, by the
    table (tree requirement) and by MemFS (`RemoveAllGranted` fails); nothing is removed -/
example :
    Refused (ctx1 dacStore grpView [cA, cB]) .removeAll .EACCES ∧
    ((removeAll dacStore grpView [SL, 97, SL, 98]).2 = .err .EACCES ∨
      (removeAll dacStore grpView [SL, 97, SL, 98]).2 = .err .EPERM) := by
  have hs : searchAllowed dacStore grpView grpView.root [cA, cB] = true := by decide +kernel
  have hR : lookupPath dacStore grpView.root [cA, cB] = .found 4 5 := by decide +kernel
  have hne : isNonEmptyDir dacStore 5 = true := by decide +kernel
  have hp : may dacStore grpView 5 true true true = false := by decide +kernel
  have h := (removeAll_denied_iff dacStore 0 grpView dacStore_wf.1 (dacHvr grpView rfl) [cA, cB] (by simp) (by decide)
    (by decide) (by decide +kernel)).1
  refine ⟨?_, h.mpr (Or.inr ⟨4, 5, hR, fun hg => ?_⟩)⟩
  · table_simp [hs, hR]
    exact Or.inl ⟨5, Desc.refl, hne, hp⟩
  · have := (hg.1 hne).1 5 Desc.refl (by decide +kernel)
    revert this
    decide +kernel

/-- the administrator is never refused — on ANY path: relative, unclean, through the unsearchable "/a/b" -/
example :
    (mkdir dacStore px2Adm [97, SL, SL, 98, SL, DOT, SL, 120] 0o700).2 ≠ .err .EACCES ∧
    (remove dacStore px2Adm [SL, 97, SL, 98, SL, 107]).2 ≠ .err .EPERM ∧
    (removeAll dacStore px2Adm [SL, 97]).2 ≠ .err .EACCES := by
  have hv : ViewOK dacStore px2Adm := ⟨by decide +kernel, by decide⟩
  exact ⟨(mkdir_admin_never_denied dacStore 0 px2Adm dacStore_wf.1 hv rfl _ _).1,
    (remove_admin_never_denied dacStore 0 px2Adm dacStore_wf.1 hv rfl _).2,
    (removeAll_admin_never_denied dacStore 0 px2Adm dacStore_wf.1 hv rfl _).1⟩

end Avfs.FS
