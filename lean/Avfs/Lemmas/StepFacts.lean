import Avfs.FS.SearchSpec
import Avfs.Lemmas.Clean
import Avfs.Lemmas.StepBase
import Avfs.Lemmas.StepClean
import Avfs.Lemmas.StepFailed
import Avfs.Lemmas.StepViews
import Avfs.Lemmas.StepNoPanic
import Avfs.Lemmas.StepCounter
/-
  Facts about `step` (the model of one call on a view of MemFS), by property:

  * C01 (unclean paths behave as their Clean form) — `StepClean`:
      `abs_clean`, `searchNode_clean`, `mkdir_clean` … `sub_clean`, `openFile_clean`, `readFile_clean`, `readDir_clean`,
      and for whole calls `step_cleaned`.
  * C05 (a failed call changes nothing) — `StepFailed`:
      `step_failed_unchanged`, `step_chdir_failed`, `step_chdir_rebinds`, `step_file_failed`;
      `StepCounter.writeFile_empty_refused`: `writeFile ""` is refused with the state unchanged (no exclusion needed).
      `StepCounter.writeFile_oversize_counterexample`: `writeFile` with more than `maxFileSize` bytes creates or
      truncates the file and then fails (EINVAL): hence the hypothesis `hw` of `step_failed_unchanged`.
  * C11 (view isolation) — `StepViews`:
      `step_view_isolation`, `step_file_view_isolation`, `step_setUser_store`, `step_setUMask_store`, `step_chdir_store`.
  * C07 (no panic / no hang, relative to `SearchOK`) — `StepNoPanic`:
      `step_no_panic`, `step_file_no_panic`.
-/
