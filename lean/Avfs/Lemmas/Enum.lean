import Avfs.FS.Enum
import Avfs.Lemmas.HeapR
import Avfs.Lemmas.StepFailed
/-
  Lemmas for property C14 (enumeration): the byte order, insertion sort, directory listings, `stat`, `readDir`
  and the flat case of `walkDir`.
-/
namespace Avfs.FS
open Avfs.Path

/-! ### the byte order -/

theorem u8_lt_irrefl (a : UInt8) : ¬ a < a := by
  rw [UInt8.lt_iff_toNat_lt]; omega

theorem u8_eq_of_not_lt {a b : UInt8} (h1 : ¬ a < b) (h2 : ¬ b < a) : a = b := by
  rw [UInt8.lt_iff_toNat_lt] at h1 h2
  apply UInt8.toNat_inj.1; omega

theorem u8_lt_trans {a b c : UInt8} (h1 : a < b) (h2 : b < c) : a < c := by
  rw [UInt8.lt_iff_toNat_lt] at *; omega

theorem u8_lt_asymm {a b : UInt8} (h1 : a < b) : ¬ b < a := by
  rw [UInt8.lt_iff_toNat_lt] at *; omega

theorem bytesLt_irrefl (a : Bytes) : bytesLt a a = false := by
  induction a with
  | nil => rfl
  | cons x xs ih => simp [bytesLt, ih]

theorem bytesLt_total : ∀ (a b : Bytes), a ≠ b → bytesLt a b = true ∨ bytesLt b a = true
  | [], [], h => absurd rfl h
  | [], _ :: _, _ => Or.inl rfl
  | _ :: _, [], _ => Or.inr rfl
  | x :: xs, y :: ys, h => by
    unfold bytesLt
    by_cases h1 : x < y
    · simp [h1]
    · by_cases h2 : y < x
      · simp [h2]
      · have e := u8_eq_of_not_lt h1 h2
        subst e
        simp only [h1, if_false]
        exact bytesLt_total xs ys (fun e => h (by rw [e]))

theorem bytesLt_trans : ∀ (a b c : Bytes), bytesLt a b = true → bytesLt b c = true → bytesLt a c = true
  | [], [], _, h, _ => by simp [bytesLt] at h
  | [], _ :: _, [], _, h => by simp [bytesLt] at h
  | [], _ :: _, _ :: _, _, _ => rfl
  | _ :: _, [], _, h, _ => by simp [bytesLt] at h
  | _ :: _, _ :: _, [], _, h => by simp [bytesLt] at h
  | x :: xs, y :: ys, z :: zs, h1, h2 => by
    unfold bytesLt at h1 h2 ⊢
    by_cases a1 : x < y
    · by_cases a2 : y < z
      · simp [u8_lt_trans a1 a2]
      · by_cases a3 : z < y
        · simp [a2, a3] at h2
        · have e := u8_eq_of_not_lt a2 a3
          subst e
          simp [a1]
    · by_cases a1' : y < x
      · simp [a1, a1'] at h1
      · have e := u8_eq_of_not_lt a1 a1'
        subst e
        simp only [a1, if_false] at h1
        by_cases a2 : x < z
        · simp [a2]
        · by_cases a3 : z < x
          · simp [a2, a3] at h2
          · simp only [a2, a3, if_false] at h2 ⊢
            exact bytesLt_trans xs ys zs h1 h2

/-! ### insertion sort -/

theorem mem_insertSorted (x y : Bytes) (l : List Bytes) : y ∈ insertSorted x l ↔ y = x ∨ y ∈ l := by
  induction l with
  | nil => simp [insertSorted]
  | cons z zs ih =>
    unfold insertSorted
    split
    · simp
    · simp [ih]; grind

theorem mem_sortBytes (y : Bytes) (l : List Bytes) : y ∈ sortBytes l ↔ y ∈ l := by
  induction l with
  | nil => simp [sortBytes]
  | cons x xs ih =>
    have : sortBytes (x :: xs) = insertSorted x (sortBytes xs) := rfl
    rw [this, mem_insertSorted, ih]; simp

theorem pairwise_insertSorted (x : Bytes) (l : List Bytes) (hx : x ∉ l)
    (hl : l.Pairwise (fun a b => bytesLt a b = true)) :
    (insertSorted x l).Pairwise (fun a b => bytesLt a b = true) := by
  induction l with
  | nil => simp [insertSorted]
  | cons z zs ih =>
    unfold insertSorted
    rw [List.pairwise_cons] at hl
    split
    · next hlt =>
      rw [List.pairwise_cons]
      refine ⟨?_, List.pairwise_cons.2 hl⟩
      intro b hb
      rcases List.mem_cons.1 hb with rfl | hb
      · exact hlt
      · exact bytesLt_trans _ _ _ hlt (hl.1 b hb)
    · next hlt =>
      have hxz : x ≠ z := fun e => hx (by simp [e])
      have hzx : bytesLt z x = true := by
        rcases bytesLt_total x z hxz with h | h
        · exact absurd h hlt
        · exact h
      rw [List.pairwise_cons]
      refine ⟨?_, ih (fun h => hx (List.mem_cons_of_mem _ h)) hl.2⟩
      intro b hb
      rcases (mem_insertSorted x b zs).1 hb with rfl | hb
      · exact hzx
      · exact hl.1 b hb

theorem pairwise_sortBytes (l : List Bytes) (hl : l.Nodup) :
    (sortBytes l).Pairwise (fun a b => bytesLt a b = true) := by
  induction l with
  | nil => simp [sortBytes]
  | cons x xs ih =>
    have : sortBytes (x :: xs) = insertSorted x (sortBytes xs) := rfl
    rw [this]
    rw [List.nodup_cons] at hl
    exact pairwise_insertSorted x _ (fun h => hl.1 ((mem_sortBytes x xs).1 h)) (ih hl.2)

theorem nodup_of_pairwise_bytesLt (l : List Bytes) (hl : l.Pairwise (fun a b => bytesLt a b = true)) : l.Nodup := by
  unfold List.Nodup
  apply List.Pairwise.imp _ hl
  intro a b h e
  subst e
  rw [bytesLt_irrefl] at h
  cases h

theorem names_sorted (s : Store) (d : Ino) : (s.names d).Pairwise (fun a b => bytesLt a b = true) :=
  pairwise_sortBytes _ (hr_nodup_alKeys _)

theorem names_nodup (s : Store) (d : Ino) : (s.names d).Nodup := nodup_of_pairwise_bytesLt _ (names_sorted s d)

theorem mem_names (s : Store) (d : Ino) (n : Bytes) : n ∈ s.names d ↔ (s.child d n).isSome = true := by
  unfold Store.names
  rw [mem_sortBytes]
  exact hr_mem_keys_children s d n

/-! ### stat -/

theorem stat_ok_info' (s : Store) (v : View) (p : Bytes) (m : SlMode) (o : Val) (h : (stat s v p m).2 = .ok o) :
    ∃ i, o = .info i := by
  unfold stat at h
  simp only [] at h
  split at h
  · split at h
    · simp at h; exact ⟨_, h.symm⟩
    · simp at h
  · simp at h


/-! ### ReadDir -/

theorem toOpenMode_zero : toOpenMode 0 = 4 := by decide

theorem openFile_ro_ok (s : Store) (v : View) (vid : Nat) (p : Bytes) (s1 : Store) (h : Handle)
    (e : openFile s v vid p 0 0 = (s1, .ok h)) :
    s1 = s ∧ h.name = p ∧ ∃ c, (searchNode s v p .eval).child = some c ∧ h.nd = some c := by
  unfold openFile at e
  simp only [toOpenMode_zero] at e
  generalize searchNode s v p .eval = r at e ⊢
  repeat' split at e
  all_goals simp only [Prod.mk.injEq, reduceCtorEq, and_false, Except.ok.injEq] at e
  all_goals first
    | (obtain ⟨rfl, rfl⟩ := e; exact ⟨rfl, rfl, _, by assumption, rfl⟩)
    | (exfalso; simp_all [omCreate, omTrunc])

theorem fillStat_name {s : Store} {c : Ino} {n : Bytes} {i : Info} (h : fillStat s c n = some i) : i.name = n := by
  unfold fillStat at h
  split at h <;> simp at h <;> subst h <;> rfl

theorem readDir_ok (s : Store) (v : View) (vid : Nat) (p : Bytes) (l : List Info)
    (h : readDir s v vid p = .ok (.infos l)) :
    ∃ d, (searchNode s v p .eval).child = some d ∧ isDirAt s d = true ∧ l = (dirEntriesOf s d).getD [] := by
  unfold readDir at h
  rcases ho : openFile s v vid p 0 0 with ⟨s1, (e | hd)⟩
  · simp [ho] at h
  · obtain ⟨rfl, hn, c, hc, hnd⟩ := openFile_ro_ok _ _ _ _ _ _ ho
    have hpne := openFile_ok_ne _ _ _ _ _ _ _ _ ho
    have hne : hd.name.isEmpty = false := by rw [hn]; exact isEmpty_false_of_ne_sc' hpne
    refine ⟨c, hc, ?_⟩
    simp only [ho] at h
    have key : (fileStep s1 v hd (.readDir (-1))).2.2.2 = .ok (.infos l) := by
      split at h
      · next l' e' => rw [e']; simpa using h
      · exact h
    simp only [fileStep, hne, hnd] at key
    cases hg : s1.get c with
    | none => simp [hg] at key
    | some nd =>
      cases nd with
      | dir m ch =>
        simp [hg] at key
        exact ⟨hr_isDirAt_iff.2 ⟨_, _, hg⟩, key.symm⟩
      | file => simp [hg] at key
      | symlink => simp [hg] at key

theorem dirEntriesOf_getD (s : Store) (d : Ino) :
    (dirEntriesOf s d).getD [] = (s.names d).filterMap fun nm => (s.child d nm).bind fun c => fillStat s c nm := by
  unfold dirEntriesOf
  simp only []
  split
  · next h =>
    have : s.names d = [] := by simpa using h
    simp [this]
  · rfl

theorem filterMap_map_name (s : Store) (d : Ino) (L : List Bytes) :
    (L.filterMap fun nm => (s.child d nm).bind fun c => fillStat s c nm).map (·.name) =
      L.filter (fun n => ((s.child d n).bind fun c => fillStat s c n).isSome) := by
  induction L with
  | nil => rfl
  | cons n ns ih =>
    rw [List.filterMap_cons, List.filter_cons]
    cases hf : (s.child d n).bind fun c => fillStat s c n with
    | none => simpa using ih
    | some i =>
      have hn : i.name = n := by
        cases hc : s.child d n with
        | none => simp [hc] at hf
        | some c => simp [hc] at hf; exact fillStat_name hf
      simp [ih, hn]

theorem readDir_exact (s : Store) (v : View) (vid : Nat) (p : Bytes) (l : List Info)
    (h : readDir s v vid p = .ok (.infos l)) :
    ∃ d, (searchNode s v p .eval).child = some d ∧ isDirAt s d = true ∧
      l.map (·.name) = (s.names d).filter (fun n => ((s.child d n).bind fun c => fillStat s c n).isSome) ∧
      ∀ i ∈ l, ∃ c, s.child d i.name = some c ∧ fillStat s c i.name = some i := by
  obtain ⟨d, hd, hdir, hl⟩ := readDir_ok s v vid p l h
  rw [dirEntriesOf_getD] at hl
  refine ⟨d, hd, hdir, ?_, ?_⟩
  · rw [hl]; exact filterMap_map_name s d _
  · intro i hi
    rw [hl, List.mem_filterMap] at hi
    obtain ⟨n, _, hf⟩ := hi
    cases hc : s.child d n with
    | none => simp [hc] at hf
    | some c =>
      simp [hc] at hf
      have hn := fillStat_name hf
      subst hn
      exact ⟨c, hc, hf⟩

/-! ### WalkDir -/

theorem walkDir_file (s : Store) (v : View) (vid fuel : Nat) (vis : List (Bytes × Nat × Option Err)) (path : Bytes)
    (kind : Nat) (hk : kind ≠ 0) :
    walkDir s v vid (fuel + 1) ⟨[], vis⟩ path kind = (⟨[], vis ++ [(path, kind, none)]⟩, .none) := by
  rw [walkDir.eq_2]
  simp [callFn, hk]

theorem walkDir_each_files (s : Store) (v : View) (vid fuel : Nat) (path : Bytes) (l : List Info)
    (hfiles : ∀ e ∈ l, e.kind ≠ 0) (vis : List (Bytes × Nat × Option Err)) :
    walkDir.each s v vid (fuel + 1) path l ⟨[], vis⟩ =
      (⟨[], vis ++ l.map (fun e => (join .linux [path, e.name], e.kind, none))⟩, .none) := by
  induction l generalizing vis with
  | nil => rw [walkDir.each.eq_1]; simp
  | cons d ds ih =>
    rw [walkDir.each.eq_2, walkDir_file _ _ _ _ _ _ _ (hfiles d (by simp))]
    simp only [bne_self_eq_false, Bool.false_eq_true, if_false]
    rw [ih (fun e he => hfiles e (List.mem_cons_of_mem _ he))]
    simp

theorem walkDirTop_flat (s : Store) (v : View) (vid : Nat) (root : Bytes) (i : Info) (l : List Info)
    (hst : (stat s v root .lstat).2 = .ok (.info i)) (hk : i.kind = 0)
    (hrd : readDir s v vid root = .ok (.infos l)) (hfiles : ∀ e ∈ l, e.kind ≠ 0) :
    walkDirTop s v vid root [] =
      (⟨[], (root, 0, none) :: l.map (fun e => (join .linux [root, e.name], e.kind, none))⟩, .none) := by
  unfold walkDirTop
  simp only [hst, hk]
  rw [walkDir.eq_2]
  simp only [callFn, hrd]
  simp [walkDir_each_files _ _ _ _ _ _ hfiles]

end Avfs.FS
