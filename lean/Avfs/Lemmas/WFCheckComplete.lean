import Avfs.Lemmas.WFCheck
/-
  COMPLETENESS of the executable well-formedness check (property C05): every heap that satisfies the invariant `WF`
  and has valid entry names is accepted by `wfCheck` — with NO side condition: the bounds the check demands
  (`i < s.next`, the depth table built by `bfsDepth` within `s.inos.length + 1` rounds) all follow from `WF`.
  Together with `wfCheck_sound`: `wfCheck s root = true ↔ WF s root ∧ NamesOK s` (`wfCheck_iff`), so the harness, which
  evaluates `wfCheck` on the node graph dumped from the implementation after every call, can neither miss a violation
  of the invariant nor raise a false alarm on a well-formed graph.

  The only non-trivial conjunct is the depth table. `DPath s root i k`: `i` is reached from the root through `k`
  directory entries. Under `WF` (depth witness, unique parent, `attached`) every directory that has an entry is on
  such a path, the length of the path is determined by the node, and paths visit distinct allocated inodes, hence are
  shorter than `s.inos.length`. The breadth-first table after round `r` holds exactly the nodes with a path of length
  ≤ r, each with that length (`BfsInv`).
-/
namespace Avfs.FS
open Avfs.Path

/-! ### lists and association lists -/

theorem wfcc_length_le_of_nodup_subset {α} [DecidableEq α] : ∀ (l1 l2 : List α), l1.Nodup → (∀ x ∈ l1, x ∈ l2) →
    l1.length ≤ l2.length := by
  intro l1
  induction l1 with
  | nil => intro l2 _ _; simp
  | cons a t ih =>
    intro l2 hnd hsub
    rw [List.nodup_cons] at hnd
    have ha : a ∈ l2 := hsub a (by simp)
    have hsub' : ∀ x ∈ t, x ∈ l2.erase a := by
      intro x hx
      have hne : x ≠ a := fun e => hnd.1 (e ▸ hx)
      exact (List.mem_erase_of_ne hne).2 (hsub x (by simp [hx]))
    have := ih (l2.erase a) hnd.2 hsub'
    rw [List.length_erase_of_mem ha] at this
    have hpos : 0 < l2.length := List.length_pos_of_mem ha
    simp only [List.length_cons]
    omega

theorem wfcc_lookup_append {κ ν : Type} [DecidableEq κ] (k : κ) (l1 l2 : List (κ × ν)) :
    AL.lookup k (l1 ++ l2) = match AL.lookup k l1 with
      | some v => some v
      | none => AL.lookup k l2 := by
  induction l1 with
  | nil => rfl
  | cons p l ih =>
    obtain ⟨k', v'⟩ := p
    by_cases hk : k' = k
    · simp [AL.lookup, hk]
    · simp only [List.cons_append, AL.lookup, hk, if_false]
      exact ih

theorem wfcc_mem_of_lookup {κ ν : Type} [DecidableEq κ] {k : κ} {v : ν} {l : List (κ × ν)}
    (h : AL.lookup k l = some v) : (k, v) ∈ l := by
  induction l with
  | nil => cases h
  | cons p l ih =>
    obtain ⟨k', v'⟩ := p
    by_cases hk : k' = k
    · subst hk
      simp only [AL.lookup, if_true, Option.some.injEq] at h
      subst h
      simp
    · simp only [AL.lookup, hk, if_false] at h
      exact List.mem_cons_of_mem _ (ih h)

theorem wfcc_lookup_isSome_of_mem {κ ν : Type} [DecidableEq κ] {k : κ} {v : ν} {l : List (κ × ν)}
    (h : (k, v) ∈ l) : AL.lookup k l ≠ none := by
  induction l with
  | nil => cases h
  | cons p l ih =>
    obtain ⟨k', v'⟩ := p
    by_cases hk : k' = k
    · simp [AL.lookup, hk]
    · simp only [AL.lookup, hk, if_false]
      rcases List.mem_cons.1 h with e | e
      · cases e; exact absurd rfl hk
      · exact ih e

/-! ### paths of directory entries from the root -/

/-- `i` is reached from `root` through `k` entries, each of which designates a directory -/
inductive DPath (s : Store) (root : Ino) : Ino → Nat → Prop
  | root : DPath s root root 0
  | step {d c : Ino} {n : Bytes} {k : Nat} :
      DPath s root d k → Edge s d n c → isDirAt s c = true → DPath s root c (k + 1)

theorem DPath.depth_eq {s : Store} {root : Ino} {depth : Ino → Nat}
    (hdep : ∀ d n c, Edge s d n c → isDirAt s c = true → depth c = depth d + 1) {i : Ino} {k : Nat}
    (h : DPath s root i k) : depth i = depth root + k := by
  induction h with
  | root => rfl
  | step _ he hc ih => rw [hdep _ _ _ he hc, ih]; omega

/-- the length of the path is determined by the node -/
theorem DPath.unique {s : Store} {root : Ino} (hwf : WF s root) {i : Ino} {k k' : Nat}
    (h1 : DPath s root i k) (h2 : DPath s root i k') : k = k' := by
  obtain ⟨depth, hdep⟩ := hwf.depth
  have e1 := h1.depth_eq hdep
  have e2 := h2.depth_eq hdep
  omega

theorem DPath.isDir {s : Store} {root : Ino} (hwf : WF s root) {i : Ino} {k : Nat} (h : DPath s root i k) :
    isDirAt s i = true := by
  cases h with
  | root => exact hwf.rootDir
  | step _ _ hc => exact hc

theorem DPath.inv {s : Store} {root : Ino} {c : Ino} {k : Nat} (h : DPath s root c (k + 1)) :
    ∃ d n, DPath s root d k ∧ Edge s d n c ∧ isDirAt s c = true := by
  cases h with
  | step hd he hc => exact ⟨_, _, hd, he, hc⟩

theorem DPath.zero {s : Store} {root : Ino} {i : Ino} (h : DPath s root i 0) : i = root := by
  cases h; rfl

/-- a path has all its prefixes -/
theorem DPath.prefix {s : Store} {root : Ino} {i : Ino} {k : Nat} (h : DPath s root i k) :
    ∀ j, j ≤ k → ∃ x, DPath s root x j := by
  induction h with
  | root =>
    intro j hj
    have : j = 0 := by omega
    subst this
    exact ⟨root, .root⟩
  | step hd he hc ih =>
    rename_i d c n k
    intro j hj
    by_cases hjk : j ≤ k
    · exact ih j hjk
    · have : j = k + 1 := by omega
      subst this
      exact ⟨c, .step hd he hc⟩

/-- every directory that has an entry is on a path from the root (`attached` + the depth witness) -/
theorem wfcc_source_reachable {s : Store} {root : Ino} (hwf : WF s root) :
    ∀ d n c, Edge s d n c → ∃ k, DPath s root d k := by
  obtain ⟨depth, hdep⟩ := hwf.depth
  intro d
  generalize hm : depth d = m
  induction m using Nat.strongRecOn generalizing d with
  | _ m ih =>
    intro n c he
    rcases hwf.attached d n c he with rfl | ⟨p, pn, hp⟩
    · exact ⟨0, .root⟩
    · have hdd := Edge.isDir he
      have := hdep p pn d hp hdd
      obtain ⟨k, hk⟩ := ih (depth p) (by omega) p rfl pn d hp
      exact ⟨k + 1, .step hk hp hdd⟩

/-- a path visits `k + 1` distinct allocated inodes -/
theorem wfcc_dpath_bound {s : Store} {root : Ino} (hwf : WF s root) {i : Ino} {k : Nat} (h : DPath s root i k) :
    k + 1 ≤ s.inos.length := by
  obtain ⟨depth, hdep⟩ := hwf.depth
  have key : ∃ l : List Ino, l.length = k + 1 ∧ l.Nodup ∧ ∀ x ∈ l, x ∈ s.inos ∧ depth x ≤ depth i := by
    induction h with
    | root =>
      refine ⟨[root], rfl, by simp, ?_⟩
      intro x hx
      simp only [List.mem_singleton] at hx
      subst hx
      exact ⟨wfc_mem_inos_of_get (hr_isSome_of_isDir hwf.rootDir), Nat.le_refl _⟩
    | step hd he hc ih =>
      rename_i d c n k
      obtain ⟨l, hlen, hnd, hall⟩ := ih
      have hdc := hdep d n c he hc
      refine ⟨c :: l, by simp [hlen], ?_, ?_⟩
      · rw [List.nodup_cons]
        refine ⟨fun hmem => ?_, hnd⟩
        have := (hall c hmem).2
        omega
      · intro x hx
        rcases List.mem_cons.1 hx with rfl | hx
        · exact ⟨wfc_mem_inos_of_get (hr_isSome_of_isDir hc), Nat.le_refl _⟩
        · have := hall x hx
          exact ⟨this.1, by omega⟩
  obtain ⟨l, hlen, hnd, hall⟩ := key
  have := wfcc_length_le_of_nodup_subset l s.inos hnd (fun x hx => (hall x hx).1)
  omega

/-! ### the breadth-first depth table -/

/-- after round `r` the table holds exactly the nodes with a path of length ≤ r, each with the length of its path -/
def BfsInv (s : Store) (root : Ino) (acc : List (Ino × Nat)) (r : Nat) : Prop :=
  ∀ i k, AL.lookup i acc = some k ↔ (DPath s root i k ∧ k ≤ r)

theorem wfcc_bfsInv_init (s : Store) (root : Ino) : BfsInv s root [(root, 0)] 0 := by
  intro i k
  constructor
  · intro h
    by_cases hr : root = i
    · subst hr
      simp only [AL.lookup, if_true, Option.some.injEq] at h
      subst h
      exact ⟨.root, Nat.le_refl _⟩
    · simp [AL.lookup, hr] at h
  · rintro ⟨hp, hk⟩
    have : k = 0 := by omega
    subst this
    rw [hp.zero]
    simp [AL.lookup]

/-- the directories discovered in one round of `bfsDepth` -/
def bfsNew (s : Store) (edges : List (Ino × Bytes × Ino)) (acc : List (Ino × Nat)) : List (Ino × Nat) :=
  edges.filterMap fun (d, _, c) =>
    match AL.lookup d acc, AL.lookup c acc with
    | some k, none => if isDirAt s c then some (c, k + 1) else none
    | _, _ => none

theorem bfsDepth_succ (s : Store) (edges : List (Ino × Bytes × Ino)) (fuel : Nat) (acc : List (Ino × Nat)) :
    bfsDepth s edges (fuel + 1) acc =
      match bfsNew s edges acc with
      | [] => acc
      | _ => bfsDepth s edges fuel ((bfsNew s edges acc).eraseDups ++ acc) := rfl

/-- the nodes found in a round -/
theorem wfcc_round {s : Store} {root : Ino} (hwf : WF s root) {acc : List (Ino × Nat)} {r : Nat}
    (hinv : BfsInv s root acc r) (c : Ino) (k : Nat) :
    (c, k) ∈ bfsNew s (allEdges s) acc ↔ (k = r + 1 ∧ DPath s root c (r + 1)) := by
  rw [bfsNew, List.mem_filterMap]
  constructor
  · rintro ⟨⟨d, n, c'⟩, hmem, hsome⟩
    have he := edge_of_mem_allEdges s d n c' hmem
    simp only at hsome
    split at hsome
    · rename_i kd hd hc
      split at hsome
      · rename_i hdir
        simp only [Option.some.injEq, Prod.mk.injEq] at hsome
        obtain ⟨rfl, rfl⟩ := hsome
        obtain ⟨hpd, hkd⟩ := (hinv d kd).1 hd
        have hpc : DPath s root c' (kd + 1) := .step hpd he hdir
        have hgt : ¬ kd + 1 ≤ r := by
          intro hle
          have := (hinv c' (kd + 1)).2 ⟨hpc, hle⟩
          rw [hc] at this
          cases this
        have : kd + 1 = r + 1 := by omega
        rw [this] at hpc ⊢
        exact ⟨rfl, hpc⟩
      · cases hsome
    · cases hsome
  · rintro ⟨rfl, hp⟩
    obtain ⟨d, n, hpd, he, hdir⟩ := hp.inv
    have hd : AL.lookup d acc = some r := (hinv d r).2 ⟨hpd, Nat.le_refl _⟩
    have hc : AL.lookup c acc = none := by
      cases hl : AL.lookup c acc with
      | none => rfl
      | some k2 =>
        obtain ⟨hp2, hk2⟩ := (hinv c k2).1 hl
        have := hp2.unique hwf hp
        omega
    refine ⟨(d, n, c), mem_allEdges_of_edge s d n c he, ?_⟩
    simp [hd, hc, hdir]

/-- with enough rounds the table is exactly the path relation -/
theorem wfcc_bfs {s : Store} {root : Ino} (hwf : WF s root) : ∀ (fuel : Nat) (acc : List (Ino × Nat)) (r : Nat),
    BfsInv s root acc r → (∀ i k, DPath s root i k → k ≤ r + fuel) →
    ∀ i k, AL.lookup i (bfsDepth s (allEdges s) fuel acc) = some k ↔ DPath s root i k := by
  intro fuel
  induction fuel with
  | zero =>
    intro acc r hinv hb i k
    rw [bfsDepth, hinv i k]
    exact ⟨fun h => h.1, fun h => ⟨h, hb i k h⟩⟩
  | succ fuel ih =>
    intro acc r hinv hb i k
    have hround := wfcc_round hwf hinv
    rw [bfsDepth_succ]
    split
    · -- nothing new: no node at distance r + 1, hence none further away
      rename_i hnil
      have hnone : ∀ x, ¬ DPath s root x (r + 1) := by
        intro x hx
        have := (hround x (r + 1)).2 ⟨rfl, hx⟩
        rw [hnil] at this
        cases this
      rw [hinv i k]
      refine ⟨fun h => h.1, fun h => ⟨h, ?_⟩⟩
      by_cases hk : k ≤ r
      · exact hk
      · obtain ⟨x, hx⟩ := h.prefix (r + 1) (by omega)
        exact absurd hx (hnone x)
    · rename_i hne
      refine ih _ (r + 1) ?_ (fun i k h => by have := hb i k h; omega) i k
      intro j kj
      rw [wfcc_lookup_append]
      cases hl : AL.lookup j (bfsNew s (allEdges s) acc).eraseDups with
      | some k' =>
        have hm := wfcc_mem_of_lookup hl
        rw [List.mem_eraseDups, hround] at hm
        obtain ⟨rfl, hp⟩ := hm
        simp only [Option.some.injEq]
        constructor
        · rintro rfl; exact ⟨hp, Nat.le_refl _⟩
        · rintro ⟨hp2, _⟩; exact hp.unique hwf hp2
      | none =>
        simp only
        rw [hinv j kj]
        constructor
        · rintro ⟨hp, hk⟩; exact ⟨hp, by omega⟩
        · rintro ⟨hp, hk⟩
          refine ⟨hp, ?_⟩
          by_cases hk' : kj ≤ r
          · exact hk'
          · have : kj = r + 1 := by omega
            subst this
            have hm := (hround j (r + 1)).2 ⟨rfl, hp⟩
            rw [← List.mem_eraseDups] at hm
            exact absurd hl (wfcc_lookup_isSome_of_mem hm)

/-- the table computed by `wfCheck` -/
theorem wfcc_depths {s : Store} {root : Ino} (hwf : WF s root) (i : Ino) (k : Nat) :
    AL.lookup i (bfsDepth s (allEdges s) (s.inos.length + 1) [(root, 0)]) = some k ↔ DPath s root i k := by
  apply wfcc_bfs hwf _ _ 0 (wfcc_bfsInv_init s root)
  intro i k h
  have := wfcc_dpath_bound hwf h
  omega

/-! ### completeness -/

/-- COMPLETENESS: a heap that satisfies the invariant (with valid entry names) passes the executable check; no
    further condition on the representation is needed -/
theorem wfCheck_complete (s : Store) (root : Ino) (hwf : WF s root) (hn : NamesOK s) : wfCheck s root = true := by
  unfold wfCheck
  simp only [Bool.and_eq_true, List.all_eq_true]
  have hD := wfcc_depths hwf
  generalize bfsDepth s (allEdges s) (s.inos.length + 1) [(root, 0)] = depths at hD
  refine ⟨⟨⟨⟨⟨⟨⟨hwf.rootDir, ?_⟩, ?_⟩, ?_⟩, ?_⟩, ?_⟩, ?_⟩, ?_⟩
  · rintro ⟨d, n, c⟩ hmem
    have he := edge_of_mem_allEdges s d n c hmem
    simp only [bne_iff_ne, ne_eq]
    rintro rfl
    exact hwf.rootNoParent d n he
  · rintro ⟨d, n, c⟩ hmem
    exact hwf.alloc d n c (edge_of_mem_allEdges s d n c hmem)
  · intro i hi
    simpa using hwf.bound i ((hr_mem_inos s i).1 hi)
  · rintro ⟨d, n, c⟩ hmem
    have he := edge_of_mem_allEdges s d n c hmem
    obtain ⟨k, hk⟩ := wfcc_source_reachable hwf d n c he
    simp only [(hD d k).2 hk]
    by_cases hc : isDirAt s c = true
    · simp [hc, (hD c (k + 1)).2 (.step hk he hc)]
    · simp [hc]
  · rintro ⟨d, n, c⟩ hmem
    have he := edge_of_mem_allEdges s d n c hmem
    by_cases hc : isDirAt s c = true
    · simp only [hc, Bool.not_true, Bool.false_or, List.all_eq_true]
      rintro ⟨d', n', c'⟩ hmem'
      have he' := edge_of_mem_allEdges s d' n' c' hmem'
      by_cases hcc : c' = c
      · subst hcc
        obtain ⟨rfl, rfl⟩ := hwf.uniqueParent d n d' n' c' he he' hc
        simp
      · simp [hcc]
    · simp [hc]
  · rintro ⟨d, n, c⟩ hmem
    exact hn d n c (edge_of_mem_allEdges s d n c hmem)
  · intro i hi
    split
    · rename_i m data nl id hg
      simp only [Bool.and_eq_true, beq_iff_eq, decide_eq_true_eq, List.all_eq_true]
      refine ⟨⟨hwf.nlink i m data nl id hg, hwf.idBound i m data nl id hg⟩, ?_⟩
      intro j hj
      split
      · rename_i m' d' nl' id' hg'
        by_cases hid : id' = id
        · subst hid
          have := hwf.ids i j m data nl id' m' d' nl' hg hg'
          simp [this]
        · simp [hid]
      · rfl
    · rfl

/-- the executable check decides the invariant -/
theorem wfCheck_iff (s : Store) (root : Ino) : wfCheck s root = true ↔ WF s root ∧ NamesOK s :=
  ⟨wfCheck_sound s root, fun h => wfCheck_complete s root h.1 h.2⟩

/-- a heap rejected by the check violates the invariant or has an invalid entry name: the harness raises no false
    alarm -/
theorem wfCheck_false_iff (s : Store) (root : Ino) : wfCheck s root = false ↔ ¬ (WF s root ∧ NamesOK s) := by
  rw [← wfCheck_iff]
  simp

instance (s : Store) (root : Ino) : Decidable (WF s root ∧ NamesOK s) :=
  decidable_of_iff _ (wfCheck_iff s root)

end Avfs.FS
