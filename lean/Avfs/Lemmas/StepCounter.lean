import Avfs.Lemmas.StepFailed
import Avfs.Lemmas.Clean
set_option linter.unusedSimpArgs false
set_option linter.unusedVariables false

/-! # `writeFile ""` is refused and changes nothing

Before the repair of `OpenFile` this file held a counterexample (`writeFile_empty_counterexample`): with a current
directory that names a regular file, `writeFile ""` truncated that file and then failed in `Write`, so the
exclusion of `writeFile ""` in `step_failed_unchanged` was necessary.  `OpenFile` now refuses the empty name
before searching, so the opposite holds and the exclusion is gone. -/
namespace Avfs.FS
open Avfs.Path

theorem openFile_empty (s : Store) (v : View) (vid : Nat) (flag perm : Nat) :
    openFile s v vid [] flag perm = (s, .error .ENOENT) := by
  simp [openFile]

/-- on a bound view, `writeFile ""` fails with `ENOENT` and the state is unchanged -/
theorem writeFile_empty_refused (st : FSState) (vid : Nat) (d : Bytes) (perm : Nat) (v : View)
    (hv : st.view vid = some v) : step st vid (.writeFile [] d perm) = (st, .err .ENOENT) := by
  rw [step_some st vid v _ hv]
  simp only [stepV, writeFileV, openFile_empty]

/-- on an unbound view every call fails with `invalid`, the state is unchanged as well -/
theorem writeFile_empty_unchanged (st : FSState) (vid : Nat) (d : Bytes) (perm : Nat) :
    (step st vid (.writeFile [] d perm)).1 = st := by
  cases hv : st.view vid with
  | none => rw [step_none _ _ _ hv]
  | some v => rw [writeFile_empty_refused st vid d perm v hv]

end Avfs.FS
