import Avfs.Lemmas.StepFailed
import Avfs.Lemmas.Clean
set_option linter.unusedSimpArgs false
set_option linter.unusedVariables false

/-! # `writeFile ""` is refused and changes nothing

Before the repair of `OpenFile` this file held a counterexample (`writeFile_empty_counterexample`): with a current
directory that names a regular file, `writeFile ""` truncated that file and then failed in `Write`, so the
exclusion of `writeFile ""` in `step_failed_unchanged` was necessary.  `OpenFile` now refuses the empty name
before searching, so the opposite holds and the exclusion is gone. -/
namespace Avfs.FS
open Avfs.Path

theorem openFile_empty (s : Store) (v : View) (vid : Nat) (flag perm : Nat) :
    openFile s v vid [] flag perm = (s, .error .ENOENT) := by
  simp [openFile]

/-- on a bound view, `writeFile ""` fails with `ENOENT` and the state is unchanged -/
theorem writeFile_empty_refused (st : FSState) (vid : Nat) (d : Bytes) (perm : Nat) (v : View)
    (hv : st.view vid = some v) : step st vid (.writeFile [] d perm) = (st, .err .ENOENT) := by
  rw [step_some st vid v _ hv]
  simp only [stepV, writeFileV, openFile_empty]

/-- on an unbound view every call fails with `invalid`, the state is unchanged as well -/
theorem writeFile_empty_unchanged (st : FSState) (vid : Nat) (d : Bytes) (perm : Nat) :
    (step st vid (.writeFile [] d perm)).1 = st := by
  cases hv : st.view vid with
  | none => rw [step_none _ _ _ hv]
  | some v => rw [writeFile_empty_refused st vid d perm v hv]

/-! # `writeFile` with more than `maxFileSize` bytes fails AFTER creating / truncating the file

Since the file size limit `Write` refuses data that would end beyond `maxFileSize` with EINVAL.  `WriteFile` opens
the file with O_WRONLY|O_CREATE|O_TRUNC first, so when the data is too long the call fails although the file has
already been created (or emptied): the hypothesis `hw` of `step_failed_unchanged` cannot be dropped. -/

/-- whenever the open of `writeFile` changed the heap (created or truncated the file), oversized data make the call
    fail with EINVAL with that change kept -/
theorem writeFileV_oversize (st : FSState) (v : View) (vid : Nat) (p d : Bytes) (perm : Nat) (s1 : Store) (hd : Handle)
    (ho : openFile st.store v vid p oWRONLY_CREATE_TRUNC perm = (s1, .ok hd)) (hne : s1 ≠ st.store)
    (hsz : maxFileSize < d.length) :
    writeFileV st v vid p d perm = ({ st with store := s1 }, .err .EINVAL) := by
  obtain ⟨hn, hom, _, hpos, c, hnd, hs⟩ := openFile_ok _ _ _ _ _ _ _ _ ho
  have hp : p ≠ [] := openFile_ok_ne _ _ _ _ _ _ _ _ ho
  rcases hs with rfl | ⟨m, dd, nl, id, hg⟩
  · exact absurd rfl hne
  · have hne' : hd.name.isEmpty = false := by rw [hn]; exact isEmpty_false_of_ne_sc' hp
    have hw : (hd.om &&& omWrite == 0) = false := by rw [hom]; decide
    have happ : (hd.om &&& omAppend != 0) = false := by rw [hom]; decide
    have hde : d.isEmpty = false := by cases d with
      | nil => simp at hsz
      | cons _ _ => rfl
    have hmax : (0 : Int).toNat + d.length > maxFileSize := by simpa using hsz
    unfold writeFileV
    rw [ho]
    simp only [fileStep, hne', hnd, hg, hw, happ, hde, hpos, hmax, Bool.false_eq_true, if_false, if_true]

/-- kernel-checked instance on the state of `memfs.New()`: `WriteFile("/f", d, 0644)` with `len(d) > maxFileSize`
    returns EINVAL and leaves the new empty file "/f" behind -/
theorem writeFile_oversize_counterexample (d : Bytes) (hd : maxFileSize < d.length) :
    (step initState 0 (.writeFile [47, 102] d 0o644)).2 = .err .EINVAL ∧
    (step initState 0 (.writeFile [47, 102] d 0o644)).1 ≠ initState := by
  have hv : initState.view 0 = some { root := 0, cwd := [SL], uid := 0, gid := 0, admin := true, umask := 0o022 } := by
    decide +kernel
  have hopen : (match openFile initState.store { root := 0, cwd := [SL], uid := 0, gid := 0, admin := true, umask := 0o022 }
        0 [47, 102] oWRONLY_CREATE_TRUNC 0o644 with
      | (s1, .ok _) => decide (s1.next ≠ initState.store.next)
      | _ => false) = true := by decide +kernel
  rw [step_some _ _ _ _ hv]
  simp only [stepV]
  rcases ho : openFile initState.store { root := 0, cwd := [SL], uid := 0, gid := 0, admin := true, umask := 0o022 }
      0 [47, 102] oWRONLY_CREATE_TRUNC 0o644 with ⟨s1, (e1 | h1)⟩
  · rw [ho] at hopen; cases hopen
  · rw [ho] at hopen
    have hnext : s1.next ≠ initState.store.next := by simpa using hopen
    have hne : s1 ≠ initState.store := fun e => hnext (by rw [e])
    rw [writeFileV_oversize initState _ 0 _ d _ s1 h1 ho hne hd]
    exact ⟨rfl, fun e => hne (congrArg FSState.store e)⟩

end Avfs.FS
