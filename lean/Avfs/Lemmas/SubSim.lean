import Avfs.Lemmas.Posix
/-
  C11 (sub_sim): a view obtained with Sub(dir) resolves "/b1/…/bm" exactly as its parent resolves "dir/b1/…/bm", and
  Mkdir / Remove / Stat through the view are the same calls through the parent on the prefixed path — on paths that
  meet no symbolic link, when the directories above `dir` can be searched by the caller (they are not consulted through
  the view: a chroot does not consult them either).
-/
set_option linter.unusedVariables false
set_option linter.unusedSimpArgs false

namespace Avfs.FS
open Avfs.Path

/-- the view Sub returns for a directory node `c`: same user and umask, rooted at `c`, working directory "/" -/
def subView (v : View) (c : Ino) : View := { v with root := c, cwd := [SL] }

/-! ### the descent -/

/-- descending through `a ++ b` is descending through `a`, then through `b` from the directory reached -/
theorem walkPath_append (s : Store) (v : View) (d : Ino) (a b : List Bytes) (hb : b ≠ []) (par c : Ino) (m : Meta)
    (ch : List (Bytes × Ino)) (ha : walkPath s v d a = .found par c) (hc : s.get c = some (.dir m ch)) :
    walkPath s v d (a ++ b) = walkPath s v c b := by
  obtain ⟨y, ys, rfl⟩ : ∃ y ys, b = y :: ys := by
    cases b with
    | nil => exact absurd rfl hb
    | cons y ys => exact ⟨y, ys, rfl⟩
  induction a generalizing d with
  | nil =>
    simp only [walkPath, Resolved.found.injEq] at ha
    obtain ⟨_, rfl⟩ := ha
    rfl
  | cons x xs ih =>
    cases hgd : s.get d with
    | none => cases xs <;> simp [walkPath, hgd] at ha
    | some n =>
      cases n with
      | file mf df nl id => cases xs <;> simp [walkPath, hgd] at ha
      | symlink ms lk => cases xs <;> simp [walkPath, hgd] at ha
      | dir md chd =>
        by_cases hp : checkPerm md omLookup v = true
        · cases hch : s.child d x with
          | none => cases xs <;> simp [walkPath, hgd, hp, hch] at ha
          | some i =>
            cases xs with
            | nil =>
              have hic : i = c := by
                cases hgi : s.get i with
                | none => simp [walkPath, hgd, hp, hch, hgi] at ha; exact ha.2
                | some n => cases n <;> simp [walkPath, hgd, hp, hch, hgi] at ha <;> exact ha.2
              subst hic
              simp [walkPath, hgd, hp, hch, hc]
            | cons x' xs' =>
              cases hgi : s.get i with
              | none => simp [walkPath, hgd, hp, hch, hgi] at ha
              | some n =>
                cases n with
                | file mf df nl id => simp [walkPath, hgd, hp, hch, hgi] at ha
                | symlink ms lk => simp [walkPath, hgd, hp, hch, hgi] at ha
                | dir mi chi =>
                  have ha' : walkPath s v i (x' :: xs') = .found par c := by
                    simpa [walkPath, hgd, hp, hch, hgi] using ha
                  have := ih i ha'
                  simpa [walkPath, hgd, hp, hch, hgi] using this
        · have hp' : checkPerm md omLookup v = false := by simpa using hp
          cases xs <;> simp [walkPath, hgd, hp'] at ha

/-- permission checks read the identity of the caller only: not the root nor the working directory of the view -/
theorem checkPerm_subView (m : Meta) (w : Nat) (v : View) (c : Ino) : checkPerm m w (subView v c) = checkPerm m w v := rfl

theorem dirPerm_subView (s : Store) (d : Ino) (w : Nat) (v : View) (c : Ino) :
    dirPerm s d w (subView v c) = dirPerm s d w v := rfl

/-- the descent does not depend on the root or the working directory of the view -/
theorem walkPath_subView (s : Store) (v : View) (c d : Ino) (cs : List Bytes) :
    walkPath s (subView v c) d cs = walkPath s v d cs := by
  induction cs generalizing d with
  | nil => rfl
  | cons x xs ih =>
    cases xs with
    | nil =>
      simp only [walkPath, checkPerm_subView]
      rfl
    | cons x' xs' =>
      simp only [walkPath, checkPerm_subView, ih]
      try rfl

/-! ### the parent and child returned by the walk in the failure cases

`Agrees` (Lemmas/Namei.lean) fixes the parent and the child the walk returns when the entry is found or only the last
component is missing. `walkPC` gives them in every case (which directory the walk stood in, which entry it looked at),
so that the two walks can be compared as wholes. -/

/-- (parent, child) returned by the walk standing in directory `d` in front of the components -/
def walkPC (s : Store) (v : View) : Ino → List Bytes → Ino × Option Ino
  | d, [] => (d, some d)
  | d, [c] =>
    match s.get d with
    | some (.dir m _) =>
      if !checkPerm m omLookup v then (d, none) else
      match s.child d c with
      | none => (d, none)
      | some i => (d, some i)
    | _ => (d, none)
  | d, c :: c' :: cs =>
    match s.get d with
    | some (.dir m _) =>
      if !checkPerm m omLookup v then (d, none) else
      match s.child d c with
      | none => (d, none)
      | some i =>
        match s.get i with
        | some (.dir mi _) => if checkPerm mi omLookup v then walkPC s v i (c' :: cs) else (d, some i)
        | _ => (d, some i)
    | _ => (d, none)

theorem walkPC_subView (s : Store) (v : View) (c d : Ino) (cs : List Bytes) :
    walkPC s (subView v c) d cs = walkPC s v d cs := by
  induction cs generalizing d with
  | nil => rfl
  | cons x xs ih =>
    cases xs with
    | nil =>
      simp only [walkPC, checkPerm_subView]
      rfl
    | cons x' xs' =>
      simp only [walkPC, checkPerm_subView, ih]
      try rfl

/-- `walkPC` through `a ++ b` is `walkPC` through `b` from the directory `c` that `a` reaches, when `c` may be
    searched (otherwise the walk through `a ++ b` stops in front of `c`, the walk from `c` inside it) -/
theorem walkPC_append (s : Store) (v : View) (d : Ino) (a b : List Bytes) (hb : b ≠ []) (par c : Ino) (m : Meta)
    (ch : List (Bytes × Ino)) (ha : walkPath s v d a = .found par c) (hc : s.get c = some (.dir m ch))
    (hs : checkPerm m omLookup v = true) :
    walkPC s v d (a ++ b) = walkPC s v c b := by
  obtain ⟨y, ys, rfl⟩ : ∃ y ys, b = y :: ys := by
    cases b with
    | nil => exact absurd rfl hb
    | cons y ys => exact ⟨y, ys, rfl⟩
  induction a generalizing d with
  | nil =>
    simp only [walkPath, Resolved.found.injEq] at ha
    obtain ⟨_, rfl⟩ := ha
    rfl
  | cons x xs ih =>
    cases hgd : s.get d with
    | none => cases xs <;> simp [walkPath, hgd] at ha
    | some n =>
      cases n with
      | file mf df nl id => cases xs <;> simp [walkPath, hgd] at ha
      | symlink ms lk => cases xs <;> simp [walkPath, hgd] at ha
      | dir md chd =>
        by_cases hp : checkPerm md omLookup v = true
        · cases hch : s.child d x with
          | none => cases xs <;> simp [walkPath, hgd, hp, hch] at ha
          | some i =>
            cases xs with
            | nil =>
              have hic : i = c := by
                cases hgi : s.get i with
                | none => simp [walkPath, hgd, hp, hch, hgi] at ha; exact ha.2
                | some n => cases n <;> simp [walkPath, hgd, hp, hch, hgi] at ha <;> exact ha.2
              subst hic
              simp [walkPC, hgd, hp, hch, hc, hs]
            | cons x' xs' =>
              cases hgi : s.get i with
              | none => simp [walkPath, hgd, hp, hch, hgi] at ha
              | some n =>
                cases n with
                | file mf df nl id => simp [walkPath, hgd, hp, hch, hgi] at ha
                | symlink ms lk => simp [walkPath, hgd, hp, hch, hgi] at ha
                | dir mi chi =>
                  have ha' : walkPath s v i (x' :: xs') = .found par c := by
                    simpa [walkPath, hgd, hp, hch, hgi] using ha
                  have hpi : checkPerm mi omLookup v = true := by
                    cases hq : checkPerm mi omLookup v with
                    | true => rfl
                    | false => rw [walkPath_denied s v i x' xs' mi chi hgi hq] at ha'; cases ha'
                  have := ih i ha'
                  simpa [walkPC, hgd, hp, hch, hgi, hpi] using this
        · have hp' : checkPerm md omLookup v = false := by simpa using hp
          cases xs <;> simp [walkPath, hgd, hp'] at ha

/-- companion of `loop_agrees_gen`: the parent and the child the loop returns, in every case without link -/
theorem loop_pc {s : Store} {root : Ino} {v : View} (hwf : WF s root) (m : SlMode) :
    ∀ (rest : List Bytes) (c : Bytes) (fuel : Nat) (d : Ino) (it : Iter) (pre : Bytes) (sl : Nat),
      (∀ x ∈ c :: rest, x ≠ [] ∧ ∀ y ∈ x, y ≠ SL) →
      it.path = pre ++ joinWith SL (c :: rest) → it.stop1 = pre.length → fuel ≥ rest.length + 1 →
      isDirAt s d = true →
      (d ≠ v.root → ∀ md ch, s.get d = some (.dir md ch) → checkPerm md omLookup v = true) →
      walkPath s v d (c :: rest) ≠ .viaLink →
      (searchLoop s v m v.root fuel d it sl none).parent = (walkPC s v d (c :: rest)).1 ∧
      (searchLoop s v m v.root fuel d it sl none).child = (walkPC s v d (c :: rest)).2 := by
  intro rest
  induction rest with
  | nil =>
    intro c fuel d it pre sl hall hp hst hf hdir hperm hnl
    obtain ⟨fuel, rfl⟩ : ∃ k, fuel = k + 1 := ⟨fuel - 1, by simp at hf; omega⟩
    have hc := hall c (by simp)
    obtain ⟨it1, hnext, hpart, hl, _⟩ := next_comp it pre c [] hp hst hc.1 hc.2
    have hl := hl rfl
    obtain ⟨md, chd, hgd⟩ := get_of_isDirAt hdir
    rw [searchLoop]
    by_cases hden : checkPerm md omLookup v = true
    · cases hch : s.child d c with
      | none => simp [walkPC, hnext, hpart, hgd, hden, hch, hl]
      | some i =>
        have halloc := hwf.alloc d c i hch
        cases hg : s.get i with
        | none => simp [hg] at halloc
        | some n =>
          cases n with
          | dir mi chi => simp [walkPC, hnext, hpart, hgd, hden, hch, hg, hl]
          | file mf df nl id => simp [walkPC, hnext, hpart, hgd, hden, hch, hg, hl]
          | symlink ms lk => exact absurd (by simp [walkPath, hgd, hden, hch, hg]) hnl
    · have hden' : checkPerm md omLookup v = false := by simpa using hden
      have hdr : d = v.root := Classical.byContradiction fun h => hden (hperm h md chd hgd)
      subst hdr
      simp [walkPC, hnext, hpart, hgd, hden']
  | cons c2 cs ih =>
    intro c fuel d it pre sl hall hp hst hf hdir hperm hnl
    obtain ⟨fuel, rfl⟩ : ∃ k, fuel = k + 1 := ⟨fuel - 1, by simp at hf; omega⟩
    have hc := hall c (by simp)
    obtain ⟨it1, hnext, hpart, _, hl⟩ := next_comp it pre c (c2 :: cs) hp hst hc.1 hc.2
    obtain ⟨hl, hp1, hsp1⟩ := hl (by simp)
    obtain ⟨md, chd, hgd⟩ := get_of_isDirAt hdir
    rw [searchLoop]
    by_cases hden : checkPerm md omLookup v = true
    · cases hch : s.child d c with
      | none => simp [walkPC, hnext, hpart, hgd, hden, hch, hl]
      | some i =>
        have halloc := hwf.alloc d c i hch
        cases hg : s.get i with
        | none => simp [hg] at halloc
        | some n =>
          cases n with
          | dir mi chi =>
            by_cases hpi : checkPerm mi omLookup v = true
            · have hw : walkPath s v d (c :: c2 :: cs) = walkPath s v i (c2 :: cs) := by
                simp [walkPath, hgd, hden, hch, hg]
              have hrec := ih c2 fuel i it1 (pre ++ c ++ [SL]) sl (fun x hx => hall x (by simp at hx ⊢; exact Or.inr hx))
                hp1 hsp1 (by simp at hf ⊢; omega) (isDirAt_of_get hg)
                (fun _ md' ch' hg' => by rw [hg] at hg'; cases hg'; exact hpi) (hw ▸ hnl)
              have hq : walkPC s v d (c :: c2 :: cs) = walkPC s v i (c2 :: cs) := by
                simp [walkPC, hgd, hden, hch, hg, hpi]
              rw [hq]
              simpa [hnext, hpart, hgd, hden, hch, hg, hl, hpi] using hrec
            · have hpi' : checkPerm mi omLookup v = false := by simpa using hpi
              simp [walkPC, hnext, hpart, hgd, hden, hch, hg, hl, hpi']
          | file mf df nl id => simp [walkPC, hnext, hpart, hgd, hden, hch, hg, hl]
          | symlink ms lk => exact absurd (by simp [walkPath, hgd, hden, hch, hg]) hnl
    · have hden' : checkPerm md omLookup v = false := by simpa using hden
      have hdr : d = v.root := Classical.byContradiction fun h => hden (hperm h md chd hgd)
      subst hdr
      simp [walkPC, hnext, hpart, hgd, hden']

/-- the parent and the child `searchNode` returns on a clean absolute path that meets no symbolic link, for a view
    rooted at any directory of a well-formed heap -/
theorem searchNode_pc (s : Store) (root : Ino) (v : View) (hwf : WF s root)
    (hvr : ∃ m ch, s.get v.root = some (.dir m ch)) (cs : List Bytes) (hall : ∀ c ∈ cs, c ≠ [] ∧ ∀ x ∈ c, x ≠ SL)
    (hdots : ∀ c ∈ cs, c ≠ [DOT] ∧ c ≠ [DOT, DOT]) (m : SlMode) (hnl : walkPath s v v.root cs ≠ .viaLink) :
    (searchNode s v (SL :: joinWith SL cs) m).parent = (walkPC s v v.root cs).1 ∧
    (searchNode s v (SL :: joinWith SL cs) m).child = (walkPC s v v.root cs).2 := by
  unfold searchNode
  simp only [abs_joined cs v.cwd hall hdots]
  have hfuel := searchFuel_ge s (SL :: joinWith SL cs)
  cases cs with
  | nil =>
    obtain ⟨k, hk⟩ : ∃ k, searchFuel s (SL :: joinWith SL []) = k + 1 := ⟨_, (Nat.sub_add_cancel (by omega)).symm⟩
    rw [hk, searchLoop]
    simp [joinWith, Iter.new, Iter.next, volumeNameLen, walkPC]
  | cons c cs =>
    obtain ⟨mr, chr, hgr⟩ := hvr
    refine loop_pc hwf m cs c (searchFuel s (SL :: joinWith SL (c :: cs))) v.root
      (Iter.new .linux (SL :: joinWith SL (c :: cs))) [SL] 0 hall rfl rfl ?_ (isDirAt_of_get hgr)
      (fun h => absurd rfl h) hnl
    have := length_joinWith_ge SL (c :: cs) (fun x hx => (hall x hx).1)
    simp only [List.length_cons] at this hfuel ⊢
    omega

/-- two walks that agree with the same link-free descent return the same error class -/
theorem Agrees.err_eq {w : Resolved} {r1 r2 : SR} (h1 : Agrees w r1) (h2 : Agrees w r2) (hnl : w ≠ .viaLink) :
    r1.err = r2.err := by
  cases w with
  | found par c => exact h1.1.trans h2.1.symm
  | missingLast par n => exact h1.1.trans h2.1.symm
  | missingDir => exact h1.1.trans h2.1.symm
  | notDir => exact h1.trans h2.symm
  | denied => exact h1.trans h2.symm
  | viaLink => exact absurd rfl hnl

/-! ### the simulation -/

/-- Resolution through the view = resolution through the parent on the prefixed path: same error class and, when
    the directory `c` the view is rooted at may be searched by the caller, same parent and child nodes (`hwf` is the
    invariant of the whole tree; the view root `c` is the directory `a` resolves to).

    STATEMENT CHANGE (the original conclusion `rv.err = rp.err ∧ rv.child = rp.child ∧ rv.parent = rp.parent` is
    false): when `c` may not be searched both walks fail with `acces`, but the view stands IN `c` (root check:
    parent `c`, no child) while the parent view stands IN FRONT of it (`c` is the child, refused as a non-last
    component): `sub_sim_search_cex` below. The callers only read the error class in that case. -/
theorem sub_sim_search (s : Store) (root : Ino) (v : View) (hwf : WF s root) (hn : NamesOK s) (hv : ViewOK s v)
    (hroot : v.root = root) (a b : List Bytes) (hb : b ≠ [])
    (hall : ∀ x ∈ a ++ b, x ≠ [] ∧ ∀ y ∈ x, y ≠ SL) (hdots : ∀ x ∈ a ++ b, x ≠ [DOT] ∧ x ≠ [DOT, DOT])
    (par c : Ino) (mt : Meta) (ch : List (Bytes × Ino))
    (ha : walkPath s v root a = .found par c) (hc : s.get c = some (.dir mt ch)) (m : SlMode) :
    let rv := searchNode s (subView v c) (SL :: joinWith SL b) m
    let rp := searchNode s v (SL :: joinWith SL (a ++ b)) m
    walkPath s v root (a ++ b) = .viaLink ∨
      (rv.err = rp.err ∧ (checkPerm mt omLookup v = true → rv.child = rp.child ∧ rv.parent = rp.parent)) := by
  intro rv rp
  by_cases hnl : walkPath s v root (a ++ b) = .viaLink
  · exact Or.inl hnl
  · refine Or.inr ⟨?_, fun hs => ?_⟩
    · have hallb : ∀ x ∈ b, x ≠ [] ∧ ∀ y ∈ x, y ≠ SL := fun x hx => hall x (List.mem_append_right a hx)
      have hdotsb : ∀ x ∈ b, x ≠ [DOT] ∧ x ≠ [DOT, DOT] := fun x hx => hdots x (List.mem_append_right a hx)
      have h1 : Agrees (walkPath s (subView v c) c b) rv :=
        searchNode_eq_walkPath_gen s root (subView v c) hwf ⟨mt, ch, hc⟩ b hallb hdotsb m
      rw [walkPath_subView, ← walkPath_append s v root a b hb par c mt ch ha hc] at h1
      have h2 : Agrees (walkPath s v v.root (a ++ b)) rp :=
        searchNode_eq_walkPath_gen s root v hwf (hroot ▸ get_of_isDirAt hwf.rootDir) (a ++ b) hall hdots m
      rw [hroot] at h2
      exact h1.err_eq h2 hnl
    · have hallb : ∀ x ∈ b, x ≠ [] ∧ ∀ y ∈ x, y ≠ SL := fun x hx => hall x (List.mem_append_right a hx)
      have hdotsb : ∀ x ∈ b, x ≠ [DOT] ∧ x ≠ [DOT, DOT] := fun x hx => hdots x (List.mem_append_right a hx)
      have hwv : walkPath s (subView v c) c b = walkPath s v root (a ++ b) := by
        rw [walkPath_subView, ← walkPath_append s v root a b hb par c mt ch ha hc]
      have h1 := searchNode_pc s root (subView v c) hwf ⟨mt, ch, hc⟩ b hallb hdotsb m (by
        show walkPath s (subView v c) c b ≠ .viaLink
        rw [hwv]; exact hnl)
      have h2 := searchNode_pc s root v hwf (hroot ▸ get_of_isDirAt hwf.rootDir) (a ++ b) hall hdots m
        (by rw [hroot]; exact hnl)
      have hq : walkPC s (subView v c) (subView v c).root b = walkPC s v v.root (a ++ b) := by
        show walkPC s (subView v c) c b = _
        rw [walkPC_subView, hroot, walkPC_append s v root a b hb par c mt ch ha hc hs]
      rw [hq] at h1
      exact ⟨h1.2.trans h2.2.symm, h1.1.trans h2.1.symm⟩

theorem posixMkdir_subView (s : Store) (v : View) (c : Ino) (w : Resolved) :
    posixMkdir s (subView v c) w = posixMkdir s v w := by
  cases w <;> rfl

theorem posixRemove_subView (s : Store) (v : View) (c : Ino) (w : Resolved) :
    posixRemove s (subView v c) w = posixRemove s v w := by
  cases w <;> rfl

theorem createDir_subView (s : Store) (v : View) (c par : Ino) (name : Bytes) (perm : Nat) :
    createDir s (subView v c) par name perm = createDir s v par name perm := rfl

theorem getLast_append_right (a b : List Bytes) (hb : b ≠ []) (h : a ++ b ≠ []) :
    (a ++ b).getLast h = b.getLast hb := by
  induction a with
  | nil => rfl
  | cons x xs ih =>
    have hx : xs ++ b ≠ [] := by
      intro h0; exact hb (List.append_eq_nil_iff.mp h0).2
    simp only [List.cons_append]
    rw [List.getLast_cons hx]
    exact ih hx

/-- Mkdir, Remove and Stat through the view are the calls through the parent on the prefixed path -/
theorem sub_sim_mkdir (s : Store) (root : Ino) (v : View) (hwf : WF s root) (hn : NamesOK s) (hv : ViewOK s v)
    (hroot : v.root = root) (a b : List Bytes) (hb : b ≠ [])
    (hall : ∀ x ∈ a ++ b, x ≠ [] ∧ ∀ y ∈ x, y ≠ SL) (hdots : ∀ x ∈ a ++ b, x ≠ [DOT] ∧ x ≠ [DOT, DOT])
    (par c : Ino) (mt : Meta) (ch : List (Bytes × Ino))
    (ha : walkPath s v root a = .found par c) (hc : s.get c = some (.dir mt ch)) (perm : Nat) :
    walkPath s v root (a ++ b) = .viaLink ∨
    mkdir s (subView v c) (SL :: joinWith SL b) perm = mkdir s v (SL :: joinWith SL (a ++ b)) perm := by
  have hallb : ∀ x ∈ b, x ≠ [] ∧ ∀ y ∈ x, y ≠ SL := fun x hx => hall x (List.mem_append_right a hx)
  have hdotsb : ∀ x ∈ b, x ≠ [DOT] ∧ x ≠ [DOT, DOT] := fun x hx => hdots x (List.mem_append_right a hx)
  have hne : a ++ b ≠ [] := fun h0 => hb (List.append_eq_nil_iff.mp h0).2
  have hwv : walkPath s (subView v c) c b = walkPath s v root (a ++ b) := by
    rw [walkPath_subView, ← walkPath_append s v root a b hb par c mt ch ha hc]
  have h1 := mkdir_posix_gen s root (subView v c) hwf ⟨mt, ch, hc⟩ b hb hallb hdotsb perm
  have h2 := mkdir_posix_gen s root v hwf (hroot ▸ get_of_isDirAt hwf.rootDir) (a ++ b) hne hall hdots perm
  change (match posixMkdir s (subView v c) (walkPath s (subView v c) c b) with
    | .fail e => _ | .create par name => _ | .outside => True) at h1
  rw [hwv, posixMkdir_subView] at h1
  rw [hroot] at h2
  cases hw : walkPath s v root (a ++ b) with
  | viaLink => exact Or.inl rfl
  | found p0 c0 =>
    right
    simp only [hw, posixMkdir] at h1 h2
    rw [h1, h2]
  | missingLast p0 name =>
    right
    simp only [hw, posixMkdir] at h1 h2
    by_cases hd : dirPerm s p0 (omWrite ||| omLookup) v = true
    · simp only [hd, if_true] at h1 h2
      rw [h1.2, h2.2, createDir_subView]
    · simp only [hd] at h1 h2
      rw [h1, h2]
  | missingDir =>
    right
    simp only [hw, posixMkdir] at h1 h2
    rw [h1, h2]
  | notDir =>
    right
    simp only [hw, posixMkdir] at h1 h2
    rw [h1, h2]
  | denied =>
    right
    simp only [hw, posixMkdir] at h1 h2
    rw [h1, h2]

theorem sub_sim_remove (s : Store) (root : Ino) (v : View) (hwf : WF s root) (hn : NamesOK s) (hv : ViewOK s v)
    (hroot : v.root = root) (a b : List Bytes) (hb : b ≠ [])
    (hall : ∀ x ∈ a ++ b, x ≠ [] ∧ ∀ y ∈ x, y ≠ SL) (hdots : ∀ x ∈ a ++ b, x ≠ [DOT] ∧ x ≠ [DOT, DOT])
    (par c : Ino) (mt : Meta) (ch : List (Bytes × Ino))
    (ha : walkPath s v root a = .found par c) (hc : s.get c = some (.dir mt ch)) :
    walkPath s v root (a ++ b) = .viaLink ∨
    remove s (subView v c) (SL :: joinWith SL b) = remove s v (SL :: joinWith SL (a ++ b)) := by
  have hallb : ∀ x ∈ b, x ≠ [] ∧ ∀ y ∈ x, y ≠ SL := fun x hx => hall x (List.mem_append_right a hx)
  have hdotsb : ∀ x ∈ b, x ≠ [DOT] ∧ x ≠ [DOT, DOT] := fun x hx => hdots x (List.mem_append_right a hx)
  have hne : a ++ b ≠ [] := fun h0 => hb (List.append_eq_nil_iff.mp h0).2
  have hwv : walkPath s (subView v c) c b = walkPath s v root (a ++ b) := by
    rw [walkPath_subView, ← walkPath_append s v root a b hb par c mt ch ha hc]
  have h1 := remove_posix_gen s root (subView v c) hwf ⟨mt, ch, hc⟩ b hb hallb hdotsb
  have h2 := remove_posix_gen s root v hwf (hroot ▸ get_of_isDirAt hwf.rootDir) (a ++ b) hne hall hdots
  change (match posixRemove s (subView v c) (walkPath s (subView v c) c b) with
    | .fail e => _ | .unlink par c => _ | .outside => True) at h1
  rw [hwv, posixRemove_subView] at h1
  rw [hroot, getLast_append_right a b hb hne] at h2
  by_cases hnl : walkPath s v root (a ++ b) = .viaLink
  · exact Or.inl hnl
  · right
    cases hr : posixRemove s v (walkPath s v root (a ++ b)) with
    | fail e =>
      simp only [hr] at h1 h2
      rw [h1, h2]
    | unlink p0 c0 =>
      simp only [hr] at h1 h2
      rw [h1, h2]
    | outside =>
      exfalso
      cases hw : walkPath s v root (a ++ b) with
      | viaLink => exact hnl hw
      | found p0 c0 =>
        rw [hw] at hr
        simp only [posixRemove] at hr
        repeat' split at hr
        all_goals cases hr
      | missingLast p0 name => rw [hw] at hr; cases hr
      | missingDir => rw [hw] at hr; cases hr
      | notDir => rw [hw] at hr; cases hr
      | denied => rw [hw] at hr; cases hr

theorem sub_sim_stat (s : Store) (root : Ino) (v : View) (hwf : WF s root) (hn : NamesOK s) (hv : ViewOK s v)
    (hroot : v.root = root) (a b : List Bytes) (hb : b ≠ [])
    (hall : ∀ x ∈ a ++ b, x ≠ [] ∧ ∀ y ∈ x, y ≠ SL) (hdots : ∀ x ∈ a ++ b, x ≠ [DOT] ∧ x ≠ [DOT, DOT])
    (par c : Ino) (mt : Meta) (ch : List (Bytes × Ino))
    (ha : walkPath s v root a = .found par c) (hc : s.get c = some (.dir mt ch)) (m : SlMode) :
    walkPath s v root (a ++ b) = .viaLink ∨
    stat s (subView v c) (SL :: joinWith SL b) m = stat s v (SL :: joinWith SL (a ++ b)) m := by
  have hallb : ∀ x ∈ b, x ≠ [] ∧ ∀ y ∈ x, y ≠ SL := fun x hx => hall x (List.mem_append_right a hx)
  have hdotsb : ∀ x ∈ b, x ≠ [DOT] ∧ x ≠ [DOT, DOT] := fun x hx => hdots x (List.mem_append_right a hx)
  have hne : a ++ b ≠ [] := fun h0 => hb (List.append_eq_nil_iff.mp h0).2
  have hwv : walkPath s (subView v c) c b = walkPath s v root (a ++ b) := by
    rw [walkPath_subView, ← walkPath_append s v root a b hb par c mt ch ha hc]
  obtain ⟨hs1, h1⟩ := stat_posix_gen s root (subView v c) hwf ⟨mt, ch, hc⟩ b hb hallb hdotsb m
  obtain ⟨hs2, h2⟩ := stat_posix_gen s root v hwf (hroot ▸ get_of_isDirAt hwf.rootDir) (a ++ b) hne hall hdots m
  change (match walkPath s (subView v c) c b with
    | .found _ c => _ | .missingLast _ _ => _ | .missingDir => _ | .notDir => _ | .denied => _ | .viaLink => True) at h1
  rw [hwv] at h1
  rw [hroot, getLast_append_right a b hb hne] at h2
  cases hw : walkPath s v root (a ++ b) with
  | viaLink => exact Or.inl rfl
  | found p0 c0 =>
    right
    simp only [hw] at h1 h2
    obtain ⟨i1, hi1, ho1⟩ := h1
    obtain ⟨i2, hi2, ho2⟩ := h2
    have : i1 = i2 := Option.some.inj (hi1.symm.trans hi2)
    subst this
    exact Prod.ext (hs1.trans hs2.symm) (ho1.trans ho2.symm)
  | missingLast p0 name =>
    right
    simp only [hw] at h1 h2
    exact Prod.ext (hs1.trans hs2.symm) (h1.trans h2.symm)
  | missingDir =>
    right
    simp only [hw] at h1 h2
    exact Prod.ext (hs1.trans hs2.symm) (h1.trans h2.symm)
  | notDir =>
    right
    simp only [hw] at h1 h2
    exact Prod.ext (hs1.trans hs2.symm) (h1.trans h2.symm)
  | denied =>
    right
    simp only [hw] at h1 h2
    exact Prod.ext (hs1.trans hs2.symm) (h1.trans h2.symm)

/-! ### non-vacuity: the simulation on a concrete reachable heap (`pxStore`, Lemmas/Posix.lean), view rooted at "/a" -/

/-- the administrator on the whole volume -/
def admView : View := { root := 0, cwd := [SL], uid := 0, gid := 0, admin := true, umask := 0o022 }

theorem admView_ok : ViewOK pxStore admView := ⟨by decide +kernel, by decide⟩

/-- "/a" is inode 4: mode 0755 of the administrator, entries "f" (file 6) and "b" (directory 5, mode 0700) -/
theorem pxStore_a : pxStore.get 4 = some (.dir ⟨0o755, 0, 0, none⟩ [([102], 6), ([98], 5)]) := by decide +kernel

/-- the plain user (uid 1000) through Sub("/a"): Mkdir("/b/x") is Mkdir("/a/b/x") of the parent view — EACCES, "b" is
    0700 of the administrator; Mkdir("/x") is Mkdir("/a/x") — EACCES, "/a" is not writable; Lstat("/f") is
    Lstat("/a/f"): the file under the name "f" -/
example :
    mkdir pxStore (subView exView 4) [SL, 98, SL, 120] 0o755 = (pxStore, .err .EACCES) ∧
    mkdir pxStore (subView exView 4) [SL, 120] 0o755 = (pxStore, .err .EACCES) ∧
    stat pxStore (subView exView 4) [SL, 102] .lstat =
      (pxStore, .ok (.info ⟨[102], 1, 0o644, 0, 0, 1, 2, 1, none⟩)) := by
  have h1 := sub_sim_mkdir pxStore 0 exView pxStore_wf.1 pxStore_wf.2 pxView_ok rfl [cA] [[98], [120]] (by simp)
    (by decide) (by decide) 0 4 _ _ (by decide +kernel) pxStore_a 0o755
  have h2 := sub_sim_mkdir pxStore 0 exView pxStore_wf.1 pxStore_wf.2 pxView_ok rfl [cA] [[120]] (by simp)
    (by decide) (by decide) 0 4 _ _ (by decide +kernel) pxStore_a 0o755
  have h3 := sub_sim_stat pxStore 0 exView pxStore_wf.1 pxStore_wf.2 pxView_ok rfl [cA] [[102]] (by simp)
    (by decide) (by decide) 0 4 _ _ (by decide +kernel) pxStore_a .lstat
  have n1 : walkPath pxStore exView 0 ([cA] ++ [[98], [120]]) ≠ .viaLink := by decide +kernel
  have n2 : walkPath pxStore exView 0 ([cA] ++ [[120]]) ≠ .viaLink := by decide +kernel
  have n3 : walkPath pxStore exView 0 ([cA] ++ [[102]]) ≠ .viaLink := by decide +kernel
  have e1 : mkdir pxStore (subView exView 4) [SL, 98, SL, 120] 0o755 =
      mkdir pxStore exView [SL, 97, SL, 98, SL, 120] 0o755 := h1.resolve_left n1
  have e2 : mkdir pxStore (subView exView 4) [SL, 120] 0o755 = mkdir pxStore exView [SL, 97, SL, 120] 0o755 :=
    h2.resolve_left n2
  have e3 : stat pxStore (subView exView 4) [SL, 102] .lstat = stat pxStore exView [SL, 97, SL, 102] .lstat :=
    h3.resolve_left n3
  -- the parent side: `mkdir_posix` / `stat_posix`
  have p1 := mkdir_posix pxStore 0 exView pxStore_wf.1 pxStore_wf.2 pxView_ok rfl [cA, [98], [120]] (by simp)
    (by decide) (by decide) 0o755
  have p2 := mkdir_posix pxStore 0 exView pxStore_wf.1 pxStore_wf.2 pxView_ok rfl [cA, [120]] (by simp)
    (by decide) (by decide) 0o755
  have p3 := stat_posix pxStore 0 exView pxStore_wf.1 pxStore_wf.2 pxView_ok rfl [cA, [102]] (by simp)
    (by decide) (by decide) .lstat
  have r1 : posixMkdir pxStore exView (walkPath pxStore exView 0 [cA, [98], [120]]) = .fail .EACCES := by
    decide +kernel
  have r2 : posixMkdir pxStore exView (walkPath pxStore exView 0 [cA, [120]]) = .fail .EACCES := by decide +kernel
  have r3 : walkPath pxStore exView 0 [cA, [102]] = .found 4 6 := by decide +kernel
  have f3 : fillStat pxStore 6 [102] = some ⟨[102], 1, 0o644, 0, 0, 1, 2, 1, none⟩ := by decide +kernel
  simp only [r1] at p1
  simp only [r2] at p2
  simp only [r3] at p3
  obtain ⟨hs3, i3, hi3, ho3⟩ := p3
  have e : i3 = ⟨[102], 1, 0o644, 0, 0, 1, 2, 1, none⟩ := Option.some.inj (hi3.symm.trans f3)
  subst e
  exact ⟨e1.trans p1, e2.trans p2, e3.trans (Prod.ext hs3 ho3)⟩

/-- the administrator through Sub("/a"): Mkdir("/b/x") is Mkdir("/a/b/x") of the parent view — the entry "x" is made in
    "/a/b" (inode 5) with the administrator's identity; Stat("/b") is Stat("/a/b"): the directory under the name "b" -/
example :
    mkdir pxStore (subView admView 4) [SL, 98, SL, 120] 0o755 =
      ((createDir pxStore admView 5 [120] 0o755).1, .ok .unit) ∧
    stat pxStore (subView admView 4) [SL, 98] .stat =
      (pxStore, .ok (.info ⟨[98], 0, 0o700, 0, 0, 0, 0, 0, none⟩)) := by
  have h1 := sub_sim_mkdir pxStore 0 admView pxStore_wf.1 pxStore_wf.2 admView_ok rfl [cA] [[98], [120]] (by simp)
    (by decide) (by decide) 0 4 _ _ (by decide +kernel) pxStore_a 0o755
  have h2 := sub_sim_stat pxStore 0 admView pxStore_wf.1 pxStore_wf.2 admView_ok rfl [cA] [[98]] (by simp)
    (by decide) (by decide) 0 4 _ _ (by decide +kernel) pxStore_a .stat
  have n1 : walkPath pxStore admView 0 ([cA] ++ [[98], [120]]) ≠ .viaLink := by decide +kernel
  have n2 : walkPath pxStore admView 0 ([cA] ++ [[98]]) ≠ .viaLink := by decide +kernel
  have e1 : mkdir pxStore (subView admView 4) [SL, 98, SL, 120] 0o755 =
      mkdir pxStore admView [SL, 97, SL, 98, SL, 120] 0o755 := h1.resolve_left n1
  have e2 : stat pxStore (subView admView 4) [SL, 98] .stat = stat pxStore admView [SL, 97, SL, 98] .stat :=
    h2.resolve_left n2
  have p1 := mkdir_posix pxStore 0 admView pxStore_wf.1 pxStore_wf.2 admView_ok rfl [cA, [98], [120]] (by simp)
    (by decide) (by decide) 0o755
  have p2 := stat_posix pxStore 0 admView pxStore_wf.1 pxStore_wf.2 admView_ok rfl [cA, [98]] (by simp)
    (by decide) (by decide) .stat
  have r1 : posixMkdir pxStore admView (walkPath pxStore admView 0 [cA, [98], [120]]) = .create 5 [120] := by
    decide +kernel
  have r2 : walkPath pxStore admView 0 [cA, [98]] = .found 4 5 := by decide +kernel
  have f2 : fillStat pxStore 5 [98] = some ⟨[98], 0, 0o700, 0, 0, 0, 0, 0, none⟩ := by decide +kernel
  simp only [r1] at p1
  simp only [r2] at p2
  obtain ⟨hs2, i2, hi2, ho2⟩ := p2
  have e : i2 = ⟨[98], 0, 0o700, 0, 0, 0, 0, 0, none⟩ := Option.some.inj (hi2.symm.trans f2)
  subst e
  exact ⟨e1.trans p1.2, e2.trans (Prod.ext hs2 ho2)⟩

/-- COUNTEREXAMPLE to the unconditional form of `sub_sim_search` (child and parent equal whatever the permissions of
    the view's root): the plain user, view rooted at "/a/b" (inode 5, mode 0700 of the administrator, which
    "/a/b" does resolve to: the last component is not searched), path "/x". All hypotheses hold, no link is met, both
    walks answer `acces`, but the view returns (parent 5, no child) and the parent view (parent 4, child 5). -/
theorem sub_sim_search_cex :
    walkPath pxStore exView 0 [cA, [98]] = .found 4 5 ∧
    pxStore.get 5 = some (.dir ⟨0o700, 0, 0, none⟩ []) ∧
    walkPath pxStore exView 0 ([cA, [98]] ++ [[120]]) = .denied ∧
    (let rv := searchNode pxStore (subView exView 5) (SL :: joinWith SL [[120]]) .lstat
     let rp := searchNode pxStore exView (SL :: joinWith SL ([cA, [98]] ++ [[120]])) .lstat
     rv.err = .acces ∧ rp.err = .acces ∧ rv.child = none ∧ rp.child = some 5 ∧ rv.parent = 5 ∧ rp.parent = 4) := by
  decide +kernel

end Avfs.FS
