import Avfs.Conc.LinDir
/-
  Proofs for Avfs/Conc/Lin.lean and its directory instance.
-/
namespace Avfs.Conc.Lin

variable {σ α ω ρ : Type}

/-! ### generic helpers -/

/-- the list of decided calls contributed by one step -/
def decided (d : Option (Nat × α)) : List (Nat × α) := match d with | some x => [x] | none => []

theorem run_nil (impl : α → TwoPhase σ ω ρ) (c : Config σ α ω ρ) : run impl c [] = (c, []) := rfl

theorem run_cons (impl : α → TwoPhase σ ω ρ) (c : Config σ α ω ρ) (t : Nat) (ts : List Nat) :
    run impl c (t :: ts) =
      ((run impl (step impl c t).1 ts).1, decided (step impl c t).2 ++ (run impl (step impl c t).1 ts).2) := rfl

theorem seqRun_append (spec : α → σ → σ × ρ) (l1 l2 : List (Nat × α)) (s : σ) (res : Nat → List ρ) :
    seqRun spec s res (l1 ++ l2) = seqRun spec (seqRun spec s res l1).1 (seqRun spec s res l1).2 l2 := by
  induction l1 generalizing s res with
  | nil => rfl
  | cons x l1 ih =>
    obtain ⟨t, a⟩ := x
    simp only [List.cons_append, seqRun]
    exact ih _ _

theorem seqRun_single (spec : α → σ → σ × ρ) (s : σ) (res : Nat → List ρ) (t : Nat) (a : α) :
    seqRun spec s res [(t, a)] = ((spec a s).1, fun u => if u = t then res u ++ [(spec a s).2] else res u) := rfl

theorem callsOf_append (t : Nat) (l1 l2 : List (Nat × α)) : callsOf t (l1 ++ l2) = callsOf t l1 ++ callsOf t l2 := by
  simp [callsOf]

theorem callsOf_single_self (t : Nat) (a : α) : callsOf t [(t, a)] = [a] := by
  simp [callsOf]

theorem callsOf_single_ne {t u : Nat} (a : α) (h : t ≠ u) : callsOf u [(t, a)] = [] := by
  simp [callsOf, h]

/-- the invariant of the induction over the schedule: `res` = results accumulated so far, `pre` = log so far -/
structure Inv (impl : α → TwoPhase σ ω ρ) (I : σ → Prop) (progs : List (List α)) (c : Config σ α ω ρ)
    (res : Nat → List ρ) (pre : List (Nat × α)) : Prop where
  sh : I c.sh
  len : c.ths.length = progs.length
  thr : ∀ t th, c.ths[t]? = some th →
    th.done = res t ∧ (∃ p, progs[t]? = some p ∧ callsOf t pre ++ th.todo = p) ∧
    (∀ w, th.pc = some w → ∃ a rest s0, th.todo = a :: rest ∧ I s0 ∧ (impl a).walk s0 = .inr w)

/-- a decisive step: thread `t` finishes its current call `a` with result `r`, the shared state becomes `s'` -/
theorem Inv.decide {impl : α → TwoPhase σ ω ρ} {I : σ → Prop} {progs : List (List α)} {c : Config σ α ω ρ}
    {res : Nat → List ρ} {pre : List (Nat × α)} (h : Inv impl I progs c res pre)
    {t : Nat} {th : Thread α ω ρ} {a : α} {rest : List α} (hth : c.ths[t]? = some th) (htodo : th.todo = a :: rest)
    (s' : σ) (r : ρ) (hI' : I s') :
    Inv impl I progs { sh := s', ths := c.ths.set t { todo := rest, pc := none, done := th.done ++ [r] } }
      (fun u => if u = t then res u ++ [r] else res u) (pre ++ [(t, a)]) := by
  refine ⟨hI', by simpa using h.len, ?_⟩
  intro u th' hu
  simp only [List.getElem?_set] at hu
  by_cases htu : t = u
  · subst htu
    obtain ⟨hd, ⟨p, hp, hc⟩, _⟩ := h.thr t th hth
    simp only [if_true] at hu
    split at hu
    · cases hu
      refine ⟨by simp [hd], ⟨p, hp, ?_⟩, by simp⟩
      rw [callsOf_append, callsOf_single_self, ← hc, htodo]
      simp
    · cases hu
  · simp only [if_neg htu] at hu
    obtain ⟨hd, ⟨p, hp, hc⟩, hcap⟩ := h.thr u th' hu
    have hut : u ≠ t := fun e => htu e.symm
    refine ⟨by simp [hd, hut], ⟨p, hp, ?_⟩, hcap⟩
    rw [callsOf_append, callsOf_single_ne a htu]
    simpa using hc

/-- one step preserves the invariant and agrees with the sequential execution of what it decided -/
theorem step_inv (impl : α → TwoPhase σ ω ρ) (spec : α → σ → σ × ρ) (I : σ → Prop)
    (hI : ∀ a s, I s → I (spec a s).1)
    (hW : ∀ a s r, I s → (impl a).walk s = .inl r → spec a s = (s, r))
    (hC : ∀ a w s s0, I s → I s0 → (impl a).walk s0 = .inr w → (impl a).commit w s = spec a s)
    {progs : List (List α)} {c : Config σ α ω ρ} {res : Nat → List ρ} {pre : List (Nat × α)}
    (h : Inv impl I progs c res pre) (t : Nat) :
    (step impl c t).1.sh = (seqRun spec c.sh res (decided (step impl c t).2)).1 ∧
    Inv impl I progs (step impl c t).1 (seqRun spec c.sh res (decided (step impl c t).2)).2
      (pre ++ decided (step impl c t).2) := by
  unfold step
  split
  · exact ⟨rfl, by simpa [decided, seqRun] using h⟩
  · rename_i th hth
    split
    · exact ⟨rfl, by simpa [decided, seqRun] using h⟩
    · rename_i a rest htodo
      obtain ⟨hd, hp, hcap⟩ := h.thr t th hth
      split
      · rename_i hpc
        split
        · rename_i r hw
          have hs := hW a c.sh r h.sh hw
          refine ⟨by simp [decided, seqRun_single, hs], ?_⟩
          simp only [decided, seqRun_single, hs]
          exact h.decide hth htodo c.sh r h.sh
        · rename_i w hw
          refine ⟨rfl, ?_⟩
          simp only [decided, seqRun, List.append_nil]
          refine ⟨h.sh, by simpa using h.len, ?_⟩
          intro u th' hu
          simp only [List.getElem?_set] at hu
          by_cases htu : t = u
          · subst htu
            simp only [if_true] at hu
            split at hu
            · cases hu
              exact ⟨hd, hp, fun w' hw' => ⟨a, rest, c.sh, htodo, h.sh, by
                simp only [Option.some.injEq] at hw'; subst hw'; exact hw⟩⟩
            · cases hu
          · simp only [if_neg htu] at hu
            exact h.thr u th' hu
      · rename_i w hpc
        obtain ⟨a', rest', s0, htodo', hs0, hw⟩ := hcap w hpc
        rw [htodo] at htodo'
        cases htodo'
        have hs := hC a w c.sh s0 h.sh hs0 hw
        refine ⟨by simp [decided, seqRun_single, hs], ?_⟩
        simp only [decided, seqRun_single, hs]
        exact h.decide hth htodo _ _ (hI a c.sh h.sh)

/-- the generalised statement: any invariant configuration, any schedule -/
theorem run_inv (impl : α → TwoPhase σ ω ρ) (spec : α → σ → σ × ρ) (I : σ → Prop)
    (hI : ∀ a s, I s → I (spec a s).1)
    (hW : ∀ a s r, I s → (impl a).walk s = .inl r → spec a s = (s, r))
    (hC : ∀ a w s s0, I s → I s0 → (impl a).walk s0 = .inr w → (impl a).commit w s = spec a s)
    (progs : List (List α)) (sched : List Nat) :
    ∀ (c : Config σ α ω ρ) (res : Nat → List ρ) (pre : List (Nat × α)), Inv impl I progs c res pre →
      (run impl c sched).1.sh = (seqRun spec c.sh res (run impl c sched).2).1 ∧
      Inv impl I progs (run impl c sched).1 (seqRun spec c.sh res (run impl c sched).2).2
        (pre ++ (run impl c sched).2) := by
  induction sched with
  | nil => intro c res pre h; exact ⟨rfl, by simpa [run_nil, seqRun] using h⟩
  | cons t ts ih =>
    intro c res pre h
    obtain ⟨h1, h2⟩ := step_inv impl spec I hI hW hC h t
    obtain ⟨h3, h4⟩ := ih _ _ _ h2
    rw [run_cons]
    simp only [seqRun_append, ← List.append_assoc]
    rw [← h1]
    exact ⟨h3, h4⟩

theorem init_inv (impl : α → TwoPhase σ ω ρ) (I : σ → Prop) (s : σ) (hs : I s) (progs : List (List α)) :
    Inv impl I progs (init s progs : Config σ α ω ρ) (fun _ => []) [] := by
  refine ⟨hs, by simp [init], ?_⟩
  intro t th ht
  simp only [init, List.getElem?_map, Option.map_eq_some_iff] at ht
  obtain ⟨p, hp, rfl⟩ := ht
  exact ⟨rfl, ⟨p, hp, by simp [callsOf]⟩, by simp⟩

/-- Linearizability of two-phase operations, for every number of threads, every program and every schedule:
    the shared state and the results are those of the sequential execution of the decided calls in the order of their
    decisive steps; that order keeps every thread's program order, and no call is invented, duplicated or lost. -/
theorem linearizable (impl : α → TwoPhase σ ω ρ) (spec : α → σ → σ × ρ) (I : σ → Prop)
    (hI : ∀ a s, I s → I (spec a s).1)
    (hW : ∀ a s r, I s → (impl a).walk s = .inl r → spec a s = (s, r))
    (hC : ∀ a w s s0, I s → I s0 → (impl a).walk s0 = .inr w → (impl a).commit w s = spec a s)
    (s : σ) (hs : I s) (progs : List (List α)) (sched : List Nat) :
    (run impl (init s progs) sched).1.sh = (seqRun spec s (fun _ => []) (run impl (init s progs) sched).2).1 ∧
    (run impl (init s progs) sched).1.ths.length = progs.length ∧
    (∀ t th, (run impl (init s progs) sched).1.ths[t]? = some th →
      th.done = (seqRun spec s (fun _ => []) (run impl (init s progs) sched).2).2 t ∧
      ∃ p, progs[t]? = some p ∧ callsOf t (run impl (init s progs) sched).2 ++ th.todo = p) := by
  obtain ⟨h1, h2⟩ := run_inv impl spec I hI hW hC progs sched (init s progs) (fun _ => []) [] (init_inv impl I s hs progs)
  refine ⟨h1, h2.len, ?_⟩
  intro t th ht
  obtain ⟨hd, hp, _⟩ := h2.thr t th ht
  exact ⟨hd, by simpa using hp⟩

/-- the repaired MemFS leaf operations meet the two obligations -/
theorem dimpl_walk_ok (a : DOp) (d : Dir) (r : DRes) (h : (dimpl true a).walk d = .inl r) : dspec a d = (d, r) := by
  cases a <;> simp only [dimpl, dspec] at h ⊢
  · split at h
    · cases h; simp [*]
    · cases h
  · split at h
    · cases h; simp [*]
    · cases h
  · split at h
    · cases h; simp [*]
    · cases h

theorem dimpl_commit_ok (a : DOp) (w : Option Nat) (d : Dir) : (dimpl true a).commit w d = dspec a d := by
  cases a <;> simp [dimpl]

/-- hence: concurrent Mkdir / exclusive create / Remove on leaf names of a stable directory are linearizable -/
theorem memfs_leaf_ops_linearizable (d : Dir) (progs : List (List DOp)) (sched : List Nat) :
    (run (dimpl true) (init d progs) sched).1.sh = (seqRun dspec d (fun _ => []) (run (dimpl true) (init d progs) sched).2).1 ∧
    (∀ t th, (run (dimpl true) (init d progs) sched).1.ths[t]? = some th →
      th.done = (seqRun dspec d (fun _ => []) (run (dimpl true) (init d progs) sched).2).2 t ∧
      ∃ p, progs[t]? = some p ∧ callsOf t (run (dimpl true) (init d progs) sched).2 ++ th.todo = p) := by
  obtain ⟨h1, _, h3⟩ := linearizable (dimpl true) dspec (fun _ => True) (fun _ _ _ => trivial)
    (fun a s r _ h => dimpl_walk_ok a s r h) (fun a w s _ _ _ _ => dimpl_commit_ok a w s) d trivial progs sched
  exact ⟨h1, h3⟩

/-! The code before the repair: Remove released the node captured by the walk.  Witness: the file `f` (name `[7]`) is node 1
    and has a second name elsewhere (link count 2).  Thread 0 runs Remove(f); thread 1 runs Remove(f) then an exclusive
    create of f.  Schedule: both walk, thread 1 commits its Remove, creates f again (node 2), then thread 0 commits:
    it finds an entry, erases it (node 2 becomes unreachable) and releases node 1 a second time. -/
def staleDir : Dir := { entries := [([7], (1, false))], nlink := [(1, 2)], next := 2 }
def staleProgs : List (List DOp) := [[.remove [7]], [.remove [7], .createExcl [7]]]
def staleSched : List Nat := [0, 1, 1, 1, 1, 0]

/-- all three calls report success and node 1 ends with link count 0 although its other name still exists -/
theorem stale_remove_outcome :
    ((run (dimpl false) (init staleDir staleProgs) staleSched).1.ths.map (·.done)) = [[.ok], [.ok, .ok]] ∧
    AL.lookup 1 (run (dimpl false) (init staleDir staleProgs) staleSched).1.sh.nlink = some 0 := by
  decide

/-- the three interleavings, computed (`interleave2` is defined by well-founded recursion, so `decide` cannot unfold it) -/
theorem interleave2_stale : interleave2 [.remove [7]] [.remove [7], .createExcl [7]] =
    [[(0, .remove [7]), (1, .remove [7]), (1, .createExcl [7])], [(1, .remove [7]), (0, .remove [7]), (1, .createExcl [7])],
     [(1, .remove [7]), (1, .createExcl [7]), (0, .remove [7])]] := by
  simp [interleave2]

/-- no sequential order of the three calls (thread 1's program order kept) gives these results and this state -/
theorem stale_remove_not_linearizable :
    ∀ log ∈ interleave2 [.remove [7]] [.remove [7], .createExcl [7]],
      ¬ ((seqRun dspec staleDir (fun _ => []) log).1 = (run (dimpl false) (init staleDir staleProgs) staleSched).1.sh ∧
         (seqRun dspec staleDir (fun _ => []) log).2 0 = [.ok] ∧
         (seqRun dspec staleDir (fun _ => []) log).2 1 = [.ok, .ok]) := by
  rw [interleave2_stale]
  decide

/-- with the repaired commit the same schedule is harmless: thread 0's Remove removes the new file -/
theorem fresh_remove_same_schedule :
    AL.lookup 1 (run (dimpl true) (init staleDir staleProgs) staleSched).1.sh.nlink = some 1 := by
  decide

end Avfs.Conc.Lin
