import Avfs.Lemmas.Search
import Avfs.Lemmas.WFCheck
/-
  searchNode ≃ namei on symlink-free paths (C01 / C04): the iterator-driven walk of MemFS, for a clean absolute path
  "/c1/…/cn", is the component-by-component descent `walkPath` through the directory entries — the resolution every
  POSIX-style reference semantics is written with.
-/
set_option linter.unusedVariables false
set_option linter.unusedSimpArgs false

namespace Avfs.FS
open Avfs.Path

/-- what a component-wise resolution finds -/
inductive Resolved
  | found (parent : Ino) (child : Ino)          -- every component exists; `parent` holds the last one (root: itself)
  | missingLast (parent : Ino) (name : Bytes)   -- all but the last component exist and are directories
  | missingDir                                   -- an inner component does not exist
  | notDir                                       -- an inner component is a regular file
  | denied                                       -- a directory on the way (or the root) may not be searched
  | viaLink                                      -- a component is a symbolic link (outside this theorem)
  deriving DecidableEq, Repr

/-- component-wise descent from directory `d` (whose search permission is checked when a name is looked up in it,
    as MemFS does for the root and for every directory it enters) -/
def walkPath (s : Store) (v : View) : Ino → List Bytes → Resolved
  | d, [] => .found d d
  | d, [c] =>
    match s.get d with
    | some (.dir m _) =>
      if !checkPerm m omLookup v then .denied else
      match s.child d c with
      | none => .missingLast d c
      | some i => (match s.get i with | some (.symlink _ _) => .viaLink | _ => .found d i)
    | _ => .notDir
  | d, c :: c' :: cs =>
    match s.get d with
    | some (.dir m _) =>
      if !checkPerm m omLookup v then .denied else
      match s.child d c with
      | none => .missingDir
      | some i =>
        match s.get i with
        | some (.dir _ _) => walkPath s v i (c' :: cs)
        | some (.file _ _ _ _) => .notDir
        | some (.symlink _ _) => .viaLink
        | none => .missingDir
    | _ => .notDir

/-! ### helpers -/

/-- the comparison of a component-wise resolution with the result of the iterator-driven walk -/
def Agrees (w : Resolved) (r : SR) : Prop :=
  match w with
  | .found par c => r.err = .exists ∧ r.child = some c ∧ r.parent = par
  | .missingLast par _ => r.err = .noent ∧ r.child = none ∧ r.parent = par ∧ r.pi.isLast = true
  | .missingDir => r.err = .noent ∧ r.pi.isLast = false
  | .notDir => r.err = .notdir
  | .denied => r.err = .acces
  | .viaLink => True

/-- "/c1/…/cn" with valid components other than "." and ".." is its own cleaned form -/
theorem clean_joined (cs : List Bytes) (hall : ∀ c ∈ cs, c ≠ [] ∧ ∀ x ∈ c, x ≠ SL)
    (hdots : ∀ c ∈ cs, c ≠ [DOT] ∧ c ≠ [DOT, DOT]) :
    clean .linux (SL :: joinWith SL cs) = SL :: joinWith SL cs := by
  have hr : Spec.render true cs.reverse = SL :: joinWith SL cs := by simp [Spec.render]
  rw [clean_eq_spec, ← hr]
  apply spec_fixed true cs.reverse
  · intro c hc
    have := hall c (by simpa using hc)
    exact ⟨this.1, fun h => this.2 SL h rfl⟩
  · exact ⟨0, cs.reverse, by simp, fun h => (hdots Spec.DD (by simpa using h)).2 rfl, fun _ => rfl⟩
  · intro c hc
    exact (hdots c (by simpa using hc)).1

theorem abs_joined (cs : List Bytes) (cwd : Bytes) (hall : ∀ c ∈ cs, c ≠ [] ∧ ∀ x ∈ c, x ≠ SL)
    (hdots : ∀ c ∈ cs, c ≠ [DOT] ∧ c ≠ [DOT, DOT]) :
    abs .linux (SL :: joinWith SL cs) cwd = SL :: joinWith SL cs := by
  have : isAbs .linux (SL :: joinWith SL cs) = true := by simp [isAbs]
  rw [abs, if_pos this]
  exact clean_joined cs hall hdots

theorem get_of_isDirAt {s : Store} {d : Ino} (h : isDirAt s d = true) : ∃ m ch, s.get d = some (.dir m ch) := by
  unfold isDirAt at h
  split at h
  · exact ⟨_, _, by assumption⟩
  · cases h

/-- one `Next` of the iterator standing in front of the components `c :: rest` -/
theorem next_comp (it : Iter) (pre c : Bytes) (rest : List Bytes)
    (hp : it.path = pre ++ joinWith SL (c :: rest)) (hst : it.stop1 = pre.length)
    (hc : c ≠ []) (hns : ∀ x ∈ c, x ≠ SL) :
    ∃ it1, it.next .linux = (it1, true) ∧ it1.part = some c ∧
      (rest = [] → it1.isLast = true) ∧
      (rest ≠ [] → it1.isLast = false ∧ it1.path = (pre ++ c ++ [SL]) ++ joinWith SL rest ∧
        it1.stop1 = (pre ++ c ++ [SL]).length) := by
  cases rest with
  | nil =>
    have hp' : it.path = pre ++ c ++ [] := by simpa [joinWith] using hp
    obtain ⟨h1, h2⟩ := next_step it pre c [] hp' hst hc hns rfl
    refine ⟨_, h1, h2, fun _ => ?_, fun h => absurd rfl h⟩
    simp [Iter.isLast, hp']
  | cons c2 cs =>
    have hp' : it.path = pre ++ c ++ (SL :: joinWith SL (c2 :: cs)) := by
      rw [hp, joinWith_cons_cons, List.append_assoc]
    obtain ⟨h1, h2⟩ := next_step it pre c _ hp' hst hc hns (by simp)
    refine ⟨_, h1, h2, ?_, fun _ => ⟨?_, ?_, ?_⟩⟩
    · intro h; cases h
    · simp [Iter.isLast, hp']
    · show it.path = _
      rw [hp']; simp
    · simp; omega

theorem walkPath_denied (s : Store) (v : View) (d : Ino) (c : Bytes) (rest : List Bytes) (m : Meta)
    (ch : List (Bytes × Ino)) (hg : s.get d = some (.dir m ch)) (hp : checkPerm m omLookup v = false) :
    walkPath s v d (c :: rest) = .denied := by
  cases rest <;> simp [walkPath, hg, hp]

/-! ### the loop against the descent -/

/-- the loop standing in directory `d` in front of the components `c :: rest` agrees with the descent from `d`.
    The search permission of `d` is checked by the loop only when `d` is the root of the view; any other directory
    was checked when it was entered.
    GENERAL form: `root` is the root of the whole tree (`WF s root`), the root of the view `v.root` is ANY node.
    Of `WF` only `alloc` is used: when the walk comes back to `v.root` (impossible in a tree, but not needed), the
    root check repeats the check made when the directory was entered. -/
theorem loop_agrees_gen {s : Store} {root : Ino} {v : View} (hwf : WF s root) (m : SlMode) :
    ∀ (rest : List Bytes) (c : Bytes) (fuel : Nat) (d : Ino) (it : Iter) (pre : Bytes) (sl : Nat),
      (∀ x ∈ c :: rest, x ≠ [] ∧ ∀ y ∈ x, y ≠ SL) →
      it.path = pre ++ joinWith SL (c :: rest) → it.stop1 = pre.length → fuel ≥ rest.length + 1 →
      isDirAt s d = true →
      (d ≠ v.root → ∀ md ch, s.get d = some (.dir md ch) → checkPerm md omLookup v = true) →
      Agrees (walkPath s v d (c :: rest)) (searchLoop s v m v.root fuel d it sl none) := by
  intro rest
  induction rest with
  | nil =>
    intro c fuel d it pre sl hall hp hst hf hdir hperm
    obtain ⟨fuel, rfl⟩ : ∃ k, fuel = k + 1 := ⟨fuel - 1, by simp at hf; omega⟩
    have hc := hall c (by simp)
    obtain ⟨it1, hnext, hpart, hl, _⟩ := next_comp it pre c [] hp hst hc.1 hc.2
    have hl := hl rfl
    obtain ⟨md, chd, hgd⟩ := get_of_isDirAt hdir
    rw [searchLoop]
    by_cases hden : checkPerm md omLookup v = true
    · cases hch : s.child d c with
      | none => simp [walkPath, hnext, hpart, hgd, hden, hch, Agrees, hl]
      | some i =>
        have halloc := hwf.alloc d c i hch
        cases hg : s.get i with
        | none => simp [hg] at halloc
        | some n =>
          cases n <;> simp [walkPath, hnext, hpart, hgd, hden, hch, hg, Agrees, hl]
    · have hden' : checkPerm md omLookup v = false := by simpa using hden
      have hdr : d = v.root := Classical.byContradiction fun h => hden (hperm h md chd hgd)
      subst hdr
      simp [walkPath, hnext, hpart, hgd, hden', Agrees]
  | cons c2 cs ih =>
    intro c fuel d it pre sl hall hp hst hf hdir hperm
    obtain ⟨fuel, rfl⟩ : ∃ k, fuel = k + 1 := ⟨fuel - 1, by simp at hf; omega⟩
    have hc := hall c (by simp)
    obtain ⟨it1, hnext, hpart, _, hl⟩ := next_comp it pre c (c2 :: cs) hp hst hc.1 hc.2
    obtain ⟨hl, hp1, hsp1⟩ := hl (by simp)
    obtain ⟨md, chd, hgd⟩ := get_of_isDirAt hdir
    rw [searchLoop]
    by_cases hden : checkPerm md omLookup v = true
    · cases hch : s.child d c with
      | none => simp [walkPath, hnext, hpart, hgd, hden, hch, Agrees, hl]
      | some i =>
        have halloc := hwf.alloc d c i hch
        cases hg : s.get i with
        | none => simp [hg] at halloc
        | some n =>
          cases n with
          | dir mi chi =>
            by_cases hpi : checkPerm mi omLookup v = true
            · have hrec := ih c2 fuel i it1 (pre ++ c ++ [SL]) sl (fun x hx => hall x (by simp at hx ⊢; exact Or.inr hx))
                hp1 hsp1 (by simp at hf ⊢; omega) (isDirAt_of_get hg)
                (fun _ md' ch' hg' => by rw [hg] at hg'; cases hg'; exact hpi)
              have hw : walkPath s v d (c :: c2 :: cs) = walkPath s v i (c2 :: cs) := by
                simp [walkPath, hgd, hden, hch, hg]
              rw [hw]
              simpa [hnext, hpart, hgd, hden, hch, hg, hl, hpi] using hrec
            · have hpi' : checkPerm mi omLookup v = false := by simpa using hpi
              have hw : walkPath s v d (c :: c2 :: cs) = .denied := by
                simp only [walkPath, hgd, hden, hch, hg]
                simpa using walkPath_denied s v i c2 cs mi chi hg hpi'
              rw [hw]
              simp [hnext, hpart, hgd, hden, hch, hg, hl, hpi', Agrees]
          | file mf df nl id => simp [walkPath, hnext, hpart, hgd, hden, hch, hg, Agrees, hl]
          | symlink ms lk => simp [walkPath, hgd, hden, hch, hg, Agrees]
    · have hden' : checkPerm md omLookup v = false := by simpa using hden
      have hdr : d = v.root := Classical.byContradiction fun h => hden (hperm h md chd hgd)
      subst hdr
      simp [walkPath, hnext, hpart, hgd, hden', Agrees]

/-- the form for a view of the whole tree (`v.root = root`) -/
theorem loop_agrees {s : Store} {root : Ino} {v : View} (hwf : WF s root) (hroot : v.root = root) (m : SlMode) :
    ∀ (rest : List Bytes) (c : Bytes) (fuel : Nat) (d : Ino) (it : Iter) (pre : Bytes) (sl : Nat),
      (∀ x ∈ c :: rest, x ≠ [] ∧ ∀ y ∈ x, y ≠ SL) →
      it.path = pre ++ joinWith SL (c :: rest) → it.stop1 = pre.length → fuel ≥ rest.length + 1 →
      isDirAt s d = true →
      (d ≠ root → ∀ md ch, s.get d = some (.dir md ch) → checkPerm md omLookup v = true) →
      Agrees (walkPath s v d (c :: rest)) (searchLoop s v m v.root fuel d it sl none) := by
  subst hroot
  exact loop_agrees_gen hwf m

theorem searchFuel_ge (s : Store) (p : Bytes) : searchFuel s p ≥ p.length + 1 := by
  unfold searchFuel slCountMax
  omega

/-- GENERAL form (any view root): the walk of MemFS through a view rooted at ANY directory `v.root` of a well-formed
    heap (`root` is the root of the whole tree) on a clean absolute path equals the component-wise descent from
    `v.root`, whenever no symbolic link is met. The working directory of the view plays no role (absolute path). -/
theorem searchNode_eq_walkPath_gen (s : Store) (root : Ino) (v : View) (hwf : WF s root)
    (hvr : ∃ m ch, s.get v.root = some (.dir m ch)) (cs : List Bytes) (hall : ∀ c ∈ cs, c ≠ [] ∧ ∀ x ∈ c, x ≠ SL)
    (hdots : ∀ c ∈ cs, c ≠ [DOT] ∧ c ≠ [DOT, DOT]) (m : SlMode) :
    Agrees (walkPath s v v.root cs) (searchNode s v (SL :: joinWith SL cs) m) := by
  unfold searchNode
  simp only [abs_joined cs v.cwd hall hdots]
  have hfuel := searchFuel_ge s (SL :: joinWith SL cs)
  cases cs with
  | nil =>
    obtain ⟨k, hk⟩ : ∃ k, searchFuel s (SL :: joinWith SL []) = k + 1 := ⟨_, (Nat.sub_add_cancel (by omega)).symm⟩
    rw [hk, searchLoop]
    simp [joinWith, Iter.new, Iter.next, volumeNameLen, walkPath, Agrees]
  | cons c cs =>
    obtain ⟨mr, chr, hgr⟩ := hvr
    refine loop_agrees_gen hwf m cs c (searchFuel s (SL :: joinWith SL (c :: cs))) v.root
      (Iter.new .linux (SL :: joinWith SL (c :: cs))) [SL] 0 hall rfl rfl ?_ (isDirAt_of_get hgr)
      (fun h => absurd rfl h)
    have := length_joinWith_ge SL (c :: cs) (fun x hx => (hall x hx).1)
    simp only [List.length_cons] at this hfuel ⊢
    omega

/-- The walk of MemFS on a clean absolute path equals the component-wise descent, whenever no symbolic link is met:
    same error class, same parent and child. (`m` is the follow mode: without links on the way it plays no role.) -/
theorem searchNode_eq_walkPath (s : Store) (root : Ino) (v : View) (hwf : WF s root) (hn : NamesOK s) (hv : ViewOK s v)
    (hroot : v.root = root) (cs : List Bytes) (hall : ∀ c ∈ cs, c ≠ [] ∧ ∀ x ∈ c, x ≠ SL)
    (hdots : ∀ c ∈ cs, c ≠ [DOT] ∧ c ≠ [DOT, DOT]) (m : SlMode) :
    let p := SL :: joinWith SL cs
    let r := searchNode s v p m
    match walkPath s v root cs with
    | .found par c => r.err = .exists ∧ r.child = some c ∧ r.parent = par
    | .missingLast par _ => r.err = .noent ∧ r.child = none ∧ r.parent = par ∧ r.pi.isLast = true
    | .missingDir => r.err = .noent ∧ r.pi.isLast = false
    | .notDir => r.err = .notdir
    | .denied => r.err = .acces
    | .viaLink => True := by
  intro p r
  show Agrees (walkPath s v root cs) (searchNode s v (SL :: joinWith SL cs) m)
  subst hroot
  exact searchNode_eq_walkPath_gen s v.root v hwf (get_of_isDirAt hwf.rootDir) cs hall hdots m

/-! ### the name the callers use -/

/-- what the callers of `searchNode` take as the NAME of the entry (`pi.Part()`): the last component -/
def PartAgrees (w : Resolved) (last : Bytes) (r : SR) : Prop :=
  match w with
  | .found _ _ => partOf r.pi = last
  | .missingLast _ _ => partOf r.pi = last
  | _ => True

/-- companion of `loop_agrees`: when the descent finds the entry or only misses the last component, the iterator
    the loop returns stands on the last component -/
theorem loop_part_gen {s : Store} {root : Ino} {v : View} (hwf : WF s root) (m : SlMode) :
    ∀ (rest : List Bytes) (c : Bytes) (fuel : Nat) (d : Ino) (it : Iter) (pre : Bytes) (sl : Nat),
      (∀ x ∈ c :: rest, x ≠ [] ∧ ∀ y ∈ x, y ≠ SL) →
      it.path = pre ++ joinWith SL (c :: rest) → it.stop1 = pre.length → fuel ≥ rest.length + 1 →
      isDirAt s d = true →
      (d ≠ v.root → ∀ md ch, s.get d = some (.dir md ch) → checkPerm md omLookup v = true) →
      PartAgrees (walkPath s v d (c :: rest)) ((c :: rest).getLast (by simp))
        (searchLoop s v m v.root fuel d it sl none) := by
  intro rest
  induction rest with
  | nil =>
    intro c fuel d it pre sl hall hp hst hf hdir hperm
    obtain ⟨fuel, rfl⟩ : ∃ k, fuel = k + 1 := ⟨fuel - 1, by simp at hf; omega⟩
    have hc := hall c (by simp)
    obtain ⟨it1, hnext, hpart, hl, _⟩ := next_comp it pre c [] hp hst hc.1 hc.2
    have hl := hl rfl
    obtain ⟨md, chd, hgd⟩ := get_of_isDirAt hdir
    rw [searchLoop]
    by_cases hden : checkPerm md omLookup v = true
    · cases hch : s.child d c with
      | none => simp [walkPath, hnext, hpart, hgd, hden, hch, PartAgrees, partOf, hl]
      | some i =>
        have halloc := hwf.alloc d c i hch
        cases hg : s.get i with
        | none => simp [hg] at halloc
        | some n =>
          cases n <;> simp [walkPath, hnext, hpart, hgd, hden, hch, hg, PartAgrees, partOf, hl]
    · have hden' : checkPerm md omLookup v = false := by simpa using hden
      have hdr : d = v.root := Classical.byContradiction fun h => hden (hperm h md chd hgd)
      subst hdr
      simp [walkPath, hnext, hpart, hgd, hden', PartAgrees]
  | cons c2 cs ih =>
    intro c fuel d it pre sl hall hp hst hf hdir hperm
    obtain ⟨fuel, rfl⟩ : ∃ k, fuel = k + 1 := ⟨fuel - 1, by simp at hf; omega⟩
    have hc := hall c (by simp)
    obtain ⟨it1, hnext, hpart, _, hl⟩ := next_comp it pre c (c2 :: cs) hp hst hc.1 hc.2
    obtain ⟨hl, hp1, hsp1⟩ := hl (by simp)
    obtain ⟨md, chd, hgd⟩ := get_of_isDirAt hdir
    rw [searchLoop]
    by_cases hden : checkPerm md omLookup v = true
    · cases hch : s.child d c with
      | none => simp [walkPath, hnext, hpart, hgd, hden, hch, PartAgrees, hl]
      | some i =>
        have halloc := hwf.alloc d c i hch
        cases hg : s.get i with
        | none => simp [hg] at halloc
        | some n =>
          cases n with
          | dir mi chi =>
            by_cases hpi : checkPerm mi omLookup v = true
            · have hrec := ih c2 fuel i it1 (pre ++ c ++ [SL]) sl (fun x hx => hall x (by simp at hx ⊢; exact Or.inr hx))
                hp1 hsp1 (by simp at hf ⊢; omega) (isDirAt_of_get hg)
                (fun _ md' ch' hg' => by rw [hg] at hg'; cases hg'; exact hpi)
              have hw : walkPath s v d (c :: c2 :: cs) = walkPath s v i (c2 :: cs) := by
                simp [walkPath, hgd, hden, hch, hg]
              rw [hw, List.getLast_cons_cons]
              simpa [hnext, hpart, hgd, hden, hch, hg, hl, hpi] using hrec
            · have hpi' : checkPerm mi omLookup v = false := by simpa using hpi
              have hw : walkPath s v d (c :: c2 :: cs) = .denied := by
                simp only [walkPath, hgd, hden, hch, hg]
                simpa using walkPath_denied s v i c2 cs mi chi hg hpi'
              rw [hw]
              simp [PartAgrees]
          | file mf df nl id => simp [walkPath, hgd, hden, hch, hg, PartAgrees]
          | symlink ms lk => simp [walkPath, hgd, hden, hch, hg, PartAgrees]
    · have hden' : checkPerm md omLookup v = false := by simpa using hden
      have hdr : d = v.root := Classical.byContradiction fun h => hden (hperm h md chd hgd)
      subst hdr
      simp [walkPath, hgd, hden', PartAgrees]

/-- the form for a view of the whole tree (`v.root = root`) -/
theorem loop_part {s : Store} {root : Ino} {v : View} (hwf : WF s root) (hroot : v.root = root) (m : SlMode) :
    ∀ (rest : List Bytes) (c : Bytes) (fuel : Nat) (d : Ino) (it : Iter) (pre : Bytes) (sl : Nat),
      (∀ x ∈ c :: rest, x ≠ [] ∧ ∀ y ∈ x, y ≠ SL) →
      it.path = pre ++ joinWith SL (c :: rest) → it.stop1 = pre.length → fuel ≥ rest.length + 1 →
      isDirAt s d = true →
      (d ≠ root → ∀ md ch, s.get d = some (.dir md ch) → checkPerm md omLookup v = true) →
      PartAgrees (walkPath s v d (c :: rest)) ((c :: rest).getLast (by simp))
        (searchLoop s v m v.root fuel d it sl none) := by
  subst hroot
  exact loop_part_gen hwf m

/-- GENERAL form (any view root) of `searchNode_part` -/
theorem searchNode_part_gen (s : Store) (root : Ino) (v : View) (hwf : WF s root)
    (hvr : ∃ m ch, s.get v.root = some (.dir m ch)) (cs : List Bytes) (hne : cs ≠ [])
    (hall : ∀ c ∈ cs, c ≠ [] ∧ ∀ x ∈ c, x ≠ SL) (hdots : ∀ c ∈ cs, c ≠ [DOT] ∧ c ≠ [DOT, DOT]) (m : SlMode) :
    PartAgrees (walkPath s v v.root cs) (cs.getLast hne) (searchNode s v (SL :: joinWith SL cs) m) := by
  unfold searchNode
  simp only [abs_joined cs v.cwd hall hdots]
  have hfuel := searchFuel_ge s (SL :: joinWith SL cs)
  cases cs with
  | nil => exact absurd rfl hne
  | cons c cs =>
    obtain ⟨mr, chr, hgr⟩ := hvr
    refine loop_part_gen hwf m cs c (searchFuel s (SL :: joinWith SL (c :: cs))) v.root
      (Iter.new .linux (SL :: joinWith SL (c :: cs))) [SL] 0 hall rfl rfl ?_ (isDirAt_of_get hgr)
      (fun h => absurd rfl h)
    have := length_joinWith_ge SL (c :: cs) (fun x hx => (hall x hx).1)
    simp only [List.length_cons] at this hfuel ⊢
    omega

/-- The NAME under which the callers of `searchNode` act (`partOf r.pi`, Go: `pi.Part()`) is the last component of
    the path, whenever the descent finds the entry or misses only the last component. -/
theorem searchNode_part (s : Store) (root : Ino) (v : View) (hwf : WF s root) (hn : NamesOK s) (hv : ViewOK s v)
    (hroot : v.root = root) (cs : List Bytes) (hne : cs ≠ []) (hall : ∀ c ∈ cs, c ≠ [] ∧ ∀ x ∈ c, x ≠ SL)
    (hdots : ∀ c ∈ cs, c ≠ [DOT] ∧ c ≠ [DOT, DOT]) (m : SlMode) :
    PartAgrees (walkPath s v root cs) (cs.getLast hne) (searchNode s v (SL :: joinWith SL cs) m) := by
  subst hroot
  exact searchNode_part_gen s v.root v hwf (get_of_isDirAt hwf.rootDir) cs hne hall hdots m

/-- the walk of "/" : the root itself, under the empty name (`pi.Part()` after the only, failing, `Next`) -/
theorem searchNode_root (s : Store) (v : View) (m : SlMode) :
    (searchNode s v [SL] m).err = .exists ∧ (searchNode s v [SL] m).child = some v.root ∧
    (searchNode s v [SL] m).parent = v.root ∧ partOf (searchNode s v [SL] m).pi = [] := by
  have habs : abs .linux [SL] v.cwd = [SL] := by
    simpa [joinWith] using abs_joined [] v.cwd (by simp) (by simp)
  unfold searchNode
  simp only [habs]
  have hfuel := searchFuel_ge s [SL]
  obtain ⟨k, hk⟩ : ∃ k, searchFuel s [SL] = k + 1 := ⟨_, (Nat.sub_add_cancel (by omega)).symm⟩
  rw [hk, searchLoop]
  simp [Iter.new, Iter.next, volumeNameLen, partOf, Iter.part, slice1]

/-! ### non-vacuity: the hypotheses hold in a concrete reachable state and both sides are non-trivial there -/

/-- the heap of `memfs.New()` after `Mkdir("/a", 0755)` and `Mkdir("/a/b", 0700)` (by the administrator) -/
@[irreducible] def exStore : Store :=
  (step (step initState 0 (.mkdir [SL, 97] 0o755)).1 0 (.mkdir [SL, 97, SL, 98] 0o700)).1.store

/-- an ordinary user looking at the whole volume -/
def exView : View := { root := 0, cwd := [SL], uid := 1000, gid := 1000, admin := false, umask := 0o022 }

theorem exStore_wf : WF exStore 0 ∧ NamesOK exStore := wfCheck_sound exStore 0 (by decide +kernel)

theorem exView_ok : ViewOK exStore exView := ⟨by decide +kernel, by decide⟩

/-- "/a/b" resolves: the theorem transports `.found` of the descent to the walk -/
example : walkPath exStore exView 0 [[97], [98]] = .found 4 5 ∧
    (searchNode exStore exView [SL, 97, SL, 98] .lstat).err = .exists ∧
    (searchNode exStore exView [SL, 97, SL, 98] .lstat).child = some 5 ∧
    (searchNode exStore exView [SL, 97, SL, 98] .lstat).parent = 4 := by
  have h := searchNode_eq_walkPath exStore 0 exView exStore_wf.1 exStore_wf.2 exView_ok rfl [[97], [98]]
    (by decide) (by decide) .lstat
  have hw : walkPath exStore exView 0 [[97], [98]] = .found 4 5 := by decide +kernel
  simp only [hw] at h
  exact ⟨hw, h⟩

/-- "/a/b/y": "b" (mode 0700 of the administrator) may not be searched by the user -/
example : walkPath exStore exView 0 [[97], [98], [121]] = .denied ∧
    (searchNode exStore exView [SL, 97, SL, 98, SL, 121] .eval).err = .acces := by
  have h := searchNode_eq_walkPath exStore 0 exView exStore_wf.1 exStore_wf.2 exView_ok rfl [[97], [98], [121]]
    (by decide) (by decide) .eval
  have hw : walkPath exStore exView 0 [[97], [98], [121]] = .denied := by decide +kernel
  simp only [hw] at h
  exact ⟨hw, h⟩

/-- "/a/x/y": an inner component is missing -/
example : walkPath exStore exView 0 [[97], [120], [121]] = .missingDir ∧
    (searchNode exStore exView [SL, 97, SL, 120, SL, 121] .eval).err = .noent ∧
    (searchNode exStore exView [SL, 97, SL, 120, SL, 121] .eval).pi.isLast = false := by
  have h := searchNode_eq_walkPath exStore 0 exView exStore_wf.1 exStore_wf.2 exView_ok rfl [[97], [120], [121]]
    (by decide) (by decide) .eval
  have hw : walkPath exStore exView 0 [[97], [120], [121]] = .missingDir := by decide +kernel
  simp only [hw] at h
  exact ⟨hw, h⟩

end Avfs.FS
