import Avfs.Copy
/-
  Helper lemmas for C16: invariants of the io.CopyBuffer loop model (`copyLoop`) and of the
  read-only loop local to `hashFile`.
-/
namespace Avfs.Copy

/-- General invariant of `copyLoop`, for enough fuel and a positive chunk size:
    (a) a clean end means everything was written: `acc ++ rem`;
    (b)/(c) every failed primitive added to the trace sets the error flag;
    (d) the trace only grows. -/
theorem copyLoop_spec (plan : Nat → Bool) (chunk : Nat) (hc : 0 < chunk) :
    ∀ (fuel : Nat) (rem acc : Bytes) (k : Nat) (tr : List (Ev × Bool)), rem.length < fuel →
      ((copyLoop plan chunk fuel rem acc k tr).2.1 = false →
          (copyLoop plan chunk fuel rem acc k tr).1 = acc ++ rem) ∧
      (∀ e, (e, true) ∈ (copyLoop plan chunk fuel rem acc k tr).2.2.2 →
          (e, true) ∈ tr ∨ (copyLoop plan chunk fuel rem acc k tr).2.1 = true) ∧
      (∃ ext, (copyLoop plan chunk fuel rem acc k tr).2.2.2 = tr ++ ext) := by
  intro fuel
  induction fuel with
  | zero => intro rem acc k tr h; omega
  | succ fuel ih =>
    intro rem acc k tr hlen
    unfold copyLoop
    split
    · refine ⟨by simp, fun e _ => Or.inr rfl, ⟨_, rfl⟩⟩
    · simp only []
      split
      · rename_i hnr
        have hrem : rem = [] := by
          have : rem.length = 0 := by omega
          exact List.length_eq_zero_iff.mp this
        refine ⟨fun _ => by simp [hrem], ?_, ⟨_, rfl⟩⟩
        intro e he
        simp only [List.mem_append, List.mem_cons, List.not_mem_nil, or_false, Prod.mk.injEq] at he
        rcases he with he | he
        · exact Or.inl he
        · exact absurd he.2 (by decide)
      · split
        · refine ⟨by simp, fun e _ => Or.inr rfl, ⟨_, rfl⟩⟩
        · rename_i hnr _
          have hlen' : (rem.drop (min chunk rem.length)).length < fuel := by
            simp only [List.length_drop]; omega
          obtain ⟨ha, hb, ext, hd⟩ := ih (rem.drop (min chunk rem.length))
            (acc ++ rem.take (min chunk rem.length)) (k + 2)
            (tr ++ [(.read, false), (.write, false)]) hlen'
          refine ⟨?_, ?_, ?_⟩
          · intro h
            rw [ha h, List.append_assoc, List.take_append_drop]
          · intro e he
            rcases hb e he with h | h
            · simp only [List.mem_append, List.mem_cons, List.not_mem_nil, or_false,
                Prod.mk.injEq] at h
              rcases h with h | h | h
              · exact Or.inl h
              · exact absurd h.2 (by decide)
              · exact absurd h.2 (by decide)
            · exact Or.inr h
          · exact ⟨[(.read, false), (.write, false)] ++ ext, by rw [hd, List.append_assoc]⟩

/-- Without faults the loop ends cleanly. -/
theorem copyLoop_no_fault (plan : Nat → Bool) (chunk : Nat) (hc : 0 < chunk)
    (hp : ∀ i, plan i = false) :
    ∀ (fuel : Nat) (rem acc : Bytes) (k : Nat) (tr : List (Ev × Bool)), rem.length < fuel →
      (copyLoop plan chunk fuel rem acc k tr).2.1 = false := by
  intro fuel
  induction fuel with
  | zero => intro rem acc k tr h; omega
  | succ fuel ih =>
    intro rem acc k tr hlen
    unfold copyLoop
    simp only [hp, Bool.false_eq_true, if_false]
    split
    · rfl
    · rename_i hnr
      apply ih
      simp only [List.length_drop]; omega

/-- Invariant of the read loop of `hashFile`. -/
theorem hashLoop_spec (plan : Nat → Bool) (chunk : Nat) (hc : 0 < chunk) :
    ∀ (fuel : Nat) (rem acc : Bytes) (k : Nat) (tr : List (Ev × Bool)), rem.length < fuel →
      ((hashFile.loop plan chunk fuel rem acc k tr).2.1 = false →
          (hashFile.loop plan chunk fuel rem acc k tr).1 = acc ++ rem) ∧
      (∀ e, (e, true) ∈ (hashFile.loop plan chunk fuel rem acc k tr).2.2.2 →
          (e, true) ∈ tr ∨ (hashFile.loop plan chunk fuel rem acc k tr).2.1 = true) ∧
      (∃ ext, (hashFile.loop plan chunk fuel rem acc k tr).2.2.2 = tr ++ ext) := by
  intro fuel
  induction fuel with
  | zero => intro rem acc k tr h; omega
  | succ fuel ih =>
    intro rem acc k tr hlen
    unfold hashFile.loop
    split
    · refine ⟨by simp, fun e _ => Or.inr rfl, ⟨_, rfl⟩⟩
    · simp only []
      split
      · rename_i hnr
        have hrem : rem = [] := by
          have : rem.length = 0 := by omega
          exact List.length_eq_zero_iff.mp this
        refine ⟨fun _ => by simp [hrem], ?_, ⟨_, rfl⟩⟩
        intro e he
        simp only [List.mem_append, List.mem_cons, List.not_mem_nil, or_false, Prod.mk.injEq] at he
        rcases he with he | he
        · exact Or.inl he
        · exact absurd he.2 (by decide)
      · rename_i hnr
        have hlen' : (rem.drop (min chunk rem.length)).length < fuel := by
          simp only [List.length_drop]; omega
        obtain ⟨ha, hb, ext, hd⟩ := ih (rem.drop (min chunk rem.length))
          (acc ++ rem.take (min chunk rem.length)) (k + 1)
          (tr ++ [(.read, false)]) hlen'
        refine ⟨?_, ?_, ?_⟩
        · intro h
          rw [ha h, List.append_assoc, List.take_append_drop]
        · intro e he
          rcases hb e he with h | h
          · simp only [List.mem_append, List.mem_cons, List.not_mem_nil, or_false,
              Prod.mk.injEq] at h
            rcases h with h | h
            · exact Or.inl h
            · exact absurd h.2 (by decide)
          · exact Or.inr h
        · exact ⟨[(.read, false)] ++ ext, by rw [hd, List.append_assoc]⟩

end Avfs.Copy
