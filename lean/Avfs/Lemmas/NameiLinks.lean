import Avfs.Lemmas.Namei
/-
  searchNode ≃ namei WITH symbolic links (C04).

  `namei` below is the resolution path_resolution(7) describes, on COMPONENT LISTS and with PHYSICAL "." and "..":
  it keeps the current directory together with the list of its ancestors, looks every component up in the current
  directory (whose search permission is required), enters directories, refuses to walk through regular files, and
  when it meets a symbolic link that has to be followed it charges the link to the budget (40) and goes on with the
  components of the target put in front of the remaining ones — from the root for an absolute target, from the
  directory that holds the link otherwise.

  `searchNode` (memfs_internal.go) works on the path STRING: a followed link is spliced into the string by
  `Iter.replacePart` (Join + Clean, i.e. LEXICALLY) and the walk restarts from the root whenever the part of the
  string already walked has changed.  The main theorem `searchNode_eq_namei` says that both agree (same error class,
  same parent, same child, same name of a missing last component, same resolved path) on every well-formed heap,
  for every user, every clean absolute path (`searchNode_eq_namei_any`: every path, through `Clean ∘ Abs`), every
  follow mode, any number / nesting / cyclicity of links, provided that in every link target reachable in the tree
  no ".." (or ".") comes after an ordinary name (`LinksOK`; every target stored by `Symlink` — which stores
  `Clean(oldname)` — is of this form: `targetOK_clean`).

  Sections: 1 the reference; 2 strings (`replace_links`: what `ReplacePart` computes, for ANY target);
  3 the reference along a chain of real directories; 4 the hypothesis; 5 the loop (`loop_links`); 6 main theorems;
  7 a following resolution never ends on an unfollowed link; 8 `EvalSymlinks` = realpath;
  9 the path computed by the reference is real.
-/
set_option linter.unusedVariables false
set_option linter.unusedSimpArgs false

namespace Avfs.FS
open Avfs.Path Avfs.Path.Spec

/-! ### 1. The reference resolution -/

/-- what a resolution finds; `path` is the REAL path of what was found: the names of the directories passed from
    the root of the view and the last name (no ".", "..", no symbolic link among the directories) -/
inductive Res
  /-- every component exists; `parent` holds the last one (root: itself, `path = []`) -/
  | found (parent : Ino) (child : Ino) (path : List Bytes)
  /-- all but the last component exist: `name` is missing in `parent`; `path` ends with `name` -/
  | missingLast (parent : Ino) (name : Bytes) (path : List Bytes)
  | missingDir                                   -- an inner component does not exist
  | notDir                                       -- an inner component is a regular file
  | denied                                       -- a directory on the way may not be searched
  | loop                                         -- too many symbolic links
  deriving DecidableEq, Repr

/-- the descent up to the first symbolic link that has to be followed -/
inductive Walk
  | done (r : Res)
  /-- the walk ends on a symbolic link that is not followed (last component, no-follow mode) -/
  | nofollow (parent : Ino) (child : Ino) (path : List Bytes)
  /-- the entry `target` has to be followed from the directory `cur` (ancestors `anc`, names `nms`);
      `rest` is still to walk -/
  | link (nms : List Bytes) (cur : Ino) (anc : List Ino) (target : Bytes) (rest : List Bytes)
  deriving DecidableEq, Repr

/-- the components of a link target: its non-empty pieces; a trailing '/' after a name stands for "/." (it forces
    the name to be followed and to be a directory).
    An EMPTY target has no component, i.e. it resolves like "." (what MemFS does). symlink(2) refuses to create such a
    link (and the kernel would answer ENOENT on one); `Symlink` never stores one (`Clean("") = "."`); the only nodes
    with an empty target are deleted ones (`deleteNode`), which no directory entry points at. -/
def targetComps (t : Bytes) : List Bytes :=
  comps t ++ (if t.getLast? = some SL ∧ comps t ≠ [] then [[DOT]] else [])

/-- Component-wise descent from the directory `cur`, whose ancestors are `anc` (nearest first; `[]` for the root)
    and which was reached through the entries named `nms` (most recent first).
    "." stays, ".." goes to the nearest ancestor (the root is its own parent); an ordinary name is looked up in the
    current directory. Every step needs the search permission of the current directory. -/
def walkLinks (s : Store) (v : View) (follow : Bool) : List Bytes → Ino → List Ino → List Bytes → Walk
  | nms, cur, anc, [] => .done (.found (anc.headD cur) cur nms.reverse)
  | nms, cur, anc, c :: rest =>
    match s.get cur with
    | some (.dir m _) =>
      if !checkPerm m omLookup v then .done .denied
      else if c == [DOT] then walkLinks s v follow nms cur anc rest
      else if c == DD then
        (match anc with
         | [] => walkLinks s v follow nms.tail cur [] rest
         | p :: anc' => walkLinks s v follow nms.tail p anc' rest)
      else
        match s.child cur c with
        | none => .done (if rest.isEmpty then .missingLast cur c (nms.reverse ++ [c]) else .missingDir)
        | some i =>
          match s.get i with
          | some (.dir _ _) => walkLinks s v follow (c :: nms) i (cur :: anc) rest
          | some (.file _ _ _ _) => .done (if rest.isEmpty then .found cur i (nms.reverse ++ [c]) else .notDir)
          | some (.symlink _ t) =>
            if rest.isEmpty && !follow then .nofollow cur i (nms.reverse ++ [c]) else .link nms cur anc t rest
          | none => .done .missingDir
    | _ => .done .notDir

/-- `namei`: the descent, following at most `budget` symbolic links. The last link of a no-follow resolution is the
    RESULT: it is not followed and not charged to the budget (the kernel's rule; since the repair of the Lstat budget
    — see `C04_lstat_budget_repaired` — also the rule of MemFS). -/
def namei (s : Store) (v : View) (root : Ino) (follow : Bool) :
    Nat → List Bytes → Ino → List Ino → List Bytes → Res
  | 0, nms, cur, anc, cs =>
    match walkLinks s v follow nms cur anc cs with
    | .done r => r
    | .nofollow p c path => .found p c path
    | .link _ _ _ _ _ => .loop
  | b + 1, nms, cur, anc, cs =>
    match walkLinks s v follow nms cur anc cs with
    | .done r => r
    | .nofollow p c path => .found p c path
    | .link nms' cur' anc' t rest =>
      if isAbs .linux t then namei s v root follow b [] root [] (targetComps t ++ rest)
      else namei s v root follow b nms' cur' anc' (targetComps t ++ rest)

/-- resolution of the absolute path "/c1/…/cn" in the view `v` with a budget of `b` links -/
def nameiPathB (s : Store) (v : View) (follow : Bool) (b : Nat) (cs : List Bytes) : Res :=
  namei s v v.root follow b [] v.root [] cs

/-- resolution of the absolute path "/c1/…/cn" in the view `v` with the budget of Linux and of MemFS (40) -/
def nameiPath (s : Store) (v : View) (follow : Bool) (cs : List Bytes) : Res :=
  nameiPathB s v follow slCountMax cs

/-! ### 2. Strings: the path walked so far and the splice -/

/-- an ordinary name: non-empty, without '/', neither "." nor ".." -/
def Plain (c : Bytes) : Prop := c ≠ [] ∧ (∀ x ∈ c, x ≠ SL) ∧ c ≠ [DOT] ∧ c ≠ DD

theorem Plain.good {c : Bytes} (h : Plain c) : GoodC c := ⟨h.1, fun hm => h.2.1 SL hm rfl⟩

/-- the path string of the directory reached through the names `rds` (most recent first), without trailing '/':
    "" for the root, "/a/b" for `["b", "a"]` -/
def dpath : List Bytes → Bytes
  | [] => []
  | n :: rds => dpath rds ++ SL :: n

theorem spath_split (rds : List Bytes) : ∀ (R : List Bytes), R ≠ [] →
    SL :: joinWith SL (rds.reverse ++ R) = dpath rds ++ SL :: joinWith SL R := by
  induction rds with
  | nil => intro R _; simp [dpath]
  | cons n rds ih =>
    intro R hR
    obtain ⟨r, rs, rfl⟩ := List.exists_cons_of_ne_nil hR
    have := ih (n :: r :: rs) (by simp)
    simp only [List.reverse_cons, List.append_assoc, List.singleton_append]
    rw [this, joinWith_cons_cons, dpath]
    simp

theorem spath_nil (n : Bytes) (rds : List Bytes) : SL :: joinWith SL (n :: rds).reverse = dpath (n :: rds) := by
  have := spath_split rds [n] (by simp)
  simpa [joinWith, dpath] using this

theorem dpath_rooted (rds : List Bytes) : ∀ x : Bytes, isRooted (dpath rds ++ SL :: x) = true := by
  induction rds with
  | nil => intro x; simp [dpath, isRooted]
  | cons n rds ih =>
    intro x
    have := ih (n ++ SL :: x)
    simpa [dpath] using this

theorem comps_dpath (rds : List Bytes) (h : ∀ c ∈ rds, GoodC c) : comps (dpath rds) = rds.reverse := by
  induction rds with
  | nil => simp [dpath]
  | cons n rds ih =>
    rw [dpath, comps_append, ih (fun c hc => h c (by simp [hc])), comps_of_good (h n (by simp))]
    simp

theorem comps_spath (l : List Bytes) (h : ∀ c ∈ l, GoodC c) : comps (SL :: joinWith SL l) = l := by
  rw [comps_sl, comps_joinWith, flatMap_comps_good l h]

/-- pushing ordinary names -/
theorem foldl_plain (X st : List Bytes) (h : ∀ c ∈ X, c ≠ [DOT] ∧ c ≠ DD) :
    X.foldl (specStep true) st = X.reverse ++ st := by
  induction X generalizing st with
  | nil => simp
  | cons c X ih =>
    have hc := h c (by simp)
    have : specStep true st c = c :: st := by simp [specStep, hc.1, hc.2]
    rw [List.foldl_cons, this, ih _ (fun x hx => h x (by simp [hx]))]
    simp

theorem render_true (st : List Bytes) : render true st = SL :: joinWith SL st.reverse := by
  simp [render]

/-- Join of a rooted first element with anything: the lexical normal form of all the components -/
theorem join_rooted_eq (e : Bytes) (rest : List Bytes) (he : isRooted e = true) :
    join .linux (e :: rest) = render true (((e :: rest).flatMap comps).foldl (specStep true) []) := by
  have hne : e ≠ [] := by intro h; subst h; simp [isRooted] at he
  have hemp : e.isEmpty = false := by cases e <;> simp_all
  rw [join_eq_spec, Spec.join]
  simp only [List.filter_cons, hemp, Bool.not_false, if_true]
  rw [Spec.clean, isRooted_joinWith_cons _ _ hne, he, comps_joinWith]
  have := flatMap_comps_filter (e :: rest)
  simp only [List.filter_cons, hemp, Bool.not_false, if_true] at this
  rw [this]

theorem right_eq_some {it : Iter} {r : Bytes} (h : it.right = some r) : r = it.path.drop (it.stop1 - 1) := by
  simp only [Iter.right, slice1] at h
  split at h
  · split at h
    · simpa using h.symm
    · simp at h
  · simp at h

theorem isAbs_eq_isRooted (t : Bytes) : isAbs .linux t = isRooted t := by
  cases t <;> rfl

theorem joinWith_cons_tail (c : Bytes) (rest : List Bytes) :
    ∃ tail, joinWith SL (c :: rest) = c ++ tail ∧ comps tail = rest.flatMap comps ∧
      (rest = [] → tail = []) := by
  cases rest with
  | nil => exact ⟨[], by simp [joinWith], by simp, fun _ => rfl⟩
  | cons c2 cs =>
    refine ⟨SL :: joinWith SL (c2 :: cs), joinWith_cons_cons _ _ _ _, ?_, fun h => by cases h⟩
    rw [comps_sl, comps_joinWith]

/-- `ReplacePart` on the iterator standing on the component `c` of "/rds…/c/rest…": the new path is the LEXICAL
    normal form of (the names walked so far, unless the target is absolute) ++ the target ++ the rest — for ANY
    target -/
theorem replace_links (it1 : Iter) (rds : List Bytes) (c : Bytes) (rest : List Bytes) (t : Bytes)
    (hpl : ∀ x ∈ rds, Plain x) (hc : Plain c) (hrest : ∀ x ∈ rest, Plain x)
    (hp : it1.path = dpath rds ++ SL :: joinWith SL (c :: rest))
    (hst : it1.start = (dpath rds).length + 1) (hsp : it1.stop1 = (dpath rds).length + 1 + c.length + 1)
    (hvl : it1.volLen = 0) :
    ∃ it2 reset, it1.replacePart .linux t = some (it2, reset) ∧
      it2.path = SL :: joinWith SL
        (((comps t).foldl (specStep true) (if isAbs .linux t then [] else rds)).reverse ++ rest) ∧
      it2.volLen = 0 ∧ it2.path.length ≤ it1.path.length + t.length + 2 ∧
      (reset = true → it2.stop1 = 1) ∧
      (reset = false → it2.stop1 = (dpath rds).length + 1 ∧ (dpath rds).length + 1 < it2.path.length ∧
          it2.path.take ((dpath rds).length + 1) = dpath rds ++ [SL]) := by
  obtain ⟨tail, hjt, hct, _⟩ := joinWith_cons_tail c rest
  have hp' : it1.path = dpath rds ++ SL :: (c ++ tail) := by rw [hp, hjt]
  have hroot : isRooted it1.path = true := by rw [hp']; exact dpath_rooted _ _
  obtain ⟨it2, reset, r, hrep, hp2, hr2, hvl2, hlen2, hres, hnres⟩ :=
    replace_spec it1 (dpath rds) c tail t hp' hst hsp hvl hroot
  refine ⟨it2, reset, hrep, ?_, hvl2, hlen2, hres, hnres⟩
  obtain ⟨⟨l, r', hl, hr, hpath⟩, _⟩ := replacePart_path it1 t it2 reset hrep
  have hl' : l = dpath rds ++ [SL] := by
    rw [left_eq_some hl, hst, hp']
    have : (dpath rds).length + 1 = (dpath rds ++ [SL]).length := by simp
    rw [this, show dpath rds ++ SL :: (c ++ tail) = (dpath rds ++ [SL]) ++ (c ++ tail) by simp, List.take_left]
  have hr' : r' = tail := by
    rw [right_eq_some hr, hsp, hp']
    have : (dpath rds).length + 1 + c.length + 1 - 1 = (dpath rds ++ SL :: c).length := by simp; omega
    rw [this, show dpath rds ++ SL :: (c ++ tail) = (dpath rds ++ SL :: c) ++ tail by simp, List.drop_left]
  have hgr : ∀ x ∈ rds, GoodC x := fun x hx => (hpl x hx).good
  have hrestg : ∀ x ∈ rest, GoodC x := fun x hx => (hrest x hx).good
  have hrestd : ∀ x ∈ rest, x ≠ [DOT] ∧ x ≠ DD := fun x hx => (hrest x hx).2.2
  have hcr : comps r' = rest := by rw [hr', hct, flatMap_comps_good _ hrestg]
  have hcl : comps l = rds.reverse := by
    rw [hl', comps_append, comps_dpath _ hgr]; simp
  rw [hpath, isAbs_eq_isRooted]
  by_cases ha : isRooted t = true
  · rw [if_pos ha, if_pos ha, join_rooted_eq t [r'] ha, render_true]
    simp only [List.flatMap_cons, List.flatMap_nil, List.append_nil, List.foldl_append, hcr]
    rw [foldl_plain rest _ hrestd]
    simp
  · rw [if_neg ha, if_neg ha, join_rooted_eq l [t, r'] (by rw [hl']; simpa using dpath_rooted rds []), render_true]
    simp only [List.flatMap_cons, List.flatMap_nil, List.append_nil, List.foldl_append, hcr, hcl]
    rw [foldl_plain rest _ hrestd, foldl_plain rds.reverse [] (fun x hx => (hpl x (by simpa using hx)).2.2)]
    simp

/-! ### 3. The reference resolution along a chain of real directories -/

/-- `i` is a directory that the user may search -/
def DirPerm (s : Store) (v : View) (i : Ino) : Prop :=
  ∃ m ch, s.get i = some (.dir m ch) ∧ checkPerm m omLookup v = true

/-- `cur` is the directory reached from the root through the entries `rds` (most recent first), `anc` are the
    directories passed (nearest first); all of them may be searched -/
def Chain (s : Store) (v : View) (root : Ino) : List Bytes → Ino → List Ino → Prop
  | [], cur, [] => cur = root ∧ DirPerm s v cur
  | n :: rds, cur, p :: anc => s.child p n = some cur ∧ DirPerm s v cur ∧ Chain s v root rds p anc
  | _, _, _ => False

theorem Chain.perm {s : Store} {v : View} {root : Ino} {rds : List Bytes} {cur : Ino} {anc : List Ino}
    (h : Chain s v root rds cur anc) : DirPerm s v cur := by
  cases rds <;> cases anc <;> simp [Chain] at h
  · exact h.2
  · exact h.2.1

theorem Chain.root_perm {s : Store} {v : View} {root : Ino} : ∀ {rds : List Bytes} {cur : Ino} {anc : List Ino},
    Chain s v root rds cur anc → DirPerm s v root := by
  intro rds
  induction rds with
  | nil =>
    intro cur anc h
    cases anc <;> simp [Chain] at h
    exact h.1 ▸ h.2
  | cons n rds ih =>
    intro cur anc h
    cases anc <;> simp [Chain] at h
    exact ih h.2.2

theorem chain_root {s : Store} {v : View} {root : Ino} (h : DirPerm s v root) : Chain s v root [] root [] :=
  ⟨rfl, h⟩

theorem walk_dot {s : Store} {v : View} {f : Bool} {cur : Ino} {anc : List Ino} (h : DirPerm s v cur)
    (nms Y : List Bytes) : walkLinks s v f nms cur anc ([DOT] :: Y) = walkLinks s v f nms cur anc Y := by
  obtain ⟨m, ch, hg, hp⟩ := h
  simp [walkLinks, hg, hp]

theorem walk_dd {s : Store} {v : View} {f : Bool} {cur : Ino} {anc : List Ino} (h : DirPerm s v cur)
    (nms Y : List Bytes) : walkLinks s v f nms cur anc (DD :: Y) =
      (match anc with
       | [] => walkLinks s v f nms.tail cur [] Y
       | p :: anc' => walkLinks s v f nms.tail p anc' Y) := by
  obtain ⟨m, ch, hg, hp⟩ := h
  have : (DD == [DOT]) = false := by decide
  simp [walkLinks, hg, hp, this]

theorem walk_dir {s : Store} {v : View} {f : Bool} {cur i : Ino} {anc : List Ino} {n : Bytes} (h : DirPerm s v cur)
    (hn : n ≠ [DOT] ∧ n ≠ DD) (hch : s.child cur n = some i) {mi : Meta} {chi : List (Bytes × Ino)}
    (hgi : s.get i = some (.dir mi chi)) (nms Y : List Bytes) :
    walkLinks s v f nms cur anc (n :: Y) = walkLinks s v f (n :: nms) i (cur :: anc) Y := by
  obtain ⟨m, ch, hg, hp⟩ := h
  simp [walkLinks, hg, hp, hn.1, hn.2, hch, hgi]

/-- walking down a chain of real, searchable directories from the root leads to its end -/
theorem walk_chain {s : Store} {v : View} {root : Ino} {f : Bool} :
    ∀ (rds : List Bytes) (cur : Ino) (anc : List Ino) (Y : List Bytes),
      Chain s v root rds cur anc → (∀ x ∈ rds, x ≠ [DOT] ∧ x ≠ DD) →
      walkLinks s v f [] root [] (rds.reverse ++ Y) = walkLinks s v f rds cur anc Y := by
  intro rds
  induction rds with
  | nil =>
    intro cur anc Y h _
    cases anc <;> simp [Chain] at h
    simp [h.1]
  | cons n rds ih =>
    intro cur anc Y h hpl
    cases anc with
    | nil => simp [Chain] at h
    | cons p anc =>
      simp only [Chain] at h
      obtain ⟨hch, ⟨mi, chi, hgi, hpi⟩, hrest⟩ := h
      have := ih p anc (n :: Y) hrest (fun x hx => hpl x (by simp [hx]))
      simp only [List.reverse_cons, List.append_assoc, List.singleton_append]
      rw [this]
      exact walk_dir hrest.perm (hpl n (by simp)) hch hgi rds Y

/-- "." and ".." components in front: the physical steps of the reference are the lexical steps on the names -/
theorem walk_dots {s : Store} {v : View} {root : Ino} {f : Bool} :
    ∀ (dots : List Bytes) (rds : List Bytes) (cur : Ino) (anc : List Ino),
      Chain s v root rds cur anc → (∀ x ∈ rds, x ≠ DD) → (∀ x ∈ dots, x = [DOT] ∨ x = DD) →
      ∃ rds1 cur1 anc1, Chain s v root rds1 cur1 anc1 ∧ dots.foldl (specStep true) rds = rds1 ∧
        (∀ x ∈ rds1, x ∈ rds) ∧
        ∀ Y, walkLinks s v f rds cur anc (dots ++ Y) = walkLinks s v f rds1 cur1 anc1 Y := by
  intro dots
  induction dots with
  | nil => intro rds cur anc h _ _; exact ⟨rds, cur, anc, h, rfl, fun _ hx => hx, fun _ => rfl⟩
  | cons d dots ih =>
    intro rds cur anc h hpl hd
    have hdots : ∀ x ∈ dots, x = [DOT] ∨ x = DD := fun x hx => hd x (by simp [hx])
    rcases hd d (by simp) with rfl | rfl
    · obtain ⟨rds1, cur1, anc1, h1, h2, h3, h4⟩ := ih rds cur anc h hpl hdots
      refine ⟨rds1, cur1, anc1, h1, ?_, h3, fun Y => ?_⟩
      · simpa [specStep] using h2
      · rw [List.cons_append, walk_dot h.perm]; exact h4 Y
    · have hdd : (DD == [DOT]) = false := by decide
      cases rds with
      | nil =>
        cases anc with
        | cons _ _ => simp [Chain] at h
        | nil =>
          obtain ⟨rds1, cur1, anc1, h1, h2, h3, h4⟩ := ih [] cur [] h hpl hdots
          refine ⟨rds1, cur1, anc1, h1, ?_, h3, fun Y => ?_⟩
          · simpa [specStep, hdd] using h2
          · rw [List.cons_append, walk_dd h.perm]; exact h4 Y
      | cons n rds =>
        cases anc with
        | nil => simp [Chain] at h
        | cons p anc =>
          have hp : Chain s v root rds p anc := by simp only [Chain] at h; exact h.2.2
          obtain ⟨rds1, cur1, anc1, h1, h2, h3, h4⟩ :=
            ih rds p anc hp (fun x hx => hpl x (by simp [hx])) hdots
          have hn : n ≠ DD := hpl n (by simp)
          refine ⟨rds1, cur1, anc1, h1, ?_, fun x hx => by simp [h3 x hx], fun Y => ?_⟩
          · simp [specStep, hdd, hn, h2]
          · rw [List.cons_append, walk_dd h.perm]; exact h4 Y

theorem namei_congr {s : Store} {v : View} {root : Ino} {f : Bool} {cur cur' : Ino} {anc anc' : List Ino}
    {nms nms' X X' : List Bytes} (h : walkLinks s v f nms cur anc X = walkLinks s v f nms' cur' anc' X') (b : Nat) :
    namei s v root f b nms cur anc X = namei s v root f b nms' cur' anc' X' := by
  cases b <;> simp only [namei, h]

theorem namei_done {s : Store} {v : View} {root : Ino} {f : Bool} {cur : Ino} {anc : List Ino}
    {nms X : List Bytes} {r : Res} (h : walkLinks s v f nms cur anc X = .done r) (b : Nat) :
    namei s v root f b nms cur anc X = r := by
  cases b <;> simp only [namei, h]

/-! ### 4. The hypothesis on link targets -/

def isDotC (c : Bytes) : Bool := c == [DOT] || c == DD

/-- all "." / ".." components come before all ordinary names -/
def dotsFirst (X : List Bytes) : Bool := (X.dropWhile isDotC).all (fun c => !isDotC c)

/-- a link target in which no "." / ".." (and no trailing '/') comes after an ordinary name:
    "/t1/…/tk", "t1/…/tk", "../../t1/…/tk", ".", "..", "/" … — in particular every target in `Clean` form -/
def targetOK (t : Bytes) : Bool := dotsFirst (targetComps t)

/-- every symbolic link that is an entry of a directory has such a target -/
def LinksOK (s : Store) : Prop :=
  ∀ d n c m t, s.child d n = some c → s.get c = some (.symlink m t) → targetOK t = true

/-- executable form of `LinksOK` -/
def linksCheck (s : Store) : Bool :=
  (allEdges s).all fun e => match s.get e.2.2 with | some (.symlink _ t) => targetOK t | _ => true

theorem linksCheck_sound (s : Store) (h : linksCheck s = true) : LinksOK s := by
  intro d n c m t hch hg
  have hm := mem_allEdges_of_edge s d n c hch
  simp only [linksCheck, List.all_eq_true] at h
  have := h _ hm
  simpa [hg] using this

theorem dotsFirst_split {X : List Bytes} (h : dotsFirst X = true) :
    ∃ dots names, X = dots ++ names ∧ (∀ x ∈ dots, x = [DOT] ∨ x = DD) ∧ (∀ x ∈ names, x ≠ [DOT] ∧ x ≠ DD) := by
  refine ⟨X.takeWhile isDotC, X.dropWhile isDotC, (List.takeWhile_append_dropWhile).symm, ?_, ?_⟩
  · intro x hx
    have := mem_takeWhile_imp hx
    simpa [isDotC] using this
  · intro x hx
    simp only [dotsFirst, List.all_eq_true] at h
    have := h x hx
    simpa [isDotC] using this

theorem foldl_targetComps (t : Bytes) (st : List Bytes) :
    (targetComps t).foldl (specStep true) st = (comps t).foldl (specStep true) st := by
  unfold targetComps
  rw [List.foldl_append]
  split <;> simp [specStep]

theorem targetComps_good (t : Bytes) : ∀ c ∈ targetComps t, GoodC c := by
  intro c hc
  unfold targetComps at hc
  rw [List.mem_append] at hc
  rcases hc with hc | hc
  · exact comps_good t c hc
  · split at hc
    · simp at hc; subst hc; exact ⟨by simp, by decide⟩
    · simp at hc

theorem dotsFirst_append (D T : List Bytes) (hD : ∀ x ∈ D, isDotC x = true) (hT : ∀ x ∈ T, isDotC x = false) :
    dotsFirst (D ++ T) = true := by
  induction D with
  | nil =>
    cases T with
    | nil => rfl
    | cons a T' =>
      have ha := hT a (by simp)
      simp only [dotsFirst, List.nil_append, List.dropWhile_cons, ha, List.all_eq_true]
      intro x hx
      simp [hT x (by simpa using hx)]
  | cons d D ih =>
    have hd := hD d (by simp)
    have := ih (fun x hx => hD x (by simp [hx]))
    simpa [dotsFirst, List.dropWhile_cons, hd] using this

theorem getLast?_append_ne {α : Type} (a b : List α) (h : b ≠ []) : (a ++ b).getLast? = b.getLast? := by
  rw [List.getLast?_append]
  cases hb : b.getLast? with
  | none => exact absurd (List.getLast?_eq_none_iff.mp hb) h
  | some y => rfl

theorem getLast?_joinWith (l : List Bytes) (hne : l ≠ []) (h : ∀ c ∈ l, GoodC c) :
    (joinWith SL l).getLast? ≠ some SL := by
  induction l with
  | nil => exact absurd rfl hne
  | cons e l ih =>
    have he := h e (by simp)
    cases l with
    | nil =>
      simp only [joinWith]
      intro hl
      have : SL ∈ e := List.mem_of_getLast? hl
      exact he.2 this
    | cons e2 es =>
      rw [joinWith_cons_cons]
      have hne2 : joinWith SL (e2 :: es) ≠ [] := by
        intro h0
        have := length_joinWith_ge SL (e2 :: es) (fun c hc => (h c (by simp [hc])).1)
        rw [h0] at this
        simp at this
        have h2 := (h e2 (by simp)).1
        subst this
        simp [joinWith] at h0
        exact h2 h0
      have : (e ++ SL :: joinWith SL (e2 :: es)).getLast? = (joinWith SL (e2 :: es)).getLast? := by
        rw [show e ++ SL :: joinWith SL (e2 :: es) = (e ++ [SL]) ++ joinWith SL (e2 :: es) by simp]
        exact getLast?_append_ne _ _ hne2
      rw [this]
      exact ih (by simp) (fun c hc => h c (by simp [hc]))

/-- Every path in `Clean` form is an admissible link target: `Symlink` stores `Clean(oldname)`. -/
theorem targetOK_clean (x : Bytes) : targetOK (clean .linux x) = true := by
  rw [clean_eq_spec, Spec.clean]
  have hinv := inv_fold (rooted := isRooted x) (comps x) (comps_good x) (inv_init _)
  have hnd := fold_noDot (isRooted x) (comps x) [] (by simp)
  obtain ⟨k, tops, hst, hdd, _, hk⟩ := hinv.shape
  have hgood := hinv.good
  generalize (comps x).foldl (specStep (isRooted x)) [] = stack at hst hnd hgood
  generalize isRooted x = rooted at hk
  by_cases hs : stack = []
  · subst hs
    cases rooted <;> decide
  · have hl : stack.reverse ≠ [] := by simpa using hs
    have hgl : ∀ c ∈ stack.reverse, GoodC c := fun c hc => hgood c (by simpa using hc)
    have hlast := getLast?_joinWith stack.reverse hl hgl
    have hdf : dotsFirst stack.reverse = true := by
      rw [hst, List.reverse_append, List.reverse_replicate]
      apply dotsFirst_append
      · intro y hy
        have := List.eq_of_mem_replicate hy
        subst this; rfl
      · intro y hy
        have hy' : y ∈ tops := by simpa using hy
        have h1 : y ≠ [DOT] := hnd y (by rw [hst]; simp [hy'])
        have h2 : y ≠ DD := fun e => hdd (e ▸ hy')
        simp [isDotC, h1, h2]
    have hjne : joinWith SL stack.reverse ≠ [] := by
      intro h0
      have := comps_joinWith stack.reverse
      rw [h0, flatMap_comps_good _ hgl] at this
      simp at this
      exact hs this
    cases rooted with
    | true =>
      have hr : render true stack = SL :: joinWith SL stack.reverse := by simp [render]
      have hc : comps (SL :: joinWith SL stack.reverse) = stack.reverse := comps_spath _ hgl
      have hgl' : (SL :: joinWith SL stack.reverse).getLast? = (joinWith SL stack.reverse).getLast? := by
        rw [show SL :: joinWith SL stack.reverse = [SL] ++ joinWith SL stack.reverse by simp]
        exact getLast?_append_ne _ _ hjne
      simp only [targetOK, targetComps, hr, hc, hgl', hlast, false_and, if_false, List.append_nil, hdf]
    | false =>
      have hr : render false stack = joinWith SL stack.reverse := by simp [render, hjne]
      have hc : comps (joinWith SL stack.reverse) = stack.reverse := by
        rw [comps_joinWith, flatMap_comps_good _ hgl]
      simp only [targetOK, targetComps, hr, hc, hlast, false_and, if_false, List.append_nil, hdf]

theorem targetOK_of_clean (t : Bytes) (h : clean .linux t = t) : targetOK t = true := by
  rw [← h]; exact targetOK_clean t

/-- Following a link physically = splicing it lexically, for a target satisfying `targetOK`: the reference,
    started where the target has to be resolved (`cur0`, reached through the names `rds0`), on the target's
    components and the remaining ones, does what it does from the root on the lexical normal form. -/
theorem walk_target {s : Store} {v : View} {root : Ino} {f : Bool} (t : Bytes) (rest : List Bytes)
    (rds0 : List Bytes) (cur0 : Ino) (anc0 : List Ino) (hch : Chain s v root rds0 cur0 anc0)
    (hpl : ∀ x ∈ rds0, Plain x) (hrest : ∀ x ∈ rest, Plain x) (ht : targetOK t = true) :
    walkLinks s v f rds0 cur0 anc0 (targetComps t ++ rest) =
      walkLinks s v f [] root [] (((comps t).foldl (specStep true) rds0).reverse ++ rest) ∧
    ∀ x ∈ ((comps t).foldl (specStep true) rds0).reverse ++ rest, Plain x := by
  obtain ⟨dots, names, hX, hdots, hnames⟩ := dotsFirst_split ht
  obtain ⟨rds1, cur1, anc1, h1, h2, h3, h4⟩ :=
    walk_dots (f := f) dots rds0 cur0 anc0 hch (fun x hx => (hpl x hx).2.2.2) hdots
  have hfold : (comps t).foldl (specStep true) rds0 = names.reverse ++ rds1 := by
    rw [← foldl_targetComps, hX, List.foldl_append, h2, foldl_plain names rds1 hnames]
  have hnp : ∀ x ∈ names, Plain x := by
    intro x hx
    have hg := targetComps_good t x (by rw [hX]; simp [hx])
    exact ⟨hg.1, fun y hy e => hg.2 (e ▸ hy), (hnames x hx).1, (hnames x hx).2⟩
  have hr1 : ∀ x ∈ rds1, Plain x := fun x hx => hpl x (h3 x hx)
  rw [hfold]
  constructor
  · rw [hX, List.append_assoc, h4]
    simp only [List.reverse_append, List.reverse_reverse, List.append_assoc]
    exact (walk_chain rds1 cur1 anc1 (names ++ rest) h1 (fun x hx => (hr1 x hx).2.2)).symm
  · intro x hx
    simp only [List.reverse_append, List.reverse_reverse, List.mem_append, List.mem_reverse] at hx
    rcases hx with (hx | hx) | hx
    · exact hr1 x hx
    · exact hnp x hx
    · exact hrest x hx

/-! ### 5. The loop of `searchNode` against the reference -/

/-- the comparison of a reference resolution with the result of the iterator-driven walk (`m`: under `slmStat` the
    iterator returned is the one saved at the first final link, so nothing is said about it then) -/
def AgreesL (m : SlMode) (w : Res) (r : SR) : Prop :=
  match w with
  | .found par c path =>
    r.err = .exists ∧ r.child = some c ∧ r.parent = par ∧ (m ≠ .stat → r.pi.path = SL :: joinWith SL path)
  | .missingLast par nm path =>
    r.err = .noent ∧ r.child = none ∧ r.parent = par ∧ r.pi.isLast = true ∧
    (m ≠ .stat → partOf r.pi = nm ∧ r.pi.path = SL :: joinWith SL path)
  | .missingDir => r.err = .noent ∧ (m ≠ .stat → r.pi.isLast = false)
  | .notDir => r.err = .notdir
  | .denied => r.err = .acces
  | .loop => r.err = .loop

def SavedInv (m : SlMode) (saved : Option Iter) : Prop :=
  (m ≠ .stat → saved = none) ∧ ∀ its, saved = some its → its.isLast = true

theorem next_at (it : Iter) (rds : List Bytes) (c : Bytes) (rest : List Bytes)
    (hp : it.path = dpath rds ++ SL :: joinWith SL (c :: rest)) (hst : it.stop1 = (dpath rds).length + 1)
    (hc : Plain c) :
    ∃ it1, it.next .linux = (it1, true) ∧ it1.part = some c ∧ (it1.isLast = true ↔ rest = []) ∧
      it1.path = it.path ∧ it1.start = (dpath rds).length + 1 ∧
      it1.stop1 = (dpath rds).length + 1 + c.length + 1 ∧ it1.volLen = it.volLen := by
  have hlen : (dpath rds ++ [SL]).length = (dpath rds).length + 1 := by simp
  cases rest with
  | nil =>
    have hp' : it.path = (dpath rds ++ [SL]) ++ c ++ [] := by rw [hp]; simp [joinWith]
    obtain ⟨h1, h2⟩ := next_step it (dpath rds ++ [SL]) c [] hp' (by rw [hst, hlen]) hc.1 hc.2.1 rfl
    rw [hlen] at h1 h2
    refine ⟨_, h1, h2, ?_, rfl, rfl, rfl, rfl⟩
    simp [Iter.isLast, hp']
    omega
  | cons c2 cs =>
    have hp' : it.path = (dpath rds ++ [SL]) ++ c ++ (SL :: joinWith SL (c2 :: cs)) := by
      rw [hp, joinWith_cons_cons]; simp
    obtain ⟨h1, h2⟩ := next_step it (dpath rds ++ [SL]) c _ hp' (by rw [hst, hlen]) hc.1 hc.2.1 (by simp)
    rw [hlen] at h1 h2
    refine ⟨_, h1, h2, ?_, rfl, rfl, rfl, rfl⟩
    simp [Iter.isLast, hp']
    omega

/-- without a restart the new path still begins with the names walked so far, and something follows -/
theorem noreset_shape (p : Bytes) (Lc rds : List Bytes) (hLc : ∀ x ∈ Lc, GoodC x) (hr : ∀ x ∈ rds, GoodC x)
    (hp : p = SL :: joinWith SL Lc) (hlen : (dpath rds).length + 1 < p.length)
    (htake : p.take ((dpath rds).length + 1) = dpath rds ++ [SL]) :
    ∃ c' rest', Lc = rds.reverse ++ c' :: rest' := by
  have hsplit : p = dpath rds ++ SL :: p.drop ((dpath rds).length + 1) := by
    have := (List.take_append_drop ((dpath rds).length + 1) p).symm
    rw [htake] at this
    simpa using this
  have hc1 : comps p = Lc := by rw [hp]; exact comps_spath Lc hLc
  have hc2 : comps p = rds.reverse ++ comps (p.drop ((dpath rds).length + 1)) := by
    conv => lhs; rw [hsplit]
    rw [comps_append, comps_dpath _ hr]
  cases hrem : comps (p.drop ((dpath rds).length + 1)) with
  | cons c' rest' => exact ⟨c', rest', by rw [← hc1, hc2, hrem]⟩
  | nil =>
    exfalso
    rw [hrem, List.append_nil, hc1] at hc2
    cases rds with
    | nil =>
      simp at hc2
      subst hc2
      rw [hp] at hlen
      simp [joinWith, dpath] at hlen
    | cons n rds' =>
      rw [hc2, spath_nil] at hp
      rw [hp] at hlen
      omega

theorem measure_pos (s : Store) (sl : Nat) (it : Iter) : 1 ≤ measureT s sl it := by
  unfold measureT; omega

/-- the loop standing in the directory `cur` — reached from the root of the view through the real, searchable
    directories named `rds`, which is also what the iterator has behind it — in front of the components `c :: rest`,
    with `b` links left, agrees with the reference started there.  Of `WF` only `alloc` is used; the root of the view
    is ANY directory (`root` is the root of the whole tree). -/
theorem loop_links {s : Store} {root : Ino} {v : View} (hwf : WF s root)
    (hl : LinksOK s) (m : SlMode) :
    ∀ (fuel : Nat) (rds : List Bytes) (cur : Ino) (anc : List Ino) (c : Bytes) (rest : List Bytes) (it : Iter)
      (sl b : Nat) (saved : Option Iter),
      Chain s v v.root rds cur anc → (∀ x ∈ rds, Plain x) → Plain c → (∀ x ∈ rest, Plain x) →
      it.path = dpath rds ++ SL :: joinWith SL (c :: rest) → it.stop1 = (dpath rds).length + 1 → it.volLen = 0 →
      measureT s sl it ≤ fuel → sl + b = slCountMax → SavedInv m saved →
      AgreesL m (namei s v v.root (m != .lstat) b rds cur anc (c :: rest))
        (searchLoop s v m v.root fuel cur it sl saved) := by
  intro fuel
  induction fuel with
  | zero =>
    intro rds cur anc c rest it sl b saved _ _ _ _ _ _ _ hm _ _
    have := measure_pos s sl it
    omega
  | succ fuel ih =>
    intro rds cur anc c rest it sl b saved hchain hpl hc hrest hp hst hvl hmeas hb hS
    obtain ⟨it1, hnext, hpart, hlast, hp1, hst1, hsp1, hvl1'⟩ := next_at it rds c rest hp hst hc
    have hvl1 : it1.volLen = 0 := by rw [hvl1']; exact hvl
    have hpo1 : partOf it1 = c := by simp [partOf, hpart]
    obtain ⟨md, chd, hgd, hperm⟩ := hchain.perm
    have hcd : (c == [DOT]) = false := by simpa using hc.2.2.1
    have hcdd : (c == DD) = false := by simpa using hc.2.2.2
    have hgetD : m ≠ .stat → saved.getD it1 = it1 := fun hm => by rw [hS.1 hm]; rfl
    have hgetL : rest = [] → (saved.getD it1).isLast = true := by
      intro hr
      cases hsv : saved with
      | none => simpa using hlast.mpr hr
      | some its => simpa using hS.2 its hsv
    have hgetP : m ≠ .stat → rest = [] → (saved.getD it1).path = SL :: joinWith SL (rds.reverse ++ [c]) := by
      intro hm hr
      rw [hgetD hm, hp1, hp, hr, spath_split rds [c] (by simp)]
    rw [searchLoop]
    cases hch : s.child cur c with
    | none =>
      have hw : walkLinks s v (m != .lstat) rds cur anc (c :: rest) =
          .done (if rest.isEmpty then .missingLast cur c (rds.reverse ++ [c]) else .missingDir) := by
        simp [walkLinks, hgd, hperm, hcd, hcdd, hch]
      rw [namei_done hw]
      cases rest with
      | nil =>
        simp only [List.isEmpty_nil, if_true, AgreesL]
        simp [hnext, hpart, hgd, hperm, hch]
        exact ⟨hgetL rfl, fun hm => ⟨by rw [hgetD hm]; exact hpo1, hgetP hm rfl⟩⟩
      | cons c2 cs =>
        simp only [List.isEmpty_cons, AgreesL]
        simp [hnext, hpart, hgd, hperm, hch]
        intro hm
        rw [hgetD hm]
        have : ¬ it1.isLast = true := fun h => by have := hlast.mp h; cases this
        simpa using this
    | some i =>
      have halloc := hwf.alloc cur c i hch
      cases hg : s.get i with
      | none => simp [hg] at halloc
      | some n =>
        cases n with
        | dir mi chi =>
          cases rest with
          | nil =>
            have hw : walkLinks s v (m != .lstat) rds cur anc [c] = .done (.found cur i (rds.reverse ++ [c])) := by
              simp [walkLinks, hgd, hperm, hcd, hcdd, hch, hg]
            rw [namei_done hw]
            have hl1 : it1.isLast = true := hlast.mpr rfl
            simp [AgreesL, hnext, hpart, hgd, hperm, hch, hg, hl1]
            exact fun hm => hgetP hm rfl
          | cons c2 cs =>
            have hl1 : it1.isLast = false := by
              have : ¬ it1.isLast = true := fun h => by have := hlast.mp h; cases this
              simpa using this
            by_cases hpi : checkPerm mi omLookup v = true
            · have hw : walkLinks s v (m != .lstat) rds cur anc (c :: c2 :: cs) =
                  walkLinks s v (m != .lstat) (c :: rds) i (cur :: anc) (c2 :: cs) :=
                walk_dir hchain.perm hc.2.2 hch hg _ _
              rw [namei_congr hw]
              have hrec := ih (c :: rds) i (cur :: anc) c2 cs it1 sl b saved
                (by simp only [Chain]; exact ⟨hch, ⟨mi, chi, hg, hpi⟩, hchain⟩)
                (by intro x hx; simp at hx; rcases hx with rfl | hx; exact hc; exact hpl x hx)
                (hrest c2 (by simp)) (fun x hx => hrest x (by simp [hx]))
                (by rw [hp1, hp, joinWith_cons_cons, dpath]; simp)
                (by rw [hsp1, dpath]; simp; omega) hvl1
                (by
                  have := measure_advance s sl it it1 hp1 (by rw [hst, hsp1]; omega) (by rw [hst, hp]; simp)
                  omega)
                hb hS
              simpa [hnext, hpart, hgd, hperm, hch, hg, hl1, hpi] using hrec
            · have hpi' : checkPerm mi omLookup v = false := by simpa using hpi
              have hw : walkLinks s v (m != .lstat) rds cur anc (c :: c2 :: cs) = .done .denied := by
                rw [walk_dir hchain.perm hc.2.2 hch hg]
                simp [walkLinks, hg, hpi']
              rw [namei_done hw]
              simp [AgreesL, hnext, hpart, hgd, hperm, hch, hg, hl1, hpi']
        | file mf df nl id =>
          have hw : walkLinks s v (m != .lstat) rds cur anc (c :: rest) =
              .done (if rest.isEmpty then .found cur i (rds.reverse ++ [c]) else .notDir) := by
            simp [walkLinks, hgd, hperm, hcd, hcdd, hch, hg]
          rw [namei_done hw]
          cases rest with
          | nil =>
            have hl1 : it1.isLast = true := hlast.mpr rfl
            simp [AgreesL, hnext, hpart, hgd, hperm, hch, hg, hl1]
            exact fun hm => hgetP hm rfl
          | cons c2 cs =>
            have hl1 : it1.isLast = false := by
              have : ¬ it1.isLast = true := fun h => by have := hlast.mp h; cases this
              simpa using this
            simp [AgreesL, hnext, hpart, hgd, hperm, hch, hg, hl1]
        | symlink ms t =>
          have ht : targetOK t = true := hl cur c i ms t hch hg
          have hw : walkLinks s v (m != .lstat) rds cur anc (c :: rest) =
              (if rest.isEmpty && !(m != .lstat) then .nofollow cur i (rds.reverse ++ [c]) else .link rds cur anc t rest) := by
            simp [walkLinks, hgd, hperm, hcd, hcdd, hch, hg]
          by_cases hx : (it1.isLast && m == .lstat) = true
          · have hx' : it1.isLast = true ∧ m = .lstat := by simpa using hx
            have hre : rest = [] := hlast.mp hx'.1
            have hn : namei s v v.root (m != .lstat) b rds cur anc (c :: rest) = .found cur i (rds.reverse ++ [c]) := by
              have hw' : walkLinks s v (m != .lstat) rds cur anc (c :: rest) = .nofollow cur i (rds.reverse ++ [c]) := by
                rw [hw]; simp [hre, hx'.2]
              cases b <;> simp only [namei, hw']
            rw [hn]
            simp [AgreesL, hnext, hpart, hgd, hperm, hch, hg, hx]
            exact fun hm => hgetP hm hre
          · -- the link has to be followed
            have hfol : (rest.isEmpty && !(m != .lstat)) = false := by
              cases hre : rest with
              | nil =>
                have hl1 : it1.isLast = true := hlast.mpr hre
                simp [hl1] at hx
                simp [hx]
              | cons _ _ => simp
            cases b with
            | zero =>
              have hcount : sl + 1 > slCountMax := by omega
              have hn : namei s v v.root (m != .lstat) 0 rds cur anc (c :: rest) = .loop := by
                simp [namei, hw, hfol]
              rw [hn]
              simp [AgreesL, hnext, hpart, hgd, hperm, hch, hg, hcount, hx]
            | succ b' =>
              have hcount : ¬ (sl + 1 > slCountMax) := by omega
              obtain ⟨it2, reset, hrep, hp2, hvl2, hlen2, hres, hnres⟩ :=
                replace_links it1 rds c rest t hpl hc hrest (by rw [hp1, hp]) hst1 hsp1 hvl1
              have hlink := link_le_maxLinkLen s i ms t hg
              have hmeas2 : measureT s (sl + 1) it2 ≤ fuel := by
                have := measure_replace s sl it it2 (by omega) (by rw [hp1] at hlen2; omega)
                  (by cases reset with
                      | true => rw [hres rfl]; exact Nat.le_refl _
                      | false => rw [(hnres rfl).1]; omega)
                omega
              generalize hsv' : (if it1.isLast && m == .stat && saved.isNone then some it1 else saved) = saved'
              have hS' : SavedInv m saved' := by
                rw [← hsv']
                constructor
                · intro hm
                  have := hS.1 hm
                  simp [hm, this]
                · intro its hits
                  split at hits
                  · rename_i hcnd
                    simp at hcnd hits
                    subst hits
                    exact hcnd.1.1
                  · exact hS.2 its hits
              -- what the loop does next agrees with the reference restarted at the root on the new path
              have cont : ∀ (Lc : List Bytes), (∀ x ∈ Lc, Plain x) → it2.path = SL :: joinWith SL Lc →
                  AgreesL m (namei s v v.root (m != .lstat) b' [] v.root [] Lc)
                    (searchLoop s v m v.root fuel (if reset then v.root else cur) it2 (sl + 1) saved') := by
                intro Lc hLc hp2
                cases reset with
                | true =>
                  have hs2 : it2.stop1 = 1 := hres rfl
                  cases Lc with
                  | nil =>
                    obtain ⟨k, rfl⟩ : ∃ k, fuel = k + 1 := ⟨fuel - 1, by have := measure_pos s (sl + 1) it2; omega⟩
                    have hw0 : walkLinks s v (m != .lstat) [] v.root [] [] = .done (.found v.root v.root []) := by
                      simp [walkLinks]
                    rw [namei_done hw0, searchLoop]
                    simp [joinWith] at hp2
                    simp [AgreesL, Iter.next, hp2, hs2]
                    intro hm
                    rw [hS'.1 hm]
                    simp [joinWith, hp2]
                  | cons c' rest' =>
                    exact ih [] v.root [] c' rest' it2 (sl + 1) b' saved' (chain_root hchain.root_perm)
                      (by simp) (hLc c' (by simp)) (fun x hx => hLc x (by simp [hx]))
                      (by rw [hp2]; simp [dpath]) (by rw [hs2]; simp [dpath]) hvl2 hmeas2 (by omega) hS'
                | false =>
                  obtain ⟨hs2, hlt2, htk2⟩ := hnres rfl
                  obtain ⟨c', rest', hLc2⟩ := noreset_shape it2.path Lc rds (fun x hx => (hLc x hx).good)
                    (fun x hx => (hpl x hx).good) hp2 hlt2 htk2
                  have hwc := walk_chain (f := (m != .lstat)) rds cur anc (c' :: rest') hchain
                    (fun x hx => (hpl x hx).2.2)
                  rw [hLc2, namei_congr hwc]
                  have hmem : ∀ x ∈ c' :: rest', Plain x := fun x hx => hLc x (by rw [hLc2]; simp at hx ⊢; exact Or.inr hx)
                  exact ih rds cur anc c' rest' it2 (sl + 1) b' saved' hchain hpl (hmem c' (by simp))
                    (fun x hx => hmem x (by simp [hx]))
                    (by rw [hp2, hLc2]; exact spath_split rds (c' :: rest') (by simp)) hs2 hvl2 hmeas2 (by omega) hS'
              have hloop : searchLoop s v m v.root (fuel + 1) cur it sl saved =
                  searchLoop s v m v.root fuel (if reset then v.root else cur) it2 (sl + 1) saved' := by
                rw [searchLoop, ← hsv']
                simp [hnext, hpart, hgd, hperm, hch, hg, hcount, hx, hrep]
              rw [← searchLoop, hloop]
              by_cases ha : isAbs .linux t = true
              · obtain ⟨hwt, hplc⟩ := walk_target (f := (m != .lstat)) t rest [] v.root []
                  (chain_root hchain.root_perm) (by simp) hrest ht
                have hn : namei s v v.root (m != .lstat) (b' + 1) rds cur anc (c :: rest) =
                    namei s v v.root (m != .lstat) b' [] v.root [] (targetComps t ++ rest) := by
                  simp only [namei, hw, hfol]
                  simp [ha]
                rw [hn, namei_congr hwt]
                exact cont _ hplc (by rw [hp2, if_pos ha])
              · obtain ⟨hwt, hplc⟩ := walk_target (f := (m != .lstat)) t rest rds cur anc hchain hpl hrest ht
                have hn : namei s v v.root (m != .lstat) (b' + 1) rds cur anc (c :: rest) =
                    namei s v v.root (m != .lstat) b' rds cur anc (targetComps t ++ rest) := by
                  simp only [namei, hw, hfol]
                  simp [ha]
                rw [hn, namei_congr hwt]
                exact cont _ hplc (by rw [hp2, if_neg ha])

/-! ### 6. `searchNode` = `namei` -/

/-- GENERAL form: the root of the view is ANY directory of the heap (a view made by `Sub`): absolute targets
    restart there and ".." stays there, for both resolutions (`root` is the root of the whole tree). -/
theorem searchNode_eq_namei_gen (s : Store) (root : Ino) (v : View) (hwf : WF s root) (hv : ViewOK s v)
    (hl : LinksOK s) (cs : List Bytes) (hall : ∀ c ∈ cs, c ≠ [] ∧ ∀ x ∈ c, x ≠ SL)
    (hdots : ∀ c ∈ cs, c ≠ [DOT] ∧ c ≠ [DOT, DOT]) (m : SlMode) :
    AgreesL m (nameiPath s v (m != .lstat) cs) (searchNode s v (SL :: joinWith SL cs) m) := by
  have hplain : ∀ c ∈ cs, Plain c := fun c hc => ⟨(hall c hc).1, (hall c hc).2, (hdots c hc).1, (hdots c hc).2⟩
  unfold searchNode nameiPath nameiPathB
  simp only [abs_joined cs v.cwd hall hdots]
  have hfuel := searchFuel_ge s (SL :: joinWith SL cs)
  obtain ⟨k, hk⟩ : ∃ k, searchFuel s (SL :: joinWith SL cs) = k + 1 := ⟨_, (Nat.sub_add_cancel (by omega)).symm⟩
  cases cs with
  | nil =>
    have hw0 : walkLinks s v (m != .lstat) [] v.root [] [] = .done (.found v.root v.root []) := by simp [walkLinks]
    rw [namei_done hw0, hk, searchLoop]
    simp [joinWith, Iter.new, Iter.next, volumeNameLen, AgreesL]
  | cons c rest =>
    obtain ⟨mr, chr, hgr⟩ := get_of_isDirAt hv.rootDir
    by_cases hperm : checkPerm mr omLookup v = true
    · exact loop_links hwf hl m _ [] v.root [] c rest (Iter.new .linux (SL :: joinWith SL (c :: rest))) 0
        slCountMax none (chain_root ⟨mr, chr, hgr, hperm⟩) (by simp) (hplain c (by simp))
        (fun x hx => hplain x (by simp [hx])) (by simp [Iter.new, dpath]) (by simp [Iter.new, dpath, volumeNameLen])
        rfl (measure_init s _) (by simp) ⟨fun _ => rfl, fun _ h => by simp at h⟩
    · have hperm' : checkPerm mr omLookup v = false := by simpa using hperm
      have hw : walkLinks s v (m != .lstat) [] v.root [] (c :: rest) = .done .denied := by
        simp [walkLinks, hgr, hperm']
      obtain ⟨it1, hnext, hpart, _⟩ := next_at (Iter.new .linux (SL :: joinWith SL (c :: rest))) [] c rest
        (by simp [Iter.new, dpath]) (by simp [Iter.new, dpath, volumeNameLen]) (hplain c (by simp))
      rw [namei_done hw, hk, searchLoop]
      simp [AgreesL, hnext, hpart, hgr, hperm']

/-- MAIN THEOREM. On a well-formed heap whose link targets satisfy `LinksOK`, for every user and every follow mode,
    the walk of MemFS on the clean absolute path "/c1/…/cn" agrees with the reference resolution `namei` with
    physical "." / ".." and the 40-link budget: same error class, same parent, same child, same name of a missing
    last component — whatever the number, nesting or cyclicity of the symbolic links.
    (Also at the edge of the budget, for the three modes: the last link of an `slmLstat` walk is not charged — before
    the repair recorded in `C04_lstat_budget_repaired` MemFS charged it.) -/
theorem searchNode_eq_namei (s : Store) (root : Ino) (v : View) (hwf : WF s root) (hn : NamesOK s) (hv : ViewOK s v)
    (hroot : v.root = root) (hl : LinksOK s) (cs : List Bytes) (hall : ∀ c ∈ cs, c ≠ [] ∧ ∀ x ∈ c, x ≠ SL)
    (hdots : ∀ c ∈ cs, c ≠ [DOT] ∧ c ≠ [DOT, DOT]) (m : SlMode) :
    AgreesL m (nameiPath s v (m != .lstat) cs) (searchNode s v (SL :: joinWith SL cs) m) :=
  searchNode_eq_namei_gen s root v hwf hv hl cs hall hdots m

/-- the components of a cleaned rooted path are ordinary names -/
theorem fold_rooted_plain (X : List Bytes) (hX : ∀ c ∈ X, GoodC c) :
    ∀ c ∈ X.foldl (specStep true) [], Plain c := by
  have hinv := inv_fold (rooted := true) X hX (inv_init true)
  have hnd := fold_noDot true X [] (by simp)
  obtain ⟨k, tops, hst, hdd, _, hk⟩ := hinv.shape
  have hk0 := hk rfl
  subst hk0
  intro c hc
  have hg := hinv.good c hc
  refine ⟨hg.1, fun y hy e => hg.2 (e ▸ hy), hnd c hc, ?_⟩
  intro e
  rw [hst] at hc
  simp at hc
  exact hdd (e ▸ hc)

/-- `Abs` gives "/c1/…/cn" with ordinary names, whatever the path -/
theorem abs_shape (p cwd : Bytes) (hc : isAbs .linux cwd = true) :
    ∃ cs, abs .linux p cwd = SL :: joinWith SL cs ∧ ∀ c ∈ cs, Plain c := by
  unfold abs
  split
  · rename_i h
    rw [isAbs_eq_isRooted] at h
    rw [clean_eq_spec, Spec.clean, h, render_true]
    exact ⟨_, rfl, fun c hc => fold_rooted_plain (comps p) (comps_good p) c (by simpa using hc)⟩
  · rw [isAbs_eq_isRooted] at hc
    rw [join_rooted_eq cwd [p] hc, render_true]
    refine ⟨_, rfl, fun c hc => fold_rooted_plain ([cwd, p].flatMap comps) ?_ c (List.mem_reverse.mp hc)⟩
    intro x hx
    simp only [List.flatMap_cons, List.flatMap_nil, List.append_nil, List.mem_append] at hx
    rcases hx with hx | hx
    · exact comps_good cwd x hx
    · exact comps_good p x hx

/-- ANY path (relative, unclean, with "." and ".."): `searchNode` first makes it absolute and CLEANS it lexically
    (`Abs`); on the components of that string it is the reference resolution. The only difference with a physical
    resolution of the caller's path is thus this first, lexical, `Clean` (see `C04_lexical_dotdot_path_witness`). -/
theorem searchNode_eq_namei_any (s : Store) (root : Ino) (v : View) (hwf : WF s root) (hv : ViewOK s v)
    (hl : LinksOK s) (p : Bytes) (m : SlMode) :
    AgreesL m (nameiPath s v (m != .lstat) (comps (abs .linux p v.cwd))) (searchNode s v p m) := by
  obtain ⟨cs, hcs, hpl⟩ := abs_shape p v.cwd hv.cwdAbs
  have hall : ∀ c ∈ cs, c ≠ [] ∧ ∀ x ∈ c, x ≠ SL := fun c hc => ⟨(hpl c hc).1, (hpl c hc).2.1⟩
  have hdots : ∀ c ∈ cs, c ≠ [DOT] ∧ c ≠ [DOT, DOT] := fun c hc => (hpl c hc).2.2
  have h := searchNode_eq_namei_gen s root v hwf hv hl cs hall hdots m
  have hc : comps (abs .linux p v.cwd) = cs := by rw [hcs]; exact comps_spath cs (fun c hc => (hpl c hc).good)
  have he : searchNode s v (SL :: joinWith SL cs) m = searchNode s v p m := by
    unfold searchNode
    simp only [abs_joined cs v.cwd hall hdots, hcs]
  rw [hc, ← he]
  exact h

/-! ### 7. A following resolution never ends on an unfollowed link -/

theorem walk_follow_ne_nofollow (s : Store) (v : View) : ∀ (X nms : List Bytes) (cur : Ino) (anc : List Ino)
    (p c : Ino) (path : List Bytes), walkLinks s v true nms cur anc X ≠ .nofollow p c path := by
  intro X
  induction X with
  | nil => intro nms cur anc p c path; simp [walkLinks]
  | cons x X ih =>
    intro nms cur anc p c path
    simp only [walkLinks]
    repeat' split
    all_goals first | exact ih _ _ _ _ _ _ | simp_all

/-! ### 8. `EvalSymlinks` = realpath -/

/-- the error of a failed resolution -/
def Res.toErr : Res → Err
  | .found _ _ _ => .EEXIST
  | .missingLast _ _ _ => .ENOENT
  | .missingDir => .ENOENT
  | .notDir => .ENOTDIR
  | .denied => .EACCES
  | .loop => .ELOOP

/-- `EvalSymlinks(p)` returns the REAL path computed by the textbook resolution (following every link) of the
    components of `Clean(Abs(p))` — "/" joined with the names of the real directories passed and the last name — or
    fails with the error of that resolution. -/
theorem evalSymlinks_eq_namei (s : Store) (root : Ino) (v : View) (hwf : WF s root) (hv : ViewOK s v)
    (hl : LinksOK s) (p : Bytes) :
    evalSymlinks s v p =
      (s, match nameiPath s v true (comps (abs .linux p v.cwd)) with
          | .found _ _ path => .ok (.bytes (SL :: joinWith SL path))
          | r => .err r.toErr) := by
  have h := searchNode_eq_namei_any s root v hwf hv hl p .eval
  have hf : (SlMode.eval != SlMode.lstat) = true := by decide
  rw [hf] at h
  unfold nameiPath nameiPathB at h ⊢
  generalize namei s v v.root true slCountMax [] v.root [] (comps (abs .linux p v.cwd)) = w at h
  cases w <;> simp only [AgreesL] at h <;> simp [evalSymlinks, h, Res.toErr, SErr.toErr]

/-! ### 9. The path computed by the reference is real -/

/-- like `Chain`, the search permission of the last directory not (yet) known -/
def ChainW (s : Store) (v : View) (root : Ino) : List Bytes → Ino → List Ino → Prop
  | [], cur, [] => cur = root ∧ isDirAt s cur = true
  | n :: rds, cur, p :: anc => s.child p n = some cur ∧ isDirAt s cur = true ∧ Chain s v root rds p anc
  | _, _, _ => False

theorem Chain.weak {s : Store} {v : View} {root : Ino} {nms : List Bytes} {cur : Ino} {anc : List Ino}
    (h : Chain s v root nms cur anc) : ChainW s v root nms cur anc := by
  obtain ⟨m, ch, hg, _⟩ := h.perm
  cases nms with
  | nil =>
    cases anc with
    | nil => simp only [Chain, ChainW] at h ⊢; exact ⟨h.1, isDirAt_of_get hg⟩
    | cons _ _ => simp [Chain] at h
  | cons n nms =>
    cases anc with
    | nil => simp [Chain] at h
    | cons _ _ => simp only [Chain, ChainW] at h ⊢; exact ⟨h.1, isDirAt_of_get hg, h.2.2⟩

theorem ChainW.strong {s : Store} {v : View} {root : Ino} {nms : List Bytes} {cur : Ino} {anc : List Ino}
    (h : ChainW s v root nms cur anc) (hp : DirPerm s v cur) : Chain s v root nms cur anc := by
  cases nms with
  | nil =>
    cases anc with
    | nil => simp only [Chain, ChainW] at h ⊢; exact ⟨h.1, hp⟩
    | cons _ _ => simp [ChainW] at h
  | cons n nms =>
    cases anc with
    | nil => simp [ChainW] at h
    | cons _ _ => simp only [Chain, ChainW] at h ⊢; exact ⟨h.1, hp, h.2.2⟩

def NoDots (l : List Bytes) : Prop := ∀ x ∈ l, x ≠ [DOT] ∧ x ≠ DD

/-- `path` is the real path of the entry `c` of the directory `p`: the directories passed from the root of the view
    are real directories (no link among them) that the user may search -/
def RealEntry (s : Store) (v : View) (root : Ino) (p c : Ino) (path : List Bytes) : Prop :=
  (path = [] ∧ p = root ∧ c = root) ∨
  ∃ nms anc nm, path = nms.reverse ++ [nm] ∧ Chain s v root nms p anc ∧ s.child p nm = some c

def notLink (s : Store) (c : Ino) : Prop := ∀ m t, s.get c ≠ some (.symlink m t)

theorem notLink_of_dir {s : Store} {c : Ino} (h : isDirAt s c = true) : notLink s c := by
  intro m t hg
  simp [isDirAt, hg] at h

/-- what a descent started on a real chain returns is real -/
def WalkReal (s : Store) (v : View) (root : Ino) : Walk → Prop
  | .done (.found p c path) => RealEntry s v root p c path ∧ notLink s c
  | .done (.missingLast p nm path) => ∃ nms anc, path = nms.reverse ++ [nm] ∧ Chain s v root nms p anc
  | .done _ => True
  | .nofollow p c path => RealEntry s v root p c path
  | .link nms cur anc _ _ => Chain s v root nms cur anc

theorem walk_real (s : Store) (v : View) (root : Ino) (f : Bool) :
    ∀ (X nms : List Bytes) (cur : Ino) (anc : List Ino), ChainW s v root nms cur anc →
      WalkReal s v root (walkLinks s v f nms cur anc X) := by
  intro X
  induction X with
  | nil =>
    intro nms cur anc h
    simp only [walkLinks, WalkReal]
    cases nms with
    | nil =>
      cases anc with
      | nil =>
        simp only [ChainW] at h
        exact ⟨Or.inl ⟨rfl, by simp [h.1], h.1⟩, notLink_of_dir h.2⟩
      | cons _ _ => simp [ChainW] at h
    | cons n nms =>
      cases anc with
      | nil => simp [ChainW] at h
      | cons p anc =>
        simp only [ChainW] at h
        exact ⟨Or.inr ⟨nms, anc, n, by simp, h.2.2, h.1⟩, notLink_of_dir h.2.1⟩
  | cons c X ih =>
    intro nms cur anc h
    simp only [walkLinks]
    split
    · rename_i m ch hg
      split
      · trivial
      · rename_i hperm
        have hch : Chain s v root nms cur anc := h.strong ⟨m, ch, hg, by simpa using hperm⟩
        split
        · exact ih nms cur anc h
        · split
          · cases anc with
            | nil =>
              cases nms with
              | nil => exact ih _ cur [] h
              | cons _ _ => simp [ChainW] at h
            | cons p anc' =>
              cases nms with
              | nil => simp [ChainW] at h
              | cons n nms' =>
                simp only [ChainW] at h
                exact ih nms' p anc' h.2.2.weak
          · split
            · split
              · exact ⟨nms, anc, rfl, hch⟩
              · trivial
            · rename_i i hci
              split
              · rename_i mi chi hgi
                exact ih (c :: nms) i (cur :: anc) (by simp only [ChainW]; exact ⟨hci, isDirAt_of_get hgi, hch⟩)
              · rename_i hgi
                split
                · exact ⟨Or.inr ⟨nms, anc, c, rfl, hch, hci⟩, fun m t hg' => by rw [hgi] at hg'; cases hg'⟩
                · trivial
              · split
                · exact Or.inr ⟨nms, anc, c, rfl, hch, hci⟩
                · exact hch
              · trivial
    · trivial

/-- the path returned with `found` by a resolution that follows every link is REAL -/
theorem namei_real (s : Store) (v : View) (root : Ino) (hr : isDirAt s root = true) :
    ∀ (b : Nat) (nms : List Bytes) (cur : Ino) (anc : List Ino) (X : List Bytes) (p c : Ino) (path : List Bytes),
      ChainW s v root nms cur anc → namei s v root true b nms cur anc X = .found p c path →
      RealEntry s v root p c path ∧ notLink s c := by
  intro b
  induction b with
  | zero =>
    intro nms cur anc X p c path h hn
    have hw := walk_real s v root true X nms cur anc h
    simp only [namei] at hn
    split at hn
    · rename_i r hwr; subst hn; rw [hwr] at hw; exact hw
    · rename_i hwr; exact absurd hwr (walk_follow_ne_nofollow s v X nms cur anc _ _ _)
    · cases hn
  | succ b ih =>
    intro nms cur anc X p c path h hn
    have hw := walk_real s v root true X nms cur anc h
    rw [namei] at hn
    split at hn
    · rename_i r hwr; subst hn; rw [hwr] at hw; exact hw
    · rename_i hwr; exact absurd hwr (walk_follow_ne_nofollow s v X nms cur anc _ _ _)
    · rename_i nms' cur' anc' t rest hwr
      rw [hwr] at hw
      split at hn
      · exact ih [] root [] _ p c path ⟨rfl, hr⟩ hn
      · exact ih nms' cur' anc' _ p c path (Chain.weak hw) hn

/-- the link-free descent `walkPath` along a chain of real searchable directories -/
theorem walkPath_chain {s : Store} {v : View} {root : Ino} :
    ∀ (nms : List Bytes) (p : Ino) (anc : List Ino) (y : Bytes) (Y : List Bytes), Chain s v root nms p anc →
      walkPath s v root (nms.reverse ++ y :: Y) = walkPath s v p (y :: Y) := by
  intro nms
  induction nms with
  | nil =>
    intro p anc y Y h
    cases anc <;> simp [Chain] at h
    simp [h.1]
  | cons n nms ih =>
    intro p anc y Y h
    cases anc with
    | nil => simp [Chain] at h
    | cons q anc =>
      simp only [Chain] at h
      obtain ⟨hch, ⟨mi, chi, hgi, hpi⟩, hrest⟩ := h
      obtain ⟨mq, chq, hgq, hpq⟩ := hrest.perm
      have := ih q anc n (y :: Y) hrest
      simp only [List.reverse_cons, List.append_assoc, List.singleton_append]
      rw [this]
      simp [walkPath, hgq, hpq, hch, hgi]

/-- a real entry that is not a link is what the link-free descent finds on its path -/
theorem walkPath_real {s : Store} {v : View} {root : Ino} {p c : Ino} {path : List Bytes}
    (h : RealEntry s v root p c path) (hc : notLink s c) (halloc : (s.get c).isSome = true) :
    walkPath s v root path = .found p c := by
  rcases h with ⟨rfl, rfl, rfl⟩ | ⟨nms, anc, nm, rfl, hch, hchild⟩
  · simp [walkPath]
  · rw [walkPath_chain nms p anc nm [] hch]
    obtain ⟨m, ch, hg, hp⟩ := hch.perm
    cases hgc : s.get c with
    | none => simp [hgc] at halloc
    | some n =>
      cases n with
      | symlink ms t => exact absurd hgc (hc ms t)
      | dir _ _ => simp [walkPath, hg, hp, hchild, hgc]
      | file _ _ _ _ => simp [walkPath, hg, hp, hchild, hgc]

/-- The path `EvalSymlinks` returns is REAL and names the same object: when the textbook resolution of the
    caller's path finds `c` in `par` with the path `path`, the LINK-FREE descent `walkPath` along `path` finds the same
    `c` in the same `par` (so no component of `path` is a symbolic link, every directory on it may be searched). -/
theorem nameiPath_real (s : Store) (root : Ino) (v : View) (hwf : WF s root) (hv : ViewOK s v)
    (cs : List Bytes) (par c : Ino) (path : List Bytes) (h : nameiPath s v true cs = .found par c path) :
    walkPath s v v.root path = .found par c := by
  unfold nameiPath nameiPathB at h
  obtain ⟨hre, hnl⟩ := namei_real s v v.root hv.rootDir slCountMax [] v.root [] cs par c path ⟨rfl, hv.rootDir⟩ h
  apply walkPath_real hre hnl
  rcases hre with ⟨_, _, rfl⟩ | ⟨nms, anc, nm, _, _, hchild⟩
  · have := hv.rootDir
    simp only [isDirAt] at this
    split at this <;> simp_all
  · exact hwf.alloc par nm c hchild

end Avfs.FS
