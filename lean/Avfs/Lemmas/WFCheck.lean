import Avfs.FS.WF
import Avfs.Lemmas.Heap
import Avfs.Lemmas.HeapR
/-
  Soundness of the executable well-formedness check: `wfCheck` is what the harness evaluates on the node graph dumped
  from the implementation after every call; this theorem makes "wfCheck printed true" mean "the implementation's graph
  satisfies the invariant WF of C05 (and its entry names are valid)".
-/
namespace Avfs.FS
open Avfs.Path

/-! ### helpers -/

theorem wfc_mem_inos_of_get {s : Store} {i : Ino} (h : (s.get i).isSome = true) : i ∈ s.inos :=
  (hr_mem_alKeys i s.nodes).mpr h

theorem wfc_mem_allEdges_iff (s : Store) (d : Ino) (n : Bytes) (c : Ino) : (d, n, c) ∈ allEdges s ↔ Edge s d n c := by
  unfold allEdges
  simp only [List.mem_flatMap, List.mem_filterMap, Option.map_eq_some_iff, Prod.mk.injEq]
  constructor
  · rintro ⟨d', _, n', _, c', hc', rfl, rfl, rfl⟩
    exact hc'
  · intro h
    obtain ⟨m, ch, hg⟩ := isDirAt_iff.mp (Edge.isDir h)
    refine ⟨d, wfc_mem_inos_of_get (by simp [hg]), n, ?_, c, h, rfl, rfl, rfl⟩
    refine (hr_mem_alKeys n _).mpr ?_
    unfold Edge Store.child at h
    simp [h]

/-- the edge list is complete: every effective entry of the heap is listed -/
theorem mem_allEdges_of_edge (s : Store) (d : Ino) (n : Bytes) (c : Ino) (h : Edge s d n c) : (d, n, c) ∈ allEdges s :=
  (wfc_mem_allEdges_iff s d n c).mpr h

theorem edge_of_mem_allEdges (s : Store) (d : Ino) (n : Bytes) (c : Ino) (h : (d, n, c) ∈ allEdges s) : Edge s d n c :=
  (wfc_mem_allEdges_iff s d n c).mp h

theorem wfc_lookup_append {κ ν : Type} [DecidableEq κ] {k : κ} {v : ν} {l1 l2 : List (κ × ν)}
    (h : AL.lookup k (l1 ++ l2) = some v) : (∃ v', (k, v') ∈ l1) ∨ AL.lookup k l2 = some v := by
  induction l1 with
  | nil => exact Or.inr h
  | cons p l ih =>
    obtain ⟨k', v'⟩ := p
    by_cases hk : k' = k
    · subst hk; exact Or.inl ⟨v', by simp⟩
    · simp only [List.cons_append, AL.lookup, hk, if_false] at h
      rcases ih h with ⟨w, hw⟩ | h'
      · exact Or.inl ⟨w, by simp [hw]⟩
      · exact Or.inr h'

/-- every key of the breadth-first depth table other than the root is the target of a listed edge -/
theorem wfc_bfsDepth_keys (s : Store) (edges : List (Ino × Bytes × Ino)) (root : Ino) :
    ∀ (fuel : Nat) (acc : List (Ino × Nat)),
      (∀ i k, AL.lookup i acc = some k → i = root ∨ ∃ p pn, (p, pn, i) ∈ edges) →
      ∀ i k, AL.lookup i (bfsDepth s edges fuel acc) = some k → i = root ∨ ∃ p pn, (p, pn, i) ∈ edges := by
  intro fuel
  induction fuel with
  | zero => intro acc hacc i k h; exact hacc i k h
  | succ fuel ih =>
    intro acc hacc i k h
    unfold bfsDepth at h
    simp only at h
    split at h
    · exact hacc i k h
    · next hne =>
      refine ih _ ?_ i k h
      intro j kj hj
      rcases wfc_lookup_append hj with ⟨w, hw⟩ | hj'
      · rw [List.mem_eraseDups, List.mem_filterMap] at hw
        obtain ⟨⟨p, pn, c⟩, hmem, hsome⟩ := hw
        simp only at hsome
        split at hsome
        · split at hsome
          · simp only [Option.some.injEq, Prod.mk.injEq] at hsome
            obtain ⟨rfl, _⟩ := hsome
            exact Or.inr ⟨p, pn, hmem⟩
          · cases hsome
        · cases hsome
      · exact hacc j kj hj'

theorem wfCheck_sound (s : Store) (root : Ino) (h : wfCheck s root = true) : WF s root ∧ NamesOK s := by
  unfold wfCheck at h
  simp only [Bool.and_eq_true, List.all_eq_true] at h
  obtain ⟨⟨⟨⟨⟨⟨⟨h1, h2⟩, h3⟩, h4⟩, h5⟩, h6⟩, h7⟩, h8⟩ := h
  generalize hD : bfsDepth s (allEdges s) (s.inos.length + 1) [(root, 0)] = depths at h5
  -- the depth table on an edge
  have hdep : ∀ d n c, Edge s d n c → ∃ k, AL.lookup d depths = some k ∧
      (isDirAt s c = true → AL.lookup c depths = some (k + 1)) := by
    intro d n c he
    have := h5 _ (mem_allEdges_of_edge s d n c he)
    simp only at this
    split at this
    · cases this
    · next k hk =>
      refine ⟨k, hk, fun hc => ?_⟩
      simpa [hc] using this
  -- every key of the table is the root or has a parent entry
  have hkeys : ∀ i k, AL.lookup i depths = some k → i = root ∨ ∃ p pn, (p, pn, i) ∈ allEdges s := by
    rw [← hD]
    apply wfc_bfsDepth_keys
    intro i k hi
    by_cases hr : root = i
    · exact Or.inl hr.symm
    · simp [AL.lookup, hr] at hi
  -- the per-inode conjunct
  have hfile : ∀ i m data nl id, s.get i = some (.file m data nl id) →
      nl = (linkCount s i : Int) ∧ id ≤ s.lastId ∧
      ∀ j m' d' nl', s.get j = some (.file m' d' nl' id) → i = j := by
    intro i m data nl id hg
    have := h8 i (wfc_mem_inos_of_get (by simp [hg]))
    rw [hg] at this
    simp only [Bool.and_eq_true, beq_iff_eq, decide_eq_true_eq, List.all_eq_true] at this
    obtain ⟨⟨ha, hb⟩, hc⟩ := this
    refine ⟨ha, hb, ?_⟩
    intro j m' d' nl' hj
    have := hc j (wfc_mem_inos_of_get (by simp [hj]))
    rw [hj] at this
    simpa using this
  refine ⟨⟨h1, ?_, ?_, ?_, ?_, ?_, ?_, ?_, ?_, ?_⟩, ?_⟩
  · intro d n he
    have := h2 _ (mem_allEdges_of_edge s d n root he)
    simp at this
  · intro d n c he
    exact h3 _ (mem_allEdges_of_edge s d n c he)
  · intro i hi
    simpa using h4 i (wfc_mem_inos_of_get hi)
  · refine ⟨fun i => (AL.lookup i depths).getD 0, ?_⟩
    intro d n c he hc
    obtain ⟨k, hk, hk'⟩ := hdep d n c he
    simp [hk, hk' hc]
  · intro d n d' n' c he he' hc
    have := h6 _ (mem_allEdges_of_edge s d n c he)
    simp only [hc, Bool.not_true, Bool.false_or, List.all_eq_true] at this
    have := this _ (mem_allEdges_of_edge s d' n' c he')
    simp at this
    exact ⟨this.1.symm, this.2.symm⟩
  · intro d n c he
    obtain ⟨k, hk, _⟩ := hdep d n c he
    rcases hkeys d k hk with h | ⟨p, pn, h⟩
    · exact Or.inl h
    · exact Or.inr ⟨p, pn, edge_of_mem_allEdges s p pn d h⟩
  · intro i m data nl id hg
    exact (hfile i m data nl id hg).1
  · intro i j m d nl id m' d' nl' hi hj
    exact (hfile i m d nl id hi).2.2 j m' d' nl' hj
  · intro i m d nl id hg
    exact (hfile i m d nl id hg).2.1
  · intro d n c he
    exact h7 _ (mem_allEdges_of_edge s d n c he)

end Avfs.FS
