import Avfs.FS.Orefa
import Avfs.Lemmas.Clean
import Avfs.Lemmas.PathMore
import Avfs.Lemmas.HeapR
/-
  C05 for OrefaFS: the namespace stays a well-formed tree and the flat index `nodes` always agrees with the
  children maps, with exact link counts.

  * `OWF` is the invariant, `owfCheck` / `owfOk` its executable form (used on concrete states);
  * `OWF_initState`: the state `New` builds satisfies it;
  * `OWF_mkdir`, `OWF_openFile`, `OWF_remove`, `OWF_link`, `OWF_mkdirAll`, `OWF_setAttr`, `OWF_truncate`, `OWF_rename`,
    `OWF_removeAll`, `OWF_fileStep`: every call keeps it, for ALL arguments and ANY view (no hypothesis on the current
    directory: Abs returns "" or a cleaned path, and a path whose parent part is indexed is absolute);
  * `OWF_step`, `OWF_reachable`: every call of `step`, every reachable state.

  The heap is an association list that is only read through `get`: states that differ in the order of the heap list
  are identified by `Eqv` (Rename of a file is [Remove new]; Link old new; Remove old up to `Eqv`).
-/
namespace Avfs.Orefa
open Avfs.Path Avfs.FS

/-- the inode of the root (the first node `New` allocates) -/
def rootIno : Ino := 0

/-- number of index keys bound to `i` (the index has no duplicate key: clause `keysNodup`) -/
def nkeys (s : OStore) (i : Ino) : Nat := (s.index.filter (fun e => e.2 == i)).length

structure OWF (s : OStore) : Prop where
  /-- (a) the root is indexed under "" and "/" … -/
  rootE : s.at [] = some rootIno
  rootS : s.at [SL] = some rootIno
  /-- … and is a directory -/
  rootDir : ∃ r, s.get rootIno = some r ∧ r.isDir = true
  /-- … and has no other key -/
  rootKeys : ∀ p, s.at p = some rootIno → p = [] ∨ p = [SL]
  /-- the index has no duplicate key (so that counting entries is counting keys) -/
  keysNodup : (s.index.map (·.1)).Nodup
  /-- (b) index ⇒ tree: an indexed path other than the two root keys splits into the path of a DIRECTORY (never the
      key "/") and a name that the children map of that directory binds to the same node -/
  up : ∀ p i, s.at p = some i → p ≠ [] → p ≠ [SL] →
    ∃ d name di dn, splitAbsO p = some (d, name) ∧ d ≠ [SL] ∧ s.at d = some di ∧ s.get di = some dn ∧
      dn.isDir = true ∧ AL.lookup name dn.kids = some i
  /-- (c) tree ⇒ index: an entry of the children map of a node indexed under `d` (not the key "/") is indexed under
      `d/name` (the root under "": "/name") -/
  down : ∀ d di dn name c, s.at d = some di → d ≠ [SL] → s.get di = some dn → AL.lookup name dn.kids = some c →
    s.at (d ++ SL :: name) = some c
  /-- (d) allocation: the index, the heap and the children maps only mention allocated nodes below `next` -/
  allocIdx : ∀ p i, s.at p = some i → (s.get i).isSome = true
  heapLt : ∀ i n, s.get i = some n → i < s.next
  allocKids : ∀ i n name c, s.get i = some n → AL.lookup name n.kids = some c → (s.get c).isSome = true
  /-- (e) no hard link to a directory: a directory other than the root has at most one key … -/
  dirKey : ∀ p q i n, s.at p = some i → s.at q = some i → s.get i = some n → n.isDir = true → i ≠ rootIno → p = q
  /-- … and `nlink` of every node but the root (files AND directories, indexed or released) is its number of keys -/
  nlinkKeys : ∀ i n, s.get i = some n → i ≠ rootIno → n.nlink = (nkeys s i : Int)
  /-- (f) names are non-empty and contain no separator -/
  names : ∀ i n name c, s.get i = some n → AL.lookup name n.kids = some c → name ≠ [] ∧ SL ∉ name
  /-- only directories have children; a released node (no key any more) has none -/
  fileKids : ∀ i n, s.get i = some n → n.isDir = false → n.children = none
  orphanKids : ∀ i n, s.get i = some n → nkeys s i = 0 → n.children = none

/-! ### executable form -/

/-- the clauses of `OWF`, evaluated -/
def owfCheck (s : OStore) : List (String × Bool) :=
  let keys := s.index.map (·.1)
  let inos := s.heap.map (·.1)
  let isDirB (i : Ino) : Bool := match s.get i with | some n => n.isDir | none => false
  [ ("rootE", s.at [] == some rootIno),
    ("rootS", s.at [SL] == some rootIno),
    ("rootDir", isDirB rootIno),
    ("rootKeys", keys.all fun p => s.at p != some rootIno || p == [] || p == [SL]),
    ("keysNodup", keys.eraseDups.length == keys.length),
    ("up", keys.all fun p => p == [] || p == [SL] ||
        match s.at p, splitAbsO p with
        | some i, some (d, name) =>
          d != [SL] && (match s.at d with
            | some di => (match s.get di with
              | some dn => dn.isDir && AL.lookup name dn.kids == some i
              | none => false)
            | none => false)
        | _, _ => false),
    ("down", keys.all fun d => d == [SL] ||
        match s.at d with
        | some di => (match s.get di with
          | some dn => dn.kids.all fun e => AL.lookup e.1 dn.kids != some e.2 || s.at (d ++ SL :: e.1) == some e.2
          | none => true)
        | none => true),
    ("allocIdx", keys.all fun p => match s.at p with | some i => (s.get i).isSome | none => true),
    ("heapLt", inos.all fun i => i < s.next),
    ("allocKids", inos.all fun i => match s.get i with
        | some n => n.kids.all fun e => (s.get e.2).isSome
        | none => true),
    ("dirKey", keys.all fun p => keys.all fun q =>
        match s.at p with
        | some i => s.at q != some i || !isDirB i || i == rootIno || p == q
        | none => true),
    ("nlinkKeys", inos.all fun i => match s.get i with
        | some n => i == rootIno || n.nlink == (nkeys s i : Int)
        | none => true),
    ("names", inos.all fun i => match s.get i with
        | some n => n.kids.all fun e => e.1 != [] && !e.1.contains SL
        | none => true),
    ("fileKids", inos.all fun i => match s.get i with
        | some n => n.isDir || n.children == none
        | none => true),
    ("orphanKids", inos.all fun i => match s.get i with
        | some n => nkeys s i != 0 || n.children == none
        | none => true) ]

def owfOk (s : OStore) : Bool := (owfCheck s).all (·.2)
def owfFailed (s : OStore) : List String := ((owfCheck s).filter (fun e => !e.2)).map (·.1)

section PathFacts
open Avfs.Path.Spec

/-! ### path facts -/

theorem splitAbsO_mk (d f : Bytes) (hf : SL ∉ f) : splitAbsO (d ++ SL :: f) = some (d, f) := by
  have hall : ∀ x ∈ f.reverse, (fun c => !isSep OS.linux c) x = true := by
    intro x hx
    have : x ≠ SL := fun e => hf (e ▸ List.mem_reverse.mp hx)
    simp [isSep, this]
  have htw : ((d ++ SL :: f).reverse.takeWhile (fun c => !isSep OS.linux c)).length = f.length := by
    have e : (d ++ SL :: f).reverse = f.reverse ++ (SL :: d.reverse) := by simp
    rw [e, takeWhile_append_of_all _ _ _ hall]
    simp [isSep]
  simp only [splitAbsO, splitAbs, volumeNameLen, htw]
  have hl : (d ++ SL :: f).length = d.length + 1 + f.length := by simp; omega
  rw [hl]
  have e1 : ((d.length + 1 + f.length : Nat) : Int) - 1 - (f.length : Int) = (d.length : Int) := by omega
  rw [e1]
  rw [if_neg (by omega), if_neg (by omega)]
  simp

theorem splitAbsO_none_of_noSL (p : Bytes) (h : SL ∉ p) : splitAbsO p = none := by
  have hall : ∀ x ∈ p.reverse, (fun c => !isSep OS.linux c) x = true := by
    intro x hx
    have : x ≠ SL := fun e => h (e ▸ List.mem_reverse.mp hx)
    simp [isSep, this]
  have htw : (p.reverse.takeWhile (fun c => !isSep OS.linux c)).length = p.length := by
    have := takeWhile_append_of_all _ p.reverse [] hall
    simp only [List.append_nil] at this
    rw [this]; simp
  simp only [splitAbsO, splitAbs, volumeNameLen, htw]
  split <;> (try split) <;> first | rfl | (exfalso; omega)

theorem exists_last_sep (p : Bytes) (h : SL ∈ p) : ∃ d f, p = d ++ SL :: f ∧ SL ∉ f := by
  induction p with
  | nil => simp at h
  | cons c p ih =>
    by_cases hp : SL ∈ p
    · obtain ⟨d, f, e, hf⟩ := ih hp
      exact ⟨c :: d, f, by simp [e], hf⟩
    · have hc : c = SL := by
        simp at h
        rcases h with h | h
        · exact h.symm
        · exact absurd h hp
      exact ⟨[], p, by simp [hc], hp⟩

theorem splitAbsO_eq {p d f : Bytes} (h : splitAbsO p = some (d, f)) : p = d ++ SL :: f ∧ SL ∉ f := by
  by_cases hp : SL ∈ p
  · obtain ⟨d', f', e, hf⟩ := exists_last_sep p hp
    rw [e, splitAbsO_mk d' f' hf] at h
    simp at h
    obtain ⟨rfl, rfl⟩ := h
    exact ⟨e, hf⟩
  · rw [splitAbsO_none_of_noSL p hp] at h
    cases h

/-- no empty component after the first piece: no "//", no trailing "/" -/
def Tidy (q : Bytes) : Prop := ∀ c ∈ (splitSl q).tail, c ≠ []

theorem splitSl_joinWith_good (l : List Bytes) (hne : l ≠ []) (h : ∀ c ∈ l, GoodC c) :
    splitSl (joinWith SL l) = l := by
  induction l with
  | nil => contradiction
  | cons e l ih =>
    cases l with
    | nil => simp [joinWith, splitSl_of_noSL e (h e (by simp)).2]
    | cons e2 es =>
      rw [joinWith, splitSl_append, ih (by simp) (fun c hc => h c (by simp [hc])),
        splitSl_of_noSL e (h e (by simp)).2]
      · simp
      · simp

theorem tidy_render (rooted : Bool) (stack : List Bytes) (good : ∀ c ∈ stack, GoodC c) :
    render rooted stack = [SL] ∨ Tidy (render rooted stack) := by
  have good' : ∀ c ∈ stack.reverse, GoodC c := fun c hc => good c (by simpa using hc)
  by_cases hs : stack = []
  · subst hs
    cases rooted
    · right; simp [render, joinWith, Tidy, splitSl]
    · left; simp [render, joinWith]
  · right
    have hs' : stack.reverse ≠ [] := by simpa using hs
    have hsp := splitSl_joinWith_good stack.reverse hs' good'
    have hne : joinWith SL stack.reverse ≠ [] := by
      intro e; rw [e] at hsp; simp [splitSl] at hsp
      have := good' [] (by rw [← hsp]; simp)
      exact this.1 rfl
    cases rooted
    · have hr : render false stack = joinWith SL stack.reverse := by simp [render, hne]
      rw [hr, Tidy, hsp]
      intro c hc
      exact (good' c (List.mem_of_mem_tail hc)).1
    · have hr : render true stack = SL :: joinWith SL stack.reverse := by simp [render]
      rw [hr, Tidy]
      simp only [splitSl, beq_self_eq_true, if_true, List.tail_cons, hsp]
      intro c hc
      exact (good' c hc).1

theorem tidy_clean (p : Bytes) : Spec.clean p = [SL] ∨ Tidy (Spec.clean p) := by
  have hinv := inv_fold (rooted := isRooted p) (comps p) (comps_good p) (inv_init _)
  rw [Spec.clean]
  exact tidy_render _ _ hinv.good

theorem absOf_cases (v : OView) (p : Bytes) : absOf v p = [] ∨ absOf v p = [SL] ∨ Tidy (absOf v p) := by
  unfold absOf abs
  split
  · rw [clean_eq_spec]; exact Or.inr (tidy_clean p)
  · rw [join_eq_spec, Spec.join]
    split
    · exact Or.inl rfl
    · exact Or.inr (tidy_clean _)

theorem tidy_split {d f : Bytes} (h : Tidy (d ++ SL :: f)) (hf : SL ∉ f) : f ≠ [] ∧ d ≠ [SL] ∧ Tidy d := by
  rw [Tidy, splitSl_append, splitSl_of_noSL f hf] at h
  have hne := splitSl_ne_nil d
  cases hd : splitSl d with
  | nil => exact absurd hd hne
  | cons x xs =>
    rw [hd] at h
    simp only [List.cons_append, List.tail_cons] at h
    refine ⟨h f (by simp), ?_, ?_⟩
    · intro e
      rw [e] at hd
      simp [splitSl] at hd
      have := h [] (by rw [← hd.2]; simp)
      exact this rfl
    · rw [Tidy, hd]
      intro c hc
      exact h c (by simp at hc ⊢; exact Or.inl hc)

end PathFacts

/-! ### association lists: keys without duplicates, counting the keys of a value -/

abbrev Idx := List (Bytes × Ino)

def cnt (i : Ino) (l : Idx) : Nat := (l.filter (fun e => e.2 == i)).length

theorem nkeys_eq (s : OStore) (i : Ino) : nkeys s i = cnt i s.index := rfl

theorem cnt_nil (i : Ino) : cnt i [] = 0 := rfl

theorem cnt_cons (i : Ino) (k : Bytes) (j : Ino) (l : Idx) :
    cnt i ((k, j) :: l) = cnt i l + (if j = i then 1 else 0) := by
  by_cases h : j = i <;> simp [cnt, h]

theorem cnt_insert (i : Ino) (k : Bytes) (j : Ino) (l : Idx) :
    cnt i (AL.insert k j l) = cnt i l + (if j = i then 1 else 0) := cnt_cons i k j l

theorem mem_keys_erase {k k' : Bytes} {l : Idx} (h : k ∈ (AL.erase k' l).map (·.1)) :
    k ∈ l.map (·.1) ∧ k ≠ k' := by
  induction l with
  | nil => simp [AL.erase] at h
  | cons e l ih =>
    obtain ⟨a, b⟩ := e
    by_cases ha : a = k'
    · simp only [AL.erase, ha, if_true] at h
      have := ih h
      exact ⟨by simp [this.1], this.2⟩
    · simp only [AL.erase, ha, if_false, List.map_cons, List.mem_cons] at h
      rcases h with h | h
      · subst h; exact ⟨by simp, ha⟩
      · have := ih h
        exact ⟨by simp [this.1], this.2⟩

theorem nodup_erase {l : Idx} (k : Bytes) (h : (l.map (·.1)).Nodup) : ((AL.erase k l).map (·.1)).Nodup := by
  induction l with
  | nil => simp [AL.erase]
  | cons e l ih =>
    obtain ⟨a, b⟩ := e
    simp only [List.map_cons, List.nodup_cons] at h
    by_cases ha : a = k
    · simp only [AL.erase, ha, if_true]; exact ih h.2
    · simp only [AL.erase, ha, if_false, List.map_cons, List.nodup_cons]
      exact ⟨fun hm => h.1 (mem_keys_erase hm).1, ih h.2⟩

theorem nodup_insert_erase {l : Idx} (k : Bytes) (j : Ino) (h : (l.map (·.1)).Nodup) :
    ((AL.insert k j (AL.erase k l)).map (·.1)).Nodup := by
  simp only [AL.insert, List.map_cons, List.nodup_cons]
  exact ⟨fun hm => (mem_keys_erase hm).2 rfl, nodup_erase k h⟩

theorem lookup_none_iff {k : Bytes} {l : Idx} : AL.lookup k l = none ↔ k ∉ l.map (·.1) := by
  induction l with
  | nil => simp
  | cons e l ih =>
    obtain ⟨a, b⟩ := e
    by_cases ha : a = k
    · simp [AL.lookup, ha]
    · simp only [AL.lookup, ha, if_false, ih, List.map_cons, List.mem_cons, not_or]
      constructor
      · intro h; exact ⟨fun e => ha e.symm, h⟩
      · intro h; exact h.2

theorem erase_of_lookup_none {k : Bytes} {l : Idx} (h : AL.lookup k l = none) : AL.erase k l = l := by
  induction l with
  | nil => rfl
  | cons e l ih =>
    obtain ⟨a, b⟩ := e
    by_cases ha : a = k
    · simp [AL.lookup, ha] at h
    · simp only [AL.lookup, ha, if_false] at h
      simp [AL.erase, ha, ih h]

theorem cnt_erase {k : Bytes} {j : Ino} {l : Idx} (i : Ino) (hn : (l.map (·.1)).Nodup)
    (h : AL.lookup k l = some j) : cnt i (AL.erase k l) + (if j = i then 1 else 0) = cnt i l := by
  induction l with
  | nil => simp at h
  | cons e l ih =>
    obtain ⟨a, b⟩ := e
    simp only [List.map_cons, List.nodup_cons] at hn
    by_cases ha : a = k
    · subst ha
      simp only [AL.lookup, if_true, Option.some.injEq] at h
      subst h
      have hnone : AL.lookup a l = none := lookup_none_iff.mpr hn.1
      simp only [AL.erase, if_true, erase_of_lookup_none hnone, cnt_cons]
    · simp only [AL.lookup, ha, if_false] at h
      simp only [AL.erase, ha, if_false, cnt_cons]
      have := ih hn.2 h
      omega

theorem lookup_of_mem {k : Bytes} {j : Ino} {l : Idx} (hn : (l.map (·.1)).Nodup) (h : (k, j) ∈ l) :
    AL.lookup k l = some j := by
  induction l with
  | nil => simp at h
  | cons e l ih =>
    obtain ⟨a, b⟩ := e
    simp only [List.map_cons, List.nodup_cons] at hn
    simp only [List.mem_cons, Prod.mk.injEq] at h
    rcases h with ⟨rfl, rfl⟩ | h
    · simp [AL.lookup]
    · have hne : a ≠ k := by
        intro e; subst e
        exact hn.1 (List.mem_map.mpr ⟨(a, j), h, rfl⟩)
      simp only [AL.lookup, hne, if_false]
      exact ih hn.2 h

theorem cnt_pos_of_lookup {k : Bytes} {j : Ino} {l : Idx} (h : AL.lookup k l = some j) : 0 < cnt j l := by
  have hm := AL.lookup_some_mem h
  have : (k, j) ∈ l.filter (fun e => e.2 == j) := by simp [List.mem_filter, hm]
  exact List.length_pos_of_mem this

theorem exists_lookup_of_cnt_pos {j : Ino} {l : Idx} (hn : (l.map (·.1)).Nodup) (h : 0 < cnt j l) :
    ∃ k, AL.lookup k l = some j := by
  obtain ⟨e, he⟩ := List.exists_mem_of_length_pos h
  obtain ⟨a, b⟩ := e
  simp only [List.mem_filter, beq_iff_eq] at he
  obtain ⟨hm, rfl⟩ := he
  exact ⟨a, lookup_of_mem hn hm⟩

/-- at most one key: the count is at most 1 -/
theorem cnt_le_one_of_unique {j : Ino} {l : Idx} (hn : (l.map (·.1)).Nodup)
    (hu : ∀ p q, AL.lookup p l = some j → AL.lookup q l = some j → p = q) : cnt j l ≤ 1 := by
  induction l with
  | nil => simp [cnt]
  | cons e l ih =>
    obtain ⟨a, b⟩ := e
    have hn' := hn
    simp only [List.map_cons, List.nodup_cons] at hn
    have hrest : ∀ p v, AL.lookup p l = some v → AL.lookup p ((a, b) :: l) = some v := by
      intro p v hp
      have : a ≠ p := by
        intro e; subst e
        exact hn.1 (List.mem_map.mpr ⟨(a, v), AL.lookup_some_mem hp, rfl⟩)
      simp [AL.lookup, this, hp]
    rw [cnt_cons]
    by_cases hb : b = j
    · subst hb
      have : cnt b l = 0 := by
        rcases Nat.eq_zero_or_pos (cnt b l) with h | h
        · exact h
        · obtain ⟨k, hk⟩ := exists_lookup_of_cnt_pos hn.2 h
          have e := hu a k (by simp [AL.lookup]) (hrest k b hk)
          subst e
          exact absurd (List.mem_map.mpr ⟨(a, b), AL.lookup_some_mem hk, rfl⟩) hn.1
      simp [this]
    · simp only [hb, if_false, Nat.add_zero]
      exact ih hn.2 (fun p q hp hq => hu p q (hrest p j hp) (hrest q j hq))

/-! ### store algebra -/

theorem get_set (s : OStore) (i j : Ino) (n : ONode) : (s.set i n).get j = if i = j then some n else s.get j := by
  simp [OStore.get, OStore.set, AL.lookup_insert, AL.lookup_erase]
  by_cases h : i = j <;> simp [h]

theorem get_set_eq (s : OStore) (i : Ino) (n : ONode) : (s.set i n).get i = some n := by simp [get_set]
theorem get_set_ne (s : OStore) {i j : Ino} (n : ONode) (h : i ≠ j) : (s.set i n).get j = s.get j := by
  simp [get_set, h]

@[simp] theorem at_set (s : OStore) (i : Ino) (n : ONode) (p : Bytes) : (s.set i n).at p = s.at p := rfl
@[simp] theorem index_set (s : OStore) (i : Ino) (n : ONode) : (s.set i n).index = s.index := rfl
@[simp] theorem next_set (s : OStore) (i : Ino) (n : ONode) : (s.set i n).next = s.next := rfl
@[simp] theorem nkeys_set (s : OStore) (i : Ino) (n : ONode) (j : Ino) : nkeys (s.set i n) j = nkeys s j := rfl

theorem at_bind (s : OStore) (p q : Bytes) (i : Ino) : (s.bind p i).at q = if p = q then some i else s.at q := by
  simp [OStore.at, OStore.bind, AL.lookup_insert, AL.lookup_erase]
  by_cases h : p = q <;> simp [h]

@[simp] theorem get_bind (s : OStore) (p : Bytes) (i j : Ino) : (s.bind p i).get j = s.get j := rfl
@[simp] theorem next_bind (s : OStore) (p : Bytes) (i : Ino) : (s.bind p i).next = s.next := rfl

theorem at_unbind (s : OStore) (p q : Bytes) : (s.unbind p).at q = if p = q then none else s.at q := by
  simp [OStore.at, OStore.unbind, AL.lookup_erase]

@[simp] theorem get_unbind (s : OStore) (p : Bytes) (j : Ino) : (s.unbind p).get j = s.get j := rfl
@[simp] theorem next_unbind (s : OStore) (p : Bytes) : (s.unbind p).next = s.next := rfl

theorem nodup_bind {s : OStore} (p : Bytes) (i : Ino) (h : (s.index.map (·.1)).Nodup) :
    ((s.bind p i).index.map (·.1)).Nodup := nodup_insert_erase p i h

theorem nodup_unbind {s : OStore} (p : Bytes) (h : (s.index.map (·.1)).Nodup) :
    ((s.unbind p).index.map (·.1)).Nodup := nodup_erase p h

/-- binding a fresh key -/
theorem nkeys_bind_fresh {s : OStore} {p : Bytes} (i j : Ino) (h : s.at p = none) :
    nkeys (s.bind p i) j = nkeys s j + (if i = j then 1 else 0) := by
  simp only [nkeys_eq, OStore.bind, erase_of_lookup_none h, cnt_insert]

/-- rebinding a key -/
theorem nkeys_bind_over {s : OStore} {p : Bytes} {c : Ino} (i j : Ino) (hn : (s.index.map (·.1)).Nodup)
    (h : s.at p = some c) :
    nkeys (s.bind p i) j + (if c = j then 1 else 0) = nkeys s j + (if i = j then 1 else 0) := by
  simp only [nkeys_eq, OStore.bind, cnt_insert]
  have := cnt_erase j hn h
  omega

theorem nkeys_unbind {s : OStore} {p : Bytes} {c : Ino} (j : Ino) (hn : (s.index.map (·.1)).Nodup)
    (h : s.at p = some c) : nkeys (s.unbind p) j + (if c = j then 1 else 0) = nkeys s j :=
  cnt_erase j hn h

theorem nkeys_pos_of_at {s : OStore} {p : Bytes} {i : Ino} (h : s.at p = some i) : 0 < nkeys s i :=
  cnt_pos_of_lookup h

theorem exists_at_of_nkeys_pos {s : OStore} {i : Ino} (hn : (s.index.map (·.1)).Nodup) (h : 0 < nkeys s i) :
    ∃ p, s.at p = some i := exists_lookup_of_cnt_pos hn h

/-! ### the node-level primitives -/

theorem addChildO_eq {s : OStore} {parent : Ino} {pn : ONode} (name : Bytes) (c : Ino) (h : s.get parent = some pn) :
    addChildO s parent name c = s.set parent { pn with children := some (AL.insert name c (AL.erase name pn.kids)) } := by
  simp [addChildO, h]

theorem delChild_eq {s : OStore} {parent : Ino} {pn : ONode} (name : Bytes) (h : s.get parent = some pn) :
    delChild s parent name = s.set parent { pn with children := pn.children.map (AL.erase name) } := by
  simp [delChild, h]

theorem removeNode_eq {s : OStore} {i : Ino} {n : ONode} (h : s.get i = some n) :
    removeNode s i = s.set i { n with children := none, nlink := n.nlink - 1 } := by
  simp [removeNode, h]

theorem kids_some (n : ONode) (l : List (Bytes × Ino)) : ({ n with children := some l } : ONode).kids = l := rfl

theorem kids_map_erase (n : ONode) (name : Bytes) :
    ({ n with children := n.children.map (AL.erase name) } : ONode).kids = AL.erase name n.kids := by
  cases h : n.children <;> simp [ONode.kids, h, AL.erase]

theorem kids_none (n : ONode) (k : Int) : ({ n with children := none, nlink := k } : ONode).kids = [] := rfl

theorem kids_of_children_none {n : ONode} (h : n.children = none) : n.kids = [] := by simp [ONode.kids, h]

theorem isDirAt_eq {s : OStore} {i : Ino} {n : ONode} (h : s.get i = some n) : isDirAt s i = n.isDir := by
  simp [isDirAt, h]

theorem isDirAt_true {s : OStore} {i : Ino} (h : isDirAt s i = true) : ∃ n, s.get i = some n ∧ n.isDir = true := by
  unfold isDirAt at h
  split at h
  · next n hn => exact ⟨n, hn, h⟩
  · cases h

/-! ### consequences of the invariant -/

/-- the key of a directory that can be the parent part of a key is unique -/
theorem OWF.parentKey {s : OStore} (h : OWF s) {d d' : Bytes} {i : Ino} {n : ONode}
    (h1 : s.at d = some i) (h2 : s.at d' = some i) (hd : d ≠ [SL]) (hd' : d' ≠ [SL])
    (hg : s.get i = some n) (hdir : n.isDir = true) : d = d' := by
  by_cases hr : i = rootIno
  · subst hr
    rcases h.rootKeys d h1 with e | e <;> rcases h.rootKeys d' h2 with e' | e'
    · rw [e, e']
    · exact absurd e' hd'
    · exact absurd e hd
    · exact absurd e hd
  · exact h.dirKey d d' i n h1 h2 hg hdir hr

theorem OWF.fresh {s : OStore} (h : OWF s) : s.get s.next = none := by
  cases hg : s.get s.next with
  | none => rfl
  | some n => exact absurd (h.heapLt _ _ hg) (Nat.lt_irrefl _)

theorem OWF.nkeys_fresh {s : OStore} (h : OWF s) {i : Ino} (hg : s.get i = none) : nkeys s i = 0 := by
  rcases Nat.eq_zero_or_pos (nkeys s i) with e | e
  · exact e
  · obtain ⟨p, hp⟩ := exists_at_of_nkeys_pos h.keysNodup e
    have := h.allocIdx p i hp
    simp [hg] at this

theorem OWF.root_lt {s : OStore} (h : OWF s) : rootIno < s.next := by
  obtain ⟨r, hr, _⟩ := h.rootDir
  exact h.heapLt _ _ hr

/-- (d) in the form "below `next`" -/
theorem OWF.idx_lt {s : OStore} (h : OWF s) {p : Bytes} {i : Ino} (hp : s.at p = some i) : i < s.next := by
  have := h.allocIdx p i hp
  cases hg : s.get i with
  | none => rw [hg] at this; cases this
  | some n => exact h.heapLt i n hg

theorem OWF.kid_lt {s : OStore} (h : OWF s) {i c : Ino} {n : ONode} {name : Bytes} (hi : s.get i = some n)
    (hl : AL.lookup name n.kids = some c) : c < s.next := by
  have := h.allocKids i n name c hi hl
  cases hg : s.get c with
  | none => rw [hg] at this; cases this
  | some m => exact h.heapLt c m hg

/-- (e) for files: `nlink` is the number of index keys (the root is a directory) -/
theorem OWF.nlink_file {s : OStore} (h : OWF s) {i : Ino} {n : ONode} (hi : s.get i = some n) (hf : n.isDir = false) :
    n.nlink = (nkeys s i : Int) := by
  apply h.nlinkKeys i n hi
  intro e; subst e
  obtain ⟨r, hr, hrd⟩ := h.rootDir
  rw [hi] at hr; cases hr; rw [hrd] at hf; cases hf

/-- (e) for directories: an indexed directory other than the root has exactly one key -/
theorem OWF.dir_one_key {s : OStore} (h : OWF s) {p : Bytes} {i : Ino} {n : ONode} (hp : s.at p = some i)
    (hi : s.get i = some n) (hd : n.isDir = true) (hr : i ≠ rootIno) : nkeys s i = 1 := by
  have h1 := nkeys_pos_of_at hp
  have h2 : nkeys s i ≤ 1 :=
    cnt_le_one_of_unique h.keysNodup (fun a b ha hb => h.dirKey a b i n ha hb hi hd hr)
  omega

/-! ### createNode -/

theorem createNode_spec {s : OStore} (v : OView) {parent : Ino} {pn : ONode} (absPath name : Bytes) (isDir : Bool)
    (perm : Nat) (hn : (s.index.map (·.1)).Nodup) (hp : s.get parent = some pn) (hlt : parent ≠ s.next)
    (hnone : s.at absPath = none) :
    ∃ nd : ONode, nd.isDir = isDir ∧ nd.children = none ∧ nd.nlink = 1 ∧
      (∀ j, (createNode s v parent absPath name isDir perm).1.get j =
        if parent = j then some { pn with children := some (AL.insert name s.next (AL.erase name pn.kids)) }
        else if s.next = j then some nd else s.get j) ∧
      (∀ q, (createNode s v parent absPath name isDir perm).1.at q = if absPath = q then some s.next else s.at q) ∧
      (createNode s v parent absPath name isDir perm).1.next = s.next + 1 ∧
      (∀ j, nkeys (createNode s v parent absPath name isDir perm).1 j = nkeys s j + if s.next = j then 1 else 0) ∧
      ((createNode s v parent absPath name isDir perm).1.index.map (·.1)).Nodup ∧
      (createNode s v parent absPath name isDir perm).2 = s.next := by
  let nd : ONode := { isDir := isDir, perm := (perm &&& modeMask) &&& (modeMask ^^^ (v.umask &&& modeMask)),
                      uid := v.uid, gid := v.gid, mtime := none, nlink := 1, id := s.lastId + 1, data := [], children := none }
  let s1 : OStore := { s with heap := AL.insert s.next nd s.heap, next := s.next + 1, lastId := s.lastId + 1 }
  have hs1 : ∀ j, s1.get j = if s.next = j then some nd else s.get j := by
    intro j; simp [s1, OStore.get, AL.lookup_insert]
  have hp1 : s1.get parent = some pn := by rw [hs1, if_neg (Ne.symm hlt), hp]
  have hcn : (createNode s v parent absPath name isDir perm).1 =
      (s1.set parent { pn with children := some (AL.insert name s.next (AL.erase name pn.kids)) }).bind absPath s.next := by
    simp only [createNode]
    rw [addChildO_eq name s.next hp1]
  refine ⟨nd, rfl, rfl, rfl, ?_, ?_, ?_, ?_, ?_, rfl⟩
  · intro j
    rw [hcn, get_bind, get_set, hs1]
  · intro q
    rw [hcn, at_bind]; rfl
  · rw [hcn]; rfl
  · intro j
    rw [hcn]
    exact nkeys_bind_fresh (s := s1.set parent _) s.next j hnone
  · rw [hcn]
    exact nodup_bind (s := s1.set parent _) absPath s.next hn

theorem createNode_OWF {s : OStore} (h : OWF s) (v : OView) {parent : Ino} {pn : ONode} {absPath d name : Bytes}
    (isDir : Bool) (perm : Nat) (hnone : s.at absPath = none) (hsp : splitAbsO absPath = some (d, name))
    (hd : d ≠ [SL]) (hname : name ≠ []) (hdi : s.at d = some parent) (hp : s.get parent = some pn)
    (hpd : pn.isDir = true) : OWF (createNode s v parent absPath name isDir perm).1 := by
  have hplt : parent < s.next := h.heapLt _ _ hp
  have hpne : parent ≠ s.next := Nat.ne_of_lt hplt
  have hfresh := h.fresh
  obtain ⟨nd, hndDir, hndKids, hndLink, hget, hat, hnext, hnk, hnodup, -⟩ :=
    createNode_spec v absPath name isDir perm h.keysNodup hp hpne hnone
  generalize (createNode s v parent absPath name isDir perm).1 = s' at *
  obtain ⟨hpath, hnosl⟩ := splitAbsO_eq hsp
  -- old keys are not the new key
  have hold : ∀ q j, s.at q = some j → s'.at q = some j := by
    intro q j hq
    rw [hat, if_neg]; exact hq
    intro e; subst e; rw [hnone] at hq; cases hq
  have hmono : ∀ j, (s.get j).isSome = true → (s'.get j).isSome = true := by
    intro j hj
    rw [hget]; split
    · rfl
    · split
      · rfl
      · exact hj
  have hgp : s'.get parent = some { pn with children := some (AL.insert name s.next (AL.erase name pn.kids)) } := by
    rw [hget, if_pos rfl]
  have hgn : s'.get s.next = some nd := by rw [hget, if_neg hpne, if_pos rfl]
  have hgo : ∀ j, parent ≠ j → s.next ≠ j → s'.get j = s.get j := by
    intro j h1 h2; rw [hget, if_neg h1, if_neg h2]
  have hidx_ne_next : ∀ q j, s.at q = some j → s.next ≠ j := by
    intro q j hq e; subst e
    have := h.allocIdx q _ hq
    simp [hfresh] at this
  refine
    { rootE := hold _ _ h.rootE
      rootS := hold _ _ h.rootS
      rootDir := ?_
      rootKeys := ?_
      keysNodup := hnodup
      up := ?_
      down := ?_
      allocIdx := ?_
      heapLt := ?_
      allocKids := ?_
      dirKey := ?_
      nlinkKeys := ?_
      names := ?_
      fileKids := ?_
      orphanKids := ?_ }
  · -- rootDir
    obtain ⟨r, hr, hrd⟩ := h.rootDir
    by_cases e : parent = rootIno
    · subst e
      rw [hp] at hr; cases hr
      exact ⟨_, hgp, hpd⟩
    · have : s.next ≠ rootIno := Ne.symm (Nat.ne_of_lt h.root_lt)
      exact ⟨r, by rw [hgo _ e this, hr], hrd⟩
  · -- rootKeys
    intro p hp0
    rw [hat] at hp0
    split at hp0
    · have e := Option.some.inj hp0
      have := h.root_lt
      rw [← e] at this
      exact absurd this (Nat.lt_irrefl _)
    · exact h.rootKeys p hp0
  · -- up
    intro p j hpj hpe hps
    rw [hat] at hpj
    split at hpj
    · next e =>
      subst e
      cases hpj
      exact ⟨d, name, parent, _, hsp, hd, hold _ _ hdi, hgp, hpd, by rw [kids_some]; simp⟩
    · next hne =>
      obtain ⟨d0, name0, di, dn, h1, h2, h3, h4, h5, h6⟩ := h.up p j hpj hpe hps
      by_cases e : parent = di
      · subst e
        rw [hp] at h4; cases h4
        refine ⟨d0, name0, parent, _, h1, h2, hold _ _ h3, hgp, hpd, ?_⟩
        rw [kids_some]
        by_cases en : name = name0
        · subst en
          exfalso
          have := h.parentKey h3 hdi h2 hd hp hpd
          subst this
          apply hne
          rw [hpath, (splitAbsO_eq h1).1]
        · rw [AL.lookup_insert_ne _ _ en, AL.lookup_erase_ne _ en]; exact h6
      · have : s.next ≠ di := hidx_ne_next _ _ h3
        exact ⟨d0, name0, di, dn, h1, h2, hold _ _ h3, by rw [hgo _ e this, h4], h5, h6⟩
  · -- down
    intro d0 di dn name0 c h1 h2 h3 h4
    rw [hat] at h1
    split at h1
    · cases h1
      rw [hgn] at h3; cases h3
      rw [kids_of_children_none hndKids] at h4
      simp at h4
    · by_cases e : parent = di
      · subst e
        rw [hgp] at h3; cases h3
        rw [kids_some] at h4
        by_cases en : name = name0
        · subst en
          rw [AL.lookup_insert_eq] at h4; cases h4
          have := h.parentKey h1 hdi h2 hd hp hpd
          subst this
          rw [← hpath, hat, if_pos rfl]
        · rw [AL.lookup_insert_ne _ _ en, AL.lookup_erase_ne _ en] at h4
          exact hold _ _ (h.down d0 parent pn name0 c h1 h2 hp h4)
      · have hne : s.next ≠ di := hidx_ne_next _ _ h1
        rw [hgo _ e hne] at h3
        exact hold _ _ (h.down d0 di dn name0 c h1 h2 h3 h4)
  · -- allocIdx
    intro p j hpj
    rw [hat] at hpj
    split at hpj
    · cases hpj; rw [hgn]; rfl
    · exact hmono _ (h.allocIdx p j hpj)
  · -- heapLt
    intro j n hj
    rw [hget] at hj
    rw [hnext]
    split at hj
    · next e => subst e; exact Nat.lt_succ_of_lt hplt
    · split at hj
      · next e => subst e; exact Nat.lt_succ_self _
      · exact Nat.lt_succ_of_lt (h.heapLt j n hj)
  · -- allocKids
    intro j n name0 c hj hl
    rw [hget] at hj
    split at hj
    · cases hj
      rw [kids_some] at hl
      by_cases en : name = name0
      · subst en
        rw [AL.lookup_insert_eq] at hl; cases hl
        rw [hgn]; rfl
      · rw [AL.lookup_insert_ne _ _ en, AL.lookup_erase_ne _ en] at hl
        exact hmono _ (h.allocKids _ pn name0 c hp hl)
    · split at hj
      · cases hj
        rw [kids_of_children_none hndKids] at hl; simp at hl
      · exact hmono _ (h.allocKids j n name0 c hj hl)
  · -- dirKey
    intro p q j n hpj hqj hj hnd hjr
    rw [hat] at hpj hqj
    split at hpj
    · next ep =>
      cases hpj
      split at hqj
      · next eq => rw [← ep, ← eq]
      · exact absurd rfl (hidx_ne_next _ _ hqj)
    · split at hqj
      · cases hqj
        exact absurd rfl (hidx_ne_next _ _ hpj)
      · have hne : s.next ≠ j := hidx_ne_next _ _ hpj
        by_cases e : parent = j
        · subst e
          exact h.dirKey p q parent pn hpj hqj hp hpd hjr
        · rw [hgo _ e hne] at hj
          exact h.dirKey p q j n hpj hqj hj hnd hjr
  · -- nlinkKeys
    intro j n hj hjr
    rw [hnk]
    rw [hget] at hj
    split at hj
    · next e =>
      cases hj
      subst e
      rw [if_neg (Ne.symm hpne)]
      simpa using h.nlinkKeys parent pn hp hjr
    · split at hj
      · next e =>
        cases hj
        subst e
        rw [hndLink, h.nkeys_fresh hfresh]; simp
      · next e => rw [if_neg e]; simpa using h.nlinkKeys j n hj hjr
  · -- names
    intro j n name0 c hj hl
    rw [hget] at hj
    split at hj
    · cases hj
      rw [kids_some] at hl
      by_cases en : name = name0
      · subst en; exact ⟨hname, hnosl⟩
      · rw [AL.lookup_insert_ne _ _ en, AL.lookup_erase_ne _ en] at hl
        exact h.names _ pn name0 c hp hl
    · split at hj
      · cases hj
        rw [kids_of_children_none hndKids] at hl; simp at hl
      · exact h.names j n name0 c hj hl
  · -- fileKids
    intro j n hj hnd
    rw [hget] at hj
    split at hj
    · cases hj; simp [hpd] at hnd
    · split at hj
      · cases hj; exact hndKids
      · exact h.fileKids j n hj hnd
  · -- orphanKids
    intro j n hj hk
    rw [hnk] at hk
    rw [hget] at hj
    split at hj
    · next e =>
      subst e
      have := nkeys_pos_of_at hdi
      omega
    · split at hj
      · cases hj; exact hndKids
      · exact h.orphanKids j n hj (by omega)

/-! ### frames: calls that only change attributes or contents of nodes -/

/-- what the invariant reads in a node -/
def SameShape (m0 m : ONode) : Prop := m0.isDir = m.isDir ∧ m0.children = m.children ∧ m0.nlink = m.nlink

theorem SameShape.kids {m0 m : ONode} (h : SameShape m0 m) : m0.kids = m.kids := by simp [ONode.kids, h.2.1]

theorem OWF_of_shape {s s' : OStore} (h : OWF s) (hidx : s'.index = s.index) (hnext : s'.next = s.next)
    (hfw : ∀ j m, s'.get j = some m → ∃ m0, s.get j = some m0 ∧ SameShape m0 m)
    (hbw : ∀ j m0, s.get j = some m0 → ∃ m, s'.get j = some m ∧ SameShape m0 m) : OWF s' := by
  have hat : ∀ p, s'.at p = s.at p := fun p => by simp [OStore.at, hidx]
  have hnk : ∀ j, nkeys s' j = nkeys s j := fun j => by simp [nkeys, hidx]
  have hsome : ∀ j, (s.get j).isSome = true → (s'.get j).isSome = true := by
    intro j hj
    cases hg : s.get j with
    | none => simp [hg] at hj
    | some m0 => obtain ⟨m, hm, _⟩ := hbw j m0 hg; simp [hm]
  refine
    { rootE := by rw [hat]; exact h.rootE
      rootS := by rw [hat]; exact h.rootS
      rootDir := ?_
      rootKeys := fun p hp => h.rootKeys p (by rw [← hat]; exact hp)
      keysNodup := by rw [hidx]; exact h.keysNodup
      up := ?_
      down := ?_
      allocIdx := fun p i hp => hsome i (h.allocIdx p i (by rw [← hat]; exact hp))
      heapLt := ?_
      allocKids := ?_
      dirKey := ?_
      nlinkKeys := ?_
      names := ?_
      fileKids := ?_
      orphanKids := ?_ }
  · obtain ⟨r, hr, hrd⟩ := h.rootDir
    obtain ⟨m, hm, hs⟩ := hbw _ r hr
    exact ⟨m, hm, by rw [← hs.1]; exact hrd⟩
  · intro p i hp hpe hps
    rw [hat] at hp
    obtain ⟨d, name, di, dn, h1, h2, h3, h4, h5, h6⟩ := h.up p i hp hpe hps
    obtain ⟨m, hm, hs⟩ := hbw di dn h4
    exact ⟨d, name, di, m, h1, h2, by rw [hat]; exact h3, hm, by rw [← hs.1]; exact h5, by rw [← hs.kids]; exact h6⟩
  · intro d di dn name c h1 h2 h3 h4
    rw [hat] at h1 ⊢
    obtain ⟨m0, hm0, hs⟩ := hfw di dn h3
    exact h.down d di m0 name c h1 h2 hm0 (by rw [hs.kids]; exact h4)
  · intro i n hi
    obtain ⟨m0, hm0, _⟩ := hfw i n hi
    rw [hnext]; exact h.heapLt i m0 hm0
  · intro i n name c hi hl
    obtain ⟨m0, hm0, hs⟩ := hfw i n hi
    exact hsome c (h.allocKids i m0 name c hm0 (by rw [hs.kids]; exact hl))
  · intro p q i n hp hq hi hd hr
    rw [hat] at hp hq
    obtain ⟨m0, hm0, hs⟩ := hfw i n hi
    exact h.dirKey p q i m0 hp hq hm0 (by rw [hs.1]; exact hd) hr
  · intro i n hi hr
    obtain ⟨m0, hm0, hs⟩ := hfw i n hi
    rw [hnk, ← hs.2.2]; exact h.nlinkKeys i m0 hm0 hr
  · intro i n name c hi hl
    obtain ⟨m0, hm0, hs⟩ := hfw i n hi
    exact h.names i m0 name c hm0 (by rw [hs.kids]; exact hl)
  · intro i n hi hd
    obtain ⟨m0, hm0, hs⟩ := hfw i n hi
    rw [← hs.2.1]; exact h.fileKids i m0 hm0 (by rw [hs.1]; exact hd)
  · intro i n hi hk
    obtain ⟨m0, hm0, hs⟩ := hfw i n hi
    rw [← hs.2.1]; exact h.orphanKids i m0 hm0 (by rw [← hnk]; exact hk)

/-- one node is replaced by a node with the same kind, children and link count -/
theorem OWF_set_shape {s : OStore} (h : OWF s) {c : Ino} {n n' : ONode} (hg : s.get c = some n) (hs : SameShape n n') :
    OWF (s.set c n') := by
  apply OWF_of_shape (s' := s.set c n') h rfl rfl
  · intro j m hj
    rw [get_set] at hj
    split at hj
    · next e => subst e; cases hj; exact ⟨n, hg, hs⟩
    · exact ⟨m, hj, rfl, rfl, rfl⟩
  · intro j m0 hj
    by_cases e : c = j
    · subst e; rw [hg] at hj; cases hj
      exact ⟨n', get_set_eq _ _ _, hs⟩
    · exact ⟨m0, by rw [get_set_ne _ _ e]; exact hj, rfl, rfl, rfl⟩

/-- the setters of Chmod / Chown / Chtimes: they keep the kind, the children and the link count -/
def AttrOnly (f : ONode → ONode) : Prop := ∀ n, SameShape n (f n)

theorem attrOnly_perm (m : Nat) : AttrOnly fun n => { n with perm := m &&& modeMask } := fun _ => ⟨rfl, rfl, rfl⟩
theorem attrOnly_owner (u g : Int) : AttrOnly fun n => setOwnerO n u g := fun _ => ⟨rfl, rfl, rfl⟩
theorem attrOnly_mtime (t : Int) : AttrOnly fun n => { n with mtime := some t } := fun _ => ⟨rfl, rfl, rfl⟩

theorem OWF_setAttr {s : OStore} (h : OWF s) (v : OView) (name : Bytes) (f : ONode → ONode) (hf : AttrOnly f) :
    OWF (setAttr s v name f).1 := by
  unfold setAttr
  split
  · exact h
  · split
    · next c _ n hn => exact OWF_set_shape h hn (hf n)
    · exact h

theorem OWF_truncate {s : OStore} (h : OWF s) (v : OView) (name : Bytes) (size : Int) :
    OWF (truncate s v name size).1 := by
  unfold truncate
  split
  · exact h
  · split
    · exact h
    · split
      · exact h
      · next c _ n hn =>
        split
        · exact h
        · exact OWF_set_shape h hn ⟨rfl, rfl, rfl⟩

/-! ### Mkdir, OpenFile -/

/-- the path a call resolves is "" (empty current directory and empty argument), "/" or has no empty component:
    when it is not indexed and its parent part is, the new name is non-empty and the parent key is not "/" -/
theorem OWF.newName {s : OStore} (h : OWF s) (v : OView) (name : Bytes) {d f : Bytes}
    (hsp : splitAbsO (absOf v name) = some (d, f)) (hnone : s.at (absOf v name) = none) : d ≠ [SL] ∧ f ≠ [] := by
  obtain ⟨hpath, hnosl⟩ := splitAbsO_eq hsp
  rcases absOf_cases v name with e | e | e
  · rw [e, h.rootE] at hnone; cases hnone
  · rw [e, h.rootS] at hnone; cases hnone
  · rw [hpath] at e
    have := tidy_split e hnosl
    exact ⟨this.2.1, this.1⟩

theorem OWF_mkdir {s : OStore} (h : OWF s) (v : OView) (name : Bytes) (perm : Nat) : OWF (mkdir s v name perm).1 := by
  unfold mkdir
  split
  · exact h
  · dsimp only
    split
    · exact h
    · next dirName fileName hsp =>
      split
      · exact h
      · next hex =>
        have hnone : s.at (absOf v name) = none := by
          cases hh : s.at (absOf v name) with
          | none => rfl
          | some x => simp [hh] at hex
        split
        · split
          · split <;> exact h
          · exact h
        · next parent hpar =>
          split
          · exact h
          · next hdir =>
            obtain ⟨pn, hpn, hpd⟩ := isDirAt_true (by simpa using hdir)
            obtain ⟨h1, h2⟩ := h.newName v name hsp hnone
            exact createNode_OWF h v true perm hnone hsp h1 h2 hpar hpn hpd

theorem OWF_openFile {s : OStore} (h : OWF s) (v : OView) (name : Bytes) (flag perm : Nat) :
    OWF (openFile s v name flag perm).1 := by
  unfold openFile
  split
  · exact h
  · dsimp only
    split
    · exact h
    · next dirName fileName hsp =>
      split
      · next hnone =>
        split
        · exact h
        · next parent hpar =>
          split
          · exact h
          · next hdir =>
            split
            · exact h
            · split
              · exact h
              · obtain ⟨pn, hpn, hpd⟩ := isDirAt_true (by simpa using hdir)
                obtain ⟨h1, h2⟩ := h.newName v name hsp hnone
                exact createNode_OWF h v false perm hnone hsp h1 h2 hpar hpn hpd
      · next c hc =>
        split
        · exact h
        · next n hn =>
          split
          · split <;> exact h
          · split
            · exact h
            · show OWF (if _ then _ else _)
              split
              · exact OWF_set_shape h hn ⟨rfl, rfl, rfl⟩
              · exact h

/-! ### Remove -/

theorem kids_nil_of_nkids {n : ONode} (h : n.nkids = 0) : n.kids = [] := by
  unfold ONode.nkids alKeys at h
  cases hk : n.kids with
  | nil => rfl
  | cons e l => rw [hk] at h; simp [List.eraseDups_cons] at h

theorem childKey_inj {d d' f f' : Bytes} (hf : SL ∉ f) (hf' : SL ∉ f') (e : d ++ SL :: f = d' ++ SL :: f') :
    d = d' ∧ f = f' := by
  have h1 := splitAbsO_mk d f hf
  rw [e, splitAbsO_mk d' f' hf'] at h1
  simp at h1
  exact ⟨h1.1.symm, h1.2.symm⟩

/-- the state after the entry `dirName/fileName ↦ c` has been taken out of the tree and the index: `c` has no children
    (an empty directory or a file), loses one link and its children map -/
theorem unlink_OWF {s : OStore} (h : OWF s) {absPath dirName fileName : Bytes} {c p : Ino} {n : ONode}
    (hsp : splitAbsO absPath = some (dirName, fileName)) (hc : s.at absPath = some c) (hp : s.at dirName = some p)
    (hcp : c ≠ p) (hn : s.get c = some n) (hkids : n.kids = []) :
    OWF ((delChild (removeNode s c) p fileName).unbind absPath) := by
  obtain ⟨hpath, hnosl⟩ := splitAbsO_eq hsp
  have hne : absPath ≠ [] := by intro e; rw [e] at hsp; cases hsp
  have hns : absPath ≠ [SL] := by
    intro e
    rw [e] at hsp hc
    have : dirName = [] := by
      have := splitAbsO_mk [] [] (by simp)
      simp only [List.nil_append] at this
      rw [this] at hsp; simp at hsp; exact hsp.1
    rw [this, h.rootE] at hp
    rw [h.rootS] at hc
    cases hc; cases hp; exact hcp rfl
  obtain ⟨d0, name0, di, pn, h1, hdsl, h3, hpn, hpd, hlk⟩ := h.up absPath c hc hne hns
  rw [hsp] at h1; cases h1
  rw [hp] at h3; cases h3
  have hcr : c ≠ rootIno := by
    intro e; subst e
    rcases h.rootKeys _ hc with e | e
    · exact hne e
    · exact hns e
  -- the new state
  have e1 : removeNode s c = s.set c { n with children := none, nlink := n.nlink - 1 } := removeNode_eq hn
  have hp1 : (s.set c { n with children := none, nlink := n.nlink - 1 }).get p = some pn := by
    rw [get_set_ne _ _ hcp, hpn]
  have e2 : delChild (removeNode s c) p fileName =
      (s.set c { n with children := none, nlink := n.nlink - 1 }).set p
        { pn with children := pn.children.map (AL.erase fileName) } := by
    rw [e1, delChild_eq fileName hp1]
  have hget : ∀ j, ((delChild (removeNode s c) p fileName).unbind absPath).get j =
      if p = j then some { pn with children := pn.children.map (AL.erase fileName) }
      else if c = j then some { n with children := none, nlink := n.nlink - 1 } else s.get j := by
    intro j; rw [e2, get_unbind, get_set, get_set]
  have hat : ∀ q, ((delChild (removeNode s c) p fileName).unbind absPath).at q =
      if absPath = q then none else s.at q := by
    intro q; rw [e2, at_unbind]; rfl
  have hnk : ∀ j, nkeys ((delChild (removeNode s c) p fileName).unbind absPath) j + (if c = j then 1 else 0)
      = nkeys s j := by
    intro j; rw [e2]
    exact nkeys_unbind (s := (s.set c _).set p _) j h.keysNodup hc
  have hnodup : (((delChild (removeNode s c) p fileName).unbind absPath).index.map (·.1)).Nodup := by
    rw [e2]; exact nodup_unbind (s := (s.set c _).set p _) absPath h.keysNodup
  have hnext : ((delChild (removeNode s c) p fileName).unbind absPath).next = s.next := by rw [e2]; rfl
  generalize (delChild (removeNode s c) p fileName).unbind absPath = s' at *
  have hatold : ∀ q j, s'.at q = some j → s.at q = some j ∧ absPath ≠ q := by
    intro q j hq
    rw [hat] at hq
    split at hq
    · cases hq
    · next e => exact ⟨hq, e⟩
  have hatnew : ∀ q j, s.at q = some j → absPath ≠ q → s'.at q = some j := by
    intro q j hq e; rw [hat, if_neg e]; exact hq
  have hgp : s'.get p = some { pn with children := pn.children.map (AL.erase fileName) } := by
    rw [hget, if_pos rfl]
  have hgc : s'.get c = some { n with children := none, nlink := n.nlink - 1 } := by
    rw [hget, if_neg (Ne.symm hcp), if_pos rfl]
  have hgo : ∀ j, p ≠ j → c ≠ j → s'.get j = s.get j := by
    intro j a b; rw [hget, if_neg a, if_neg b]
  have hmono : ∀ j, (s.get j).isSome = true → (s'.get j).isSome = true := by
    intro j hj
    rw [hget]; split
    · rfl
    · split
      · rfl
      · exact hj
  -- every node of the new heap was there, with the same kind, and its children were children before
  have hback : ∀ j m, s'.get j = some m → ∃ m0, s.get j = some m0 ∧ m0.isDir = m.isDir ∧
      (∀ nm x, AL.lookup nm m.kids = some x → AL.lookup nm m0.kids = some x) := by
    intro j m hj
    rw [hget] at hj
    split at hj
    · next e =>
      subst e; cases hj
      refine ⟨pn, hpn, rfl, ?_⟩
      intro nm x hx
      rw [kids_map_erase, AL.lookup_erase] at hx
      split at hx
      · cases hx
      · exact hx
    · split at hj
      · next e =>
        subst e; cases hj
        exact ⟨n, hn, rfl, by intro nm x hx; simp [kids_none] at hx⟩
      · exact ⟨m, hj, rfl, fun _ _ hx => hx⟩
  refine
    { rootE := hatnew _ _ h.rootE hne
      rootS := hatnew _ _ h.rootS hns
      rootDir := ?_
      rootKeys := fun q hq => h.rootKeys q (hatold q _ hq).1
      keysNodup := hnodup
      up := ?_
      down := ?_
      allocIdx := fun q j hq => hmono j (h.allocIdx q j (hatold q j hq).1)
      heapLt := ?_
      allocKids := ?_
      dirKey := ?_
      nlinkKeys := ?_
      names := ?_
      fileKids := ?_
      orphanKids := ?_ }
  · -- rootDir
    obtain ⟨r, hr, hrd⟩ := h.rootDir
    by_cases e : p = rootIno
    · subst e; exact ⟨_, hgp, hpd⟩
    · exact ⟨r, by rw [hgo _ e hcr, hr], hrd⟩
  · -- up
    intro q j hq hqe hqs
    obtain ⟨hq0, hqne⟩ := hatold q j hq
    obtain ⟨d1, name1, di, dn, a1, a2, a3, a4, a5, a6⟩ := h.up q j hq0 hqe hqs
    have hdic : di ≠ c := by
      intro e; subst e
      rw [hn] at a4; cases a4
      rw [hkids] at a6; simp at a6
    have hd1 : absPath ≠ d1 := by
      intro e; subst e
      rw [hc] at a3; cases a3; exact hdic rfl
    by_cases e : p = di
    · subst e
      rw [hpn] at a4; cases a4
      refine ⟨d1, name1, p, _, a1, a2, hatnew _ _ a3 hd1, hgp, hpd, ?_⟩
      rw [kids_map_erase, AL.lookup_erase, if_neg]
      · exact a6
      · intro en; subst en
        have := h.parentKey a3 hp a2 hdsl hpn hpd
        subst this
        apply hqne
        rw [hpath, (splitAbsO_eq a1).1]
    · exact ⟨d1, name1, di, dn, a1, a2, hatnew _ _ a3 hd1, by rw [hgo _ e (Ne.symm hdic), a4], a5, a6⟩
  · -- down
    intro d1 di dn name1 c1 a1 a2 a3 a4
    obtain ⟨a10, a1ne⟩ := hatold d1 di a1
    obtain ⟨m0, hm0, _, hkk⟩ := hback di dn a3
    have hold := h.down d1 di m0 name1 c1 a10 a2 hm0 (hkk _ _ a4)
    apply hatnew _ _ hold
    intro e
    have hsl1 := (h.names di m0 name1 c1 hm0 (hkk _ _ a4)).2
    rw [hpath] at e
    obtain ⟨e1, e2⟩ := childKey_inj hnosl hsl1 e
    subst e1; subst e2
    rw [hp] at a10; cases a10
    rw [hgp] at a3; cases a3
    rw [kids_map_erase, AL.lookup_erase_eq] at a4
    cases a4
  · -- heapLt
    intro j m hj
    obtain ⟨m0, hm0, _⟩ := hback j m hj
    rw [hnext]; exact h.heapLt j m0 hm0
  · -- allocKids
    intro j m nm x hj hl
    obtain ⟨m0, hm0, _, hkk⟩ := hback j m hj
    exact hmono x (h.allocKids j m0 nm x hm0 (hkk _ _ hl))
  · -- dirKey
    intro p1 q1 j m a1 a2 a3 a4 a5
    obtain ⟨m0, hm0, hd0, _⟩ := hback j m a3
    exact h.dirKey p1 q1 j m0 (hatold _ _ a1).1 (hatold _ _ a2).1 hm0 (by rw [hd0]; exact a4) a5
  · -- nlinkKeys
    intro j m hj hjr
    have hk := hnk j
    rw [hget] at hj
    split at hj
    · next e =>
      subst e; cases hj
      rw [if_neg hcp] at hk
      have := h.nlinkKeys p pn hpn hjr
      simp only [Nat.add_zero] at hk
      rw [hk]; exact this
    · split at hj
      · next e =>
        subst e; cases hj
        rw [if_pos rfl] at hk
        have := h.nlinkKeys c n hn hjr
        show n.nlink - 1 = _
        rw [this, ← hk]; simp
      · next e =>
        rw [if_neg e] at hk
        simp only [Nat.add_zero] at hk
        rw [hk]; exact h.nlinkKeys j m hj hjr
  · -- names
    intro j m nm x hj hl
    obtain ⟨m0, hm0, _, hkk⟩ := hback j m hj
    exact h.names j m0 nm x hm0 (hkk _ _ hl)
  · -- fileKids
    intro j m hj hd
    rw [hget] at hj
    split at hj
    · cases hj; simp [hpd] at hd
    · split at hj
      · cases hj; rfl
      · exact h.fileKids j m hj hd
  · -- orphanKids
    intro j m hj hk0
    have hk := hnk j
    rw [hget] at hj
    split at hj
    · next e =>
      subst e
      have := nkeys_pos_of_at hp
      rw [if_neg hcp] at hk
      omega
    · split at hj
      · cases hj; rfl
      · next e =>
        rw [if_neg e] at hk
        exact h.orphanKids j m hj (by omega)

theorem OWF_remove {s : OStore} (h : OWF s) (v : OView) (name : Bytes) : OWF (remove s v name).1 := by
  unfold remove
  dsimp only
  split
  · exact h
  · next dirName fileName hsp =>
    split
    · next c p hc hp =>
      split
      · exact h
      · next hcp =>
        have hcp' : c ≠ p := by simpa using hcp
        split
        · exact h
        · next n hn =>
          split
          · exact h
          · next hk =>
            have hkids : n.kids = [] := by
              cases hd : n.isDir with
              | false => exact kids_of_children_none (h.fileKids c n hn hd)
              | true =>
                simp [hd] at hk
                exact kids_nil_of_nkids hk
            exact unlink_OWF h hsp hc hp hcp' hn hkids
    · exact h

/-! ### Link -/

theorem isDirAt_false_of_some {s : OStore} {i : Ino} {n : ONode} (hg : s.get i = some n) (h : isDirAt s i = false) :
    n.isDir = false := by rw [isDirAt_eq hg] at h; exact h

/-- a new name `nDir/nFile` for the file `oc` -/
theorem addLink_OWF {s : OStore} (h : OWF s) {nAbs nDir nFile : Bytes} {oc np : Ino} {on pn : ONode}
    (hnone : s.at nAbs = none) (hsp : splitAbsO nAbs = some (nDir, nFile)) (hd : nDir ≠ [SL]) (hname : nFile ≠ [])
    (hdi : s.at nDir = some np) (hp : s.get np = some pn) (hpd : pn.isDir = true)
    (ho : s.get oc = some on) (hof : on.isDir = false) :
    OWF (((s.bind nAbs oc).set np { pn with children := some (AL.insert nFile oc (AL.erase nFile pn.kids)) }).set oc
      { on with nlink := on.nlink + 1 }) := by
  have hne : np ≠ oc := by
    intro e; subst e; rw [hp] at ho; cases ho; rw [hpd] at hof; cases hof
  have hokids : on.kids = [] := kids_of_children_none (h.fileKids oc on ho hof)
  have hget : ∀ j, (((s.bind nAbs oc).set np { pn with children := some (AL.insert nFile oc (AL.erase nFile pn.kids)) }).set oc
      { on with nlink := on.nlink + 1 }).get j =
      if oc = j then some { on with nlink := on.nlink + 1 }
      else if np = j then some { pn with children := some (AL.insert nFile oc (AL.erase nFile pn.kids)) }
      else s.get j := by
    intro j; rw [get_set, get_set, get_bind]
  have hat : ∀ q, (((s.bind nAbs oc).set np { pn with children := some (AL.insert nFile oc (AL.erase nFile pn.kids)) }).set oc
      { on with nlink := on.nlink + 1 }).at q = if nAbs = q then some oc else s.at q := by
    intro q; rw [at_set, at_set, at_bind]
  have hnk : ∀ j, nkeys (((s.bind nAbs oc).set np { pn with children := some (AL.insert nFile oc (AL.erase nFile pn.kids)) }).set oc
      { on with nlink := on.nlink + 1 }) j = nkeys s j + if oc = j then 1 else 0 := by
    intro j; rw [nkeys_set, nkeys_set]; exact nkeys_bind_fresh oc j hnone
  have hnodup : ((((s.bind nAbs oc).set np { pn with children := some (AL.insert nFile oc (AL.erase nFile pn.kids)) }).set oc
      { on with nlink := on.nlink + 1 }).index.map (·.1)).Nodup := nodup_bind nAbs oc h.keysNodup
  have hnext : (((s.bind nAbs oc).set np { pn with children := some (AL.insert nFile oc (AL.erase nFile pn.kids)) }).set oc
      { on with nlink := on.nlink + 1 }).next = s.next := rfl
  generalize (((s.bind nAbs oc).set np { pn with children := some (AL.insert nFile oc (AL.erase nFile pn.kids)) }).set oc
      { on with nlink := on.nlink + 1 }) = s' at *
  obtain ⟨hpath, hnosl⟩ := splitAbsO_eq hsp
  have hold : ∀ q j, s.at q = some j → s'.at q = some j := by
    intro q j hq
    rw [hat, if_neg]; exact hq
    intro e; subst e; rw [hnone] at hq; cases hq
  have hmono : ∀ j, (s.get j).isSome = true → (s'.get j).isSome = true := by
    intro j hj
    rw [hget]; split
    · rfl
    · split
      · rfl
      · exact hj
  have hgo : s'.get oc = some { on with nlink := on.nlink + 1 } := by rw [hget, if_pos rfl]
  have hgp : s'.get np = some { pn with children := some (AL.insert nFile oc (AL.erase nFile pn.kids)) } := by
    rw [hget, if_neg (Ne.symm hne), if_pos rfl]
  have hgother : ∀ j, oc ≠ j → np ≠ j → s'.get j = s.get j := by
    intro j a b; rw [hget, if_neg a, if_neg b]
  refine
    { rootE := hold _ _ h.rootE
      rootS := hold _ _ h.rootS
      rootDir := ?_
      rootKeys := ?_
      keysNodup := hnodup
      up := ?_
      down := ?_
      allocIdx := ?_
      heapLt := ?_
      allocKids := ?_
      dirKey := ?_
      nlinkKeys := ?_
      names := ?_
      fileKids := ?_
      orphanKids := ?_ }
  · -- rootDir
    obtain ⟨r, hr, hrd⟩ := h.rootDir
    have hor : oc ≠ rootIno := by
      intro e; subst e; rw [hr] at ho; cases ho; rw [hrd] at hof; cases hof
    by_cases e : np = rootIno
    · subst e; exact ⟨_, hgp, hpd⟩
    · exact ⟨r, by rw [hgother _ hor e, hr], hrd⟩
  · -- rootKeys
    intro q hq
    rw [hat] at hq
    split at hq
    · exfalso
      obtain ⟨r, hr, hrd⟩ := h.rootDir
      have e := Option.some.inj hq
      rw [e, hr] at ho; cases ho; rw [hrd] at hof; cases hof
    · exact h.rootKeys q hq
  · -- up
    intro q j hq hqe hqs
    rw [hat] at hq
    split at hq
    · next e =>
      subst e; cases hq
      exact ⟨nDir, nFile, np, _, hsp, hd, hold _ _ hdi, hgp, hpd, by rw [kids_some]; simp⟩
    · next hqne =>
      obtain ⟨d0, name0, di, dn, a1, a2, a3, a4, a5, a6⟩ := h.up q j hq hqe hqs
      have hdio : oc ≠ di := by
        intro e; subst e; rw [ho] at a4; cases a4; rw [a5] at hof; cases hof
      by_cases e : np = di
      · subst e
        rw [hp] at a4; cases a4
        refine ⟨d0, name0, np, _, a1, a2, hold _ _ a3, hgp, hpd, ?_⟩
        rw [kids_some]
        by_cases en : nFile = name0
        · subst en
          exfalso
          have := h.parentKey a3 hdi a2 hd hp hpd
          subst this
          apply hqne
          rw [hpath, (splitAbsO_eq a1).1]
        · rw [AL.lookup_insert_ne _ _ en, AL.lookup_erase_ne _ en]; exact a6
      · exact ⟨d0, name0, di, dn, a1, a2, hold _ _ a3, by rw [hgother _ hdio e, a4], a5, a6⟩
  · -- down
    intro d0 di dn name0 c a1 a2 a3 a4
    by_cases eo : oc = di
    · subst eo
      rw [hgo] at a3; cases a3
      have : ({ on with nlink := on.nlink + 1 } : ONode).kids = on.kids := rfl
      rw [this, hokids] at a4; simp at a4
    · rw [hat] at a1
      split at a1
      · exact absurd (Option.some.inj a1) eo
      · by_cases e : np = di
        · subst e
          rw [hgp] at a3; cases a3
          rw [kids_some] at a4
          by_cases en : nFile = name0
          · subst en
            rw [AL.lookup_insert_eq] at a4; cases a4
            have := h.parentKey a1 hdi a2 hd hp hpd
            subst this
            rw [← hpath, hat, if_pos rfl]
          · rw [AL.lookup_insert_ne _ _ en, AL.lookup_erase_ne _ en] at a4
            exact hold _ _ (h.down d0 np pn name0 c a1 a2 hp a4)
        · rw [hgother _ eo e] at a3
          exact hold _ _ (h.down d0 di dn name0 c a1 a2 a3 a4)
  · -- allocIdx
    intro q j hq
    rw [hat] at hq
    split at hq
    · cases hq; rw [hgo]; rfl
    · exact hmono _ (h.allocIdx q j hq)
  · -- heapLt
    intro j m hj
    rw [hget] at hj
    rw [hnext]
    split at hj
    · next e => subst e; exact h.heapLt _ _ ho
    · split at hj
      · next e => subst e; exact h.heapLt _ _ hp
      · exact h.heapLt j m hj
  · -- allocKids
    intro j m name0 c hj hl
    rw [hget] at hj
    split at hj
    · cases hj
      have : ({ on with nlink := on.nlink + 1 } : ONode).kids = on.kids := rfl
      rw [this, hokids] at hl; simp at hl
    · split at hj
      · cases hj
        rw [kids_some] at hl
        by_cases en : nFile = name0
        · subst en
          rw [AL.lookup_insert_eq] at hl; cases hl
          rw [hgo]; rfl
        · rw [AL.lookup_insert_ne _ _ en, AL.lookup_erase_ne _ en] at hl
          exact hmono _ (h.allocKids _ pn name0 c hp hl)
      · exact hmono _ (h.allocKids j m name0 c hj hl)
  · -- dirKey
    intro p1 q1 j m a1 a2 a3 a4 a5
    have hjo : oc ≠ j := by
      intro e; subst e; rw [hgo] at a3; cases a3
      have : ({ on with nlink := on.nlink + 1 } : ONode).isDir = on.isDir := rfl
      rw [this, hof] at a4; cases a4
    rw [hat] at a1 a2
    split at a1
    · exact absurd (Option.some.inj a1) hjo
    · split at a2
      · exact absurd (Option.some.inj a2) hjo
      · by_cases e : np = j
        · subst e
          exact h.dirKey p1 q1 np pn a1 a2 hp hpd a5
        · rw [hgother _ hjo e] at a3
          exact h.dirKey p1 q1 j m a1 a2 a3 a4 a5
  · -- nlinkKeys
    intro j m hj hjr
    rw [hnk]
    rw [hget] at hj
    split at hj
    · next e =>
      subst e; cases hj
      have := h.nlinkKeys oc on ho hjr
      show on.nlink + 1 = _
      rw [this]; simp
    · next e =>
      rw [if_neg e]
      split at hj
      · next e2 =>
        subst e2; cases hj
        simpa using h.nlinkKeys np pn hp hjr
      · simpa using h.nlinkKeys j m hj hjr
  · -- names
    intro j m name0 c hj hl
    rw [hget] at hj
    split at hj
    · cases hj
      have : ({ on with nlink := on.nlink + 1 } : ONode).kids = on.kids := rfl
      rw [this, hokids] at hl; simp at hl
    · split at hj
      · cases hj
        rw [kids_some] at hl
        by_cases en : nFile = name0
        · subst en; exact ⟨hname, hnosl⟩
        · rw [AL.lookup_insert_ne _ _ en, AL.lookup_erase_ne _ en] at hl
          exact h.names _ pn name0 c hp hl
      · exact h.names j m name0 c hj hl
  · -- fileKids
    intro j m hj hd
    rw [hget] at hj
    split at hj
    · cases hj; exact h.fileKids oc on ho hof
    · split at hj
      · cases hj; simp [hpd] at hd
      · exact h.fileKids j m hj hd
  · -- orphanKids
    intro j m hj hk
    rw [hnk] at hk
    rw [hget] at hj
    split at hj
    · next e => rw [if_pos e] at hk; omega
    · next e =>
      rw [if_neg e] at hk
      split at hj
      · next e2 =>
        subst e2
        have := nkeys_pos_of_at hdi
        omega
      · exact h.orphanKids j m hj (by omega)

theorem OWF_link {s : OStore} (h : OWF s) (v : OView) (o n : Bytes) : OWF (link s v o n).1 := by
  unfold link
  dsimp only
  split
  · exact h
  · next nDir nFile hsp =>
    split
    · exact h
    · next oc hoc =>
      split
      · exact h
      · next np hnp =>
        split
        · exact h
        · next hnpd =>
          split
          · exact h
          · next hocd =>
            split
            · exact h
            · next hex =>
              have hnone : s.at (absOf v n) = none := by
                cases hh : s.at (absOf v n) with
                | none => rfl
                | some x => simp [hh] at hex
              obtain ⟨pn, hpn, hpd⟩ := isDirAt_true (by simpa using hnpd)
              obtain ⟨h1, h2⟩ := h.newName v n hsp hnone
              have hso := h.allocIdx _ _ hoc
              cases hon : s.get oc with
              | none => simp [hon] at hso
              | some on =>
                have hof : on.isDir = false := isDirAt_false_of_some hon (by simpa using hocd)
                have hne : np ≠ oc := by
                  intro e; subst e; rw [hpn] at hon; cases hon; rw [hpd] at hof; cases hof
                have hg1 : (s.bind (absOf v n) oc).get np = some pn := hpn
                rw [addChildO_eq nFile oc hg1]
                have hg2 : ((s.bind (absOf v n) oc).set np
                    { pn with children := some (AL.insert nFile oc (AL.erase nFile pn.kids)) }).get oc = some on := by
                  rw [get_set_ne _ _ hne]; exact hon
                simp only [hg2]
                exact addLink_OWF h hnone hsp h1 h2 hnp hpn hpd hon hof

/-! ### MkdirAll -/

/-- what the ancestor search of MkdirAll returns: the paths from `dir` upwards that are not indexed, each the parent
    part of the one before, the last one a child path of the existing directory `parent` -/
def ChainOK (s : OStore) : Bytes → List Bytes → Ino → Prop
  | dir, [], parent => s.at dir = some parent ∧ isDirAt s parent = true
  | dir, p :: rest, parent =>
    p = dir ∧ s.at dir = none ∧ ∃ d f, splitAbsO dir = some (d, f) ∧ ChainOK s d rest parent

theorem missingChain_found (s : OStore) : ∀ (fuel : Nat) (dir : Bytes) (acc ds : List Bytes) (parent : Ino),
    missingChain s fuel dir acc = .found ds parent → ∃ ds', ds = acc ++ ds' ∧ ChainOK s dir ds' parent := by
  intro fuel
  induction fuel with
  | zero => intro dir acc ds parent h; simp [missingChain] at h
  | succ fuel ih =>
    intro dir acc ds parent h
    simp only [missingChain] at h
    split at h
    · next i hi =>
      split at h
      · next hd =>
        cases h
        exact ⟨[], by simp, hi, hd⟩
      · cases h
    · next hnone =>
      split at h
      · cases h
      · next d f hsp =>
        obtain ⟨ds', e, hc⟩ := ih d (acc ++ [dir]) ds parent h
        exact ⟨dir :: ds', by simp [e], rfl, hnone, d, f, hsp, hc⟩

/-- the creation loop of MkdirAll -/
def mkdirAllStep (v : OView) (perm : Nat) (acc : OStore × Ino) (p : Bytes) : OStore × Ino :=
  match splitAbsO p with
  | some (_, fileName) => createNode acc.1 v acc.2 p fileName true perm
  | none => acc

theorem mkdirAll_fold (v : OView) (perm : Nat) {s : OStore} (h : OWF s) : ∀ (ds : List Bytes) (dir : Bytes) (parent : Ino),
    ChainOK s dir ds parent → Tidy dir →
    OWF (ds.reverse.foldl (mkdirAllStep v perm) (s, parent)).1 ∧
    (ds.reverse.foldl (mkdirAllStep v perm) (s, parent)).1.at dir
      = some (ds.reverse.foldl (mkdirAllStep v perm) (s, parent)).2 ∧
    isDirAt (ds.reverse.foldl (mkdirAllStep v perm) (s, parent)).1
      (ds.reverse.foldl (mkdirAllStep v perm) (s, parent)).2 = true ∧
    (∀ q, (ds.reverse.foldl (mkdirAllStep v perm) (s, parent)).1.at q ≠ none → s.at q ≠ none ∨ q.length ≤ dir.length) := by
  intro ds
  induction ds with
  | nil =>
    intro dir parent hc _
    exact ⟨h, hc.1, hc.2, fun q hq => Or.inl hq⟩
  | cons p rest ih =>
    intro dir parent hc htidy
    obtain ⟨rfl, hnone, d, f, hsp, hrest⟩ := hc
    obtain ⟨hpath, hnosl⟩ := splitAbsO_eq hsp
    rw [hpath] at htidy
    obtain ⟨hf, hdsl, htd⟩ := tidy_split htidy hnosl
    obtain ⟨ih1, ih2, ih3, ih4⟩ := ih d parent hrest htd
    rw [List.reverse_cons, List.foldl_append]
    simp only [List.foldl_cons, List.foldl_nil]
    generalize List.foldl (mkdirAllStep v perm) (s, parent) rest.reverse = r0 at *
    have hlen : p.length = d.length + 1 + f.length := by rw [hpath]; simp; omega
    have hnone0 : r0.1.at p = none := by
      cases hq : r0.1.at p with
      | none => rfl
      | some x =>
        rcases ih4 p (by rw [hq]; simp) with e | e
        · exact absurd hnone e
        · omega
    obtain ⟨pn, hpn, hpd⟩ := isDirAt_true ih3
    have hwf := createNode_OWF ih1 v true perm hnone0 hsp hdsl hf ih2 hpn hpd
    have hne : r0.2 ≠ r0.1.next := Nat.ne_of_lt (ih1.heapLt _ _ hpn)
    obtain ⟨nd, hndDir, -, -, hget, hat, -, -, -, hsnd⟩ :=
      createNode_spec v p f true perm ih1.keysNodup hpn hne hnone0
    have hstep : mkdirAllStep v perm r0 p = createNode r0.1 v r0.2 p f true perm := by
      simp [mkdirAllStep, hsp]
    rw [hstep]
    refine ⟨hwf, ?_, ?_, ?_⟩
    · rw [hat, if_pos rfl, hsnd]
    · rw [hsnd]
      have : (createNode r0.1 v r0.2 p f true perm).1.get r0.1.next = some nd := by
        rw [hget, if_neg hne, if_pos rfl]
      rw [isDirAt_eq this, hndDir]
    · intro q hq
      rw [hat] at hq
      split at hq
      · next e => subst e; exact Or.inr (Nat.le_refl _)
      · rcases ih4 q hq with e | e
        · exact Or.inl e
        · exact Or.inr (by omega)

theorem OWF_mkdirAll {s : OStore} (h : OWF s) (v : OView) (path : Bytes) (perm : Nat) :
    OWF (mkdirAll s v path perm).1 := by
  unfold mkdirAll
  dsimp only
  split
  · split <;> exact h
  · next hnone =>
    split
    · exact h
    · exact h
    · next ds parent hmc =>
      obtain ⟨ds', e, hc⟩ := missingChain_found s _ _ _ _ _ hmc
      simp only [List.nil_append] at e
      subst e
      have htidy : Tidy (absOf v path) := by
        rcases absOf_cases v path with e | e | e
        · rw [e, h.rootE] at hnone; cases hnone
        · rw [e, h.rootS] at hnone; cases hnone
        · exact e
      exact (mkdirAll_fold v perm h ds (absOf v path) parent hc htidy).1

/-! ### the initial state -/

/-- the store `New` starts from, before /home, /root and /tmp are made -/
def baseRoot : ONode :=
  { isDir := true, perm := 0o755, uid := 0, gid := 0, mtime := none, nlink := 0, id := 0, data := [], children := none }

def baseStore : OStore := { heap := [(0, baseRoot)], index := [([], 0), ([SL], 0)], next := 1, lastId := 0 }

theorem base_at (p : Bytes) : baseStore.at p = if [] = p then some 0 else if [SL] = p then some 0 else none := by
  simp [OStore.at, baseStore, AL.lookup]

theorem base_get (i : Ino) : baseStore.get i = if 0 = i then some baseRoot else none := by
  simp [OStore.get, baseStore, AL.lookup]

theorem OWF_base : OWF baseStore := by
  have hkids : ∀ i n name c, baseStore.get i = some n → AL.lookup name n.kids = some c → False := by
    intro i n name c hi hl
    rw [base_get] at hi
    split at hi
    · cases hi; simp [ONode.kids, baseRoot] at hl
    · cases hi
  refine
    { rootE := by simp [base_at, rootIno]
      rootS := by simp [base_at, rootIno]
      rootDir := ⟨baseRoot, by simp [base_get, rootIno], rfl⟩
      rootKeys := ?_
      keysNodup := by decide
      up := ?_
      down := ?_
      allocIdx := ?_
      heapLt := ?_
      allocKids := fun i n name c hi hl => (hkids i n name c hi hl).elim
      dirKey := ?_
      nlinkKeys := ?_
      names := fun i n name c hi hl => (hkids i n name c hi hl).elim
      fileKids := ?_
      orphanKids := ?_ }
  · intro p hp
    rw [base_at] at hp
    split at hp
    · next e => exact Or.inl e.symm
    · split at hp
      · next e => exact Or.inr e.symm
      · cases hp
  · intro p i hp hpe hps
    rw [base_at, if_neg (Ne.symm hpe), if_neg (Ne.symm hps)] at hp
    cases hp
  · intro d di dn name c _ _ h3 h4
    exact (hkids di dn name c h3 h4).elim
  · intro p i hp
    rw [base_at] at hp
    split at hp
    · cases hp; simp [base_get]
    · split at hp
      · cases hp; simp [base_get]
      · cases hp
  · intro i n hi
    rw [base_get] at hi
    split at hi
    · next e => subst e; decide
    · cases hi
  · intro p q i n hp _ _ _ hr
    rw [base_at] at hp
    split at hp
    · cases hp; exact absurd rfl hr
    · split at hp
      · cases hp; exact absurd rfl hr
      · cases hp
  · intro i n hi hr
    rw [base_get] at hi
    split at hi
    · next e => exact absurd e.symm hr
    · cases hi
  · intro i n hi hd
    rw [base_get] at hi
    split at hi
    · cases hi; rfl
    · cases hi
  · intro i n hi _
    rw [base_get] at hi
    split at hi
    · cases hi; rfl
    · cases hi

theorem OWF_initState (uid gid : Int) : OWF (initState uid gid).store := by
  let st0 : OState := { store := baseStore, view := { cwd := [SL], uid := uid, gid := gid, umask := 0 },
                        handles := [], habs := [], nextHandle := 0 }
  let mk := fun (st : OState) (p : Bytes) (perm : Nat) => (step (step st (.mkdirAll p perm)).1 (.chmod p perm)).1
  have hmk : ∀ (st : OState) (p : Bytes) (perm : Nat), OWF st.store → OWF (mk st p perm).store := by
    intro st p perm hst
    exact OWF_setAttr (OWF_mkdirAll hst st.view p perm) _ p _ (attrOnly_perm perm)
  have h1 : OWF (mk st0 [47, 104, 111, 109, 101] 0o700).store := hmk st0 _ _ OWF_base
  have h2 : OWF (mk (mk st0 [47, 104, 111, 109, 101] 0o700) [47, 114, 111, 111, 116] 0o700).store := hmk _ _ _ h1
  have h3 : OWF (mk (mk (mk st0 [47, 104, 111, 109, 101] 0o700) [47, 114, 111, 111, 116] 0o700)
      [47, 116, 109, 112] 0o777).store := hmk _ _ _ h2
  exact h3

/-! ### stores that only differ in the order of the heap list -/

/-- same index, same allocation counter, same nodes (the heap is only read through `get`) -/
structure Eqv (s t : OStore) : Prop where
  index : s.index = t.index
  next : s.next = t.next
  get : ∀ j, s.get j = t.get j

theorem OWF_of_eqv {s t : OStore} (h : OWF s) (e : Eqv s t) : OWF t :=
  OWF_of_shape h e.index.symm e.next.symm
    (fun j m hj => ⟨m, by rw [e.get]; exact hj, rfl, rfl, rfl⟩)
    (fun j m hj => ⟨m, by rw [← e.get]; exact hj, rfl, rfl, rfl⟩)

theorem erase_erase (k : Bytes) (l : Idx) : AL.erase k (AL.erase k l) = AL.erase k l :=
  erase_of_lookup_none (AL.lookup_erase_eq k l)

/-! ### the state after an entry has been taken out (Remove, the old name of Rename) -/

theorem unlink_get {s : OStore} {c p : Ino} {n pn : ONode} (fileName absPath : Bytes)
    (hn : s.get c = some n) (hpn : s.get p = some pn) (hcp : c ≠ p) (j : Ino) :
    ((delChild (removeNode s c) p fileName).unbind absPath).get j =
      if p = j then some { pn with children := pn.children.map (AL.erase fileName) }
      else if c = j then some { n with children := none, nlink := n.nlink - 1 } else s.get j := by
  have e1 : removeNode s c = s.set c { n with children := none, nlink := n.nlink - 1 } := removeNode_eq hn
  have hp1 : (s.set c { n with children := none, nlink := n.nlink - 1 }).get p = some pn := by
    rw [get_set_ne _ _ hcp, hpn]
  rw [e1, delChild_eq fileName hp1, get_unbind, get_set, get_set]

theorem unlink_index (s : OStore) (c p : Ino) (fileName absPath : Bytes) :
    ((delChild (removeNode s c) p fileName).unbind absPath).index = AL.erase absPath s.index := by
  unfold delChild removeNode
  split <;> split <;> rfl

theorem unlink_next (s : OStore) (c p : Ino) (fileName absPath : Bytes) :
    ((delChild (removeNode s c) p fileName).unbind absPath).next = s.next := by
  unfold delChild removeNode
  split <;> split <;> rfl

theorem at_of_index {s t : OStore} {k : Bytes} (h : t.index = AL.erase k s.index) (q : Bytes) :
    t.at q = if k = q then none else s.at q := by
  simp [OStore.at, h, AL.lookup_erase]

theorem node_eta (n : ONode) : ({ n with children := n.children } : ONode) = n := by cases n; rfl

theorem map_erase_of_lookup_none {n : ONode} {name : Bytes} (h : AL.lookup name n.kids = none) :
    n.children.map (AL.erase name) = n.children := by
  cases hc : n.children with
  | none => rfl
  | some l =>
    have : n.kids = l := by simp [ONode.kids, hc]
    rw [this] at h
    simp [erase_of_lookup_none h]

/-! ### Rename of a file = [Remove new] ; Link old new ; Remove old, up to the order of the heap list -/

theorem relink_node {on : ONode} (h : on.children = none) :
    ({ ({ on with nlink := on.nlink + 1 } : ONode) with children := none, nlink := on.nlink + 1 - 1 } : ONode) = on := by
  cases on
  simp only at h
  subst h
  simp only [ONode.mk.injEq, and_true, true_and]
  omega

theorem rename_file_core {s0 A : OStore} (hA : OWF A)
    {oAbs nAbs oDir oFile nDir nFile : Bytes} {oc op np : Ino} {on pn pon : ONode}
    (hidx : A.index = AL.erase nAbs s0.index) (hnext : A.next = s0.next)
    (hget : ∀ j, A.get j = if np = j then some { pn with children := pn.children.map (AL.erase nFile) } else s0.get j)
    (hpn : s0.get np = some pn) (hpd : pn.isDir = true) (hon : s0.get oc = some on) (hof : on.isDir = false)
    (hpon : s0.get op = some pon)
    (hso : splitAbsO oAbs = some (oDir, oFile)) (hsn : splitAbsO nAbs = some (nDir, nFile)) (hne : oAbs ≠ nAbs)
    (hoc : s0.at oAbs = some oc) (hop : s0.at oDir = some op) (hnp : s0.at nDir = some np) (hocp : oc ≠ op)
    (hodn : oDir ≠ nAbs) (hd : nDir ≠ [SL]) (hname : nFile ≠ []) :
    OWF (((delChild (addChildO s0 np nFile oc) op oFile).bind nAbs oc).unbind oAbs) := by
  have hAat : ∀ q, A.at q = if nAbs = q then none else s0.at q := at_of_index hidx
  have hocnp : oc ≠ np := by
    intro e; subst e; rw [hon] at hpn; cases hpn; rw [hpd] at hof; cases hof
  have hAnp : A.get np = some { pn with children := pn.children.map (AL.erase nFile) } := by rw [hget, if_pos rfl]
  have hAoc : A.get oc = some on := by rw [hget, if_neg (Ne.symm hocnp), hon]
  have hAnone : A.at nAbs = none := by rw [hAat, if_pos rfl]
  have hndne : nAbs ≠ nDir := by
    intro e
    have := congrArg List.length (splitAbsO_eq hsn).1
    rw [e] at this; simp at this
  have hAnd : A.at nDir = some np := by rw [hAat, if_neg hndne, hnp]
  have hkn : on.children = none := hA.fileKids oc on hAoc hof
  have hB := addLink_OWF hA hAnone hsn hd hname hAnd hAnp hpd hAoc hof
  have hBat : ∀ q, (((A.bind nAbs oc).set np
      { ({ pn with children := pn.children.map (AL.erase nFile) } : ONode) with
        children := some (AL.insert nFile oc (AL.erase nFile
          ({ pn with children := pn.children.map (AL.erase nFile) } : ONode).kids)) }).set oc
      { on with nlink := on.nlink + 1 }).at q = if nAbs = q then some oc else A.at q := by
    intro q; rw [at_set, at_set, at_bind]
  have hBget : ∀ j, (((A.bind nAbs oc).set np
      { ({ pn with children := pn.children.map (AL.erase nFile) } : ONode) with
        children := some (AL.insert nFile oc (AL.erase nFile
          ({ pn with children := pn.children.map (AL.erase nFile) } : ONode).kids)) }).set oc
      { on with nlink := on.nlink + 1 }).get j =
      if oc = j then some { on with nlink := on.nlink + 1 }
      else if np = j then some { ({ pn with children := pn.children.map (AL.erase nFile) } : ONode) with
        children := some (AL.insert nFile oc (AL.erase nFile
          ({ pn with children := pn.children.map (AL.erase nFile) } : ONode).kids)) }
      else A.get j := by
    intro j; rw [get_set, get_set, get_bind]
  have hBidx : (((A.bind nAbs oc).set np
      { ({ pn with children := pn.children.map (AL.erase nFile) } : ONode) with
        children := some (AL.insert nFile oc (AL.erase nFile
          ({ pn with children := pn.children.map (AL.erase nFile) } : ONode).kids)) }).set oc
      { on with nlink := on.nlink + 1 }).index = AL.insert nAbs oc (AL.erase nAbs A.index) := rfl
  have hBnext : (((A.bind nAbs oc).set np
      { ({ pn with children := pn.children.map (AL.erase nFile) } : ONode) with
        children := some (AL.insert nFile oc (AL.erase nFile
          ({ pn with children := pn.children.map (AL.erase nFile) } : ONode).kids)) }).set oc
      { on with nlink := on.nlink + 1 }).next = A.next := rfl
  generalize (((A.bind nAbs oc).set np
      { ({ pn with children := pn.children.map (AL.erase nFile) } : ONode) with
        children := some (AL.insert nFile oc (AL.erase nFile
          ({ pn with children := pn.children.map (AL.erase nFile) } : ONode).kids)) }).set oc
      { on with nlink := on.nlink + 1 }) = B at *
  rw [kids_map_erase, erase_erase] at hBget
  have hBoc : B.at oAbs = some oc := by rw [hBat, if_neg (Ne.symm hne), hAat, if_neg (Ne.symm hne), hoc]
  have hBop : B.at oDir = some op := by rw [hBat, if_neg (Ne.symm hodn), hAat, if_neg (Ne.symm hodn), hop]
  have hBgoc : B.get oc = some { on with nlink := on.nlink + 1 } := by rw [hBget, if_pos rfl]
  have hC := unlink_OWF hB hso hBoc hBop hocp hBgoc (kids_of_children_none hkn)
  apply OWF_of_eqv hC
  have e1 : addChildO s0 np nFile oc = s0.set np { pn with children := some (AL.insert nFile oc (AL.erase nFile pn.kids)) } :=
    addChildO_eq nFile oc hpn
  by_cases hnpop : np = op
  · subst hnpop
    have hBgop : B.get np = some { pn with children := some (AL.insert nFile oc (AL.erase nFile pn.kids)) } := by
      rw [hBget, if_neg hocp, if_pos rfl]
    have hRg : (s0.set np { pn with children := some (AL.insert nFile oc (AL.erase nFile pn.kids)) }).get np
        = some { pn with children := some (AL.insert nFile oc (AL.erase nFile pn.kids)) } := get_set_eq _ _ _
    refine ⟨?_, ?_, ?_⟩
    · rw [unlink_index, hBidx, hidx, erase_erase, e1, delChild_eq oFile hRg]; rfl
    · rw [unlink_next, hBnext, hnext, e1, delChild_eq oFile hRg]; rfl
    · intro j
      rw [unlink_get oFile oAbs hBgoc hBgop hocp, e1, delChild_eq oFile hRg, get_unbind, get_bind, get_set, get_set]
      by_cases h1 : np = j
      · rw [if_pos h1, if_pos h1]
      · rw [if_neg h1, if_neg h1, if_neg h1]
        by_cases h2 : oc = j
        · subst h2
          rw [if_pos rfl, hon]
          exact congrArg some (relink_node hkn)
        · rw [if_neg h2, hBget, if_neg h2, if_neg h1, hget, if_neg h1]
  · have hBgop : B.get op = some pon := by
      rw [hBget, if_neg hocp, if_neg hnpop, hget, if_neg hnpop, hpon]
    have hRg : (s0.set np { pn with children := some (AL.insert nFile oc (AL.erase nFile pn.kids)) }).get op
        = some pon := by rw [get_set_ne _ _ hnpop, hpon]
    refine ⟨?_, ?_, ?_⟩
    · rw [unlink_index, hBidx, hidx, erase_erase, e1, delChild_eq oFile hRg]; rfl
    · rw [unlink_next, hBnext, hnext, e1, delChild_eq oFile hRg]; rfl
    · intro j
      rw [unlink_get oFile oAbs hBgoc hBgop hocp, e1, delChild_eq oFile hRg, get_unbind, get_bind, get_set, get_set]
      by_cases h1 : op = j
      · rw [if_pos h1, if_pos h1]
      · rw [if_neg h1, if_neg h1]
        by_cases h2 : oc = j
        · subst h2
          rw [if_pos rfl, if_neg (Ne.symm hocnp), hon]
          exact congrArg some (relink_node hkn)
        · rw [if_neg h2, hBget, if_neg h2]
          by_cases h3 : np = j
          · rw [if_pos h3, if_pos h3]
          · rw [if_neg h3, if_neg h3, hget, if_neg h3]

/-! ### the index rewrite of a directory rename -/

/-- `k` is strictly below `o` -/
def Below (o k : Bytes) : Prop := (o ++ [SL]).isPrefixOf k = true

instance (o k : Bytes) : Decidable (Below o k) := by unfold Below; infer_instance

theorem below_iff {o k : Bytes} : Below o k ↔ ∃ r, k = o ++ SL :: r := by
  unfold Below
  rw [List.isPrefixOf_iff_prefix]
  constructor
  · rintro ⟨t, ht⟩; exact ⟨t, by rw [← ht]; simp⟩
  · rintro ⟨r, hr⟩; exact ⟨r, by rw [hr]; simp⟩

/-- the key that replaces a key below `o` -/
def mvKey (o n k : Bytes) : Bytes := n ++ k.drop o.length

theorem mvKey_below {o n r : Bytes} : mvKey o n (o ++ SL :: r) = n ++ SL :: r := by
  simp [mvKey]

theorem below_mvKey {o n k : Bytes} (h : Below o k) : Below n (mvKey o n k) := by
  obtain ⟨r, rfl⟩ := below_iff.mp h
  rw [mvKey_below]; exact below_iff.mpr ⟨r, rfl⟩

theorem mvKey_mvKey {o n k : Bytes} (h : Below o k) : mvKey n o (mvKey o n k) = k := by
  obtain ⟨r, rfl⟩ := below_iff.mp h
  rw [mvKey_below, mvKey_below]

def reindexStep (idx : Idx) (o n : Bytes) (acc : Idx) (k : Bytes) : Idx :=
  if (o ++ [SL]).isPrefixOf k then
    match AL.lookup k idx with
    | some i => AL.insert (n ++ k.drop o.length) i (AL.erase (n ++ k.drop o.length) (AL.erase k acc))
    | none => acc
  else acc

theorem reindex_eq (idx : Idx) (o n : Bytes) : reindex idx o n = (alKeys idx).foldl (reindexStep idx o n) idx := rfl

/-- the state of the rewrite after the keys `K` have been handled -/
structure ReInv (idx : Idx) (o n : Bytes) (K : List Bytes) (acc : Idx) : Prop where
  out : ∀ q, ¬ Below n q → AL.lookup q acc = if q ∈ K ∧ Below o q then none else AL.lookup q idx
  inn : ∀ q, Below n q → AL.lookup q acc = if mvKey n o q ∈ K then AL.lookup (mvKey n o q) idx else none
  nodup : (acc.map (·.1)).Nodup
  cnt : ∀ j, cnt j acc = cnt j idx

theorem reInv_step {idx : Idx} {o n : Bytes} (hfree : ∀ k, Below n k → AL.lookup k idx = none)
    {K : List Bytes} {acc : Idx} (hi : ReInv idx o n K acc) {k : Bytes} (hk : k ∉ K) :
    ReInv idx o n (K ++ [k]) (reindexStep idx o n acc k) := by
  unfold reindexStep
  by_cases hb : Below o k
  · have hb' : (o ++ [SL]).isPrefixOf k = true := hb
    rw [if_pos hb']
    cases hl : AL.lookup k idx with
    | none =>
      dsimp only
      refine ⟨?_, ?_, hi.nodup, hi.cnt⟩
      · intro q hq
        rw [hi.out q hq]
        by_cases e : q = k
        · subst e; simp [hl]
        · simp [e]
      · intro q hq
        rw [hi.inn q hq]
        by_cases e : mvKey n o q = k
        · rw [e]; simp [hl, hk]
        · simp [e]
    | some i =>
      dsimp only
      have hnk : ¬ Below n k := by
        intro hh; rw [hfree k hh] at hl; cases hl
      have hmb : Below n (mvKey o n k) := below_mvKey hb
      have hne : mvKey o n k ≠ k := fun e => hnk (e ▸ hmb)
      have hlk : AL.lookup k acc = some i := by
        rw [hi.out k hnk, if_neg (fun hh => hk hh.1), hl]
      have hlm : AL.lookup (mvKey o n k) (AL.erase k acc) = none := by
        rw [AL.lookup_erase_ne _ (Ne.symm hne), hi.inn _ hmb, mvKey_mvKey hb, if_neg hk]
      have hlook : ∀ q, AL.lookup q (AL.insert (mvKey o n k) i (AL.erase (mvKey o n k) (AL.erase k acc))) =
          if mvKey o n k = q then some i else if k = q then none else AL.lookup q acc := by
        intro q
        rw [AL.lookup_insert, AL.lookup_erase, AL.lookup_erase]
        by_cases e1 : mvKey o n k = q
        · simp [e1]
        · simp [e1]
      show ReInv idx o n (K ++ [k]) (AL.insert (mvKey o n k) i (AL.erase (mvKey o n k) (AL.erase k acc)))
      refine ⟨?_, ?_, nodup_insert_erase _ _ (nodup_erase _ hi.nodup), ?_⟩
      · intro q hq
        rw [hlook]
        have e1 : mvKey o n k ≠ q := fun e => hq (e ▸ hmb)
        rw [if_neg e1]
        by_cases e2 : k = q
        · subst e2; simp [hb]
        · rw [if_neg e2, hi.out q hq]
          have : q ≠ k := Ne.symm e2
          simp [this]
      · intro q hq
        rw [hlook]
        by_cases e1 : mvKey o n k = q
        · subst e1
          rw [if_pos rfl, mvKey_mvKey hb]; simp [hl]
        · rw [if_neg e1]
          have e2 : k ≠ q := fun e => hnk (e ▸ hq)
          rw [if_neg e2, hi.inn q hq]
          have e3 : mvKey n o q ≠ k := by
            intro e
            apply e1
            rw [← e, mvKey_mvKey hq]
          simp [e3]
      · intro j
        rw [cnt_insert, erase_of_lookup_none hlm, ← hi.cnt j]
        exact cnt_erase j hi.nodup hlk
  · have hb' : ¬ (o ++ [SL]).isPrefixOf k = true := hb
    rw [if_neg hb']
    refine ⟨?_, ?_, hi.nodup, hi.cnt⟩
    · intro q hq
      rw [hi.out q hq]
      by_cases e : q = k
      · subst e; simp [hb]
      · simp [e]
    · intro q hq
      rw [hi.inn q hq]
      have : mvKey n o q ≠ k := by
        intro e; apply hb; rw [← e]; exact below_mvKey hq
      simp [this]

theorem reInv_fold {idx : Idx} {o n : Bytes} (hfree : ∀ k, Below n k → AL.lookup k idx = none) :
    ∀ (ks K : List Bytes) (acc : Idx), ReInv idx o n K acc → (∀ k ∈ ks, k ∉ K) → ks.Nodup →
      ReInv idx o n (K ++ ks) (ks.foldl (reindexStep idx o n) acc) := by
  intro ks
  induction ks with
  | nil => intro K acc hi _ _; simpa using hi
  | cons k ks ih =>
    intro K acc hi hdis hnd
    rw [List.nodup_cons] at hnd
    have := ih (K ++ [k]) _ (reInv_step hfree hi (hdis k (by simp))) (by
      intro x hx
      simp only [List.mem_append, List.mem_singleton, not_or]
      exact ⟨hdis x (by simp [hx]), fun e => hnd.1 (e ▸ hx)⟩) hnd.2
    simpa using this

/-- the result of the rewrite: the keys below `o` have moved below `n`, the others are unchanged -/
theorem reindex_spec {idx : Idx} {o n : Bytes} (hn : (idx.map (·.1)).Nodup)
    (hfree : ∀ k, Below n k → AL.lookup k idx = none) :
    (∀ q, AL.lookup q (reindex idx o n) =
      if Below n q then AL.lookup (mvKey n o q) idx else if Below o q then none else AL.lookup q idx) ∧
    ((reindex idx o n).map (·.1)).Nodup ∧ (∀ j, cnt j (reindex idx o n) = cnt j idx) := by
  have h0 : ReInv idx o n [] idx :=
    ⟨fun q _ => by simp, fun q hq => by simp [hfree q hq], hn, fun _ => rfl⟩
  have hf := reInv_fold hfree (alKeys idx) [] idx h0 (fun _ _ => by simp) (hr_nodup_alKeys idx)
  rw [List.nil_append, ← reindex_eq] at hf
  refine ⟨?_, hf.nodup, hf.cnt⟩
  intro q
  by_cases hq : Below n q
  · rw [if_pos hq, hf.inn q hq]
    split
    · rfl
    · next hm =>
      cases hl : AL.lookup (mvKey n o q) idx with
      | none => rfl
      | some x => exact absurd ((hr_mem_alKeys _ _).mpr (by simp [hl])) hm
  · rw [if_neg hq, hf.out q hq]
    by_cases hb : Below o q
    · rw [if_pos hb]
      split
      · rfl
      · next hm =>
        cases hl : AL.lookup q idx with
        | none => rfl
        | some x => exact absurd ⟨(hr_mem_alKeys _ _).mpr (by simp [hl]), hb⟩ hm
    · simp [hb]

/-! ### keys below a path -/

theorem not_below_self (o : Bytes) : ¬ Below o o := by
  intro h
  obtain ⟨r, hr⟩ := below_iff.mp h
  have := congrArg List.length hr
  simp at this

/-- the key translation of a directory rename -/
def trKey (o n k : Bytes) : Bytes := if k = o then n else if Below o k then mvKey o n k else k

theorem trKey_self (o n : Bytes) : trKey o n o = n := by simp [trKey]

theorem trKey_below {o n k : Bytes} (h : Below o k) : trKey o n k = mvKey o n k := by
  have : k ≠ o := fun e => not_below_self o (e ▸ h)
  simp [trKey, this, h]

theorem trKey_other {o n k : Bytes} (h1 : k ≠ o) (h2 : ¬ Below o k) : trKey o n k = k := by
  simp [trKey, h1, h2]

theorem below_child {o d name : Bytes} (hn : SL ∉ name) (h : Below o (d ++ SL :: name)) : d = o ∨ Below o d := by
  obtain ⟨r, hr⟩ := below_iff.mp h
  rcases List.append_eq_append_iff.mp hr with ⟨a, h1, h2⟩ | ⟨a, h1, h2⟩
  · -- o = d ++ a, SL :: name = a ++ SL :: r
    cases a with
    | nil => left; simpa using h1.symm
    | cons x a' =>
      simp only [List.cons_append, List.cons.injEq] at h2
      exfalso; apply hn; rw [h2.2]; simp
  · -- d = o ++ a, SL :: r = a ++ SL :: name
    cases a with
    | nil => left; simpa using h1
    | cons x a' =>
      simp only [List.cons_append, List.cons.injEq] at h2
      right
      rw [h1, ← h2.1]
      exact below_iff.mpr ⟨a', rfl⟩

theorem below_of_parent {o d name : Bytes} (h : d = o ∨ Below o d) : Below o (d ++ SL :: name) := by
  rcases h with rfl | h
  · exact below_iff.mpr ⟨name, rfl⟩
  · obtain ⟨r, rfl⟩ := below_iff.mp h
    exact below_iff.mpr ⟨r ++ SL :: name, by simp⟩

theorem trKey_child {o n d name : Bytes} (hn : SL ∉ name) (hk : d ++ SL :: name ≠ o) :
    trKey o n (d ++ SL :: name) = trKey o n d ++ SL :: name := by
  by_cases hb : Below o (d ++ SL :: name)
  · rw [trKey_below hb]
    rcases below_child hn hb with rfl | hd
    · rw [trKey_self, mvKey_below]
    · rw [trKey_below hd]
      obtain ⟨r, rfl⟩ := below_iff.mp hd
      have : o ++ SL :: r ++ SL :: name = o ++ SL :: (r ++ SL :: name) := by simp
      rw [this, mvKey_below, mvKey_below]; simp
  · rw [trKey_other hk hb]
    have h1 : d ≠ o := fun e => hb (below_of_parent (Or.inl e))
    have h2 : ¬ Below o d := fun e => hb (below_of_parent (Or.inr e))
    rw [trKey_other h1 h2]

/-- the prefixes of an indexed path that end before a separator are indexed -/
theorem OWF.ancestor {s : OStore} (h : OWF s) : ∀ (m : Nat) (r a : Bytes) (j : Ino), r.length ≤ m →
    s.at (a ++ SL :: r) = some j → ∃ i, s.at a = some i := by
  intro m
  induction m with
  | zero =>
    intro r a j hr hk
    have : r = [] := List.eq_nil_of_length_eq_zero (Nat.le_zero.mp hr)
    subst this
    by_cases ha : a = []
    · subst ha; exact ⟨_, h.rootE⟩
    · have hne : a ++ [SL] ≠ [] := by simp
      have hns : a ++ [SL] ≠ [SL] := by
        intro e
        have := congrArg List.length e
        simp at this
        exact ha this
      obtain ⟨d, name, di, dn, h1, _, h3, _⟩ := h.up _ j hk hne hns
      obtain ⟨e, hnosl⟩ := splitAbsO_eq h1
      obtain ⟨e1, _⟩ := childKey_inj (f := []) (by simp) hnosl e
      exact ⟨di, by rw [e1]; exact h3⟩
  | succ m ih =>
    intro r a j hr hk
    by_cases ha : a ++ SL :: r = [SL]
    · have : a = [] := by
        cases a with
        | nil => rfl
        | cons x a' => simp at ha
      subst this; exact ⟨_, h.rootE⟩
    · have hne : a ++ SL :: r ≠ [] := by simp
      obtain ⟨d, name, di, dn, h1, _, h3, _⟩ := h.up _ j hk hne ha
      obtain ⟨e, hnosl⟩ := splitAbsO_eq h1
      have hb : Below a (d ++ SL :: name) := by rw [← e]; exact below_iff.mpr ⟨r, rfl⟩
      rcases below_child hnosl hb with e1 | hd
      · exact ⟨di, by rw [← e1]; exact h3⟩
      · obtain ⟨r', hr'⟩ := below_iff.mp hd
        rw [hr'] at e h3
        have : r = r' ++ SL :: name := by
          have : a ++ SL :: r = a ++ (SL :: (r' ++ SL :: name)) := by rw [e]; simp
          exact List.cons.inj (List.append_cancel_left this) |>.2
        have hlen : r'.length ≤ m := by
          have := congrArg List.length this
          simp at this; omega
        exact ih r' a di hlen h3

theorem OWF.no_key_below {s : OStore} (h : OWF s) {a k : Bytes} (ha : s.at a = none) (hb : Below a k) : s.at k = none := by
  obtain ⟨r, rfl⟩ := below_iff.mp hb
  cases hk : s.at (a ++ SL :: r) with
  | none => rfl
  | some j =>
    obtain ⟨i, hi⟩ := h.ancestor r.length r a j (Nat.le_refl _) hk
    rw [ha] at hi; cases hi

/-! ### Rename onto a free name (a directory with everything below it, or a file) -/

/-- the heap after `addChild(newParent, newName, node)` and `delete(oldParent.children, oldName)` -/
theorem moveEntry_get {s : OStore} {np op : Ino} {pn pon : ONode} (nFile oFile : Bytes) (oc : Ino)
    (hpn : s.get np = some pn) (hpon : s.get op = some pon) (j : Ino) (m : ONode) (hm : s.get j = some m) :
    ∃ m', (delChild (addChildO s np nFile oc) op oFile).get j = some m' ∧ m'.isDir = m.isDir ∧ m'.nlink = m.nlink ∧
      (j ≠ np → j ≠ op → m' = m) ∧
      (∀ x, AL.lookup x m'.kids =
        if j = op ∧ x = oFile then none else if j = np ∧ x = nFile then some oc else AL.lookup x m.kids) := by
  rw [addChildO_eq nFile oc hpn]
  by_cases hnpop : np = op
  · subst hnpop
    rw [hpn] at hpon; cases hpon
    rw [delChild_eq oFile (get_set_eq _ _ _)]
    by_cases hj : np = j
    · subst hj
      rw [hpn] at hm; cases hm
      refine ⟨_, get_set_eq _ _ _, rfl, rfl, fun a _ => absurd rfl a, ?_⟩
      intro x
      rw [kids_map_erase, kids_some, AL.lookup_erase, AL.lookup_insert, AL.lookup_erase]
      by_cases e1 : oFile = x
      · simp [e1]
      · by_cases e2 : nFile = x
        · simp [e1, e2, Ne.symm e1]
        · simp [e1, e2, Ne.symm e1, Ne.symm e2]
    · refine ⟨m, by rw [get_set_ne _ _ hj, get_set_ne _ _ hj, hm], rfl, rfl, fun _ _ => rfl, ?_⟩
      intro x
      simp [Ne.symm hj]
  · have hg : (s.set np { pn with children := some (AL.insert nFile oc (AL.erase nFile pn.kids)) }).get op = some pon := by
      rw [get_set_ne _ _ hnpop, hpon]
    rw [delChild_eq oFile hg]
    by_cases hj : op = j
    · subst hj
      rw [hpon] at hm; cases hm
      refine ⟨_, get_set_eq _ _ _, rfl, rfl, fun _ a => absurd rfl a, ?_⟩
      intro x
      rw [kids_map_erase, AL.lookup_erase]
      by_cases e1 : oFile = x
      · simp [e1]
      · simp [e1, Ne.symm e1, Ne.symm hnpop]
    · rw [get_set_ne _ _ hj]
      by_cases hj2 : np = j
      · subst hj2
        rw [hpn] at hm; cases hm
        refine ⟨_, get_set_eq _ _ _, rfl, rfl, fun a _ => absurd rfl a, ?_⟩
        intro x
        rw [kids_some, AL.lookup_insert, AL.lookup_erase]
        by_cases e2 : nFile = x
        · simp [e2, hnpop]
        · simp [e2, Ne.symm e2, hnpop]
      · refine ⟨m, by rw [get_set_ne _ _ hj2, hm], rfl, rfl, fun _ _ => rfl, ?_⟩
        intro x
        simp [Ne.symm hj, Ne.symm hj2]

theorem moveEntry_get_back {s : OStore} {np op : Ino} (nFile oFile : Bytes) (oc : Ino) (j : Ino) (m' : ONode)
    (hm : (delChild (addChildO s np nFile oc) op oFile).get j = some m') : ∃ m, s.get j = some m := by
  cases hs : s.get j with
  | some m => exact ⟨m, rfl⟩
  | none =>
    exfalso
    have h1 : (addChildO s np nFile oc).get j = none := by
      unfold addChildO
      split
      · next pn hpn =>
        have : np ≠ j := by intro e; subst e; rw [hs] at hpn; cases hpn
        rw [get_set_ne _ _ this, hs]
      · exact hs
    have h2 : (delChild (addChildO s np nFile oc) op oFile).get j = none := by
      unfold delChild
      split
      · next pon hpon =>
        have : op ≠ j := by intro e; subst e; rw [h1] at hpon; cases hpon
        rw [get_set_ne _ _ this, h1]
      · exact h1
    rw [h2] at hm; cases hm

theorem moveEntry_index (s : OStore) (np op : Ino) (nFile oFile : Bytes) (oc : Ino) :
    (delChild (addChildO s np nFile oc) op oFile).index = s.index ∧
    (delChild (addChildO s np nFile oc) op oFile).next = s.next := by
  unfold delChild addChildO
  split <;> split <;> exact ⟨rfl, rfl⟩

theorem rename_free_OWF {s : OStore} (h : OWF s) {oAbs nAbs oDir oFile nDir nFile : Bytes} {oc op np : Ino} {pn : ONode}
    (hso : splitAbsO oAbs = some (oDir, oFile)) (hsn : splitAbsO nAbs = some (nDir, nFile))
    (hoc : s.at oAbs = some oc) (hop : s.at oDir = some op) (hnp : s.at nDir = some np) (hnone : s.at nAbs = none)
    (hpn : s.get np = some pn) (hpd : pn.isDir = true) (hocp : oc ≠ op) (hnb : ¬ Below oAbs nAbs)
    (hd : nDir ≠ [SL]) (hname : nFile ≠ []) :
    OWF { ((delChild (addChildO s np nFile oc) op oFile).bind nAbs oc).unbind oAbs with
          index := reindex (((delChild (addChildO s np nFile oc) op oFile).bind nAbs oc).unbind oAbs).index oAbs nAbs } := by
  obtain ⟨hpatho, hnoslo⟩ := splitAbsO_eq hso
  obtain ⟨hpathn, hnosln⟩ := splitAbsO_eq hsn
  have hne : oAbs ≠ nAbs := by intro e; rw [e, hnone] at hoc; cases hoc
  have hoe : oAbs ≠ [] := by intro e; rw [e] at hso; cases hso
  have hos : oAbs ≠ [SL] := by
    intro e
    rw [e] at hso hoc
    have : oDir = [] := by
      have := splitAbsO_mk [] [] (by simp)
      simp only [List.nil_append] at this
      rw [this] at hso; simp at hso; exact hso.1
    rw [this, h.rootE] at hop
    rw [h.rootS] at hoc
    cases hoc; cases hop; exact hocp rfl
  have hnE : nAbs ≠ [] := by intro e; rw [e, h.rootE] at hnone; cases hnone
  have hnS : nAbs ≠ [SL] := by intro e; rw [e, h.rootS] at hnone; cases hnone
  obtain ⟨d0, name0, di0, pon, u1, hodsl, u3, hpon, hpod, hlko⟩ := h.up oAbs oc hoc hoe hos
  rw [hso] at u1; cases u1
  rw [hop] at u3; cases u3
  -- the heap
  have H1 := moveEntry_get nFile oFile oc hpn hpon
  have H2 := moveEntry_get_back (s := s) (np := np) (op := op) nFile oFile oc
  obtain ⟨hidx2, hnext2⟩ := moveEntry_index s np op nFile oFile oc
  -- the index before the rewrite
  have hidx3 : (((delChild (addChildO s np nFile oc) op oFile).bind nAbs oc).unbind oAbs).index
      = AL.erase oAbs (AL.insert nAbs oc (AL.erase nAbs s.index)) := by
    simp only [OStore.bind, OStore.unbind, hidx2]
  have l3 : ∀ q, AL.lookup q (AL.erase oAbs (AL.insert nAbs oc (AL.erase nAbs s.index))) =
      if oAbs = q then none else if nAbs = q then some oc else s.at q := by
    intro q
    rw [AL.lookup_erase, AL.lookup_insert, AL.lookup_erase]
    by_cases e1 : oAbs = q
    · simp [e1]
    · by_cases e2 : nAbs = q
      · simp [e1, e2]
      · simp [e1, e2, OStore.at]
  have nodup3 : ((AL.erase oAbs (AL.insert nAbs oc (AL.erase nAbs s.index))).map (·.1)).Nodup :=
    nodup_erase _ (nodup_insert_erase _ _ h.keysNodup)
  have cnt3 : ∀ j, cnt j (AL.erase oAbs (AL.insert nAbs oc (AL.erase nAbs s.index))) = cnt j s.index := by
    intro j
    have hl : AL.lookup oAbs (AL.insert nAbs oc (AL.erase nAbs s.index)) = some oc := by
      rw [AL.lookup_insert, if_neg (Ne.symm hne), AL.lookup_erase, if_neg (Ne.symm hne)]; exact hoc
    have := cnt_erase j (nodup_insert_erase nAbs oc h.keysNodup) hl
    have he : AL.erase nAbs s.index = s.index := erase_of_lookup_none hnone
    rw [cnt_insert, he] at this
    rw [he]
    omega
  have hfree3 : ∀ k, Below nAbs k → AL.lookup k (AL.erase oAbs (AL.insert nAbs oc (AL.erase nAbs s.index))) = none := by
    intro k hk
    rw [l3]
    split
    · rfl
    · split
      · next e => exact absurd (e ▸ hk) (not_below_self _)
      · exact h.no_key_below hnone hk
  obtain ⟨R1, R2, R3⟩ := reindex_spec (o := oAbs) (n := nAbs) nodup3 hfree3
  rw [hidx3]
  generalize hs4 : ({ ((delChild (addChildO s np nFile oc) op oFile).bind nAbs oc).unbind oAbs with
      index := reindex (AL.erase oAbs (AL.insert nAbs oc (AL.erase nAbs s.index))) oAbs nAbs } : OStore) = s4
  have hget4 : ∀ j, s4.get j = (delChild (addChildO s np nFile oc) op oFile).get j := by
    intro j; rw [← hs4]; rfl
  have hnext4 : s4.next = s.next := by rw [← hs4]; exact hnext2
  have hat4 : ∀ q, s4.at q = if Below nAbs q then AL.lookup (mvKey nAbs oAbs q) (AL.erase oAbs (AL.insert nAbs oc (AL.erase nAbs s.index)))
      else if Below oAbs q then none else AL.lookup q (AL.erase oAbs (AL.insert nAbs oc (AL.erase nAbs s.index))) := by
    intro q; rw [← hs4]; exact R1 q
  have hnodup4 : (s4.index.map (·.1)).Nodup := by rw [← hs4]; exact R2
  have hnk4 : ∀ j, nkeys s4 j = nkeys s j := by
    intro j; rw [← hs4]; exact (R3 j).trans (cnt3 j)
  clear hs4 R1 R2 R3 hidx3
  -- the index after the rewrite, as a translation of keys
  have ATfw : ∀ q j, s4.at q = some j → ∃ k, s.at k = some j ∧ q = trKey oAbs nAbs k := by
    intro q j hq
    rw [hat4] at hq
    split at hq
    · next hb =>
      have hbk : Below oAbs (mvKey nAbs oAbs q) := below_mvKey hb
      rw [l3] at hq
      split at hq
      · cases hq
      · split at hq
        · next e => exact absurd (e ▸ hbk) hnb
        · exact ⟨_, hq, by rw [trKey_below hbk, mvKey_mvKey hb]⟩
    · split at hq
      · cases hq
      · next hb1 hb2 =>
        rw [l3] at hq
        split at hq
        · cases hq
        · next e1 =>
          split at hq
          · next e2 =>
            cases hq
            exact ⟨oAbs, hoc, by rw [trKey_self, e2]⟩
          · exact ⟨q, hq, (trKey_other (Ne.symm e1) hb2).symm⟩
  have ATbw : ∀ k j, s.at k = some j → s4.at (trKey oAbs nAbs k) = some j := by
    intro k j hk
    by_cases e : k = oAbs
    · subst e
      rw [hoc] at hk; cases hk
      rw [trKey_self, hat4, if_neg (not_below_self _), if_neg hnb, l3, if_neg hne, if_pos rfl]
    · by_cases hb : Below oAbs k
      · have hkn : nAbs ≠ k := by intro e2; rw [← e2, hnone] at hk; cases hk
        rw [trKey_below hb, hat4, if_pos (below_mvKey hb), mvKey_mvKey hb, l3, if_neg (Ne.symm e), if_neg hkn]
        exact hk
      · have hkn : nAbs ≠ k := by intro e2; rw [← e2, hnone] at hk; cases hk
        have hnbk : ¬ Below nAbs k := by
          intro hh; rw [h.no_key_below hnone hh] at hk; cases hk
        rw [trKey_other e hb, hat4, if_neg hnbk, if_neg hb, l3, if_neg (Ne.symm e), if_neg hkn]
        exact hk
  have trE : trKey oAbs nAbs [] = [] := by
    apply trKey_other (Ne.symm hoe)
    intro hb; obtain ⟨r, hr⟩ := below_iff.mp hb; simp at hr
  have trS : trKey oAbs nAbs [SL] = [SL] := by
    apply trKey_other (Ne.symm hos)
    intro hb; obtain ⟨r, hr⟩ := below_iff.mp hb
    have := congrArg List.length hr
    simp at this
    have : oAbs = [] := List.eq_nil_of_length_eq_zero (by omega)
    exact hoe this
  have trND : trKey oAbs nAbs nDir = nDir := by
    apply trKey_other
    · intro e; apply hnb; rw [hpathn]; exact below_of_parent (Or.inl e)
    · intro e; apply hnb; rw [hpathn]; exact below_of_parent (Or.inr e)
  have tr_ne_sl : ∀ d, d ≠ [SL] → trKey oAbs nAbs d ≠ [SL] := by
    intro d hd1
    by_cases e : d = oAbs
    · rw [e, trKey_self]; exact hnS
    · by_cases hb : Below oAbs d
      · rw [trKey_below hb]
        obtain ⟨r, rfl⟩ := below_iff.mp hb
        rw [mvKey_below]
        intro e2
        have := congrArg List.length e2
        simp at this
        exact hnE (List.eq_nil_of_length_eq_zero (by omega))
      · rw [trKey_other e hb]; exact hd1
  have hsome : ∀ j, (s.get j).isSome = true → (s4.get j).isSome = true := by
    intro j hj
    cases hg : s.get j with
    | none => rw [hg] at hj; cases hj
    | some m =>
      obtain ⟨m', hm', _⟩ := H1 j m hg
      rw [hget4, hm']; rfl
  -- a node of the new heap and the node it was
  have hnode : ∀ j m', s4.get j = some m' → ∃ m, s.get j = some m ∧ m'.isDir = m.isDir ∧ m'.nlink = m.nlink ∧
      (j ≠ np → j ≠ op → m' = m) ∧
      (∀ x, AL.lookup x m'.kids =
        if j = op ∧ x = oFile then none else if j = np ∧ x = nFile then some oc else AL.lookup x m.kids) := by
    intro j m' hj
    rw [hget4] at hj
    obtain ⟨m, hm⟩ := H2 j m' hj
    obtain ⟨m'', hm'', a, b, c, d⟩ := H1 j m hm
    rw [hm''] at hj; cases hj
    exact ⟨m, hm, a, b, c, d⟩
  have hnotold : ¬ (np = op ∧ nFile = oFile) := by
    rintro ⟨e1, e2⟩
    subst e1
    have := h.parentKey hnp hop hd hodsl hpn hpd
    apply hne
    rw [hpatho, hpathn, this, e2]
  refine
    { rootE := by have := ATbw _ _ h.rootE; rwa [trE] at this
      rootS := by have := ATbw _ _ h.rootS; rwa [trS] at this
      rootDir := ?_
      rootKeys := ?_
      keysNodup := hnodup4
      up := ?_
      down := ?_
      allocIdx := ?_
      heapLt := ?_
      allocKids := ?_
      dirKey := ?_
      nlinkKeys := ?_
      names := ?_
      fileKids := ?_
      orphanKids := ?_ }
  · -- rootDir
    obtain ⟨r, hr, hrd⟩ := h.rootDir
    obtain ⟨m', hm', hdir, _⟩ := H1 _ r hr
    exact ⟨m', by rw [hget4, hm'], by rw [hdir, hrd]⟩
  · -- rootKeys
    intro q hq
    obtain ⟨k, hk, rfl⟩ := ATfw q _ hq
    rcases h.rootKeys k hk with e | e
    · left; rw [e, trE]
    · right; rw [e, trS]
  · -- up
    intro q j hq hqe hqs
    obtain ⟨k, hk, rfl⟩ := ATfw q j hq
    have hke : k ≠ [] := fun e => hqe (by rw [e, trE])
    have hks : k ≠ [SL] := fun e => hqs (by rw [e, trS])
    obtain ⟨d, name, di, dn, a1, a2, a3, a4, a5, a6⟩ := h.up k j hk hke hks
    obtain ⟨e, hnosl⟩ := splitAbsO_eq a1
    by_cases hko : k = oAbs
    · subst hko
      rw [hoc] at hk; cases hk
      obtain ⟨pn', hpn', hdir, _, _, hlk⟩ := H1 np pn hpn
      refine ⟨nDir, nFile, np, pn', by rw [trKey_self]; exact hsn, hd, ?_, by rw [hget4, hpn'], by rw [hdir, hpd], ?_⟩
      · have := ATbw _ _ hnp; rwa [trND] at this
      · rw [hlk, if_neg (fun hh => hnotold ⟨hh.1, hh.2⟩), if_pos ⟨rfl, rfl⟩]
    · obtain ⟨dn', hdn', hdir, _, _, hlk⟩ := H1 di dn a4
      have hkk : d ++ SL :: name ≠ oAbs := by rw [← e]; exact hko
      refine ⟨trKey oAbs nAbs d, name, di, dn', ?_, tr_ne_sl d a2, ATbw _ _ a3, by rw [hget4, hdn'], by rw [hdir, a5], ?_⟩
      · rw [e, trKey_child hnosl hkk]; exact splitAbsO_mk _ _ hnosl
      · rw [hlk, if_neg, if_neg]
        · exact a6
        · rintro ⟨e1, e2⟩
          subst e1; subst e2
          have := h.parentKey a3 hnp a2 hd a4 a5
          rw [this, ← hpathn] at e
          rw [e, hnone] at hk; cases hk
        · rintro ⟨e1, e2⟩
          subst e1; subst e2
          have := h.parentKey a3 hop a2 hodsl a4 a5
          rw [this, ← hpatho] at e
          exact hko e
  · -- down
    intro d' di dn' name c b1 b2 b3 b4
    obtain ⟨d, hd0, rfl⟩ := ATfw d' di b1
    have hdsl : d ≠ [SL] := fun e => b2 (by rw [e, trS])
    obtain ⟨m, hm, _, _, _, hlk⟩ := hnode di dn' b3
    rw [hlk] at b4
    split at b4
    · cases b4
    · next hnotop =>
      split at b4
      · next hnew =>
        cases b4
        obtain ⟨e1, e2⟩ := hnew
        subst e1; subst e2
        rw [hpn] at hm; cases hm
        have := h.parentKey hd0 hnp hdsl hd hpn hpd
        rw [this, trND, ← hpathn]
        have := ATbw _ _ hoc
        rwa [trKey_self] at this
      · have hold := h.down d di m name c hd0 hdsl hm b4
        have hnosl := (h.names di m name c hm b4).2
        have hkk : d ++ SL :: name ≠ oAbs := by
          intro e
          rw [hpatho] at e
          obtain ⟨e1, e2⟩ := childKey_inj hnosl hnoslo e
          subst e1; subst e2
          rw [hop] at hd0; cases hd0
          exact hnotop ⟨rfl, rfl⟩
        have := ATbw _ _ hold
        rwa [trKey_child hnosl hkk] at this
  · -- allocIdx
    intro q j hq
    obtain ⟨k, hk, _⟩ := ATfw q j hq
    exact hsome j (h.allocIdx k j hk)
  · -- heapLt
    intro j m' hj
    obtain ⟨m, hm, _⟩ := hnode j m' hj
    rw [hnext4]; exact h.heapLt j m hm
  · -- allocKids
    intro j m' name c hj hl
    obtain ⟨m, hm, _, _, _, hlk⟩ := hnode j m' hj
    rw [hlk] at hl
    split at hl
    · cases hl
    · split at hl
      · cases hl; exact hsome _ (h.allocIdx _ _ hoc)
      · exact hsome _ (h.allocKids j m name c hm hl)
  · -- dirKey
    intro p q j m' a1 a2 a3 a4 a5
    obtain ⟨k1, hk1, rfl⟩ := ATfw p j a1
    obtain ⟨k2, hk2, rfl⟩ := ATfw q j a2
    obtain ⟨m, hm, hdir, _⟩ := hnode j m' a3
    rw [h.dirKey k1 k2 j m hk1 hk2 hm (by rw [← hdir]; exact a4) a5]
  · -- nlinkKeys
    intro j m' hj hjr
    obtain ⟨m, hm, _, hnl, _⟩ := hnode j m' hj
    rw [hnl, hnk4]; exact h.nlinkKeys j m hm hjr
  · -- names
    intro j m' name c hj hl
    obtain ⟨m, hm, _, _, _, hlk⟩ := hnode j m' hj
    rw [hlk] at hl
    split at hl
    · cases hl
    · split at hl
      · next hnew => rw [hnew.2]; exact ⟨hname, hnosln⟩
      · exact h.names j m name c hm hl
  · -- fileKids
    intro j m' hj hdf
    obtain ⟨m, hm, hdir, _, hsame, _⟩ := hnode j m' hj
    have h1 : j ≠ np := by intro e; subst e; rw [hpn] at hm; cases hm; rw [hdir, hpd] at hdf; cases hdf
    have h2 : j ≠ op := by intro e; subst e; rw [hpon] at hm; cases hm; rw [hdir, hpod] at hdf; cases hdf
    rw [hsame h1 h2]
    exact h.fileKids j m hm (by rw [← hdir]; exact hdf)
  · -- orphanKids
    intro j m' hj hk0
    rw [hnk4] at hk0
    obtain ⟨m, hm, _, _, hsame, _⟩ := hnode j m' hj
    have h1 : j ≠ np := by intro e; subst e; have := nkeys_pos_of_at hnp; omega
    have h2 : j ≠ op := by intro e; subst e; have := nkeys_pos_of_at hop; omega
    rw [hsame h1 h2]
    exact h.orphanKids j m hm hk0

/-! ### Rename -/

/-- an indexed path whose node is not the node of its parent part (not "/"): the entry in the tree -/
theorem OWF.entry {s : OStore} (h : OWF s) {p d f : Bytes} {c di : Ino} (hsp : splitAbsO p = some (d, f))
    (hc : s.at p = some c) (hd : s.at d = some di) (hne : c ≠ di) :
    d ≠ [SL] ∧ ∃ dn, s.get di = some dn ∧ dn.isDir = true ∧ AL.lookup f dn.kids = some c := by
  have hpe : p ≠ [] := by intro e; rw [e] at hsp; cases hsp
  have hps : p ≠ [SL] := by
    intro e
    rw [e] at hsp hc
    have : d = [] := by
      have := splitAbsO_mk [] [] (by simp)
      simp only [List.nil_append] at this
      rw [this] at hsp; simp at hsp; exact hsp.1
    rw [this, h.rootE] at hd
    rw [h.rootS] at hc
    cases hc; cases hd; exact hne rfl
  obtain ⟨d0, name0, di0, dn, u1, u2, u3, u4, u5, u6⟩ := h.up p c hc hpe hps
  rw [hsp] at u1; cases u1
  rw [hd] at u3; cases u3
  exact ⟨u2, dn, u4, u5, u6⟩

theorem OWF_rename {s : OStore} (h : OWF s) (v : OView) (o n : Bytes) : OWF (rename s v o n).1 := by
  unfold rename
  dsimp only
  split
  · next oDir oFile nDir nFile hso hsn =>
    split
    · next oc op np hoc hop hnp =>
      split
      · exact h
      · next hx1 =>
        split
        · exact h
        · next hx2 =>
          split
          · exact h
          · next hx3 =>
            have hne : absOf v o ≠ absOf v n := by simpa using hx1
            obtain ⟨pn, hpn, hpd⟩ := isDirAt_true (by simpa using hx2)
            have hocp : oc ≠ op := by
              intro e; apply hx3; simp [e]
            obtain ⟨hodsl, pon, hpon, hpod, hlko⟩ := h.entry hso hoc hop hocp
            have hso' := h.allocIdx _ _ hoc
            split
            · next c hnc =>
              split
              · exact h
              · next hx4 =>
                split
                · exact h
                · next hx5 =>
                  have hocd : isDirAt s oc = false := by
                    cases hh : isDirAt s oc with
                    | false => rfl
                    | true => exfalso; apply hx4; simp [hh, hnc]
                  have hcd : isDirAt s c = false := by
                    cases hh : isDirAt s c with
                    | false => rfl
                    | true => exfalso; apply hx4; simp [hh, hocd]
                  have hcoc : c ≠ oc := by
                    intro e; apply hx5; simp [hnc, e]
                  simp only [hocd, Bool.false_eq_true, if_false]
                  cases hon : s.get oc with
                  | none => rw [hon] at hso'; cases hso'
                  | some on =>
                  have hsc := h.allocIdx _ _ hnc
                  cases hcn : s.get c with
                  | none => rw [hcn] at hsc; cases hsc
                  | some cn =>
                  have hof : on.isDir = false := isDirAt_false_of_some hon hocd
                  have hcf : cn.isDir = false := isDirAt_false_of_some hcn hcd
                  have hcnp : c ≠ np := by
                    intro e; subst e; rw [hpn] at hcn; cases hcn; rw [hpd] at hcf; cases hcf
                  have hcop : c ≠ op := by
                    intro e; subst e; rw [hpon] at hcn; cases hcn; rw [hpod] at hcf; cases hcf
                  obtain ⟨hd, pn2, hpn2, _, hlkn⟩ := h.entry hsn hnc hnp hcnp
                  rw [hpn] at hpn2; cases hpn2
                  have hname : nFile ≠ [] := (h.names np pn nFile c hpn hlkn).1
                  have hkids : cn.kids = [] := kids_of_children_none (h.fileKids c cn hcn hcf)
                  have hA := unlink_OWF h hsn hnc hnp hcnp hcn hkids
                  have hodn : oDir ≠ absOf v n := by
                    intro e; rw [e, hnc] at hop; exact hcop (Option.some.inj hop)
                  rw [removeNode_eq hcn]
                  refine rename_file_core (s0 := s.set c { cn with children := none, nlink := cn.nlink - 1 }) hA
                    (pn := pn) (on := on) (pon := pon) ?_ ?_ ?_ ?_ hpd ?_ hof ?_ hso hsn hne hoc hop hnp hocp hodn hd hname
                  · rw [unlink_index]; rfl
                  · rw [unlink_next]; rfl
                  · intro j
                    rw [unlink_get nFile (absOf v n) hcn hpn hcnp j, get_set]
                  · rw [get_set_ne _ _ hcnp, hpn]
                  · rw [get_set_ne _ _ hcoc, hon]
                  · rw [get_set_ne _ _ hcop, hpon]
            · next hnc =>
              split
              · exact h
              · next hx4 =>
                split
                · exact h
                · next hx5 =>
                  obtain ⟨hd, hname⟩ := h.newName v n hsn hnc
                  cases hocd : isDirAt s oc with
                  | true =>
                    have hnb : ¬ Below (absOf v o) (absOf v n) := by
                      intro hb; apply hx3; simp [hocd]; right
                      exact List.isPrefixOf_iff_prefix.mp hb
                    simp only [if_true]
                    exact rename_free_OWF h hso hsn hoc hop hnp hnc hpn hpd hocp hnb hd hname
                  | false =>
                    simp only [Bool.false_eq_true, if_false]
                    cases hon : s.get oc with
                    | none => rw [hon] at hso'; cases hso'
                    | some on =>
                    have hof : on.isDir = false := isDirAt_false_of_some hon hocd
                    have hodn : oDir ≠ absOf v n := by
                      intro e; rw [e, hnc] at hop; cases hop
                    have hlk : AL.lookup nFile pn.kids = none := by
                      cases hl : AL.lookup nFile pn.kids with
                      | none => rfl
                      | some x =>
                        have := h.down nDir np pn nFile x hnp hd hpn hl
                        rw [← (splitAbsO_eq hsn).1, hnc] at this; cases this
                    refine rename_file_core (s0 := s) h (pn := pn) (on := on) (pon := pon)
                      (erase_of_lookup_none hnc).symm rfl ?_ hpn hpd hon hof hpon hso hsn hne hoc hop hnp hocp hodn hd hname
                    intro j
                    by_cases e : np = j
                    · subst e
                      rw [if_pos rfl, map_erase_of_lookup_none hlk, node_eta pn, hpn]
                    · rw [if_neg e]
    · exact h
  · exact h

/-! ### RemoveAll: names of a directory, paths at or below a path -/

theorem insertSorted_perm (x : Bytes) (l : List Bytes) : (insertSorted x l).Perm (x :: l) := by
  induction l with
  | nil => exact List.Perm.refl _
  | cons y ys ih =>
    unfold insertSorted
    split
    · exact List.Perm.refl _
    · exact ((List.Perm.cons y ih).trans (List.Perm.swap x y ys))

theorem sortBytes_perm (l : List Bytes) : (sortBytes l).Perm l := by
  induction l with
  | nil => exact List.Perm.refl _
  | cons x xs ih =>
    have : sortBytes (x :: xs) = insertSorted x (sortBytes xs) := rfl
    rw [this]
    exact (insertSorted_perm x _).trans (List.Perm.cons x ih)

theorem mem_names {n : ONode} {nm : Bytes} : nm ∈ n.names ↔ (AL.lookup nm n.kids).isSome = true := by
  unfold ONode.names
  rw [(sortBytes_perm _).mem_iff]
  exact hr_mem_alKeys nm n.kids

theorem nodup_names (n : ONode) : n.names.Nodup := by
  unfold ONode.names
  exact (sortBytes_perm _).nodup_iff.mpr (hr_nodup_alKeys _)

/-- `q` is `Q` or a path below `Q` -/
def Under (Q q : Bytes) : Prop := q = Q ∨ Below Q q

instance (Q q : Bytes) : Decidable (Under Q q) := by unfold Under; infer_instance

theorem under_iff {Q q : Bytes} : Under Q q ↔ ∃ x, q = Q ++ x ∧ (x = [] ∨ ∃ r, x = SL :: r) := by
  constructor
  · rintro (rfl | hb)
    · exact ⟨[], by simp, Or.inl rfl⟩
    · obtain ⟨r, rfl⟩ := below_iff.mp hb
      exact ⟨SL :: r, rfl, Or.inr ⟨r, rfl⟩⟩
  · rintro ⟨x, rfl, (rfl | ⟨r, rfl⟩)⟩
    · left; simp
    · right; exact below_iff.mpr ⟨r, rfl⟩

theorem under_child_below {Q nm q : Bytes} (h : Under (Q ++ SL :: nm) q) : Below Q q := by
  rcases h with rfl | hb
  · exact below_iff.mpr ⟨nm, rfl⟩
  · obtain ⟨r, rfl⟩ := below_iff.mp hb
    exact below_iff.mpr ⟨nm ++ SL :: r, by simp⟩

theorem nosl_prefix_eq {a b x y : Bytes} (ha : SL ∉ a) (hb : SL ∉ b)
    (hx : x = [] ∨ ∃ r, x = SL :: r) (hy : y = [] ∨ ∃ r, y = SL :: r) (e : a ++ x = b ++ y) : a = b := by
  induction a generalizing b with
  | nil =>
    cases b with
    | nil => rfl
    | cons c b' =>
      exfalso
      simp only [List.nil_append, List.cons_append] at e
      rcases hx with rfl | ⟨r, rfl⟩
      · cases e
      · simp only [List.cons.injEq] at e
        apply hb; rw [← e.1]; simp
  | cons c a' ih =>
    cases b with
    | nil =>
      exfalso
      simp only [List.nil_append, List.cons_append] at e
      rcases hy with rfl | ⟨r, rfl⟩
      · cases e
      · simp only [List.cons.injEq] at e
        apply ha; rw [e.1]; simp
    | cons c' b' =>
      simp only [List.cons_append, List.cons.injEq] at e
      rw [e.1, ih (fun hm => ha (by simp [hm])) (fun hm => hb (by simp [hm])) e.2]

/-- the subtrees of two different children are disjoint -/
theorem under_children_disjoint {Q nm nm' q : Bytes} (h1 : SL ∉ nm) (h2 : SL ∉ nm')
    (u1 : Under (Q ++ SL :: nm) q) (u2 : Under (Q ++ SL :: nm') q) : nm = nm' := by
  obtain ⟨x, e1, hx⟩ := under_iff.mp u1
  obtain ⟨y, e2, hy⟩ := under_iff.mp u2
  rw [e1] at e2
  have : nm ++ x = nm' ++ y := by
    have : Q ++ (SL :: (nm ++ x)) = Q ++ (SL :: (nm' ++ y)) := by simpa using e2
    exact (List.cons.inj (List.append_cancel_left this)).2
  exact nosl_prefix_eq h1 h2 hx hy this

theorem not_under_of_shorter {Q q : Bytes} (h : q.length < Q.length) : ¬ Under Q q := by
  rintro (rfl | hb)
  · exact Nat.lt_irrefl _ h
  · obtain ⟨r, rfl⟩ := below_iff.mp hb
    simp at h; omega

/-- a key below an indexed path: the path is a directory and the key is at or below one of its children -/
theorem OWF.child_of_below {s : OStore} (h : OWF s) {Q : Bytes} {c : Ino} (hQ : s.at Q = some c) (hQe : Q ≠ []) :
    ∀ (m : Nat) (q : Bytes) (j : Ino), q.length ≤ m → s.at q = some j → Below Q q →
      ∃ n nm ch, s.get c = some n ∧ n.isDir = true ∧ AL.lookup nm n.kids = some ch ∧ Under (Q ++ SL :: nm) q := by
  intro m
  induction m with
  | zero =>
    intro q j hl _ hb
    obtain ⟨r, rfl⟩ := below_iff.mp hb
    simp at hl
  | succ m ih =>
    intro q j hl hq hb
    have hqe : q ≠ [] := by
      intro e; obtain ⟨r, hr⟩ := below_iff.mp hb; rw [e] at hr; simp at hr
    by_cases hqs : q = [SL]
    · -- "/" is only below the key ""
      exfalso
      obtain ⟨r, hr⟩ := below_iff.mp hb
      rw [hqs] at hr
      have := congrArg List.length hr; simp at this
      exact hQe (List.eq_nil_of_length_eq_zero (by omega))
    · obtain ⟨d, name, di, dn, a1, a2, a3, a4, a5, a6⟩ := h.up q j hq hqe hqs
      obtain ⟨e, hnosl⟩ := splitAbsO_eq a1
      rw [e] at hb
      rcases below_child hnosl hb with e1 | hd
      · subst e1
        rw [hQ] at a3; cases a3
        exact ⟨dn, name, j, a4, a5, a6, Or.inl e⟩
      · have hdl : d.length ≤ m := by
          have := congrArg List.length e; simp at this; omega
        obtain ⟨n, nm, ch, b1, b2, b3, b4⟩ := ih d di hdl a3 hd
        refine ⟨n, nm, ch, b1, b2, b3, Or.inr ?_⟩
        rw [e]
        exact below_of_parent b4

/-! ### RemoveAll: the states inside the recursion -/

/-- `a` is the well-formed state `s` from which some keys have been released: every released key took one link from
    its node and emptied its children map; the nodes that kept all their keys are unchanged -/
structure Rem (s a : OStore) : Prop where
  next : a.next = s.next
  sub : ∀ q j, a.at q = some j → s.at q = some j
  nodup : (a.index.map (·.1)).Nodup
  node : ∀ j m, s.get j = some m →
    ∃ m', a.get j = some m' ∧ m'.isDir = m.isDir ∧ (m'.children = m.children ∨ m'.children = none)
  back : ∀ j m', a.get j = some m' → ∃ m, s.get j = some m
  nlink : ∀ j m', a.get j = some m' → j ≠ rootIno → m'.nlink = (nkeys a j : Int)
  same : ∀ j, (∀ q, s.at q = some j → a.at q = some j) → a.get j = s.get j
  gone : ∀ j m' q, a.get j = some m' → s.at q = some j → a.at q = none → m'.children = none

theorem Rem.refl {s : OStore} (h : OWF s) : Rem s s :=
  { next := rfl
    sub := fun _ _ hq => hq
    nodup := h.keysNodup
    node := fun j m hm => ⟨m, hm, rfl, Or.inl rfl⟩
    back := fun j m hm => ⟨m, hm⟩
    nlink := h.nlinkKeys
    same := fun _ _ => rfl
    gone := fun j m' q _ h1 h2 => by rw [h1] at h2; cases h2 }

/-- node.remove() and delete(nodes, path) on a key that is still there -/
theorem Rem.release {s a : OStore} (r : Rem s a) {Q : Bytes} {c : Ino} {m' : ONode} (hs : s.at Q = some c)
    (ha : a.at Q = some c) (hg : a.get c = some m') :
    Rem s ((removeNode a c).unbind Q) ∧ ∀ q, ((removeNode a c).unbind Q).at q = if Q = q then none else a.at q := by
  rw [removeNode_eq hg]
  have hat : ∀ q, ((a.set c { m' with children := none, nlink := m'.nlink - 1 }).unbind Q).at q =
      if Q = q then none else a.at q := by
    intro q; rw [at_unbind]; rfl
  have hget : ∀ j, ((a.set c { m' with children := none, nlink := m'.nlink - 1 }).unbind Q).get j =
      if c = j then some { m' with children := none, nlink := m'.nlink - 1 } else a.get j := by
    intro j; rw [get_unbind, get_set]
  have hnk : ∀ j, nkeys ((a.set c { m' with children := none, nlink := m'.nlink - 1 }).unbind Q) j
      + (if c = j then 1 else 0) = nkeys a j := by
    intro j
    exact nkeys_unbind (s := a.set c _) j r.nodup ha
  have hnd : (((a.set c { m' with children := none, nlink := m'.nlink - 1 }).unbind Q).index.map (·.1)).Nodup :=
    nodup_unbind (s := a.set c _) Q r.nodup
  have hnx : ((a.set c { m' with children := none, nlink := m'.nlink - 1 }).unbind Q).next = s.next := r.next
  refine ⟨?_, hat⟩
  generalize (a.set c { m' with children := none, nlink := m'.nlink - 1 }).unbind Q = a' at *
  have hsub : ∀ q j, a'.at q = some j → a.at q = some j ∧ Q ≠ q := by
    intro q j hq
    rw [hat] at hq
    split at hq
    · cases hq
    · next e => exact ⟨hq, e⟩
  refine
    { next := hnx
      sub := fun q j hq => r.sub q j (hsub q j hq).1
      nodup := hnd
      node := ?_
      back := ?_
      nlink := ?_
      same := ?_
      gone := ?_ }
  · intro j m hm
    obtain ⟨m1, h1, h2, h3⟩ := r.node j m hm
    by_cases e : c = j
    · subst e
      rw [hg] at h1; cases h1
      exact ⟨{ m' with children := none, nlink := m'.nlink - 1 }, by rw [hget, if_pos rfl], h2, Or.inr rfl⟩
    · exact ⟨m1, by rw [hget, if_neg e]; exact h1, h2, h3⟩
  · intro j m1 hj
    rw [hget] at hj
    split at hj
    · next e => subst e; exact r.back _ m' hg
    · exact r.back j m1 hj
  · intro j m1 hj hjr
    have hk := hnk j
    rw [hget] at hj
    split at hj
    · next e =>
      subst e; cases hj
      rw [if_pos rfl] at hk
      show m'.nlink - 1 = _
      rw [r.nlink _ m' hg hjr, ← hk]; simp
    · next e =>
      rw [if_neg e] at hk
      simp only [Nat.add_zero] at hk
      rw [hk]; exact r.nlink j m1 hj hjr
  · intro j hall
    have hjc : c ≠ j := by
      intro e; subst e
      have := hall Q hs
      rw [hat, if_pos rfl] at this; cases this
    rw [hget, if_neg hjc]
    exact r.same j (fun q hq => (hsub q j (hall q hq)).1)
  · intro j m1 q hj hq hnone
    rw [hget] at hj
    split at hj
    · cases hj; rfl
    · next e =>
      have hqQ : Q ≠ q := by
        intro e2; subst e2; rw [hs] at hq; exact e (Option.some.inj hq)
      rw [hat, if_neg hqQ] at hnone
      exact r.gone j m1 q hj hq hnone

/-- the loop of removeAll over the names of a directory -/
def removeAllStep (fuel : Nat) (Q : Bytes) (n : ONode) (acc : Option OStore) (nm : Bytes) : Option OStore :=
  match acc, AL.lookup nm n.kids with
  | some a, some c => removeAllRec fuel a (Q ++ [SL] ++ nm) c
  | acc, _ => acc

theorem removeAllStep_none (fuel : Nat) (Q : Bytes) (n : ONode) (nms : List Bytes) :
    nms.foldl (removeAllStep fuel Q n) none = none := by
  induction nms with
  | nil => rfl
  | cons nm rest ih =>
    simp only [List.foldl_cons]
    have : removeAllStep fuel Q n none nm = none := by
      unfold removeAllStep; split <;> simp_all
    rw [this, ih]

theorem removeAllRec_succ (fuel : Nat) (s : OStore) (Q : Bytes) (i : Ino) :
    removeAllRec (fuel + 1) s Q i =
      (match s.get i with
        | some n => if n.isDir then n.names.foldl (removeAllStep fuel Q n) (some s) else some s
        | none => some s).map fun s1 => (removeNode s1 i).unbind Q := rfl

theorem child_path (Q nm : Bytes) : Q ++ [SL] ++ nm = Q ++ SL :: nm := by simp

theorem removeAllRec_spec {s : OStore} (h : OWF s) : ∀ (fuel : Nat) (a : OStore) (Q : Bytes) (c : Ino) (a' : OStore),
    Rem s a → s.at Q = some c → (∀ q, Under Q q → a.at q = s.at q) → Q ≠ [] → Q ≠ [SL] →
    removeAllRec fuel a Q c = some a' →
    Rem s a' ∧ ∀ q, a'.at q = if Under Q q then none else a.at q := by
  intro fuel
  induction fuel with
  | zero => intro a Q c a' _ _ _ _ _ hrec; simp [removeAllRec] at hrec
  | succ fuel ih =>
    intro a Q c a' r hs hkeep hQe hQs hrec
    rw [removeAllRec_succ] at hrec
    have hcr : c ≠ rootIno := by
      intro e; subst e
      rcases h.rootKeys Q hs with e | e
      · exact hQe e
      · exact hQs e
    have haQ : a.at Q = some c := by rw [hkeep Q (Or.inl rfl), hs]
    have hsc := h.allocIdx Q c hs
    cases hn : s.get c with
    | none => rw [hn] at hsc; cases hsc
    | some n =>
    -- nothing is indexed below a file
    have hbelow_file : n.isDir = false → ∀ q, Below Q q → s.at q = none := by
      intro hf q hb
      cases hq : s.at q with
      | none => rfl
      | some j =>
        obtain ⟨n', _, _, b1, b2, _⟩ := h.child_of_below hs hQe q.length q j (Nat.le_refl _) hq hb
        rw [hn] at b1; cases b1; rw [hf] at b2; cases b2
    cases hd : n.isDir with
    | false =>
      obtain ⟨m', hm', hdir, _⟩ := r.node c n hn
      rw [hm'] at hrec
      have : m'.isDir = false := by rw [hdir, hd]
      simp only [this, Bool.false_eq_true, if_false, Option.map_some, Option.some.injEq] at hrec
      subst hrec
      obtain ⟨r', hat'⟩ := r.release hs haQ hm'
      refine ⟨r', ?_⟩
      intro q
      rw [hat']
      by_cases e : Q = q
      · subst e; simp [Under]
      · rw [if_neg e]
        by_cases hb : Below Q q
        · have hu : Under Q q := Or.inr hb
          rw [if_pos hu, hkeep q hu, hbelow_file hd q hb]
        · rw [if_neg]
          rintro (e2 | hb2)
          · exact e e2.symm
          · exact hb hb2
    | true =>
      -- the directory has not been touched: its only key is still there
      have hac : a.get c = some n := by
        rw [r.same c, hn]
        intro q hq
        have := h.dirKey q Q c n hq hs hn hd hcr
        rw [this]; exact haQ
      rw [hac] at hrec
      simp only [hd, if_true] at hrec
      -- the loop over the names
      have hfold : ∀ (nms : List Bytes) (a0 a1 : OStore), nms.Nodup → (∀ nm ∈ nms, (AL.lookup nm n.kids).isSome = true) →
          Rem s a0 → (∀ nm ∈ nms, ∀ q, Under (Q ++ SL :: nm) q → a0.at q = s.at q) →
          nms.foldl (removeAllStep fuel Q n) (some a0) = some a1 →
          Rem s a1 ∧ ∀ q, a1.at q = if (∃ nm ∈ nms, Under (Q ++ SL :: nm) q) then none else a0.at q := by
        intro nms
        induction nms with
        | nil =>
          intro a0 a1 _ _ r0 _ hf
          simp only [List.foldl_nil, Option.some.injEq] at hf
          subst hf
          exact ⟨r0, fun q => by simp⟩
        | cons nm rest ihl =>
          intro a0 a1 hnd hlk r0 hkeep0 hf
          rw [List.nodup_cons] at hnd
          simp only [List.foldl_cons] at hf
          have hsome := hlk nm (by simp)
          cases hl : AL.lookup nm n.kids with
          | none => rw [hl] at hsome; cases hsome
          | some ch =>
            have hstep : removeAllStep fuel Q n (some a0) nm = removeAllRec fuel a0 (Q ++ SL :: nm) ch := by
              simp [removeAllStep, hl]
            rw [hstep] at hf
            cases hr0 : removeAllRec fuel a0 (Q ++ SL :: nm) ch with
            | none => rw [hr0, removeAllStep_none] at hf; cases hf
            | some a0' =>
              rw [hr0] at hf
              have hchild : s.at (Q ++ SL :: nm) = some ch := h.down Q c n nm ch hs hQs hn hl
              have hne1 : Q ++ SL :: nm ≠ [] := by simp
              have hne2 : Q ++ SL :: nm ≠ [SL] := by
                intro e
                have := congrArg List.length e; simp at this
                exact hQe (List.eq_nil_of_length_eq_zero (by omega))
              obtain ⟨r0', hat0'⟩ := ih a0 (Q ++ SL :: nm) ch a0' r0 hchild (hkeep0 nm (by simp)) hne1 hne2 hr0
              have hnosl : SL ∉ nm := (h.names c n nm ch hn hl).2
              have hkeep' : ∀ nm' ∈ rest, ∀ q, Under (Q ++ SL :: nm') q → a0'.at q = s.at q := by
                intro nm' hm q hu
                rw [hat0', if_neg]
                · exact hkeep0 nm' (by simp [hm]) q hu
                · intro hu1
                  have hs' := hlk nm' (by simp [hm])
                  cases hl' : AL.lookup nm' n.kids with
                  | none => rw [hl'] at hs'; cases hs'
                  | some ch' =>
                    have hnosl' : SL ∉ nm' := (h.names c n nm' ch' hn hl').2
                    have := under_children_disjoint hnosl hnosl' hu1 hu
                    exact hnd.1 (this ▸ hm)
              obtain ⟨r1, hat1⟩ := ihl a0' a1 hnd.2 (fun x hx => hlk x (by simp [hx])) r0' hkeep' hf
              refine ⟨r1, ?_⟩
              intro q
              rw [hat1, hat0']
              by_cases h1 : ∃ nm' ∈ rest, Under (Q ++ SL :: nm') q
              · obtain ⟨nm', hm, hu⟩ := h1
                rw [if_pos ⟨nm', hm, hu⟩, if_pos ⟨nm', by simp [hm], hu⟩]
              · rw [if_neg h1]
                by_cases h2 : Under (Q ++ SL :: nm) q
                · rw [if_pos h2, if_pos ⟨nm, by simp, h2⟩]
                · rw [if_neg h2, if_neg]
                  rintro ⟨x, hx, hu⟩
                  simp only [List.mem_cons] at hx
                  rcases hx with rfl | hx
                  · exact h2 hu
                  · exact h1 ⟨x, hx, hu⟩
      cases hf : n.names.foldl (removeAllStep fuel Q n) (some a) with
      | none => rw [hf] at hrec; cases hrec
      | some a1 =>
        rw [hf] at hrec
        simp only [Option.map_some, Option.some.injEq] at hrec
        subst hrec
        obtain ⟨r1, hat1⟩ := hfold n.names a a1 (nodup_names n) (fun nm hm => mem_names.mp hm) r
          (fun nm _ q hu => hkeep q (Or.inr (under_child_below hu))) hf
        have hnotQ : ¬ ∃ nm ∈ n.names, Under (Q ++ SL :: nm) Q := by
          rintro ⟨nm, _, hu⟩
          exact not_under_of_shorter (by simp) hu
        have ha1Q : a1.at Q = some c := by rw [hat1, if_neg hnotQ, haQ]
        have ha1c : a1.get c = some n := by
          rw [r1.same c, hn]
          intro q hq
          have := h.dirKey q Q c n hq hs hn hd hcr
          rw [this]; exact ha1Q
        obtain ⟨r', hat'⟩ := r1.release hs ha1Q ha1c
        refine ⟨r', ?_⟩
        intro q
        rw [hat']
        by_cases e : Q = q
        · subst e; simp [Under]
        · rw [if_neg e, hat1]
          by_cases hb : Below Q q
          · have hu : Under Q q := Or.inr hb
            rw [if_pos hu]
            split
            · rfl
            · next hno =>
              rw [hkeep q hu]
              cases hq : s.at q with
              | none => rfl
              | some j =>
                exfalso
                obtain ⟨n', nm, ch, b1, _, b3, b4⟩ := h.child_of_below hs hQe q.length q j (Nat.le_refl _) hq hb
                rw [hn] at b1; cases b1
                exact hno ⟨nm, mem_names.mpr (by rw [b3]; rfl), b4⟩
          · have hnu : ¬ Under Q q := by
              rintro (e2 | hb2)
              · exact e e2.symm
              · exact hb hb2
            rw [if_neg hnu, if_neg]
            rintro ⟨nm, _, hu⟩
            exact hb (under_child_below hu)

/-! ### RemoveAll -/

theorem OWF.entry_path {s : OStore} (h : OWF s) {p d f : Bytes} {c di : Ino} (hsp : splitAbsO p = some (d, f))
    (hc : s.at p = some c) (hd : s.at d = some di) (hne : c ≠ di) : p ≠ [] ∧ p ≠ [SL] := by
  refine ⟨(by intro e; rw [e] at hsp; cases hsp), ?_⟩
  intro e
  rw [e] at hsp hc
  have : d = [] := by
    have := splitAbsO_mk [] [] (by simp)
    simp only [List.nil_append] at this
    rw [this] at hsp; simp at hsp; exact hsp.1
  rw [this, h.rootE] at hd
  rw [h.rootS] at hc
  cases hc; cases hd; exact hne rfl

/-- the state after the subtree has been released: the entry is deleted from the parent -/
theorem removeAll_final {s a' : OStore} (h : OWF s) {absPath dirName fileName : Bytes} {c p : Ino}
    (hsp : splitAbsO absPath = some (dirName, fileName)) (hc : s.at absPath = some c) (hp : s.at dirName = some p)
    (hcp : c ≠ p) (r : Rem s a') (hat : ∀ q, a'.at q = if Under absPath q then none else s.at q) :
    OWF (delChild a' p fileName) := by
  obtain ⟨hpath, hnosl⟩ := splitAbsO_eq hsp
  obtain ⟨hdsl, pon, hpon, hpod, hlkc⟩ := h.entry hsp hc hp hcp
  obtain ⟨hae, has⟩ := h.entry_path hsp hc hp hcp
  have nuE : ¬ Under absPath [] := by
    apply not_under_of_shorter
    cases absPath with
    | nil => exact absurd rfl hae
    | cons x xs => simp
  have nuS : ¬ Under absPath [SL] := by
    rintro (e | hb)
    · exact has e.symm
    · obtain ⟨x, hx⟩ := below_iff.mp hb
      have := congrArg List.length hx; simp at this
      exact hae (List.eq_nil_of_length_eq_zero (by omega))
  have nuD : ¬ Under absPath dirName := by
    apply not_under_of_shorter
    rw [hpath]; simp
  have hkeep : ∀ q j, s.at q = some j → ¬ Under absPath q → a'.at q = some j := by
    intro q j hq hnu; rw [hat, if_neg hnu]; exact hq
  have hfrom : ∀ q j, a'.at q = some j → s.at q = some j ∧ ¬ Under absPath q := by
    intro q j hq
    rw [hat] at hq
    split at hq
    · cases hq
    · next hnu => exact ⟨hq, hnu⟩
  -- a directory with a key outside the subtree is unchanged
  have hdirsame : ∀ d0 di dn, s.at d0 = some di → d0 ≠ [SL] → ¬ Under absPath d0 → s.get di = some dn →
      dn.isDir = true → a'.get di = some dn := by
    intro d0 di dn h1 h2 h3 h4 h5
    rw [r.same di, h4]
    intro q hq
    apply hkeep q di hq
    by_cases hr : di = rootIno
    · subst hr
      rcases h.rootKeys q hq with e | e
      · rw [e]; exact nuE
      · rw [e]; exact nuS
    · rw [h.dirKey q d0 di dn hq h1 h4 h5 hr]; exact h3
  have hap : a'.get p = some pon := hdirsame dirName p pon hp hdsl nuD hpon hpod
  rw [delChild_eq fileName hap]
  have hfat : ∀ q, (a'.set p { pon with children := pon.children.map (AL.erase fileName) }).at q = a'.at q :=
    fun q => rfl
  have hfget : ∀ j, (a'.set p { pon with children := pon.children.map (AL.erase fileName) }).get j =
      if p = j then some { pon with children := pon.children.map (AL.erase fileName) } else a'.get j :=
    fun j => get_set _ _ _ _
  have hfnk : ∀ j, nkeys (a'.set p { pon with children := pon.children.map (AL.erase fileName) }) j = nkeys a' j :=
    fun j => rfl
  have hfidx : (a'.set p { pon with children := pon.children.map (AL.erase fileName) }).index = a'.index := rfl
  have hfnext : (a'.set p { pon with children := pon.children.map (AL.erase fileName) }).next = a'.next := rfl
  generalize a'.set p { pon with children := pon.children.map (AL.erase fileName) } = t at *
  have hnode : ∀ j m', t.get j = some m' → ∃ m, s.get j = some m ∧ m'.isDir = m.isDir ∧
      (∀ x y, AL.lookup x m'.kids = some y → AL.lookup x m.kids = some y) ∧ (m.children = none → m'.children = none) := by
    intro j m' hj
    rw [hfget] at hj
    split at hj
    · next e =>
      subst e; cases hj
      refine ⟨pon, hpon, rfl, ?_, ?_⟩
      · intro x y hxy
        rw [kids_map_erase, AL.lookup_erase] at hxy
        split at hxy
        · cases hxy
        · exact hxy
      · intro hnone; show pon.children.map _ = none; rw [hnone]; rfl
    · obtain ⟨m, hm⟩ := r.back j m' hj
      obtain ⟨m'', h1, h2, h3⟩ := r.node j m hm
      rw [hj] at h1; cases h1
      refine ⟨m, hm, h2, ?_, ?_⟩
      · intro x y hxy
        rcases h3 with e | e
        · have : m'.kids = m.kids := by simp [ONode.kids, e]
          rw [← this]; exact hxy
        · rw [kids_of_children_none e] at hxy; simp at hxy
      · intro hnone
        rcases h3 with e | e
        · rw [e, hnone]
        · exact e
  have hsomeF : ∀ j, (s.get j).isSome = true → (t.get j).isSome = true := by
    intro j hj
    rw [hfget]
    split
    · rfl
    · cases hm : s.get j with
      | none => rw [hm] at hj; cases hj
      | some m =>
        obtain ⟨m', h1, _⟩ := r.node j m hm
        rw [h1]; rfl
  refine
    { rootE := by rw [hfat]; exact hkeep _ _ h.rootE nuE
      rootS := by rw [hfat]; exact hkeep _ _ h.rootS nuS
      rootDir := ?_
      rootKeys := fun q hq => h.rootKeys q (hfrom q _ (by rw [← hfat]; exact hq)).1
      keysNodup := by rw [hfidx]; exact r.nodup
      up := ?_
      down := ?_
      allocIdx := ?_
      heapLt := ?_
      allocKids := ?_
      dirKey := ?_
      nlinkKeys := ?_
      names := ?_
      fileKids := ?_
      orphanKids := ?_ }
  · -- rootDir
    obtain ⟨r0, hr0, hrd⟩ := h.rootDir
    by_cases e : p = rootIno
    · subst e
      rw [hpon] at hr0; cases hr0
      exact ⟨{ pon with children := pon.children.map (AL.erase fileName) }, by rw [hfget, if_pos rfl], hpod⟩
    · obtain ⟨m', h1, h2, _⟩ := r.node _ r0 hr0
      exact ⟨m', by rw [hfget, if_neg e, h1], by rw [h2, hrd]⟩
  · -- up
    intro q j hq hqe hqs
    rw [hfat] at hq
    obtain ⟨hq0, hnu⟩ := hfrom q j hq
    obtain ⟨d, name, di, dn, a1, a2, a3, a4, a5, a6⟩ := h.up q j hq0 hqe hqs
    obtain ⟨e, hnosl1⟩ := splitAbsO_eq a1
    have hnud : ¬ Under absPath d := by
      intro hu
      apply hnu
      rw [e]
      exact Or.inr (below_of_parent hu)
    have hadi : a'.get di = some dn := hdirsame d di dn a3 a2 hnud a4 a5
    by_cases ep : p = di
    · subst ep
      rw [hpon] at a4; cases a4
      refine ⟨d, name, p, { pon with children := pon.children.map (AL.erase fileName) }, a1, a2,
        by rw [hfat]; exact hkeep _ _ a3 hnud, by rw [hfget, if_pos rfl], hpod, ?_⟩
      rw [kids_map_erase, AL.lookup_erase, if_neg]
      · exact a6
      · intro en; subst en
        have := h.parentKey a3 hp a2 hdsl hpon hpod
        apply hnu
        left
        rw [e, hpath, this]
    · exact ⟨d, name, di, dn, a1, a2, by rw [hfat]; exact hkeep _ _ a3 hnud, by rw [hfget, if_neg ep, hadi], a5, a6⟩
  · -- down
    intro d di dn' name c1 b1 b2 b3 b4
    rw [hfat] at b1 ⊢
    obtain ⟨hd0, hnud⟩ := hfrom d di b1
    obtain ⟨m, hm, _, hlk, _⟩ := hnode di dn' b3
    have hl0 := hlk name c1 b4
    have hold := h.down d di m name c1 hd0 b2 hm hl0
    have hnosl1 := (h.names di m name c1 hm hl0).2
    apply hkeep _ _ hold
    rintro (e | hb)
    · rw [hpath] at e
      obtain ⟨e1, e2⟩ := childKey_inj hnosl1 hnosl e
      subst e1; subst e2
      rw [hp] at hd0; cases hd0
      rw [hfget, if_pos rfl] at b3; cases b3
      rw [kids_map_erase, AL.lookup_erase_eq] at b4; cases b4
    · exact hnud (below_child hnosl1 hb)
  · -- allocIdx
    intro q j hq
    rw [hfat] at hq
    exact hsomeF j (h.allocIdx q j (hfrom q j hq).1)
  · -- heapLt
    intro j m' hj
    obtain ⟨m, hm, _⟩ := hnode j m' hj
    rw [hfnext, r.next]; exact h.heapLt j m hm
  · -- allocKids
    intro j m' name c1 hj hl
    obtain ⟨m, hm, _, hlk, _⟩ := hnode j m' hj
    exact hsomeF c1 (h.allocKids j m name c1 hm (hlk _ _ hl))
  · -- dirKey
    intro p1 q1 j m' a1 a2 a3 a4 a5
    rw [hfat] at a1 a2
    obtain ⟨m, hm, hdir, _⟩ := hnode j m' a3
    exact h.dirKey p1 q1 j m (hfrom _ _ a1).1 (hfrom _ _ a2).1 hm (by rw [← hdir]; exact a4) a5
  · -- nlinkKeys
    intro j m' hj hjr
    rw [hfnk]
    rw [hfget] at hj
    split at hj
    · next e => subst e; cases hj; exact r.nlink p pon hap hjr
    · exact r.nlink j m' hj hjr
  · -- names
    intro j m' name c1 hj hl
    obtain ⟨m, hm, _, hlk, _⟩ := hnode j m' hj
    exact h.names j m name c1 hm (hlk _ _ hl)
  · -- fileKids
    intro j m' hj hdf
    obtain ⟨m, hm, hdir, _, hnone⟩ := hnode j m' hj
    exact hnone (h.fileKids j m hm (by rw [← hdir]; exact hdf))
  · -- orphanKids
    intro j m' hj hk0
    rw [hfnk] at hk0
    rw [hfget] at hj
    split at hj
    · next e =>
      subst e
      have := nkeys_pos_of_at (hkeep _ _ hp nuD)
      omega
    · rcases Nat.eq_zero_or_pos (nkeys s j) with hz | hpos
      · have hsame : a'.get j = s.get j := by
          apply r.same
          intro q hq
          have := nkeys_pos_of_at hq
          omega
        rw [hsame] at hj
        exact h.orphanKids j m' hj hz
      · obtain ⟨q, hq⟩ := exists_at_of_nkeys_pos h.keysNodup hpos
        have hnone : a'.at q = none := by
          cases hh : a'.at q with
          | none => rfl
          | some j' =>
            have := r.sub q j' hh
            rw [hq] at this; cases this
            have := nkeys_pos_of_at hh
            omega
        exact r.gone j m' q hj hq hnone

theorem OWF_removeAll {s : OStore} (h : OWF s) (v : OView) (path : Bytes) : OWF (removeAll s v path).1 := by
  unfold removeAll
  split
  · exact h
  · dsimp only
    split
    · exact h
    · next dirName fileName hsp =>
      split
      · next c p hc hp =>
        split
        · exact h
        · next hcp =>
          have hcp' : c ≠ p := by simpa using hcp
          split
          · exact h
          · next a' hrec =>
            obtain ⟨hae, has⟩ := h.entry_path hsp hc hp hcp'
            obtain ⟨r, hat⟩ := removeAllRec_spec h _ s _ c a' (Rem.refl h) hc (fun _ _ => rfl) hae has hrec
            exact removeAll_final h hsp hc hp hcp' r hat
      · exact h

/-! ### the methods of an open file, the composites, every call -/

/-- the store is unchanged, or one node is replaced by a node of the same kind, children and link count -/
def StoreStep (s s' : OStore) : Prop := s' = s ∨ ∃ c n n', s.get c = some n ∧ SameShape n n' ∧ s' = s.set c n'

theorem OWF_of_storeStep {s s' : OStore} (h : OWF s) (hs : StoreStep s s') : OWF s' := by
  rcases hs with rfl | ⟨c, n, n', hg, hsh, rfl⟩
  · exact h
  · exact OWF_set_shape h hg hsh

local macro "file_step_tac" : tactic =>
  `(tactic| (unfold StoreStep fileStep; dsimp only; repeat' split
             all_goals first
               | exact Or.inl rfl
               | (apply Or.inr
                  refine ⟨_, ?n, _, ?h, ?sh, rfl⟩
                  case h => assumption
                  case sh => exact ⟨rfl, rfl, rfl⟩)))

theorem fileStep_read (s : OStore) (v : OView) (hd : Handle) (ap : Bytes) (k : Nat) :
    StoreStep s (fileStep s v hd ap (.read k)).1 := by file_step_tac
theorem fileStep_readAt (s : OStore) (v : OView) (hd : Handle) (ap : Bytes) (k : Nat) (off : Int) :
    StoreStep s (fileStep s v hd ap (.readAt k off)).1 := by file_step_tac
theorem fileStep_write (s : OStore) (v : OView) (hd : Handle) (ap : Bytes) (b : Bytes) :
    StoreStep s (fileStep s v hd ap (.write b)).1 := by
  -- the size test `pos + len(b) > maxFileSize` has the O_APPEND choice inside its condition: decide that first
  unfold StoreStep fileStep; dsimp only
  cases hap : (hd.om &&& omAppend != 0) <;> simp only [Bool.false_eq_true, if_false, if_true] <;> repeat' split
  all_goals first
    | exact Or.inl rfl
    | (refine Or.inr ⟨_, ?_, _, ?_, ?_, rfl⟩
       rotate_left
       · assumption
       · exact ⟨rfl, rfl, rfl⟩)
theorem fileStep_writeAt (s : OStore) (v : OView) (hd : Handle) (ap : Bytes) (b : Bytes) (off : Int) :
    StoreStep s (fileStep s v hd ap (.writeAt b off)).1 := by file_step_tac
theorem fileStep_seek (s : OStore) (v : OView) (hd : Handle) (ap : Bytes) (off wh : Int) :
    StoreStep s (fileStep s v hd ap (.seek off wh)).1 := by file_step_tac
theorem fileStep_truncate (s : OStore) (v : OView) (hd : Handle) (ap : Bytes) (sz : Int) :
    StoreStep s (fileStep s v hd ap (.truncate sz)).1 := by file_step_tac
theorem fileStep_stat (s : OStore) (v : OView) (hd : Handle) (ap : Bytes) :
    StoreStep s (fileStep s v hd ap .stat).1 := by file_step_tac
theorem fileStep_sync (s : OStore) (v : OView) (hd : Handle) (ap : Bytes) :
    StoreStep s (fileStep s v hd ap .sync).1 := by file_step_tac
theorem fileStep_chmod (s : OStore) (v : OView) (hd : Handle) (ap : Bytes) (m : Nat) :
    StoreStep s (fileStep s v hd ap (.chmod m)).1 := by file_step_tac
theorem fileStep_chown (s : OStore) (v : OView) (hd : Handle) (ap : Bytes) (u g : Int) :
    StoreStep s (fileStep s v hd ap (.chown u g)).1 := by file_step_tac
theorem fileStep_chdir (s : OStore) (v : OView) (hd : Handle) (ap : Bytes) :
    StoreStep s (fileStep s v hd ap .chdir).1 := by file_step_tac
theorem fileStep_close (s : OStore) (v : OView) (hd : Handle) (ap : Bytes) :
    StoreStep s (fileStep s v hd ap .close).1 := by file_step_tac
theorem fileStep_readDir (s : OStore) (v : OView) (hd : Handle) (ap : Bytes) (k : Int) :
    StoreStep s (fileStep s v hd ap (.readDir k)).1 := by file_step_tac
theorem fileStep_readdirnames (s : OStore) (v : OView) (hd : Handle) (ap : Bytes) (k : Int) :
    StoreStep s (fileStep s v hd ap (.readdirnames k)).1 := by file_step_tac

theorem fileStep_storeStep (s : OStore) (v : OView) (hd : Handle) (ap : Bytes) (op : FOp) :
    StoreStep s (fileStep s v hd ap op).1 := by
  cases op with
  | read k => exact fileStep_read s v hd ap k
  | readAt k off => exact fileStep_readAt s v hd ap k off
  | write b => exact fileStep_write s v hd ap b
  | writeAt b off => exact fileStep_writeAt s v hd ap b off
  | seek off wh => exact fileStep_seek s v hd ap off wh
  | truncate sz => exact fileStep_truncate s v hd ap sz
  | stat => exact fileStep_stat s v hd ap
  | sync => exact fileStep_sync s v hd ap
  | chmod m => exact fileStep_chmod s v hd ap m
  | chown u g => exact fileStep_chown s v hd ap u g
  | chdir => exact fileStep_chdir s v hd ap
  | close => exact fileStep_close s v hd ap
  | readDir k => exact fileStep_readDir s v hd ap k
  | readdirnames k => exact fileStep_readdirnames s v hd ap k

/-- the methods of an open file never change the namespace -/
theorem OWF_fileStep {s : OStore} (h : OWF s) (v : OView) (hd : Handle) (ap : Bytes) (op : FOp) :
    OWF (fileStep s v hd ap op).1 := OWF_of_storeStep h (fileStep_storeStep s v hd ap op)

theorem registerHandle_store (st : OState) (s : OStore) (r : OpenRes) (ap : Bytes) :
    (registerHandle st s r ap).1.store = s ∨ (registerHandle st s r ap).1.store = st.store := by
  unfold registerHandle
  split
  · exact Or.inr rfl
  · exact Or.inl rfl
  · exact Or.inl rfl

theorem OWF_registerHandle {st : OState} {s : OStore} (h : OWF st.store) (hs : OWF s) (r : OpenRes) (ap : Bytes) :
    OWF (registerHandle st s r ap).1.store := by
  rcases registerHandle_store st s r ap with e | e <;> rw [e] <;> assumption

/-- every call of the model keeps the invariant -/
theorem OWF_step {st : OState} (h : OWF st.store) (c : Call) : OWF (step st c).1.store := by
  cases c with
  | mkdir p perm => exact OWF_mkdir h _ _ _
  | mkdirAll p perm => exact OWF_mkdirAll h _ _ _
  | openFile p flag perm => exact OWF_registerHandle h (OWF_openFile h _ _ _ _) _ _
  | create p => exact OWF_registerHandle h (OWF_openFile h _ _ _ _) _ _
  | remove p => exact OWF_remove h _ _
  | removeAll p => exact OWF_removeAll h _ _
  | rename o n => exact OWF_rename h _ _ _
  | link o n => exact OWF_link h _ _ _
  | symlink _ _ => exact h
  | truncate p sz => exact OWF_truncate h _ _ _
  | chmod p m => exact OWF_setAttr h _ _ _ (attrOnly_perm m)
  | chown p u g => exact OWF_setAttr h _ _ _ (attrOnly_owner u g)
  | lchown p u g => exact OWF_setAttr h _ _ _ (attrOnly_owner u g)
  | chtimes p t => exact OWF_setAttr h _ _ _ (attrOnly_mtime t)
  | chdir p => exact h
  | stat p => exact h
  | lstat p => exact h
  | readDir p => exact h
  | readFile p => exact h
  | readlink _ => exact h
  | evalSymlinks _ => exact h
  | getwd => exact h
  | writeFile p data perm =>
    simp only [step]
    have ho := OWF_openFile h st.view p oWRONLY_CREATE_TRUNC perm
    split
    · exact h
    · next s1 e heq => rw [heq] at ho; exact ho
    · next s1 hd heq =>
      rw [heq] at ho
      exact OWF_fileStep ho _ _ _ _
  | mkdirTemp dir pat rnd =>
    simp only [step]
    split
    · exact h
    · next pre suf _ =>
      split
      · next s1 _ heq =>
        have := OWF_mkdir h st.view (joinPath (if dir.isEmpty then tempDir else dir) pre ++ rnd ++ suf) 0o700
        rw [heq] at this; exact this
      · exact h
  | createTemp dir pat rnd =>
    simp only [step]
    split
    · exact h
    · exact OWF_registerHandle h (OWF_openFile h _ _ _ _) _ _
  | sub _ => exact h
  | setUser uid gid _ => exact h
  | setUMask m => exact h
  | file hid op =>
    simp only [step]
    split
    · exact h
    · exact OWF_fileStep h _ _ _ _

/-- the states the model can reach from `New` -/
inductive Reachable (uid gid : Int) : OState → Prop
  | init : Reachable uid gid (initState uid gid)
  | step {st : OState} (c : Call) : Reachable uid gid st → Reachable uid gid (step st c).1

theorem OWF_reachable {uid gid : Int} {st : OState} (hr : Reachable uid gid st) : OWF st.store := by
  induction hr with
  | init => exact OWF_initState uid gid
  | step c _ ih => exact OWF_step ih c

/-! ### a concrete state -/

/-- `New`, MkdirAll /a/b, Create /a/f, Link /a/f /a/g -/
def exampleState : OState :=
  let st := initState 0 0
  let st := (step st (.mkdirAll [47, 97, 47, 98] 0o755)).1
  let st := (step st (.create [47, 97, 47, 102])).1
  (step st (.link [47, 97, 47, 102] [47, 97, 47, 103])).1

example : OWF exampleState.store :=
  OWF_step (OWF_step (OWF_step (OWF_initState 0 0) _) _) _

example : Reachable 0 0 exampleState := .step _ (.step _ (.step _ .init))

-- the executable form agrees, and the state is the expected one: /a/f and /a/g are the same node with two links
#guard owfOk exampleState.store
#guard exampleState.store.at [47, 97, 47, 102] == exampleState.store.at [47, 97, 47, 103]
#guard ((exampleState.store.at [47, 97, 47, 102]).bind exampleState.store.get).map (·.nlink) == some 2
#guard nkeys exampleState.store 0 == 2 && ((exampleState.store.get 0).map (·.nlink)) == some 0
#guard exampleState.store.at [47, 47, 97] == none

/-! ### clauses that had to be restricted: what the model does not maintain

  * (c) tree ⇒ index does NOT hold for the root key "/": the children of the root are indexed under "" ++ "/" ++ name,
    never under "/" ++ "/" ++ name (`createNode` binds the path Abs gave, whose parent part is ""); this is already so
    in the state `New` builds (MkdirAll /tmp).
  * (e) `nlink = number of keys` does NOT hold for the root: `New` gives it nlink 0 and the two keys "" and "/";
    for every other node, directories included, it does (Mkdir: 1, released: 0).
  * "every allocated node is indexed" does NOT hold: Remove / RemoveAll / a replacing Rename release the node
    (nlink - 1, children = nil) but keep it in the heap (an open handle still reads it). -/

#guard (initState 0 0).store.at [47, 116, 109, 112] == some 3                       -- "/tmp"
#guard (initState 0 0).store.at ([SL] ++ SL :: [116, 109, 112]) == none             -- "//tmp"
#guard ((initState 0 0).store.get rootIno).map (·.nlink) == some 0 && nkeys (initState 0 0).store rootIno == 2
#guard
  let st := (step exampleState (.remove [47, 97, 47, 98])).1        -- Remove /a/b
  (st.store.get 5).map (fun n => (n.nlink, n.children)) == some (0, none) && nkeys st.store 5 == 0 && owfOk st.store

end Avfs.Orefa
