import Avfs.Lemmas.WFCheck
import Avfs.Conc.Theorems
import Avfs.Conc.Allowed
/-
  C07 (c) — deadlock freedom of the MemFS calls other than Rename, from the lock order  handle → directory → entry.

  WHAT IS MODELLED (hand-written, not extracted):
    * the lock universe of one MemFS instance over a node heap `s` (`Lock`: one RW-mutex per open-file handle, one per
      node);
    * `acquisitions : MCall → List Lock`: for each kind of call, with its RESOLVED operands (the nodes the walk / the
      re-lookup under the lock returned), the locks in the order the Go function takes them.  A thread inside such a
      call holds, at every instant, some of the first `pos` locks of that list and — if it is blocked — waits for lock
      number `pos` (`MThread`).  The lists are an abstraction of vfs/memfs/memfs.go, memfs_file.go, memfs_internal.go,
      justified by the list `Conc.expectedNested` (all nested acquisitions of the CURRENT source, which the kernel
      re-decides against the regenerated lock facts on every run: `C07_nested_acquisitions`), plus four
      acquisitions that the extractor cannot see and that were added here by reading the source:
        - MemFile.Stat: `f.nd.fillStatFrom` (the node's mu.RLock) under the handle's read lock (interface method);
        - MemFile.ReadDir: `nd.dirEntries()` calls `child.fillStatFrom` (child.mu.RLock) for every entry while the
          handle's lock and the directory's read lock are held (through an interface method: interprocedural);
        - MemFS.RemoveAll → removeAll(c) → removeAll(…): the recursion locks each directory while all its ancestors
          down from the RemoveAll operand's parent are still locked (interprocedural);
        - MemFS.OpenFile with O_CREATE when the entry appeared between the walk and `parent.mu.Lock()`: the deferred
          unlock of the parent runs at function exit, so `c.mu.Lock()` of the existing entry is taken under the
          parent's lock (the extractor records only locks CERTAINLY held; this one is held on one path only).
      All four are of the shape  handle → node  or  directory → entry.  The table `memfsLockOrder` names, for every
      Go function, the call of the model that stands for it and the Go lock expressions in the model's order;
      `orderTableOK` (decided by the kernel against the regenerated facts: `C07_memfs_lock_order_table`) checks that
      EVERY acquisition site of package memfs is a position of a row and that every nested acquisition a row claims,
      other than the ones just listed, is in `expectedNested`.  All locks are treated as exclusive (a read lock
      blocks like a write lock): conservative.
    * `Valid s c`: what the operands of a call must satisfy in the heap AT THE INSTANT considered (deadlock is a
      property of one instant): wherever a node is locked under a directory, it is an entry of that directory or is
      not a directory (`LockBelow`).  Remove, OpenFile, MemFile.ReadDir and the inner frames of removeAll read the entry
      under the directory's lock; Link's source is a `*fileNode`; only the FIRST pair of RemoveAll (parent, child)
      comes from the unlocked walk — see `C07_removeAll_stale_deadlock` (Props/C07_rank.lean) for what happens when
      that pair is stale.
  WHAT IS PROVED: `rank` is strictly increasing along every acquisition list of every valid call other than Rename
  (`acquisitions_ranked`), for every well-formed heap; hence (`Conc.ranked_deadlock_free`) no waiting state of any
  number of threads inside such calls is deadlocked (`memfs_no_deadlock_but_rename`), and in the RW-mutex semantics of
  Conc/Trace.lean some thread can always move (`memfs_some_thread_moves`).  For Rename (Props/C07_rank.lean): two
  kernel-checked deadlocked states (`C07_rename_cross_deadlock`, `C07_rename_remove_deadlock`), a witness that
  ordering the two parents by inode number alone does not help (`C07_rename_by_ino_deadlock`), and the repair: taking
  Rename's locks in the order of `rank` — (depth, inode) lexicographically, non-directories last — makes every call
  ranked (`rename_ordered_ranked`, `memfs_no_deadlock_ordered_rename`).
-/
namespace Avfs.FS
open Avfs.Path Avfs.Conc

/-! ## locks and their rank -/

/-- the RW-mutexes of one MemFS instance: `MemFile.mu` of an open-file handle, `baseNode.mu` of a node -/
inductive Lock
  | handle (h : Nat)
  | node (i : Ino)
  deriving DecidableEq, Repr

/-- a depth witness of the directory forest (the function whose existence is the field `WF.depth`) -/
def DepthOK (s : Store) (dp : Ino → Nat) : Prop :=
  ∀ d n c, Edge s d n c → isDirAt s c = true → dp c = dp d + 1

theorem WF.depthOK {s : Store} {root : Ino} (h : WF s root) : ∃ dp, DepthOK s dp := h.depth

def listMax (f : Ino → Nat) : List Ino → Nat
  | [] => 0
  | x :: xs => max (f x) (listMax f xs)

theorem le_listMax (f : Ino → Nat) {l : List Ino} {x : Ino} (h : x ∈ l) : f x ≤ listMax f l := by
  induction l with
  | nil => cases h
  | cons a as ih =>
    simp only [listMax]
    rcases List.mem_cons.1 h with e | e
    · subst e; exact Nat.le_max_left _ _
    · exact Nat.le_trans (ih e) (Nat.le_max_right _ _)

/-- the largest depth of an allocated node -/
def maxDepth (s : Store) (dp : Ino → Nat) : Nat := listMax dp s.inos

/-- level of a node: a directory sits one above its depth; files and symbolic links — leaves, locked last — sit
    above every directory -/
def level (s : Store) (dp : Ino → Nat) (i : Ino) : Nat :=
  if isDirAt s i = true then dp i + 1 else maxDepth s dp + 2

/-- the rank of a lock: handles below all nodes; nodes by (level, inode number) lexicographically (the inode number
    only separates nodes of one level: it makes the rank injective on allocated nodes, which the repair of Rename
    needs; every allocated inode is below `s.next`) -/
def rank (s : Store) (dp : Ino → Nat) : Lock → Nat
  | .handle _ => 0
  | .node i => 1 + level s dp i * (s.next + 1) + i

theorem level_dir_le {s : Store} {dp : Ino → Nat} {d : Ino} (hd : isDirAt s d = true) :
    level s dp d ≤ maxDepth s dp + 1 := by
  have : dp d ≤ maxDepth s dp := le_listMax dp (wfc_mem_inos_of_get (hr_isSome_of_isDir hd))
  simp only [level, hd, if_true]
  omega

theorem rank_handle_lt_node (s : Store) (dp : Ino → Nat) (h : Nat) (i : Ino) :
    rank s dp (.handle h) < rank s dp (.node i) := by
  simp only [rank]; omega

theorem lex_lt (la lb N a b : Nat) (ha : a < N) (hl : la < lb) : 1 + la * (N + 1) + a < 1 + lb * (N + 1) + b := by
  have h1 : (la + 1) * (N + 1) ≤ lb * (N + 1) := Nat.mul_le_mul_right _ hl
  rw [Nat.succ_mul] at h1
  omega

theorem lex_inj (la lb N a b : Nat) (ha : a < N) (hb : b < N)
    (h : 1 + la * (N + 1) + a = 1 + lb * (N + 1) + b) : a = b := by
  rcases Nat.lt_trichotomy la lb with hl | hl | hl
  · have := lex_lt la lb N a b ha hl; omega
  · subst hl; omega
  · have := lex_lt lb la N b a hb hl; omega

theorem rank_lt_of_level_lt {s : Store} {dp : Ino → Nat} {a b : Ino} (ha : a < s.next)
    (hl : level s dp a < level s dp b) : rank s dp (.node a) < rank s dp (.node b) :=
  lex_lt _ _ _ _ _ ha hl

/-- a directory is ranked below everything that is not a directory -/
theorem rank_dir_lt_nondir {s : Store} {root : Ino} (hwf : WF s root) {dp : Ino → Nat} {d c : Ino}
    (hd : isDirAt s d = true) (hc : isDirAt s c = false) : rank s dp (.node d) < rank s dp (.node c) := by
  apply rank_lt_of_level_lt (hwf.bound d (hr_isSome_of_isDir hd))
  have := level_dir_le (dp := dp) hd
  simp only [level, hc] at this ⊢
  simp only [Bool.false_eq_true, if_false]
  omega

/-- **parent before entry**: a directory is ranked strictly below each of its entries -/
theorem rank_edge {s : Store} {root : Ino} (hwf : WF s root) {dp : Ino → Nat} (hdp : DepthOK s dp)
    {d : Ino} {n : Bytes} {c : Ino} (he : Edge s d n c) : rank s dp (.node d) < rank s dp (.node c) := by
  have hd : isDirAt s d = true := hr_isDir_of_edge he
  cases hc : isDirAt s c with
  | false => exact rank_dir_lt_nondir hwf hd hc
  | true =>
    apply rank_lt_of_level_lt (hwf.bound d (hr_isSome_of_isDir hd))
    simp only [level, hd, hc, if_true, hdp d n c he hc]
    omega

/-- the rank separates allocated nodes -/
theorem rank_node_inj {s : Store} {dp : Ino → Nat} {a b : Ino} (ha : a < s.next) (hb : b < s.next)
    (h : rank s dp (.node a) = rank s dp (.node b)) : a = b :=
  lex_inj _ _ _ _ _ ha hb h

/-! ## the acquisition pattern of every call -/

/-- the MemFS / MemFile functions that take ONE node lock and nothing else while they hold it (the operand is the
    node the walk returned): Chdir (c.mu.RLock), Chmod / Chown / Lchown / Chtimes / Truncate (child.Lock),
    Stat / Lstat / MemFile.Stat's node part (fillStatFrom: RLock), Mkdir / MkdirAll / Symlink / OpenFile-create
    (parent.mu.Lock; the new node is not reachable before the lock is released and is not locked), OpenFile of an
    existing file or directory (c.mu.Lock).  Readlink, EvalSymlinks, Getwd, Sub, the lexical functions take no lock
    beyond those of the walk.  ReadDir, ReadFile, WriteFile, CreateTemp, MkdirTemp, Glob, WalkDir are compositions of
    OpenFile / Mkdir / Lstat and handle operations (avfs.ReadDir, …): each constituent call is a call of this model. -/
inductive OneLock
  | chdir | chmod | chown | lchown | chtimes | truncate | stat | mkdir | mkdirAll | symlink | openCreate | openExisting
  deriving DecidableEq, Repr

/-- a call in progress, by kind, with its RESOLVED operands (nodes, not paths) -/
inductive MCall
  /-- not inside any call -/
  | idle
  /-- one step of `searchNode`: the read lock of ONE directory (`parent.mu.RLock(); …; parent.mu.RUnlock()`), released
      before the next one is taken — so every path walk, of every call, is a sequence of `walk` steps, each holding
      at most one lock and never waiting while holding one (`walk_never_waits_holding`) -/
  | walk (d : Ino)
  | one (f : OneLock) (n : Ino)
  /-- OpenFile(O_CREATE) when the entry exists under the parent's lock: `parent.mu.Lock()` (deferred unlock), then
      `c.mu.Lock()` of `parent.children[part]` -/
  | openRace (parent child : Ino)
  /-- Remove: `parent.mu.Lock()`, then `child.Lock()` of `parent.children[part]` -/
  | remove (parent child : Ino)
  /-- RemoveAll at any point of its recursion: the stack `parent :: child :: d₁ :: … :: dₖ :: [e]` — RemoveAll holds
      `parent`, `removeAll(child)` holds `child`, … `removeAll(dₖ)` holds `dₖ` and locks its entry `e` (to read its
      owner, or, if `e` is a directory, on entering `removeAll(e)`); locks are released on return, so what is held is
      always a prefix of the current stack.  (RemoveAll's own `child.Lock()` after the recursion is the stack
      `[parent, child]`.) -/
  | removeAll (stack : List Ino)
  /-- Link: `nParent.mu.Lock()`, then `c.mu.Lock()` of the source, a `*fileNode` -/
  | link (nParent oChild : Ino)
  /-- MemFile.Chdir / Close / Name / Sync / a method that fails before touching the node: the handle's lock only -/
  | fileOnly (h : Nat)
  /-- MemFile.Chmod / Chown / Read / ReadAt / Readdirnames / Seek / Stat / Truncate / Write / WriteAt / WriteString:
      `f.mu` (read or write), then `f.nd`'s lock -/
  | fileOp (h : Nat) (nd : Ino)
  /-- MemFile.ReadDir: `f.mu.Lock()`, `nd.mu.RLock()`, then `fillStatFrom` of each entry: its `mu.RLock()` -/
  | fileReadDir (h : Nat) (nd entry : Ino)
  /-- Rename AS IT IS: `oParent.mu.Lock()`; `if nParent != oParent { nParent.mu.Lock() }`; then the closure `ownerUid`
      locks `nd` (the moved or the replaced node) unless it is one of the two parents.  NOT covered by the
      deadlock-freedom theorem: see `rename_cross_deadlock`. -/
  | rename (oParent nParent : Ino) (nd : Option Ino)
  deriving DecidableEq, Repr

def MCall.isRename : MCall → Bool
  | .rename _ _ _ => true
  | _ => false

/-- the locks a call takes, in the order the Go function takes them -/
def acquisitions : MCall → List Lock
  | .idle => []
  | .walk d => [.node d]
  | .one _ n => [.node n]
  | .openRace p c => [.node p, .node c]
  | .remove p c => [.node p, .node c]
  | .removeAll stack => stack.map .node
  | .link p c => [.node p, .node c]
  | .fileOnly h => [.handle h]
  | .fileOp h nd => [.handle h, .node nd]
  | .fileReadDir h nd e => [.handle h, .node nd, .node e]
  | .rename o n nd =>
    .node o :: ((if n = o then [] else [.node n]) ++
      (match nd with
       | some x => if x = o ∨ x = n then [] else [.node x]
       | none => []))

/-- `a` is locked before `b`: `b` is an entry of the directory `a` — or, whatever the entries are, `a` is a directory
    and `b` is not (the kind of a node never changes: this alternative survives any concurrent change of the heap) -/
def LockBelow (s : Store) (a b : Ino) : Prop := (∃ n, Edge s a n b) ∨ (isDirAt s a = true ∧ isDirAt s b = false)

/-- consecutive nodes are directory and entry -/
def EntryChain (s : Store) : List Ino → Prop
  | [] => True
  | [_] => True
  | a :: b :: t => LockBelow s a b ∧ EntryChain s (b :: t)

/-- what the resolved operands of a call satisfy in the heap at the instant considered -/
def Valid (s : Store) : MCall → Prop
  | .openRace p c => LockBelow s p c
  | .remove p c => LockBelow s p c
  | .removeAll stack => EntryChain s stack
  | .link p c => LockBelow s p c
  | .fileReadDir _ nd e => LockBelow s nd e
  | _ => True

/-- a list of locks is strictly increasing in rank (every earlier lock is below every later one) -/
def Increasing (r : Lock → Nat) (l : List Lock) : Prop := l.Pairwise (fun a b => r a < r b)

theorem increasing_nil (r : Lock → Nat) : Increasing r [] := List.Pairwise.nil
theorem increasing_one (r : Lock → Nat) (a : Lock) : Increasing r [a] := List.pairwise_singleton _ _
theorem increasing_two {r : Lock → Nat} {a b : Lock} (h : r a < r b) : Increasing r [a, b] := by
  simp [Increasing, h]

/-- it is enough to compare neighbours -/
theorem increasing_cons {r : Lock → Nat} {a b : Lock} {t : List Lock} (h : r a < r b)
    (ht : Increasing r (b :: t)) : Increasing r (a :: b :: t) := by
  unfold Increasing at *
  refine List.pairwise_cons.2 ⟨?_, ht⟩
  intro x hx
  rcases List.mem_cons.1 hx with e | e
  · subst e; exact h
  · exact Nat.lt_trans h ((List.pairwise_cons.1 ht).1 x e)

/-- in an increasing list every lock among the first `k` is below lock number `k` -/
theorem Increasing.take_lt {r : Lock → Nat} {l : List Lock} (h : Increasing r l) {k : Nat} {x y : Lock}
    (hx : x ∈ l.take k) (hy : l[k]? = some y) : r x < r y := by
  unfold Increasing at h
  rw [← List.take_append_drop k l] at h
  have hy' : y ∈ l.drop k := by
    have hk : k < l.length := by
      rcases Nat.lt_or_ge k l.length with hk | hk
      · exact hk
      · simp [List.getElem?_eq_none hk] at hy
    rw [List.getElem?_eq_getElem hk] at hy
    cases hy
    rw [List.drop_eq_getElem_cons hk]
    exact List.mem_cons_self
  exact (List.pairwise_append.1 h).2.2 x hx y hy'

theorem rank_lockBelow {s : Store} {root : Ino} (hwf : WF s root) {dp : Ino → Nat} (hdp : DepthOK s dp) {a b : Ino}
    (h : LockBelow s a b) : rank s dp (.node a) < rank s dp (.node b) := by
  rcases h with ⟨n, he⟩ | ⟨ha, hb⟩
  · exact rank_edge hwf hdp he
  · exact rank_dir_lt_nondir hwf ha hb

theorem entryChain_increasing {s : Store} {root : Ino} (hwf : WF s root) {dp : Ino → Nat} (hdp : DepthOK s dp) :
    ∀ stack : List Ino, EntryChain s stack → Increasing (rank s dp) (stack.map .node)
  | [], _ => increasing_nil _
  | [a], _ => increasing_one _ _
  | a :: b :: t, h => by
    obtain ⟨he, ht⟩ := h
    exact increasing_cons (rank_lockBelow hwf hdp he) (entryChain_increasing hwf hdp (b :: t) ht)

/-- **every call other than Rename takes its locks in strictly increasing rank**, in every well-formed heap:
    the handle before its node, a directory before its entry, a directory before a file -/
theorem acquisitions_ranked {s : Store} {root : Ino} (hwf : WF s root) {dp : Ino → Nat} (hdp : DepthOK s dp)
    (c : MCall) (hv : Valid s c) (hr : c.isRename = false) : Increasing (rank s dp) (acquisitions c) := by
  cases c with
  | idle => exact increasing_nil _
  | walk d => exact increasing_one _ _
  | one f n => exact increasing_one _ _
  | openRace p c => exact increasing_two (rank_lockBelow hwf hdp hv)
  | remove p c => exact increasing_two (rank_lockBelow hwf hdp hv)
  | removeAll stack => exact entryChain_increasing hwf hdp stack hv
  | link p c => exact increasing_two (rank_lockBelow hwf hdp hv)
  | fileOnly h => exact increasing_one _ _
  | fileOp h nd => exact increasing_two (rank_handle_lt_node s dp h nd)
  | fileReadDir h nd e =>
    exact increasing_cons (rank_handle_lt_node s dp h nd) (increasing_two (rank_lockBelow hwf hdp hv))
  | rename o n nd => cases hr

/-- the same with the depth witness taken from `WF` -/
theorem acquisitions_ranked' {s : Store} {root : Ino} (hwf : WF s root) :
    ∃ r : Lock → Nat, ∀ c, Valid s c → c.isRename = false → Increasing r (acquisitions c) := by
  obtain ⟨dp, hdp⟩ := hwf.depth
  exact ⟨rank s dp, fun c hv hr => acquisitions_ranked hwf hdp c hv hr⟩

/-! ## the tie between the hand-written acquisition lists and the extracted lock facts -/

/-- one row per lock pattern of a Go function: the function, the call of the model that stands for it (operands are
    placeholders: 0 a handle, 1 2 3 nodes), the Go expressions of the locks in the order of `acquisitions`, and those
    of them whose acquisition UNDER the preceding ones the extractor does not report (added by reading the source) -/
structure OrderRow where
  fn : String
  call : MCall
  names : List String
  unseen : List String := []
  deriving DecidableEq, Repr

def memfsLockOrder : List OrderRow := [
  { fn := "MemFS.Chdir", call := .one .chdir 1, names := ["child#mu"] },
  { fn := "MemFS.Chmod", call := .one .chmod 1, names := ["child#mu"] },
  { fn := "MemFS.Chown", call := .one .chown 1, names := ["child#mu"] },
  { fn := "MemFS.Chtimes", call := .one .chtimes 1, names := ["child#mu"] },
  { fn := "MemFS.Lchown", call := .one .lchown 1, names := ["child#mu"] },
  { fn := "MemFS.Truncate", call := .one .truncate 1, names := ["child#mu"] },
  { fn := "MemFS.Mkdir", call := .one .mkdir 1, names := ["parent#mu"] },
  { fn := "MemFS.MkdirAll", call := .one .mkdirAll 1, names := ["parent#mu"] },
  { fn := "MemFS.Symlink", call := .one .symlink 1, names := ["parent#mu"] },
  { fn := "MemFS.OpenFile", call := .one .openCreate 1, names := ["parent#mu"] },
  { fn := "MemFS.OpenFile", call := .one .openExisting 1, names := ["child#mu"] },
  { fn := "MemFS.OpenFile", call := .openRace 1 2, names := ["parent#mu", "child#mu"], unseen := ["child#mu"] },
  { fn := "dirNode.fillStatFrom", call := .one .stat 1, names := ["dn#mu"] },
  { fn := "fileNode.fillStatFrom", call := .one .stat 1, names := ["fn#mu"] },
  { fn := "symlinkNode.fillStatFrom", call := .one .stat 1, names := ["sn#mu"] },
  { fn := "MemFS.searchNode", call := .walk 1, names := ["nd#mu"] },
  { fn := "MemFS.searchNode", call := .walk 1, names := ["child#mu"] },
  { fn := "MemFS.Link", call := .link 1 2, names := ["nParent#mu", "oChild#mu"] },
  { fn := "MemFS.Remove", call := .remove 1 2, names := ["parent#mu", "child#mu"] },
  -- the deeper stacks of the recursion are RemoveAll → removeAll → removeAll …: each frame is one of these two rows
  { fn := "MemFS.RemoveAll", call := .removeAll [1, 2], names := ["parent#mu", "child#mu"] },
  { fn := "MemFS.removeAll", call := .removeAll [1, 2], names := ["parent#mu", "child#mu"] },
  { fn := "MemFS.Rename", call := .rename 1 2 (some 3), names := ["oParent#mu", "nParent#mu", "nd#mu"] },
  { fn := "MemFile.Chdir", call := .fileOnly 0, names := ["f#mu"] },
  { fn := "MemFile.Close", call := .fileOnly 0, names := ["f#mu"] },
  { fn := "MemFile.Name", call := .fileOnly 0, names := ["f#mu"] },
  { fn := "MemFile.Sync", call := .fileOnly 0, names := ["f#mu"] },
  { fn := "MemFile.Stat", call := .fileOp 0 1, names := ["f#mu", "f.nd#mu"], unseen := ["f.nd#mu"] },
  { fn := "MemFile.Chmod", call := .fileOp 0 1, names := ["f#mu", "f.nd#mu"] },
  { fn := "MemFile.Chown", call := .fileOp 0 1, names := ["f#mu", "f.nd#mu"] },
  { fn := "MemFile.Read", call := .fileOp 0 1, names := ["f#mu", "f.nd#mu"] },
  { fn := "MemFile.ReadAt", call := .fileOp 0 1, names := ["f#mu", "f.nd#mu"] },
  { fn := "MemFile.Readdirnames", call := .fileOp 0 1, names := ["f#mu", "f.nd#mu"] },
  { fn := "MemFile.Seek", call := .fileOp 0 1, names := ["f#mu", "f.nd#mu"] },
  { fn := "MemFile.Truncate", call := .fileOp 0 1, names := ["f#mu", "f.nd#mu"] },
  { fn := "MemFile.Write", call := .fileOp 0 1, names := ["f#mu", "f.nd#mu"] },
  { fn := "MemFile.WriteAt", call := .fileOp 0 1, names := ["f#mu", "f.nd#mu"] },
  { fn := "MemFile.ReadDir", call := .fileReadDir 0 1 2, names := ["f#mu", "f.nd#mu", "child#mu"], unseen := ["child#mu"] }]

/-- the held set of a fact (`owner#mutex:mode`) is the set of the lock expressions `pre`, in some mode -/
def heldMatches (held pre : List String) : Bool :=
  held.all (fun h => pre.any fun n => h == n ++ ":w" || h == n ++ ":r") &&
  pre.all (fun n => held.contains (n ++ ":w") || held.contains (n ++ ":r"))

/-- the acquisition of `wanted` while holding `held` in `fn` is position `k` of a row of the table -/
def rowCovers (r : OrderRow) (fn wanted : String) (held : List String) : Bool :=
  r.fn == fn && (List.range r.names.length).any fun k => r.names[k]? == some wanted && heldMatches held (r.names.take k)

/-- (1) every lock acquisition site of package memfs in the extracted facts — nested or not, with the locks certainly
    held there — is a position of a row (`baseNode.Lock` is the body of `child.Lock()`, whose call sites are recorded
    as acquisitions of `child#mu` themselves);
    (2) a row has as many lock expressions as the model's call has locks;
    (3) every nested acquisition the rows claim, other than the `unseen` ones, is in `expectedNested` -/
def orderTableOK (facts : List Fact) (expected : List (String × String × String × List String)) (rows : List OrderRow) : Bool :=
  (facts.all fun f =>
    !(f.kind == "acquire" && f.pkg == "memfs" && f.fn != "baseNode.Lock") ||
    rows.any fun r => rowCovers r f.fn (f.owner ++ "#" ++ f.field) f.held) &&
  (rows.all fun r => (acquisitions r.call).length == r.names.length) &&
  (rows.all fun r => (List.range r.names.length).all fun k =>
    k == 0 || r.unseen.contains (r.names.getD k "") ||
    expected.any fun e => e.1 == "memfs" && e.2.1 == r.fn && e.2.2.1 == r.names.getD k "" &&
      heldMatches e.2.2.2 (r.names.take k))

/-! ## threads and waiting states -/

/-- a thread at one instant: it is inside `call`, has taken (at most) the first `pos` locks of the call's acquisition
    list and, if `blocked`, is waiting for lock number `pos` -/
structure MThread where
  call : MCall
  pos : Nat
  blocked : Bool
  deriving DecidableEq, Repr

/-- the locks a thread may hold, w.r.t. an acquisition table `A` (`acquisitions`, or the table with the repaired Rename) -/
def MThread.held (A : MCall → List Lock) (t : MThread) : List Lock := (A t.call).take t.pos

/-- the lock a thread waits for -/
def MThread.waits (A : MCall → List Lock) (t : MThread) : Option Lock :=
  if t.blocked = true then (A t.call)[t.pos]? else none

/-- the waiting state `w` (who holds what, who waits for what) is one in which every thread `t` is inside the call
    `th t`: it holds no lock outside the first `pos` of the call's list (it may have released some of them already),
    and waits, if it waits, for lock number `pos` -/
def Describes {T : Type} (A : MCall → List Lock) (w : WaitSt T Lock) (th : T → MThread) : Prop :=
  ∀ t, (∀ l ∈ w.held t, l ∈ (th t).held A) ∧ ∀ l, w.waits t = some l → (th t).waits A = some l

/-- the waiting state made of the threads `th` (each holding ALL the first `pos` locks) and a holder map -/
def waitSt {T : Type} (A : MCall → List Lock) (th : T → MThread) (holder : Lock → Option T) : WaitSt T Lock :=
  { held := fun t => (th t).held A, waits := fun t => (th t).waits A, holder := holder }

theorem describes_waitSt {T : Type} (A : MCall → List Lock) (th : T → MThread) (holder : Lock → Option T) :
    Describes A (waitSt A th holder) th := fun _ => ⟨fun _ h => h, fun _ h => h⟩

/-- a path walk holds at most one lock and never waits while it holds one -/
theorem walk_never_waits_holding (t : MThread) (d : Ino) (hc : t.call = .walk d)
    (hw : (t.waits acquisitions).isSome = true) : t.held acquisitions = [] := by
  unfold MThread.waits at hw
  unfold MThread.held
  rw [hc] at hw ⊢
  cases hp : t.pos with
  | zero => rfl
  | succ k => simp [hp, acquisitions] at hw

theorem walk_holds_at_most_one (t : MThread) (d : Ino) (hc : t.call = .walk d) : (t.held acquisitions).length ≤ 1 := by
  unfold MThread.held
  rw [hc]
  simp only [acquisitions, List.length_take, List.length_cons, List.length_nil]
  omega

/-- threads inside calls whose acquisition lists are increasing in `r` acquire in ranked fashion -/
theorem ranked_of_increasing {T : Type} (A : MCall → List Lock) (r : Lock → Nat) (w : WaitSt T Lock) (th : T → MThread)
    (hd : Describes A w th) (hinc : ∀ t, Increasing r (A (th t).call)) : w.Ranked r := by
  intro t l hw l' hl'
  have h1 := (hd t).1 l' hl'
  have h2 := (hd t).2 l hw
  unfold MThread.waits at h2
  split at h2
  · exact (hinc t).take_lt h1 h2
  · cases h2

/-- **C07 (c) for MemFS without Rename.**  On a well-formed heap, take ANY number of threads, each anywhere inside a
    call other than Rename whose operands are valid in that heap (holding locks among a prefix of its acquisition
    list, possibly waiting for the next one).  That state is not deadlocked — in the general sense (some set of threads
    each waiting for a lock that a thread of the set holds, in any mode: this covers read locks held by several
    threads, and a reader queued behind a waiting writer, whose real obstacle is the current holder) -/
theorem memfs_no_deadlock_but_rename_held {T : Type} {s : Store} {root : Ino} (hwf : WF s root) (w : WaitSt T Lock)
    (th : T → MThread) (hd : Describes acquisitions w th) (hv : ∀ t, Valid s (th t).call)
    (hnr : ∀ t, (th t).call.isRename = false) : ¬ w.DeadlockedHeld := by
  obtain ⟨dp, hdp⟩ := hwf.depth
  exact ranked_deadlock_free_held w (rank s dp)
    (ranked_of_increasing acquisitions _ w th hd fun t => acquisitions_ranked hwf hdp _ (hv t) (hnr t))

/-- … and in the sense of `ranked_deadlock_free` (a holder map consistent with `held`) -/
theorem memfs_no_deadlock_but_rename {T : Type} {s : Store} {root : Ino} (hwf : WF s root) (w : WaitSt T Lock)
    (hc : w.Consistent) (th : T → MThread) (hd : Describes acquisitions w th) (hv : ∀ t, Valid s (th t).call)
    (hnr : ∀ t, (th t).call.isRename = false) : ¬ w.Deadlocked :=
  fun h => memfs_no_deadlock_but_rename_held hwf w th hd hv hnr (h.toHeld hc)

/-! ### the same in the RW-mutex semantics of `Conc.Trace`: some thread can always move -/

/-- an acquisition that `stepLock` refuses is refused because of a current holder (sync.RWMutex: `Lock` needs no
    writer and no reader, `RLock` no writer) -/
theorem blocked_has_holder {T X : Type} [DecidableEq T] (ls : LockSt T Lock) (t : T) (k : LK) (l : Lock)
    (h : stepLock ls (.acq t k l : Ev T Lock X) = none) : ∃ t' k', ls.holds t' k' l := by
  cases k with
  | r =>
    simp only [stepLock] at h
    split at h
    · cases h
    · next hw =>
      cases hw' : ls.writer l with
      | none => exact absurd hw' hw
      | some t' => exact ⟨t', .w, Or.inl ⟨rfl, hw'⟩⟩
  | w =>
    simp only [stepLock] at h
    split at h
    · cases h
    · next hw =>
      cases hw' : ls.writer l with
      | some t' => exact ⟨t', .w, Or.inl ⟨rfl, hw'⟩⟩
      | none =>
        cases hr : ls.readers l with
        | nil => exact absurd ⟨hw', hr⟩ hw
        | cons t' ts => exact ⟨t', .r, Or.inr ⟨rfl, by rw [hr]; exact List.mem_cons_self⟩⟩

/-- **progress.**  Let `ls` be a state of the RW-mutexes in which only the threads of the (non-empty, finite) set `all`
    hold locks, each of them inside a valid call other than Rename and holding only locks among the first `pos` of its
    list.  Then some thread of `all` is not stuck: either it is not waiting for a lock at all (it is running, and every
    call body is finite and lock-free between acquisitions — C07 (a)), or the acquisition it waits for, in whatever
    mode `md` it wants it, is granted by `stepLock` in `ls`. -/
theorem memfs_some_thread_moves {T X : Type} [DecidableEq T] {s : Store} {root : Ino} (hwf : WF s root)
    (ls : LockSt T Lock) (th : T → MThread) (md : T → LK) (all : List T) (hne : all ≠ []) (hnd : all.Nodup)
    (hheld : ∀ t k l, ls.holds t k l → t ∈ all ∧ l ∈ (th t).held acquisitions)
    (hv : ∀ t, Valid s (th t).call) (hnr : ∀ t, (th t).call.isRename = false) :
    ∃ t ∈ all, ∀ l, (th t).waits acquisitions = some l →
      (stepLock ls (.acq t (md t) l : Ev T Lock X)).isSome = true := by
  apply Classical.byContradiction
  intro hcon
  have hall : ∀ t ∈ all, ∃ l, (th t).waits acquisitions = some l ∧
      stepLock ls (.acq t (md t) l : Ev T Lock X) = none := by
    intro t ht
    apply Classical.byContradiction
    intro hno
    apply hcon
    refine ⟨t, ht, fun l hl => ?_⟩
    cases hs : stepLock ls (.acq t (md t) l : Ev T Lock X) with
    | some _ => rfl
    | none => exact absurd ⟨l, hl, hs⟩ hno
  refine memfs_no_deadlock_but_rename_held hwf (waitSt acquisitions th (fun _ => none)) th
    (describes_waitSt _ _ _) hv hnr ⟨all, hne, hnd, fun t ht => ?_⟩
  obtain ⟨l, hw, hs⟩ := hall t ht
  obtain ⟨t', k', hh⟩ := blocked_has_holder ls t (md t) l hs
  exact ⟨l, hw, t', (hheld t' k' l hh).1, (hheld t' k' l hh).2⟩

/-! ## the repair of Rename: take the locks in the order of the rank -/

/-- insert a lock into a list sorted by `r` (a lock of the same rank as one already there is that lock — see
    `mem_sortLocks` — and is not taken twice) -/
def insertLock (r : Lock → Nat) (x : Lock) : List Lock → List Lock
  | [] => [x]
  | y :: ys => if r x < r y then x :: y :: ys else if r x = r y then y :: ys else y :: insertLock r x ys

def sortLocks (r : Lock → Nat) (l : List Lock) : List Lock := l.foldr (insertLock r) []

theorem mem_insertLock_imp {r : Lock → Nat} {x z : Lock} {l : List Lock} (h : z ∈ insertLock r x l) : z = x ∨ z ∈ l := by
  induction l with
  | nil => simp [insertLock] at h; exact Or.inl h
  | cons y ys ih =>
    simp only [insertLock] at h
    split at h
    · rcases List.mem_cons.1 h with e | e
      · exact Or.inl e
      · exact Or.inr e
    · split at h
      · exact Or.inr h
      · rcases List.mem_cons.1 h with e | e
        · exact Or.inr (e ▸ List.mem_cons_self)
        · rcases ih e with e' | e'
          · exact Or.inl e'
          · exact Or.inr (List.mem_cons_of_mem _ e')

theorem mem_insertLock {r : Lock → Nat} {x z : Lock} {l : List Lock} (hinj : ∀ y ∈ l, r x = r y → x = y) :
    z ∈ insertLock r x l ↔ z = x ∨ z ∈ l := by
  refine ⟨mem_insertLock_imp, ?_⟩
  induction l with
  | nil => intro h; simpa [insertLock] using h
  | cons y ys ih =>
    intro h
    simp only [insertLock]
    split
    · rcases h with e | e
      · exact e ▸ List.mem_cons_self
      · exact List.mem_cons_of_mem _ e
    · split
      · next heq =>
        have := hinj y List.mem_cons_self heq
        rcases h with e | e
        · rw [e, this]; exact List.mem_cons_self
        · exact e
      · rcases h with e | e
        · exact List.mem_cons_of_mem _ (ih (fun y' hy' => hinj y' (List.mem_cons_of_mem _ hy')) (Or.inl e))
        · rcases List.mem_cons.1 e with e' | e'
          · exact e' ▸ List.mem_cons_self
          · exact List.mem_cons_of_mem _ (ih (fun y' hy' => hinj y' (List.mem_cons_of_mem _ hy')) (Or.inr e'))

theorem insertLock_increasing {r : Lock → Nat} (x : Lock) {l : List Lock} (h : Increasing r l) :
    Increasing r (insertLock r x l) := by
  induction l with
  | nil => exact increasing_one _ _
  | cons y ys ih =>
    simp only [insertLock]
    split
    · next hlt => exact increasing_cons hlt h
    · split
      · exact h
      · next h1 h2 =>
        have hyx : r y < r x := by omega
        unfold Increasing at h ih ⊢
        obtain ⟨hy, hys⟩ := List.pairwise_cons.1 h
        refine List.pairwise_cons.2 ⟨?_, ih hys⟩
        intro z hz
        rcases mem_insertLock_imp hz with e | e
        · exact e ▸ hyx
        · exact hy z e

theorem sortLocks_increasing (r : Lock → Nat) (l : List Lock) : Increasing r (sortLocks r l) := by
  induction l with
  | nil => exact increasing_nil _
  | cons a as ih => exact insertLock_increasing a ih

theorem mem_sortLocks_imp {r : Lock → Nat} {z : Lock} {l : List Lock} (h : z ∈ sortLocks r l) : z ∈ l := by
  induction l with
  | nil => exact h
  | cons a as ih =>
    rcases mem_insertLock_imp (l := sortLocks r as) h with e | e
    · exact e ▸ List.mem_cons_self
    · exact List.mem_cons_of_mem _ (ih e)

/-- sorting loses no lock when the rank separates the locks of the list -/
theorem mem_sortLocks {r : Lock → Nat} {z : Lock} {l : List Lock} (hinj : ∀ x ∈ l, ∀ y ∈ l, r x = r y → x = y) :
    z ∈ sortLocks r l ↔ z ∈ l := by
  refine ⟨mem_sortLocks_imp, ?_⟩
  induction l with
  | nil => exact id
  | cons a as ih =>
    intro h
    have ih' := ih (fun x hx y hy => hinj x (List.mem_cons_of_mem _ hx) y (List.mem_cons_of_mem _ hy))
    show z ∈ insertLock r a (sortLocks r as)
    rw [mem_insertLock (fun y hy => hinj a List.mem_cons_self y (List.mem_cons_of_mem _ (mem_sortLocks_imp hy)))]
    rcases List.mem_cons.1 h with e | e
    · exact Or.inl e
    · exact Or.inr (ih' e)

/-- REPAIRED Rename: the locks it needs — the two parents and the nodes whose owner the sticky-bit rule reads (the
    moved node, the replaced node) — taken in the order of `rank`: by (depth, inode) for directories, files and links
    last.  (Go: compare the two parents before locking; a directory operand `oChild` sits one level below `oParent`.) -/
def renameOrdered (s : Store) (dp : Ino → Nat) (oParent nParent : Ino) (nds : List Ino) : List Lock :=
  sortLocks (rank s dp) ((oParent :: nParent :: nds).map .node)

/-- the repaired Rename is ranked, whatever its operands -/
theorem rename_ordered_ranked (s : Store) (dp : Ino → Nat) (oParent nParent : Ino) (nds : List Ino) :
    Increasing (rank s dp) (renameOrdered s dp oParent nParent nds) := sortLocks_increasing _ _

/-- … and takes exactly the locks of its (allocated) operands -/
theorem rename_ordered_mem {s : Store} (dp : Ino → Nat) (oParent nParent : Ino) (nds : List Ino)
    (hal : ∀ i ∈ oParent :: nParent :: nds, (s.get i).isSome = true) {root : Ino} (hwf : WF s root) (z : Lock) :
    z ∈ renameOrdered s dp oParent nParent nds ↔ ∃ i ∈ oParent :: nParent :: nds, z = .node i := by
  unfold renameOrdered
  rw [mem_sortLocks]
  · simp only [List.mem_map]
    constructor
    · rintro ⟨i, hi, e⟩; exact ⟨i, hi, e.symm⟩
    · rintro ⟨i, hi, e⟩; exact ⟨i, hi, e.symm⟩
  · intro x hx y hy hxy
    obtain ⟨i, hi, rfl⟩ := List.mem_map.1 hx
    obtain ⟨j, hj, rfl⟩ := List.mem_map.1 hy
    rw [rank_node_inj (hwf.bound i (hal i hi)) (hwf.bound j (hal j hj)) hxy]

/-- the acquisition table with the repaired Rename -/
def acquisitionsOrd (s : Store) (dp : Ino → Nat) : MCall → List Lock
  | .rename o n nd => renameOrdered s dp o n nd.toList
  | c => acquisitions c

theorem acquisitionsOrd_ranked {s : Store} {root : Ino} (hwf : WF s root) {dp : Ino → Nat} (hdp : DepthOK s dp)
    (c : MCall) (hv : Valid s c) : Increasing (rank s dp) (acquisitionsOrd s dp c) := by
  cases hc : c.isRename with
  | true =>
    cases c <;> simp only [MCall.isRename] at hc <;> try cases hc
    exact rename_ordered_ranked _ _ _ _ _
  | false =>
    have : acquisitionsOrd s dp c = acquisitions c := by
      cases c <;> first | rfl | cases hc
    rw [this]
    exact acquisitions_ranked hwf hdp c hv hc

/-- **with the repaired Rename no state is deadlocked**, Rename included (`dp` is any depth witness of the heap) -/
theorem memfs_no_deadlock_ordered_rename {T : Type} {s : Store} {root : Ino} (hwf : WF s root) {dp : Ino → Nat}
    (hdp : DepthOK s dp) (w : WaitSt T Lock) (th : T → MThread) (hd : Describes (acquisitionsOrd s dp) w th)
    (hv : ∀ t, Valid s (th t).call) : ¬ w.DeadlockedHeld ∧ (w.Consistent → ¬ w.Deadlocked) := by
  have hr : w.Ranked (rank s dp) :=
    ranked_of_increasing _ _ w th hd fun t => acquisitionsOrd_ranked hwf hdp _ (hv t)
  exact ⟨ranked_deadlock_free_held w _ hr, fun hc => ranked_deadlock_free w hc _ hr⟩

end Avfs.FS
